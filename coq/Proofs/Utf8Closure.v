(* C11: given valid UTF-8 input, every string in the result is valid UTF-8.

   wf_text               every string of a value - array elements, object members AND
                         object keys - is valid UTF-8 (valid_utf8 s = true); numbers,
                         booleans, null and foreign values are unconstrained
   node_text_ok          every string the AST can put into a result is valid UTF-8:
                         raw/quoted string literals, JSON literals, multi-select hash
                         keys.  (Field names, variable names and number texts need no
                         assumption: they never flow into a result string.)
   eval_preserves_utf8   eval keeps wf_text (root, current node and scope being wf_text)
   search_preserves_utf8 the same for Api.expression_search / Api.search *)
From Coq Require Import List ZArith Bool Lia.
From JM Require Import Base.Outcome Base.Bytes Base.GoInt Base.Utf8 Num.Dec Num.Flt Json.Value
  Json.JsonPrint
  Model.Ast Model.Parser Model.Compare Model.NumberFns Model.Slice Model.StringFns Model.Array
  Model.Functions Model.Eval Model.Api
  Proofs.Utf8Theory Proofs.StringCodePoints Proofs.EqualTheory Proofs.Scoping Proofs.Closure.
Import ListNotations.
Open Scope Z_scope.

Local Notation E := encode_all.

(* ================================================================== *)
(* 1. valid UTF-8 byte strings                                         *)
(* ================================================================== *)

Definition V (s : bytes) : Prop := valid_utf8 s = true.

Lemma enc_shape_bytes_ok c e : enc_shape c e -> bytes_ok e = true.
Proof.
  destruct 1; unfold bytes_ok, byte_ok; cbn [forallb]; ztests; reflexivity.
Qed.

Lemma encode_rune_fffd r : scalar_ok r = false -> encode_rune r = encode_rune 65533.
Proof. intros H. unfold encode_rune at 1. rewrite H. reflexivity. Qed.

Lemma bytes_ok_encode_rune r : bytes_ok (encode_rune r) = true.
Proof.
  destruct (scalar_ok r) eqn:H.
  - eapply enc_shape_bytes_ok, encode_rune_shape, H.
  - rewrite (encode_rune_fffd r H). reflexivity.
Qed.

Lemma bytes_ok_app a b : bytes_ok (a ++ b) = bytes_ok a && bytes_ok b.
Proof. apply forallb_app. Qed.

Lemma bytes_ok_E rs : bytes_ok (E rs) = true.
Proof.
  induction rs as [|r rs IH]; [reflexivity|].
  rewrite encode_all_cons, bytes_ok_app, bytes_ok_encode_rune, IH. reflexivity.
Qed.

Lemma V_bytes_ok s : V s -> bytes_ok s = true.
Proof. intros H. rewrite (valid_utf8_inv s H). apply bytes_ok_E. Qed.

(* valid strings are exactly the encodings of lists of scalar values *)
Lemma V_iff s : V s <-> exists cs, scalars cs /\ s = E cs.
Proof.
  split.
  - intros H. apply valid_utf8_iff; [apply V_bytes_ok|]; exact H.
  - intros (cs & Hcs & ->). apply valid_utf8_encode_all, Hcs.
Qed.

Lemma V_E cs : scalars cs -> V (E cs).
Proof. apply valid_utf8_encode_all. Qed.

(* whatever the runes, AppendRune writes valid UTF-8 (U+FFFD for a non-scalar) *)
Definition fix_rune (r : Z) : Z := if scalar_ok r then r else 65533.
Lemma E_fix rs : E rs = E (map fix_rune rs).
Proof.
  induction rs as [|r rs IH]; [reflexivity|]. cbn [map]. rewrite !encode_all_cons, IH. f_equal.
  unfold fix_rune. destruct (scalar_ok r) eqn:H; [reflexivity|apply encode_rune_fffd, H].
Qed.
Lemma V_E_any rs : V (E rs).
Proof.
  rewrite E_fix. apply V_E. induction rs as [|r rs IH]; [constructor|].
  cbn [map]. constructor; [|exact IH]. unfold fix_rune. destruct (scalar_ok r) eqn:H; [exact H|reflexivity].
Qed.

Lemma V_nil : V [].
Proof. reflexivity. Qed.

Lemma V_app a b : V a -> V b -> V (a ++ b).
Proof.
  intros Ha Hb. apply V_iff in Ha as (ca & Hca & ->). apply V_iff in Hb as (cb & Hcb & ->).
  rewrite <- encode_all_app. apply V_E. apply scalars_app. split; assumption.
Qed.

Lemma V_concat l : Forall V l -> V (concat l).
Proof. induction 1; [exact V_nil|]. cbn [concat]. apply V_app; assumption. Qed.

(* ASCII text *)
Definition ascii_byte (b : Z) : bool := (0 <=? b) && (b <? 128).
Definition ascii (s : bytes) : Prop := forallb ascii_byte s = true.

Lemma ascii_nil : ascii []. Proof. reflexivity. Qed.
Lemma ascii_cons b s : ascii (b :: s) <-> ascii_byte b = true /\ ascii s.
Proof. unfold ascii. cbn [forallb]. apply andb_true_iff. Qed.
Lemma ascii_app a b : ascii a -> ascii b -> ascii (a ++ b).
Proof. unfold ascii. intros Ha Hb. rewrite forallb_app, Ha, Hb. reflexivity. Qed.

Lemma encode_rune_ascii b : ascii_byte b = true -> encode_rune b = [b] /\ scalar_ok b = true.
Proof.
  unfold ascii_byte. intros H. b2p. unfold encode_rune, scalar_ok, is_surrogate. ztests. split; reflexivity.
Qed.

Lemma V_ascii s : ascii s -> V s.
Proof.
  intros H. apply V_iff. exists s. induction s as [|b s IH]; [split; [constructor|reflexivity]|].
  apply ascii_cons in H as [Hb Hs]. destruct (IH Hs) as [IH1 IH2].
  destruct (encode_rune_ascii b Hb) as [He Hsc].
  split; [constructor; assumption|]. rewrite encode_all_cons, He, <- IH2. reflexivity.
Qed.

(* ================================================================== *)
(* 2. values whose strings are valid UTF-8                             *)
(* ================================================================== *)

Fixpoint wf_text (v : value) : bool :=
  match v with
  | VStr s => valid_utf8 s
  | VArr l => forallb wf_text l
  | VObj m => forallb (fun kv => valid_utf8 (fst kv) && wf_text (snd kv)) m
  | _ => true
  end.

Definition WT (v : value) : Prop := wf_text v = true.
Definition WTs (l : list value) : Prop := forall x, In x l -> WT x.
Definition WTm (m : list (bytes * value)) : Prop := forall k x, In (k, x) m -> V k /\ WT x.

Lemma WT_str s : WT (VStr s) <-> V s.
Proof. reflexivity. Qed.
Lemma WT_arr l : WT (VArr l) <-> WTs l.
Proof. unfold WT, WTs. cbn [wf_text]. apply forallb_forall. Qed.
Lemma WT_obj m : WT (VObj m) <-> WTm m.
Proof.
  unfold WT, WTm. cbn [wf_text]. rewrite forallb_forall. split.
  - intros H k x Hin. specialize (H (k, x) Hin). cbn [fst snd] in H. apply andb_true_iff in H. exact H.
  - intros H [k x] Hin. cbn [fst snd]. apply andb_true_iff. exact (H k x Hin).
Qed.

Lemma WTs_nil : WTs []. Proof. intros x []. Qed.
Lemma WTs_cons x l : WT x -> WTs l -> WTs (x :: l).
Proof. intros Hx Hl y [<-|Hy]; auto. Qed.
Lemma WTs_inv x l : WTs (x :: l) -> WT x /\ WTs l.
Proof. intros H. split; [apply H; left; reflexivity|intros y Hy; apply H; right; exact Hy]. Qed.
Lemma WTs_app a b : WTs a -> WTs b -> WTs (a ++ b).
Proof. intros Ha Hb x Hx. apply in_app_or in Hx as [Hx|Hx]; auto. Qed.
Lemma WTs_incl a b : incl a b -> WTs b -> WTs a.
Proof. intros Hi Hb x Hx. apply Hb, Hi, Hx. Qed.
Lemma WTs_filter p l : WTs l -> WTs (List.filter p l).
Proof. apply WTs_incl. intros x Hx. apply filter_In in Hx. apply Hx. Qed.
Lemma WTs_firstn k l : WTs l -> WTs (firstn k l).
Proof. apply WTs_incl. intros x Hx. rewrite <- (firstn_skipn k l). apply in_or_app. left. exact Hx. Qed.
Lemma WTs_skipn k l : WTs l -> WTs (skipn k l).
Proof. apply WTs_incl. intros x Hx. rewrite <- (firstn_skipn k l). apply in_or_app. right. exact Hx. Qed.
Lemma WTs_rev l : WTs l -> WTs (rev l).
Proof. apply WTs_incl. intros x Hx. apply in_rev. exact Hx. Qed.
Lemma WTs_nth l k : WTs l -> WT (nth k l VNull).
Proof. intros H. destruct (nth_in_or_default k l VNull) as [Hin| ->]; [apply H; exact Hin|reflexivity]. Qed.
Lemma WT_map_VStr l : Forall V l -> WT (VArr (map VStr l)).
Proof.
  intros H. apply WT_arr. intros x Hx. apply in_map_iff in Hx as [s [<- Hs]].
  rewrite Forall_forall in H. exact (H s Hs).
Qed.
Lemma WT_vint z : WT (vint z). Proof. reflexivity. Qed.
Lemma WT_vdec d : WT (vdec d). Proof. reflexivity. Qed.
Lemma WT_num n : WT (VNum n). Proof. reflexivity. Qed.
Lemma WT_bool b : WT (VBool b). Proof. reflexivity. Qed.
Lemma WT_null : WT VNull. Proof. reflexivity. Qed.

(* ---- association lists ---- *)
Lemma WTm_nil : WTm []. Proof. intros k x []. Qed.
Lemma WTm_cons k x m : V k -> WT x -> WTm m -> WTm ((k, x) :: m).
Proof. intros Hk Hx Hm k' x' [[= <- <-]|Hin]; [split; assumption|exact (Hm _ _ Hin)]. Qed.
Lemma WTm_values m : WTm m -> WTs (map snd m).
Proof. intros H x Hx. apply in_map_iff in Hx as [[k y] [<- Hin]]. exact (proj2 (H k y Hin)). Qed.
Lemma WTm_keys m : WTm m -> Forall V (map fst m).
Proof.
  intros H. apply Forall_forall. intros k Hk. apply in_map_iff in Hk as [[k' y] [<- Hin]].
  exact (proj1 (H k' y Hin)).
Qed.

Lemma assoc_In_pair {A} k (m : list (bytes * A)) x : assoc k m = Some x -> In (k, x) m.
Proof.
  induction m as [|[k' y] r IH]; [discriminate|]. cbn [assoc In].
  destruct (beqb k k') eqn:Ek; [intros [= ->]; apply beqb_eq in Ek; subst; left; reflexivity|].
  intros H. right. exact (IH H).
Qed.
Lemma In_assoc_set_pair {A} k (v : A) m k' x :
  In (k', x) (assoc_set k v m) -> (k', x) = (k, v) \/ In (k', x) m.
Proof.
  induction m as [|[k0 v0] r IH]; cbn [assoc_set In].
  - intros [H|[]]. left. symmetry. exact H.
  - destruct (beqb k k0); cbn [In].
    + intros [H|H]; [left; symmetry; exact H|right; right; exact H].
    + intros [H|H]; [right; left; exact H|]. destruct (IH H); [left|right; right]; assumption.
Qed.
Lemma WTm_assoc_set k v m : V k -> WT v -> WTm m -> WTm (assoc_set k v m).
Proof.
  intros Hk Hv Hm k' x Hin. apply In_assoc_set_pair in Hin as [[= -> ->]|Hin]; [split; assumption|].
  exact (Hm _ _ Hin).
Qed.
Lemma WTm_fold m : forall acc, WTm m -> WTm acc ->
  WTm (fold_left (fun acc kv => assoc_set (fst kv) (snd kv) acc) m acc).
Proof.
  induction m as [|[k x] r IH]; intros acc Hm Ha; [exact Ha|]. cbn [fold_left fst snd].
  destruct (Hm k x (or_introl eq_refl)) as [Hk Hx].
  apply IH; [intros k' x' Hin; apply Hm; right; exact Hin|]. apply WTm_assoc_set; assumption.
Qed.

(* ================================================================== *)
(* 3. string built-ins (string.go, and the string cases of slice.go)   *)
(* ================================================================== *)

Lemma okP_str_arg {B} (Q : B -> Prop) v (f : bytes -> outcome B) :
  WT v -> (forall s, V s -> v = VStr s -> okP Q (f s)) -> okP Q (bind (str_arg v) f).
Proof.
  destruct v; try (intros; exact I). intros H K. cbn [str_arg bind]. apply K; [exact H|reflexivity].
Qed.

(* ---- join ---- *)
Lemma wt_join_loop sep l : V sep -> WTs l -> okP V (join_loop sep l).
Proof.
  intros Hs. induction l as [|v l IH]; intros Hl; [exact V_nil|].
  apply WTs_inv in Hl as [Hv Hl]. cbn [join_loop].
  apply okP_str_arg; [exact Hv|]. intros e He _.
  eapply okP_bind; [apply IH, Hl|]. intros r Hr. cbn [okP].
  apply V_app; [assumption|apply V_app; assumption].
Qed.
Lemma wt_join a b : WT a -> WT b -> okP WT (join a b).
Proof.
  intros Ha Hb. unfold join. destruct b as [| | | |l| |]; try exact I. apply WT_arr in Hb.
  apply okP_str_arg; [exact Ha|]. intros s Hs _. destruct l as [|v l]; [exact V_nil|].
  apply WTs_inv in Hb as [Hv Hl]. apply okP_str_arg; [exact Hv|]. intros e He _.
  eapply okP_bind; [apply wt_join_loop; eassumption|]. intros r Hr. cbn [okP].
  apply WT_str, V_app; assumption.
Qed.

(* ---- pad: any valid pad string would do; the one-code-point check is not needed here ---- *)
Lemma V_repeat_bytes k p : V p -> V (repeat_bytes k p).
Proof. intros H. induction k; [exact V_nil|]. cbn [repeat_bytes]. apply V_app; assumption. Qed.
Lemma wt_pad left a w p :
  WT a -> match p with Some pv => WT pv | None => True end -> okP WT (pad left a w p).
Proof.
  intros Ha Hp. unfold pad. apply okP_str_arg; [exact Ha|]. intros s Hs Es.
  eapply (okP_bind V).
  { destruct p as [pv|]; [|reflexivity]. destruct pv; try exact I. exact Hp. }
  intros q Hq. apply okP_bind_any. intros w'.
  destruct (w' <? 0); [exact I|]. destruct (negb _); [exact I|]. cbv zeta.
  destruct (_ <=? 0); [exact Ha|]. cbn [okP]. apply WT_str.
  destruct left; apply V_app; auto using V_repeat_bytes.
Qed.

(* ---- replace ---- *)
Lemma breplace_V s o n k : V s -> V o -> V n -> V (breplace s o n k).
Proof. intros Hs Ho Hn. apply breplace_valid; try apply V_bytes_ok; assumption. Qed.
Lemma wt_replace a b c : WT a -> WT b -> WT c -> okP WT (replace a b c).
Proof.
  intros Ha Hb Hc. unfold replace.
  apply okP_str_arg; [exact Ha|]; intros s Hs _. apply okP_str_arg; [exact Hb|]; intros o Ho _.
  apply okP_str_arg; [exact Hc|]; intros n Hn _. cbn [okP]. apply WT_str, breplace_V; assumption.
Qed.
Lemma wt_replace_count a b c d : WT a -> WT b -> WT c -> okP WT (replace_count a b c d).
Proof.
  intros Ha Hb Hc. unfold replace_count.
  apply okP_str_arg; [exact Ha|]; intros s Hs _. apply okP_str_arg; [exact Hb|]; intros o Ho _.
  apply okP_str_arg; [exact Hc|]; intros n Hn _. apply okP_bind_any. intros k.
  destruct (k <? 0); [exact I|]. cbn [okP]. apply WT_str, breplace_V; assumption.
Qed.

(* ---- split ---- *)
Lemma split_sep_V k s p : V s -> V p -> Forall V (split_sep k s p).
Proof.
  intros Hs Hp. apply V_iff in Hs as (cs & Hcs & ->). apply V_iff in Hp as (ps & Hps & ->).
  rewrite split_sep_encode_all by assumption. rewrite Forall_map.
  eapply Forall_impl; [|apply cp_split_scalars, Hcs]. intros a Ha. apply V_E, Ha.
Qed.
Lemma split_runes_E k : forall cs, scalars cs -> Forall V (split_runes k (E cs)).
Proof.
  induction k as [|k IH]; intros cs H; cbn [split_runes].
  - constructor; [apply V_E, H|constructor].
  - destruct cs as [|c cs].
    + change (E []) with (@nil Z). cbn [decode_rune Z.to_nat firstn skipn].
      constructor; [exact V_nil|]. apply (IH [] H).
    + apply scalars_cons in H as [Hc Hcs]. rewrite encode_all_cons, decode_encode_rune by assumption.
      rewrite Nat2Z.id, firstn_len_app, skipn_len_app.
      constructor; [|apply IH, Hcs]. rewrite <- encode_all_single. apply V_E. constructor; [assumption|constructor].
Qed.
Lemma split_runes_V k s : V s -> Forall V (split_runes k s).
Proof. intros H. apply V_iff in H as (cs & Hcs & ->). apply split_runes_E, Hcs. Qed.

Lemma wt_split a b : WT a -> WT b -> okP WT (split a b).
Proof.
  intros Ha Hb. unfold split.
  apply okP_str_arg; [exact Ha|]; intros s Hs _. apply okP_str_arg; [exact Hb|]; intros p Hp _.
  destruct s as [|b0 s]; [reflexivity|]. destruct p; cbn [okP]; apply WT_map_VStr.
  - apply split_runes_V, Hs.
  - apply split_sep_V; assumption.
Qed.
Lemma wt_split_count a b c : WT a -> WT b -> okP WT (split_count a b c).
Proof.
  intros Ha Hb. unfold split_count.
  apply okP_str_arg; [exact Ha|]; intros s Hs _. apply okP_str_arg; [exact Hb|]; intros p Hp _.
  apply okP_bind_any. intros n. destruct (n <? 0); [exact I|].
  destruct (n =? 0). { cbn [okP]. apply WT_arr, WTs_cons; [exact Hs|exact WTs_nil]. }
  destruct s as [|b0 s]; [reflexivity|]. destruct p; cbv zeta; cbn [okP]; apply WT_map_VStr.
  - apply split_runes_V, Hs.
  - apply split_sep_V; assumption.
Qed.

(* ---- trim ---- *)
Lemma trim_left_V p s : V s -> V (trim_left_fn p s).
Proof. intros H. apply (trim_fn_valid p s); [apply V_bytes_ok|]; exact H. Qed.
Lemma trim_right_V p s : V s -> V (trim_right_fn p s).
Proof. intros H. apply (trim_fn_valid p s); [apply V_bytes_ok|]; exact H. Qed.

Lemma wt_trim_space a : WT a -> okP WT (trim_space a).
Proof.
  intros Ha. unfold trim_space. apply okP_str_arg; [exact Ha|]; intros s Hs _.
  cbn [okP]. apply WT_str, trim_right_V, trim_left_V, Hs.
Qed.
Lemma wt_trim_space_left a : WT a -> okP WT (trim_space_left a).
Proof.
  intros Ha. unfold trim_space_left. apply okP_str_arg; [exact Ha|]; intros s Hs _.
  cbn [okP]. apply WT_str, trim_left_V, Hs.
Qed.
Lemma wt_trim_space_right a : WT a -> okP WT (trim_space_right a).
Proof.
  intros Ha. unfold trim_space_right. apply okP_str_arg; [exact Ha|]; intros s Hs _.
  cbn [okP]. apply WT_str, trim_right_V, Hs.
Qed.
Lemma wt_trim a b : WT a -> WT b -> okP WT (trim a b).
Proof.
  intros Ha Hb. unfold trim. apply okP_str_arg; [exact Ha|]; intros s Hs _.
  apply okP_str_arg; [exact Hb|]; intros p Hp _.
  destruct p; cbn [okP]; apply WT_str, trim_right_V, trim_left_V, Hs.
Qed.
Lemma wt_trim_left a b : WT a -> WT b -> okP WT (trim_left a b).
Proof.
  intros Ha Hb. unfold trim_left. apply okP_str_arg; [exact Ha|]; intros s Hs _.
  apply okP_str_arg; [exact Hb|]; intros p Hp _.
  destruct p; cbn [okP]; apply WT_str, trim_left_V, Hs.
Qed.
Lemma wt_trim_right a b : WT a -> WT b -> okP WT (trim_right a b).
Proof.
  intros Ha Hb. unfold trim_right. apply okP_str_arg; [exact Ha|]; intros s Hs _.
  apply okP_str_arg; [exact Hb|]; intros p Hp _.
  destruct p; cbn [okP]; apply WT_str, trim_right_V, Hs.
Qed.

(* ---- lower / upper (the model decides them on ASCII only; otherwise Unmodelled) ---- *)
Lemma all_ascii_V s : V s -> all_ascii s = true -> ascii s.
Proof.
  intros H A. apply V_bytes_ok in H. unfold ascii, all_ascii, bytes_ok in *.
  induction s as [|b s IH]; [reflexivity|]. cbn [forallb] in *.
  apply andb_true_iff in H as [H1 H2]. apply andb_true_iff in A as [A1 A2].
  rewrite (IH H2 A2), andb_true_r. unfold byte_ok in H1. unfold ascii_byte. b2p.
  apply andb_true_iff. split; [apply Z.leb_le|apply Z.ltb_lt]; lia.
Qed.
Lemma ascii_map f s : (forall b, ascii_byte b = true -> ascii_byte (f b) = true) -> ascii s -> ascii (map f s).
Proof.
  intros Hf. unfold ascii. induction s as [|b s IH]; [reflexivity|]. cbn [map forallb]. intros H.
  apply andb_true_iff in H as [H1 H2]. rewrite (Hf b H1), (IH H2). reflexivity.
Qed.
Lemma wt_lower v : WT v -> okP WT (lower v).
Proof.
  destruct v; try (intros; exact I). intros H. cbn [lower]. destruct (all_ascii s) eqn:A; [|exact (V_E_any _)].
  cbn [okP]. apply WT_str, V_ascii, ascii_map; [|apply all_ascii_V; assumption].
  intros b Hb. unfold ascii_byte in *. b2p. destruct ((65 <=? b) && (b <=? 90)) eqn:C; b2p;
    apply andb_true_iff; (split; [apply Z.leb_le|apply Z.ltb_lt]); lia.
Qed.
Lemma wt_upper v : WT v -> okP WT (upper v).
Proof.
  destruct v; try (intros; exact I). intros H. cbn [upper]. destruct (all_ascii s) eqn:A; [|exact (V_E_any _)].
  cbn [okP]. apply WT_str, V_ascii, ascii_map; [|apply all_ascii_V; assumption].
  intros b Hb. unfold ascii_byte in *. b2p. destruct ((97 <=? b) && (b <=? 122)) eqn:C; b2p;
    apply andb_true_iff; (split; [apply Z.leb_le|apply Z.ltb_lt]); lia.
Qed.

(* ---- results that hold no string ---- *)
Ltac no_str := okp; reflexivity.
Lemma wt_ends_with a b : okP WT (ends_with a b). Proof. unfold ends_with. no_str. Qed.
Lemma wt_starts_with a b : okP WT (starts_with a b). Proof. unfold starts_with. no_str. Qed.
Lemma wt_find_first a b : okP WT (find_first a b). Proof. unfold find_first. no_str. Qed.
Lemma wt_find_last a b : okP WT (find_last a b). Proof. unfold find_last. no_str. Qed.
Lemma wt_find_from l a b c : okP WT (find_from l a b c). Proof. unfold find_from. no_str. Qed.
Lemma wt_find_between l a b c d : okP WT (find_between l a b c d). Proof. unfold find_between. no_str. Qed.
Lemma wt_contains a b : okP WT (contains a b). Proof. unfold contains. no_str. Qed.
Lemma wt_length v : okP WT (length_ v). Proof. destruct v; try exact I; reflexivity. Qed.

(* ---- reverse and slices: strings are cut at code point boundaries ---- *)
Lemma wt_reverse v : WT v -> okP WT (reverse v).
Proof.
  destruct v as [| |s| |a| |]; try (intros; exact I); intros H; cbn [reverse okP].
  - exact (V_E_any _).
  - apply WT_arr in H. apply WT_arr, WTs_rev, H.
Qed.

Lemma wt_slice v start stop : WT v -> okP WT (slice v start stop).
Proof.
  destruct v as [| |s| |a| |]; try (intros; reflexivity).
  - intros H. destruct (slice_valid s start stop (V_bytes_ok s H) H) as (r & -> & Hr). exact Hr.
  - intros H. apply WT_arr in H. cbn [slice]. destruct (norm1 _ _ _ _); [reflexivity|].
    unfold sub. destruct (_ && _); [|exact I]. cbn [bind okP]. apply WT_arr.
    apply WTs_firstn, WTs_skipn. exact H.
Qed.

Lemma wt_pick a : WTs a -> forall k j step, okP WTs (pick a k j step).
Proof.
  intros H. induction k as [|k IH]; intros j step; [exact WTs_nil|]. cbn [pick].
  unfold at_ at 1. destruct (_ && _); [|exact I].
  destruct (nth_error a (Z.to_nat j)) as [x|] eqn:Ex; [|exact I]. cbn [bind].
  eapply okP_bind; [apply IH|]. intros r Hr. cbn [okP]. apply WTs_cons; [|exact Hr].
  apply H. eapply nth_error_In. exact Ex.
Qed.

(* on a string every Ok result is encode_all of something: always valid, even for the
   U+FFFD defaults of out-of-range picks *)
Lemma wt_slice_step v start stop step : WT v -> okP WT (slice_step v start stop step).
Proof.
  destruct v as [| |s| |a| |]; try (intros; reflexivity).
  - intros _. cbn [slice_step]. cbv zeta. destruct (norm_step _ _ _ _) as [[i n]|]; [|reflexivity].
    destruct (step =? 0); [exact I|]. destruct (step >? 0); exact (V_E_any _).
  - intros H. apply WT_arr in H. cbn [slice_step]. destruct (norm_step _ _ _ _) as [[i n]|]; [|reflexivity].
    destruct (step =? 0); [exact I|]. destruct (_ || _); [exact I|].
    eapply okP_bind; [apply wt_pick; exact H|]. intros r Hr. apply WT_arr. exact Hr.
Qed.

(* ================================================================== *)
(* 4. to_string: encoding/json output is valid UTF-8                   *)
(* ================================================================== *)

(* ---- number text ---- *)
Lemma take_digits_P (P : Z -> bool) : (forall b, is_digit b = true -> P b = true) ->
  forall s a n x m r, take_digits s a n = (x, m, r) -> forallb P r = true -> forallb P s = true.
Proof.
  intros HP. induction s as [|b s IH]; intros a n x m r; simpl take_digits.
  - intros H; inversion H; auto.
  - destruct (is_digit b) eqn:D.
    + intros H F. cbn [forallb]. rewrite (IH _ _ _ _ _ H F), (HP b D). reflexivity.
    + intros H; inversion H; auto.
Qed.

(* every byte of RFC 8259 number text satisfies P, for any P true on digits - + . e E *)
Lemma json_number_chars (P : Z -> bool) :
  (forall b, is_digit b = true -> P b = true) ->
  P 45 = true -> P 43 = true -> P 46 = true -> P 101 = true -> P 69 = true ->
  forall s, json_number_ok s = true -> forallb P s = true.
Proof.
  intros HD P45 P43 P46 P101 P69 s J.
  assert (Peq : forall b c, (b =? c) = true -> P c = true -> P b = true).
  { intros b c Hbc Hc. apply Z.eqb_eq in Hbc. subst. exact Hc. }
  assert (P48 : P 48 = true) by (apply HD; reflexivity).
  rewrite json_number_ok_stages in J.
  destruct (jn_int (strip_minus s)) as [r1|] eqn:JI; [|discriminate].
  destruct (jn_frac r1) as [r2|] eqn:JF; [|discriminate].
  assert (F2 : forallb P r2 = true).
  { rewrite jn_exp_alt in J. destruct r2 as [|b r]; [reflexivity|].
    destruct ((b =? 101) || (b =? 69)) eqn:Eb; [|discriminate]. cbv zeta in J.
    assert (Hb : P b = true).
    { apply orb_true_iff in Eb as [Eb|Eb]; eapply Peq; eauto. }
    cbn [forallb]. rewrite Hb. cbn [andb].
    match type of J with context [take_digits ?R 0 0] =>
      destruct (take_digits R 0 0) as [[x n] r''] eqn:T end.
    apply andb_true_iff in J as [_ J]. destruct r'' as [|? ?]; [|discriminate].
    apply (take_digits_P P HD) in T; [|reflexivity].
    destruct r as [|c t]; [reflexivity|].
    destruct ((c =? 45) || (c =? 43)) eqn:Ec; [|exact T].
    cbn [forallb]. rewrite T, andb_true_r.
    apply orb_true_iff in Ec as [Ec|Ec]; eapply Peq; eauto. }
  assert (F1 : forallb P r1 = true).
  { rewrite jn_frac_alt in JF. destruct r1 as [|b r]; [reflexivity|].
    destruct (b =? 46) eqn:Eb; [|inversion JF; subst r2; exact F2].
    destruct (take_digits r 0 0) as [[x n] r'] eqn:T. destruct (n =? 0); [discriminate|].
    inversion JF; subst r'. cbn [forallb]. rewrite (take_digits_P P HD _ _ _ _ _ _ T F2), andb_true_r.
    eapply Peq; eauto. }
  assert (F0 : forallb P (strip_minus s) = true).
  { rewrite jn_int_alt in JI. destruct (strip_minus s) as [|b r]; [discriminate|].
    destruct (b =? 48) eqn:Eb.
    { inversion JI; subst r1. cbn [forallb]. rewrite F1, andb_true_r. eapply Peq; eauto. }
    destruct ((49 <=? b) && (b <=? 57)) eqn:D; [|discriminate].
    destruct (take_digits r 0 0) as [[x n] r'] eqn:T. inversion JI; subst r'.
    cbn [forallb]. rewrite (take_digits_P P HD _ _ _ _ _ _ T F1), andb_true_r.
    apply HD. unfold is_digit. b2p. apply andb_true_iff. split; [apply Z.leb_le|apply Z.leb_le]; lia. }
  rewrite strip_minus_alt in F0. destruct s as [|b r]; [reflexivity|].
  destruct (b =? 45) eqn:Eb; [|exact F0].
  cbn [forallb]. rewrite F0, andb_true_r. eapply Peq; eauto.
Qed.

Lemma json_number_ascii t : json_number_ok t = true -> ascii t.
Proof.
  apply (json_number_chars ascii_byte); try reflexivity.
  intros b H. unfold is_digit in H. unfold ascii_byte. b2p.
  apply andb_true_iff. split; [apply Z.leb_le|apply Z.ltb_lt]; lia.
Qed.

Lemma ascii_byte_intro b : 0 <= b < 128 -> ascii_byte b = true.
Proof. intros H. unfold ascii_byte. apply andb_true_iff. split; [apply Z.leb_le|apply Z.ltb_lt]; lia. Qed.

Lemma digits_of_f_ascii : forall fuel c acc, 0 <= c -> ascii acc -> ascii (digits_of_f fuel c acc).
Proof.
  induction fuel as [|f IH]; intros c acc Hc Ha; [exact Ha|]. cbn [digits_of_f].
  destruct (Z.ltb_spec c 10).
  - apply ascii_cons. split; [apply ascii_byte_intro; lia|exact Ha].
  - apply IH; [apply Z.div_pos; lia|]. apply ascii_cons. split; [|exact Ha].
    apply ascii_byte_intro. pose proof (Z.mod_pos_bound c 10). lia.
Qed.
Lemma digits_of_ascii c : ascii (digits_of c).
Proof. apply digits_of_f_ascii; [apply Z.abs_nonneg|exact ascii_nil]. Qed.
Lemma Z_to_bytes_ascii z : ascii (Z_to_bytes z).
Proof.
  unfold Z_to_bytes. destruct (z <? 0); [|apply digits_of_ascii].
  apply ascii_cons. split; [reflexivity|apply digits_of_ascii].
Qed.

Lemma jnum_V n : okP V (jnum n).
Proof.
  destruct n as [t|d|sg f|k z]; cbn [jnum].
  - destruct t as [|b t]; [reflexivity|]. destruct (json_number_ok (b :: t)) eqn:J; [|exact I].
    apply V_ascii, json_number_ascii, J.
  - destruct d; exact I.
  - destruct f; exact I.
  - apply V_ascii, Z_to_bytes_ascii.
Qed.

(* ---- quoted strings ---- *)
Definition jesc_low (b : Z) : bytes :=
  if b =? 34 then [92; 34] else if b =? 92 then [92; 92]
  else if b =? 10 then [92; 110] else if b =? 13 then [92; 114] else if b =? 9 then [92; 116]
  else if b =? 8 then [92; 98] else if b =? 12 then [92; 102]
  else if (b <? 32) || (b =? 60) || (b =? 62) || (b =? 38) || (b =? 127) then u00 b
  else [b].

Lemma jescape_f_low f b r : b < 128 -> jescape_f (S f) (b :: r) = jesc_low b ++ jescape_f f r.
Proof. intros H. cbn [jescape_f]. apply Z.ltb_lt in H. rewrite H. reflexivity. Qed.

Lemma jescape_f_high f b r : 128 <= b -> jescape_f (S f) (b :: r) =
  let '(c, sz) := decode_rune (b :: r) in
  let rest := skipn (Z.to_nat sz) (b :: r) in
  if (c =? RuneError) && (sz =? 1) then [92; 117; 102; 102; 102; 100] ++ jescape_f f rest
  else if (c =? 8232) then [92; 117; 50; 48; 50; 56] ++ jescape_f f rest
  else if (c =? 8233) then [92; 117; 50; 48; 50; 57] ++ jescape_f f rest
  else firstn (Z.to_nat sz) (b :: r) ++ jescape_f f rest.
Proof. intros H. cbn [jescape_f]. apply Z.ltb_ge in H. rewrite H. reflexivity. Qed.

Lemma hexchar_ascii d : 0 <= d < 16 -> ascii_byte (hexchar d) = true.
Proof. intros H. unfold hexchar. destruct (d <? 10); apply ascii_byte_intro; lia. Qed.
Lemma u00_ascii b : 0 <= b < 128 -> ascii (u00 b).
Proof.
  intros H. unfold u00, ascii. cbn [forallb].
  rewrite !hexchar_ascii; [reflexivity| |].
  - pose proof (Z.mod_pos_bound b 16). lia.
  - split; [apply Z.div_pos; lia|]. apply Z.div_lt_upper_bound; lia.
Qed.
Lemma jesc_low_ascii b : 0 <= b < 128 -> ascii (jesc_low b).
Proof.
  intros H. unfold jesc_low.
  repeat match goal with |- ascii (if ?c then _ else _) => destruct c; [reflexivity|] end.
  destruct (_ || _); [apply u00_ascii, H|]. apply ascii_cons. split; [apply ascii_byte_intro, H|exact ascii_nil].
Qed.

Definition jesc_high (c : Z) (e : bytes) : bytes :=
  if c =? 8232 then [92; 117; 50; 48; 50; 56] else if c =? 8233 then [92; 117; 50; 48; 50; 57] else e.

Lemma jescape_f_enc f c e t : enc_shape c e -> 128 <= c ->
  jescape_f (S f) (e ++ t) = jesc_high c e ++ jescape_f f t.
Proof.
  intros Sh Hc. pose proof (decode_shape c e t Sh) as D. unfold jesc_high.
  destruct Sh; cbn [app] in *; [lia| | |];
    (rewrite jescape_f_high by lia); rewrite D; cbv beta iota zeta.
  - change (Z.of_nat (length [b0; b1])) with 2. change (2 =? 1) with false. rewrite andb_false_r.
    change (Z.to_nat 2) with 2%nat. cbn [skipn firstn].
    destruct (c =? 8232); [reflexivity|]. destruct (c =? 8233); reflexivity.
  - change (Z.of_nat (length [b0; b1; b2])) with 3. change (3 =? 1) with false. rewrite andb_false_r.
    change (Z.to_nat 3) with 3%nat. cbn [skipn firstn].
    destruct (c =? 8232); [reflexivity|]. destruct (c =? 8233); reflexivity.
  - change (Z.of_nat (length [b0; b1; b2; b3])) with 4. change (4 =? 1) with false. rewrite andb_false_r.
    change (Z.to_nat 4) with 4%nat. cbn [skipn firstn].
    destruct (c =? 8232); [reflexivity|]. destruct (c =? 8233); reflexivity.
Qed.

Lemma jescape_E : forall f cs, scalars cs -> (length (E cs) <= f)%nat -> V (jescape_f f (E cs)).
Proof.
  induction f as [|f IH]; intros cs Hcs Hlen; [exact V_nil|].
  destruct cs as [|c cs]; [exact V_nil|].
  apply scalars_cons in Hcs as [Hc Hcs]. rewrite encode_all_cons in *.
  pose proof (encode_rune_shape c Hc) as Sh. pose proof (enc_shape_length _ _ Sh) as Le.
  assert (IHr : V (jescape_f f (E cs))).
  { apply IH; [exact Hcs|]. rewrite app_length in Hlen. lia. }
  destruct (Z.lt_ge_cases c 128) as [Hlo|Hhi].
  - inversion Sh as [H0 He| | |]; try lia.
    cbn [app]. rewrite jescape_f_low by lia. apply V_app; [|exact IHr].
    apply V_ascii, jesc_low_ascii. lia.
  - rewrite (jescape_f_enc f c _ _ Sh Hhi). apply V_app; [|exact IHr]. unfold jesc_high.
    destruct (c =? 8232); [reflexivity|]. destruct (c =? 8233); [reflexivity|].
    rewrite <- encode_all_single. apply V_E. constructor; [exact Hc|constructor].
Qed.

Lemma jquote_V s : V s -> V (jquote s).
Proof.
  intros H. unfold jquote. change (34 :: jescape_f (length s) s ++ [34]) with ([34] ++ jescape_f (length s) s ++ [34]).
  apply V_app; [reflexivity|]. apply V_app; [|reflexivity].
  apply V_iff in H as (cs & Hcs & ->). apply jescape_E; [exact Hcs|lia].
Qed.

(* ---- Marshal ---- *)
Lemma intercalate_V sep l : V sep -> Forall V l -> V (intercalate sep l).
Proof.
  intros Hs. induction 1 as [|x r Hx Hr IH]; [exact V_nil|]. cbn [intercalate].
  destruct r as [|y r']; [exact Hx|]. apply V_app; [exact Hx|]. apply V_app; [exact Hs|exact IH].
Qed.

Definition Vkp (kp : bytes * bytes) : Prop := V (fst kp) /\ V (snd kp).
Lemma insert_kv_V kp l : Vkp kp -> Forall Vkp l -> Forall Vkp (insert_kv kp l).
Proof.
  intros Hk. induction 1 as [|x r Hx Hr IH]; cbn [insert_kv]; [constructor; [exact Hk|constructor]|].
  destruct (bltb _ _); constructor; auto.
Qed.
Lemma sort_kv_V l : Forall Vkp l -> Forall Vkp (sort_kv l).
Proof.
  unfold sort_kv. induction 1 as [|x r Hx Hr IH]; cbn [fold_right]; [constructor|].
  apply insert_kv_V; assumption.
Qed.

Lemma bracket_V o body c : ascii_byte o = true -> ascii_byte c = true -> V body -> V (o :: body ++ [c]).
Proof.
  intros Ho Hc Hb. change (o :: body ++ [c]) with ([o] ++ body ++ [c]).
  apply V_app; [|apply V_app; [exact Hb|]]; apply V_ascii; unfold ascii; cbn [forallb];
    rewrite ?Ho, ?Hc; reflexivity.
Qed.

Theorem jprint_V : forall v, WT v -> okP V (jprint v).
Proof.
  fix IH 1. intros v. destruct v as [|b|s|n|l|m|t]; intros H.
  - reflexivity.
  - destruct b; reflexivity.
  - cbn [jprint okP]. apply jquote_V, H.
  - cbn [jprint]. apply jnum_V.
  - cbn [jprint].
    eapply (okP_bind (Forall V)).
    + unfold WT in H. cbn [wf_text] in H. revert l H. fix IHl 1. intros [|x r] H; [constructor|].
      cbn [forallb] in H. apply andb_prop in H. destruct H as [H1 H2].
      eapply okP_bind; [exact (IH x H1)|]. intros p Hp.
      eapply okP_bind; [exact (IHl r H2)|]. intros ps Hps. cbn [okP]. constructor; assumption.
    + intros parts Hparts. cbn [okP]. apply bracket_V; try reflexivity.
      apply intercalate_V; [reflexivity|exact Hparts].
  - cbn [jprint].
    eapply (okP_bind (Forall Vkp)).
    + unfold WT in H. cbn [wf_text] in H. revert m H. fix IHm 1. intros [|[k x] r] H; [constructor|].
      cbn [forallb fst snd] in H. apply andb_prop in H. destruct H as [H1 H2].
      apply andb_prop in H1. destruct H1 as [Hk Hx].
      eapply okP_bind; [exact (IH x Hx)|]. intros p Hp.
      eapply okP_bind; [exact (IHm r H2)|]. intros ps Hps. cbn [okP].
      constructor; [split; assumption|exact Hps].
    + intros parts Hparts. cbn [okP]. apply bracket_V; try reflexivity.
      apply intercalate_V; [reflexivity|]. apply sort_kv_V in Hparts.
      rewrite Forall_map. eapply Forall_impl; [|exact Hparts]. intros [k p] [Hk Hp]. cbn [fst snd] in *.
      apply V_app; [apply jquote_V, Hk|]. change (58 :: p) with ([58] ++ p). apply V_app; [reflexivity|exact Hp].
  - exact I.
Qed.

Lemma wt_to_string v : WT v -> okP WT (to_string v).
Proof.
  intros H. unfold to_string. destruct v; try exact H;
    (eapply okP_bind; [apply jprint_V, H|]; intros s Hs; exact Hs).
Qed.

(* ================================================================== *)
(* 5. the other built-ins                                              *)
(* ================================================================== *)

(* ---- numbers: no string in any result ---- *)
Lemma wt_trap d : okP WT (trap d).
Proof. unfold trap. okp. reflexivity. Qed.
Lemma wt_ftrap o : okP WT (ftrap o).
Proof. unfold ftrap. okp. reflexivity. Qed.
Lemma wt_arith fop dop x y : okP WT (arith fop dop x y).
Proof. unfold arith. okp; first [apply wt_trap | apply wt_ftrap]. Qed.
Lemma wt_integer_divide x y : okP WT (integer_divide x y).
Proof. unfold integer_divide. okp; first [reflexivity | apply wt_ftrap]. Qed.
Lemma wt_modulo x y : okP WT (modulo x y).
Proof. unfold modulo. okp; first [apply wt_trap | apply wt_ftrap]. Qed.
Lemma wt_num1 fop dop v : okP WT (num1 fop dop v).
Proof. unfold num1. okp; reflexivity. Qed.
Lemma wt_negate v : WT (negate v).
Proof.
  unfold negate. destruct (to_float v); [reflexivity|].
  destruct (to_decimal v); [|reflexivity]. destruct (is_zero d); reflexivity.
Qed.
Lemma wt_sum v : okP WT (sum v).
Proof. unfold sum. okp. apply wt_trap. Qed.
Lemma wt_avg v : okP WT (avg v).
Proof. unfold avg. okp; try reflexivity; apply wt_trap. Qed.
Lemma wt_cmp_op f x y : WT (cmp_op f x y).
Proof. unfold cmp_op. destruct (to_decimal x); [|reflexivity]. destruct (to_decimal y); reflexivity. Qed.
Lemma wt_binop op x y : okP WT (binop_eval op x y).
Proof.
  destruct op; cbn [binop_eval okP]; try reflexivity; try apply wt_cmp_op;
    first [apply wt_integer_divide | apply wt_modulo | apply wt_arith].
Qed.

(* ---- arrays ---- *)
Lemma WTs_drop_nulls l : WTs l -> WTs (drop_nulls l).
Proof. apply WTs_filter. Qed.

Lemma wt_flatten v : WT v -> WT (flatten v).
Proof.
  destruct v as [| | | |a| |]; try reflexivity. intros H. apply WT_arr in H. cbn [flatten]. apply WT_arr.
  intros y Hy. apply in_flat_map in Hy as [x [Hx Hy]]. pose proof (H x Hx) as Hrx.
  destruct x; try (destruct Hy as [<-|[]]; exact Hrx); try contradiction.
  apply WT_arr in Hrx. exact (WTs_drop_nulls _ Hrx y Hy).
Qed.

Lemma wt_index v i : WT v -> WT (index v i).
Proof.
  destruct v as [| | | |a| |]; try reflexivity. intros H. apply WT_arr in H. cbn [index].
  destruct (i <? 0); [destruct (i + zlen a <? 0); [reflexivity|apply WTs_nth; exact H]|].
  destruct (i >=? zlen a); [reflexivity|apply WTs_nth; exact H].
Qed.

Lemma wt_prune_array v : WT v -> WT (prune_array v).
Proof.
  destruct v as [| | | |a| |]; try reflexivity. intros H. apply WT_arr in H. cbn [prune_array].
  apply WT_arr. apply WTs_drop_nulls. exact H.
Qed.

Lemma WTs_sorted_fst {K} (le : value * K -> value * K -> bool) (a : list value) (ks : list K) :
  WTs a -> WTs (map fst (stable_sort le (combine a ks))).
Proof.
  intros H y Hy. apply in_map_iff in Hy as [[y' d] [<- Hy]]. apply SortTheory.stable_sort_in in Hy.
  apply in_combine_l in Hy. apply H. exact Hy.
Qed.

Lemma all_strings_V : forall l ss, WTs l -> all_strings l = Some ss -> Forall V ss.
Proof.
  induction l as [|x r IH]; intros ss Hl; cbn [all_strings]; [intros [= <-]; constructor|].
  apply WTs_inv in Hl as [Hx Hr]. destruct x; try discriminate.
  destruct (all_strings r) as [ss'|]; [|discriminate]. cbn [option_map]. intros [= <-].
  constructor; [exact Hx|]. apply IH; [exact Hr|reflexivity].
Qed.

Lemma wt_sort_array v : WT v -> okP WT (sort_array v).
Proof.
  destruct v as [| | | |a| |]; try exact (fun _ => I). intros H. apply WT_arr in H.
  unfold sort_array. destruct a as [|x r]; [reflexivity|].
  destruct x;
    try (destruct (all_decimals _); [|exact I]; cbn [okP]; apply WT_arr; apply WTs_sorted_fst; exact H).
  destruct (all_strings _) as [ss|] eqn:A; [|exact I]. cbn [okP]. apply WT_map_VStr.
  pose proof (all_strings_V _ _ H A) as Hss. apply Forall_forall. intros s' Hs.
  apply SortTheory.stable_sort_in in Hs. rewrite Forall_forall in Hss. exact (Hss s' Hs).
Qed.

Lemma extreme_str_V gt : forall l best, WTs l -> V best -> okP V (extreme_str gt best l).
Proof.
  induction l as [|x r IH]; intros best Hl Hb; [exact Hb|]. apply WTs_inv in Hl as [Hx Hr].
  cbn [extreme_str]. destruct x; try exact I. apply IH; [exact Hr|].
  destruct (if gt then bgtb s best else bltb s best); assumption.
Qed.
Lemma wt_array_extreme gt v : WT v -> okP WT (array_extreme gt v).
Proof.
  destruct v as [| | | |a| |]; try exact (fun _ => I). intros H. apply WT_arr in H.
  unfold array_extreme. destruct a as [|x r]; [reflexivity|]. apply WTs_inv in H as [Hx Hr].
  destruct x; try (destruct (to_decimal _); [|exact I]; apply okP_bind_any; intros; reflexivity).
  eapply okP_bind; [apply extreme_str_V; [exact Hr|exact Hx]|]. intros m Hm. exact Hm.
Qed.

(* ---- functions.go / object.go ---- *)
Lemma wt_field name v : WT v -> WT (field name v).
Proof.
  destruct v as [| | | | |m|]; try reflexivity. intros H. apply WT_obj in H. cbn [field].
  destruct (assoc name m) eqn:A; [|reflexivity]. exact (proj2 (H _ _ (assoc_In_pair _ _ _ A))).
Qed.

Lemma wt_from_items_loop l : forall acc, WTs l -> WTm acc -> okP WTm (from_items_loop l acc).
Proof.
  induction l as [|x r IH]; intros acc Hl Ha; [exact Ha|]. apply WTs_inv in Hl as [Hx Hr].
  cbn [from_items_loop]. okp. subst. apply IH; [exact Hr|].
  apply WT_arr in Hx. apply WTm_assoc_set; [| |exact Ha].
  - apply (Hx (VStr s)). left. reflexivity.
  - apply Hx. right. left. reflexivity.
Qed.
Lemma wt_from_items v : WT v -> okP WT (from_items v).
Proof.
  destruct v as [| | | |a| |]; try exact (fun _ => I). intros H. apply WT_arr in H. cbn [from_items].
  destruct (forallb is_arr a); [|exact I].
  eapply okP_bind; [apply wt_from_items_loop; [exact H|exact WTm_nil]|].
  intros m Hm. apply WT_obj. exact Hm.
Qed.

Lemma wt_items v : WT v -> okP WT (items v).
Proof.
  destruct v as [| | | | |m|]; try exact (fun _ => I). intros H. apply WT_obj in H.
  cbn [items okP]. apply WT_arr. intros y Hy. apply in_map_iff in Hy as [[k x] [<- Hin]].
  destruct (H k x Hin) as [Hk Hx]. cbn [fst snd].
  apply WT_arr. apply WTs_cons; [exact Hk|]. apply WTs_cons; [exact Hx|exact WTs_nil].
Qed.
Lemma wt_keys v : WT v -> okP WT (keys v).
Proof.
  destruct v as [| | | | |m|]; try exact (fun _ => I). intros H. apply WT_obj in H.
  cbn [keys okP]. apply WT_arr.
  intros y Hy. apply in_map_iff in Hy as [[k x] [<- Hin]]. exact (proj1 (H k x Hin)).
Qed.
Lemma wt_values v : WT v -> okP WT (values v).
Proof.
  destruct v as [| | | | |m|]; try exact (fun _ => I). intros H. apply WT_obj in H.
  cbn [values okP]. apply WT_arr. apply WTm_values, H.
Qed.
Lemma wt_object_values v : WT v -> WT (object_values v).
Proof.
  destruct v as [| | | | |m|]; try reflexivity. intros H. apply WT_obj in H.
  cbn [object_values]. apply WT_arr. apply WTs_filter. apply WTm_values, H.
Qed.

Lemma wt_to_array v : WT v -> WT (to_array v).
Proof.
  intros H. destruct v; cbn [to_array]; try exact H;
    (apply WT_arr; apply WTs_cons; [exact H|exact WTs_nil]).
Qed.
Lemma wt_to_number v : WT (to_number v).
Proof.
  destruct v; cbn [to_number]; try reflexivity.
  destruct (json_number_ok s); [|reflexivity]. destruct (parse_dec s); reflexivity.
Qed.
Lemma wt_type_name v : okP WT (type_name v).
Proof. destruct v; try exact I; reflexivity. Qed.

Lemma wt_call1 f a : WT a -> okP WT (call1 f a).
Proof.
  intros H. destruct f; cbn [call1 okP];
    try (match goal with |- okP WT (lower _) => apply wt_lower; exact H | |- okP WT (upper _) => apply wt_upper; exact H end);
    first [ apply wt_num1 | apply wt_avg | apply wt_from_items; exact H | apply wt_items; exact H
          | apply wt_keys; exact H | apply wt_length | apply wt_lower; exact H
          | apply wt_array_extreme; exact H
          | apply wt_reverse; exact H | apply wt_sort_array; exact H | apply wt_sum
          | apply wt_to_array; exact H | apply wt_to_number | apply wt_to_string; exact H
          | apply wt_type_name | apply wt_upper; exact H | apply wt_values; exact H
          | apply wt_trim_space; exact H | apply wt_trim_space_left; exact H
          | apply wt_trim_space_right; exact H ].
Qed.

Lemma wt_call2 f a b : WT a -> WT b -> okP WT (call2 f a b).
Proof.
  intros Ha Hb. destruct f; cbn [call2];
    first [ apply wt_contains | apply wt_ends_with | apply wt_find_first | apply wt_find_last
          | apply wt_join; assumption | apply wt_pad; [exact Ha|exact I]
          | apply wt_split; assumption | apply wt_starts_with
          | apply wt_trim; assumption | apply wt_trim_left; assumption | apply wt_trim_right; assumption ].
Qed.
Lemma wt_call3 f a b c : WT a -> WT b -> WT c -> okP WT (call3 f a b c).
Proof.
  intros Ha Hb Hc. destruct f; cbn [call3];
    first [ apply wt_find_from | apply wt_pad; assumption | apply wt_replace; assumption
          | apply wt_split_count; assumption ].
Qed.
Lemma wt_call4 f a b c d : WT a -> WT b -> WT c -> okP WT (call4 f a b c d).
Proof.
  intros Ha Hb Hc. destruct f; cbn [call4];
    first [ apply wt_find_between | apply wt_replace_count; assumption ].
Qed.

(* ---- helpers with a callback ---- *)
Section Callback.
  Variable ev : value -> outcome value.

  Lemma wt_project_list l : (forall v, In v l -> okP WT (ev v)) -> okP WTs (project_list ev l).
  Proof.
    induction l as [|v r IH]; intros H; [exact WTs_nil|]. cbn [project_list].
    eapply okP_bind; [apply H; left; reflexivity|]. intros p Hp.
    eapply okP_bind; [apply IH; intros w Hw; apply H; right; exact Hw|]. intros ps Hps.
    cbn [okP]. destruct (is_null p); [exact Hps|apply WTs_cons; assumption].
  Qed.
  Lemma wt_project_array v : (forall x, WT x -> okP WT (ev x)) -> WT v -> okP WT (project_array ev v).
  Proof.
    intros He. destruct v as [| | | |a| |]; try (intros _; reflexivity). intros H. apply WT_arr in H.
    cbn [project_array]. eapply okP_bind; [apply wt_project_list; intros x Hx; apply He, H, Hx|].
    intros r Hr. apply WT_arr. exact Hr.
  Qed.
  Lemma wt_project_object v : (forall x, WT x -> okP WT (ev x)) -> WT v -> okP WT (project_object ev v).
  Proof.
    intros He. destruct v as [| | | | |m|]; try (intros _; reflexivity). intros H. apply WT_obj in H.
    cbn [project_object].
    eapply okP_bind; [apply wt_project_list; intros x Hx; apply He; exact (WTm_values m H x Hx)|].
    intros r Hr. apply WT_arr. exact Hr.
  Qed.
  Lemma wt_flatten_and_project v :
    (forall x, WT x -> okP WT (ev x)) -> WT v -> okP WT (flatten_and_project ev v).
  Proof.
    intros He. destruct v as [| | | |a| |]; try (intros _; reflexivity). intros H. apply WT_arr in H.
    cbn [flatten_and_project]. eapply okP_bind.
    - apply wt_project_list. intros y Hy. apply He. apply in_flat_map in Hy as [x [Hx Hy]].
      pose proof (H x Hx) as Hrx.
      destruct x; try (destruct Hy as [<-|[]]; exact Hrx). apply WT_arr in Hrx. apply Hrx. exact Hy.
    - intros r Hr. apply WT_arr. exact Hr.
  Qed.
  Lemma wt_mapM l : (forall v, In v l -> okP WT (ev v)) -> okP WTs (mapM ev l).
  Proof.
    induction l as [|v r IH]; intros H; [exact WTs_nil|]. cbn [mapM].
    eapply okP_bind; [apply H; left; reflexivity|]. intros p Hp.
    eapply okP_bind; [apply IH; intros w Hw; apply H; right; exact Hw|]. intros ps Hps.
    cbn [okP]. apply WTs_cons; assumption.
  Qed.
  Lemma wt_map_array v : (forall x, WT x -> okP WT (ev x)) -> WT v -> okP WT (map_array ev v).
  Proof.
    intros He. destruct v as [| | | |a| |]; try (intros _; exact I). intros H. apply WT_arr in H.
    cbn [map_array]. eapply okP_bind; [apply wt_mapM; intros x Hx; apply He, H, Hx|].
    intros r Hr. apply WT_arr. exact Hr.
  Qed.

  (* sort_by / max_by / min_by use the callback for keys only: results are input elements *)
  Lemma wt_sort_array_by v : WT v -> okP WT (sort_array_by ev v).
  Proof.
    destruct v as [| | | |a| |]; try (intros _; exact I). intros H. destruct a as [|a0 rest]; [exact H|].
    apply WT_arr in H. cbn [sort_array_by]. destruct (keys_for ev a0 rest) as [[ss|ds]| | | |]; try exact I;
      cbn [bind okP]; apply WT_arr; apply WTs_sorted_fst; exact H.
  Qed.
  Lemma wt_best_by {K} (better : K -> K -> bool) l : forall bestv bestk,
    WT bestv -> WTs (map fst l) -> WT (best_by better bestv bestk l).
  Proof.
    induction l as [|[v k] r IH]; intros bestv bestk Hb Hl; [exact Hb|]. cbn [best_by].
    cbn [map fst] in Hl. apply WTs_inv in Hl as [Hv Hr]. destruct (better k bestk); apply IH; assumption.
  Qed.
  Lemma WTs_combine_fst {K} (a : list value) (ks : list K) : WTs a -> WTs (map fst (combine a ks)).
  Proof. intros H y Hy. apply in_map_iff in Hy as [[y' d] [<- Hy]]. apply in_combine_l in Hy. apply H, Hy. Qed.
  Lemma wt_array_extreme_by gt v : WT v -> okP WT (array_extreme_by ev gt v).
  Proof.
    destruct v as [| | | |a| |]; try (intros _; exact I). intros H. destruct a as [|a0 rest]; [reflexivity|].
    apply WT_arr in H. apply WTs_inv in H as [H0 Hr]. cbn [array_extreme_by].
    destruct (keys_for ev a0 rest) as [[[|k0 ss]|[|k0 ds]]| | | |]; try exact I;
      cbn [bind okP]; apply wt_best_by; try exact H0; apply WTs_combine_fst; exact Hr.
  Qed.

  (* group_by: the keys of the result are strings computed by the callback *)
  Lemma wt_group_loop l : (forall x, WT x -> okP WT (ev x)) ->
    forall acc, WTs l -> WTm acc -> okP WTm (group_loop ev l acc).
  Proof.
    intros He. induction l as [|v r IH]; intros acc Hl Ha; [exact Ha|]. apply WTs_inv in Hl as [Hv Hr].
    cbn [group_loop]. eapply okP_bind; [apply He, Hv|]. intros k Hk.
    destruct k; try exact I. apply IH; [exact Hr|]. apply WTm_assoc_set; [exact Hk| |exact Ha].
    apply WT_arr. apply WTs_app; [|apply WTs_cons; [exact Hv|exact WTs_nil]].
    destruct (assoc s acc) as [g|] eqn:A; [|exact WTs_nil].
    destruct g; try exact WTs_nil. apply WT_arr. exact (proj2 (Ha _ _ (assoc_In_pair _ _ _ A))).
  Qed.
  Lemma wt_group_by v : (forall x, WT x -> okP WT (ev x)) -> WT v -> okP WT (group_by ev v).
  Proof.
    intros He. destruct v as [| | | |a| |]; try (intros _; exact I). intros H.
    destruct a as [|a0 rest]; [reflexivity|].
    apply WT_arr in H. cbn [group_by].
    eapply okP_bind; [apply wt_group_loop; [exact He|exact H|exact WTm_nil]|]. intros m Hm. apply WT_obj. exact Hm.
  Qed.
End Callback.

Lemma wt_filter_list pred l : WTs l -> okP WTs (filter_list pred l).
Proof.
  induction l as [|v r IH]; intros H; [exact WTs_nil|]. apply WTs_inv in H as [Hv Hr].
  cbn [filter_list]. apply okP_bind_any. intros f.
  eapply okP_bind; [apply IH; exact Hr|]. intros rs Hrs. cbn [okP].
  destruct (_ && _); [apply WTs_cons; assumption|exact Hrs].
Qed.
Lemma wt_filter_array pred v : WT v -> okP WT (filter_array pred v).
Proof.
  destruct v as [| | | |a| |]; try (intros _; reflexivity). intros H. apply WT_arr in H.
  cbn [filter_array]. eapply okP_bind; [apply wt_filter_list; exact H|]. intros r Hr. apply WT_arr. exact Hr.
Qed.
Lemma wt_filter_project_list pred ev l :
  (forall v, In v l -> okP WT (ev v)) -> okP WTs (filter_project_list pred ev l).
Proof.
  induction l as [|v r IH]; intros H; [exact WTs_nil|]. cbn [filter_project_list].
  assert (Hr : okP WTs (filter_project_list pred ev r)) by (apply IH; intros w Hw; apply H; right; exact Hw).
  apply okP_bind_any. intros f. destruct (is_true f); [|exact Hr].
  eapply okP_bind; [apply H; left; reflexivity|]. intros p Hp.
  eapply okP_bind; [exact Hr|]. intros rs Hrs. cbn [okP].
  destruct (is_null p); [exact Hrs|apply WTs_cons; assumption].
Qed.
Lemma wt_filter_and_project pred ev v :
  (forall x, WT x -> okP WT (ev x)) -> WT v -> okP WT (filter_and_project pred ev v).
Proof.
  intros He. destruct v as [| | | |a| |]; try (intros _; reflexivity). intros H. apply WT_arr in H.
  cbn [filter_and_project].
  eapply okP_bind; [apply wt_filter_project_list; intros x Hx; apply He, H, Hx|].
  intros r Hr. apply WT_arr. exact Hr.
Qed.

Lemma wt_zip_rows cols : Forall WTs cols -> forall k i, WTs (zip_rows k i cols).
Proof.
  intros H. induction k as [|k IH]; intros i; [exact WTs_nil|]. cbn [zip_rows].
  apply WTs_cons; [|apply IH]. apply WT_arr. intros y Hy. apply in_map_iff in Hy as [c [<- Hc]].
  apply WTs_nth. rewrite Forall_forall in H. exact (H c Hc).
Qed.

(* ---- scopes ---- *)
Definition env_text_ok (vars : env) : Prop := forall name v, env_get name vars = Some v -> WT v.
Lemma env_text_ok_nil : env_text_ok []. Proof. intros name v H. discriminate. Qed.
Lemma env_text_ok_cons fr vars : WTs (map snd fr) -> env_text_ok vars -> env_text_ok (fr :: vars).
Proof.
  intros Hf Hv name v. cbn [env_get]. destruct (assoc name fr) eqn:A.
  - intros [= <-]. apply Hf. eapply assoc_In. exact A.
  - apply Hv.
Qed.

(* ================================================================== *)
(* 6. the strings held by a node                                       *)
(* ================================================================== *)

(* What the AST can put into a result: string literals, JSON literals, the keys of
   multi-select hashes.  The parser copies all of them out of the expression text
   (JSON literals through the JSON decoder, which replaces invalid bytes), so a parsed
   node satisfies this whenever the expression text is valid UTF-8; that fact about
   the parser is NOT proved here.  Field names, variable names, let-binding names and
   number texts carry no assumption. *)
Fixpoint node_text_okb (n : node) : bool :=
  match n with
  | NString s => valid_utf8 s
  | NLitArr l => wf_text (VArr l)
  | NLitObj m => wf_text (VObj m)
  | NCall1 _ c | NNot c | NNegate c | NAssertNumber c | NFilterCurrent c | NFlatten c
  | NFlattenAndProjectCurrent c | NIndex c _ | NObjectValues c | NProjectArrayCurrent c
  | NProjectObjectCurrent c | NPruneArray c | NSelectArraySingleCurrent c
  | NSlice c _ _ | NSliceStep c _ _ _ => node_text_okb c
  | NSelectObjectSingleCurrent k c => valid_utf8 k && node_text_okb c
  | NCall2 _ a b | NCallBy _ a b | NMap a b | NBin _ a b | NAnd a b | NOr a b | NFilter a b
  | NFilterAndProjectCurrent a b | NFlattenAndProject a b | NPipe a b | NProjectArray a b
  | NProjectObject a b | NSelectArraySingle a b => node_text_okb a && node_text_okb b
  | NSelectObjectSingle a k b => valid_utf8 k && node_text_okb a && node_text_okb b
  | NCall3 _ a b c | NFilterAndProject a b c => node_text_okb a && node_text_okb b && node_text_okb c
  | NCall4 _ a b c d => node_text_okb a && node_text_okb b && node_text_okb c && node_text_okb d
  | NCallVar _ l | NSelectArrayCurrent l => forallb node_text_okb l
  | NSelectArray c l => node_text_okb c && forallb node_text_okb l
  | NSelectObjectCurrent m => forallb (fun kf => valid_utf8 (fst kf) && node_text_okb (snd kf)) m
  | NSelectObject c m =>
    node_text_okb c && forallb (fun kf => valid_utf8 (fst kf) && node_text_okb (snd kf)) m
  | NDefine m c => node_text_okb c && forallb (fun kf => node_text_okb (snd kf)) m
  | _ => true
  end.
Definition node_text_ok (n : node) : Prop := node_text_okb n = true.

Lemma forallb_kf_in (p : node -> bool) (m : list (bytes * node)) c :
  forallb (fun kf => valid_utf8 (fst kf) && p (snd kf)) m = true -> In c (map snd m) -> p c = true.
Proof.
  intros H Hin. apply in_map_iff in Hin as [[k f] [<- Hin]].
  rewrite forallb_forall in H. specialize (H (k, f) Hin). apply andb_prop in H. apply H.
Qed.
Lemma forallb_kf_keys (p : node -> bool) (m : list (bytes * node)) :
  forallb (fun kf => valid_utf8 (fst kf) && p (snd kf)) m = true -> Forall V (map fst m).
Proof.
  intros H. apply Forall_forall. intros k Hk. apply in_map_iff in Hk as [[k' f] [<- Hin]].
  rewrite forallb_forall in H. specialize (H (k', f) Hin). apply andb_prop in H. apply H.
Qed.

Lemma node_text_ok_child n c : node_text_okb n = true -> In c (nchildren n) -> node_text_okb c = true.
Proof.
  destruct n; cbn [nchildren node_text_okb]; intros H Hin;
    try contradiction;
    repeat match goal with H : _ && _ = true |- _ => apply andb_prop in H; destruct H end;
    try (cbn [In] in Hin; repeat (destruct Hin as [<-|Hin]; [assumption|]); contradiction).
  - rewrite forallb_forall in H. auto.
  - destruct Hin as [<-|Hin]; [assumption|]. eapply forallb_snd_in; eassumption.
  - destruct Hin as [<-|Hin]; [assumption|].
    match goal with H : forallb _ _ = true |- _ => rewrite forallb_forall in H; auto end.
  - rewrite forallb_forall in H. auto.
  - destruct Hin as [<-|Hin]; [assumption|]. eapply (forallb_kf_in node_text_okb); eassumption.
  - eapply (forallb_kf_in node_text_okb); eassumption.
Qed.

(* ---- the loops of NDefine / multi-selects ---- *)
Lemma wt_nlist_loop ev l : (forall c, In c l -> okP WT (ev c)) -> okP WTs (nlist_loop ev l).
Proof.
  induction l as [|c r IH]; intros H; [exact WTs_nil|]. cbn [nlist_loop]. fold (nlist_loop ev r).
  eapply okP_bind; [apply H; left; reflexivity|]. intros y Hy.
  eapply okP_bind; [apply IH; intros w Hw; apply H; right; exact Hw|]. intros ys Hys.
  cbn [okP]. apply WTs_cons; assumption.
Qed.
Lemma wt_define_loop ev bs : (forall c, In c (map snd bs) -> okP WT (ev c)) ->
  okP (fun fr => map fst fr = map fst bs /\ WTs (map snd fr)) (define_loop ev bs).
Proof.
  induction bs as [|[k c] r IH]; intros H; [split; [reflexivity|exact WTs_nil]|].
  cbn [define_loop]. fold (define_loop ev r).
  eapply okP_bind; [apply H; left; reflexivity|]. intros y Hy.
  eapply okP_bind; [apply IH; intros w Hw; apply H; right; exact Hw|]. intros fr [Hk Hfr].
  cbn [okP map fst snd]. split; [rewrite Hk; reflexivity|apply WTs_cons; assumption].
Qed.
Lemma WTm_of_fst_snd (fr : list (bytes * value)) : Forall V (map fst fr) -> WTs (map snd fr) -> WTm fr.
Proof.
  induction fr as [|[k x] r IH]; intros Hk Hx; [exact WTm_nil|]. cbn [map fst snd] in *.
  inversion Hk; subst. apply WTs_inv in Hx as [Hx Hr]. apply WTm_cons; auto.
Qed.

(* ================================================================== *)
(* 7. the induction over the evaluator                                 *)
(* ================================================================== *)

Section Main.
  Variable root : value.
  Hypothesis Hroot : WT root.

  Definition text_closed_at (n : node) : Prop :=
    forall cur vars, WT cur -> env_text_ok vars -> okP WT (eval root n cur vars).

  Ltac ev_step Hc :=
    match goal with
    | |- okP _ (bind (eval root ?c _ _) _) =>
      eapply okP_bind; [apply (Hc c); [cbn [In]; tauto | assumption | assumption] | intros ? ?]
    end.
  Ltac ev_leaf Hc :=
    match goal with
    | |- okP _ (eval root ?c _ _) => apply (Hc c); [cbn [In]; tauto | assumption | assumption]
    end.
  Ltac cb Hc := intros ? ?; ev_leaf Hc.

  Theorem eval_text_okP : forall n, node_text_okb n = true -> text_closed_at n.
  Proof.
    induction n as [n IH] using node_ind'. intros Hl.
    assert (Hc : forall c, In c (nchildren n) -> text_closed_at c).
    { intros c Hin. rewrite Forall_forall in IH. apply (IH c Hin). exact (node_text_ok_child n c Hl Hin). }
    clear IH. intros cur vars Hcur Hvars.
    destruct n; cbn [nchildren] in Hc;
      try rewrite eval_define; try rewrite eval_select_array; try rewrite eval_select_array_current;
      try rewrite eval_select_object; try rewrite eval_select_object_current;
      cbn [eval]; repeat ev_step Hc.
    - apply wt_call1; assumption.
    - apply wt_call2; assumption.
    - apply wt_call3; assumption.
    - apply wt_call4; assumption.
    - destruct f; [apply wt_group_by; [cb Hc|assumption]|apply wt_array_extreme_by|apply wt_array_extreme_by
                  |apply wt_sort_array_by]; assumption.
    - apply wt_map_array; [cb Hc|assumption].
    - (* NCallVar *)
      clear Hl. destruct f.
      + generalize WTm_nil. generalize (@nil (bytes * value)).
        induction args as [|a r IHr]; intros acc Ha; [apply WT_obj; exact Ha|].
        eapply okP_bind; [apply (Hc a (or_introl eq_refl)); assumption|]. intros x Hx.
        destruct x; try exact I. apply IHr.
        * intros c Hin. apply Hc. right. exact Hin.
        * apply WTm_fold; [apply WT_obj in Hx; apply Hx|exact Ha].
      + induction args as [|a r IHr]; [reflexivity|].
        eapply okP_bind; [apply (Hc a (or_introl eq_refl)); assumption|]. intros x Hx.
        destruct (is_null x); [|exact Hx]. apply IHr. intros c Hin. apply Hc. right. exact Hin.
      + eapply (okP_bind (Forall WTs)).
        * induction args as [|a r IHr]; [constructor|].
          eapply okP_bind; [apply (Hc a (or_introl eq_refl)); assumption|]. intros x Hx.
          destruct x; try exact I.
          eapply okP_bind; [apply IHr; intros c Hin; apply Hc; right; exact Hin|].
          intros cs Hcs. constructor; [apply WT_arr; exact Hx|exact Hcs].
        * intros cols Hcols. cbv zeta. destruct (_ >? _); [exact I|].
          apply WT_arr. apply wt_zip_rows. exact Hcols.
    - apply wt_binop.
    - destruct (negb _); [assumption|ev_leaf Hc].
    - destruct (is_true _); [assumption|ev_leaf Hc].
    - reflexivity.
    - apply wt_negate.
    - cbn [okP]. destruct (is_number _); [assumption|reflexivity].
    - exact Hl.
    - exact Hl.
    - reflexivity.
    - reflexivity.
    - reflexivity.
    - exact Hl.
    - exact Hcur.
    - exact Hroot.
    - apply wt_field; assumption.
    - destruct (env_get name vars) eqn:Eg; [|exact I]. exact (Hvars _ _ Eg).
    - (* NDefine *)
      eapply okP_bind.
      + apply wt_define_loop. intros c Hin. apply (Hc c); [right; exact Hin|assumption|assumption].
      + intros fr [Hk Hfr]. apply Hc; [left; reflexivity|exact Hcur|apply env_text_ok_cons; assumption].
    - apply wt_filter_array; assumption.
    - apply wt_filter_array; assumption.
    - apply wt_filter_and_project; [cb Hc|assumption].
    - apply wt_filter_and_project; [cb Hc|assumption].
    - apply wt_flatten; assumption.
    - apply wt_flatten; assumption.
    - apply wt_flatten_and_project; [cb Hc|assumption].
    - apply wt_flatten_and_project; [cb Hc|assumption].
    - apply wt_index; assumption.
    - apply wt_index; assumption.
    - apply wt_index; assumption.
    - apply wt_object_values; assumption.
    - apply wt_object_values; assumption.
    - (* NPipe *) ev_leaf Hc.
    - (* NProjectArray *)
      match goal with |- okP WT (match ?a with _ => _ end) =>
        assert (Hp : okP WT (project_array (fun v => eval root n2 v vars) a))
          by (apply wt_project_array; [cb Hc|assumption]);
        destruct a; try exact Hp end.
      destruct (is_slice_node _); [ev_leaf Hc|exact Hp].
    - apply wt_project_array; [cb Hc|assumption].
    - apply wt_project_object; [cb Hc|assumption].
    - apply wt_project_object; [cb Hc|assumption].
    - apply wt_prune_array; assumption.
    - apply wt_prune_array; assumption.
    - (* NSelectArray *)
      destruct (is_null _); [reflexivity|].
      eapply okP_bind; [apply wt_nlist_loop; intros c Hin; apply (Hc c); [right; exact Hin|assumption|assumption]|].
      intros r Hr. apply WT_arr. exact Hr.
    - destruct (is_null _); [reflexivity|].
      eapply okP_bind; [apply wt_nlist_loop; intros c Hin; apply (Hc c); [exact Hin|assumption|assumption]|].
      intros r Hr. apply WT_arr. exact Hr.
    - (* NSelectArraySingle *)
      destruct (is_null _); [reflexivity|]. ev_step Hc.
      apply WT_arr. apply WTs_cons; [assumption|exact WTs_nil].
    - apply WT_arr. apply WTs_cons; [assumption|exact WTs_nil].
    - (* NSelectObject: the keys of the hash are strings of the node *)
      cbn [node_text_okb] in Hl. apply andb_prop in Hl as [_ Hkeys]. apply forallb_kf_keys in Hkeys.
      destruct (is_null _); [reflexivity|].
      eapply okP_bind; [apply wt_define_loop; intros c Hin; apply (Hc c); [right; exact Hin|assumption|assumption]|].
      intros fr [Hk Hfr]. apply WT_obj. apply WTm_of_fst_snd; [rewrite Hk; exact Hkeys|exact Hfr].
    - cbn [node_text_okb] in Hl. apply forallb_kf_keys in Hl.
      destruct (is_null _); [reflexivity|].
      eapply okP_bind; [apply wt_define_loop; intros c Hin; apply (Hc c); [exact Hin|assumption|assumption]|].
      intros fr [Hk Hfr]. apply WT_obj. apply WTm_of_fst_snd; [rewrite Hk; exact Hl|exact Hfr].
    - (* NSelectObjectSingle *)
      cbn [node_text_okb] in Hl. apply andb_prop in Hl as [Hl _]. apply andb_prop in Hl as [Hkey _].
      destruct (is_null _); [reflexivity|]. ev_step Hc.
      apply WT_obj. apply WTm_cons; [exact Hkey|assumption|exact WTm_nil].
    - cbn [node_text_okb] in Hl. apply andb_prop in Hl as [Hkey _].
      apply WT_obj. apply WTm_cons; [exact Hkey|assumption|exact WTm_nil].
    - apply wt_slice; assumption.
    - apply wt_slice; assumption.
    - apply wt_slice_step; assumption.
    - apply wt_slice_step; assumption.
  Qed.
End Main.

(* C11 *)
Theorem eval_preserves_utf8 : forall n root cur vars v,
  node_text_ok n -> wf_text root = true -> wf_text cur = true ->
  (forall name x, env_get name vars = Some x -> wf_text x = true) ->
  eval root n cur vars = Ok v -> wf_text v = true.
Proof.
  intros n root cur vars v Hn Hr Hc Hv Ev.
  exact (okP_elim WT _ v (eval_text_okP root Hr n Hn cur vars Hc Hv) Ev).
Qed.

(* evaluator.Evaluate *)
Corollary evaluate_preserves_utf8 : forall n data v,
  node_text_ok n -> wf_text data = true -> evaluate n data = Ok v -> wf_text v = true.
Proof.
  intros n data v Hn Hd Ev.
  exact (eval_preserves_utf8 n data data [] v Hn Hd Hd env_text_ok_nil Ev).
Qed.

(* Expression.Search on a compiled expression *)
Corollary expression_search_preserves_utf8 : forall n data v,
  node_text_ok n -> wf_text data = true -> expression_search n data = RValue v -> wf_text v = true.
Proof.
  intros n data v Hn Hd Ev. unfold expression_search in Ev.
  destruct (evaluate n data) as [w| | | |] eqn:Ew; try discriminate. injection Ev as ->.
  exact (evaluate_preserves_utf8 n data v Hn Hd Ew).
Qed.

(* Search on an expression text: whatever node the parser built, provided its strings
   are valid UTF-8 (true of parsed nodes when the text is valid UTF-8; not proved here) *)
Corollary search_preserves_utf8 : forall expr n data v,
  parse expr = Ok n -> node_text_ok n -> wf_text data = true ->
  search expr data = RValue v -> wf_text v = true.
Proof.
  intros expr n data v Hp Hn Hd Ev. unfold search in Ev. rewrite Hp in Ev. cbn [lift_parse] in Ev.
  exact (expression_search_preserves_utf8 n data v Hn Hd Ev).
Qed.

(* a result can be searched again: the property is the same on both sides *)
Corollary requery_preserves_utf8 : forall n1 n2 data v w,
  node_text_ok n1 -> node_text_ok n2 -> wf_text data = true ->
  evaluate n1 data = Ok v -> evaluate n2 v = Ok w -> wf_text w = true.
Proof.
  intros n1 n2 data v w H1 H2 Hd E1 E2.
  exact (evaluate_preserves_utf8 n2 v w H2 (evaluate_preserves_utf8 n1 data v H1 Hd E1) E2).
Qed.

(* ================================================================== *)
(* 8. the delicate cases, on concrete arguments; what the hypotheses do *)
(* ================================================================== *)

(* No built-in is refuted: the theorem above has no exception.  The byte-level
   operations the property could have failed on, evaluated on multi-byte text
   ("\195\169" = U+00E9, "\226\130\172" = U+20AC): *)
Example replace_empty_old :   (* replace('\u00e9\u20ac', '', '-') inserts between code points *)
  replace (VStr [195;169;226;130;172]) (VStr []) (VStr [45]) = Ok (VStr [45;195;169;45;226;130;172;45]).
Proof. vm_compute. reflexivity. Qed.
Example replace_count_empty_old :
  replace_count (VStr [195;169;226;130;172]) (VStr []) (VStr [45]) (vint 2) = Ok (VStr [45;195;169;45;226;130;172]).
Proof. vm_compute. reflexivity. Qed.
Example split_empty_separator :
  split (VStr [195;169;226;130;172;97]) (VStr []) = Ok (VArr [VStr [195;169]; VStr [226;130;172]; VStr [97]]).
Proof. vm_compute. reflexivity. Qed.
Example split_count_empty_separator :
  split_count (VStr [195;169;226;130;172;97]) (VStr []) (vint 1) = Ok (VArr [VStr [195;169]; VStr [226;130;172;97]]).
Proof. vm_compute. reflexivity. Qed.
Example pad_multi_byte :
  pad true (VStr [97]) (vint 3) (Some (VStr [226;130;172])) = Ok (VStr [226;130;172;226;130;172;97]).
Proof. vm_compute. reflexivity. Qed.
Example trim_multi_byte_cutset :
  trim (VStr [195;169;97;195;169]) (VStr [195;169]) = Ok (VStr [97]).
Proof. vm_compute. reflexivity. Qed.
Example slice_extreme_bounds :
  slice (VStr [97;195;169;226;130;172]) 1 MaxInt = Ok (VStr [195;169;226;130;172]) /\
  slice (VStr [97;195;169;226;130;172]) MinInt (-1) = Ok (VStr [97;195;169]) /\
  slice_step (VStr [97;195;169;226;130;172]) MaxInt MinInt (-1) = Ok (VStr [226;130;172;195;169;97]).
Proof. vm_compute. repeat split; reflexivity. Qed.

(* lower / upper follow the simple case mappings of the Go toolchain (Gen/CaseTable.v) for every string:
   "É" -> "é", the Kelvin sign (3 bytes) -> "k" (1 byte), an invalid byte -> U+FFFD *)
Example lower_non_ascii : lower (VStr [195;137]) = Ok (VStr [195;169]) /\
  lower (VStr [226;132;170]) = Ok (VStr [107]) /\ upper (VStr [201;144;98]) = Ok (VStr [226;177;175;66]) /\
  lower (VStr [65;255]) = Ok (VStr [97;239;191;189]).
Proof. vm_compute. repeat split; reflexivity. Qed.
(* likewise to_string of a computed (decimal128 / float) number *)
Example to_string_decimal_unmodelled : forall neg c e, to_string (VNum (NDec (DFin neg c e))) = Unmodelled.
Proof. reflexivity. Qed.

(* the hypotheses are needed: a string literal or a document string that is not
   UTF-8 comes out as it is ... *)
Example invalid_literal_passes_through :
  evaluate (NString [255]) VNull = Ok (VStr [255]) /\ wf_text (VStr [255]) = false.
Proof. vm_compute. split; reflexivity. Qed.
Example invalid_key_passes_through :
  evaluate (NSelectObjectSingleCurrent [255] NCurrent) VNull = Ok (VObj [([255], VNull)]) /\
  wf_text (VObj [([255], VNull)]) = false.
Proof. vm_compute. split; reflexivity. Qed.
(* ... while the functions that re-encode (reverse, stepped slices) repair it *)
Example reverse_repairs : evaluate (NCall1 FReverse NCurrent) (VStr [97;255]) = Ok (VStr [239;191;189;97]).
Proof. vm_compute. reflexivity. Qed.

Print Assumptions jprint_V.
Print Assumptions eval_preserves_utf8.
Print Assumptions search_preserves_utf8.
