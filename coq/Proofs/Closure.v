(* C18: the result of a search is a plain JSON-like value and can be searched again.

   result_value          the values a result may hold for JSON input: null, bool,
                         string, arrays and objects (unique keys) of those, and
                         numbers carried as json.Number, decimal128 or int64
   closure               eval keeps result_value (root, current node, scope and
                         literals being result values); the predicate is the same
                         on both sides, so a result is acceptable input
   eval_root_irrelevant  an expression without `$` does not look at the root
   pipe_requery          evaluate (n1 | n2) data = evaluate n2 (evaluate n1 data)
   jprint_result_value   results whose numbers are json.Number / int64 serialise *)
From Coq Require Import List ZArith Bool Lia Permutation.
From JM Require Import Base.Outcome Base.Bytes Base.GoInt Base.Utf8 Num.Dec Num.Flt Json.Value
  Json.JsonPrint
  Model.Ast Model.Parser Model.Compare Model.NumberFns Model.Slice Model.StringFns Model.Array
  Model.Functions Model.Eval Model.Api
  Proofs.SortTheory Proofs.Scoping.
Import ListNotations.
Open Scope Z_scope.

(* ================================================================== *)
(* 1. expressions without `$` do not depend on the root                *)
(* ================================================================== *)

Fixpoint no_root (n : node) : bool :=
  match n with
  | NRoot => false
  | NCall1 _ c | NNot c | NNegate c | NAssertNumber c | NFilterCurrent c | NFlatten c
  | NFlattenAndProjectCurrent c | NIndex c _ | NObjectValues c | NProjectArrayCurrent c
  | NProjectObjectCurrent c | NPruneArray c | NSelectArraySingleCurrent c
  | NSelectObjectSingleCurrent _ c | NSlice c _ _ | NSliceStep c _ _ _ => no_root c
  | NCall2 _ a b | NCallBy _ a b | NMap a b | NBin _ a b | NAnd a b | NOr a b | NFilter a b
  | NFilterAndProjectCurrent a b | NFlattenAndProject a b | NPipe a b | NProjectArray a b
  | NProjectObject a b | NSelectArraySingle a b | NSelectObjectSingle a _ b => no_root a && no_root b
  | NCall3 _ a b c | NFilterAndProject a b c => no_root a && no_root b && no_root c
  | NCall4 _ a b c d => no_root a && no_root b && no_root c && no_root d
  | NCallVar _ l | NSelectArrayCurrent l => forallb no_root l
  | NSelectArray c l => no_root c && forallb no_root l
  | NSelectObjectCurrent m => forallb (fun kf => no_root (snd kf)) m
  | NSelectObject c m | NDefine m c => no_root c && forallb (fun kf => no_root (snd kf)) m
  | _ => true
  end.

Lemma forallb_snd_in {A} (p : A -> bool) (m : list (bytes * A)) c :
  forallb (fun kf => p (snd kf)) m = true -> In c (map snd m) -> p c = true.
Proof.
  intros H Hin. apply in_map_iff in Hin as [[k f] [<- Hin]].
  rewrite forallb_forall in H. exact (H (k, f) Hin).
Qed.

Lemma no_root_child n c : no_root n = true -> In c (nchildren n) -> no_root c = true.
Proof.
  destruct n; cbn [nchildren no_root]; intros H Hin;
    try contradiction;
    repeat match goal with H : _ && _ = true |- _ => apply andb_prop in H; destruct H end;
    try (cbn [In] in Hin; repeat (destruct Hin as [<-|Hin]; [assumption|]); contradiction).
  - rewrite forallb_forall in H. auto.
  - destruct Hin as [<-|Hin]; [assumption|]. eapply forallb_snd_in; eassumption.
  - destruct Hin as [<-|Hin]; [assumption|].
    match goal with H : forallb _ _ = true |- _ => rewrite forallb_forall in H; auto end.
  - rewrite forallb_forall in H. auto.
  - destruct Hin as [<-|Hin]; [assumption|]. eapply forallb_snd_in; eassumption.
  - eapply forallb_snd_in; eassumption.
Qed.

Ltac rw_root root Hc :=
  repeat match goal with
         | |- context [eval root ?c ?x ?vs] => rewrite (Hc c ltac:(cbn [In]; tauto) x vs)
         end.
Ltac closure_root Hc :=
  first [ apply project_array_ext | apply project_object_ext | apply flatten_and_project_ext
        | apply filter_array_ext | apply filter_and_project_ext | apply map_array_ext
        | apply group_by_ext | apply array_extreme_by_ext | apply sort_array_by_ext ];
  intros ?; apply Hc; cbn [In]; tauto.

Theorem eval_root_irrelevant : forall n root root' cur vars,
  no_root n = true -> eval root n cur vars = eval root' n cur vars.
Proof.
  intros n root root'. induction n as [n IH] using node_ind'. intros cur vars Hnr.
  assert (Hc : forall c, In c (nchildren n) -> forall x vs, eval root c x vs = eval root' c x vs).
  { intros c Hin x vs. rewrite Forall_forall in IH. apply (IH c Hin). exact (no_root_child n c Hnr Hin). }
  clear IH.
  destruct n; cbn [nchildren] in Hc; try discriminate;
    try rewrite !eval_define; try rewrite !eval_select_array; try rewrite !eval_select_array_current;
    try rewrite !eval_select_object; try rewrite !eval_select_object_current;
    cbn [eval];
    rw_root root Hc; repeat (bind_destruct; rw_root root Hc); try reflexivity;
    try (closure_root Hc).
  - (* NCallBy *) destruct f; closure_root Hc.
  - (* NCallVar *)
    destruct f.
    + generalize (@nil (bytes * value)). induction args as [|a r IHr]; intros acc; [reflexivity|].
      rewrite (Hc a (or_introl eq_refl)).
      destruct (eval root' a cur vars) as [x| | | |]; cbn [bind]; try reflexivity.
      destruct x; try reflexivity. apply IHr.
      * cbn [no_root forallb] in Hnr. apply andb_prop in Hnr. apply Hnr.
      * intros c Hin. apply Hc. right. exact Hin.
    + induction args as [|a r IHr]; [reflexivity|].
      rewrite (Hc a (or_introl eq_refl)).
      destruct (eval root' a cur vars) as [x| | | |]; cbn [bind]; try reflexivity.
      destruct (Array.is_null x); [|reflexivity]. apply IHr.
      * cbn [no_root forallb] in Hnr. apply andb_prop in Hnr. apply Hnr.
      * intros c Hin. apply Hc. right. exact Hin.
    + match goal with |- bind ?a _ = bind ?b _ => assert (E : a = b); [|rewrite E; reflexivity] end.
      induction args as [|a r IHr]; [reflexivity|].
      rewrite (Hc a (or_introl eq_refl)).
      destruct (eval root' a cur vars) as [x| | | |]; cbn [bind]; try reflexivity.
      destruct x; try reflexivity. rewrite IHr; [reflexivity| |].
      * cbn [no_root forallb] in Hnr. apply andb_prop in Hnr. apply Hnr.
      * intros c Hin. apply Hc. right. exact Hin.
  - (* NDefine *)
    rewrite (define_loop_ext _ (fun e => eval root' e cur vars) vars0).
    + destruct (define_loop (fun e => eval root' e cur vars) vars0) as [fr| | | |];
        cbn [bind]; try reflexivity.
      apply Hc. left. reflexivity.
    + intros c Hin. apply Hc. right. exact Hin.
  - (* NProjectArray *)
    destruct a; try closure_root Hc. destruct (is_slice_node n1); [reflexivity|closure_root Hc].
  - destruct (Array.is_null a); [reflexivity|].
    rewrite (nlist_loop_ext _ (fun f => eval root' f a vars) fields); [reflexivity|].
    intros c Hin. apply Hc. right. exact Hin.
  - destruct (Array.is_null cur); [reflexivity|].
    rewrite (nlist_loop_ext _ (fun f => eval root' f cur vars) fields); [reflexivity|].
    intros c Hin. apply Hc. exact Hin.
  - destruct (Array.is_null a); [reflexivity|].
    rewrite (define_loop_ext _ (fun f => eval root' f a vars) fields); [reflexivity|].
    intros c Hin. apply Hc. right. exact Hin.
  - destruct (Array.is_null cur); [reflexivity|].
    rewrite (define_loop_ext _ (fun f => eval root' f cur vars) fields); [reflexivity|].
    intros c Hin. apply Hc. exact Hin.
Qed.

(* with no `$` and no free variable, only the current node matters *)
Corollary eval_current_only : forall n root root' cur vars vars',
  no_root n = true -> nfree_vars n = [] -> eval root n cur vars = eval root' n cur vars'.
Proof.
  intros n root root' cur vars vars' Hr Hv.
  rewrite (eval_root_irrelevant n root root' cur vars Hr).
  apply eval_closed_env_irrelevant. exact Hv.
Qed.

(* ================================================================== *)
(* 2. a pipe is a second search over the first result                  *)
(* ================================================================== *)

(* in any context: the right-hand side of a pipe is a fresh search of the left result *)
Theorem pipe_requery_at : forall n1 n2 root cur vars v,
  no_root n2 = true -> nfree_vars n2 = [] ->
  eval root n1 cur vars = Ok v ->
  eval root (NPipe n1 n2) cur vars = evaluate n2 v.
Proof.
  intros n1 n2 root cur vars v Hr Hv H1. cbn [eval]. rewrite H1. cbn [bind]. unfold evaluate.
  apply eval_current_only; assumption.
Qed.

Theorem pipe_requery : forall n1 n2 data v,
  no_root n2 = true -> nfree_vars n2 = [] ->
  evaluate n1 data = Ok v -> evaluate (NPipe n1 n2) data = evaluate n2 v.
Proof. intros n1 n2 data v Hr Hv H1. unfold evaluate at 2. eapply pipe_requery_at; eassumption. Qed.

(* at top level the scope is empty on both sides, so only `$` matters *)
Theorem pipe_requery_open : forall n1 n2 data v,
  no_root n2 = true ->
  evaluate n1 data = Ok v -> evaluate (NPipe n1 n2) data = evaluate n2 v.
Proof.
  intros n1 n2 data v Hr H1. unfold evaluate in *. cbn [eval]. rewrite H1. cbn [bind].
  apply eval_root_irrelevant. exact Hr.
Qed.

(* a failing first search is the failure of the pipe (no hypothesis on n2) *)
Theorem pipe_first_fails : forall n1 n2 data e,
  evaluate n1 data = Err e -> evaluate (NPipe n1 n2) data = Err e.
Proof. intros n1 n2 data e H1. unfold evaluate in *. cbn [eval]. rewrite H1. reflexivity. Qed.

Theorem pipe_first_not_ok : forall n1 n2 data,
  is_ok (evaluate n1 data) = false -> evaluate (NPipe n1 n2) data = evaluate n1 data.
Proof.
  intros n1 n2 data H1. unfold evaluate in *. cbn [eval].
  destruct (eval data n1 data []); try reflexivity. discriminate.
Qed.

(* Expression.Search *)
Theorem expression_search_pipe : forall n1 n2 data v,
  no_root n2 = true ->
  expression_search n1 data = RValue v ->
  expression_search (NPipe n1 n2) data = expression_search n2 v.
Proof.
  intros n1 n2 data v Hr H1. unfold expression_search in *.
  destruct (evaluate n1 data) as [w| | | |] eqn:E; try discriminate.
  injection H1 as ->. rewrite (pipe_requery_open n1 n2 data v Hr E). reflexivity.
Qed.

Theorem expression_search_pipe_fails : forall n1 n2 data,
  (forall v, expression_search n1 data <> RValue v) ->
  expression_search (NPipe n1 n2) data = expression_search n1 data.
Proof.
  intros n1 n2 data H1. unfold expression_search in *.
  rewrite pipe_first_not_ok; [reflexivity|].
  destruct (evaluate n1 data) as [w| | | |]; try reflexivity. exfalso. exact (H1 w eq_refl).
Qed.

(* Search on two compiled texts: searching the first result with the second text
   is what the piped node computes *)
Theorem search_pipe : forall e1 e2 n1 n2 data v,
  parse e1 = Ok n1 -> parse e2 = Ok n2 -> no_root n2 = true ->
  search e1 data = RValue v ->
  expression_search (NPipe n1 n2) data = search e2 v.
Proof.
  intros e1 e2 n1 n2 data v P1 P2 Hr H1. unfold search in *. rewrite P1 in H1. rewrite P2.
  cbn [lift_parse] in *. apply expression_search_pipe; assumption.
Qed.

(* ================================================================== *)
(* 3. closure: results are result values                               *)
(* ================================================================== *)

(* nil, bool, string, []any, map[string]any (a Go map: unique keys), and numbers
   carried as json.Number, decimal128.Decimal or int64 *)
Fixpoint result_value (v : value) : bool :=
  match v with
  | VNull | VBool _ | VStr _ => true
  | VNum (NJson _) | VNum (NDec _) | VNum (NInt I64 _) => true
  | VNum _ => false
  | VArr l => forallb result_value l
  | VObj m => nodup_keys m && forallb (fun kv => result_value (snd kv)) m
  | VForeign _ => false
  end.

Definition RV (v : value) : Prop := result_value v = true.
Definition RVs (l : list value) : Prop := forall x, In x l -> RV x.
Definition RVm (m : list (bytes * value)) : Prop := nodup_keys m = true /\ RVs (map snd m).

(* a decoded JSON document is a result value *)
Lemma json_value_result : forall v, json_value v = true -> result_value v = true.
Proof.
  fix IH 1. intros v. destruct v as [| | |n|l|m|]; cbn [json_value result_value];
    try reflexivity; try discriminate.
  - destruct n; try discriminate; reflexivity.
  - revert l. fix IHl 1. intros [|x r]; [reflexivity|]. cbn [forallb]. intros H.
    apply andb_prop in H. destruct H as [H1 H2]. rewrite (IH x H1). exact (IHl r H2).
  - intros H. apply andb_prop in H. destruct H as [Hn H]. rewrite Hn. cbn [andb].
    clear Hn. revert m H. fix IHm 1. intros [|[k x] r]; [reflexivity|]. cbn [forallb snd]. intros H.
    apply andb_prop in H. destruct H as [H1 H2]. rewrite (IH x H1). exact (IHm r H2).
Qed.

Lemma forallb_snd {A} (p : A -> bool) (m : list (bytes * A)) :
  forallb (fun kv => p (snd kv)) m = forallb p (map snd m).
Proof. induction m as [|[k x] r IH]; [reflexivity|]. cbn [forallb map snd]. rewrite IH. reflexivity. Qed.

Lemma RV_arr l : RV (VArr l) <-> RVs l.
Proof. unfold RV, RVs. cbn [result_value]. apply forallb_forall. Qed.
Lemma RV_obj m : RV (VObj m) <-> RVm m.
Proof.
  unfold RV, RVm, RVs. cbn [result_value]. rewrite andb_true_iff, forallb_snd, forallb_forall. reflexivity.
Qed.

Lemma RVs_nil : RVs []. Proof. intros x []. Qed.
Lemma RVs_cons x l : RV x -> RVs l -> RVs (x :: l).
Proof. intros Hx Hl y [<-|Hy]; auto. Qed.
Lemma RVs_inv x l : RVs (x :: l) -> RV x /\ RVs l.
Proof. intros H. split; [apply H; left; reflexivity|intros y Hy; apply H; right; exact Hy]. Qed.
Lemma RVs_app a b : RVs a -> RVs b -> RVs (a ++ b).
Proof. intros Ha Hb x Hx. apply in_app_or in Hx as [Hx|Hx]; auto. Qed.
Lemma RVs_incl a b : incl a b -> RVs b -> RVs a.
Proof. intros Hi Hb x Hx. apply Hb, Hi, Hx. Qed.
Lemma RVs_filter p l : RVs l -> RVs (List.filter p l).
Proof. apply RVs_incl. intros x Hx. apply filter_In in Hx. apply Hx. Qed.
Lemma RVs_firstn k l : RVs l -> RVs (firstn k l).
Proof. apply RVs_incl. intros x Hx. rewrite <- (firstn_skipn k l). apply in_or_app. left. exact Hx. Qed.
Lemma RVs_skipn k l : RVs l -> RVs (skipn k l).
Proof. apply RVs_incl. intros x Hx. rewrite <- (firstn_skipn k l). apply in_or_app. right. exact Hx. Qed.
Lemma RVs_rev l : RVs l -> RVs (rev l).
Proof. apply RVs_incl. intros x Hx. apply in_rev. exact Hx. Qed.
Lemma RVs_nth l k : RVs l -> RV (nth k l VNull).
Proof. intros H. destruct (nth_in_or_default k l VNull) as [Hin| ->]; [apply H; exact Hin|reflexivity]. Qed.
Lemma RV_map_VStr l : RV (VArr (map VStr l)).
Proof. apply RV_arr. intros x Hx. apply in_map_iff in Hx as [s [<- _]]. reflexivity. Qed.

(* ---- association lists ---- *)
Lemma assoc_In {A} k (m : list (bytes * A)) x : assoc k m = Some x -> In x (map snd m).
Proof.
  induction m as [|[k' y] r IH]; [discriminate|]. cbn [assoc map snd In].
  destruct (beqb k k'); [intros [= ->]; left; reflexivity|intros H; right; exact (IH H)].
Qed.

Lemma assoc_assoc_set {A} k' k (v : A) m :
  assoc k' (assoc_set k v m) = if beqb k' k then Some v else assoc k' m.
Proof.
  induction m as [|[k0 v0] r IH]; [reflexivity|]. cbn [assoc_set assoc].
  destruct (beqb k k0) eqn:E.
  - apply beqb_eq in E. subst k0. cbn [assoc]. destruct (beqb k' k); reflexivity.
  - cbn [assoc]. rewrite IH. destruct (beqb k' k0) eqn:E0, (beqb k' k) eqn:E1; try reflexivity.
    apply beqb_eq in E0, E1. subst. rewrite beqb_refl in E. discriminate.
Qed.

Lemma nodup_assoc_set {A} k (v : A) m : nodup_keys m = true -> nodup_keys (assoc_set k v m) = true.
Proof.
  induction m as [|[k0 v0] r IH]; [reflexivity|]. cbn [assoc_set nodup_keys].
  destruct (assoc k0 r) eqn:A0; [discriminate|]. intros Hr.
  destruct (beqb k k0) eqn:E.
  - apply beqb_eq in E. subst k0. cbn [nodup_keys]. rewrite A0. exact Hr.
  - cbn [nodup_keys]. rewrite assoc_assoc_set, A0.
    rewrite beqb_sym, E. apply IH. exact Hr.
Qed.

Lemma In_assoc_set {A} k (v : A) m x : In x (map snd (assoc_set k v m)) -> x = v \/ In x (map snd m).
Proof.
  induction m as [|[k0 v0] r IH]; cbn [assoc_set map snd In].
  - intros [<-|[]]. left. reflexivity.
  - destruct (beqb k k0); cbn [map snd In].
    + intros [<-|H]; [left; reflexivity|right; right; exact H].
    + intros [<-|H]; [right; left; reflexivity|]. destruct (IH H); [left|right; right]; assumption.
Qed.

Lemma RVm_nil : RVm []. Proof. split; [reflexivity|exact RVs_nil]. Qed.
Lemma RVm_assoc_set k v m : RVm m -> RV v -> RVm (assoc_set k v m).
Proof.
  intros [Hn Hm] Hv. split; [apply nodup_assoc_set; exact Hn|].
  intros x Hx. apply In_assoc_set in Hx as [->|Hx]; auto.
Qed.
Lemma RVm_fold m : forall acc, RVs (map snd m) -> RVm acc ->
  RVm (fold_left (fun acc kv => assoc_set (fst kv) (snd kv) acc) m acc).
Proof.
  induction m as [|[k x] r IH]; intros acc Hm Ha; [exact Ha|]. cbn [fold_left fst snd].
  cbn [map snd] in Hm. apply RVs_inv in Hm as [Hx Hr]. apply IH; [exact Hr|].
  apply RVm_assoc_set; assumption.
Qed.
Lemma nodup_keys_same {A B} (a : list (bytes * A)) : forall (b : list (bytes * B)),
  map fst a = map fst b -> nodup_keys a = nodup_keys b.
Proof.
  assert (Has : forall k (a : list (bytes * A)) (b : list (bytes * B)), map fst a = map fst b ->
                is_some (assoc k a) = is_some (assoc k b)).
  { intros k a0. induction a0 as [|[k1 x1] r1 IH1]; intros [|[k2 x2] r2] H; try discriminate; [reflexivity|].
    cbn [map fst] in H. injection H as -> H. cbn [assoc]. destruct (beqb k k2); [reflexivity|auto]. }
  induction a as [|[k1 x1] r1 IH]; intros [|[k2 x2] r2] H; try discriminate; [reflexivity|].
  cbn [map fst] in H. injection H as -> H. cbn [nodup_keys].
  pose proof (Has k2 r1 r2 H) as E. rewrite (IH r2 H).
  destruct (assoc k2 r1), (assoc k2 r2); try reflexivity; discriminate.
Qed.

(* ---- outcomes ---- *)
Definition okP {A} (P : A -> Prop) (o : outcome A) : Prop := match o with Ok a => P a | _ => True end.

Lemma okP_bind {A B} (P : A -> Prop) (Q : B -> Prop) (o : outcome A) (f : A -> outcome B) :
  okP P o -> (forall a, P a -> okP Q (f a)) -> okP Q (bind o f).
Proof. destruct o; cbn [okP bind]; auto. Qed.
Lemma okP_bind_any {A B} (Q : B -> Prop) (o : outcome A) (f : A -> outcome B) :
  (forall a, okP Q (f a)) -> okP Q (bind o f).
Proof. destruct o; cbn [okP bind]; auto. Qed.
Lemma okP_elim {A} (P : A -> Prop) o a : okP P o -> o = Ok a -> P a.
Proof. intros H ->. exact H. Qed.

Ltac okp :=
  repeat (cbn [okP bind];
    match goal with
    | |- True => exact I
    | |- okP _ (bind ?o _) => destruct o eqn:?
    | |- okP _ (if ?c then _ else _) => destruct c eqn:?
    | |- okP _ (match ?x with _ => _ end) => destruct x eqn:?
    end).

(* ---- numbers ---- *)
Lemma RV_to_float v : RV v -> to_float v = None.
Proof. destruct v as [| | |[]| | |]; try reflexivity. discriminate. Qed.

Lemma rv_trap d : okP RV (trap d).
Proof. unfold trap. okp. reflexivity. Qed.

Lemma rv_arith fop dop x y : RV x -> okP RV (arith fop dop x y).
Proof. intros H. unfold arith. rewrite (RV_to_float x H). okp; apply rv_trap. Qed.
Lemma rv_integer_divide x y : RV x -> okP RV (integer_divide x y).
Proof. intros H. unfold integer_divide. rewrite (RV_to_float x H). okp; reflexivity. Qed.
Lemma rv_modulo x y : RV x -> okP RV (modulo x y).
Proof. intros H. unfold modulo. rewrite (RV_to_float x H). okp; apply rv_trap. Qed.
Lemma rv_num1 fop dop v : RV v -> okP RV (num1 fop dop v).
Proof. intros H. unfold num1. rewrite (RV_to_float v H). okp. reflexivity. Qed.
Lemma rv_negate v : RV v -> RV (negate v).
Proof.
  intros H. unfold negate. rewrite (RV_to_float v H).
  destruct (to_decimal v); [|reflexivity]. destruct (is_zero d); reflexivity.
Qed.
Lemma rv_sum v : okP RV (sum v).
Proof. unfold sum. okp. apply rv_trap. Qed.
Lemma rv_avg v : okP RV (avg v).
Proof. unfold avg. okp; try reflexivity; apply rv_trap. Qed.

Lemma rv_cmp_op f x y : RV (cmp_op f x y).
Proof. unfold cmp_op. destruct (to_decimal x); [|reflexivity]. destruct (to_decimal y); reflexivity. Qed.

Lemma rv_binop op x y : RV x -> RV y -> okP RV (binop_eval op x y).
Proof.
  intros Hx Hy. destruct op; cbn [binop_eval okP];
    try reflexivity; try apply rv_cmp_op;
    first [apply rv_integer_divide | apply rv_modulo | apply rv_arith]; assumption.
Qed.

(* ---- arrays ---- *)
Lemma RVs_drop_nulls l : RVs l -> RVs (drop_nulls l).
Proof. apply RVs_filter. Qed.

Lemma rv_flatten v : RV v -> RV (flatten v).
Proof.
  destruct v as [| | | |a| |]; try reflexivity. intros H. apply RV_arr in H. cbn [flatten]. apply RV_arr.
  intros y Hy. apply in_flat_map in Hy as [x [Hx Hy]]. pose proof (H x Hx) as Hrx.
  destruct x; try (destruct Hy as [<-|[]]; exact Hrx); try contradiction.
  apply RV_arr in Hrx. exact (RVs_drop_nulls _ Hrx y Hy).
Qed.

Lemma rv_index v i : RV v -> RV (index v i).
Proof.
  destruct v as [| | | |a| |]; try reflexivity. intros H. apply RV_arr in H. cbn [index].
  destruct (i <? 0); [destruct (i + zlen a <? 0); [reflexivity|apply RVs_nth; exact H]|].
  destruct (i >=? zlen a); [reflexivity|apply RVs_nth; exact H].
Qed.

Lemma rv_prune_array v : RV v -> RV (prune_array v).
Proof.
  destruct v as [| | | |a| |]; try reflexivity. intros H. apply RV_arr in H. cbn [prune_array].
  apply RV_arr. apply RVs_drop_nulls. exact H.
Qed.

Lemma RVs_sorted_fst {K} (le : value * K -> value * K -> bool) (a : list value) (ks : list K) :
  RVs a -> RVs (map fst (stable_sort le (combine a ks))).
Proof.
  intros H y Hy. apply in_map_iff in Hy as [[y' d] [<- Hy]]. apply stable_sort_in in Hy.
  apply in_combine_l in Hy. apply H. exact Hy.
Qed.

Lemma rv_sort_array v : RV v -> okP RV (sort_array v).
Proof.
  destruct v as [| | | |a| |]; try exact (fun _ => I). intros H. apply RV_arr in H.
  unfold sort_array. destruct a as [|x r]; [reflexivity|].
  destruct x;
    try (destruct (all_decimals _); [|exact I]; cbn [okP]; apply RV_arr; apply RVs_sorted_fst; exact H).
  destruct (all_strings _); [|exact I]. apply RV_map_VStr.
Qed.

Lemma rv_array_extreme gt v : okP RV (array_extreme gt v).
Proof. unfold array_extreme. okp; reflexivity. Qed.

(* ---- functions.go / object.go ---- *)
Lemma rv_field name v : RV v -> RV (field name v).
Proof.
  destruct v as [| | | | |m|]; try reflexivity. intros H. apply RV_obj in H as [_ H]. cbn [field].
  destruct (assoc name m) eqn:A; [|reflexivity]. apply H. eapply assoc_In. exact A.
Qed.

Lemma rv_from_items_loop l : forall acc, RVs l -> RVm acc -> okP RVm (from_items_loop l acc).
Proof.
  induction l as [|x r IH]; intros acc Hl Ha; [exact Ha|]. apply RVs_inv in Hl as [Hx Hr].
  cbn [from_items_loop]. okp. subst. apply IH; [exact Hr|].
  apply RV_arr in Hx. apply RVm_assoc_set; [exact Ha|]. apply Hx. right. left. reflexivity.
Qed.
Lemma rv_from_items v : RV v -> okP RV (from_items v).
Proof.
  destruct v as [| | | |a| |]; try exact (fun _ => I). intros H. apply RV_arr in H. cbn [from_items].
  destruct (forallb is_arr a); [|exact I].
  eapply okP_bind; [apply rv_from_items_loop; [exact H|exact RVm_nil]|].
  intros m Hm. apply RV_obj. exact Hm.
Qed.

Lemma rv_items v : RV v -> okP RV (items v).
Proof.
  destruct v as [| | | | |m|]; try exact (fun _ => I). intros H. apply RV_obj in H as [_ H].
  cbn [items okP]. apply RV_arr. intros y Hy. apply in_map_iff in Hy as [[k x] [<- Hin]].
  apply RV_arr. apply RVs_cons; [reflexivity|]. apply RVs_cons; [|exact RVs_nil].
  apply H. apply in_map_iff. exists (k, x). split; [reflexivity|exact Hin].
Qed.
Lemma rv_keys v : okP RV (keys v).
Proof.
  destruct v as [| | | | |m|]; try exact I. cbn [keys okP]. apply RV_arr.
  intros y Hy. apply in_map_iff in Hy as [[k x] [<- Hin]]. reflexivity.
Qed.
Lemma rv_values v : RV v -> okP RV (values v).
Proof.
  destruct v as [| | | | |m|]; try exact (fun _ => I). intros H. apply RV_obj in H as [_ H].
  cbn [values okP]. apply RV_arr. exact H.
Qed.
Lemma rv_object_values v : RV v -> RV (object_values v).
Proof.
  destruct v as [| | | | |m|]; try reflexivity. intros H. apply RV_obj in H as [_ H].
  cbn [object_values]. apply RV_arr. apply RVs_filter. exact H.
Qed.

Lemma rv_length v : okP RV (length_ v).
Proof. destruct v; try exact I; reflexivity. Qed.
Lemma rv_lower v : okP RV (lower v).
Proof.
  destruct v; try exact I. unfold lower. destruct (all_ascii _); cbn [okP]; [reflexivity|].
  match goal with |- context [encode_all ?x] => generalize (encode_all x) end. intro; reflexivity.
Qed.
Lemma rv_upper v : okP RV (upper v).
Proof.
  destruct v; try exact I. unfold upper. destruct (all_ascii _); cbn [okP]; [reflexivity|].
  match goal with |- context [encode_all ?x] => generalize (encode_all x) end. intro; reflexivity.
Qed.
Lemma rv_reverse v : RV v -> okP RV (reverse v).
Proof.
  destruct v as [| | | |a| |]; try exact (fun _ => I); [reflexivity|].
  intros H. apply RV_arr in H. cbn [reverse okP]. apply RV_arr. apply RVs_rev. exact H.
Qed.
Lemma rv_to_array v : RV v -> RV (to_array v).
Proof.
  intros H. destruct v; cbn [to_array]; try exact H;
    (apply RV_arr; apply RVs_cons; [exact H|exact RVs_nil]).
Qed.
Lemma rv_to_number v : RV v -> RV (to_number v).
Proof.
  intros H. destruct v; cbn [to_number]; try exact H; try reflexivity.
  destruct (json_number_ok s); [|reflexivity]. destruct (parse_dec s); reflexivity.
Qed.
Lemma rv_to_string v : okP RV (to_string v).
Proof. unfold to_string. okp; reflexivity. Qed.
Lemma rv_type_name v : okP RV (type_name v).
Proof. destruct v; try exact I; reflexivity. Qed.

Lemma rv_call1 f a : RV a -> okP RV (call1 f a).
Proof.
  intros H. destruct f; cbn [call1 okP];
    try (match goal with |- okP RV (lower _) => apply rv_lower | |- okP RV (upper _) => apply rv_upper end);
    first [ apply rv_num1; exact H | apply rv_avg | apply rv_from_items; exact H | apply rv_items; exact H
          | apply rv_keys | apply rv_length | apply rv_lower | apply rv_array_extreme
          | apply rv_reverse; exact H | apply rv_sort_array; exact H | apply rv_sum
          | apply rv_to_array; exact H | apply rv_to_number; exact H | apply rv_to_string
          | apply rv_type_name | apply rv_upper | apply rv_values; exact H
          | (unfold trim_space, trim_space_left, trim_space_right, str_arg; okp; reflexivity) ].
Qed.

(* ---- string.go: every result is a string, a bool, an int64, null, an array of
   strings, or (pad) the string argument itself ---- *)
Ltac str_fn :=
  okp; first [reflexivity | assumption | apply RV_map_VStr].

Lemma rv_contains x y : okP RV (contains x y).
Proof. unfold contains. okp; reflexivity. Qed.
Lemma rv_find_from last a b c : okP RV (find_from last a b c).
Proof. unfold find_from. str_fn. Qed.
Lemma rv_find_between last a b c d : okP RV (find_between last a b c d).
Proof. unfold find_between. str_fn. Qed.
Lemma rv_join a b : okP RV (join a b).
Proof. unfold join. str_fn. Qed.
Lemma rv_pad left a w p : RV a -> okP RV (pad left a w p).
Proof. intros H. unfold pad. str_fn. Qed.
Lemma rv_split a b : okP RV (split a b).
Proof. unfold split. str_fn. Qed.
Lemma rv_split_count a b c : okP RV (split_count a b c).
Proof. unfold split_count. str_fn. Qed.

Lemma rv_call2 f a b : RV a -> RV b -> okP RV (call2 f a b).
Proof.
  intros Ha Hb. destruct f; cbn [call2];
    first [ apply rv_contains | apply rv_join | apply rv_pad; exact Ha | apply rv_split
          | (unfold ends_with, starts_with, find_first, find_last, trim, trim_left, trim_right; str_fn) ].
Qed.
Lemma rv_call3 f a b c : RV a -> okP RV (call3 f a b c).
Proof.
  intros Ha. destruct f; cbn [call3];
    first [ apply rv_find_from | apply rv_pad; exact Ha | apply rv_split_count
          | (unfold replace; str_fn) ].
Qed.
Lemma rv_call4 f a b c d : okP RV (call4 f a b c d).
Proof.
  destruct f; cbn [call4]; first [ apply rv_find_between | (unfold replace_count; str_fn) ].
Qed.

(* ---- slices ---- *)
Lemma rv_slice v start stop : RV v -> okP RV (slice v start stop).
Proof.
  destruct v as [| |s| |a| |]; try exact (fun _ => I); try (intros _; reflexivity).
  - intros _. cbn [slice]. okp; reflexivity.
  - intros H. apply RV_arr in H. cbn [slice]. destruct (norm1 _ _ _ _); [reflexivity|].
    unfold sub. destruct (_ && _); [|exact I]. cbn [bind okP]. apply RV_arr.
    apply RVs_firstn, RVs_skipn. exact H.
Qed.

Lemma rv_pick a : RVs a -> forall k j step, okP RVs (pick a k j step).
Proof.
  intros H. induction k as [|k IH]; intros j step; [exact RVs_nil|]. cbn [pick].
  unfold at_ at 1. destruct (_ && _); [|exact I].
  destruct (nth_error a (Z.to_nat j)) as [x|] eqn:E; [|exact I]. cbn [bind].
  eapply okP_bind; [apply IH|]. intros r Hr. cbn [okP]. apply RVs_cons; [|exact Hr].
  apply H. eapply nth_error_In. exact E.
Qed.

Lemma rv_slice_step v start stop step : RV v -> okP RV (slice_step v start stop step).
Proof.
  destruct v as [| |s| |a| |]; try exact (fun _ => I); try (intros _; reflexivity).
  - intros _. cbn [slice_step]. okp; reflexivity.
  - intros H. apply RV_arr in H. cbn [slice_step]. destruct (norm_step _ _ _ _) as [[i n]|]; [|reflexivity].
    destruct (step =? 0); [exact I|]. destruct (_ || _); [exact I|].
    eapply okP_bind; [apply rv_pick; exact H|]. intros r Hr. apply RV_arr. exact Hr.
Qed.

(* ---- helpers with a callback ---- *)
Section Callback.
  Variable ev : value -> outcome value.

  Lemma rv_project_list l : (forall v, In v l -> okP RV (ev v)) -> okP RVs (project_list ev l).
  Proof.
    induction l as [|v r IH]; intros H; [exact RVs_nil|]. cbn [project_list].
    eapply okP_bind; [apply H; left; reflexivity|]. intros p Hp.
    eapply okP_bind; [apply IH; intros w Hw; apply H; right; exact Hw|]. intros ps Hps.
    cbn [okP]. destruct (is_null p); [exact Hps|apply RVs_cons; assumption].
  Qed.
  Lemma rv_project_array v : (forall x, RV x -> okP RV (ev x)) -> RV v -> okP RV (project_array ev v).
  Proof.
    intros He. destruct v as [| | | |a| |]; try (intros _; reflexivity). intros H. apply RV_arr in H.
    cbn [project_array]. eapply okP_bind; [apply rv_project_list; intros x Hx; apply He, H, Hx|].
    intros r Hr. apply RV_arr. exact Hr.
  Qed.
  Lemma rv_project_object v : (forall x, RV x -> okP RV (ev x)) -> RV v -> okP RV (project_object ev v).
  Proof.
    intros He. destruct v as [| | | | |m|]; try (intros _; reflexivity). intros H. apply RV_obj in H as [_ H].
    cbn [project_object]. eapply okP_bind; [apply rv_project_list; intros x Hx; apply He, H, Hx|].
    intros r Hr. apply RV_arr. exact Hr.
  Qed.
  Lemma rv_flatten_and_project v :
    (forall x, RV x -> okP RV (ev x)) -> RV v -> okP RV (flatten_and_project ev v).
  Proof.
    intros He. destruct v as [| | | |a| |]; try (intros _; reflexivity). intros H. apply RV_arr in H.
    cbn [flatten_and_project]. eapply okP_bind.
    - apply rv_project_list. intros y Hy. apply He. apply in_flat_map in Hy as [x [Hx Hy]].
      pose proof (H x Hx) as Hrx.
      destruct x; try (destruct Hy as [<-|[]]; exact Hrx). apply RV_arr in Hrx. apply Hrx. exact Hy.
    - intros r Hr. apply RV_arr. exact Hr.
  Qed.
  Lemma rv_mapM l : (forall v, In v l -> okP RV (ev v)) -> okP RVs (mapM ev l).
  Proof.
    induction l as [|v r IH]; intros H; [exact RVs_nil|]. cbn [mapM].
    eapply okP_bind; [apply H; left; reflexivity|]. intros p Hp.
    eapply okP_bind; [apply IH; intros w Hw; apply H; right; exact Hw|]. intros ps Hps.
    cbn [okP]. apply RVs_cons; assumption.
  Qed.
  Lemma rv_map_array v : (forall x, RV x -> okP RV (ev x)) -> RV v -> okP RV (map_array ev v).
  Proof.
    intros He. destruct v as [| | | |a| |]; try (intros _; exact I). intros H. apply RV_arr in H.
    cbn [map_array]. eapply okP_bind; [apply rv_mapM; intros x Hx; apply He, H, Hx|].
    intros r Hr. apply RV_arr. exact Hr.
  Qed.

  (* the *_by functions only use the callback for keys: results are made of input elements *)
  Lemma rv_sort_array_by v : RV v -> okP RV (sort_array_by ev v).
  Proof.
    destruct v as [| | | |a| |]; try (intros _; exact I). intros H. destruct a as [|a0 rest]; [exact H|].
    apply RV_arr in H. cbn [sort_array_by]. destruct (keys_for ev a0 rest) as [[ss|ds]| | | |]; try exact I;
      cbn [bind okP]; apply RV_arr; apply RVs_sorted_fst; exact H.
  Qed.
  Lemma rv_best_by {K} (better : K -> K -> bool) l : forall bestv bestk,
    RV bestv -> RVs (map fst l) -> RV (best_by better bestv bestk l).
  Proof.
    induction l as [|[v k] r IH]; intros bestv bestk Hb Hl; [exact Hb|]. cbn [best_by].
    cbn [map fst] in Hl. apply RVs_inv in Hl as [Hv Hr]. destruct (better k bestk); apply IH; assumption.
  Qed.
  Lemma RVs_combine_fst {K} (a : list value) (ks : list K) : RVs a -> RVs (map fst (combine a ks)).
  Proof. intros H y Hy. apply in_map_iff in Hy as [[y' d] [<- Hy]]. apply in_combine_l in Hy. apply H, Hy. Qed.
  Lemma rv_array_extreme_by gt v : RV v -> okP RV (array_extreme_by ev gt v).
  Proof.
    destruct v as [| | | |a| |]; try (intros _; exact I). intros H. destruct a as [|a0 rest]; [reflexivity|].
    apply RV_arr in H. apply RVs_inv in H as [H0 Hr]. cbn [array_extreme_by].
    destruct (keys_for ev a0 rest) as [[[|k0 ss]|[|k0 ds]]| | | |]; try exact I;
      cbn [bind okP]; apply rv_best_by; try exact H0; apply RVs_combine_fst; exact Hr.
  Qed.
  Lemma rv_group_loop l : forall acc, RVs l -> RVm acc -> okP RVm (group_loop ev l acc).
  Proof.
    induction l as [|v r IH]; intros acc Hl Ha; [exact Ha|]. apply RVs_inv in Hl as [Hv Hr].
    cbn [group_loop]. destruct (ev v) as [k| | | |]; try exact I. cbn [bind].
    destruct k; try exact I. apply IH; [exact Hr|]. apply RVm_assoc_set; [exact Ha|].
    apply RV_arr. apply RVs_app; [|apply RVs_cons; [exact Hv|exact RVs_nil]].
    destruct (assoc s acc) as [g|] eqn:A; [|exact RVs_nil].
    destruct g; try exact RVs_nil. apply RV_arr. apply (proj2 Ha). eapply assoc_In. exact A.
  Qed.
  Lemma rv_group_by v : RV v -> okP RV (group_by ev v).
  Proof.
    destruct v as [| | | |a| |]; try (intros _; exact I). intros H. destruct a as [|a0 rest]; [reflexivity|].
    apply RV_arr in H. cbn [group_by].
    eapply okP_bind; [apply rv_group_loop; [exact H|exact RVm_nil]|]. intros m Hm. apply RV_obj. exact Hm.
  Qed.
End Callback.

Lemma rv_filter_list pred l : RVs l -> okP RVs (filter_list pred l).
Proof.
  induction l as [|v r IH]; intros H; [exact RVs_nil|]. apply RVs_inv in H as [Hv Hr].
  cbn [filter_list]. apply okP_bind_any. intros f.
  eapply okP_bind; [apply IH; exact Hr|]. intros rs Hrs. cbn [okP].
  destruct (_ && _); [apply RVs_cons; assumption|exact Hrs].
Qed.
Lemma rv_filter_array pred v : RV v -> okP RV (filter_array pred v).
Proof.
  destruct v as [| | | |a| |]; try (intros _; reflexivity). intros H. apply RV_arr in H.
  cbn [filter_array]. eapply okP_bind; [apply rv_filter_list; exact H|]. intros r Hr. apply RV_arr. exact Hr.
Qed.
Lemma rv_filter_project_list pred ev l :
  (forall v, In v l -> okP RV (ev v)) -> okP RVs (filter_project_list pred ev l).
Proof.
  induction l as [|v r IH]; intros H; [exact RVs_nil|]. cbn [filter_project_list].
  assert (Hr : okP RVs (filter_project_list pred ev r)) by (apply IH; intros w Hw; apply H; right; exact Hw).
  apply okP_bind_any. intros f. destruct (is_true f); [|exact Hr].
  eapply okP_bind; [apply H; left; reflexivity|]. intros p Hp.
  eapply okP_bind; [exact Hr|]. intros rs Hrs. cbn [okP].
  destruct (is_null p); [exact Hrs|apply RVs_cons; assumption].
Qed.
Lemma rv_filter_and_project pred ev v :
  (forall x, RV x -> okP RV (ev x)) -> RV v -> okP RV (filter_and_project pred ev v).
Proof.
  intros He. destruct v as [| | | |a| |]; try (intros _; reflexivity). intros H. apply RV_arr in H.
  cbn [filter_and_project].
  eapply okP_bind; [apply rv_filter_project_list; intros x Hx; apply He, H, Hx|].
  intros r Hr. apply RV_arr. exact Hr.
Qed.

Lemma rv_zip_rows cols : Forall RVs cols -> forall k i, RVs (zip_rows k i cols).
Proof.
  intros H. induction k as [|k IH]; intros i; [exact RVs_nil|]. cbn [zip_rows].
  apply RVs_cons; [|apply IH]. apply RV_arr. intros y Hy. apply in_map_iff in Hy as [c [<- Hc]].
  apply RVs_nth. rewrite Forall_forall in H. exact (H c Hc).
Qed.

(* ---- scopes ---- *)
Definition env_ok (vars : env) : Prop := forall name v, env_get name vars = Some v -> RV v.
Lemma env_ok_nil : env_ok []. Proof. intros name v H. discriminate. Qed.
Lemma env_ok_cons fr vars : RVs (map snd fr) -> env_ok vars -> env_ok (fr :: vars).
Proof.
  intros Hf Hv name v. cbn [env_get]. destruct (assoc name fr) eqn:A.
  - intros [= <-]. apply Hf. eapply assoc_In. exact A.
  - apply Hv.
Qed.

(* ---- the literals of a node ---- *)
(* The values held by `json` literal nodes are result values (the parser gets them
   from the JSON decoder: json_value_result), and the keys of a multi-select hash
   are distinct (the parser builds the field list with assoc_set; it is part of
   wf_node).  The second part is what makes NSelectObject produce a Go map. *)
Fixpoint lits_ok (n : node) : bool :=
  match n with
  | NLitArr l => result_value (VArr l)
  | NLitObj m => result_value (VObj m)
  | NCall1 _ c | NNot c | NNegate c | NAssertNumber c | NFilterCurrent c | NFlatten c
  | NFlattenAndProjectCurrent c | NIndex c _ | NObjectValues c | NProjectArrayCurrent c
  | NProjectObjectCurrent c | NPruneArray c | NSelectArraySingleCurrent c
  | NSelectObjectSingleCurrent _ c | NSlice c _ _ | NSliceStep c _ _ _ => lits_ok c
  | NCall2 _ a b | NCallBy _ a b | NMap a b | NBin _ a b | NAnd a b | NOr a b | NFilter a b
  | NFilterAndProjectCurrent a b | NFlattenAndProject a b | NPipe a b | NProjectArray a b
  | NProjectObject a b | NSelectArraySingle a b | NSelectObjectSingle a _ b => lits_ok a && lits_ok b
  | NCall3 _ a b c | NFilterAndProject a b c => lits_ok a && lits_ok b && lits_ok c
  | NCall4 _ a b c d => lits_ok a && lits_ok b && lits_ok c && lits_ok d
  | NCallVar _ l | NSelectArrayCurrent l => forallb lits_ok l
  | NSelectArray c l => lits_ok c && forallb lits_ok l
  | NSelectObjectCurrent m => forallb (fun kf => lits_ok (snd kf)) m && nodup_keys m
  | NSelectObject c m => lits_ok c && forallb (fun kf => lits_ok (snd kf)) m && nodup_keys m
  | NDefine m c => lits_ok c && forallb (fun kf => lits_ok (snd kf)) m
  | _ => true
  end.

Lemma lits_ok_child n c : lits_ok n = true -> In c (nchildren n) -> lits_ok c = true.
Proof.
  destruct n; cbn [nchildren lits_ok]; intros H Hin;
    try contradiction;
    repeat match goal with H : _ && _ = true |- _ => apply andb_prop in H; destruct H end;
    try (cbn [In] in Hin; repeat (destruct Hin as [<-|Hin]; [assumption|]); contradiction).
  - rewrite forallb_forall in H. auto.
  - destruct Hin as [<-|Hin]; [assumption|]. eapply forallb_snd_in; eassumption.
  - destruct Hin as [<-|Hin]; [assumption|].
    match goal with H : forallb _ _ = true |- _ => rewrite forallb_forall in H; auto end.
  - rewrite forallb_forall in H. auto.
  - destruct Hin as [<-|Hin]; [assumption|]. eapply (forallb_snd_in lits_ok); eassumption.
  - eapply (forallb_snd_in lits_ok); eassumption.
Qed.

(* ---- the loops of NDefine / multi-selects ---- *)
Lemma rv_nlist_loop ev l : (forall c, In c l -> okP RV (ev c)) -> okP RVs (nlist_loop ev l).
Proof.
  induction l as [|c r IH]; intros H; [exact RVs_nil|]. cbn [nlist_loop]. fold (nlist_loop ev r).
  eapply okP_bind; [apply H; left; reflexivity|]. intros y Hy.
  eapply okP_bind; [apply IH; intros w Hw; apply H; right; exact Hw|]. intros ys Hys.
  cbn [okP]. apply RVs_cons; assumption.
Qed.
Lemma rv_define_loop ev bs : (forall c, In c (map snd bs) -> okP RV (ev c)) ->
  okP (fun fr => map fst fr = map fst bs /\ RVs (map snd fr)) (define_loop ev bs).
Proof.
  induction bs as [|[k c] r IH]; intros H; [split; [reflexivity|exact RVs_nil]|].
  cbn [define_loop]. fold (define_loop ev r).
  eapply okP_bind; [apply H; left; reflexivity|]. intros y Hy.
  eapply okP_bind; [apply IH; intros w Hw; apply H; right; exact Hw|]. intros fr [Hk Hfr].
  cbn [okP map fst snd]. split; [rewrite Hk; reflexivity|apply RVs_cons; assumption].
Qed.

(* ---- main theorem ---- *)
Section Closure.
  Variable root : value.
  Hypothesis Hroot : RV root.

  Definition closed_at (n : node) : Prop :=
    forall cur vars, RV cur -> env_ok vars -> okP RV (eval root n cur vars).

  Ltac ev_step Hc :=
    match goal with
    | |- okP _ (bind (eval root ?c _ _) _) =>
      eapply okP_bind; [apply (Hc c); [cbn [In]; tauto | assumption | assumption] | intros ? ?]
    end.
  Ltac ev_leaf Hc :=
    match goal with
    | |- okP _ (eval root ?c _ _) => apply (Hc c); [cbn [In]; tauto | assumption | assumption]
    end.
  Ltac cb Hc := intros ? ?; ev_leaf Hc.

  Theorem closure_okP : forall n, lits_ok n = true -> closed_at n.
  Proof.
    induction n as [n IH] using node_ind'. intros Hl.
    assert (Hc : forall c, In c (nchildren n) -> closed_at c).
    { intros c Hin. rewrite Forall_forall in IH. apply (IH c Hin). exact (lits_ok_child n c Hl Hin). }
    clear IH. intros cur vars Hcur Hvars.
    destruct n; cbn [nchildren] in Hc;
      try rewrite eval_define; try rewrite eval_select_array; try rewrite eval_select_array_current;
      try rewrite eval_select_object; try rewrite eval_select_object_current;
      cbn [eval]; repeat ev_step Hc.
    - apply rv_call1; assumption.
    - apply rv_call2; assumption.
    - apply rv_call3; assumption.
    - apply rv_call4; assumption.
    - destruct f; [apply rv_group_by|apply rv_array_extreme_by|apply rv_array_extreme_by|apply rv_sort_array_by];
        assumption.
    - apply rv_map_array; [cb Hc|assumption].
    - (* NCallVar *)
      clear Hl. destruct f.
      + generalize RVm_nil. generalize (@nil (bytes * value)).
        induction args as [|a r IHr]; intros acc Ha; [apply RV_obj; exact Ha|].
        eapply okP_bind; [apply (Hc a (or_introl eq_refl)); assumption|]. intros x Hx.
        destruct x; try exact I. apply IHr.
        * intros c Hin. apply Hc. right. exact Hin.
        * apply RVm_fold; [apply RV_obj in Hx; apply Hx|exact Ha].
      + induction args as [|a r IHr]; [reflexivity|].
        eapply okP_bind; [apply (Hc a (or_introl eq_refl)); assumption|]. intros x Hx.
        destruct (is_null x); [|exact Hx]. apply IHr. intros c Hin. apply Hc. right. exact Hin.
      + eapply (okP_bind (Forall RVs)).
        * induction args as [|a r IHr]; [constructor|].
          eapply okP_bind; [apply (Hc a (or_introl eq_refl)); assumption|]. intros x Hx.
          destruct x; try exact I.
          eapply okP_bind; [apply IHr; intros c Hin; apply Hc; right; exact Hin|].
          intros cs Hcs. constructor; [apply RV_arr; exact Hx|exact Hcs].
        * intros cols Hcols. cbv zeta. destruct (_ >? _); [exact I|].
          apply RV_arr. apply rv_zip_rows. exact Hcols.
    - apply rv_binop; assumption.
    - destruct (negb _); [assumption|ev_leaf Hc].
    - destruct (is_true _); [assumption|ev_leaf Hc].
    - reflexivity.
    - apply rv_negate; assumption.
    - cbn [okP]. destruct (is_number _); [assumption|reflexivity].
    - exact Hl.
    - exact Hl.
    - reflexivity.
    - reflexivity.
    - reflexivity.
    - reflexivity.
    - exact Hcur.
    - exact Hroot.
    - apply rv_field; assumption.
    - destruct (env_get name vars) eqn:E; [|exact I]. exact (Hvars _ _ E).
    - (* NDefine *)
      eapply okP_bind.
      + apply rv_define_loop. intros c Hin. apply (Hc c); [right; exact Hin|assumption|assumption].
      + intros fr [Hk Hfr]. apply Hc; [left; reflexivity|exact Hcur|apply env_ok_cons; assumption].
    - apply rv_filter_array; assumption.
    - apply rv_filter_array; assumption.
    - apply rv_filter_and_project; [cb Hc|assumption].
    - apply rv_filter_and_project; [cb Hc|assumption].
    - apply rv_flatten; assumption.
    - apply rv_flatten; assumption.
    - apply rv_flatten_and_project; [cb Hc|assumption].
    - apply rv_flatten_and_project; [cb Hc|assumption].
    - apply rv_index; assumption.
    - apply rv_index; assumption.
    - apply rv_index; assumption.
    - apply rv_object_values; assumption.
    - apply rv_object_values; assumption.
    - (* NPipe *) ev_leaf Hc.
    - (* NProjectArray *)
      match goal with |- okP RV (match ?a with _ => _ end) =>
        assert (Hp : okP RV (project_array (fun v => eval root n2 v vars) a))
          by (apply rv_project_array; [cb Hc|assumption]);
        destruct a; try exact Hp end.
      destruct (is_slice_node _); [ev_leaf Hc|exact Hp].
    - apply rv_project_array; [cb Hc|assumption].
    - apply rv_project_object; [cb Hc|assumption].
    - apply rv_project_object; [cb Hc|assumption].
    - apply rv_prune_array; assumption.
    - apply rv_prune_array; assumption.
    - (* NSelectArray *)
      destruct (is_null _); [reflexivity|].
      eapply okP_bind; [apply rv_nlist_loop; intros c Hin; apply (Hc c); [right; exact Hin|assumption|assumption]|].
      intros r Hr. apply RV_arr. exact Hr.
    - destruct (is_null _); [reflexivity|].
      eapply okP_bind; [apply rv_nlist_loop; intros c Hin; apply (Hc c); [exact Hin|assumption|assumption]|].
      intros r Hr. apply RV_arr. exact Hr.
    - (* NSelectArraySingle *)
      destruct (is_null _); [reflexivity|]. ev_step Hc.
      apply RV_arr. apply RVs_cons; [assumption|exact RVs_nil].
    - apply RV_arr. apply RVs_cons; [assumption|exact RVs_nil].
    - (* NSelectObject *)
      cbn [lits_ok] in Hl. apply andb_prop in Hl as [_ Hnd].
      destruct (is_null _); [reflexivity|].
      eapply okP_bind; [apply rv_define_loop; intros c Hin; apply (Hc c); [right; exact Hin|assumption|assumption]|].
      intros fr [Hk Hfr]. apply RV_obj. split; [rewrite (nodup_keys_same fr fields Hk); exact Hnd|exact Hfr].
    - cbn [lits_ok] in Hl. apply andb_prop in Hl as [_ Hnd].
      destruct (is_null _); [reflexivity|].
      eapply okP_bind; [apply rv_define_loop; intros c Hin; apply (Hc c); [exact Hin|assumption|assumption]|].
      intros fr [Hk Hfr]. apply RV_obj. split; [rewrite (nodup_keys_same fr fields Hk); exact Hnd|exact Hfr].
    - (* NSelectObjectSingle *)
      destruct (is_null _); [reflexivity|]. ev_step Hc.
      apply RV_obj. split; [reflexivity|]. apply RVs_cons; [assumption|exact RVs_nil].
    - apply RV_obj. split; [reflexivity|]. apply RVs_cons; [assumption|exact RVs_nil].
    - apply rv_slice; assumption.
    - apply rv_slice; assumption.
    - apply rv_slice_step; assumption.
    - apply rv_slice_step; assumption.
  Qed.

  (* C18: the result of evaluating any node on result values is a result value *)
  Theorem closure_at : forall n cur vars v,
    RV cur -> env_ok vars -> lits_ok n = true ->
    eval root n cur vars = Ok v -> RV v.
  Proof.
    intros n cur vars v Hcur Hvars Hl E.
    exact (okP_elim RV _ v (closure_okP n Hl cur vars Hcur Hvars) E).
  Qed.
End Closure.

Theorem closure : forall n root cur vars v,
  result_value root = true -> result_value cur = true -> env_ok vars -> lits_ok n = true ->
  eval root n cur vars = Ok v -> result_value v = true.
Proof. intros n root cur vars v Hr Hc Hv Hl E. exact (closure_at root Hr n cur vars v Hc Hv Hl E). Qed.

(* Search on a JSON document: the result is a result value ... *)
Corollary evaluate_closed : forall n data v,
  result_value data = true -> lits_ok n = true -> evaluate n data = Ok v -> result_value v = true.
Proof. intros n data v Hd Hl E. exact (closure n data data [] v Hd Hd env_ok_nil Hl E). Qed.

Corollary search_json_closed : forall n data v,
  json_value data = true -> lits_ok n = true -> expression_search n data = RValue v -> result_value v = true.
Proof.
  intros n data v Hd Hl E. unfold expression_search in E.
  destruct (evaluate n data) as [w| | | |] eqn:Ev; try discriminate. injection E as ->.
  exact (evaluate_closed n data v (json_value_result data Hd) Hl Ev).
Qed.

(* ... and so can be searched again, with a result that is again a result value *)
Corollary requery_closed : forall n1 n2 data v w,
  result_value data = true -> lits_ok n1 = true -> lits_ok n2 = true ->
  evaluate n1 data = Ok v -> evaluate n2 v = Ok w -> result_value w = true.
Proof.
  intros n1 n2 data v w Hd H1 H2 E1 E2.
  exact (evaluate_closed n2 v w (evaluate_closed n1 data v Hd H1 E1) H2 E2).
Qed.

(* The key-uniqueness part of lits_ok is needed in the model: a multi-select hash
   node with a repeated key (which the parser does not build) yields an
   association list that is not a Go map. *)
Example select_object_repeated_key :
  let n := NSelectObjectCurrent [([97], NCurrent); ([97], NCurrent)] in
  exists v, evaluate n (VBool true) = Ok v /\ result_value v = false.
Proof. eexists. split; reflexivity. Qed.

(* ================================================================== *)
(* 4. serialisation of results                                         *)
(* ================================================================== *)

(* values whose numbers are json.Number with valid text, or Go integers.  In the
   model the text of a decimal128 number is not determined (jnum gives Unmodelled
   for a finite NDec, an error for an infinite or NaN one), so results holding
   computed numbers are outside this statement. *)
Fixpoint printable (v : value) : bool :=
  match v with
  | VNull | VBool _ | VStr _ => true
  | VNum (NJson t) => json_number_ok t
  | VNum (NInt _ _) => true
  | VNum _ => false
  | VArr l => forallb printable l
  | VObj m => forallb (fun kv => printable (snd kv)) m
  | VForeign _ => false
  end.

Theorem jprint_printable : forall v, printable v = true -> exists s, jprint v = Ok s.
Proof.
  fix IH 1. intros v. destruct v as [|b|s|n|l|m|]; cbn [printable]; intros H; try discriminate.
  - eexists; reflexivity.
  - destruct b; eexists; reflexivity.
  - eexists; reflexivity.
  - destruct n as [t| | |]; try discriminate; cbn [jprint jnum]; [destruct t; [|rewrite H]|]; eexists; reflexivity.
  - cbn [jprint].
    match goal with |- exists s, bind ?g _ = _ => assert (E : exists ps, g = Ok ps) end.
    { revert l H. fix IHl 1. intros [|x r] H; [eexists; reflexivity|].
      cbn [forallb] in H. apply andb_prop in H. destruct H as [H1 H2].
      destruct (IH x H1) as [p Hp]. destruct (IHl r H2) as [ps Hps].
      rewrite Hp. cbn [bind]. rewrite Hps. eexists; reflexivity. }
    destruct E as [ps ->]. eexists; reflexivity.
  - cbn [jprint].
    match goal with |- exists s, bind ?g _ = _ => assert (E : exists ps, g = Ok ps) end.
    { revert m H. fix IHm 1. intros [|[k x] r] H; [eexists; reflexivity|].
      cbn [forallb snd] in H. apply andb_prop in H. destruct H as [H1 H2].
      destruct (IH x H1) as [p Hp]. destruct (IHm r H2) as [ps Hps].
      rewrite Hp. cbn [bind]. rewrite Hps. eexists; reflexivity. }
    destruct E as [ps ->]. eexists; reflexivity.
Qed.

(* the form asked for: a result value whose numbers print *)
Corollary jprint_result_value : forall v,
  result_value v = true -> printable v = true -> exists s, jprint v = Ok s.
Proof. intros v _. apply jprint_printable. Qed.

Lemma json_value_printable : forall v, json_value v = true -> printable v = true.
Proof.
  fix IH 1. intros v. destruct v as [| | |n|l|m|]; cbn [json_value printable];
    try reflexivity; try discriminate.
  - destruct n; try discriminate. exact (fun H => H).
  - revert l. fix IHl 1. intros [|x r]; [reflexivity|]. cbn [forallb]. intros H.
    apply andb_prop in H. destruct H as [H1 H2]. rewrite (IH x H1). exact (IHl r H2).
  - intros H. apply andb_prop in H. destruct H as [_ H].
    revert m H. fix IHm 1. intros [|[k x] r]; [reflexivity|]. cbn [forallb snd]. intros H.
    apply andb_prop in H. destruct H as [H1 H2]. rewrite (IH x H1). exact (IHm r H2).
Qed.

(* a JSON document always serialises; so does to_string of it *)
Corollary jprint_json_value : forall v, json_value v = true -> exists s, jprint v = Ok s.
Proof. intros v H. apply jprint_printable, json_value_printable, H. Qed.

(* what the model leaves open: the text of a computed (decimal128) number *)
Remark jprint_decimal_unmodelled : forall neg c e, jprint (VNum (NDec (DFin neg c e))) = Unmodelled.
Proof. reflexivity. Qed.
Remark jprint_never_errs_on_result : forall v e,
  result_value v = true -> printable v = true -> jprint v <> Err e.
Proof. intros v e H1 H2 E. destruct (jprint_printable v H2) as [s Hs]. congruence. Qed.

Print Assumptions eval_root_irrelevant.
Print Assumptions pipe_requery.
Print Assumptions pipe_first_fails.
Print Assumptions expression_search_pipe.
Print Assumptions search_pipe.
Print Assumptions closure.
Print Assumptions search_json_closed.
Print Assumptions requery_closed.
Print Assumptions jprint_printable.
