(* White space between the tokens of the canonical text is invisible to Compile
   (property C04: "every legal placement of white space").

   ws g                the bytes of g are white space: tab, LF, CR, space (Lexer.is_ws)
   spaced gaps ts      gap_0 ++ tval t_1 ++ gap_1 ++ tval t_2 ++ ... ++ gap_n
   printable t         t carries the canonical text of its kind (the image of toks_of)
   okafter t o         the text of t directly followed by the byte o (None: the end of the
                       input) still lexes as t: the one-byte lookahead of every scanner
   glue_ok t1 t2       okafter t1 (first byte of t2): the two texts may touch
   Resp s ts           s is a legal respacing of ts, read from the left
   tok_LXP             token lemma: LXP (okf t) (tval t) [t] for every printable token
   respace_lex         lex_all (spaced gaps ts) = map ITok ts ++ [End]
   unparse_is_spaced   the canonical text is itself such a respacing (sanity)
   respace_compile     parse (spaced gaps (toks_of 0 e)) = Ok (compile_r e)  for wfr e
   respace_api_*       Api.compile / compile_result / search cannot tell a respacing from unparse e
   tight, tight_compile  the tightest respacing (one space only where glue_ok refuses) compiles too
   glue_ok_exact       on a representative of every token kind, glue_ok holds exactly when the
                       glued text lexes as the two tokens (single exception: [ followed by * )

   Out of scope, because they are single tokens of this lexer: white space inside
   [?  []  [*]  .*  &&  ||  ==  !=  <=  >=  //  and between a minus sign and the digits
   of a negative number. *)
From Coq Require Import List ZArith Bool Lia.
From JM Require Import Base.Outcome Base.Bytes Base.GoInt Base.Utf8 Num.Dec Json.Value Json.JsonText
  Json.JsonPrint Model.Token Model.Lexer Model.Ast Model.Literals Model.Parser
  Spec.SpecSlice Spec.RefAst Spec.RefEval Proofs.PrattOperators Spec.Unparse Spec.Unfuse
  Proofs.LiteralRoundTrip Proofs.ParseUnparse Proofs.LexUnparse.
From JM Require Proofs.Termination.
From JM Require Model.Api.
Import ListNotations.
Open Scope Z_scope.

(* ================================================================== *)
(* 1. Definitions                                                      *)
(* ================================================================== *)

(* a string over the four white space bytes *)
Definition ws (g : bytes) : Prop := forallb is_ws g = true.

Fixpoint spaced (gaps : list bytes) (ts : list token) : bytes :=
  match gaps with
  | [] => []
  | g :: gaps' =>
    match ts with
    | [] => g
    | t :: ts' => g ++ tval t ++ spaced gaps' ts'
    end
  end.

(* tokens with the canonical text of their kind *)
Inductive printable : token -> Prop :=
| P_pk t : text_of t <> [] -> printable (pk t)
| P_ident s : plain_ident s = true -> printable (Tok TUnquotedIdentifier s)
| P_quoted s : str_ok s = true -> printable (Tok TQuotedIdentifier (34 :: qescape s ++ [34]))
| P_int z : printable (int_tok z)
| P_lit v : json_text_ok v = true -> printable (lit_tok v)
| P_raw s : str_ok s = true -> printable (raw_tok s)
| P_var name : var_ok name = true -> printable (Tok TVariable name).

Definition hdo (s : bytes) : option Z := match s with [] => None | b :: _ => Some b end.

Definition asc (b : Z) : bool := (0 <=? b) && (b <? 128).

(* may the text of t be directly followed by this byte (None: by the end)? *)
Definition okafter (t : token) (o : option Z) : bool :=
  match o with
  | None => true
  | Some b =>
    match ttyp t with
    | TExpression => asc b && negb (b =? 38)                      (* & &   would be && *)
    | TDot => asc b && negb (b =? 42)                             (* . *   would be .* *)
    | TDivide => asc b && negb (b =? 47)                          (* / /   would be // *)
    | TLess | TAssign | TGreater | TNot => asc b && negb (b =? 61) (* < =  would be <= ... *)
    | TPipe => asc b && negb (b =? 124)                           (* | |   would be || *)
    | TSubtract => asc b && negb (is_dig b)                       (* - 1   would be the number -1 *)
    | TOpenSqBrace => asc b && negb (b =? 42) && negb (b =? 63) && negb (b =? 93)
                                                                  (* [ *], [ ?, [ ]  would be [*] [? [] *)
    | TRoot => asc b && negb (is_alpha_ b)                        (* $ a   would be the variable $a *)
    | TUnquotedIdentifier | TIn | TLet | TVariable => sepb b      (* a b   would be ab *)
    | TIntegerLiteral => negb (is_dig b)                          (* 1 2   would be 12 *)
    | _ => true
    end
  end.

(* the text of t1 directly followed by the text of t2 *)
Definition glue_ok (t1 t2 : token) : bool := okafter t1 (hdo (tval t2)).

(* an empty gap only between tokens that may touch *)
Fixpoint inner_ok (t : token) (gaps : list bytes) (ts : list token) : Prop :=
  match gaps, ts with
  | g :: gaps', t' :: ts' => (g = [] -> glue_ok t t' = true) /\ inner_ok t' gaps' ts'
  | _, _ => True
  end.
Definition empties_ok (gaps : list bytes) (ts : list token) : Prop :=
  match gaps, ts with
  | _ :: gaps', t :: ts' => inner_ok t gaps' ts'
  | _, _ => True
  end.

(* the three conditions on the gaps, as one computable test *)
Fixpoint inner_okb (t : token) (gaps : list bytes) (ts : list token) : bool :=
  match gaps, ts with
  | g :: gaps', t' :: ts' => (match g with [] => glue_ok t t' | _ => true end) && inner_okb t' gaps' ts'
  | _, _ => true
  end.
Definition respacing_okb (gaps : list bytes) (ts : list token) : bool :=
  Nat.eqb (List.length gaps) (S (List.length ts)) && forallb (forallb is_ws) gaps &&
  match gaps, ts with
  | _ :: gaps', t :: ts' => inner_okb t gaps' ts'
  | _, _ => true
  end.

Lemma inner_okb_spec : forall ts t gaps, inner_okb t gaps ts = true -> inner_ok t gaps ts.
Proof.
  induction ts as [|t' ts IH]; intros t gaps H; destruct gaps as [|g gaps]; cbn [inner_ok]; auto.
  cbn [inner_okb] in H. apply andb_true_iff in H as [H1 H2]. split; [|apply IH, H2].
  intros ->. exact H1.
Qed.

Lemma respacing_okb_spec gaps ts : respacing_okb gaps ts = true ->
  List.length gaps = S (List.length ts) /\ Forall ws gaps /\ empties_ok gaps ts.
Proof.
  unfold respacing_okb. intros H. apply andb_true_iff in H as [H H3]. apply andb_true_iff in H as [H1 H2].
  split; [apply Nat.eqb_eq, H1|]. split.
  - apply Forall_forall. intros g Hg. rewrite forallb_forall in H2. apply H2, Hg.
  - destruct gaps as [|g gaps]; [exact I|]. destruct ts as [|t ts]; [exact I|].
    cbn [empties_ok]. apply inner_okb_spec, H3.
Qed.

(* ================================================================== *)
(* 2. Small facts                                                      *)
(* ================================================================== *)

Lemma asc_spec b : asc b = true -> 0 <= b < 128.
Proof. unfold asc. intros H. apply andb_true_iff in H as [H1 H2]. apply Z.leb_le in H1. apply Z.ltb_lt in H2. lia. Qed.

Lemma asc_intro b : 0 <= b < 128 -> asc b = true.
Proof. intros H. unfold asc. apply andb_true_iff. split; [apply Z.leb_le|apply Z.ltb_lt]; lia. Qed.

Lemma neqb_spec b x : negb (b =? x) = true -> b <> x.
Proof. intros H. apply negb_true_iff, Z.eqb_neq in H. exact H. Qed.

Lemma neqb_intro b x : b <> x -> negb (b =? x) = true.
Proof. intros H. apply negb_true_iff, Z.eqb_neq, H. Qed.

Lemma is_ws_cases b : is_ws b = true -> b = 9 \/ b = 10 \/ b = 13 \/ b = 32.
Proof.
  unfold is_ws. intros H. repeat (apply orb_true_iff in H as [H|H]); apply Z.eqb_eq in H; auto.
Qed.

(* white space may follow every token *)
Lemma okafter_ws t b : is_ws b = true -> okafter t (Some b) = true.
Proof.
  intros H. apply is_ws_cases in H. unfold okafter.
  destruct H as [->|[->|[->| ->]]]; destruct (ttyp t); reflexivity.
Qed.

Lemma hdo_app_ne s r : s <> [] -> hdo (s ++ r) = hdo s.
Proof. destruct s; [congruence|reflexivity]. Qed.

Lemma Z_to_bytes_ne z : Z_to_bytes z <> [].
Proof. destruct (Z_to_bytes_head z) as (b & t & E & _). rewrite E. discriminate. Qed.

Lemma printable_ne t : printable t -> tval t <> [].
Proof.
  intros H. destruct H as [t H|s H|s H|z|v H|s H|name H]; cbn [tval pk int_tok lit_tok raw_tok]; try discriminate.
  - exact H.
  - destruct s; [discriminate H|discriminate].
  - apply Z_to_bytes_ne.
  - destruct (var_ok_inv name H) as (c & w & -> & _). discriminate.
Qed.

Lemma printable_not_end t : printable t -> ttyp t <> TEnd.
Proof.
  intros H. destruct H as [t H|s H|s H|z|v H|s H|name H]; cbn [ttyp pk int_tok lit_tok raw_tok]; try discriminate.
  intros ->. apply H. reflexivity.
Qed.

Lemma lex_all_wsl g s : ws g -> lex_all (g ++ s) = lex_all s.
Proof.
  unfold ws. induction g as [|b g IH]; intros H; [reflexivity|].
  cbn [forallb] in H. apply andb_true_iff in H as [Hb Hg]. cbn [app].
  rewrite lex_all_ws by exact Hb. apply IH, Hg.
Qed.

Lemma lex_all_only_ws g : ws g -> lex_all g = [ITok (Tok TEnd [])].
Proof. intros H. rewrite <- (app_nil_r g). rewrite lex_all_wsl by exact H. reflexivity. Qed.

(* ================================================================== *)
(* 3. The token lemma: ws ++ token text ++ safe follower                *)
(* ================================================================== *)

Definition okf (t : token) (rest : bytes) : Prop := okafter t (hdo rest) = true.

(* a token whose scanner looks one byte ahead: at the end of the input, or before a byte
   meeting the condition *)
Lemma cond_LXP (P : Z -> Prop) t :
  LXP (hdP P) (tval t) [t] -> lex_all (tval t) = [ITok t; ITok (Tok TEnd [])] ->
  (forall b, okafter t (Some b) = true -> P b) -> LXP (okf t) (tval t) [t].
Proof.
  intros H He HP [|b r] Hr.
  - rewrite app_nil_r. exact He.
  - apply H. apply hdP_cons. apply HP. exact Hr.
Qed.

Lemma fol_of_okf t rest : (forall b, okafter t (Some b) = sepb b) -> okf t rest -> fol rest.
Proof. intros H Hr. destruct rest as [|b r]; [exact I|]. cbn [fol]. rewrite <- H. exact Hr. Qed.

Lemma LX_okf t s ts : (forall b, okafter t (Some b) = sepb b) -> LX s ts -> LXP (okf t) s ts.
Proof. intros H. apply LXP_weaken. intros r. apply fol_of_okf, H. Qed.

(* $ is the root unless a letter or an underscore follows (a digit may follow) *)
Lemma LXP_root : LXP (okf (pk TRoot)) [36] [pk TRoot].
Proof.
  apply LXP_tok; [discriminate|]. intros rest Hf. cbn [app]. rewrite lex_next_36.
  destruct rest as [|b r]; [reflexivity|].
  unfold okf in Hf. cbn [hdo okafter pk ttyp] in Hf. apply andb_true_iff in Hf as [Ha Hn].
  apply asc_spec in Ha. apply negb_true_iff in Hn. rewrite dr_ascii by assumption. rewrite Hn. reflexivity.
Qed.

Ltac split_ok H :=
  repeat match type of H with
  | (_ && _) = true => let H1 := fresh H in apply andb_true_iff in H as [H H1]; try split_ok H1
  end.

Lemma tok_LXP_pk t : text_of t <> [] -> LXP (okf (pk t)) (tval (pk t)) [pk t].
Proof.
  intros Hne.
  destruct t; try (exfalso; apply Hne; reflexivity); clear Hne;
  first
  [ apply LXa_any;
    first [ exact LX_obrace | exact LX_cbrace | exact LX_oparen | exact LX_cparen | exact LX_csq
          | exact LX_add | exact LX_and | exact LX_arrwild | exact LX_asterisk | exact LX_colon
          | exact LX_comma | exact LX_eq | exact LX_filter | exact LX_flatten | exact LX_ge
          | exact LX_idiv | exact LX_le | exact LX_modulo | exact LX_ne | exact LX_objwild
          | exact LX_or | exact LX_current ]
  | apply (LX_okf (pk TIn)); [intros b; reflexivity|exact LX_in]
  | apply (LX_okf (pk TLet)); [intros b; reflexivity|exact LX_let]
  | exact LXP_root
  | idtac ].
  - (* [ *) apply (cond_LXP osq_next); [exact LX_osq|vm_compute; reflexivity|].
    intros b H. cbn [okafter pk ttyp] in H. split_ok H. apply asc_spec in H. apply neqb_spec in H0, H1, H2.
    unfold osq_next. auto.
  - (* = *) apply (cond_LXP (nb 61)); [exact LX_assign|vm_compute; reflexivity|].
    intros b H. cbn [okafter pk ttyp] in H. split_ok H. apply asc_spec in H. apply neqb_spec in H0. split; assumption.
  - (* / *) apply (cond_LXP (nb 47)); [exact LX_div|vm_compute; reflexivity|].
    intros b H. cbn [okafter pk ttyp] in H. split_ok H. apply asc_spec in H. apply neqb_spec in H0. split; assumption.
  - (* . *) apply (cond_LXP (nb 42)); [exact LX_dot|vm_compute; reflexivity|].
    intros b H. cbn [okafter pk ttyp] in H. split_ok H. apply asc_spec in H. apply neqb_spec in H0. split; assumption.
  - (* > *) apply (cond_LXP (nb 61)); [exact LX_gt|vm_compute; reflexivity|].
    intros b H. cbn [okafter pk ttyp] in H. split_ok H. apply asc_spec in H. apply neqb_spec in H0. split; assumption.
  - (* < *) apply (cond_LXP (nb 61)); [exact LX_lt|vm_compute; reflexivity|].
    intros b H. cbn [okafter pk ttyp] in H. split_ok H. apply asc_spec in H. apply neqb_spec in H0. split; assumption.
  - (* ! *) apply (cond_LXP (nb 61)); [exact LX_not|vm_compute; reflexivity|].
    intros b H. cbn [okafter pk ttyp] in H. split_ok H. apply asc_spec in H. apply neqb_spec in H0. split; assumption.
  - (* | *) apply (cond_LXP (nb 124)); [exact LX_pipe|vm_compute; reflexivity|].
    intros b H. cbn [okafter pk ttyp] in H. split_ok H. apply asc_spec in H. apply neqb_spec in H0. split; assumption.
  - (* - *) apply (cond_LXP nodigit); [exact LX_subtract|vm_compute; reflexivity|].
    intros b H. cbn [okafter pk ttyp] in H. split_ok H. apply asc_spec in H. apply negb_true_iff in H0. split; assumption.
  - (* & *) apply (cond_LXP (nb 38)); [exact LX_expref|vm_compute; reflexivity|].
    intros b H. cbn [okafter pk ttyp] in H. split_ok H. apply asc_spec in H. apply neqb_spec in H0. split; assumption.
Qed.

Theorem tok_LXP t : printable t -> LXP (okf t) (tval t) [t].
Proof.
  intros H. destruct H as [t H|s H|s H|z|v H|s H|name H].
  - apply tok_LXP_pk, H.
  - apply LX_okf; [intros b; reflexivity|]. apply LX_plain, H.
  - apply LXa_any. apply LX_quoted, H.
  - apply (LXP_weaken folz); [|apply LX_int].
    intros [|b r] Hr; [exact I|]. cbn [folz]. unfold okf in Hr. cbn [hdo okafter int_tok ttyp] in Hr.
    apply negb_true_iff, Hr.
  - apply LXa_any. apply LX_lit, H.
  - apply LXa_any. apply LX_raw, H.
  - apply LX_okf; [intros b; reflexivity|]. apply LX_var, H.
Qed.

(* the brief's form: white space, the text of a token, a safe follower *)
Corollary ws_tok_lex g t rest : ws g -> printable t -> okafter t (hdo rest) = true ->
  lex_all (g ++ tval t ++ rest) = ITok t :: lex_all rest.
Proof. intros Hg Ht Hr. rewrite lex_all_wsl by exact Hg. apply (tok_LXP t Ht rest Hr). Qed.

(* ================================================================== *)
(* 4. Legal respacings, read from the left                             *)
(* ================================================================== *)

Inductive Resp : bytes -> list token -> Prop :=
| Resp_end g : ws g -> Resp g []
| Resp_ws b s ts : is_ws b = true -> Resp s ts -> Resp (b :: s) ts
| Resp_tok t s ts : printable t -> okafter t (hdo s) = true -> Resp s ts -> Resp (tval t ++ s) (t :: ts).

Lemma Resp_wsl g s ts : ws g -> Resp s ts -> Resp (g ++ s) ts.
Proof.
  unfold ws. induction g as [|b g IH]; intros H HR; [exact HR|].
  cbn [forallb] in H. apply andb_true_iff in H as [Hb Hg]. cbn [app]. apply Resp_ws; auto.
Qed.

Lemma Resp_lex s ts : Resp s ts -> lex_all s = map ITok ts ++ [ITok (Tok TEnd [])].
Proof.
  induction 1 as [g Hg|b s ts Hb _ IH|t s ts Ht Hok _ IH].
  - apply lex_all_only_ws, Hg.
  - rewrite lex_all_ws by exact Hb. exact IH.
  - rewrite (tok_LXP t Ht s Hok). cbn [map app]. rewrite IH. reflexivity.
Qed.

Lemma Resp_printable s ts : Resp s ts -> Forall printable ts.
Proof. induction 1; auto. Qed.

Lemma okafter_hdo_ws t g r : ws g -> g <> [] -> okafter t (hdo (g ++ r)) = true.
Proof.
  intros Hg Hne. destruct g as [|b g]; [congruence|]. cbn [app hdo].
  unfold ws in Hg. cbn [forallb] in Hg. apply andb_true_iff in Hg as [Hb _]. apply okafter_ws, Hb.
Qed.

(* from the gaps to the left-to-right reading *)
Lemma Resp_of_spaced_from : forall ts t gaps,
  printable t -> Forall printable ts -> List.length gaps = S (List.length ts) -> Forall ws gaps ->
  inner_ok t gaps ts -> Resp (tval t ++ spaced gaps ts) (t :: ts).
Proof.
  induction ts as [|t' ts IH]; intros t gaps Ht Hts Hl Hws Hin;
    destruct gaps as [|g gaps]; try (cbn [List.length] in Hl; lia).
  - destruct gaps; [|cbn [List.length] in Hl; lia]. cbn [spaced].
    inversion Hws as [|? ? Hg _]; subst.
    apply Resp_tok; [exact Ht| |apply Resp_end, Hg].
    destruct g as [|b g]; [reflexivity|]. rewrite <- (app_nil_r (b :: g)). apply okafter_hdo_ws; [exact Hg|discriminate].
  - cbn [spaced]. inversion Hws as [|? ? Hg Hws']; subst. inversion Hts as [|? ? Ht' Hts']; subst.
    cbn [inner_ok] in Hin. destruct Hin as [Hglue Hin].
    apply Resp_tok; [exact Ht| |].
    + destruct g as [|b g].
      * cbn [app]. rewrite hdo_app_ne by (apply printable_ne, Ht'). apply Hglue. reflexivity.
      * apply okafter_hdo_ws; [exact Hg|discriminate].
    + apply Resp_wsl; [exact Hg|]. apply IH; auto; cbn [List.length] in Hl; lia.
Qed.

Lemma Resp_of_spaced ts gaps :
  Forall printable ts -> List.length gaps = S (List.length ts) -> Forall ws gaps -> empties_ok gaps ts ->
  Resp (spaced gaps ts) ts.
Proof.
  intros Hts Hl Hws He. destruct gaps as [|g gaps]; [cbn [List.length] in Hl; lia|].
  inversion Hws as [|? ? Hg Hws']; subst.
  destruct ts as [|t ts].
  - cbn [spaced]. apply Resp_end, Hg.
  - cbn [spaced]. inversion Hts as [|? ? Ht Hts']; subst. apply Resp_wsl; [exact Hg|].
    apply Resp_of_spaced_from; auto; cbn [List.length] in Hl; lia.
Qed.

(* and back: every left-to-right reading is a spaced text *)
Lemma spaced_cons_ws b g gaps ts : spaced ((b :: g) :: gaps) ts = b :: spaced (g :: gaps) ts.
Proof. destruct ts; reflexivity. Qed.

Lemma spaced_of_Resp s ts : Resp s ts ->
  exists gaps, List.length gaps = S (List.length ts) /\ Forall ws gaps /\ empties_ok gaps ts /\
               spaced gaps ts = s.
Proof.
  induction 1 as [g Hg|b s ts Hb HR IH|t s ts Ht Hok HR IH].
  - exists [g]. repeat split; auto.
  - destruct IH as (gaps & Hl & Hws & He & Es). destruct gaps as [|g gaps]; [cbn [List.length] in Hl; lia|].
    exists ((b :: g) :: gaps). split; [exact Hl|]. split; [|split].
    + inversion Hws; subst. constructor; [|assumption]. unfold ws in *. cbn [forallb]. rewrite Hb. assumption.
    + destruct ts; exact He.
    + rewrite spaced_cons_ws. f_equal. exact Es.
  - destruct IH as (gaps & Hl & Hws & He & Es). destruct gaps as [|g gaps]; [cbn [List.length] in Hl; lia|].
    exists ([] :: g :: gaps). split; [cbn [List.length] in *; lia|]. split; [constructor; [reflexivity|exact Hws]|]. split.
    + cbn [empties_ok]. destruct ts as [|t' ts]; [exact I|]. cbn [inner_ok]. split; [|exact He].
      intros ->. unfold glue_ok. cbn [spaced app] in Es. rewrite <- Es in Hok.
      apply Resp_printable in HR. inversion HR as [|? ? Ht' _]; subst.
      rewrite hdo_app_ne in Hok by (apply printable_ne, Ht'). exact Hok.
    + change (tval t ++ spaced (g :: gaps) ts = tval t ++ s). f_equal. exact Es.
Qed.

(* ================================================================== *)
(* 5. respace_lex                                                      *)
(* ================================================================== *)

Theorem respace_lex : forall ts gaps,
  Forall printable ts -> List.length gaps = S (List.length ts) -> Forall ws gaps -> empties_ok gaps ts ->
  lex_all (spaced gaps ts) = map ITok ts ++ [ITok (Tok TEnd [])].
Proof. intros ts gaps Hts Hl Hws He. apply Resp_lex, Resp_of_spaced; assumption. Qed.

(* ================================================================== *)
(* 6. The canonical text is itself a legal respacing (sanity)           *)
(* ================================================================== *)

(* The same continuation algebra as LXP in LexUnparse.v, for Resp instead of lex_all:
   "s is a legal respacing of ts in front of every legal respacing satisfying F".
   The composite lemmas and the induction below are those of LexUnparse.v, replayed. *)
Definition SXP (F : bytes -> Prop) (s : bytes) (ts : list token) : Prop :=
  forall rest ts', F rest -> Resp rest ts' -> Resp (s ++ rest) (ts ++ ts').

Notation SX := (SXP fol).
Notation SXa := (SXP anyf).

Lemma SXP_app (F1 F2 : bytes -> Prop) s1 s2 ts1 ts2 :
  SXP F1 s1 ts1 -> SXP F2 s2 ts2 -> (forall rest, F2 rest -> F1 (s2 ++ rest)) ->
  SXP F2 (s1 ++ s2) (ts1 ++ ts2).
Proof.
  intros H1 H2 HF rest ts' Hr HR. rewrite <- !app_assoc. apply H1; [apply HF, Hr|]. apply H2; assumption.
Qed.

Lemma SXP_weaken (F1 F2 : bytes -> Prop) s ts : (forall r, F2 r -> F1 r) -> SXP F1 s ts -> SXP F2 s ts.
Proof. intros H H1 rest ts' Hr HR. apply H1; [apply H, Hr|exact HR]. Qed.

Lemma SXP_nil F : SXP F [] [].
Proof. intros rest ts' _ HR. exact HR. Qed.

Lemma SXa_SX s ts : SXa s ts -> SX s ts.
Proof. apply SXP_weaken. intros; exact I. Qed.

Lemma SXa_any F s ts : SXa s ts -> SXP F s ts.
Proof. apply SXP_weaken. intros; exact I. Qed.

Lemma SX_app s1 s2 ts1 ts2 : SX s1 ts1 -> SX s2 ts2 -> fol s2 -> SX (s1 ++ s2) (ts1 ++ ts2).
Proof. intros H1 H2 Hf. apply (SXP_app fol fol); auto. intros rest Hr. apply fol_app; assumption. Qed.

Lemma SXa_app F s1 s2 ts1 ts2 : SXa s1 ts1 -> SXP F s2 ts2 -> SXP F (s1 ++ s2) (ts1 ++ ts2).
Proof. intros H1 H2. apply (SXP_app anyf F); auto. intros; exact I. Qed.

Lemma SXh_app (P : Z -> Prop) F s1 s2 ts1 ts2 :
  SXP (hdP P) s1 ts1 -> SXP F s2 ts2 -> hdP P s2 -> SXP F (s1 ++ s2) (ts1 ++ ts2).
Proof. intros H1 H2 Hh. apply (SXP_app (hdP P) F); auto. intros rest _. apply hdP_app, Hh. Qed.

Lemma SXP_sp F s ts : SXP F s ts -> SXP F (32 :: s) ts.
Proof. intros H rest ts' Hr HR. cbn [app]. apply Resp_ws; [reflexivity|]. apply H; assumption. Qed.

(* one token *)
Lemma SXP_tok (F : bytes -> Prop) t : printable t -> (forall rest, F rest -> okf t rest) -> SXP F (tval t) [t].
Proof. intros Ht H rest ts' Hr HR. cbn [app]. apply Resp_tok; [exact Ht|apply H, Hr|exact HR]. Qed.

Lemma SXa_pk t : text_of t <> [] -> (forall o, okafter (pk t) o = true) -> SXa (text_of t) [pk t].
Proof. intros Hne H. apply (SXP_tok anyf (pk t)); [apply P_pk, Hne|]. intros rest _. apply H. Qed.

Lemma SXh_pk (P : Z -> Prop) t : text_of t <> [] -> (forall b, P b -> okafter (pk t) (Some b) = true) ->
  SXP (hdP P) (text_of t) [pk t].
Proof.
  intros Hne H. apply (SXP_tok (hdP P) (pk t)); [apply P_pk, Hne|].
  intros rest (b & r & -> & Hb). apply H, Hb.
Qed.

Lemma SXf_tok t : printable t -> (forall b, sepb b = true -> okafter t (Some b) = true) -> SX (tval t) [t].
Proof.
  intros Ht H. apply SXP_tok; [exact Ht|]. intros [|b r] Hr; [reflexivity|]. apply H, Hr.
Qed.

Ltac sxa t := apply (SXa_pk t); [discriminate|intros [b|]; reflexivity].
Lemma SX_modulo : SXa [37] [pk TModulo]. Proof. sxa TModulo. Qed.
Lemma SX_oparen : SXa [40] [pk TOpenParen]. Proof. sxa TOpenParen. Qed.
Lemma SX_cparen : SXa [41] [pk TCloseParen]. Proof. sxa TCloseParen. Qed.
Lemma SX_asterisk : SXa [42] [pk TAsterisk]. Proof. sxa TAsterisk. Qed.
Lemma SX_add : SXa [43] [pk TAdd]. Proof. sxa TAdd. Qed.
Lemma SX_comma : SXa [44] [pk TComma]. Proof. sxa TComma. Qed.
Lemma SX_colon : SXa [58] [pk TColon]. Proof. sxa TColon. Qed.
Lemma SX_current : SXa [64] [pk TCurrent]. Proof. sxa TCurrent. Qed.
Lemma SX_csq : SXa [93] [pk TCloseSqBrace]. Proof. sxa TCloseSqBrace. Qed.
Lemma SX_obrace : SXa [123] [pk TOpenBrace]. Proof. sxa TOpenBrace. Qed.
Lemma SX_cbrace : SXa [125] [pk TCloseBrace]. Proof. sxa TCloseBrace. Qed.
Lemma SX_and : SXa [38; 38] [pk TAnd]. Proof. sxa TAnd. Qed.
Lemma SX_objwild : SXa [46; 42] [pk TObjectWildcard]. Proof. sxa TObjectWildcard. Qed.
Lemma SX_idiv : SXa [47; 47] [pk TIntegerDivide]. Proof. sxa TIntegerDivide. Qed.
Lemma SX_le : SXa [60; 61] [pk TLessOrEqual]. Proof. sxa TLessOrEqual. Qed.
Lemma SX_eq : SXa [61; 61] [pk TEqual]. Proof. sxa TEqual. Qed.
Lemma SX_ge : SXa [62; 61] [pk TGreaterOrEqual]. Proof. sxa TGreaterOrEqual. Qed.
Lemma SX_or : SXa [124; 124] [pk TOr]. Proof. sxa TOr. Qed.
Lemma SX_ne : SXa [33; 61] [pk TNotEqual]. Proof. sxa TNotEqual. Qed.
Lemma SX_arrwild : SXa [91; 42; 93] [pk TArrayWildcard]. Proof. sxa TArrayWildcard. Qed.
Lemma SX_filter : SXa [91; 63] [pk TFilter]. Proof. sxa TFilter. Qed.
Lemma SX_flatten : SXa [91; 93] [pk TFlatten]. Proof. sxa TFlatten. Qed.

Ltac sxn t x := apply (SXh_pk (nb x) t); [discriminate|];
  intros b [Hb Hn]; cbn [okafter pk ttyp]; rewrite asc_intro, neqb_intro by assumption; reflexivity.
Lemma SX_expref : SXP (hdP (nb 38)) [38] [pk TExpression]. Proof. sxn TExpression 38. Qed.
Lemma SX_dot : SXP (hdP (nb 42)) [46] [pk TDot]. Proof. sxn TDot 42. Qed.
Lemma SX_div : SXP (hdP (nb 47)) [47] [pk TDivide]. Proof. sxn TDivide 47. Qed.
Lemma SX_lt : SXP (hdP (nb 61)) [60] [pk TLess]. Proof. sxn TLess 61. Qed.
Lemma SX_assign : SXP (hdP (nb 61)) [61] [pk TAssign]. Proof. sxn TAssign 61. Qed.
Lemma SX_gt : SXP (hdP (nb 61)) [62] [pk TGreater]. Proof. sxn TGreater 61. Qed.
Lemma SX_pipe : SXP (hdP (nb 124)) [124] [pk TPipe]. Proof. sxn TPipe 124. Qed.
Lemma SX_not : SXP (hdP (nb 61)) [33] [pk TNot]. Proof. sxn TNot 61. Qed.

Lemma SX_subtract : SXP (hdP nodigit) [45] [pk TSubtract].
Proof.
  apply (SXh_pk nodigit TSubtract); [discriminate|].
  intros b [Hb Hd]. cbn [okafter pk ttyp]. rewrite asc_intro, Hd by assumption. reflexivity.
Qed.

Lemma SX_osq : SXP (hdP osq_next) [91] [pk TOpenSqBrace].
Proof.
  apply (SXh_pk osq_next TOpenSqBrace); [discriminate|].
  intros b (Hb & H1 & H2 & H3). cbn [okafter pk ttyp]. rewrite asc_intro, !neqb_intro by assumption. reflexivity.
Qed.

Lemma SXa_spop (P : Z -> Prop) op t : P 32 -> SXP (hdP P) op [t] -> SXa (sp op) [t].
Proof.
  intros HP H rest ts' _ HR. unfold sp. cbn [app]. apply Resp_ws; [reflexivity|]. rewrite <- app_assoc. cbn [app].
  apply H; [apply hdP_cons, HP|]. apply Resp_ws; [reflexivity|exact HR].
Qed.

Lemma SXa_spop_a op t : SXa op [t] -> SXa (sp op) [t].
Proof.
  intros H rest ts' _ HR. unfold sp. cbn [app]. apply Resp_ws; [reflexivity|]. rewrite <- app_assoc. cbn [app].
  apply H; [exact I|]. apply Resp_ws; [reflexivity|exact HR].
Qed.

Lemma sepb_alpha b : sepb b = true -> asc b && negb (is_alpha_ b) = true.
Proof.
  intros H. apply sepb_inv in H as [Hb Ha]. apply alnum_false in Ha as [_ Ha].
  rewrite asc_intro, Ha by assumption. reflexivity.
Qed.

Lemma SX_let : SX [108; 101; 116] [pk TLet].
Proof. apply (SXf_tok (pk TLet)); [apply P_pk; discriminate|intros b H; exact H]. Qed.
Lemma SX_in : SX [105; 110] [pk TIn].
Proof. apply (SXf_tok (pk TIn)); [apply P_pk; discriminate|intros b H; exact H]. Qed.
Lemma SX_root : SX [36] [pk TRoot].
Proof. apply (SXf_tok (pk TRoot)); [apply P_pk; discriminate|intros b H; apply sepb_alpha, H]. Qed.
Lemma SX_plain s : plain_ident s = true -> SX s [Tok TUnquotedIdentifier s].
Proof. intros H. apply (SXf_tok (Tok TUnquotedIdentifier s)); [apply P_ident, H|intros b Hb; exact Hb]. Qed.
Lemma SX_var name : var_ok name = true -> SX name [Tok TVariable name].
Proof. intros H. apply (SXf_tok (Tok TVariable name)); [apply P_var, H|intros b Hb; exact Hb]. Qed.
Lemma SX_int z : SXP folz (Z_to_bytes z) [int_tok z].
Proof.
  apply (SXP_tok folz (int_tok z)); [apply P_int|]. intros [|b r] Hr; [reflexivity|].
  cbn [folz] in Hr. unfold okf. cbn [hdo okafter int_tok ttyp]. rewrite Hr. reflexivity.
Qed.
Lemma SX_raw s : str_ok s = true -> SXa (39 :: rescape s ++ [39]) [raw_tok s].
Proof. intros H. apply (SXP_tok anyf (raw_tok s)); [apply P_raw, H|]. intros [|b r] _; reflexivity. Qed.
Lemma SX_quoted s : str_ok s = true -> SXa (34 :: qescape s ++ [34]) [Tok TQuotedIdentifier (34 :: qescape s ++ [34])].
Proof. intros H. apply (SXP_tok anyf (Tok TQuotedIdentifier _)); [apply P_quoted, H|]. intros [|b r] _; reflexivity. Qed.
Lemma SX_lit v : json_text_ok v = true -> SXa (96 :: btick_escape (lit_text v) ++ [96]) [lit_tok v].
Proof. intros H. apply (SXP_tok anyf (lit_tok v)); [apply P_lit, H|]. intros [|b r] _; reflexivity. Qed.

(* ---- from here on: LexUnparse.v sections 3 (end), 5 (end), 6, 7, 8 with SX for LX ---- *)
Lemma SX_cmp op : SXa (sp (cmp_text op)) [pk (cmp_ttype op)].
Proof.
  destruct op; cbn [cmp_text cmp_ttype].
  - apply SXa_spop_a, SX_eq.
  - apply SXa_spop_a, SX_ne.
  - apply (SXa_spop (nb 61)); [unfold nb; lia|apply SX_lt].
  - apply SXa_spop_a, SX_le.
  - apply (SXa_spop (nb 61)); [unfold nb; lia|apply SX_gt].
  - apply SXa_spop_a, SX_ge.
Qed.

Lemma SX_ar op : SXa (sp (ar_text op)) [pk (ar_ttype op)].
Proof.
  destruct op; cbn [ar_text ar_ttype].
  - apply SXa_spop_a, SX_add.
  - apply (SXa_spop nodigit); [unfold nodigit; split; [lia|reflexivity]|apply SX_subtract].
  - apply SXa_spop_a, SX_asterisk.
  - apply (SXa_spop (nb 47)); [unfold nb; lia|apply SX_div].
  - apply SXa_spop_a, SX_idiv.
  - apply SXa_spop_a, SX_modulo.
Qed.

Lemma SX_sp_pipe : SXa (sp [124]) [pk TPipe].
Proof. apply (SXa_spop (nb 124)); [unfold nb; lia|apply SX_pipe]. Qed.
Lemma SX_sp_or : SXa (sp [124; 124]) [pk TOr].
Proof. apply SXa_spop_a, SX_or. Qed.
Lemma SX_sp_and : SXa (sp [38; 38]) [pk TAnd].
Proof. apply SXa_spop_a, SX_and. Qed.
Lemma SX_sp_assign : SXa (sp [61]) [pk TAssign].
Proof. apply (SXa_spop (nb 61)); [unfold nb; lia|apply SX_assign]. Qed.
Lemma SX_ident s : str_ok s = true -> SX (show_ident s) [ident_tok s].
Proof.
  intros H. unfold show_ident, ident_tok. destruct (plain_ident s) eqn:E.
  - apply SX_plain, E.
  - apply SXa_SX, SX_quoted, H.
Qed.

Lemma SX_paren body ts : SX body ts -> SX (paren body) (wrapt ts).
Proof.
  intros H. unfold paren, wrapt.
  apply (SXa_app fol [40] (body ++ [41]) [pk TOpenParen] (ts ++ [pk TCloseParen]) SX_oparen).
  apply SX_app; [assumption|apply SXa_SX, SX_cparen|reflexivity].
Qed.

Lemma SX_q e : SX (show (level e) e) (toks_of (level e) e) -> forall p, SX (show p e) (toks_of p e).
Proof.
  intros H p. rewrite show_q, toks_of_q. destruct (level e <? p); [apply SX_paren|]; assumption.
Qed.

Lemma SX_index i : SXa (91 :: Z_to_bytes i ++ [93]) [pk TOpenSqBrace; int_tok i; pk TCloseSqBrace].
Proof.
  apply (SXh_app osq_next anyf [91] (Z_to_bytes i ++ [93]) [pk TOpenSqBrace] [int_tok i; pk TCloseSqBrace] SX_osq).
  - apply (SXP_app folz anyf (Z_to_bytes i) [93] [int_tok i] [pk TCloseSqBrace] (SX_int i) SX_csq).
    intros rest _. reflexivity.
  - apply osq_int.
Qed.

Lemma SX_optint a : SXP folz (opt_int a) (opt_int_tok a).
Proof. destruct a; [apply SX_int|apply SXP_nil]. Qed.

Lemma SX_slice a b c : SXa (slice_text a b c) (slice_toks a b c).
Proof.
  unfold slice_text, slice_toks.
  set (stepx := match c with Some s => 58 :: Z_to_bytes s | None => [] end).
  set (stept := match c with Some s => [pk TColon; int_tok s] | None => [] end).
  assert (H3 : SXa (stepx ++ [93]) (stept ++ [pk TCloseSqBrace])).
  { subst stepx stept. destruct c as [s|]; [|apply SX_csq].
    apply (SXa_app anyf [58] (Z_to_bytes s ++ [93]) [pk TColon] [int_tok s; pk TCloseSqBrace] SX_colon).
    apply (SXP_app folz anyf (Z_to_bytes s) [93] [int_tok s] [pk TCloseSqBrace] (SX_int s) SX_csq).
    intros rest _. reflexivity. }
  assert (H2 : SXa (opt_int b ++ stepx ++ [93]) (opt_int_tok b ++ stept ++ [pk TCloseSqBrace])).
  { apply (SXP_app folz anyf _ _ _ _ (SX_optint b) H3).
    intros rest _. subst stepx. destruct c; reflexivity. }
  assert (H1 : SXa (opt_int a ++ 58 :: opt_int b ++ stepx ++ [93])
                   (opt_int_tok a ++ pk TColon :: opt_int_tok b ++ stept ++ [pk TCloseSqBrace])).
  { apply (SXP_app folz anyf (opt_int a) (58 :: opt_int b ++ stepx ++ [93]) (opt_int_tok a)
             (pk TColon :: opt_int_tok b ++ stept ++ [pk TCloseSqBrace]) (SX_optint a)).
    - apply (SXa_app anyf [58] _ [pk TColon] _ SX_colon H2).
    - intros rest _. reflexivity. }
  apply (SXh_app osq_next anyf [91] _ [pk TOpenSqBrace] _ SX_osq H1).
  destruct a as [z|]; [apply osq_int|]. apply hdP_cons. unfold osq_next. lia.
Qed.

Lemma SX_ktext k :
  match k with PFilter c => SX (show L_PIPE c) (toks_of L_PIPE c) | _ => True end ->
  SX (ktext k) (ktoks k).
Proof.
  destruct k as [|a b c| |cond|]; intros H; cbn [ktext ktoks].
  - apply SXa_SX, SX_arrwild.
  - apply SXa_SX, SX_slice.
  - apply SXa_SX, SX_flatten.
  - apply (SXa_app fol [91; 63] (show L_PIPE cond ++ [93]) [pk TFilter] (toks_of L_PIPE cond ++ [pk TCloseSqBrace]) SX_filter).
    apply SX_app; [assumption|apply SXa_SX, SX_csq|reflexivity].
  - apply SXa_SX, SX_objwild.
Qed.

Lemma SX_ktext0 k :
  match k with PFilter c => SX (show L_PIPE c) (toks_of L_PIPE c) | _ => True end ->
  SX (ktext0 k) (ktoks0 k).
Proof.
  destruct k as [|a b c| |cond|].
  - apply (SX_ktext PList).
  - apply (SX_ktext (PSlice a b c)).
  - apply (SX_ktext PFlatten).
  - apply (SX_ktext (PFilter cond)).
  - intros _. apply SXa_SX, SX_asterisk.
Qed.

Lemma SX_sep {A} (f : A -> bytes) (g : A -> list token) (l : list A) :
  Forall (fun a => SX (f a) (g a)) l ->
  SX (intercalate [44; 32] (map f l)) (sepby (pk TComma) (map g l)).
Proof.
  induction 1 as [|a l Ha Hl IH]; [apply SXP_nil|].
  destruct l as [|b l]; [exact Ha|].
  cbn [map] in *. rewrite intercalate_cons2, sepby_cons2.
  apply SX_app; [exact Ha| |reflexivity].
  apply (SXa_app fol [44] (32 :: intercalate [44; 32] (f b :: map f l)) [pk TComma] _ SX_comma).
  apply SXP_sp, IH.
Qed.

Definition QX (e : rexpr) : Prop :=
  (wfr e -> forall p, SX (show p e) (toks_of p e)) /\
  (forall sp, rhs_ok sp e -> SX (show_rhs e) (rhs_toks e)).

Lemma SX_binop (l r : rexpr) (ql qr : Z) op t :
  QX l -> QX r -> wfr l -> wfr r -> SXa (sp op) [t] ->
  SX (show ql l ++ sp op ++ show qr r) (toks_of ql l ++ [t] ++ toks_of qr r).
Proof.
  intros [Hl _] [Hr _] Wl Wr Hop.
  apply SX_app; [apply Hl, Wl| |reflexivity].
  apply (SXa_app fol _ _ _ _ Hop). apply Hr, Wr.
Qed.

Theorem main_QX : forall e, QX e.
Proof.
  apply rexpr_children_ind. intros e IH.
  destruct e as [| |name|v|s|name|l r|l i|k l r|es|kes|l r|l r|l r|x|op l r|op l r|x|x|f args|bs body];
    cbn [rchildren] in IH.
  - (* RCurrent *) split; [|intros sp _; apply SXP_nil].
    intros _. apply SX_q. apply SXa_SX, SX_current.
  - (* RRoot *) split; [|intros sp H; cbn [rhs_ok] in H; contradiction].
    intros _. apply SX_q. apply SX_root.
  - (* RField *) split; [|intros sp H; cbn [rhs_ok] in H; contradiction].
    intros Hw. apply SX_q. apply (SX_ident name Hw).
  - (* RLiteral *) split; [|intros sp H; cbn [rhs_ok] in H; contradiction].
    intros Hw. apply SX_q. apply SXa_SX, (SX_lit v Hw).
  - (* RRaw *) split; [|intros sp H; cbn [rhs_ok] in H; contradiction].
    intros Hw. apply SX_q. apply SXa_SX, (SX_raw s Hw).
  - (* RVar *) split; [|intros sp H; cbn [rhs_ok] in H; contradiction].
    intros Hw. apply SX_q. apply (SX_var name Hw).
  - (* RSub *)
    apply Forall_cons_iff in IH as [[IHl IHlr] IH]. apply Forall_cons_iff in IH as [[IHr _] _].
    assert (Hdot : wfr r -> sub_shape r = true ->
              SX ([46] ++ show L_POST r) ([pk TDot] ++ toks_of L_POST r)).
    { intros Hr Hs. apply (SXh_app (nb 42) fol _ _ _ _ SX_dot (IHr Hr L_POST)).
      apply show_head_sub; assumption. }
    split.
    + intros (Hl & Hs & Hr). apply SX_q.
      change (SX (show L_POST l ++ [46] ++ show L_POST r) (toks_of L_POST l ++ [pk TDot] ++ toks_of L_POST r)).
      apply SX_app; [apply IHl, Hl|apply Hdot; assumption|reflexivity].
    + intros sp (Hl & _ & Hs & Hr).
      change (SX (show_rhs l ++ [46] ++ show L_POST r) (rhs_toks l ++ [pk TDot] ++ toks_of L_POST r)).
      apply SX_app; [apply (IHlr sp), Hl|apply Hdot; assumption|reflexivity].
  - (* RIndex *)
    apply Forall_cons_iff in IH as [[IHl IHlr] _].
    split.
    + intros (Hl & _ & Hi). apply SX_q.
      change (SX (show L_POST l ++ (91 :: Z_to_bytes i ++ [93]))
                 (toks_of L_POST l ++ [pk TOpenSqBrace; int_tok i; pk TCloseSqBrace])).
      apply SX_app; [apply IHl, Hl|apply SXa_SX, SX_index|reflexivity].
    + intros sp (Hl & _ & Hi).
      change (SX (show_rhs l ++ (91 :: Z_to_bytes i ++ [93]))
                 (rhs_toks l ++ [pk TOpenSqBrace; int_tok i; pk TCloseSqBrace])).
      apply SX_app; [apply (IHlr sp), Hl|apply SXa_SX, SX_index|reflexivity].
  - (* RProj *)
    assert (IH3 : QX l /\ QX r /\ match k with PFilter c => QX c | _ => True end).
    { destruct k; repeat (apply Forall_cons_iff in IH as [? IH]); auto. }
    clear IH. destruct IH3 as ([IHl IHlr] & [_ IHr] & IHc).
    assert (Hk : match k with PFilter c => wfr c | _ => True end ->
                 match k with PFilter c => SX (show L_PIPE c) (toks_of L_PIPE c) | _ => True end).
    { destruct k; auto. intros Hc. apply IHc, Hc. }
    split.
    + intros (Hl & _ & _ & Hc & Hr). apply SX_q. change (level (RProj k l r)) with L_PROJ.
      destruct (is_current_dec l) as [->|Hn].
      * rewrite show_proj_cur, proj_toks_cur.
        apply SX_app; [apply SX_ktext0, Hk, Hc|apply (IHr _ Hr)|apply fol_show_rhs].
      * rewrite show_proj_ncur, proj_toks_ncur by assumption.
        apply SX_app; [apply IHl, Hl| |apply fol_ktext].
        apply SX_app; [apply SX_ktext, Hk, Hc|apply (IHr _ Hr)|apply fol_show_rhs].
    + intros sp (Hl & _ & _ & Hc & Hr). rewrite show_rhs_proj, rhs_toks_proj.
      apply SX_app; [apply (IHlr sp), Hl| |apply fol_ktext].
      apply SX_app; [apply SX_ktext, Hk, Hc|apply (IHr _ Hr)|apply fol_show_rhs].
  - (* RMultiList *) split; [|intros sp H; cbn [rhs_ok] in H; contradiction].
    intros Hw. apply wfr_mlist in Hw as [Hne Hall]. apply SX_q. change (level (RMultiList es)) with L_POST.
    rewrite show_mlist, toks_mlist_eq. cbv zeta.
    assert (Hin : SX (intercalate [44; 32] (map (show L_PIPE) es)) (sepby (pk TComma) (map (toks_of L_PIPE) es))).
    { apply SX_sep. rewrite Forall_forall in *. intros x Hx. apply (IH x Hx). apply Hall, Hx. }
    assert (Hh : hdP startP (intercalate [44; 32] (map (show L_PIPE) es))).
    { destruct es as [|x es']; [congruence|]. cbn [map]. apply intercalate_hdP, show_head.
      inversion Hall; assumption. }
    remember (intercalate [44; 32] (map (show L_PIPE) es)) as inner eqn:Ei. clear Ei.
    destruct Hh as (b & t & -> & Hb).
    apply (SXh_app osq_next fol [91] _ [pk TOpenSqBrace] _ SX_osq).
    + destruct (b =? 42).
      * apply SX_app; [apply SXP_sp, Hin|apply SXa_SX, SX_csq|reflexivity].
      * apply SX_app; [exact Hin|apply SXa_SX, SX_csq|reflexivity].
    + destruct (Z.eqb_spec b 42) as [->|Hn].
      * apply hdP_cons. unfold osq_next. lia.
      * apply hdP_cons. apply startP_facts in Hb. unfold osq_next. lia.
  - (* RMultiHash *) split; [|intros sp H; cbn [rhs_ok] in H; contradiction].
    intros Hw. apply wfr_mhash in Hw as (Hne & _ & Hall). apply SX_q. change (level (RMultiHash kes)) with L_POST.
    rewrite show_mhash, toks_mhash_eq.
    apply (SXa_app fol [123] _ [pk TOpenBrace] _ SX_obrace).
    apply SX_app; [|apply SXa_SX, SX_cbrace|reflexivity].
    apply SX_sep. apply -> Forall_map in IH. rewrite Forall_forall in *. intros [kk x] Hx.
    destruct (Hall _ Hx) as [Hk Hwx]. cbn [fst snd] in *. unfold hash_text, hash_toks. cbn [fst snd].
    change (SX (show_ident kk ++ [58] ++ 32 :: show L_PIPE x) ([ident_tok kk] ++ [pk TColon] ++ toks_of L_PIPE x)).
    apply SX_app; [apply SX_ident, Hk| |reflexivity].
    apply (SXa_app fol _ _ _ _ SX_colon). apply SXP_sp. apply (IH _ Hx), Hwx.
  - (* RPipe *) split; [|intros sp H; cbn [rhs_ok] in H; contradiction].
    apply Forall_cons_iff in IH as [IHl IH]. apply Forall_cons_iff in IH as [IHr _].
    intros (Hl & Hr). apply SX_q.
    apply (SX_binop l r L_PIPE L_OR [124] (pk TPipe)); auto using SX_sp_pipe.
  - (* ROr *) split; [|intros sp H; cbn [rhs_ok] in H; contradiction].
    apply Forall_cons_iff in IH as [IHl IH]. apply Forall_cons_iff in IH as [IHr _].
    intros (Hl & Hr). apply SX_q.
    apply (SX_binop l r L_OR L_AND [124; 124] (pk TOr)); auto using SX_sp_or.
  - (* RAnd *) split; [|intros sp H; cbn [rhs_ok] in H; contradiction].
    apply Forall_cons_iff in IH as [IHl IH]. apply Forall_cons_iff in IH as [IHr _].
    intros (Hl & Hr). apply SX_q.
    apply (SX_binop l r L_AND L_CMP [38; 38] (pk TAnd)); auto using SX_sp_and.
  - (* RNot *) split; [|intros sp H; cbn [rhs_ok] in H; contradiction].
    apply Forall_cons_iff in IH as [[IHx _] _].
    intros Hw. cbn [wfr] in Hw. apply SX_q.
    change (SX ([33] ++ (if is_atom x then show L_POST x else paren (show L_LET x)))
               ([pk TNot] ++ (if is_atom x then toks_of L_POST x else wrapt (toks_of L_LET x)))).
    apply (SXh_app (nb 61) fol _ _ _ _ SX_not).
    + destruct (is_atom x); [apply IHx, Hw|apply SX_paren, IHx, Hw].
    + destruct (is_atom x).
      * eapply hdP_impl; [|apply show_head, Hw]. intros b0; apply startP_nb; auto.
      * apply hdP_cons. unfold nb; lia.
  - (* RCmp *) split; [|intros sp H; cbn [rhs_ok] in H; contradiction].
    apply Forall_cons_iff in IH as [IHl IH]. apply Forall_cons_iff in IH as [IHr _].
    intros (Hl & Hr). apply SX_q.
    apply (SX_binop l r L_CMP L_ADD (cmp_text op) (pk (cmp_ttype op))); auto using SX_cmp.
  - (* RArith *) split; [|intros sp H; cbn [rhs_ok] in H; contradiction].
    apply Forall_cons_iff in IH as [IHl IH]. apply Forall_cons_iff in IH as [IHr _].
    intros (Hl & Hr). apply SX_q. change (level (RArith op l r)) with (ar_level op).
    rewrite show_arith, toks_arith.
    apply (SX_binop l r (ar_level op) (ar_level op + 1) (ar_text op) (pk (ar_ttype op))); auto using SX_ar.
  - (* RNeg *) split; [|intros sp H; cbn [rhs_ok] in H; contradiction].
    apply Forall_cons_iff in IH as [[IHx _] _].
    intros Hw. cbn [wfr] in Hw. apply SX_q.
    change (SX ([45] ++ 32 :: show L_PROJ x) ([pk TSubtract] ++ toks_of L_PROJ x)).
    apply (SXh_app nodigit fol _ _ _ _ SX_subtract).
    + apply SXP_sp, IHx, Hw.
    + apply hdP_cons. split; [lia|reflexivity].
  - (* RPos *) split; [|intros sp H; cbn [rhs_ok] in H; contradiction].
    apply Forall_cons_iff in IH as [[IHx _] _].
    intros Hw. cbn [wfr] in Hw. apply SX_q.
    change (SX ([43] ++ 32 :: show L_PROJ x) ([pk TAdd] ++ toks_of L_PROJ x)).
    apply (SXa_app fol _ _ _ _ SX_add). apply SXP_sp, IHx, Hw.
  - (* RCall *) split; [|intros sp H; cbn [rhs_ok] in H; contradiction].
    intros Hw. apply wfr_call in Hw as (Hok & Hall). apply SX_q. change (level (RCall f args)) with L_POST.
    rewrite show_call, toks_call_eq.
    change (SX (f ++ [40] ++ intercalate [44; 32] (map arg_text args) ++ [41])
               ([Tok TUnquotedIdentifier f] ++ [pk TOpenParen] ++ sepby (pk TComma) (map arg_toks args) ++ [pk TCloseParen])).
    apply SX_app; [apply SX_plain, (call_ok_plain f args Hok)| |reflexivity].
    apply (SXa_app fol _ _ _ _ SX_oparen).
    apply SX_app; [|apply SXa_SX, SX_cparen|reflexivity].
    apply SX_sep. apply -> Forall_map in IH. rewrite Forall_forall in *. intros a Ha.
    specialize (IH a Ha). specialize (Hall a Ha). destruct IH as [IHa _].
    destruct a as [x|x]; cbn [arg_expr arg_text arg_toks] in *.
    + apply IHa, Hall.
    + change (SX ([38] ++ show L_PIPE x) ([pk TExpression] ++ toks_of L_PIPE x)).
      apply (SXh_app (nb 38) fol _ _ _ _ SX_expref); [apply IHa, Hall|].
      eapply hdP_impl; [|apply show_head, Hall]. intros b0; apply startP_nb; auto.
  - (* RLet *) split; [|intros sp H; cbn [rhs_ok] in H; contradiction].
    apply Forall_cons_iff in IH as [[IHb _] IH].
    intros Hw. apply wfr_let in Hw as (Hne & _ & Hall & Hbody). apply SX_q. change (level (RLet bs body)) with L_LET.
    rewrite show_let, toks_let_eq.
    change (SX ([108; 101; 116] ++ 32 :: (intercalate [44; 32] (map bind_text bs) ++ 32 :: ([105; 110] ++ 32 :: show L_PIPE body)))
               ([pk TLet] ++ sepby (pk TComma) (map bind_toks bs) ++ [pk TIn] ++ toks_of L_PIPE body)).
    apply SX_app; [apply SX_let| |reflexivity]. apply SXP_sp.
    apply SX_app; [| |reflexivity].
    + apply SX_sep. apply -> Forall_map in IH. rewrite Forall_forall in *. intros [n x] Hx.
      destruct (Hall _ Hx) as [Hn Hwx]. cbn [fst snd] in *. unfold bind_text, bind_toks. cbn [fst snd].
      change (SX (n ++ sp [61] ++ show L_PIPE x) ([Tok TVariable n] ++ [pk TAssign] ++ toks_of L_PIPE x)).
      apply SX_app; [apply SX_var, Hn| |reflexivity].
      apply (SXa_app fol _ _ _ _ SX_sp_assign). apply (IH _ Hx), Hwx.
    + apply SXP_sp. apply SX_app; [apply SX_in|apply SXP_sp, IHb, Hbody|reflexivity].
Qed.

Theorem unparse_Resp : forall e, wfr e -> Resp (unparse e) (toks_of 0 e).
Proof.
  intros e Hw. destruct (main_QX e) as [H _]. specialize (H Hw L_LET [] [] I (Resp_end [] eq_refl)).
  rewrite !app_nil_r in H. exact H.
Qed.

(* the tokens of the canonical text are printable *)
Corollary toks_printable : forall e, wfr e -> Forall printable (toks_of 0 e).
Proof. intros e Hw. apply (Resp_printable (unparse e)), unparse_Resp, Hw. Qed.

(* sanity: the canonical printer itself writes a legal respacing of its tokens, so glue_ok
   allows every place where the printer writes no space *)
Theorem unparse_is_spaced : forall e, wfr e ->
  exists gaps, List.length gaps = S (List.length (toks_of 0 e)) /\ Forall ws gaps /\
               empties_ok gaps (toks_of 0 e) /\ spaced gaps (toks_of 0 e) = unparse e.
Proof. intros e Hw. apply spaced_of_Resp, unparse_Resp, Hw. Qed.

(* ================================================================== *)
(* 7. respace_compile                                                  *)
(* ================================================================== *)

(* any text that lexes to the tokens of e compiles to compile_r e: the fuel that parse
   provides for the longer text is enough (the argument of parse_unparse_node) *)
Lemma parse_of_lex s e : wfr e ->
  lex_all s = map ITok (toks_of 0 e) ++ [ITok (Tok TEnd [])] -> parse s = Ok (compile_r e).
Proof.
  intros Hw Hlex. destruct (parse_unparse_toks e Hw) as [f0 H].
  unfold parse.
  pose proof (Termination.parse_items_no_fuel s (parse_fuel s)) as Hnf.
  assert (Hlt : (List.length s < parse_fuel s)%nat) by (unfold parse_fuel; lia).
  specialize (Hnf Hlt).
  destruct (parse_items_mono (parse_fuel s) (Nat.max f0 (parse_fuel s)) (lex_all s) ltac:(lia)) as [E|E];
    [contradiction|].
  rewrite <- E. rewrite Hlex. apply H. lia.
Qed.

Theorem respace_compile : forall e gaps, wfr e ->
  List.length gaps = S (List.length (toks_of 0 e)) -> Forall ws gaps -> empties_ok gaps (toks_of 0 e) ->
  parse (spaced gaps (toks_of 0 e)) = Ok (compile_r e).
Proof.
  intros e gaps Hw Hl Hws He. apply parse_of_lex; [exact Hw|].
  apply respace_lex; [apply toks_printable, Hw|assumption..].
Qed.

(* Compile of any respacing = Compile of the canonical text *)
Corollary respace_compile_same : forall e gaps, wfr e ->
  List.length gaps = S (List.length (toks_of 0 e)) -> Forall ws gaps -> empties_ok gaps (toks_of 0 e) ->
  parse (spaced gaps (toks_of 0 e)) = parse (unparse e).
Proof.
  intros e gaps Hw Hl Hws He. rewrite respace_compile by assumption.
  symmetry. apply parse_unparse_node_full, Hw.
Qed.

(* at the level of the API: Compile succeeds on every respacing, Search cannot tell it from
   the canonical text *)
Corollary respace_api_compile : forall e gaps, wfr e ->
  List.length gaps = S (List.length (toks_of 0 e)) -> Forall ws gaps -> empties_ok gaps (toks_of 0 e) ->
  Api.compile (spaced gaps (toks_of 0 e)) = Api.compile (unparse e) /\
  Api.compile_result (spaced gaps (toks_of 0 e)) = Api.RValue VNull.
Proof.
  intros e gaps Hw Hl Hws He. unfold Api.compile, Api.compile_result. split.
  - apply respace_compile_same; assumption.
  - rewrite respace_compile by assumption. reflexivity.
Qed.

Corollary respace_api_search : forall e gaps, wfr e ->
  List.length gaps = S (List.length (toks_of 0 e)) -> Forall ws gaps -> empties_ok gaps (toks_of 0 e) ->
  forall doc, Api.search (spaced gaps (toks_of 0 e)) doc = Api.search (unparse e) doc.
Proof.
  intros e gaps Hw Hl Hws He doc. unfold Api.search. rewrite respace_compile_same by assumption. reflexivity.
Qed.

(* the same with the computable test on the gaps *)
Corollary respace_compile_b : forall e gaps, wfr e -> respacing_okb gaps (toks_of 0 e) = true ->
  parse (spaced gaps (toks_of 0 e)) = Ok (compile_r e).
Proof.
  intros e gaps Hw H. apply respacing_okb_spec in H as (Hl & Hws & He). apply respace_compile; assumption.
Qed.

(* ---- the tightest respacing: a single space only where two tokens may not touch ---- *)
Fixpoint tight_from (t : token) (ts : list token) : list bytes :=
  match ts with
  | [] => [[]]
  | t' :: ts' => (if glue_ok t t' then [] else [32]) :: tight_from t' ts'
  end.
Definition tight (ts : list token) : list bytes :=
  match ts with [] => [[]] | t :: ts' => [] :: tight_from t ts' end.

Lemma tight_from_ok : forall ts t,
  List.length (tight_from t ts) = S (List.length ts) /\ Forall ws (tight_from t ts) /\
  inner_ok t (tight_from t ts) ts.
Proof.
  induction ts as [|t' ts IH]; intros t; cbn [tight_from].
  - repeat split. constructor; [reflexivity|constructor].
  - destruct (IH t') as (Hl & Hws & Hin). split; [cbn [List.length]; lia|]. split.
    + constructor; [destruct (glue_ok t t'); reflexivity|exact Hws].
    + cbn [inner_ok]. split; [|exact Hin]. destruct (glue_ok t t'); [reflexivity|discriminate].
Qed.

Lemma tight_ok ts :
  List.length (tight ts) = S (List.length ts) /\ Forall ws (tight ts) /\ empties_ok (tight ts) ts.
Proof.
  destruct ts as [|t ts]; cbn [tight].
  - repeat split. constructor; [reflexivity|constructor].
  - destruct (tight_from_ok ts t) as (Hl & Hws & Hin). split; [cbn [List.length]; lia|]. split.
    + constructor; [reflexivity|exact Hws].
    + exact Hin.
Qed.

Corollary tight_compile : forall e, wfr e ->
  parse (spaced (tight (toks_of 0 e)) (toks_of 0 e)) = Ok (compile_r e).
Proof.
  intros e Hw. destruct (tight_ok (toks_of 0 e)) as (Hl & Hws & He). apply respace_compile; assumption.
Qed.

(* ================================================================== *)
(* 8. Examples                                                         *)
(* ================================================================== *)

(* tab, LF, space, CR in every gap of the rich sample of ParseUnparse.v *)
Definition loose_gaps (ts : list token) : list bytes := repeat [9; 10; 32; 13] (S (List.length ts)).

Example loose_rich_ok : respacing_okb (loose_gaps (toks_of 0 rich)) (toks_of 0 rich) = true.
Proof. vm_compute. reflexivity. Qed.

Example loose_rich_compiles :
  parse (spaced (loose_gaps (toks_of 0 rich)) (toks_of 0 rich)) = Ok (compile_r rich).
Proof. apply respace_compile_b; [exact wfr_rich|exact loose_rich_ok]. Qed.

(* the theorem agrees with running the model lexer and parser on that text *)
Example loose_rich_lex_computed :
  lex_all (spaced (loose_gaps (toks_of 0 rich)) (toks_of 0 rich)) =
  map ITok (toks_of 0 rich) ++ [ITok (Tok TEnd [])].
Proof. vm_compute. reflexivity. Qed.

Example loose_rich_parse_computed :
  parse (spaced (loose_gaps (toks_of 0 rich)) (toks_of 0 rich)) = parse (unparse rich).
Proof. vm_compute. reflexivity. Qed.

(* the text is really longer than the canonical one, the tight one really shorter *)
Example rich_lengths :
  (List.length (spaced (tight (toks_of 0 rich)) (toks_of 0 rich)) < List.length (unparse rich) /\
   List.length (unparse rich) < List.length (spaced (loose_gaps (toks_of 0 rich)) (toks_of 0 rich)))%nat.
Proof. vm_compute. split; lia. Qed.

Example tight_rich_compiles :
  parse (spaced (tight (toks_of 0 rich)) (toks_of 0 rich)) = Ok (compile_r rich).
Proof. apply tight_compile, wfr_rich. Qed.

Example tight_rich_parse_computed :
  parse (spaced (tight (toks_of 0 rich)) (toks_of 0 rich)) = parse (unparse rich).
Proof. vm_compute. reflexivity. Qed.

(* the samples of ParseUnparse.v, loosely and tightly respaced *)
Example samples_respaced :
  Forall (fun e => parse (spaced (loose_gaps (toks_of 0 e)) (toks_of 0 e)) = Ok (compile_r e) /\
                   parse (spaced (tight (toks_of 0 e)) (toks_of 0 e)) = Ok (compile_r e))
         [Samples.e1; Samples.e2; Samples.e3; Samples.e4; Samples.e5; Samples.e6; Samples.e7; Samples.e8;
          Samples.e9; Samples.e10; Samples.e11; Samples.e12; Samples.e13; Samples.e14; Samples.e15;
          Samples.e16; Samples.e17; Samples.e18; Samples.e19; Samples.e20; Samples.e21].
Proof.
  eapply Forall_impl; [|apply samples_wfr]. intros e Hw. split; [|apply tight_compile, Hw].
  apply respace_compile; [exact Hw| | |].
  - unfold loose_gaps. apply repeat_length.
  - apply Forall_forall. intros g Hg. apply repeat_spec in Hg. subst g. reflexivity.
  - unfold loose_gaps. cbn [repeat]. destruct (toks_of 0 e) as [|t ts]; [exact I|].
    cbn [empties_ok List.length]. clear. revert t. induction ts as [|t' ts IH]; intros t; cbn [List.length repeat inner_ok]; [exact I|].
    split; [discriminate|apply IH].
Qed.

(* glue_ok is needed: without a gap these pairs lex differently *)
Definition idt (s : bytes) : token := Tok TUnquotedIdentifier s.

Example glue_a_b :   (* a b  glued is the identifier ab *)
  glue_ok (idt [97]) (idt [98]) = false /\
  lex_all (spaced [[]; []; []] [idt [97]; idt [98]]) = [ITok (idt [97; 98]); ITok (Tok TEnd [])] /\
  lex_all (spaced [[]; [9]; []] [idt [97]; idt [98]]) = [ITok (idt [97]); ITok (idt [98]); ITok (Tok TEnd [])].
Proof. vm_compute. repeat split. Qed.

Example glue_pipe_pipe :   (* | |  glued is || *)
  glue_ok (pk TPipe) (pk TPipe) = false /\
  lex_all (spaced [[]; []; []] [pk TPipe; pk TPipe]) = [ITok (pk TOr); ITok (Tok TEnd [])] /\
  lex_all (spaced [[]; [10]; []] [pk TPipe; pk TPipe]) = [ITok (pk TPipe); ITok (pk TPipe); ITok (Tok TEnd [])].
Proof. vm_compute. repeat split. Qed.

Example glue_lt_assign :   (* < =  glued is <= *)
  glue_ok (pk TLess) (pk TAssign) = false /\
  lex_all (spaced [[]; []; []] [pk TLess; pk TAssign]) = [ITok (pk TLessOrEqual); ITok (Tok TEnd [])].
Proof. vm_compute. repeat split. Qed.

Example glue_minus_digit :   (* - 1  glued is the number -1 *)
  glue_ok (pk TSubtract) (int_tok 1) = false /\
  lex_all (spaced [[]; []; []] [pk TSubtract; int_tok 1]) = [ITok (int_tok (-1)); ITok (Tok TEnd [])] /\
  lex_all (spaced [[]; [32]; []] [pk TSubtract; int_tok 1]) = [ITok (pk TSubtract); ITok (int_tok 1); ITok (Tok TEnd [])].
Proof. vm_compute. repeat split. Qed.

Example glue_brackets :   (* [ ]  is flatten, [ ?  is filter, . *  is the object wildcard, $ a  is a variable, & &  is && *)
  glue_ok (pk TOpenSqBrace) (pk TCloseSqBrace) = false /\
  lex_all (spaced [[]; []; []] [pk TOpenSqBrace; pk TCloseSqBrace]) = [ITok (pk TFlatten); ITok (Tok TEnd [])] /\
  glue_ok (pk TOpenSqBrace) (pk TAsterisk) = false /\
  lex_all (spaced [[]; []; []; []] [pk TOpenSqBrace; pk TAsterisk; pk TCloseSqBrace]) = [ITok (pk TArrayWildcard); ITok (Tok TEnd [])] /\
  glue_ok (pk TDot) (pk TAsterisk) = false /\
  lex_all (spaced [[]; []; []] [pk TDot; pk TAsterisk]) = [ITok (pk TObjectWildcard); ITok (Tok TEnd [])] /\
  glue_ok (pk TRoot) (idt [97]) = false /\
  lex_all (spaced [[]; []; []] [pk TRoot; idt [97]]) = [ITok (Tok TVariable [36; 97]); ITok (Tok TEnd [])] /\
  glue_ok (pk TExpression) (pk TExpression) = false /\
  lex_all (spaced [[]; []; []] [pk TExpression; pk TExpression]) = [ITok (pk TAnd); ITok (Tok TEnd [])].
Proof. vm_compute. repeat split. Qed.

(* what may touch: the places where the printer writes no space, and a few more *)
Example glue_allowed :
  glue_ok (idt [97]) (pk TDot) = true /\ glue_ok (pk TDot) (idt [98]) = true /\
  glue_ok (idt [97]) (pk TOpenSqBrace) = true /\ glue_ok (pk TOpenSqBrace) (int_tok 0) = true /\
  glue_ok (pk TOpenSqBrace) (int_tok (-1)) = true /\ glue_ok (int_tok 0) (pk TCloseSqBrace) = true /\
  glue_ok (pk TNot) (idt [97]) = true /\ glue_ok (idt [102]) (pk TOpenParen) = true /\
  glue_ok (pk TExpression) (idt [97]) = true /\ glue_ok (idt [97]) (pk TComma) = true /\
  glue_ok (idt [107]) (pk TColon) = true /\ glue_ok (pk TFilter) (idt [120]) = true /\
  glue_ok (pk TCurrent) (pk TDot) = true /\ glue_ok (pk TRoot) (pk TDot) = true /\
  (* more than the printer uses: operators against operands, $ before a digit, 1 before a *)
  glue_ok (idt [97]) (pk TPipe) = true /\ glue_ok (pk TPipe) (idt [98]) = true /\
  glue_ok (idt [97]) (pk TEqual) = true /\ glue_ok (pk TLess) (idt [98]) = true /\
  glue_ok (idt [97]) (pk TSubtract) = true /\ glue_ok (pk TSubtract) (idt [98]) = true /\
  glue_ok (idt [97]) (int_tok (-1)) = true /\ glue_ok (int_tok 1) (idt [97]) = true /\
  glue_ok (pk TRoot) (int_tok 1) = true /\ glue_ok (pk TOr) (pk TPipe) = true.
Proof. vm_compute. repeat split. Qed.

(* glue_ok is exact on a representative of every kind of printable token: two texts may
   touch precisely when the glued text lexes as the two tokens; the single exception is
   [ directly followed by * , which the lexer splits when no ] comes next and which glue_ok
   refuses because the token after the star is not in view (the printer writes "[ *" too) *)
Definition tok_eqb (a b : token) : bool := ttype_eqb (ttyp a) (ttyp b) && beqb (tval a) (tval b).

Fixpoint items_are (l : list item) (ts : list token) : bool :=
  match ts with
  | [] => match l with [ITok e] => tok_eqb e (Tok TEnd []) | _ => false end
  | t' :: ts' => match l with ITok t :: l' => tok_eqb t t' && items_are l' ts' | _ => false end
  end.

Lemma tok_eqb_eq a b : tok_eqb a b = true -> a = b.
Proof.
  unfold tok_eqb, ttype_eqb. destruct a as [ta va], b as [tb vb]. cbn [ttyp tval]. intros H.
  apply andb_true_iff in H as [H1 H2]. apply beqb_eq in H2.
  destruct (ttype_eq_dec ta tb); [congruence|discriminate].
Qed.

Lemma items_are_spec : forall ts l, items_are l ts = true -> l = map ITok ts ++ [ITok (Tok TEnd [])].
Proof.
  induction ts as [|t ts IH]; intros l H.
  - destruct l as [|[e| |] [|? ?]]; try discriminate H. cbn [items_are] in H. apply tok_eqb_eq in H. subst. reflexivity.
  - destruct l as [|[e| |] l]; try discriminate H. cbn [items_are] in H.
    apply andb_true_iff in H as [H1 H2]. apply tok_eqb_eq in H1. subst. cbn [map app]. f_equal. apply IH, H2.
Qed.

Definition reps : list token :=
  map pk [TOpenBrace; TCloseBrace; TOpenParen; TCloseParen; TOpenSqBrace; TCloseSqBrace; TAdd; TAnd;
          TArrayWildcard; TAssign; TAsterisk; TColon; TComma; TDivide; TDot; TEqual; TFilter; TFlatten;
          TIn; TGreater; TGreaterOrEqual; TIntegerDivide; TLess; TLessOrEqual; TLet; TModulo; TNot;
          TNotEqual; TObjectWildcard; TOr; TPipe; TSubtract; TCurrent; TExpression; TRoot] ++
  [idt [97]; idt [95; 49]; int_tok 7; int_tok (-7); Tok TVariable [36; 120];
   Tok TQuotedIdentifier [34; 97; 34]; lit_tok (VBool true); raw_tok [97]].

Definition is_osq_star (t1 t2 : token) : bool :=
  tok_eqb t1 (pk TOpenSqBrace) && tok_eqb t2 (pk TAsterisk).

Example glue_ok_exact :
  forallb (fun t1 => forallb (fun t2 =>
    Bool.eqb (glue_ok t1 t2 || is_osq_star t1 t2) (items_are (lex_all (tval t1 ++ tval t2)) [t1; t2]))
    reps) reps = true.
Proof. vm_compute. reflexivity. Qed.

(* white space is significant between a minus sign and the digits: "a[-1]" is an index,
   "a[- 1]" is [ - 1 ], which the grammar rejects (the minus and the digits of a negative
   number are one token, so this gap is not between two tokens) *)
Example minus_space_matters :
  (exists n, parse [97; 91; 45; 49; 93] = Ok n) /\ (exists e, parse [97; 91; 45; 32; 49; 93] = Err e).
Proof. split; eexists; vm_compute; reflexivity. Qed.

Print Assumptions tok_LXP.
Print Assumptions respace_lex.
Print Assumptions unparse_is_spaced.
Print Assumptions respace_compile.
Print Assumptions respace_api_compile.
Print Assumptions respace_api_search.
Print Assumptions tight_compile.
