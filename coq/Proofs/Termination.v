(* C09 (termination part): the fuel the model gives to the lexer and to the
   Pratt parser is always enough, i.e. OutOfFuel / IStuck are unreachable.
   The lexer's position strictly increases with every token; every recursion
   of the parser happens on a state with strictly fewer tokens ahead. *)
From Coq Require Import List ZArith Bool Lia.
From JM Require Import Base.Outcome Base.Bytes Base.Utf8 Model.Token Model.Lexer
  Model.Ast Model.Literals Model.Parser Proofs.Utf8Theory.
Import ListNotations.
Open Scope Z_scope.

(* ================================================================== *)
(* Lexer                                                               *)
(* ================================================================== *)

Lemma dr_cases s :
  match dr s with
  | Ok (r, sz) => s <> [] /\ 1 <= sz <= Z.of_nat (length s)
  | Err _ => True
  | _ => False
  end.
Proof.
  destruct s as [|b0 s']; [exact I|].
  assert (Hs : b0 :: s' <> []) by discriminate.
  pose proof (decode_rune_size _ Hs) as B. unfold dr.
  destruct (decode_rune (b0 :: s')) as [r sz]. cbn [snd] in B.
  destruct (sz =? 0); [exact I|].
  destruct ((r =? RuneError) && (sz =? 1)); [exact I|].
  split; assumption.
Qed.

Lemma dr_ok s r sz : dr s = Ok (r, sz) -> s <> [] /\ 1 <= sz <= Z.of_nat (length s).
Proof. intros E. pose proof (dr_cases s) as H. rewrite E in H. exact H. Qed.

Lemma dr_size s r sz : dr s = Ok (r, sz) -> 1 <= sz.
Proof. intros E. apply dr_ok in E. lia. Qed.

Lemma drop_length n s : length (drop n s) = (length s - Z.to_nat n)%nat.
Proof. unfold drop. apply skipn_length. Qed.

Lemma drop_le n s : (length (drop n s) <= length s)%nat.
Proof. rewrite drop_length. lia. Qed.

Lemma span_nonneg p s : 0 <= span p s.
Proof. induction s as [|b r IH]; cbn [span]; [lia|]. destruct (p b); lia. Qed.

(* scan_delim: fuel > remaining length is enough; the count only grows *)
Lemma scan_delim_ok : forall fuel delim s n, (length s < fuel)%nat ->
  match scan_delim fuel delim s n with
  | Ok m => n <= m
  | Err _ => True
  | _ => False
  end.
Proof.
  induction fuel as [|f IH]; intros delim s n Hf; [lia|].
  cbn [scan_delim].
  pose proof (dr_cases s) as D.
  destruct (dr s) as [[r sz]|e| | |]; cbn [bind]; try exact D; try exact I.
  destruct D as [Hs Hsz].
  destruct (r =? delim); [lia|].
  destruct (r =? 92).
  - pose proof (dr_cases (drop sz s)) as D2.
    destruct (dr (drop sz s)) as [[r2 sz2]|e| | |]; cbn [bind]; try exact D2; try exact I.
    destruct D2 as [Hs2 Hsz2].
    specialize (IH delim (drop sz2 (drop sz s)) (n + sz + sz2)).
    rewrite !drop_length in *.
    destruct (scan_delim f delim (drop sz2 (drop sz s)) (n + sz + sz2));
      try (apply IH; lia).
    assert (n + sz + sz2 <= a) by (apply IH; lia). lia.
  - specialize (IH delim (drop sz s) (n + sz)).
    rewrite !drop_length in *.
    destruct (scan_delim f delim (drop sz s) (n + sz)); try (apply IH; lia).
    assert (n + sz <= a) by (apply IH; lia). lia.
Qed.

Lemma skip_ws_ok : forall fuel s, (length s < fuel)%nat ->
  match skip_ws fuel s with
  | Ok None => True
  | Ok (Some (r, sz, s')) => dr s' = Ok (r, sz) /\ (length s' <= length s)%nat
  | Err _ => True
  | _ => False
  end.
Proof.
  induction fuel as [|f IH]; intros s Hf; [lia|].
  cbn [skip_ws].
  pose proof (dr_cases s) as D.
  destruct (dr s) as [[r sz]|e| | |] eqn:E; cbn [bind]; try exact D; try exact I.
  destruct D as [Hs Hsz].
  destruct (is_ws r); [|split; [assumption|lia]].
  destruct (drop sz s) as [|c s1] eqn:Ed; [exact I|].
  specialize (IH (c :: s1)).
  assert (Hl : (length (c :: s1) < length s)%nat) by (rewrite <- Ed, drop_length; lia).
  destruct (skip_ws f (c :: s1)) as [[[[r' sz'] s']|]|e| | |]; try (apply IH; lia).
  destruct IH as [IH1 IH2]; [lia|]. split; [assumption|lia].
Qed.

(* result of a successful non-End step: a non-End token and strictly shorter input *)
Definition lgood (n0 : nat) (o : outcome (token * bytes)) : Prop :=
  match o with
  | Ok (t, rest) => ttyp t <> TEnd /\ (length rest < n0)%nat
  | Err _ => True
  | _ => False
  end.

Lemma next_is_some s sz c w : 1 <= sz -> next_is s sz c = Some w -> 1 <= w.
  Proof.
    unfold next_is. intros Hsz.
    destruct (dr (drop sz s)) as [[nr nsz]|e| | |] eqn:E; try discriminate.
    apply dr_size in E. destruct (nr =? c); [|discriminate]. intros H; inversion H. lia.
  Qed.

Section LexStep.
  Variable n0 : nat.
  Variable s : bytes.
  Hypothesis Hs : s <> [].
  Hypothesis Hn0 : (length s <= n0)%nat.

  Lemma mk_good t n : t <> TEnd -> 1 <= n -> lgood n0 (mk t n s).
  Proof.
    intros Ht Hn. unfold mk, lgood. cbn [ttyp]. split; [assumption|].
    rewrite drop_length. destruct s; [congruence|]. cbn [length] in *. lia.
  Qed.

  Lemma mk_good_span t n p x : t <> TEnd -> 1 <= n -> lgood n0 (mk t (n + span p x) s).
  Proof. intros. apply mk_good; [assumption|]. pose proof (span_nonneg p x). lia. Qed.

  Lemma two_good sz c t2 t1 : t2 <> TEnd -> t1 <> TEnd -> 1 <= sz -> lgood n0 (two s sz c t2 t1).
  Proof.
    intros H2 H1 Hsz. unfold two. destruct (next_is s sz c) as [w|] eqn:E.
    - apply mk_good; [assumption|]. eapply next_is_some; eassumption.
    - apply mk_good; assumption.
  Qed.

  Lemma delimited_good t delim sz : t <> TEnd -> 1 <= sz -> lgood n0 (delimited t delim s sz).
  Proof.
    intros Ht Hsz. unfold delimited.
    pose proof (scan_delim_ok (S (length s)) delim (drop sz s) 0) as H.
    destruct (scan_delim (S (length s)) delim (drop sz s) 0) as [m|e| | |]; cbn [bind];
      try (apply H; pose proof (drop_le sz s); lia); try exact I.
    apply mk_good; [assumption|].
    assert (0 <= m) by (apply H; pose proof (drop_le sz s); lia). lia.
  Qed.
End LexStep.

Lemma lgood_cases (n0 : nat) (o : outcome (token * bytes)) : lgood n0 o ->
  match o with
  | Ok (t, rest) => (t = Tok TEnd [] /\ rest = []) \/ (ttyp t <> TEnd /\ (length rest < n0)%nat)
  | Err _ => True
  | _ => False
  end.
Proof. unfold lgood. destruct o as [[t rest]| | | |]; auto. Qed.

(* every call of Lexer.Next either reports End with nothing left, or yields a
   non-End token and strictly advances, or fails with a lexical error *)
Lemma lex_next_cases s :
  match lex_next s with
  | Ok (t, rest) => (t = Tok TEnd [] /\ rest = []) \/ (ttyp t <> TEnd /\ (length rest < length s)%nat)
  | Err _ => True
  | _ => False
  end.
Proof.
  destruct s as [|b0 s0]; [left; split; reflexivity|].
  unfold lex_next.
  pose proof (skip_ws_ok (S (length (b0 :: s0))) (b0 :: s0)) as W.
  destruct (skip_ws (S (length (b0 :: s0))) (b0 :: s0)) as [[[[r sz] s]|]|e| | |];
    cbn [bind]; try (apply W; lia); try exact I; [|left; split; reflexivity].
  destruct W as [Hd Hl]; [lia|].
  apply dr_ok in Hd. destruct Hd as [Hs Hsz].
  set (n0 := length (b0 :: s0)) in *.
  assert (Hsz1 : 1 <= sz) by lia.
  apply lgood_cases.
  cbv zeta.
  repeat match goal with
  | |- lgood _ (if ?c then _ else _) => destruct c
  | |- lgood _ (match dr ?x with _ => _ end) =>
      let E := fresh "E" in
      destruct (dr x) as [[? ?]| | | |] eqn:E; [apply dr_size in E| | | |]
  | |- lgood _ (match next_is ?a ?b ?c with _ => _ end) =>
      let E := fresh "E" in
      destruct (next_is a b c) eqn:E; [apply next_is_some in E; [|lia]|]
  | |- lgood _ (mk (if ?c then _ else _) _ _) => destruct c
  end;
  first
  [ exact I
  | apply two_good; solve [assumption | discriminate]
  | apply delimited_good; solve [assumption | discriminate]
  | apply mk_good_span; solve [assumption | discriminate | lia]
  | apply mk_good; solve [assumption | discriminate | lia] ].
Qed.

Theorem lex_next_progress : forall s t rest,
  s <> [] -> lex_next s = Ok (t, rest) -> ttyp t <> TEnd -> (length rest < length s)%nat.
Proof.
  intros s t rest _ E Ht. pose proof (lex_next_cases s) as H. rewrite E in H.
  destruct H as [[H _]|[_ H]]; [subst t; cbn in Ht; congruence|assumption].
Qed.

Theorem lex_next_no_fuel : forall s, lex_next s <> OutOfFuel.
Proof. intros s E. pose proof (lex_next_cases s) as H. rewrite E in H. exact H. Qed.

(* Panic / Unmodelled are not produced either: Lexer.Next returns a token or an error *)
Theorem lex_next_ok_or_err : forall s, (exists r, lex_next s = Ok r) \/ (exists e, lex_next s = Err e).
Proof.
  intros s. pose proof (lex_next_cases s) as H.
  destruct (lex_next s) as [r|e| | |]; try contradiction; eauto.
Qed.

Definition lex_shape (n : nat) (l : list item) : Prop :=
  exists toks last, l = map ITok toks ++ [last] /\
    (last = ITok (Tok TEnd []) \/ exists e, last = IErr e) /\
    Forall (fun t => ttyp t <> TEnd) toks /\ (length toks <= n)%nat.

Lemma lex_all_f_S f s :
  lex_all_f (S f) s =
  match lex_next s with
  | Ok (t, rest) => if ttype_eqb (ttyp t) TEnd then [ITok t] else ITok t :: lex_all_f f rest
  | Err e => [IErr e]
  | _ => [IStuck]
  end.
Proof.
  cbn [lex_all_f]. destruct (lex_next s) as [[t rest]| | | |]; try reflexivity.
  destruct (ttyp t); reflexivity.
Qed.

Lemma lex_all_f_shape : forall fuel s, (length s < fuel)%nat -> lex_shape (length s) (lex_all_f fuel s).
Proof.
  induction fuel as [|f IH]; intros s Hf; [lia|].
  rewrite lex_all_f_S. pose proof (lex_next_cases s) as H.
  destruct (lex_next s) as [[t rest]|e| | |]; try contradiction.
  - destruct H as [[Ht Hr]|[Ht Hr]].
    + subst. exists [], (ITok (Tok TEnd [])). cbn. repeat split; auto. lia.
    + unfold ttype_eqb. destruct (ttype_eq_dec (ttyp t) TEnd) as [E|_]; [contradiction|].
      destruct (IH rest) as (toks & last & E1 & E2 & E3 & E4); [lia|].
      exists (t :: toks), last. rewrite E1. cbn [map app length].
      repeat split; auto. lia.
  - exists [], (IErr e). cbn. repeat split; eauto. lia.
Qed.

Theorem lex_all_shape : forall s, exists toks last,
  lex_all s = map ITok toks ++ [last] /\
  (last = ITok (Tok TEnd []) \/ exists e, last = IErr e) /\
  Forall (fun t => ttyp t <> TEnd) toks /\ (length toks <= length s)%nat.
Proof. intros s. apply lex_all_f_shape. lia. Qed.

Theorem lex_all_no_stuck : forall s, ~ In IStuck (lex_all s).
Proof.
  intros s H. destruct (lex_all_shape s) as (toks & last & E & L & _). rewrite E in H.
  apply in_app_or in H. destruct H as [H|[H|[]]].
  - apply in_map_iff in H. destruct H as (x & Hx & _). discriminate.
  - destruct L as [L|[e L]]; subst; discriminate.
Qed.

(* ================================================================== *)
(* Parser                                                              *)
(* ================================================================== *)
Open Scope nat_scope.

(* outcomes that are not OutOfFuel and whose values satisfy P *)
Definition post {A} (P : A -> Prop) (o : outcome A) : Prop :=
  match o with Ok a => P a | OutOfFuel => False | _ => True end.

Lemma post_bind {A B} (P : A -> Prop) (Q : B -> Prop) (o : outcome A) (k : A -> outcome B) :
  post P o -> (forall a, P a -> post Q (k a)) -> post Q (bind o k).
Proof. destruct o; cbn; auto. Qed.

Lemma post_mono {A} (P Q : A -> Prop) (o : outcome A) :
  post P o -> (forall a, P a -> Q a) -> post Q o.
Proof. destruct o; cbn; auto. Qed.

Lemma post_no_fuel {A} (P : A -> Prop) (o : outcome A) : post P o -> o <> OutOfFuel.
Proof. intros H E; subst; exact H. Qed.

Lemma bind_assoc {A B C} (o : outcome A) (g : A -> outcome B) (h : B -> outcome C) :
  bind (bind o g) h = bind o (fun x => bind (g x) h).
Proof. destruct o; reflexivity. Qed.

(* a token stream the parser can pull from for ever without getting stuck:
   no IStuck before the first error, and the last item (which pull repeats)
   is End *)
Inductive wfl : list item -> Prop :=
| wfl_nil : wfl []
| wfl_end t : ttyp t = TEnd -> wfl [ITok t]
| wfl_err e l : wfl (IErr e :: l)
| wfl_cons t l : l <> [] -> wfl l -> wfl (ITok t :: l).

Definition ne (t : token) : nat := match ttyp t with TEnd => 0 | _ => 1 end.

Lemma ne_le1 t : ne t <= 1.
Proof. unfold ne. destruct (ttyp t); lia. Qed.

(* the measure: number of non-End tokens the parser still has ahead *)
Definition tleft (st : pst) : nat := ne (curr st) + ne (next st) + pred (length (rest st)).
Definition wf (st : pst) : Prop := wfl (rest st).

Lemma ne_ct st : ct st <> TEnd -> ne (curr st) = 1.
Proof. unfold ct, ne. destruct (ttyp (curr st)); congruence. Qed.

Lemma is_true a b : is a b = true -> a = b.
Proof. unfold is, ttype_eqb. destruct (ttype_eq_dec a b); congruence. Qed.
Lemma negb_is_false a b : negb (is a b) = false -> a = b.
Proof. intros H. apply negb_false_iff in H. apply is_true, H. Qed.

Lemma pull_post l : wfl l ->
  post (fun tr => wfl (snd tr) /\ ne (fst tr) + pred (length (snd tr)) <= pred (length l)) (pull l).
Proof.
  intros H. destruct H as [|t Ht|e l|t l Hl H]; cbn [pull post snd fst].
  - split; [constructor|]. cbn. lia.
  - split; [constructor; assumption|]. unfold ne. rewrite Ht. cbn. lia.
  - exact I.
  - destruct l as [|i l]; [congruence|]. split; [assumption|].
    pose proof (ne_le1 t). cbn [length pred]. lia.
Qed.

Definition PA (st st' : pst) : Prop := wf st' /\ tleft st' + ne (curr st) <= tleft st.
Definition PA2 (st st' : pst) : Prop := wf st' /\ tleft st' + ne (curr st) + ne (next st) <= tleft st.
Definition LT (st st' : pst) : Prop := wf st' /\ tleft st' < tleft st.
Definition LE (st st' : pst) : Prop := wf st' /\ tleft st' <= tleft st.

Lemma advance_post st : wf st -> post (PA st) (advance st).
Proof.
  intros H. unfold advance. eapply post_bind; [apply pull_post, H|].
  intros [t r] [Hw Hl]. cbn [snd fst] in *. cbn [post]. unfold PA, wf, tleft. cbn [curr next rest].
  split; [assumption|lia].
Qed.

Lemma advance2_post st : wf st -> post (PA2 st) (advance2 st).
Proof.
  intros H. unfold advance2. eapply post_bind; [apply pull_post, H|].
  intros [t r] [Hw Hl]. cbn [snd fst] in *.
  eapply post_bind; [apply pull_post, Hw|].
  intros [t2 r2] [Hw2 Hl2]. cbn [snd fst] in *. cbn [post]. unfold PA2, wf, tleft. cbn [curr next rest].
  split; [assumption|lia].
Qed.

Lemma pqi_post x : post (fun _ => True) (parse_quoted_identifier x).
Proof. unfold parse_quoted_identifier. destruct (quoted_unescape _ _); exact I. Qed.

Lemma pjl_post x : post (fun _ => True) (parse_json_literal x).
Proof.
  unfold parse_json_literal. destruct (unescape_backticks (inner x)); [exact I|].
  match goal with |- post _ (match ?x with _ => _ end) => destruct x end; [|exact I].
  match goal with |- post _ (match ?x with _ => _ end) => destruct x end; exact I.
Qed.

(* ---- proof automation: walk through a monadic body ---- *)
Ltac nonend :=
  match goal with
  | E : ct ?s = _ |- ct ?s <> TEnd => rewrite E; discriminate
  end.

Ltac learn :=
  repeat match goal with
  | H : context [ne (curr ?s)] |- _ =>
    lazymatch goal with
    | K : ne (curr s) = 1 |- _ => fail
    | _ => assert (ne (curr s) = 1) by (apply ne_ct; nonend)
    end
  end.

Ltac side := first [assumption | nonend | (learn; lia)].

Ltac unf_in H := unfold PA, PA2, LT, LE in H; cbn [snd fst] in H.

Ltac finish :=
  unfold PA, PA2, LT, LE in *; cbn [snd fst] in *;
  first [exact I | split; [assumption | learn; lia]].

Ltac split_hyp H := lazymatch type of H with _ /\ _ => destruct H as [? ?] | _ => idtac end.

(* the lemma to use for a call; extended as lemmas become available *)
Ltac callee := fail.

Ltac norm E := try apply negb_is_false in E; try apply is_true in E.

Ltac go :=
  repeat first
  [ progress cbn [bind]
  | match goal with
    | |- post _ (Err _) => exact I
    | |- post _ (Panic _) => exact I
    | |- post _ (Ok _) => cbn [post]; finish
    | |- post _ (bind (bind _ _) _) => rewrite bind_assoc
    | |- post _ (bind (if ?c then _ else _) _) =>
        let E := fresh "E" in destruct c eqn:E; norm E
    | |- post _ (bind (match ?x with _ => _ end) _) =>
        let E := fresh "E" in destruct x eqn:E; cbn [snd fst] in *
    | |- post _ (if ?c then _ else _) =>
        let E := fresh "E" in destruct c eqn:E; norm E
    | |- post _ (match ?x with _ => _ end) =>
        let E := fresh "E" in destruct x eqn:E; cbn [snd fst] in *
    | |- post _ (bind _ _) =>
        eapply post_bind;
        [ callee
        | let a := fresh "a" in let HH := fresh "HH" in
          intros a HH; unf_in HH; split_hyp HH ]
    | |- post _ _ =>
        eapply post_mono;
        [ callee
        | let a := fresh "a" in let HH := fresh "HH" in
          intros a HH; unf_in HH; split_hyp HH; finish ]
    end ].

Ltac callee ::=
  first [ apply advance_post; solve [side]
        | apply advance2_post; solve [side]
        | apply pqi_post | apply pjl_post ].

(* parser.index: no recursion, only advances *)
Lemma index_post child st : wf st -> post (fun r => LE st (snd r)) (index child st).
Proof.
  intros Hw. unfold index, unexpected_curr, unexpected_next. cbv zeta. go.
Qed.

(* ---- one level of the recursion: [rec] is the parser at fuel f ---- *)
Definition fine (c : pcall) (st : pst) (r : option node * pst) : Prop :=
  LE st (snd r) /\ match c with CExpr _ => tleft (snd r) < tleft st | CCont _ _ => True end.

Section Level.
  Variable rec : pcall -> pst -> outcome (option node * pst).
  Variable f : nat.
  Hypothesis Hrec : forall c st, wf st -> tleft st < f -> post (fine c st) (rec c st).

  Lemma rec_expr p st : wf st -> tleft st < f -> post (fun r => LT st (snd r)) (rec (CExpr p) st).
  Proof.
    intros Hw Hf. eapply post_mono; [apply Hrec; assumption|].
    intros a [[H1 H2] H3]. split; assumption.
  Qed.

  Lemma rec_cont n p st : wf st -> tleft st < f -> post (fun r => LE st (snd r)) (rec (CCont n p) st).
  Proof.
    intros Hw Hf. eapply post_mono; [apply Hrec; assumption|].
    intros a [H1 _]. assumption.
  Qed.

  Lemma expr_post p st : wf st -> tleft st < f -> post (fun r => LT st (snd r)) (expr rec p st).
  Proof.
    intros Hw Hf. unfold expr. eapply post_bind; [apply rec_expr; assumption|].
    intros [[n|] st'] H; cbn [post]; [exact H|exact I].
  Qed.

  Ltac callee ::=
    first [ apply advance_post; solve [side]
          | apply advance2_post; solve [side]
          | apply pqi_post | apply pjl_post
          | apply expr_post; solve [side]
          | apply rec_cont; solve [side]
          | apply index_post; solve [side] ].

  Lemma projection_post p st : wf st -> tleft st < f -> post (fun r => LE st (snd r)) (projection rec p st).
  Proof. intros Hw Hf. unfold projection. go. Qed.

  Lemma filter_post st : wf st -> tleft st < f -> post (fun r => LT st (snd r)) (filter rec st).
  Proof. intros Hw Hf. unfold filter, unexpected_curr. go. Qed.

  Ltac callee ::=
    first [ apply advance_post; solve [side]
          | apply advance2_post; solve [side]
          | apply pqi_post | apply pjl_post
          | apply expr_post; solve [side]
          | apply rec_cont; solve [side]
          | apply index_post; solve [side]
          | apply projection_post; solve [side]
          | apply filter_post; solve [side]
          | match goal with IH : forall _, _ |- _ => apply IH; solve [side] end ].

  Lemma select_array_loop_post : forall k child fields st,
    wf st -> tleft st < f -> tleft st < k ->
    post (fun r => LT st (snd r)) (select_array_loop rec k child fields st).
  Proof.
    induction k as [|k IH]; intros child fields st Hw Hf Hk; [lia|].
    cbn [select_array_loop]. unfold unexpected_curr. go.
  Qed.

  Lemma select_object_loop_post : forall k child fields st,
    wf st -> tleft st < f -> tleft st < k ->
    post (fun r => LT st (snd r)) (select_object_loop rec k child fields st).
  Proof.
    induction k as [|k IH]; intros child fields st Hw Hf Hk; [lia|].
    cbn [select_object_loop]. unfold unexpected_curr, unexpected_next. go.
  Qed.

  Lemma let_loop_post : forall k vars st,
    wf st -> tleft st < f -> tleft st < k ->
    post (fun r => LT st (snd r)) (let_loop rec k vars st).
  Proof.
    induction k as [|k IH]; intros vars st Hw Hf Hk; [lia|].
    cbn [let_loop]. unfold unexpected_curr, unexpected_next. cbv zeta. go.
  Qed.

  Lemma var_args_loop_post : forall k acc st,
    wf st -> tleft st < f -> tleft st < k ->
    post (fun r => LT st (snd r)) (var_args_loop rec k acc st).
  Proof.
    induction k as [|k IH]; intros acc st Hw Hf Hk; [lia|].
    cbn [var_args_loop]. unfold unexpected_curr. cbv zeta. go.
  Qed.

  Lemma end_args_post name st : wf st -> post (LT st) (end_args name st).
  Proof. intros Hw. unfold end_args, unexpected_curr. go. Qed.
  Lemma need_comma_post name st : wf st -> post (LT st) (need_comma name st).
  Proof. intros Hw. unfold need_comma, unexpected_curr. go. Qed.
  Lemma opt_more_post st : wf st -> post (fun r => LT st (snd r)) (opt_more st).
  Proof. intros Hw. unfold opt_more, unexpected_curr. go. Qed.

  Ltac callee ::=
    first [ apply advance_post; solve [side]
          | apply advance2_post; solve [side]
          | apply pqi_post | apply pjl_post
          | apply expr_post; solve [side]
          | apply rec_cont; solve [side]
          | apply index_post; solve [side]
          | apply projection_post; solve [side]
          | apply filter_post; solve [side]
          | apply select_array_loop_post; solve [side]
          | apply select_object_loop_post; solve [side]
          | apply let_loop_post; solve [side]
          | apply var_args_loop_post; solve [side]
          | apply end_args_post; solve [side]
          | apply need_comma_post; solve [side]
          | apply opt_more_post; solve [side] ].

  Lemma let_post st : wf st -> tleft st < f -> post (fun r => LT st (snd r)) (let_ rec f st).
  Proof. intros Hw Hf. unfold let_. go. Qed.

  Lemma parse_args_post ap name st : wf st -> tleft st < f ->
    post (fun r => LT st (snd r)) (parse_args rec f ap name st).
  Proof.
    intros Hw Hf. unfold parse_args, check_not_close, unexpected_curr. go.
  Qed.

  Lemma wrap_slice_projection_post n project st : wf st -> tleft st < f ->
    post (fun r => LE st (snd r)) (wrap_slice_projection rec n project st).
  Proof. intros Hw Hf. unfold wrap_slice_projection. go. Qed.

  Ltac callee ::=
    first [ apply advance_post; solve [side]
          | apply advance2_post; solve [side]
          | apply pqi_post | apply pjl_post
          | apply expr_post; solve [side]
          | apply rec_cont; solve [side]
          | apply index_post; solve [side]
          | apply projection_post; solve [side]
          | apply filter_post; solve [side]
          | apply select_array_loop_post; solve [side]
          | apply select_object_loop_post; solve [side]
          | apply let_post; solve [side]
          | apply parse_args_post; solve [side]
          | apply wrap_slice_projection_post; solve [side] ].

  Lemma function_post st : wf st -> tleft st <= f -> ct st <> TEnd ->
    post (fun r => LT st (snd r)) (function rec f st).
  Proof.
    intros Hw Hf Hc. assert (Hn : ne (curr st) = 1) by (apply ne_ct, Hc).
    unfold function. cbv zeta. go.
  Qed.

  Ltac callee ::=
    first [ apply advance_post; solve [side]
          | apply advance2_post; solve [side]
          | apply pqi_post | apply pjl_post
          | apply expr_post; solve [side]
          | apply rec_cont; solve [side]
          | apply index_post; solve [side]
          | apply projection_post; solve [side]
          | apply filter_post; solve [side]
          | apply select_array_loop_post; solve [side]
          | apply select_object_loop_post; solve [side]
          | apply let_post; solve [side]
          | apply wrap_slice_projection_post; solve [side]
          | apply function_post; solve [side] ].

  (* parser.primaryExpression consumes at least one token *)
  Lemma primary_post st : wf st -> tleft st <= f ->
    post (fun r => LT st (snd r)) (primary rec f st).
  Proof.
    intros Hw Hf. unfold primary, select_array, select_object, unexpected_curr. cbv zeta.
    destruct (ct st) eqn:Ec; go.
  Qed.

  Definition PC (st : pst) (r : option (node * pst)) : Prop :=
    match r with Some p => LT st (snd p) | None => True end.

  (* one iteration of parser.continuation consumes at least one token, or ends the loop *)
  Lemma cont_step_post node p st : wf st -> tleft st <= f ->
    post (PC st) (cont_step rec f node p st).
  Proof.
    intros Hw Hf. unfold cont_step, select_array, select_object, unexpected_curr. cbv zeta.
    destruct (ct st) eqn:Ec; cbn [bin_of]; unfold PC; go.
  Qed.

  Lemma run_body_post c st : wf st -> tleft st <= f -> post (fine c st) (run_body rec f c st).
  Proof.
    intros Hw Hf. destruct c as [prec|node prec]; cbn [run_body].
    - eapply post_bind; [apply primary_post; assumption|].
      intros [n st1] [Hw1 Hl1]. cbn [snd] in *.
      eapply post_mono; [apply rec_cont; [assumption|lia]|].
      intros [n2 st2] [Hw2 Hl2]. unfold fine, LE. cbn [snd] in *.
      repeat split; [assumption|lia|lia].
    - destruct (precedence (ct st) >? prec); [|cbn; unfold fine, LE; cbn [snd]; auto].
      eapply post_bind; [apply cont_step_post; assumption|].
      intros [[n st1]|] H.
      + destruct H as [Hw1 Hl1]. cbn [snd] in *.
        eapply post_mono; [apply rec_cont; [assumption|lia]|].
        intros [n2 st2] [Hw2 Hl2]. unfold fine, LE. cbn [snd] in *.
        repeat split; [assumption|lia].
      + cbn. unfold fine, LE. cbn [snd]. auto.
  Qed.
End Level.

(* the invariant: fuel strictly above the number of tokens ahead is enough, no
   call gives tokens back, and parser.expression consumes at least one *)
Lemma run_post : forall fuel c st, wf st -> tleft st < fuel -> post (fine c st) (run fuel c st).
Proof.
  induction fuel as [|f IH]; intros c st Hw Hf; [lia|].
  cbn [run]. apply run_body_post; [exact IH|assumption|lia].
Qed.

Theorem run_no_fuel : forall fuel c st, wf st -> tleft st < fuel -> run fuel c st <> OutOfFuel.
Proof. intros. eapply post_no_fuel, run_post; assumption. Qed.

Theorem run_consumes : forall fuel p st n st', wf st ->
  run fuel (CExpr p) st = Ok (n, st') -> tleft st < fuel -> tleft st' < tleft st.
Proof.
  intros fuel p st n st' Hw E Hf. pose proof (run_post fuel (CExpr p) st Hw Hf) as H.
  rewrite E in H. destruct H as [_ H]. exact H.
Qed.

Lemma parse_items_post fuel items : wfl items -> pred (length items) < fuel ->
  post (fun _ => True) (parse_items fuel items).
Proof.
  intros Hw Hf. unfold parse_items.
  eapply post_bind; [apply pull_post, Hw|]. intros [t1 r1] [Hw1 Hl1]. cbn [snd fst] in *.
  eapply post_bind; [apply pull_post, Hw1|]. intros [t2 r2] [Hw2 Hl2]. cbn [snd fst] in *.
  eapply post_bind; [apply run_post|].
  - exact Hw2.
  - unfold tleft. cbn [curr next rest]. lia.
  - intros [[n|] st'] _; [|exact I]. destruct (negb _); exact I.
Qed.

Lemma wfl_shape toks last :
  (last = ITok (Tok TEnd []) \/ exists e, last = IErr e) -> wfl (map ITok toks ++ [last]).
Proof.
  intros H. induction toks as [|t toks IH]; cbn [map app].
  - destruct H as [H|[e H]]; subst; constructor. reflexivity.
  - constructor; [|assumption]. destruct (map ITok toks); discriminate.
Qed.

Lemma lex_all_wfl s : wfl (lex_all s) /\ pred (length (lex_all s)) <= length s.
Proof.
  destruct (lex_all_shape s) as (toks & last & E & L & _ & Hl). rewrite E. split.
  - apply wfl_shape, L.
  - rewrite app_length, map_length. cbn [length]. lia.
Qed.

(* any fuel above the byte length is enough ... *)
Theorem parse_items_no_fuel : forall s fuel, length s < fuel ->
  parse_items fuel (lex_all s) <> OutOfFuel.
Proof.
  intros s fuel Hf. destruct (lex_all_wfl s) as [Hw Hl].
  eapply post_no_fuel, parse_items_post; [assumption|lia].
Qed.

(* ... in particular the model's 4 * length s + 16 *)
Theorem parse_no_fuel : forall s, parse s <> OutOfFuel.
Proof. intros s. unfold parse, parse_fuel. apply parse_items_no_fuel. lia. Qed.

(* the linear bound length s + 1 is the smallest that works for all inputs:
   with fuel = length s the one-byte expression "a" already runs out *)
Lemma parse_items_tight : parse_items 1 (lex_all [97%Z]) = OutOfFuel.
Proof. vm_compute. reflexivity. Qed.

Print Assumptions lex_next_progress.
Print Assumptions lex_next_no_fuel.
Print Assumptions lex_all_no_stuck.
Print Assumptions lex_all_shape.
Print Assumptions parse_no_fuel.
