(* Theory of the stable insertion sort of Model/Array.v:
   permutation, sortedness, stability, and uniqueness (the three properties
   characterise the result independently of the algorithm). *)
From Coq Require Import List Bool Arith Lia Permutation Sorted.
From JM Require Import Base.Outcome Base.Bytes Model.Array.
Import ListNotations.

Lemma filter_all_false : forall (A : Type) (p : A -> bool) (l : list A),
  (forall z, In z l -> p z = false) -> filter p l = [].
Proof.
  intros A p l. induction l as [|a l IH]; intros H; simpl; auto.
  rewrite (H a (or_introl eq_refl)). apply IH. intros z Hz. apply H. right; exact Hz.
Qed.

Lemma StronglySorted_map : forall (A B : Type) (f : A -> B) (R : B -> B -> Prop) (l : list A),
  StronglySorted (fun a b => R (f a) (f b)) l -> StronglySorted R (map f l).
Proof.
  intros A B f R l H. induction H as [|a l Hs IH Hf]; simpl.
  - constructor.
  - constructor; auto. rewrite Forall_forall in *. intros y Hy.
    apply in_map_iff in Hy. destruct Hy as [z [<- Hz]]. apply Hf; exact Hz.
Qed.

Section SortTheory.
  Context {A : Type} (le : A -> A -> bool).

  Definition leP (x y : A) : Prop := le x y = true.
  Definition equiv (x y : A) : bool := le x y && le y x.

  Local Notation ins := (fun acc x => insert_after le x acc).

  (* ---------- permutation (needs no hypothesis on le) ---------- *)

  Lemma insert_after_perm : forall x l, Permutation (insert_after le x l) (x :: l).
  Proof.
    intros x l. induction l as [|y r IH]; simpl.
    - apply Permutation_refl.
    - destruct (le y x).
      + eapply Permutation_trans; [apply perm_skip; exact IH | apply perm_swap].
      + apply Permutation_refl.
  Qed.

  Lemma fold_insert_perm : forall l acc,
    Permutation (fold_left ins l acc) (acc ++ l).
  Proof.
    induction l as [|a l IH]; intros acc; simpl.
    - rewrite app_nil_r. apply Permutation_refl.
    - eapply Permutation_trans; [apply IH|].
      eapply Permutation_trans; [apply Permutation_app_tail; apply insert_after_perm|].
      simpl. apply Permutation_middle.
  Qed.

  Theorem stable_sort_perm : forall l, Permutation (stable_sort le l) l.
  Proof. intros l. unfold stable_sort. apply (fold_insert_perm l []). Qed.

  Lemma stable_sort_length : forall l, length (stable_sort le l) = length l.
  Proof. intros l. apply Permutation_length. apply stable_sort_perm. Qed.

  Lemma stable_sort_in : forall l x, In x (stable_sort le l) <-> In x l.
  Proof.
    intros l x; split; apply Permutation_in;
      [apply stable_sort_perm | apply Permutation_sym, stable_sort_perm].
  Qed.

  (* ---------- sortedness ---------- *)

  Hypothesis le_total : forall x y, le x y = true \/ le y x = true.
  Hypothesis le_trans : forall x y z, le x y = true -> le y z = true -> le x z = true.

  Lemma le_refl : forall x, le x x = true.
  Proof. intros x. destruct (le_total x x); assumption. Qed.

  Lemma insert_after_sorted : forall x l,
    StronglySorted leP l -> StronglySorted leP (insert_after le x l).
  Proof.
    intros x l H. induction H as [|y r Hs IH Hf]; simpl.
    - constructor; constructor.
    - destruct (le y x) eqn:E.
      + constructor; [exact IH|].
        eapply Permutation_Forall; [apply Permutation_sym, insert_after_perm|].
        constructor; [exact E | exact Hf].
      + assert (Hxy : le x y = true).
        { destruct (le_total x y) as [H|H]; [exact H | congruence]. }
        constructor.
        * constructor; assumption.
        * constructor; [exact Hxy|].
          rewrite Forall_forall in *. intros z Hz. unfold leP.
          eapply le_trans; [exact Hxy | apply Hf; exact Hz].
  Qed.

  Lemma fold_insert_sorted : forall l acc,
    StronglySorted leP acc -> StronglySorted leP (fold_left ins l acc).
  Proof.
    induction l as [|a l IH]; intros acc H; simpl; auto.
    apply IH. apply insert_after_sorted. exact H.
  Qed.

  Theorem stable_sort_sorted : forall l, StronglySorted leP (stable_sort le l).
  Proof. intros l. apply fold_insert_sorted. constructor. Qed.

  Corollary stable_sort_Sorted : forall l, Sorted leP (stable_sort le l).
  Proof. intros l. apply StronglySorted_Sorted. apply stable_sort_sorted. Qed.

  (* ---------- stability ---------- *)

  Lemma insert_after_filter : forall k x l,
    StronglySorted leP l ->
    filter (fun y => equiv k y) (insert_after le x l)
    = filter (fun y => equiv k y) l ++ (if equiv k x then [x] else []).
  Proof.
    intros k x l H. induction H as [|y r Hs IH Hf].
    - simpl. destruct (equiv k x); reflexivity.
    - cbn [insert_after]. destruct (le y x) eqn:E.
      + cbn [filter]. rewrite IH. destruct (equiv k y); reflexivity.
      + destruct (equiv k x) eqn:Ek.
        * (* everything in y :: r is strictly above x, hence not equivalent to k *)
          assert (Hnone : forall z, In z (y :: r) -> equiv k z = false).
          { intros z Hz.
            assert (Hyz : le y z = true).
            { destruct Hz as [<-|Hz]; [apply le_refl|].
              rewrite Forall_forall in Hf. apply Hf; exact Hz. }
            destruct (equiv k z) eqn:Ez; [|reflexivity].
            unfold equiv in Ek, Ez.
            apply andb_true_iff in Ek. destruct Ek as [Ekx Exk].
            apply andb_true_iff in Ez. destruct Ez as [Ekz Ezk].
            assert (le y x = true).
            { eapply le_trans; [exact Hyz|]. eapply le_trans; [exact Ezk | exact Ekx]. }
            congruence. }
          revert Hnone. generalize (y :: r). intros yr Hnone.
          cbn [filter]. rewrite Ek. rewrite (filter_all_false _ (fun y0 => equiv k y0) _ Hnone). reflexivity.
        * generalize (y :: r). intros yr.
          cbn [filter]. rewrite Ek. rewrite app_nil_r. reflexivity.
  Qed.

  Lemma fold_insert_filter : forall k l acc,
    StronglySorted leP acc ->
    filter (fun y => equiv k y) (fold_left ins l acc)
    = filter (fun y => equiv k y) acc ++ filter (fun y => equiv k y) l.
  Proof.
    intros k. induction l as [|a l IH]; intros acc H; simpl.
    - rewrite app_nil_r. reflexivity.
    - rewrite IH by (apply insert_after_sorted; exact H).
      rewrite insert_after_filter by exact H.
      rewrite <- app_assoc. destruct (equiv k a); reflexivity.
  Qed.

  Theorem stable_sort_stable : forall l x,
    filter (fun y => equiv x y) (stable_sort le l) = filter (fun y => equiv x y) l.
  Proof.
    intros l x. unfold stable_sort.
    rewrite fold_insert_filter by constructor. reflexivity.
  Qed.

  (* ---------- uniqueness ---------- *)

  Lemma sorted_stable_unique : forall l1 l2,
    StronglySorted leP l1 -> StronglySorted leP l2 ->
    Permutation l1 l2 ->
    (forall x, filter (fun y => equiv x y) l1 = filter (fun y => equiv x y) l2) ->
    l1 = l2.
  Proof.
    induction l1 as [|a l1 IH]; intros l2 H1 H2 HP HF.
    - apply Permutation_nil in HP. symmetry; exact HP.
    - destruct l2 as [|b l2].
      + apply Permutation_sym, Permutation_nil in HP. discriminate.
      + inversion H1 as [|? ? Hs1 Hf1]; subst.
        inversion H2 as [|? ? Hs2 Hf2]; subst.
        rewrite Forall_forall in Hf1, Hf2.
        assert (Hab : le a b = true).
        { assert (In b (a :: l1)) as [<-|Hi]
            by (eapply Permutation_in; [apply Permutation_sym; exact HP | left; reflexivity]).
          - apply le_refl.
          - apply Hf1; exact Hi. }
        assert (Hba : le b a = true).
        { assert (In a (b :: l2)) as [<-|Hi]
            by (eapply Permutation_in; [exact HP | left; reflexivity]).
          - apply le_refl.
          - apply Hf2; exact Hi. }
        assert (Heq : a = b).
        { specialize (HF a). cbn [filter] in HF.
          assert (Eaa : equiv a a = true) by (unfold equiv; rewrite le_refl; reflexivity).
          assert (Eab : equiv a b = true) by (unfold equiv; rewrite Hab, Hba; reflexivity).
          rewrite Eaa, Eab in HF. congruence. }
        subst b. f_equal. apply IH; auto.
        * eapply Permutation_cons_inv; exact HP.
        * intros x. specialize (HF x). cbn [filter] in HF.
          destruct (equiv x a); [congruence | exact HF].
  Qed.

  Theorem stable_sort_unique : forall l l',
    Permutation l' l -> StronglySorted leP l' ->
    (forall x, filter (fun y => equiv x y) l' = filter (fun y => equiv x y) l) ->
    l' = stable_sort le l.
  Proof.
    intros l l' HP HS HF. apply sorted_stable_unique.
    - exact HS.
    - apply stable_sort_sorted.
    - eapply Permutation_trans; [exact HP | apply Permutation_sym, stable_sort_perm].
    - intros x. rewrite stable_sort_stable. apply HF.
  Qed.

End SortTheory.

(* ---------- decorated sorts (sort_by) ---------- *)

Lemma stable_sort_keys_sorted : forall (B K : Type) (lek : K -> K -> bool),
  (forall x y, lek x y = true \/ lek y x = true) ->
  (forall x y z, lek x y = true -> lek y z = true -> lek x z = true) ->
  forall l : list (B * K),
    StronglySorted (fun a b => lek a b = true)
      (map snd (stable_sort (fun x y => lek (snd x) (snd y)) l)).
Proof.
  intros B K lek Htot Htr l.
  apply StronglySorted_map.
  apply (stable_sort_sorted (fun x y : B * K => lek (snd x) (snd y))).
  - intros x y. apply Htot.
  - intros x y z. apply Htr.
Qed.

Lemma stable_sort_fst_perm : forall (B K : Type) (lek : K -> K -> bool) (l : list (B * K)),
  Permutation (map fst (stable_sort (fun x y => lek (snd x) (snd y)) l)) (map fst l).
Proof. intros. apply Permutation_map. apply stable_sort_perm. Qed.

Lemma stable_sort_snd_perm : forall (B K : Type) (lek : K -> K -> bool) (l : list (B * K)),
  Permutation (map snd (stable_sort (fun x y => lek (snd x) (snd y)) l)) (map snd l).
Proof. intros. apply Permutation_map. apply stable_sort_perm. Qed.

Check @stable_sort_perm.
Check @stable_sort_length.
Check @stable_sort_sorted.
Check @stable_sort_Sorted.
Check @stable_sort_stable.
Check @stable_sort_unique.
Check @stable_sort_keys_sorted.
Check @stable_sort_fst_perm.
Print Assumptions stable_sort_unique.
Print Assumptions stable_sort_keys_sorted.
