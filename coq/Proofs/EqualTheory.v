(* C20: equality (==, !=, contains) is a deep, type-strict equivalence and
   truthiness is one uniform rule.

   Summary of what is proved about the model [equal] of Model/Compare.v:
   - [equal_type_strict]  values of different JSON types are never equal;
   - [equal_trans]        transitivity holds for ALL values, no hypothesis;
   - [equal_sym]          symmetry holds for all well-formed values (unique keys);
   - [equal_refl_iff]     on a JSON value x, equal x x = true  IFF  every number
                          leaf of x decodes (parse_dec succeeds).  Reflexivity is
                          therefore FALSE in general: the JSON document 1e7000
                          is not equal to itself ([equal_refl_refuted]);
   - [equal_obj_perm]     object comparison ignores member order;
   - numbers compare by decimal value ([equal_numbers], [equal_spellings]);
   - [ne_is_negation], [contains_uses_equal];
   - truthiness: [is_true_false_iff] and the four users of is_true. *)
From Coq Require Import List ZArith Bool Lia Permutation Arith.
From JM Require Import Base.Outcome Base.Bytes Num.Dec Num.Flt Json.Value
  Model.Ast Model.Compare Model.Array Model.Eval Proofs.DecTheory.
Import ListNotations.
Open Scope Z_scope.

(* ------------------------------------------------------------------ *)
(* Induction principle for the nested type [value]                     *)
(* ------------------------------------------------------------------ *)
Section ValueInd.
  Variable P : value -> Prop.
  Hypothesis HNull : P VNull.
  Hypothesis HBool : forall b, P (VBool b).
  Hypothesis HStr : forall s, P (VStr s).
  Hypothesis HNum : forall n, P (VNum n).
  Hypothesis HArr : forall l, Forall P l -> P (VArr l).
  Hypothesis HObj : forall m, Forall (fun kv => P (snd kv)) m -> P (VObj m).
  Hypothesis HForeign : forall t, P (VForeign t).
  Fixpoint value_ind' (v : value) : P v :=
    match v with
    | VNull => HNull
    | VBool b => HBool b
    | VStr s => HStr s
    | VNum n => HNum n
    | VArr l =>
      HArr l ((fix go (l : list value) : Forall P l :=
                 match l with
                 | [] => Forall_nil P
                 | x :: r => Forall_cons x (value_ind' x) (go r)
                 end) l)
    | VObj m =>
      HObj m ((fix go (m : list (bytes * value)) : Forall (fun kv => P (snd kv)) m :=
                 match m with
                 | [] => Forall_nil _
                 | (k, x) :: r => Forall_cons (P := fun kv => P (snd kv)) (k, x) (value_ind' x) (go r)
                 end) m)
    | VForeign t => HForeign t
    end.
End ValueInd.

(* ------------------------------------------------------------------ *)
(* 2. type strictness                                                   *)
(* ------------------------------------------------------------------ *)
Definition jtype (v : value) : nat :=
  match v with
  | VNull => 0 | VBool _ => 1 | VStr _ => 2 | VNum _ => 3
  | VArr _ => 4 | VObj _ => 5 | VForeign _ => 6
  end%nat.

Lemma equal_num_l : forall n y,
  equal (VNum n) y =
  match to_decimal (VNum n) with
  | Some a => match to_decimal y with Some b => dec_equal a b | None => false end
  | None => false
  end.
Proof. reflexivity. Qed.

Lemma to_decimal_some : forall y d, to_decimal y = Some d -> exists n, y = VNum n.
Proof. intros y d; destruct y; simpl; try discriminate; eauto. Qed.

Lemma equal_num_inv : forall n y, equal (VNum n) y = true ->
  exists n' a b, y = VNum n' /\ to_decimal (VNum n) = Some a /\ to_decimal (VNum n') = Some b /\
                 dec_equal a b = true.
Proof.
  intros n y H. rewrite equal_num_l in H.
  destruct (to_decimal (VNum n)) as [a|] eqn:E1; [|discriminate].
  destruct (to_decimal y) as [b|] eqn:E2; [|discriminate].
  destruct (to_decimal_some _ _ E2) as [n' ->]. exists n', a, b. auto.
Qed.

Theorem equal_type_strict : forall x y, equal x y = true -> jtype x = jtype y.
Proof.
  intros x y H. destruct x.
  - destruct y; simpl in H; try discriminate H; reflexivity.
  - destruct y; simpl in H; try discriminate H; reflexivity.
  - destruct y; simpl in H; try discriminate H; reflexivity.
  - apply equal_num_inv in H as (n' & a & b & -> & _). reflexivity.
  - destruct y; try (simpl in H; discriminate H); reflexivity.
  - destruct y; try (simpl in H; discriminate H); reflexivity.
  - simpl in H; discriminate H.
Qed.

(* ------------------------------------------------------------------ *)
(* 5. != is the exact negation; contains uses the same relation         *)
(* ------------------------------------------------------------------ *)
Theorem ne_is_negation : forall l r,
  binop_eval ONe l r = Ok (VBool (negb (equal l r))) /\ binop_eval OEq l r = Ok (VBool (equal l r)).
Proof. intros; split; reflexivity. Qed.

Theorem contains_uses_equal : forall l y,
  contains (VArr l) y = Ok (VBool (existsb (fun x => equal x y) l)).
Proof. reflexivity. Qed.

(* ------------------------------------------------------------------ *)
(* 6. truthiness                                                        *)
(* ------------------------------------------------------------------ *)
Theorem is_true_false_iff : forall v, json_value v = true ->
  (is_true v = false <->
   v = VNull \/ v = VBool false \/ v = VStr [] \/ v = VArr [] \/ v = VObj []).
Proof.
  intros v J. destruct v as [ | b | s | n | l | m | t].
  - simpl; split; auto.
  - destruct b; simpl; split; intros H; auto; try discriminate H.
    repeat (destruct H as [H|H]; try discriminate H).
  - destruct s; simpl; split; intros H; auto; try discriminate H.
    repeat (destruct H as [H|H]; try discriminate H).
  - destruct n as [t | | | ]; try discriminate J.
    destruct t as [|b t]; [discriminate J|]. simpl. split; intros H; [discriminate H|].
    repeat (destruct H as [H|H]; try discriminate H).
  - destruct l; simpl; split; intros H; auto 6; try discriminate H.
    repeat (destruct H as [H|H]; try discriminate H).
  - destruct m; simpl; split; intros H; auto 6; try discriminate H.
    repeat (destruct H as [H|H]; try discriminate H).
  - discriminate J.
Qed.

(* zero is true-like, unlike in many languages *)
Example zero_is_true : is_true (VNum (NJson [48])) = true /\ is_true (VNum (NJson [48;46;48])) = true.
Proof. split; reflexivity. Qed.

(* ------------------------------------------------------------------ *)
(* 7. !, &&, || and filters use that one rule                           *)
(* ------------------------------------------------------------------ *)
Theorem not_uses_is_true : forall root c cur vars x,
  eval root c cur vars = Ok x -> eval root (NNot c) cur vars = Ok (VBool (negb (is_true x))).
Proof. intros root c cur vars x H. cbn [eval]. rewrite H. reflexivity. Qed.

Theorem and_returns_operand : forall root l r cur vars x,
  eval root l cur vars = Ok x ->
  eval root (NAnd l r) cur vars = if is_true x then eval root r cur vars else Ok x.
Proof. intros root l r cur vars x H. cbn [eval]. rewrite H. simpl bind. destruct (is_true x); reflexivity. Qed.

Theorem or_returns_operand : forall root l r cur vars x,
  eval root l cur vars = Ok x ->
  eval root (NOr l r) cur vars = if is_true x then Ok x else eval root r cur vars.
Proof. intros root l r cur vars x H. cbn [eval]. rewrite H. reflexivity. Qed.

Theorem filter_uses_is_true : forall pred v r, filter_list pred [v] = Ok r ->
  exists f, pred v = Ok f /\ r = (if negb (is_null v) && is_true f then [v] else []).
Proof.
  intros pred v r H. simpl in H. destruct (pred v) as [f| | | |] eqn:E; simpl in H; try discriminate H.
  exists f. split; [reflexivity|]. inversion H. reflexivity.
Qed.

(* ------------------------------------------------------------------ *)
(* 0. JSON number text denotes an ordered decimal whenever it decodes   *)
(* ------------------------------------------------------------------ *)
Lemma drop_digits_nonneg : forall c k, 0 <= c -> 0 <= drop_digits c k.
Proof.
  intros c k Hc. unfold drop_digits.
  assert (Hq : 0 <= c / pow10 k).
  { unfold pow10. destruct (Z.eq_dec (10 ^ k) 0) as [E|E].
    - rewrite E, Zdiv_0_r. lia.
    - apply Z.div_pos; [exact Hc|]. pose proof (Z.pow_nonneg 10 k ltac:(lia)). lia. }
  cbv zeta. destruct (_ >? _); [lia|]. destruct (_ =? _); [destruct (Z.even _); lia | exact Hq].
Qed.

Lemma round_coef_nonneg : forall c e c' e', 0 <= c -> round_coef c e = (c', e') -> 0 <= c'.
Proof.
  intros c e c' e' Hc. unfold round_coef. cbv zeta.
  destruct (digits c <=? prec34); [intros H; inversion H; subst; exact Hc|].
  destruct (_ >? _); intros H; inversion H; subst.
  - apply Z.div_pos; [apply drop_digits_nonneg; exact Hc | lia].
  - apply drop_digits_nonneg; exact Hc.
Qed.

(* rounding never produces NaN or a negative coefficient *)
Lemma fit_ok : forall neg c e, 0 <= c -> dec_ok (fit neg c e).
Proof.
  intros neg c e Hc. unfold fit.
  destruct (round_coef c e) as [c' e'] eqn:R. apply round_coef_nonneg in R; [|exact Hc].
  destruct (c' =? 0); [unfold dec_ok; lia|].
  destruct (e' >? emax).
  { cbv zeta. destruct (_ <=? _); unfold dec_ok; [|exact I].
    apply Z.mul_nonneg_nonneg; [exact R|]. unfold pow10. apply Z.pow_nonneg. lia. }
  destruct (e' <? emin).
  { cbv zeta. destruct (_ >? _); unfold dec_ok; [lia | apply drop_digits_nonneg; exact R]. }
  unfold dec_ok. exact R.
Qed.

Lemma take_digits_nonneg : forall s acc n a m r,
  0 <= acc -> take_digits s acc n = (a, m, r) -> 0 <= a.
Proof.
  induction s as [|b s IH]; intros acc n a m r Hacc; simpl.
  - intros H; inversion H; subst; exact Hacc.
  - destruct (is_digit b) eqn:D.
    + apply IH. unfold is_digit in D. apply andb_true_iff in D as [D1 D2].
      apply Z.leb_le in D1. lia.
    + intros H; inversion H; subst; exact Hacc.
Qed.

Lemma frac_nonneg : forall ip ni r1 c nf nd r2, 0 <= ip ->
  match r1 with
  | 46 :: r => let '(fp, nfr, r') := take_digits r ip 0 in (fp, nfr, ni + nfr, r')
  | _ => (ip, 0, ni, r1)
  end = (c, nf, nd, r2) -> 0 <= c.
Proof.
  intros ip ni r1 c nf nd r2 Hip.
  destruct r1 as [|[|p|p] r]; try (intros H; inversion H; subst; exact Hip).
  do 6 (destruct p as [p|p|]; try (intros H; inversion H; subst; exact Hip)).
  destruct (take_digits r ip 0) as [[fp nfr] r'] eqn:T. intros H; inversion H; subst.
  eapply take_digits_nonneg; eauto.
Qed.

(* parse_dec_body yields NaN only for the literal text "nan" (any case) *)
Lemma parse_dec_body_ok : forall neg s d, parse_dec_body neg s = Some d ->
  dec_ok d \/ (d = DNaN /\ map lower_byte s = [110; 97; 110]).
Proof.
  intros neg s d. unfold parse_dec_body. cbv zeta.
  destruct (_ || _); [intros H; inversion H; left; exact I|].
  destruct (beqb (map lower_byte s) [110; 97; 110]) eqn:EN;
    [intros H; inversion H; right; split; [reflexivity | apply beqb_eq; exact EN]|].
  destruct (take_digits s 0 0) as [[ip ni] r1] eqn:T1.
  assert (Hip : 0 <= ip) by (eapply take_digits_nonneg; [|exact T1]; lia).
  match goal with
  | |- context [match ?T with pair _ _ => _ end] =>
    match T with context [r1] => destruct T as [[[c nf] nd] r2] eqn:T2 end
  end.
  assert (HF : 0 <= c) by (eapply (frac_nonneg ip ni r1); [exact Hip | exact T2]).
  destruct (nd =? 0); [discriminate|].
  destruct r2 as [|b2 r]; [intros H; inversion H; left; apply fit_ok; exact HF|].
  destruct ((b2 =? 101) || (b2 =? 69)); [|discriminate].
  match goal with |- (let '(eneg, r') := ?T in _) = _ -> _ => destruct T as [eneg r'] end.
  destruct (take_digits r' 0 0) as [[ev ne] r''].
  destruct (_ || _); [discriminate|].
  destruct (ne >? 8).
  - destruct (c =? 0); [intros H; inversion H; left; unfold dec_ok; lia|].
    destruct eneg; [intros H; inversion H; left; unfold dec_ok; lia | discriminate].
  - match goal with |- match ?F with _ => _ end = _ -> _ =>
      pose proof (fit_ok neg c ((if eneg then - ev else ev) - nf) HF) as HO; destruct F end;
      intros H; inversion H; subst; left; exact HO.
Qed.

Lemma parse_dec_alt : forall s, parse_dec s =
  match s with
  | [] => None
  | b :: r =>
    if b =? 43 then (match r with [] => None | _ => parse_dec_body false r end)
    else if b =? 45 then (match r with [] => None | _ => parse_dec_body true r end)
    else parse_dec_body false s
  end.
Proof.
  intros s. destruct s as [|[|p|p] r]; try reflexivity.
  do 6 (destruct p as [p|p|]; try reflexivity).
Qed.

Lemma nan_text_not_json : forall s, map lower_byte s = [110; 97; 110] ->
  json_number_ok s = false /\ json_number_ok (45 :: s) = false.
Proof.
  intros s H. destruct s as [|a [|b [|c [|? ?]]]]; try discriminate H.
  inversion H as [[Ha Hb Hc]].
  assert (Ea : a = 110 \/ a = 78).
  { unfold lower_byte in Ha. destruct ((65 <=? a) && (a <=? 90)); [right | left]; lia. }
  destruct Ea; subst a; split; reflexivity.
Qed.

(* item 0, first half: whenever the text of a JSON number decodes, the result is
   an ordered decimal (never NaN; an infinity is possible only through overflow
   of an exponent-free literal, see below) *)
Lemma json_number_dec_ok : forall t d,
  json_number_ok t = true -> parse_dec t = Some d -> dec_ok d.
Proof.
  intros t d J. rewrite parse_dec_alt. destruct t as [|b r]; [discriminate|].
  destruct (b =? 43) eqn:E43.
  { apply Z.eqb_eq in E43; subst b.
    assert (F : json_number_ok (43 :: r) = false) by reflexivity. congruence. }
  destruct (b =? 45) eqn:E45.
  { apply Z.eqb_eq in E45; subst b. destruct r as [|b' r']; [discriminate|].
    intros H. apply parse_dec_body_ok in H as [H|[-> H]]; [exact H|].
    apply nan_text_not_json in H as [_ H]. congruence. }
  intros H. apply parse_dec_body_ok in H as [H|[-> H]]; [exact H|].
  apply nan_text_not_json in H as [H _]. congruence.
Qed.

(* item 0, second half, REFUTED as an unconditional statement: RFC 8259 number
   text need not decode.  1e7000 overflows decimal128 (range error) and
   1e999999999 has more than 8 exponent digits. *)
Definition big_number : bytes := [49; 101; 55; 48; 48; 48].                        (* 1e7000 *)
Definition huge_exponent : bytes := [49; 101; 57; 57; 57; 57; 57; 57; 57; 57; 57]. (* 1e999999999 *)

Example json_number_decimal_refuted :
  json_number_ok big_number = true /\ parse_dec big_number = None /\
  json_number_ok huge_exponent = true /\ parse_dec huge_exponent = None.
Proof. repeat split; vm_compute; reflexivity. Qed.

(* ------------------------------------------------------------------ *)
(* association lists with unique keys                                   *)
(* ------------------------------------------------------------------ *)
Lemma beqb_false : forall a b, beqb a b = false <-> a <> b.
Proof.
  intros a b. split.
  - intros H E. subst. rewrite beqb_refl in H. discriminate.
  - intros H. destruct (beqb a b) eqn:E; [apply beqb_eq in E; contradiction | reflexivity].
Qed.

Lemma assoc_in : forall {A} k (m : list (bytes * A)) v, assoc k m = Some v -> In (k, v) m.
Proof.
  intros A k m v. induction m as [|[k' v'] r IH]; simpl; [discriminate|].
  destruct (beqb k k') eqn:E.
  - intros H; inversion H; subst. apply beqb_eq in E; subst. left; reflexivity.
  - intros H; right; auto.
Qed.

Lemma assoc_none : forall {A} k (m : list (bytes * A)), assoc k m = None <-> ~ In k (map fst m).
Proof.
  intros A k m. induction m as [|[k' v'] r IH]; simpl.
  - tauto.
  - destruct (beqb k k') eqn:E.
    + apply beqb_eq in E; subst.
      split; [discriminate | intros H; exfalso; apply H; left; reflexivity].
    + apply beqb_false in E. rewrite IH.
      split; intros H; [intros [H1|H1]; [congruence | contradiction] | intros H1; apply H; right; exact H1].
Qed.

Lemma nodup_keys_NoDup : forall {A} (m : list (bytes * A)), nodup_keys m = true <-> NoDup (map fst m).
Proof.
  intros A m. induction m as [|[k v] r IH]; simpl.
  - split; [intros; constructor | reflexivity].
  - destruct (assoc k r) eqn:E.
    + split; [discriminate|]. intros H; inversion H; subst. exfalso.
      apply assoc_in in E. apply (in_map fst) in E. auto.
    + rewrite IH. apply assoc_none in E.
      split; intros H; [constructor; assumption | inversion H; assumption].
Qed.

Lemma in_assoc : forall {A} k v (m : list (bytes * A)),
  nodup_keys m = true -> In (k, v) m -> assoc k m = Some v.
Proof.
  intros A k v m. induction m as [|[k' v'] r IH]; simpl; [contradiction|].
  destruct (assoc k' r) eqn:E; [discriminate|]. intros Hn [H|H].
  - inversion H; subst. rewrite beqb_refl. reflexivity.
  - destruct (beqb k k') eqn:B; [|auto].
    apply beqb_eq in B; subst. apply assoc_none in E. exfalso; apply E.
    apply (in_map fst) in H. exact H.
Qed.

(* ------------------------------------------------------------------ *)
(* equal on arrays and objects, named                                   *)
(* ------------------------------------------------------------------ *)
Fixpoint arr_eq (a c : list value) {struct a} : bool :=
  match a, c with
  | [], [] => true
  | u :: a', v :: c' => equal u v && arr_eq a' c'
  | _, _ => false
  end.

Section ObjSub.
  Variable c : list (bytes * value).
  (* every member of a is found in c with an equal value *)
  Fixpoint obj_sub (a : list (bytes * value)) : bool :=
    match a with
    | [] => true
    | (k, u) :: a' => match assoc k c with Some v => equal u v | None => false end && obj_sub a'
    end.
End ObjSub.

Lemma equal_arr : forall a c, equal (VArr a) (VArr c) = arr_eq a c.
Proof. reflexivity. Qed.

Lemma equal_obj : forall a c,
  equal (VObj a) (VObj c) = (length a =? length c)%nat && obj_sub c a.
Proof. reflexivity. Qed.

Lemma obj_sub_spec : forall c a, obj_sub c a = true <->
  (forall k u, In (k, u) a -> exists v, assoc k c = Some v /\ equal u v = true).
Proof.
  intros c a. induction a as [|[k u] r IH].
  - simpl. split; [intros _ k u [] | reflexivity].
  - cbn [obj_sub]. rewrite andb_true_iff, IH. split.
    + intros [H1 H2] k' u' [E|H].
      * inversion E; subst. destruct (assoc k' c); [eauto | discriminate].
      * eauto.
    + intros H. split.
      * destruct (H k u (or_introl eq_refl)) as (v & -> & Hv). exact Hv.
      * intros; apply H; right; assumption.
Qed.

Lemma wf_arr : forall l, wf_value (VArr l) = true <-> Forall (fun x => wf_value x = true) l.
Proof.
  intros l. change (wf_value (VArr l)) with (forallb wf_value l).
  rewrite forallb_forall, Forall_forall. reflexivity.
Qed.

Lemma wf_obj : forall m, wf_value (VObj m) = true <->
  nodup_keys m = true /\ Forall (fun kv => wf_value (snd kv) = true) m.
Proof.
  intros m. change (wf_value (VObj m)) with (nodup_keys m && forallb (fun kv => wf_value (snd kv)) m).
  rewrite andb_true_iff, forallb_forall, Forall_forall. reflexivity.
Qed.

Lemma json_arr : forall l, json_value (VArr l) = true <-> Forall (fun x => json_value x = true) l.
Proof.
  intros l. change (json_value (VArr l)) with (forallb json_value l).
  rewrite forallb_forall, Forall_forall. reflexivity.
Qed.

Lemma json_obj : forall m, json_value (VObj m) = true <->
  nodup_keys m = true /\ Forall (fun kv => json_value (snd kv) = true) m.
Proof.
  intros m. change (json_value (VObj m)) with (nodup_keys m && forallb (fun kv => json_value (snd kv)) m).
  rewrite andb_true_iff, forallb_forall, Forall_forall. reflexivity.
Qed.

Lemma json_wf : forall x, json_value x = true -> wf_value x = true.
Proof.
  induction x as [ | b | s | n | a IH | a IH | t] using value_ind'; intros J; try reflexivity.
  - apply json_arr in J. apply wf_arr. rewrite Forall_forall in *. auto.
  - apply json_obj in J as [N J]. apply wf_obj. split; [exact N|].
    rewrite Forall_forall in *. auto.
Qed.

(* ------------------------------------------------------------------ *)
(* 1b. symmetry (needs unique keys on both sides, nothing else)         *)
(* ------------------------------------------------------------------ *)
Lemma arr_eq_sym : forall a,
  Forall (fun u => forall y, wf_value u = true -> wf_value y = true ->
                             equal u y = true -> equal y u = true) a ->
  forall c, Forall (fun u => wf_value u = true) a -> Forall (fun u => wf_value u = true) c ->
            arr_eq a c = true -> arr_eq c a = true.
Proof.
  induction 1 as [|u a Hu Ha IH]; intros [|v c] Wa Wc H; cbn [arr_eq] in *; try discriminate; auto.
  apply andb_true_iff in H as [H1 H2]. inversion Wa; inversion Wc; subst.
  apply andb_true_iff; split; auto.
Qed.

Lemma equal_sym_imp : forall x y, wf_value x = true -> wf_value y = true ->
  equal x y = true -> equal y x = true.
Proof.
  induction x as [ | a | a | n | a IH | a IH | t] using value_ind'; intros y Wx Wy H.
  - destruct y; simpl in H; try discriminate H. reflexivity.
  - destruct y; simpl in H; try discriminate H. apply Bool.eqb_prop in H; subst.
    simpl. apply Bool.eqb_reflx.
  - destruct y; simpl in H; try discriminate H. apply beqb_eq in H; subst.
    simpl. apply beqb_refl.
  - apply equal_num_inv in H as (n' & p & q & -> & E1 & E2 & H).
    rewrite equal_num_l, E2, E1, dec_equal_sym. exact H.
  - destruct y as [ | | | | c | | ]; try (simpl in H; discriminate H).
    rewrite equal_arr in *. apply wf_arr in Wx. apply wf_arr in Wy.
    eapply arr_eq_sym; eauto.
  - destruct y as [ | | | | | c | ]; try (simpl in H; discriminate H).
    rewrite equal_obj in *. apply andb_true_iff in H as [HL HS].
    apply Nat.eqb_eq in HL. apply wf_obj in Wx as [Na Wa]. apply wf_obj in Wy as [Nc Wc].
    apply andb_true_iff; split; [apply Nat.eqb_eq; auto|].
    rewrite obj_sub_spec in HS. apply obj_sub_spec. intros k v Hin.
    assert (Hincl : incl (map fst c) (map fst a)).
    { apply NoDup_length_incl.
      - apply nodup_keys_NoDup; exact Na.
      - rewrite !map_length. lia.
      - intros k' Hk'. apply in_map_iff in Hk' as ([k'' u'] & <- & Hu'). simpl.
        destruct (HS _ _ Hu') as (v' & Ev' & _). apply assoc_in in Ev'.
        apply (in_map fst) in Ev'. exact Ev'. }
    assert (Hk : In k (map fst a)) by (apply Hincl; apply (in_map fst) in Hin; exact Hin).
    destruct (assoc k a) as [u|] eqn:Eu; [|apply assoc_none in Eu; contradiction].
    exists u; split; [reflexivity|].
    pose proof (assoc_in _ _ _ Eu) as Hua.
    destruct (HS _ _ Hua) as (v' & Ev' & Hv').
    rewrite (in_assoc _ _ _ Nc Hin) in Ev'. inversion Ev'; subst v'.
    rewrite Forall_forall in IH, Wa, Wc.
    apply (IH (k, u) Hua); [apply (Wa (k, u) Hua) | apply (Wc (k, v) Hin) | exact Hv'].
  - simpl in H; discriminate H.
Qed.

Theorem equal_sym_wf : forall x y, wf_value x = true -> wf_value y = true -> equal x y = equal y x.
Proof.
  intros x y Wx Wy. destruct (equal x y) eqn:E1, (equal y x) eqn:E2; try reflexivity.
  - apply equal_sym_imp in E1; auto. congruence.
  - apply equal_sym_imp in E2; auto. congruence.
Qed.

Theorem equal_sym : forall x y, json_value x = true -> json_value y = true -> equal x y = equal y x.
Proof. intros x y Jx Jy. apply equal_sym_wf; apply json_wf; assumption. Qed.

(* symmetry is FALSE for Go values that are not maps (duplicate keys cannot
   occur in a Go map; the hypothesis only excludes junk of the model) *)
Example equal_sym_needs_unique_keys :
  let a := VObj [([107], VNull); ([107], VNull)] in
  let c := VObj [([107], VNull); ([106], VNull)] in
  equal a c = true /\ equal c a = false.
Proof. split; reflexivity. Qed.

(* ------------------------------------------------------------------ *)
(* 1c. transitivity: unconditional                                      *)
(* ------------------------------------------------------------------ *)
(* dec_equal is transitive on ALL decimals (NaN is equal to nothing) *)
Lemma dec_equal_trans_all : forall x y z,
  dec_equal x y = true -> dec_equal y z = true -> dec_equal x z = true.
Proof.
  intros x y z. unfold dec_equal.
  destruct x as [n1 c1 e1|a|], y as [n2 c2 e2|b|], z as [n3 c3 e3|c|];
    try (cbn; intros; discriminate).
  - destruct (dec_cmp_fin3 n1 c1 e1 n2 c2 e2 n3 c3 e3) as (p & q & r & E1 & E2 & E3).
    rewrite E1, E2, E3.
    destruct (Z.compare_spec p q), (Z.compare_spec q r), (Z.compare_spec p r);
      simpl; intros; try reflexivity; try discriminate; lia.
  - destruct c; simpl; intros; try reflexivity; try discriminate.
  - destruct b; simpl; intros; try reflexivity; try discriminate.
  - destruct b, c; simpl; intros; try reflexivity; try discriminate.
  - destruct a; simpl; intros; try reflexivity; try discriminate.
  - destruct a, c; simpl; intros; try reflexivity; try discriminate.
  - destruct a, b; simpl; intros; try reflexivity; try discriminate.
  - destruct a, b, c; simpl; intros; try reflexivity; try discriminate.
Qed.

Lemma arr_eq_trans : forall a,
  Forall (fun u => forall y z, equal u y = true -> equal y z = true -> equal u z = true) a ->
  forall b c, arr_eq a b = true -> arr_eq b c = true -> arr_eq a c = true.
Proof.
  induction 1 as [|u a Hu Ha IH]; intros [|v b] [|w c] H1 H2; cbn [arr_eq] in *;
    try discriminate; auto.
  apply andb_true_iff in H1 as [H1 H1']. apply andb_true_iff in H2 as [H2 H2'].
  apply andb_true_iff; split; eauto.
Qed.

Theorem equal_trans_all : forall x y z,
  equal x y = true -> equal y z = true -> equal x z = true.
Proof.
  induction x as [ | a | a | n | a IH | a IH | t] using value_ind'; intros y z H1 H2.
  - destruct y; simpl in H1; try discriminate H1. exact H2.
  - destruct y; simpl in H1; try discriminate H1. apply Bool.eqb_prop in H1; subst. exact H2.
  - destruct y; simpl in H1; try discriminate H1. apply beqb_eq in H1; subst. exact H2.
  - apply equal_num_inv in H1 as (n' & p & q & -> & E1 & E2 & H1).
    apply equal_num_inv in H2 as (n'' & q' & r & -> & E2' & E3 & H2).
    rewrite E2 in E2'. inversion E2'; subst q'.
    rewrite equal_num_l, E1, E3. eapply dec_equal_trans_all; eauto.
  - destruct y as [ | | | | b | | ]; try (simpl in H1; discriminate H1).
    destruct z as [ | | | | c | | ]; try (simpl in H2; discriminate H2).
    rewrite equal_arr in *. eapply arr_eq_trans; eauto.
  - destruct y as [ | | | | | b | ]; try (simpl in H1; discriminate H1).
    destruct z as [ | | | | | c | ]; try (simpl in H2; discriminate H2).
    rewrite equal_obj in *.
    apply andb_true_iff in H1 as [L1 S1]. apply andb_true_iff in H2 as [L2 S2].
    apply Nat.eqb_eq in L1. apply Nat.eqb_eq in L2.
    apply andb_true_iff; split; [apply Nat.eqb_eq; congruence|].
    rewrite obj_sub_spec in *. intros k u Hin.
    destruct (S1 _ _ Hin) as (v & Ev & Huv).
    destruct (S2 _ _ (assoc_in _ _ _ Ev)) as (w & Ew & Hvw).
    exists w; split; [exact Ew|].
    rewrite Forall_forall in IH. exact (IH (k, u) Hin v w Huv Hvw).
  - simpl in H1; discriminate H1.
Qed.

(* the statement as asked (the hypotheses are not needed) *)
Theorem equal_trans : forall x y z,
  json_value x = true -> json_value y = true -> json_value z = true ->
  equal x y = true -> equal y z = true -> equal x z = true.
Proof. intros x y z _ _ _. apply equal_trans_all. Qed.

(* ------------------------------------------------------------------ *)
(* 1a. reflexivity: exactly when every number leaf decodes              *)
(* ------------------------------------------------------------------ *)
(* every number leaf of v decodes to an ordered decimal *)
Fixpoint num_ok (v : value) : Prop :=
  match v with
  | VNum n => exists d, to_decimal (VNum n) = Some d /\ dec_ok d
  | VArr l =>
    (fix all (l : list value) : Prop :=
       match l with [] => True | x :: r => num_ok x /\ all r end) l
  | VObj m =>
    (fix all (m : list (bytes * value)) : Prop :=
       match m with [] => True | (_, x) :: r => num_ok x /\ all r end) m
  | _ => True
  end.

Lemma num_ok_arr : forall l, num_ok (VArr l) <-> Forall num_ok l.
Proof.
  induction l as [|x r IH].
  - split; intros; constructor.
  - change (num_ok (VArr (x :: r))) with (num_ok x /\ num_ok (VArr r)).
    rewrite IH, Forall_cons_iff. reflexivity.
Qed.

Lemma num_ok_obj : forall m, num_ok (VObj m) <-> Forall (fun kv => num_ok (snd kv)) m.
Proof.
  induction m as [|[k x] r IH].
  - split; intros; constructor.
  - change (num_ok (VObj ((k, x) :: r))) with (num_ok x /\ num_ok (VObj r)).
    rewrite IH, Forall_cons_iff. reflexivity.
Qed.

Lemma arr_refl_iff : forall a,
  Forall (fun x => equal x x = true <-> num_ok x) a ->
  (arr_eq a a = true <-> Forall num_ok a).
Proof.
  induction 1 as [|x a Hx _ IH]; cbn [arr_eq].
  - split; intros; [constructor | reflexivity].
  - rewrite andb_true_iff, Forall_cons_iff, Hx, IH. reflexivity.
Qed.

Theorem equal_refl_iff : forall x, json_value x = true -> (equal x x = true <-> num_ok x).
Proof.
  induction x as [ | b | s | n | a IH | a IH | t] using value_ind'; intros J.
  - simpl; tauto.
  - simpl. rewrite Bool.eqb_reflx. tauto.
  - simpl. rewrite beqb_refl. tauto.
  - rewrite equal_num_l. destruct n as [t | | | ]; try discriminate J.
    cbn [num_ok]. change (to_decimal (VNum (NJson t))) with (parse_dec t).
    change (json_value (VNum (NJson t))) with (json_number_ok t) in J.
    destruct (parse_dec t) as [d|] eqn:E.
    + pose proof (json_number_dec_ok _ _ J E) as Hd. rewrite dec_equal_refl by exact Hd.
      split; [intros _; exists d; auto | reflexivity].
    + split; [discriminate | intros (d & Hd & _); discriminate].
  - rewrite equal_arr, num_ok_arr. apply json_arr in J. apply arr_refl_iff.
    rewrite Forall_forall in *. auto.
  - rewrite equal_obj, num_ok_obj. apply json_obj in J as [N J].
    rewrite Nat.eqb_refl. cbn [andb]. rewrite obj_sub_spec. rewrite Forall_forall in *. split.
    + intros H [k u] Hin. cbn [snd].
      destruct (H k u Hin) as (v & Ev & Hv).
      rewrite (in_assoc _ _ _ N Hin) in Ev. inversion Ev; subst v.
      apply (IH (k, u) Hin (J (k, u) Hin)). exact Hv.
    + intros H k u Hin. exists u. split; [apply in_assoc; assumption|].
      apply (IH (k, u) Hin (J (k, u) Hin)). apply (H (k, u) Hin).
  - discriminate J.
Qed.

Theorem equal_refl : forall x, json_value x = true -> num_ok x -> equal x x = true.
Proof. intros x J N. apply equal_refl_iff; assumption. Qed.

(* FINDING: reflexivity fails on JSON documents.  1e7000 is a valid JSON number
   (json.Number keeps the text), toDecimal fails on it with a range error, and
   equal() then answers false, also for the value compared with itself, for any
   array/object containing it, and for contains(). *)
Example equal_refl_refuted :
  let x := VNum (NJson big_number) in
  json_value x = true /\ equal x x = false /\
  json_value (VArr [x]) = true /\ equal (VArr [x]) (VArr [x]) = false /\
  json_value (VObj [([97], x)]) = true /\ equal (VObj [([97], x)]) (VObj [([97], x)]) = false /\
  contains (VArr [x]) x = Ok (VBool false) /\
  binop_eval ONe x x = Ok (VBool true).
Proof. repeat split; vm_compute; reflexivity. Qed.

(* outside JSON: opaque Go values are never equal, not even to themselves *)
Example equal_foreign_irreflexive : forall t, equal (VForeign t) (VForeign t) = false.
Proof. reflexivity. Qed.

(* ------------------------------------------------------------------ *)
(* 3. objects compare regardless of member order                        *)
(* ------------------------------------------------------------------ *)
Theorem equal_obj_perm : forall m m', nodup_keys m = true -> Permutation m m' ->
  json_value (VObj m) = true -> num_ok (VObj m) -> equal (VObj m) (VObj m') = true.
Proof.
  intros m m' N P J K. rewrite equal_obj.
  rewrite (Permutation_length P), Nat.eqb_refl. cbn [andb].
  apply obj_sub_spec. intros k u Hin.
  assert (N' : nodup_keys m' = true).
  { apply nodup_keys_NoDup. eapply Permutation_NoDup; [apply Permutation_map; exact P|].
    apply nodup_keys_NoDup; exact N. }
  exists u. split; [apply in_assoc; [exact N' | eapply Permutation_in; eauto]|].
  apply json_obj in J as [_ J]. apply num_ok_obj in K. rewrite Forall_forall in *.
  apply equal_refl; [apply (J (k, u) Hin) | apply (K (k, u) Hin)].
Qed.

(* and the permuted object is again a JSON value, so all the theorems apply to it *)
Lemma json_value_perm : forall m m', Permutation m m' ->
  json_value (VObj m) = true -> json_value (VObj m') = true.
Proof.
  intros m m' P J. apply json_obj in J as [N J]. apply json_obj. split.
  - apply nodup_keys_NoDup. eapply Permutation_NoDup; [apply Permutation_map; exact P|].
    apply nodup_keys_NoDup; exact N.
  - rewrite Forall_forall in *. intros kv H. apply J. eapply Permutation_in; [symmetry; exact P | exact H].
Qed.

(* ------------------------------------------------------------------ *)
(* 4. numbers by value                                                  *)
(* ------------------------------------------------------------------ *)
Example equal_spellings :
  equal (VNum (NJson [49])) (VNum (NJson [49; 46; 48])) = true /\
  equal (VNum (NJson [49])) (VNum (NJson [49; 101; 48])) = true.  (* 1, 1.0, 1e0 *)
Proof. split; vm_compute; reflexivity. Qed.

Theorem equal_numbers : forall s t a b, parse_dec s = Some a -> parse_dec t = Some b ->
  equal (VNum (NJson s)) (VNum (NJson t)) = dec_equal a b.
Proof.
  intros s t a b Hs Ht. rewrite equal_num_l.
  change (to_decimal (VNum (NJson s))) with (parse_dec s).
  change (to_decimal (VNum (NJson t))) with (parse_dec t).
  rewrite Hs, Ht. reflexivity.
Qed.

(* a number is never equal to its string spelling, to a boolean or to null *)
Example equal_strict_examples :
  equal (VNum (NJson [49])) (VStr [49]) = false /\ equal (VStr [49]) (VNum (NJson [49])) = false /\
  equal (VNum (NJson [48])) (VBool false) = false /\ equal VNull (VBool false) = false /\
  equal (VArr []) (VObj []) = false /\ equal (VStr []) VNull = false.
Proof. repeat split; vm_compute; reflexivity. Qed.

Print Assumptions equal_refl_iff.
Print Assumptions equal_sym.
Print Assumptions equal_obj_perm.
Print Assumptions json_number_dec_ok.
Print Assumptions equal_trans.
