(* C20: equality (==, !=, contains) is a deep, type-strict equivalence and
   truthiness is one uniform rule.

   Summary of what is proved about the model [equal] of Model/Compare.v (with
   the textual shortcut: two json.Number values with the same valid JSON text
   are equal without conversion):
   - [equal_type_strict]  values of different JSON types are never equal;
   - [equal_refl]         reflexivity on ALL JSON values, no premise on numbers
                          (was false before the shortcut: 1e7000 was not equal
                          to itself; now [equal_big_number_refl]).  It rests on
                          [json_number_parses]: every text accepted by the RFC
                          8259 number checker [json_number_ok] of Num/Dec.v is
                          accepted by the JSON text parser of Json/JsonText.v
                          and decodes to that very json.Number.
                          [equal_refl_iff] characterises reflexivity on all
                          well-formed Go values, [equal_refl_premise] is the
                          variant with an explicit premise on number leaves;
   - [equal_trans_all]    transitivity holds for ALL values, no hypothesis
                          ([equal_trans] is the JSON-value instance);
   - [equal_sym]          symmetry holds for all well-formed values (unique keys);
   - [equal_equivalence]  the three together on JSON values;
   - [equal_obj_perm]     object comparison ignores member order;
   - numbers that decode compare by decimal value ([equal_numbers],
     [equal_spellings]); numbers that do not decode are equal exactly to the
     same valid JSON text ([equal_numbers_undecodable],
     [equal_big_numbers_textual]: 1e7000 and 10e6999 are still different);
   - [ne_is_negation], [contains_uses_equal], [ne_self_false], [contains_member];
   - truthiness: [is_true_false_iff] and the four users of is_true;
   - decoding of JSON number text: [json_number_dec_ok] /
     [json_number_dec_finite] (a decoded JSON number is never NaN, never an
     infinity), [json_number_decimal_refuted] (decoding can fail),
     [json_number_plain_cases] (without an exponent part it decodes to a finite
     decimal or is a range error), [json_number_plain_finite] /
     [json_number_plain_decodes] (it decodes when the text has at most 6144
     bytes), [json_number_plain_overflow] (1 followed by >= 6145 zeros does
     not decode: Num/Dec.v parse_dec now reports a range error for an
     overflowing exponent-free literal, like decimal128.Parse). *)
From Coq Require Import List ZArith Bool Lia Permutation Arith.
From JM Require Import Base.Outcome Base.Bytes Num.Dec Num.Flt Json.Value Json.JsonText
  Model.Ast Model.Compare Model.Array Model.Eval Proofs.DecTheory.
Import ListNotations.
Open Scope Z_scope.

(* ------------------------------------------------------------------ *)
(* Induction principle for the nested type [value]                     *)
(* ------------------------------------------------------------------ *)
Section ValueInd.
  Variable P : value -> Prop.
  Hypothesis HNull : P VNull.
  Hypothesis HBool : forall b, P (VBool b).
  Hypothesis HStr : forall s, P (VStr s).
  Hypothesis HNum : forall n, P (VNum n).
  Hypothesis HArr : forall l, Forall P l -> P (VArr l).
  Hypothesis HObj : forall m, Forall (fun kv => P (snd kv)) m -> P (VObj m).
  Hypothesis HForeign : forall t, P (VForeign t).
  Fixpoint value_ind' (v : value) : P v :=
    match v with
    | VNull => HNull
    | VBool b => HBool b
    | VStr s => HStr s
    | VNum n => HNum n
    | VArr l =>
      HArr l ((fix go (l : list value) : Forall P l :=
                 match l with
                 | [] => Forall_nil P
                 | x :: r => Forall_cons x (value_ind' x) (go r)
                 end) l)
    | VObj m =>
      HObj m ((fix go (m : list (bytes * value)) : Forall (fun kv => P (snd kv)) m :=
                 match m with
                 | [] => Forall_nil _
                 | (k, x) :: r => Forall_cons (P := fun kv => P (snd kv)) (k, x) (value_ind' x) (go r)
                 end) m)
    | VForeign t => HForeign t
    end.
End ValueInd.

(* ------------------------------------------------------------------ *)
(* 2. type strictness                                                   *)
(* ------------------------------------------------------------------ *)
Definition jtype (v : value) : nat :=
  match v with
  | VNull => 0 | VBool _ => 1 | VStr _ => 2 | VNum _ => 3
  | VArr _ => 4 | VObj _ => 5 | VForeign _ => 6
  end%nat.

(* does the json.Number text decode as one JSON value (encoding/json model)? *)
Definition json_text_ok (s : bytes) : bool :=
  match json_parse s with Some _ => true | None => false end.

(* the textual shortcut of equal(): two json.Number values with the same valid
   JSON text are equal without any conversion *)
Definition num_short (n : num) (y : value) : bool :=
  match n, y with
  | NJson s, VNum (NJson t) => beqb s t && json_text_ok s
  | _, _ => false
  end.

Lemma equal_num_l : forall n y,
  equal (VNum n) y =
  if num_short n y then true else
  match to_decimal (VNum n) with
  | Some a => match to_decimal y with Some b => dec_equal a b | None => false end
  | None => false
  end.
Proof. reflexivity. Qed.

Lemma num_short_inv : forall n y, num_short n y = true ->
  exists s, n = NJson s /\ y = VNum (NJson s) /\ json_text_ok s = true.
Proof.
  intros n y H. destruct n as [s| | | ]; try discriminate H.
  destruct y as [ | | |[t| | | ]| | | ]; try discriminate H.
  cbn [num_short] in H. apply andb_true_iff in H as [E K]. apply beqb_eq in E; subst t.
  exists s. auto.
Qed.

Lemma to_decimal_some : forall y d, to_decimal y = Some d -> exists n, y = VNum n.
Proof. intros y d; destruct y; simpl; try discriminate; eauto. Qed.

(* a number is equal to y exactly in two ways: same valid JSON text, or both
   sides decode and the decimals are equal *)
Lemma equal_num_inv : forall n y, equal (VNum n) y = true ->
  exists n', y = VNum n' /\
    ((exists s, n = NJson s /\ n' = NJson s /\ json_text_ok s = true) \/
     (exists a b, to_decimal (VNum n) = Some a /\ to_decimal (VNum n') = Some b /\
                  dec_equal a b = true)).
Proof.
  intros n y H. rewrite equal_num_l in H.
  destruct (num_short n y) eqn:S.
  - apply num_short_inv in S as (s & -> & -> & K). exists (NJson s). split; [reflexivity|].
    left. exists s. auto.
  - destruct (to_decimal (VNum n)) as [a|] eqn:E1; [|discriminate].
    destruct (to_decimal y) as [b|] eqn:E2; [|discriminate].
    destruct (to_decimal_some _ _ E2) as [n' ->]. exists n'. split; [reflexivity|].
    right. exists a, b. auto.
Qed.

(* converse, decimal way *)
Lemma equal_num_dec : forall n n' a b,
  to_decimal (VNum n) = Some a -> to_decimal (VNum n') = Some b -> dec_equal a b = true ->
  equal (VNum n) (VNum n') = true.
Proof.
  intros n n' a b E1 E2 H. rewrite equal_num_l. destruct (num_short n (VNum n')); [reflexivity|].
  rewrite E1, E2. exact H.
Qed.

(* converse, textual way *)
Lemma equal_num_text : forall s, json_text_ok s = true ->
  equal (VNum (NJson s)) (VNum (NJson s)) = true.
Proof.
  intros s K. rewrite equal_num_l. cbn [num_short]. rewrite beqb_refl, K. reflexivity.
Qed.

Theorem equal_type_strict : forall x y, equal x y = true -> jtype x = jtype y.
Proof.
  intros x y H. destruct x.
  - destruct y; simpl in H; try discriminate H; reflexivity.
  - destruct y; simpl in H; try discriminate H; reflexivity.
  - destruct y; simpl in H; try discriminate H; reflexivity.
  - apply equal_num_inv in H as (n' & -> & _). reflexivity.
  - destruct y; try (simpl in H; discriminate H); reflexivity.
  - destruct y; try (simpl in H; discriminate H); reflexivity.
  - simpl in H; discriminate H.
Qed.

(* ------------------------------------------------------------------ *)
(* 5. != is the exact negation; contains uses the same relation         *)
(* ------------------------------------------------------------------ *)
Theorem ne_is_negation : forall l r,
  binop_eval ONe l r = Ok (VBool (negb (equal l r))) /\ binop_eval OEq l r = Ok (VBool (equal l r)).
Proof. intros; split; reflexivity. Qed.

Theorem contains_uses_equal : forall l y,
  contains (VArr l) y = Ok (VBool (existsb (fun x => equal x y) l)).
Proof. reflexivity. Qed.

(* ------------------------------------------------------------------ *)
(* 6. truthiness                                                        *)
(* ------------------------------------------------------------------ *)
Theorem is_true_false_iff : forall v, json_value v = true ->
  (is_true v = false <->
   v = VNull \/ v = VBool false \/ v = VStr [] \/ v = VArr [] \/ v = VObj []).
Proof.
  intros v J. destruct v as [ | b | s | n | l | m | t].
  - simpl; split; auto.
  - destruct b; simpl; split; intros H; auto; try discriminate H.
    repeat (destruct H as [H|H]; try discriminate H).
  - destruct s; simpl; split; intros H; auto; try discriminate H.
    repeat (destruct H as [H|H]; try discriminate H).
  - destruct n as [t | | | ]; try discriminate J.
    destruct t as [|b t]; [discriminate J|]. simpl. split; intros H; [discriminate H|].
    repeat (destruct H as [H|H]; try discriminate H).
  - destruct l; simpl; split; intros H; auto 6; try discriminate H.
    repeat (destruct H as [H|H]; try discriminate H).
  - destruct m; simpl; split; intros H; auto 6; try discriminate H.
    repeat (destruct H as [H|H]; try discriminate H).
  - discriminate J.
Qed.

(* zero is true-like, unlike in many languages *)
Example zero_is_true : is_true (VNum (NJson [48])) = true /\ is_true (VNum (NJson [48;46;48])) = true.
Proof. split; reflexivity. Qed.

(* ------------------------------------------------------------------ *)
(* 7. !, &&, || and filters use that one rule                           *)
(* ------------------------------------------------------------------ *)
Theorem not_uses_is_true : forall root c cur vars x,
  eval root c cur vars = Ok x -> eval root (NNot c) cur vars = Ok (VBool (negb (is_true x))).
Proof. intros root c cur vars x H. cbn [eval]. rewrite H. reflexivity. Qed.

Theorem and_returns_operand : forall root l r cur vars x,
  eval root l cur vars = Ok x ->
  eval root (NAnd l r) cur vars = if is_true x then eval root r cur vars else Ok x.
Proof. intros root l r cur vars x H. cbn [eval]. rewrite H. simpl bind. destruct (is_true x); reflexivity. Qed.

Theorem or_returns_operand : forall root l r cur vars x,
  eval root l cur vars = Ok x ->
  eval root (NOr l r) cur vars = if is_true x then Ok x else eval root r cur vars.
Proof. intros root l r cur vars x H. cbn [eval]. rewrite H. reflexivity. Qed.

Theorem filter_uses_is_true : forall pred v r, filter_list pred [v] = Ok r ->
  exists f, pred v = Ok f /\ r = (if negb (is_null v) && is_true f then [v] else []).
Proof.
  intros pred v r H. simpl in H. destruct (pred v) as [f| | | |] eqn:E; simpl in H; try discriminate H.
  exists f. split; [reflexivity|]. inversion H. reflexivity.
Qed.

(* ------------------------------------------------------------------ *)
(* 0. JSON number text denotes an ordered decimal whenever it decodes   *)
(* ------------------------------------------------------------------ *)
Lemma drop_digits_nonneg : forall c k, 0 <= c -> 0 <= drop_digits c k.
Proof.
  intros c k Hc. unfold drop_digits.
  assert (Hq : 0 <= c / pow10 k).
  { unfold pow10. destruct (Z.eq_dec (10 ^ k) 0) as [E|E].
    - rewrite E, Zdiv_0_r. lia.
    - apply Z.div_pos; [exact Hc|]. pose proof (Z.pow_nonneg 10 k ltac:(lia)). lia. }
  cbv zeta. destruct (_ >? _); [lia|]. destruct (_ =? _); [destruct (Z.even _); lia | exact Hq].
Qed.

Lemma round_coef_nonneg : forall c e c' e', 0 <= c -> round_coef c e = (c', e') -> 0 <= c'.
Proof.
  intros c e c' e' Hc. unfold round_coef. cbv zeta.
  destruct (digits c <=? prec34); [intros H; inversion H; subst; exact Hc|].
  destruct (_ >? _); intros H; inversion H; subst.
  - apply Z.div_pos; [apply drop_digits_nonneg; exact Hc | lia].
  - apply drop_digits_nonneg; exact Hc.
Qed.

(* rounding never produces NaN or a negative coefficient *)
Lemma fit_ok : forall neg c e, 0 <= c -> dec_ok (fit neg c e).
Proof.
  intros neg c e Hc. unfold fit.
  destruct (round_coef c e) as [c' e'] eqn:R. apply round_coef_nonneg in R; [|exact Hc].
  destruct (c' =? 0); [unfold dec_ok; lia|].
  destruct (e' >? emax).
  { cbv zeta. destruct (_ <=? _); unfold dec_ok; [|exact I].
    apply Z.mul_nonneg_nonneg; [exact R|]. unfold pow10. apply Z.pow_nonneg. lia. }
  destruct (e' <? emin).
  { cbv zeta. destruct (_ >? _); unfold dec_ok; [lia | apply drop_digits_nonneg; exact R]. }
  unfold dec_ok. exact R.
Qed.

Lemma take_digits_nonneg : forall s acc n a m r,
  0 <= acc -> take_digits s acc n = (a, m, r) -> 0 <= a.
Proof.
  induction s as [|b s IH]; intros acc n a m r Hacc; simpl.
  - intros H; inversion H; subst; exact Hacc.
  - destruct (is_digit b) eqn:D.
    + apply IH. unfold is_digit in D. apply andb_true_iff in D as [D1 D2].
      apply Z.leb_le in D1. lia.
    + intros H; inversion H; subst; exact Hacc.
Qed.

Lemma frac_nonneg : forall ip ni r1 c nf nd r2, 0 <= ip ->
  match r1 with
  | 46 :: r => let '(fp, nfr, r') := take_digits r ip 0 in (fp, nfr, ni + nfr, r')
  | _ => (ip, 0, ni, r1)
  end = (c, nf, nd, r2) -> 0 <= c.
Proof.
  intros ip ni r1 c nf nd r2 Hip.
  destruct r1 as [|[|p|p] r]; try (intros H; inversion H; subst; exact Hip).
  do 6 (destruct p as [p|p|]; try (intros H; inversion H; subst; exact Hip)).
  destruct (take_digits r ip 0) as [[fp nfr] r'] eqn:T. intros H; inversion H; subst.
  eapply take_digits_nonneg; eauto.
Qed.


Lemma lone_point_eq : forall (neg : bool) (r1 r2 : bytes) (d : dec),
  (match r1, r2 with 46 :: _, [] => Some (DFin neg 0 0) | _, _ => None end) = Some d -> d = DFin neg 0 0.
Proof.
  intros neg r1 r2 d. destruct r1 as [|b r]; [discriminate|].
  destruct (Z.eq_dec b 46) as [->|Hb].
  - destruct r2; [intros H; inversion H; reflexivity | discriminate].
  - destruct b as [|p|p]; try discriminate.
    repeat (destruct p as [p|p|]; try discriminate). exfalso; apply Hb; reflexivity.
Qed.

(* parse_dec_body yields NaN only for the literal text "nan" (any case) *)
Lemma parse_dec_body_ok : forall neg s d, parse_dec_body neg s = Some d ->
  dec_ok d \/ (d = DNaN /\ map lower_byte s = [110; 97; 110]).
Proof.
  intros neg s d. unfold parse_dec_body. cbv zeta.
  destruct (_ || _); [intros H; inversion H; left; exact I|].
  destruct (beqb (map lower_byte s) [110; 97; 110]) eqn:EN;
    [intros H; inversion H; right; split; [reflexivity | apply beqb_eq; exact EN]|].
  destruct (take_digits s 0 0) as [[ip ni] r1] eqn:T1.
  assert (Hip : 0 <= ip) by (eapply take_digits_nonneg; [|exact T1]; lia).
  match goal with
  | |- context [match ?T with pair _ _ => _ end] =>
    match T with context [r1] => destruct T as [[[c nf] nd] r2] eqn:T2 end
  end.
  assert (HF : 0 <= c) by (eapply (frac_nonneg ip ni r1); [exact Hip | exact T2]).
  destruct (nd =? 0); [intros H; apply lone_point_eq in H; subst d; left; unfold dec_ok; lia|].
  destruct r2 as [|b2 r].
  { pose proof (fit_ok neg c (- nf) HF) as HO. destruct (fit neg c (- nf));
      intros H; inversion H; subst; left; exact HO. }
  destruct ((b2 =? 101) || (b2 =? 69)); [|discriminate].
  match goal with |- (let '(eneg, r') := ?T in _) = _ -> _ => destruct T as [eneg r'] end.
  destruct (take_digits r' 0 0) as [[ev ne] r''].
  destruct (_ || _); [discriminate|].
  destruct (ne >? 8).
  - destruct (c =? 0); [intros H; inversion H; left; unfold dec_ok; lia|].
    destruct eneg; [intros H; inversion H; left; unfold dec_ok; lia | discriminate].
  - match goal with |- match ?F with _ => _ end = _ -> _ =>
      pose proof (fit_ok neg c ((if eneg then - ev else ev) - nf) HF) as HO; destruct F end;
      intros H; inversion H; subst; left; exact HO.
Qed.

(* json_number_ok and parse_dec_body, cut into stages (same source text as
   Num/Dec.v, so the stage equations hold by conversion) *)
Definition strip_minus (s : bytes) : bytes := match s with 45 :: r => r | _ => s end.
Definition jn_int (s1 : bytes) : option bytes :=
  match s1 with
  | 48 :: r => Some r
  | b :: r => if (49 <=? b) && (b <=? 57) then let '(_, _, r') := take_digits r 0 0 in Some r' else None
  | [] => None
  end.
Definition jn_frac (r1 : bytes) : option bytes :=
  match r1 with
  | 46 :: r => let '(_, n, r') := take_digits r 0 0 in if n =? 0 then None else Some r'
  | _ => Some r1
  end.
Definition jn_exp (r2 : bytes) : bool :=
  match r2 with
  | [] => true
  | b :: r =>
    if (b =? 101) || (b =? 69) then
      let r' := match r with 45 :: t => t | 43 :: t => t | _ => r end in
      let '(_, n, r'') := take_digits r' 0 0 in
      negb (n =? 0) && match r'' with [] => true | _ => false end
    else false
  end.
Definition pd_frac (ip ni : Z) (r1 : bytes) : Z * Z * Z * bytes :=
  match r1 with
  | 46 :: r => let '(fp, nfr, r') := take_digits r ip 0 in (fp, nfr, ni + nfr, r')
  | _ => (ip, 0, ni, r1)
  end.

Lemma json_number_ok_stages : forall s, json_number_ok s =
  match jn_int (strip_minus s) with
  | None => false
  | Some r1 => match jn_frac r1 with None => false | Some r2 => jn_exp r2 end
  end.
Proof. reflexivity. Qed.

Lemma strip_minus_alt : forall s, strip_minus s =
  match s with [] => [] | b :: r => if b =? 45 then r else s end.
Proof.
  intros s. destruct s as [|[|p|p] r]; try reflexivity.
  do 6 (destruct p as [p|p|]; try reflexivity).
Qed.

Lemma jn_int_alt : forall s1, jn_int s1 =
  match s1 with
  | [] => None
  | b :: r =>
    if b =? 48 then Some r
    else if (49 <=? b) && (b <=? 57) then let '(_, _, r') := take_digits r 0 0 in Some r' else None
  end.
Proof.
  intros s. destruct s as [|[|p|p] r]; try reflexivity.
  do 6 (destruct p as [p|p|]; try reflexivity).
Qed.

Lemma jn_frac_alt : forall r1, jn_frac r1 =
  match r1 with
  | [] => Some r1
  | b :: r =>
    if b =? 46 then let '(_, n, r') := take_digits r 0 0 in if n =? 0 then None else Some r'
    else Some r1
  end.
Proof.
  intros s. destruct s as [|[|p|p] r]; try reflexivity.
  do 6 (destruct p as [p|p|]; try reflexivity).
Qed.

Lemma pd_frac_alt : forall ip ni r1, pd_frac ip ni r1 =
  match r1 with
  | [] => (ip, 0, ni, r1)
  | b :: r =>
    if b =? 46 then let '(fp, nfr, r') := take_digits r ip 0 in (fp, nfr, ni + nfr, r')
    else (ip, 0, ni, r1)
  end.
Proof.
  intros ip ni s. destruct s as [|[|p|p] r]; try reflexivity.
  do 6 (destruct p as [p|p|]; try reflexivity).
Qed.

(* what take_digits leaves behind *)
Fixpoint drest (s : bytes) : bytes :=
  match s with
  | b :: r => if is_digit b then drest r else s
  | [] => []
  end.

Lemma forallb_drest : forall (P : Z -> bool) s, forallb P s = true -> forallb P (drest s) = true.
Proof.
  intros P s. induction s as [|b r IH]; [auto|]. intros H. cbn [drest].
  destruct (is_digit b); [|exact H]. apply IH. simpl in H. apply andb_true_iff in H as [_ H]. exact H.
Qed.

Lemma take_digits_bound : forall s acc n k a m r,
  0 <= k -> 0 <= acc < 10 ^ k -> take_digits s acc n = (a, m, r) ->
  0 <= a < 10 ^ (k + (m - n)) /\ n <= m /\
  (m - n) + Z.of_nat (length r) = Z.of_nat (length s) /\ r = drest s.
Proof.
  induction s as [|b s IH]; intros acc n k a m r Hk Hacc; simpl take_digits.
  - intros H; inversion H; subst. replace (k + (m - m)) with k by lia.
    repeat split; try lia; reflexivity.
  - cbn [drest]. destruct (is_digit b) eqn:D.
    + intros H.
      assert (Hacc' : 0 <= acc * 10 + (b - 48) < 10 ^ (k + 1)).
      { unfold is_digit in D. apply andb_true_iff in D as [D1 D2].
        apply Z.leb_le in D1. apply Z.leb_le in D2.
        rewrite Z.pow_add_r by lia. change (10 ^ 1) with 10. lia. }
      destruct (IH _ _ (k + 1) _ _ _ ltac:(lia) Hacc' H) as (B & C & L & R).
      replace (k + 1 + (m - (n + 1))) with (k + (m - n)) in B by lia.
      repeat split; try lia; try exact R.
      change (length (b :: s)) with (S (length s)). rewrite Nat2Z.inj_succ. lia.
    + intros H; inversion H; subst. replace (k + (m - m)) with k by lia.
      repeat split; try lia; reflexivity.
Qed.

(* ---- '_' digit separators (accepted by the package, never RFC 8259) ---- *)
Definition not_us (b : Z) : bool := negb (b =? 95).

Lemma strip_us_alt : forall prev s, strip_us prev s =
  match s with
  | [] => Some []
  | b :: r =>
    if b =? 95 then (if prev then match r with [] => None | _ => strip_us false r end else None)
    else match strip_us (is_digit b) r with Some r' => Some (b :: r') | None => None end
  end.
Proof.
  intros prev s. destruct s as [|[|p|p] r]; try reflexivity.
  do 7 (destruct p as [p|p|]; try reflexivity).
Qed.

Lemma strip_us_id : forall s prev, forallb (fun b => negb (b =? 95)) s = true -> strip_us prev s = Some s.
Proof.
  induction s as [|b r IH]; intros prev H; [reflexivity|].
  rewrite strip_us_alt. cbn [forallb] in H. apply andb_true_iff in H as [Hb Hr].
  destruct (b =? 95); [discriminate Hb|]. rewrite (IH _ Hr). reflexivity.
Qed.

(* without a digit in the result there was no separator in the text *)
Lemma strip_us_nodigit : forall s s', strip_us false s = Some s' ->
  forallb (fun b => negb (is_digit b)) s' = true -> s = s'.
Proof.
  induction s as [|b r IH]; intros s'; rewrite strip_us_alt.
  - intros H _. inversion H. reflexivity.
  - destruct (b =? 95); [discriminate|].
    destruct (strip_us (is_digit b) r) as [r'|] eqn:E; [|discriminate].
    intros H F. inversion H; subst s'. cbn [forallb] in F. apply andb_true_iff in F as [Fb Fr].
    destruct (is_digit b); [discriminate Fb|]. f_equal. apply IH; assumption.
Qed.

Lemma take_digits_no_us : forall s a n x m r, take_digits s a n = (x, m, r) ->
  forallb not_us r = true -> forallb not_us s = true.
Proof.
  induction s as [|b s IH]; intros a n x m r; simpl take_digits.
  - intros H; inversion H; auto.
  - destruct (is_digit b) eqn:D.
    + intros H F. cbn [forallb]. rewrite (IH _ _ _ _ _ H F), andb_true_r.
      unfold is_digit in D. apply andb_true_iff in D as [_ D]. apply Z.leb_le in D.
      unfold not_us. destruct (Z.eqb_spec b 95); [lia | reflexivity].
    + intros H; inversion H; auto.
Qed.

Lemma jn_exp_alt : forall r2, jn_exp r2 =
  match r2 with
  | [] => true
  | b :: r =>
    if (b =? 101) || (b =? 69) then
      let r' := match r with [] => [] | c :: t => if (c =? 45) || (c =? 43) then t else r end in
      let '(_, n, r'') := take_digits r' 0 0 in
      negb (n =? 0) && match r'' with [] => true | _ => false end
    else false
  end.
Proof.
  intros r2. destruct r2 as [|b r]; [reflexivity|]. unfold jn_exp.
  destruct ((b =? 101) || (b =? 69)); [|reflexivity].
  destruct r as [|[|p|p] t]; try reflexivity.
  do 6 (destruct p as [p|p|]; try reflexivity).
Qed.

Lemma not_us_of_eq : forall b c, (b =? c) = true -> c <> 95 -> not_us b = true.
Proof.
  intros b c E N. apply Z.eqb_eq in E. subst c. unfold not_us.
  destruct (Z.eqb_spec b 95); [contradiction | reflexivity].
Qed.

(* RFC 8259 number text has no '_' *)
Lemma json_number_no_us : forall s, json_number_ok s = true ->
  forallb (fun b => negb (b =? 95)) s = true.
Proof.
  intros s J. change (forallb not_us s = true). rewrite json_number_ok_stages in J.
  destruct (jn_int (strip_minus s)) as [r1|] eqn:JI; [|discriminate].
  destruct (jn_frac r1) as [r2|] eqn:JF; [|discriminate].
  assert (F2 : forallb not_us r2 = true).
  { rewrite jn_exp_alt in J. destruct r2 as [|b r]; [reflexivity|].
    destruct ((b =? 101) || (b =? 69)) eqn:E; [|discriminate]. cbv zeta in J.
    assert (Hb : not_us b = true).
    { apply orb_true_iff in E as [E|E]; eapply not_us_of_eq; eauto; lia. }
    cbn [forallb]. rewrite Hb. cbn [andb].
    match type of J with context [take_digits ?R 0 0] =>
      destruct (take_digits R 0 0) as [[x n] r''] eqn:T end.
    apply andb_true_iff in J as [_ J]. destruct r'' as [|? ?]; [|discriminate].
    apply take_digits_no_us in T; [|reflexivity].
    destruct r as [|c t]; [reflexivity|].
    destruct ((c =? 45) || (c =? 43)) eqn:Ec; [|exact T].
    cbn [forallb]. rewrite T, andb_true_r.
    apply orb_true_iff in Ec as [Ec|Ec]; eapply not_us_of_eq; eauto; lia. }
  assert (F1 : forallb not_us r1 = true).
  { rewrite jn_frac_alt in JF. destruct r1 as [|b r]; [reflexivity|].
    destruct (b =? 46) eqn:E; [|inversion JF; subst r2; exact F2].
    destruct (take_digits r 0 0) as [[x n] r'] eqn:T. destruct (n =? 0); [discriminate|].
    inversion JF; subst r'. cbn [forallb]. rewrite (take_digits_no_us _ _ _ _ _ _ T F2), andb_true_r.
    eapply not_us_of_eq; eauto; lia. }
  assert (F0 : forallb not_us (strip_minus s) = true).
  { rewrite jn_int_alt in JI. destruct (strip_minus s) as [|b r]; [discriminate|].
    destruct (b =? 48) eqn:E.
    { inversion JI; subst r1. cbn [forallb]. rewrite F1, andb_true_r. eapply not_us_of_eq; eauto; lia. }
    destruct ((49 <=? b) && (b <=? 57)) eqn:D; [|discriminate].
    destruct (take_digits r 0 0) as [[x n] r'] eqn:T. inversion JI; subst r'.
    cbn [forallb]. rewrite (take_digits_no_us _ _ _ _ _ _ T F1), andb_true_r.
    apply andb_true_iff in D as [_ D]. apply Z.leb_le in D.
    unfold not_us. destruct (Z.eqb_spec b 95); [lia | reflexivity]. }
  rewrite strip_minus_alt in F0. destruct s as [|b r]; [reflexivity|].
  destruct (b =? 45) eqn:E; [|exact F0].
  cbn [forallb]. rewrite F0, andb_true_r. eapply not_us_of_eq; eauto; lia.
Qed.

(* ... so on RFC 8259 text the separator pass is the identity *)
Lemma parse_dec_json : forall s, json_number_ok s = true -> parse_dec s = parse_dec_plain s.
Proof.
  intros s J. unfold parse_dec. rewrite (strip_us_id s false (json_number_no_us s J)). reflexivity.
Qed.

Lemma parse_dec_plain_of : forall s d, parse_dec s = Some d -> exists s', parse_dec_plain s' = Some d.
Proof.
  intros s d. unfold parse_dec. destruct (strip_us false s) as [s'|]; [|discriminate].
  intros H. exists s'. exact H.
Qed.

Lemma parse_dec_alt : forall s, parse_dec_plain s =
  match s with
  | [] => None
  | b :: r =>
    if b =? 43 then (match r with [] => None | _ => parse_dec_body false r end)
    else if b =? 45 then (match r with [] => None | _ => parse_dec_body true r end)
    else parse_dec_body false s
  end.
Proof.
  intros s. destruct s as [|[|p|p] r]; try reflexivity.
  do 6 (destruct p as [p|p|]; try reflexivity).
Qed.

Lemma nan_text_not_json : forall s, map lower_byte s = [110; 97; 110] ->
  json_number_ok s = false /\ json_number_ok (45 :: s) = false.
Proof.
  intros s H. destruct s as [|a [|b [|c [|? ?]]]]; try discriminate H.
  inversion H as [[Ha Hb Hc]].
  assert (Ea : a = 110 \/ a = 78).
  { unfold lower_byte in Ha. destruct ((65 <=? a) && (a <=? 90)); [right | left]; lia. }
  destruct Ea; subst a; split; reflexivity.
Qed.

(* item 0, first half: whenever the text of a JSON number decodes, the result is
   an ordered decimal (never NaN) *)
Lemma json_number_dec_ok : forall t d,
  json_number_ok t = true -> parse_dec t = Some d -> dec_ok d.
Proof.
  intros t d J. rewrite (parse_dec_json t J), parse_dec_alt. destruct t as [|b r]; [discriminate|].
  destruct (b =? 43) eqn:E43.
  { apply Z.eqb_eq in E43; subst b.
    assert (F : json_number_ok (43 :: r) = false) by reflexivity. congruence. }
  destruct (b =? 45) eqn:E45.
  { apply Z.eqb_eq in E45; subst b. destruct r as [|b' r']; [discriminate|].
    intros H. apply parse_dec_body_ok in H as [H|[-> H]]; [exact H|].
    apply nan_text_not_json in H as [_ H]. congruence. }
  intros H. apply parse_dec_body_ok in H as [H|[-> H]]; [exact H|].
  apply nan_text_not_json in H as [H _]. congruence.
Qed.

(* item 0, second half, REFUTED as an unconditional statement: RFC 8259 number
   text need not decode.  1e7000 overflows decimal128 (range error) and
   1e999999999 has more than 8 exponent digits. *)
Definition big_number : bytes := [49; 101; 55; 48; 48; 48].                        (* 1e7000 *)
Definition huge_exponent : bytes := [49; 101; 57; 57; 57; 57; 57; 57; 57; 57; 57]. (* 1e999999999 *)

Example json_number_decimal_refuted :
  json_number_ok big_number = true /\ parse_dec big_number = None /\
  json_number_ok huge_exponent = true /\ parse_dec huge_exponent = None.
Proof. repeat split; vm_compute; reflexivity. Qed.

(* ------------------------------------------------------------------ *)
(* association lists with unique keys                                   *)
(* ------------------------------------------------------------------ *)
Lemma beqb_false : forall a b, beqb a b = false <-> a <> b.
Proof.
  intros a b. split.
  - intros H E. subst. rewrite beqb_refl in H. discriminate.
  - intros H. destruct (beqb a b) eqn:E; [apply beqb_eq in E; contradiction | reflexivity].
Qed.

Lemma assoc_in : forall {A} k (m : list (bytes * A)) v, assoc k m = Some v -> In (k, v) m.
Proof.
  intros A k m v. induction m as [|[k' v'] r IH]; simpl; [discriminate|].
  destruct (beqb k k') eqn:E.
  - intros H; inversion H; subst. apply beqb_eq in E; subst. left; reflexivity.
  - intros H; right; auto.
Qed.

Lemma assoc_none : forall {A} k (m : list (bytes * A)), assoc k m = None <-> ~ In k (map fst m).
Proof.
  intros A k m. induction m as [|[k' v'] r IH]; simpl.
  - tauto.
  - destruct (beqb k k') eqn:E.
    + apply beqb_eq in E; subst.
      split; [discriminate | intros H; exfalso; apply H; left; reflexivity].
    + apply beqb_false in E. rewrite IH.
      split; intros H; [intros [H1|H1]; [congruence | contradiction] | intros H1; apply H; right; exact H1].
Qed.

Lemma nodup_keys_NoDup : forall {A} (m : list (bytes * A)), nodup_keys m = true <-> NoDup (map fst m).
Proof.
  intros A m. induction m as [|[k v] r IH]; simpl.
  - split; [intros; constructor | reflexivity].
  - destruct (assoc k r) eqn:E.
    + split; [discriminate|]. intros H; inversion H; subst. exfalso.
      apply assoc_in in E. apply (in_map fst) in E. auto.
    + rewrite IH. apply assoc_none in E.
      split; intros H; [constructor; assumption | inversion H; assumption].
Qed.

Lemma in_assoc : forall {A} k v (m : list (bytes * A)),
  nodup_keys m = true -> In (k, v) m -> assoc k m = Some v.
Proof.
  intros A k v m. induction m as [|[k' v'] r IH]; simpl; [contradiction|].
  destruct (assoc k' r) eqn:E; [discriminate|]. intros Hn [H|H].
  - inversion H; subst. rewrite beqb_refl. reflexivity.
  - destruct (beqb k k') eqn:B; [|auto].
    apply beqb_eq in B; subst. apply assoc_none in E. exfalso; apply E.
    apply (in_map fst) in H. exact H.
Qed.

(* ------------------------------------------------------------------ *)
(* equal on arrays and objects, named                                   *)
(* ------------------------------------------------------------------ *)
Fixpoint arr_eq (a c : list value) {struct a} : bool :=
  match a, c with
  | [], [] => true
  | u :: a', v :: c' => equal u v && arr_eq a' c'
  | _, _ => false
  end.

Section ObjSub.
  Variable c : list (bytes * value).
  (* every member of a is found in c with an equal value *)
  Fixpoint obj_sub (a : list (bytes * value)) : bool :=
    match a with
    | [] => true
    | (k, u) :: a' => match assoc k c with Some v => equal u v | None => false end && obj_sub a'
    end.
End ObjSub.

Lemma equal_arr : forall a c, equal (VArr a) (VArr c) = arr_eq a c.
Proof. reflexivity. Qed.

Lemma equal_obj : forall a c,
  equal (VObj a) (VObj c) = (length a =? length c)%nat && obj_sub c a.
Proof. reflexivity. Qed.

Lemma obj_sub_spec : forall c a, obj_sub c a = true <->
  (forall k u, In (k, u) a -> exists v, assoc k c = Some v /\ equal u v = true).
Proof.
  intros c a. induction a as [|[k u] r IH].
  - simpl. split; [intros _ k u [] | reflexivity].
  - cbn [obj_sub]. rewrite andb_true_iff, IH. split.
    + intros [H1 H2] k' u' [E|H].
      * inversion E; subst. destruct (assoc k' c); [eauto | discriminate].
      * eauto.
    + intros H. split.
      * destruct (H k u (or_introl eq_refl)) as (v & -> & Hv). exact Hv.
      * intros; apply H; right; assumption.
Qed.

Lemma wf_arr : forall l, wf_value (VArr l) = true <-> Forall (fun x => wf_value x = true) l.
Proof.
  intros l. change (wf_value (VArr l)) with (forallb wf_value l).
  rewrite forallb_forall, Forall_forall. reflexivity.
Qed.

Lemma wf_obj : forall m, wf_value (VObj m) = true <->
  nodup_keys m = true /\ Forall (fun kv => wf_value (snd kv) = true) m.
Proof.
  intros m. change (wf_value (VObj m)) with (nodup_keys m && forallb (fun kv => wf_value (snd kv)) m).
  rewrite andb_true_iff, forallb_forall, Forall_forall. reflexivity.
Qed.

Lemma json_arr : forall l, json_value (VArr l) = true <-> Forall (fun x => json_value x = true) l.
Proof.
  intros l. change (json_value (VArr l)) with (forallb json_value l).
  rewrite forallb_forall, Forall_forall. reflexivity.
Qed.

Lemma json_obj : forall m, json_value (VObj m) = true <->
  nodup_keys m = true /\ Forall (fun kv => json_value (snd kv) = true) m.
Proof.
  intros m. change (json_value (VObj m)) with (nodup_keys m && forallb (fun kv => json_value (snd kv)) m).
  rewrite andb_true_iff, forallb_forall, Forall_forall. reflexivity.
Qed.

Lemma json_wf : forall x, json_value x = true -> wf_value x = true.
Proof.
  induction x as [ | b | s | n | a IH | a IH | t] using value_ind'; intros J; try reflexivity.
  - apply json_arr in J. apply wf_arr. rewrite Forall_forall in *. auto.
  - apply json_obj in J as [N J]. apply wf_obj. split; [exact N|].
    rewrite Forall_forall in *. auto.
Qed.

(* ------------------------------------------------------------------ *)
(* 1b. symmetry (needs unique keys on both sides, nothing else)         *)
(* ------------------------------------------------------------------ *)
Lemma arr_eq_sym : forall a,
  Forall (fun u => forall y, wf_value u = true -> wf_value y = true ->
                             equal u y = true -> equal y u = true) a ->
  forall c, Forall (fun u => wf_value u = true) a -> Forall (fun u => wf_value u = true) c ->
            arr_eq a c = true -> arr_eq c a = true.
Proof.
  induction 1 as [|u a Hu Ha IH]; intros [|v c] Wa Wc H; cbn [arr_eq] in *; try discriminate; auto.
  apply andb_true_iff in H as [H1 H2]. inversion Wa; inversion Wc; subst.
  apply andb_true_iff; split; auto.
Qed.

Lemma equal_sym_imp : forall x y, wf_value x = true -> wf_value y = true ->
  equal x y = true -> equal y x = true.
Proof.
  induction x as [ | a | a | n | a IH | a IH | t] using value_ind'; intros y Wx Wy H.
  - destruct y; simpl in H; try discriminate H. reflexivity.
  - destruct y; simpl in H; try discriminate H. apply Bool.eqb_prop in H; subst.
    simpl. apply Bool.eqb_reflx.
  - destruct y; simpl in H; try discriminate H. apply beqb_eq in H; subst.
    simpl. apply beqb_refl.
  - apply equal_num_inv in H as (n' & -> & [(s & -> & -> & K) | (p & q & E1 & E2 & H)]).
    + apply equal_num_text; exact K.
    + apply (equal_num_dec _ _ _ _ E2 E1). rewrite dec_equal_sym. exact H.
  - destruct y as [ | | | | c | | ]; try (simpl in H; discriminate H).
    rewrite equal_arr in *. apply wf_arr in Wx. apply wf_arr in Wy.
    eapply arr_eq_sym; eauto.
  - destruct y as [ | | | | | c | ]; try (simpl in H; discriminate H).
    rewrite equal_obj in *. apply andb_true_iff in H as [HL HS].
    apply Nat.eqb_eq in HL. apply wf_obj in Wx as [Na Wa]. apply wf_obj in Wy as [Nc Wc].
    apply andb_true_iff; split; [apply Nat.eqb_eq; auto|].
    rewrite obj_sub_spec in HS. apply obj_sub_spec. intros k v Hin.
    assert (Hincl : incl (map fst c) (map fst a)).
    { apply NoDup_length_incl.
      - apply nodup_keys_NoDup; exact Na.
      - rewrite !map_length. lia.
      - intros k' Hk'. apply in_map_iff in Hk' as ([k'' u'] & <- & Hu'). simpl.
        destruct (HS _ _ Hu') as (v' & Ev' & _). apply assoc_in in Ev'.
        apply (in_map fst) in Ev'. exact Ev'. }
    assert (Hk : In k (map fst a)) by (apply Hincl; apply (in_map fst) in Hin; exact Hin).
    destruct (assoc k a) as [u|] eqn:Eu; [|apply assoc_none in Eu; contradiction].
    exists u; split; [reflexivity|].
    pose proof (assoc_in _ _ _ Eu) as Hua.
    destruct (HS _ _ Hua) as (v' & Ev' & Hv').
    rewrite (in_assoc _ _ _ Nc Hin) in Ev'. inversion Ev'; subst v'.
    rewrite Forall_forall in IH, Wa, Wc.
    apply (IH (k, u) Hua); [apply (Wa (k, u) Hua) | apply (Wc (k, v) Hin) | exact Hv'].
  - simpl in H; discriminate H.
Qed.

Theorem equal_sym_wf : forall x y, wf_value x = true -> wf_value y = true -> equal x y = equal y x.
Proof.
  intros x y Wx Wy. destruct (equal x y) eqn:E1, (equal y x) eqn:E2; try reflexivity.
  - apply equal_sym_imp in E1; auto. congruence.
  - apply equal_sym_imp in E2; auto. congruence.
Qed.

Theorem equal_sym : forall x y, json_value x = true -> json_value y = true -> equal x y = equal y x.
Proof. intros x y Jx Jy. apply equal_sym_wf; apply json_wf; assumption. Qed.

(* symmetry is FALSE for Go values that are not maps (duplicate keys cannot
   occur in a Go map; the hypothesis only excludes junk of the model) *)
Example equal_sym_needs_unique_keys :
  let a := VObj [([107], VNull); ([107], VNull)] in
  let c := VObj [([107], VNull); ([106], VNull)] in
  equal a c = true /\ equal c a = false.
Proof. split; reflexivity. Qed.

(* ------------------------------------------------------------------ *)
(* 1c. transitivity: unconditional                                      *)
(* ------------------------------------------------------------------ *)
(* dec_equal is transitive on ALL decimals (NaN is equal to nothing) *)
Lemma dec_equal_trans_all : forall x y z,
  dec_equal x y = true -> dec_equal y z = true -> dec_equal x z = true.
Proof.
  intros x y z. unfold dec_equal.
  destruct x as [n1 c1 e1|a|], y as [n2 c2 e2|b|], z as [n3 c3 e3|c|];
    try (cbn; intros; discriminate).
  - destruct (dec_cmp_fin3 n1 c1 e1 n2 c2 e2 n3 c3 e3) as (p & q & r & E1 & E2 & E3).
    rewrite E1, E2, E3.
    destruct (Z.compare_spec p q), (Z.compare_spec q r), (Z.compare_spec p r);
      simpl; intros; try reflexivity; try discriminate; lia.
  - destruct c; simpl; intros; try reflexivity; try discriminate.
  - destruct b; simpl; intros; try reflexivity; try discriminate.
  - destruct b, c; simpl; intros; try reflexivity; try discriminate.
  - destruct a; simpl; intros; try reflexivity; try discriminate.
  - destruct a, c; simpl; intros; try reflexivity; try discriminate.
  - destruct a, b; simpl; intros; try reflexivity; try discriminate.
  - destruct a, b, c; simpl; intros; try reflexivity; try discriminate.
Qed.

Lemma arr_eq_trans : forall a,
  Forall (fun u => forall y z, equal u y = true -> equal y z = true -> equal u z = true) a ->
  forall b c, arr_eq a b = true -> arr_eq b c = true -> arr_eq a c = true.
Proof.
  induction 1 as [|u a Hu Ha IH]; intros [|v b] [|w c] H1 H2; cbn [arr_eq] in *;
    try discriminate; auto.
  apply andb_true_iff in H1 as [H1 H1']. apply andb_true_iff in H2 as [H2 H2'].
  apply andb_true_iff; split; eauto.
Qed.

Theorem equal_trans_all : forall x y z,
  equal x y = true -> equal y z = true -> equal x z = true.
Proof.
  induction x as [ | a | a | n | a IH | a IH | t] using value_ind'; intros y z H1 H2.
  - destruct y; simpl in H1; try discriminate H1. exact H2.
  - destruct y; simpl in H1; try discriminate H1. apply Bool.eqb_prop in H1; subst. exact H2.
  - destruct y; simpl in H1; try discriminate H1. apply beqb_eq in H1; subst. exact H2.
  - pose proof H1 as H1'. pose proof H2 as H2'.
    apply equal_num_inv in H1 as (n' & -> & [(s & -> & -> & K) | (p & q & E1 & E2 & H1)]);
      [exact H2'|].
    apply equal_num_inv in H2 as (n'' & -> & [(s & -> & -> & K) | (q' & r & E2' & E3 & H2)]);
      [exact H1'|].
    rewrite E2 in E2'. inversion E2'; subst q'.
    apply (equal_num_dec _ _ _ _ E1 E3). eapply dec_equal_trans_all; eauto.
  - destruct y as [ | | | | b | | ]; try (simpl in H1; discriminate H1).
    destruct z as [ | | | | c | | ]; try (simpl in H2; discriminate H2).
    rewrite equal_arr in *. eapply arr_eq_trans; eauto.
  - destruct y as [ | | | | | b | ]; try (simpl in H1; discriminate H1).
    destruct z as [ | | | | | c | ]; try (simpl in H2; discriminate H2).
    rewrite equal_obj in *.
    apply andb_true_iff in H1 as [L1 S1]. apply andb_true_iff in H2 as [L2 S2].
    apply Nat.eqb_eq in L1. apply Nat.eqb_eq in L2.
    apply andb_true_iff; split; [apply Nat.eqb_eq; congruence|].
    rewrite obj_sub_spec in *. intros k u Hin.
    destruct (S1 _ _ Hin) as (v & Ev & Huv).
    destruct (S2 _ _ (assoc_in _ _ _ Ev)) as (w & Ew & Hvw).
    exists w; split; [exact Ew|].
    rewrite Forall_forall in IH. exact (IH (k, u) Hin v w Huv Hvw).
  - simpl in H1; discriminate H1.
Qed.

(* the statement as asked (the hypotheses are not needed) *)
Theorem equal_trans : forall x y z,
  json_value x = true -> json_value y = true -> json_value z = true ->
  equal x y = true -> equal y z = true -> equal x z = true.
Proof. intros x y z _ _ _. apply equal_trans_all. Qed.

(* ------------------------------------------------------------------ *)
(* 4. numbers by value                                                  *)
(* ------------------------------------------------------------------ *)
Example equal_spellings :
  equal (VNum (NJson [49])) (VNum (NJson [49; 46; 48])) = true /\
  equal (VNum (NJson [49])) (VNum (NJson [49; 101; 48])) = true.  (* 1, 1.0, 1e0 *)
Proof. split; vm_compute; reflexivity. Qed.

(* the only texts that decode to NaN are "nan" in any case, optionally signed;
   none of them is JSON text *)
Lemma nan_text_not_json_text : forall s, map lower_byte s = [110; 97; 110] ->
  json_text_ok s = false /\ json_text_ok (45 :: s) = false /\ json_text_ok (43 :: s) = false.
Proof.
  intros s H. destruct s as [|a [|b [|c [|? ?]]]]; try discriminate H.
  inversion H as [[Ha Hb Hc]].
  assert (L : forall x y, lower_byte x = y -> x = y \/ x = y - 32).
  { intros x y E. unfold lower_byte in E. destruct ((65 <=? x) && (x <=? 90)); [right | left]; lia. }
  destruct (L _ _ Ha); destruct (L _ _ Hb); destruct (L _ _ Hc); subst a b c;
    repeat split; vm_compute; reflexivity.
Qed.

Lemma parse_dec_ok_or_nan : forall s d, parse_dec s = Some d ->
  dec_ok d \/ (d = DNaN /\ json_text_ok s = false).
Proof.
  intros s0 d. unfold parse_dec. destruct (strip_us false s0) as [s|] eqn:US; [|discriminate].
  (* the text "nan" has no digit, hence no separator was removed: s0 = s *)
  assert (ND : forall x, map lower_byte x = [110; 97; 110] ->
                         forallb (fun b => negb (is_digit b)) x = true).
  { intros x H. destruct x as [|a [|b [|c [|? ?]]]]; try discriminate H.
    inversion H as [[Ha Hb Hc]].
    assert (L : forall u v, lower_byte u = v -> 57 < v -> negb (is_digit u) = true).
    { intros u v E Hv. unfold lower_byte in E. unfold is_digit.
      destruct ((65 <=? u) && (u <=? 90)) eqn:C.
      - apply andb_true_iff in C as [C _]. apply Z.leb_le in C.
        destruct (Z.leb_spec u 57); [lia|]. rewrite andb_false_r. reflexivity.
      - destruct (Z.leb_spec u 57); [lia|]. rewrite andb_false_r. reflexivity. }
    cbn [forallb]. rewrite (L _ _ Ha), (L _ _ Hb), (L _ _ Hc) by lia. reflexivity. }
  rewrite parse_dec_alt. destruct s as [|b r]; [discriminate|].
  destruct (b =? 43) eqn:E43.
  { apply Z.eqb_eq in E43; subst b. destruct r as [|b' r']; [discriminate|].
    intros H. apply parse_dec_body_ok in H as [H|[-> H]]; [left; exact H|].
    right. split; [reflexivity|].
    rewrite (strip_us_nodigit _ _ US) by (apply (andb_true_intro (conj eq_refl (ND _ H)))).
    apply nan_text_not_json_text in H. tauto. }
  destruct (b =? 45) eqn:E45.
  { apply Z.eqb_eq in E45; subst b. destruct r as [|b' r']; [discriminate|].
    intros H. apply parse_dec_body_ok in H as [H|[-> H]]; [left; exact H|].
    right. split; [reflexivity|].
    rewrite (strip_us_nodigit _ _ US) by (apply (andb_true_intro (conj eq_refl (ND _ H)))).
    apply nan_text_not_json_text in H. tauto. }
  intros H. apply parse_dec_body_ok in H as [H|[-> H]]; [left; exact H|].
  right. split; [reflexivity|].
  rewrite (strip_us_nodigit _ _ US) by (exact (ND _ H)).
  apply nan_text_not_json_text in H. tauto.
Qed.

(* Numbers that decode compare by decimal value.  The textual shortcut never
   disagrees with the decimal comparison: it fires only on identical valid JSON
   text, whose decimal (if any) is not NaN and hence equal to itself. *)
Theorem equal_numbers : forall s t a b, parse_dec s = Some a -> parse_dec t = Some b ->
  equal (VNum (NJson s)) (VNum (NJson t)) = dec_equal a b.
Proof.
  intros s t a b Hs Ht. rewrite equal_num_l.
  change (to_decimal (VNum (NJson s))) with (parse_dec s).
  change (to_decimal (VNum (NJson t))) with (parse_dec t).
  rewrite Hs, Ht. destruct (num_short (NJson s) (VNum (NJson t))) eqn:S; [|reflexivity].
  apply num_short_inv in S as (s' & E1 & E2 & K). inversion E1; subst s'. inversion E2; subst t.
  rewrite Hs in Ht. inversion Ht; subst b.
  destruct (parse_dec_ok_or_nan _ _ Hs) as [O|[_ F]]; [|congruence].
  symmetry. apply dec_equal_refl. exact O.
Qed.

(* Numbers whose text does not decode are equal only to the same valid JSON
   text (this is the case the shortcut was added for). *)
Theorem equal_numbers_undecodable : forall s y, parse_dec s = None ->
  equal (VNum (NJson s)) y =
  match y with VNum (NJson t) => beqb s t && json_text_ok s | _ => false end.
Proof.
  intros s y Hs. rewrite equal_num_l.
  change (to_decimal (VNum (NJson s))) with (parse_dec s). rewrite Hs.
  destruct y as [ | | |[t| | | ]| | | ]; cbn [num_short]; try reflexivity.
  destruct (beqb s t && json_text_ok s); reflexivity.
Qed.

Theorem equal_numbers_undecodable_r : forall n t, parse_dec t = None ->
  equal (VNum n) (VNum (NJson t)) =
  match n with NJson s => beqb s t && json_text_ok s | _ => false end.
Proof.
  intros n t Ht. rewrite equal_num_l.
  change (to_decimal (VNum (NJson t))) with (parse_dec t). rewrite Ht.
  destruct n as [s| | | ]; cbn [num_short].
  - destruct (beqb s t && json_text_ok s); [reflexivity|]. destruct (to_decimal _); reflexivity.
  - reflexivity.
  - reflexivity.
  - reflexivity.
Qed.

(* a number is never equal to its string spelling, to a boolean or to null *)
Example equal_strict_examples :
  equal (VNum (NJson [49])) (VStr [49]) = false /\ equal (VStr [49]) (VNum (NJson [49])) = false /\
  equal (VNum (NJson [48])) (VBool false) = false /\ equal VNull (VBool false) = false /\
  equal (VArr []) (VObj []) = false /\ equal (VStr []) VNull = false.
Proof. repeat split; vm_compute; reflexivity. Qed.

(* ------------------------------------------------------------------ *)
(* 0'. a sufficient condition for decoding: no exponent part            *)
(* ------------------------------------------------------------------ *)
Lemma beqb_digit_head : forall b r x l, is_digit b = true -> 57 < x ->
  beqb (map lower_byte (b :: r)) (x :: l) = false.
Proof.
  intros b r x l D Hx. cbn [map beqb]. unfold is_digit in D.
  apply andb_true_iff in D as [D1 D2]. apply Z.leb_le in D1. apply Z.leb_le in D2.
  unfold lower_byte. destruct ((65 <=? b) && (b <=? 90)) eqn:E.
  - apply andb_true_iff in E as [E1 _]. apply Z.leb_le in E1. lia.
  - destruct (Z.eqb_spec b x); [lia | reflexivity].
Qed.

(* a plain literal that overflows is a range error *)
Definition no_inf (d : dec) : option dec := match d with DInf _ => None | d => Some d end.

Lemma parse_dec_body_plain : forall neg b s' ip ni r1 c nf nd,
  is_digit b = true -> take_digits (b :: s') 0 0 = (ip, ni, r1) ->
  pd_frac ip ni r1 = (c, nf, nd, []) -> nd <> 0 ->
  parse_dec_body neg (b :: s') = no_inf (fit neg c (- nf)).
Proof.
  intros neg b s' ip ni r1 c nf nd D T1 T2 Hnd. unfold parse_dec_body. cbv zeta.
  rewrite !(beqb_digit_head b s') by (first [exact D | lia]).
  cbn [orb]. rewrite T1. cbv beta iota.
  match goal with |- context [match ?T with pair _ _ => _ end] =>
    match T with context [r1] => change T with (pd_frac ip ni r1) end end.
  rewrite T2. cbv beta iota.
  destruct (Z.eqb_spec nd 0); [contradiction|].
  unfold no_inf. destruct (fit neg c (- nf)); reflexivity.
Qed.

Lemma digit_facts : forall d, is_digit d = true -> 48 <= d <= 57.
Proof.
  intros d D. unfold is_digit in D. apply andb_true_iff in D as [D1 D2].
  apply Z.leb_le in D1. apply Z.leb_le in D2. lia.
Qed.

Lemma jn_int_shape : forall s1 r1 r2,
  jn_int s1 = Some r1 -> jn_frac r1 = Some r2 -> jn_exp r2 = true ->
  exists b s', s1 = b :: s' /\ is_digit b = true /\ drest s1 = r1.
Proof.
  intros s1 r1 r2 JI JF JE. rewrite jn_int_alt in JI. destruct s1 as [|b r]; [discriminate|].
  exists b, r. destruct (Z.eqb_spec b 48) as [->|N48].
  - inversion JI; subst r1. split; [reflexivity|]. split; [reflexivity|].
    cbn [drest]. change (is_digit 48) with true. cbv iota.
    destruct r as [|d r']; [reflexivity|]. cbn [drest]. destruct (is_digit d) eqn:Dd; [|reflexivity].
    exfalso. apply digit_facts in Dd. rewrite jn_frac_alt in JF.
    destruct (Z.eqb_spec d 46); [lia|]. inversion JF; subst r2.
    unfold jn_exp in JE.
    destruct (Z.eqb_spec d 101); [lia|]. destruct (Z.eqb_spec d 69); [lia|]. discriminate JE.
  - destruct ((49 <=? b) && (b <=? 57)) eqn:D; [|discriminate].
    destruct (take_digits r 0 0) as [[x y] r'] eqn:T. inversion JI; subst r'.
    assert (Db : is_digit b = true).
    { unfold is_digit. apply andb_true_iff in D as [D1 D2]. apply Z.leb_le in D1.
      rewrite D2, andb_true_r. apply Z.leb_le. lia. }
    split; [reflexivity|]. split; [exact Db|]. cbn [drest]. rewrite Db.
    destruct (take_digits_bound r 0 0 0 _ _ _ ltac:(lia) ltac:(change (10 ^ 0) with 1; lia) T)
      as (_ & _ & _ & R). symmetry; exact R.
Qed.

Lemma frac_align : forall r1 r2 ip ni, jn_frac r1 = Some r2 -> 0 <= ni -> 0 <= ip < 10 ^ ni ->
  exists c nf nd, pd_frac ip ni r1 = (c, nf, nd, r2) /\ nd = ni + nf /\ 0 <= nf /\
    0 <= c < 10 ^ nd /\ nf + Z.of_nat (length r2) <= Z.of_nat (length r1) /\
    (forall P : Z -> bool, forallb P r1 = true -> forallb P r2 = true).
Proof.
  intros r1 r2 ip ni JF Hni Hip. rewrite jn_frac_alt in JF. rewrite pd_frac_alt.
  assert (Dflt : Some r1 = Some r2 ->
    exists c nf nd, (ip, 0, ni, r1) = (c, nf, nd, r2) /\ nd = ni + nf /\ 0 <= nf /\
      0 <= c < 10 ^ nd /\ nf + Z.of_nat (length r2) <= Z.of_nat (length r1) /\
      (forall P : Z -> bool, forallb P r1 = true -> forallb P r2 = true)).
  { intros H; inversion H; subst r2. exists ip, 0, ni. repeat split; try lia; auto. }
  destruct r1 as [|b r]; [exact (Dflt JF)|].
  destruct (b =? 46); [|exact (Dflt JF)]. clear Dflt.
  destruct (take_digits r 0 0) as [[x n] r'] eqn:TJ. destruct (n =? 0); [discriminate|].
  inversion JF; subst r'.
  destruct (take_digits r ip 0) as [[fp nfr] r''] eqn:TP.
  destruct (take_digits_bound r 0 0 0 _ _ _ ltac:(lia) ltac:(change (10 ^ 0) with 1; lia) TJ)
    as (_ & _ & _ & RJ).
  destruct (take_digits_bound r ip 0 ni _ _ _ Hni Hip TP) as (B & C & L & RP).
  replace (nfr - 0) with nfr in * by lia.
  assert (E : r'' = r2) by congruence. rewrite E in *. clear E RP.
  exists fp, nfr, (ni + nfr). repeat split; try lia.
  - change (length (b :: r)) with (S (length r)). rewrite Nat2Z.inj_succ. lia.
  - intros P H. rewrite RJ. apply forallb_drest. simpl in H. apply andb_true_iff in H as [_ H]. exact H.
Qed.

Lemma parse_dec_strip : forall t b s', strip_minus t = b :: s' -> is_digit b = true ->
  exists neg, parse_dec_plain t = parse_dec_body neg (strip_minus t).
Proof.
  intros t b s' H D. rewrite parse_dec_alt. rewrite strip_minus_alt in *.
  destruct t as [|z r]; [discriminate|]. destruct (Z.eqb_spec z 45) as [->|N45].
  - change (45 =? 43) with false. cbv iota. subst r. exists true. reflexivity.
  - inversion H; subst z r. apply digit_facts in D.
    destruct (Z.eqb_spec b 43); [lia|]. exists false. reflexivity.
Qed.

Definition no_exp (t : bytes) : bool := forallb (fun b => negb ((b =? 101) || (b =? 69))) t.

Lemma strip_minus_props : forall t,
  (length (strip_minus t) <= length t)%nat /\
  (forall P : Z -> bool, forallb P t = true -> forallb P (strip_minus t) = true).
Proof.
  intros t. rewrite strip_minus_alt. destruct t as [|b r]; [split; auto|].
  destruct (b =? 45); [|split; auto]. split; [simpl; lia|].
  intros P H. simpl in H. apply andb_true_iff in H as [_ H]. exact H.
Qed.

Lemma drest_length : forall s, (length (drest s) <= length s)%nat.
Proof.
  induction s as [|b r IH]; [simpl; lia|]. cbn [drest]. destruct (is_digit b); simpl in *; lia.
Qed.

(* exponent-free JSON number text decodes to the rounding of an exact
   coefficient/exponent pair, unless that rounding overflows *)
Lemma plain_core : forall t, json_number_ok t = true -> no_exp t = true ->
  exists neg c nf, parse_dec t = no_inf (fit neg c (- nf)) /\ 0 <= nf /\
                   0 <= c < 10 ^ Z.of_nat (length t).
Proof.
  intros t J NE. pose proof J as J0. rewrite json_number_ok_stages in J.
  destruct (jn_int (strip_minus t)) as [r1|] eqn:JI; [|discriminate].
  destruct (jn_frac r1) as [r2|] eqn:JF; [|discriminate].
  destruct (jn_int_shape _ _ _ JI JF J) as (b & s' & Es1 & Db & Er1).
  destruct (parse_dec_strip t b s' Es1 Db) as [neg Hp].
  destruct (strip_minus_props t) as [Ls Ps]. unfold no_exp in NE. apply Ps in NE.
  rewrite (parse_dec_json t J0), Hp. rewrite Es1 in *.
  destruct (take_digits (b :: s') 0 0) as [[ip ni] r1'] eqn:T1.
  destruct (take_digits_bound _ 0 0 0 _ _ _ ltac:(lia) ltac:(change (10 ^ 0) with 1; lia) T1)
    as (B & C & L & R).
  assert (E : r1' = r1) by congruence. rewrite E in *. clear E R.
  replace (0 + (ni - 0)) with ni in B by lia.
  assert (Hni : 1 <= ni).
  { simpl in T1. rewrite Db in T1. apply digit_facts in Db.
    assert (Hb : 0 <= b - 48 < 10 ^ 1) by (change (10 ^ 1) with 10; lia).
    destruct (take_digits_bound _ _ _ 1 _ _ _ ltac:(lia) Hb T1) as (_ & C' & _).
    exact C'. }
  destruct (frac_align r1 r2 ip ni JF ltac:(lia) B) as (c & nf & nd & F & End & Hnf & Bc & Lf & Pf).
  assert (NE2 : forallb (fun b => negb ((b =? 101) || (b =? 69))) r2 = true).
  { apply Pf. rewrite <- Er1. apply forallb_drest. exact NE. }
  assert (r2 = []).
  { destruct r2 as [|e r2']; [reflexivity|]. exfalso. unfold jn_exp in J. simpl in NE2.
    destruct ((e =? 101) || (e =? 69)); [discriminate NE2 | discriminate J]. }
  subst r2.
  exists neg, c, nf. split; [|split; [exact Hnf|]].
  - eapply parse_dec_body_plain; eauto. lia.
  - split; [lia|]. eapply Z.lt_le_trans; [apply Bc|].
    apply Z.pow_le_mono_r; [lia|]. simpl length in Lf. lia.
Qed.

(* item 0, second half (model level): an exponent-free JSON number either
   decodes to a FINITE decimal or is a range error (never NaN, never infinity) *)
Theorem json_number_plain_cases : forall t, json_number_ok t = true -> no_exp t = true ->
  parse_dec t = None \/ exists n c e, parse_dec t = Some (DFin n c e) /\ 0 <= c.
Proof.
  intros t J NE. destruct (plain_core t J NE) as (neg & c & nf & H & _ & Hc & _).
  pose proof (fit_ok neg c (- nf) Hc) as O. rewrite H.
  destruct (fit neg c (- nf)) as [n c' e'| |]; cbn [no_inf].
  - right. exists n, c', e'. split; [reflexivity | exact O].
  - left; reflexivity.
  - destruct O.
Qed.

Lemma fit_finite : forall neg c e, 0 <= c -> e <= 0 -> digits c <= 6144 ->
  exists c' e', fit neg c e = DFin neg c' e'.
Proof.
  intros neg c e Hc He Hd. unfold fit.
  destruct (round_coef c e) as [c' e'] eqn:R.
  assert (He' : e' <= 6111).
  { unfold round_coef in R. cbv zeta in R. unfold prec34 in *.
    destruct (digits c <=? 34); [inversion R; lia|].
    match type of R with context [if ?b then _ else _] => destruct b end; inversion R; lia. }
  destruct (c' =? 0); [eauto|].
  destruct (Z.gtb_spec e' emax) as [G|G]; [unfold emax in G; lia|].
  destruct (e' <? emin); [cbv zeta; destruct (_ >? _); eauto | eauto].
Qed.

Lemma digits_le : forall c L, 0 <= c < 10 ^ L -> 0 <= L -> digits c <= L.
Proof.
  intros c L Hc HL. destruct (Z.eq_dec c 0) as [->|N]; [rewrite digits_nonpos by lia; lia|].
  pose proof (digits_spec c ltac:(lia)) as [H1 _].
  destruct (Z_lt_le_dec L (digits c)) as [G|G]; [|lia]. exfalso.
  assert (10 ^ L <= 10 ^ (digits c - 1)) by (apply Z.pow_le_mono_r; lia). lia.
Qed.

(* ... and it does decode, to a finite decimal, when the text is at most 6144
   bytes long (emax + 34 - 1; 6145 nines overflow, and see
   [json_number_plain_overflow] below) *)
Theorem json_number_plain_finite : forall t, json_number_ok t = true -> no_exp t = true ->
  Z.of_nat (length t) <= 6144 -> exists n c e, parse_dec t = Some (DFin n c e) /\ 0 <= c.
Proof.
  intros t J NE Len. destruct (plain_core t J NE) as (neg & c & nf & H & Hnf & Hc).
  assert (Hd : digits c <= 6144).
  { pose proof (digits_le c (Z.of_nat (length t)) Hc ltac:(lia)). lia. }
  destruct (fit_finite neg c (- nf) ltac:(lia) ltac:(lia) Hd) as (c' & e' & F).
  exists neg, c', e'. split; [rewrite H, F; reflexivity|].
  pose proof (fit_ok neg c (- nf) ltac:(lia)) as O. rewrite F in O. exact O.
Qed.

Theorem json_number_plain_decodes : forall t, json_number_ok t = true -> no_exp t = true ->
  Z.of_nat (length t) <= 6144 -> exists d, parse_dec t = Some d /\ dec_ok d.
Proof.
  intros t J NE Len. destruct (json_number_plain_finite t J NE Len) as (n & c & e & H & Hc).
  exists (DFin n c e). split; [exact H | exact Hc].
Qed.

(* with or without exponent: a JSON number that decodes is FINITE (an overflow
   is a range error on both paths of parse_dec_body, and the texts "inf" /
   "infinity" are not JSON) *)
Lemma parse_dec_body_digit_fin : forall neg b s' d, is_digit b = true ->
  parse_dec_body neg (b :: s') = Some d -> exists n c e, d = DFin n c e.
Proof.
  intros neg b s' d D H0.
  assert (NN : d <> DNaN).
  { destruct (parse_dec_body_ok _ _ _ H0) as [O|[_ E]]; [intros ->; exact O|].
    pose proof (beqb_digit_head b s' 110 [97; 110] D ltac:(lia)) as F.
    rewrite E, beqb_refl in F. discriminate F. }
  revert H0. unfold parse_dec_body. cbv zeta.
  rewrite !(beqb_digit_head b s') by (first [exact D | lia]). cbn [orb].
  destruct (take_digits (b :: s') 0 0) as [[ip ni] r1].
  match goal with
  | |- context [match ?T with pair _ _ => _ end] =>
    match T with context [r1] => destruct T as [[[c nf] nd] r2] end
  end.
  destruct (nd =? 0); [intros H; apply lone_point_eq in H; subst d; eauto|].
  destruct r2 as [|b2 r].
  { destruct (fit neg c (- nf)); intros H; inversion H; subst; first [congruence | eauto]. }
  destruct ((b2 =? 101) || (b2 =? 69)); [|discriminate].
  match goal with |- (let '(eneg, r') := ?T in _) = _ -> _ => destruct T as [eneg r'] end.
  destruct (take_digits r' 0 0) as [[ev ne] r''].
  destruct (_ || _); [discriminate|].
  destruct (ne >? 8).
  - destruct (c =? 0); [intros H; inversion H; eauto|].
    destruct eneg; [intros H; inversion H; eauto | discriminate].
  - match goal with |- match ?F with _ => _ end = _ -> _ => destruct F end;
      intros H; inversion H; subst; first [congruence | eauto].
Qed.

Theorem json_number_dec_finite : forall t d,
  json_number_ok t = true -> parse_dec t = Some d -> exists n c e, d = DFin n c e /\ 0 <= c.
Proof.
  intros t d J H. pose proof (json_number_dec_ok t d J H) as O. pose proof J as J0.
  rewrite json_number_ok_stages in J.
  destruct (jn_int (strip_minus t)) as [r1|] eqn:JI; [|discriminate].
  destruct (jn_frac r1) as [r2|] eqn:JF; [|discriminate].
  destruct (jn_int_shape _ _ _ JI JF J) as (b & s' & Es1 & Db & _).
  destruct (parse_dec_strip t b s' Es1 Db) as [neg Hp].
  rewrite (parse_dec_json t J0), Hp, Es1 in H. apply parse_dec_body_digit_fin in H as (n & c & e & ->); [|exact Db].
  exists n, c, e. split; [reflexivity | exact O].
Qed.

(* Without a length bound the statement is FALSE: Num/Dec.v reports a range
   error for an overflowing plain literal (as decimal128.Parse does).  The
   literal 1 followed by n >= 6145 zeros (10^n, above the largest decimal128
   9.99..e6144) is RFC 8259 text without exponent and does not decode. *)
Lemma digits_pow10 : forall k, 0 <= k -> digits (10 ^ k) = k + 1.
Proof.
  intros k Hk. assert (P : 0 < 10 ^ k) by (apply Z.pow_pos_nonneg; lia).
  apply digits_unique; [exact P|].
  replace (k + 1 - 1) with k by lia. split; [lia|].
  rewrite Z.pow_add_r by lia. change (10 ^ 1) with 10. lia.
Qed.

Lemma drop_digits_pow10 : forall k j, 1 <= j <= k -> drop_digits (10 ^ k) j = 10 ^ (k - j).
Proof.
  intros k j H. unfold drop_digits, pow10. cbv zeta.
  assert (P : 0 < 10 ^ j) by (apply Z.pow_pos_nonneg; lia).
  assert (Q : 0 < 10 ^ (j - 1)) by (apply Z.pow_pos_nonneg; lia).
  replace (10 ^ k) with (10 ^ (k - j) * 10 ^ j) by (rewrite <- Z.pow_add_r by lia; f_equal; lia).
  rewrite Z.div_mul by lia. rewrite Z.mod_mul by lia.
  destruct (Z.gtb_spec 0 (5 * 10 ^ (j - 1))); [lia|].
  destruct (Z.eqb_spec 0 (5 * 10 ^ (j - 1))); [lia | reflexivity].
Qed.

Lemma fit_pow10_overflow : forall neg k, 6145 <= k -> fit neg (10 ^ k) 0 = DInf neg.
Proof.
  intros neg k Hk. unfold fit, round_coef. cbv zeta. unfold prec34, emax.
  rewrite digits_pow10 by lia.
  destruct (Z.leb_spec (k + 1) 34); [lia|].
  rewrite drop_digits_pow10 by lia.
  replace (k - (k + 1 - 34)) with 33 by lia.
  rewrite (digits_pow10 33) by lia. change (33 + 1 >? 34) with false. cbv iota.
  assert (P : 0 < 10 ^ 33) by (apply Z.pow_pos_nonneg; lia).
  destruct (Z.eqb_spec (10 ^ 33) 0); [lia|].
  destruct (Z.gtb_spec (0 + (k + 1 - 34)) 6111); [|lia].
  rewrite (digits_pow10 33) by lia.
  destruct (Z.leb_spec (33 + 1 + (0 + (k + 1 - 34) - 6111)) 34); [lia | reflexivity].
Qed.

Lemma take_digits_zeros : forall n acc m,
  take_digits (repeat 48 n) acc m = (acc * 10 ^ Z.of_nat n, m + Z.of_nat n, []).
Proof.
  induction n as [|n IH]; intros acc m.
  - simpl. repeat (f_equal; try lia).
  - cbn [repeat take_digits]. change (is_digit 48) with true. cbv iota. rewrite IH.
    rewrite Nat2Z.inj_succ, Z.pow_succ_r by lia. repeat (f_equal; try lia).
Qed.

Theorem json_number_plain_overflow : forall n, 6145 <= Z.of_nat n ->
  let t := 49 :: repeat 48 n in
  json_number_ok t = true /\ no_exp t = true /\ parse_dec t = None.
Proof.
  intros n Hn t. subst t.
  assert (J : json_number_ok (49 :: repeat 48 n) = true); [|split; [exact J|split]].
  - rewrite json_number_ok_stages.
    change (strip_minus (49 :: repeat 48 n)) with (49 :: repeat 48 n).
    change (jn_int (49 :: repeat 48 n))
      with (let '(_, _, r') := take_digits (repeat 48 n) 0 0 in Some r').
    rewrite take_digits_zeros. reflexivity.
  - unfold no_exp. apply forallb_forall. intros b [<-|Hb]; [reflexivity|].
    apply repeat_spec in Hb. subst b. reflexivity.
  - rewrite (parse_dec_json _ J), parse_dec_alt. change (49 =? 43) with false. change (49 =? 45) with false. cbv iota.
    rewrite (parse_dec_body_plain false 49 (repeat 48 n) (10 ^ Z.of_nat n) (1 + Z.of_nat n) []
               (10 ^ Z.of_nat n) 0 (1 + Z.of_nat n)).
    + change (- 0) with 0. rewrite fit_pow10_overflow by lia. reflexivity.
    + reflexivity.
    + cbn [take_digits]. change (is_digit 49) with true. cbv iota. rewrite take_digits_zeros.
      repeat (f_equal; try lia).
    + reflexivity.
    + lia.
Qed.

(* ------------------------------------------------------------------ *)
(* 0''. the RFC 8259 number checker implies the JSON text parser        *)
(* ------------------------------------------------------------------ *)
(* jnumber of Json/JsonText.v cut into the same stages as json_number_ok (same
   source text, so the stage equation holds by conversion); each stage also
   counts the bytes it consumed *)
Definition jv_n0 (s : bytes) : Z := match s with 45 :: _ => 1 | _ => 0 end.
Definition jv_int (s1 : bytes) : option (Z * bytes) :=
  match s1 with
  | 48 :: r => Some (1, r)
  | b :: r => if (49 <=? b) && (b <=? 57) then let '(_, n, r') := take_digits r 0 0 in Some (1 + n, r') else None
  | [] => None
  end.
Definition jv_frac (r1 : bytes) : option (Z * bytes) :=
  match r1 with
  | 46 :: r => let '(_, n, r') := take_digits r 0 0 in if n =? 0 then None else Some (1 + n, r')
  | _ => Some (0, r1)
  end.
Definition jv_sign (r : bytes) : Z * bytes :=
  match r with 45 :: t => (1, t) | 43 :: t => (1, t) | _ => (0, r) end.
Definition jn_sign (r : bytes) : bytes :=
  match r with 45 :: t => t | 43 :: t => t | _ => r end.
Definition jv_exp (r2 : bytes) : option (Z * bytes) :=
  match r2 with
  | b :: r =>
    if (b =? 101) || (b =? 69) then
      let '(ns, r') := jv_sign r in
      let '(_, n, r'') := take_digits r' 0 0 in
      if n =? 0 then None else Some (1 + ns + n, r'')
    else Some (0, r2)
  | [] => Some (0, r2)
  end.

Lemma jnumber_stages : forall s, jnumber s =
  match jv_int (skipn (Z.to_nat (jv_n0 s)) s) with
  | None => None
  | Some (ni, r1) =>
    match jv_frac r1 with
    | None => None
    | Some (nf, r2) =>
      match jv_exp r2 with
      | None => None
      | Some (ne, r3) => Some (firstn (Z.to_nat (jv_n0 s + ni + nf + ne)) s, r3)
      end
    end
  end.
Proof. reflexivity. Qed.

Lemma jv_n0_strip : forall s,
  skipn (Z.to_nat (jv_n0 s)) s = strip_minus s /\
  jv_n0 s + Z.of_nat (length (strip_minus s)) = Z.of_nat (length s).
Proof.
  intros s. destruct s as [|[|p|p] r]; try (split; reflexivity).
  do 6 (destruct p as [p|p|]; try (split; reflexivity)).
  unfold jv_n0, strip_minus. change (Z.to_nat 1) with 1%nat. cbn [skipn]. split; [reflexivity|].
  change (length (45 :: r)) with (S (length r)). lia.
Qed.

Lemma take_digits_len : forall r a n r', take_digits r 0 0 = (a, n, r') ->
  0 <= n /\ n + Z.of_nat (length r') = Z.of_nat (length r).
Proof.
  intros r a n r' T.
  destruct (take_digits_bound r 0 0 0 _ _ _ ltac:(lia) ltac:(change (10 ^ 0) with 1; lia) T)
    as (_ & C & L & _). lia.
Qed.

Lemma jv_int_of_jn : forall s1 r1, jn_int s1 = Some r1 ->
  exists ni, jv_int s1 = Some (ni, r1) /\ ni + Z.of_nat (length r1) = Z.of_nat (length s1).
Proof.
  intros s1 r1 H.
  assert (A : jv_int s1 =
    match s1 with
    | [] => None
    | b :: r =>
      if b =? 48 then Some (1, r)
      else if (49 <=? b) && (b <=? 57) then let '(_, n, r') := take_digits r 0 0 in Some (1 + n, r') else None
    end).
  { destruct s1 as [|[|p|p] r]; try reflexivity.
    do 6 (destruct p as [p|p|]; try reflexivity). }
  rewrite A. rewrite jn_int_alt in H. destruct s1 as [|b r]; [discriminate|].
  destruct (b =? 48).
  - inversion H; subst r1. exists 1. split; [reflexivity|].
    change (length (b :: r)) with (S (length r)). lia.
  - destruct ((49 <=? b) && (b <=? 57)); [|discriminate].
    destruct (take_digits r 0 0) as [[x n] r'] eqn:T. inversion H; subst r'.
    apply take_digits_len in T. exists (1 + n). split; [reflexivity|].
    change (length (b :: r)) with (S (length r)). lia.
Qed.

Lemma jv_frac_of_jn : forall r1 r2, jn_frac r1 = Some r2 ->
  exists nf, jv_frac r1 = Some (nf, r2) /\ nf + Z.of_nat (length r2) = Z.of_nat (length r1).
Proof.
  intros r1 r2 H.
  assert (A : jv_frac r1 =
    match r1 with
    | [] => Some (0, r1)
    | b :: r =>
      if b =? 46 then let '(_, n, r') := take_digits r 0 0 in if n =? 0 then None else Some (1 + n, r')
      else Some (0, r1)
    end).
  { destruct r1 as [|[|p|p] r]; try reflexivity.
    do 6 (destruct p as [p|p|]; try reflexivity). }
  rewrite A. rewrite jn_frac_alt in H. destruct r1 as [|b r].
  - inversion H; subst r2. exists 0. split; [reflexivity | lia].
  - destruct (b =? 46).
    + destruct (take_digits r 0 0) as [[x n] r'] eqn:T. destruct (n =? 0); [discriminate|].
      inversion H; subst r'. apply take_digits_len in T. exists (1 + n). split; [reflexivity|].
      change (length (b :: r)) with (S (length r)). lia.
    + inversion H; subst r2. exists 0. split; [reflexivity | lia].
Qed.

Lemma jv_sign_of_jn : forall r, exists ns,
  jv_sign r = (ns, jn_sign r) /\ ns + Z.of_nat (length (jn_sign r)) = Z.of_nat (length r).
Proof.
  intros r.
  destruct r as [|[|p|p] t]; try (exists 0; split; [reflexivity | unfold jn_sign; lia]).
  do 6 (destruct p as [p|p|];
        try first [ exists 0; split; [reflexivity | unfold jn_sign; lia]
                  | exists 1; split; [reflexivity | unfold jn_sign; cbn [length]; lia] ]).
Qed.

Lemma jv_exp_of_jn : forall r2, jn_exp r2 = true ->
  exists ne, jv_exp r2 = Some (ne, []) /\ ne = Z.of_nat (length r2).
Proof.
  intros r2 H. destruct r2 as [|b r]; [exists 0; split; reflexivity|].
  unfold jn_exp in H. unfold jv_exp. destruct ((b =? 101) || (b =? 69)); [|discriminate].
  change (match r with 45 :: t1 => t1 | 43 :: t2 => t2 | _ => r end) with (jn_sign r) in H.
  destruct (jv_sign_of_jn r) as (ns & -> & Ls).
  destruct (take_digits (jn_sign r) 0 0) as [[x n] r''] eqn:T.
  apply andb_true_iff in H as [H1 H2]. destruct r'' as [|? ?]; [|discriminate].
  destruct (n =? 0); [discriminate|]. apply take_digits_len in T.
  exists (1 + ns + n). split; [reflexivity|].
  change (length (b :: r)) with (S (length r)). simpl length in T. lia.
Qed.

(* the scanner of the JSON parser accepts exactly the text the checker accepts,
   all of it *)
Lemma jnumber_of_ok : forall t, json_number_ok t = true -> jnumber t = Some (t, []).
Proof.
  intros t J. rewrite json_number_ok_stages in J. rewrite jnumber_stages.
  destruct (jv_n0_strip t) as [-> L0].
  destruct (jn_int (strip_minus t)) as [r1|] eqn:JI; [|discriminate].
  destruct (jn_frac r1) as [r2|] eqn:JF; [|discriminate].
  destruct (jv_int_of_jn _ _ JI) as (ni & -> & Li).
  destruct (jv_frac_of_jn _ _ JF) as (nf & -> & Lf).
  destruct (jv_exp_of_jn _ J) as (ne & -> & Le).
  replace (jv_n0 t + ni + nf + ne) with (Z.of_nat (length t)) by lia.
  rewrite Nat2Z.id, firstn_all. reflexivity.
Qed.

(* JSON number text starts with '-' or a digit *)
Lemma json_number_head : forall t, json_number_ok t = true ->
  exists b r, t = b :: r /\ (b = 45 \/ 48 <= b <= 57).
Proof.
  intros t J. pose proof J as J'. rewrite json_number_ok_stages in J'.
  destruct (jn_int (strip_minus t)) as [r1|] eqn:JI; [|discriminate].
  destruct (jn_frac r1) as [r2|] eqn:JF; [|discriminate].
  destruct (jn_int_shape _ _ _ JI JF J') as (b & s' & Es1 & Db & _).
  rewrite strip_minus_alt in Es1. destruct t as [|z r]; [discriminate|].
  exists z, r. split; [reflexivity|]. destruct (Z.eqb_spec z 45) as [->|N]; [left; reflexivity|].
  inversion Es1; subst. right. apply digit_facts; exact Db.
Qed.

(* on such text the value parser goes straight to the number scanner *)
Lemma jvalue_number : forall f d b r, b = 45 \/ 48 <= b <= 57 ->
  jvalue (S f) d (b :: r) =
  match jnumber (b :: r) with Some (t, r') => Some (VNum (NJson t), r') | None => None end.
Proof.
  intros f d b r H.
  assert (E : b = 45 \/ b = 48 \/ b = 49 \/ b = 50 \/ b = 51 \/ b = 52 \/ b = 53 \/ b = 54 \/
              b = 55 \/ b = 56 \/ b = 57) by lia.
  repeat (destruct E as [->|E]; [reflexivity|]). subst b. reflexivity.
Qed.

(* THE INCLUSION: every text the RFC 8259 number grammar accepts is a JSON text
   for the decoder, and it decodes to that very json.Number *)
Theorem json_number_parses : forall t, json_number_ok t = true ->
  json_parse t = Some (VNum (NJson t)).
Proof.
  intros t J. destruct (json_number_head t J) as (b & r & E & Hb).
  unfold json_parse. rewrite E at 2. rewrite jvalue_number by exact Hb.
  rewrite <- E. rewrite (jnumber_of_ok t J). reflexivity.
Qed.

Corollary json_number_text_ok : forall t, json_number_ok t = true -> json_text_ok t = true.
Proof. intros t J. unfold json_text_ok. rewrite (json_number_parses t J). reflexivity. Qed.

Corollary json_number_parse_ex : forall t, json_number_ok t = true -> exists v, json_parse t = Some v.
Proof. intros t J. rewrite (json_number_parses t J). eauto. Qed.

(* ------------------------------------------------------------------ *)
(* 1a. reflexivity on ALL JSON values                                   *)
(* ------------------------------------------------------------------ *)
Lemma arr_eq_refl : forall a, Forall (fun x => equal x x = true) a -> arr_eq a a = true.
Proof.
  induction 1 as [|x a Hx _ IH]; cbn [arr_eq]; [reflexivity|]. rewrite Hx, IH. reflexivity.
Qed.

Theorem equal_refl : forall x, json_value x = true -> equal x x = true.
Proof.
  induction x as [ | b | s | n | a IH | a IH | t] using value_ind'; intros J.
  - reflexivity.
  - simpl. apply Bool.eqb_reflx.
  - simpl. apply beqb_refl.
  - destruct n as [t | | | ]; try discriminate J.
    change (json_value (VNum (NJson t))) with (json_number_ok t) in J.
    apply equal_num_text. apply json_number_text_ok. exact J.
  - rewrite equal_arr. apply json_arr in J. apply arr_eq_refl.
    rewrite Forall_forall in *. auto.
  - rewrite equal_obj. apply json_obj in J as [N J].
    rewrite Nat.eqb_refl. cbn [andb]. apply obj_sub_spec. rewrite Forall_forall in *.
    intros k u Hin. exists u. split; [apply in_assoc; assumption|].
    apply (IH (k, u) Hin (J (k, u) Hin)).
  - discriminate J.
Qed.

(* the version with an explicit premise instead of the inclusion theorem: it
   also covers number leaves that are not RFC 8259 text but still JSON text *)
Fixpoint num_leaves (Q : num -> Prop) (v : value) {struct v} : Prop :=
  match v with
  | VNum n => Q n
  | VArr l =>
    (fix all (l : list value) : Prop :=
       match l with [] => True | x :: r => num_leaves Q x /\ all r end) l
  | VObj m =>
    (fix all (m : list (bytes * value)) : Prop :=
       match m with [] => True | (_, x) :: r => num_leaves Q x /\ all r end) m
  | _ => True
  end.

Lemma num_leaves_arr : forall Q l, num_leaves Q (VArr l) <-> Forall (num_leaves Q) l.
Proof.
  intros Q. induction l as [|x r IH].
  - split; intros; constructor.
  - change (num_leaves Q (VArr (x :: r))) with (num_leaves Q x /\ num_leaves Q (VArr r)).
    rewrite IH, Forall_cons_iff. reflexivity.
Qed.

Lemma num_leaves_obj : forall Q m,
  num_leaves Q (VObj m) <-> Forall (fun kv => num_leaves Q (snd kv)) m.
Proof.
  intros Q. induction m as [|[k x] r IH].
  - split; intros; constructor.
  - change (num_leaves Q (VObj ((k, x) :: r))) with (num_leaves Q x /\ num_leaves Q (VObj r)).
    rewrite IH, Forall_cons_iff. reflexivity.
Qed.

(* no opaque Go value anywhere inside *)
Fixpoint no_foreign (v : value) : bool :=
  match v with
  | VForeign _ => false
  | VArr l => forallb no_foreign l
  | VObj m => forallb (fun kv => no_foreign (snd kv)) m
  | _ => true
  end.

(* exact characterisation of reflexivity on well-formed Go values: no opaque
   value inside, and every number leaf is equal to itself *)
Theorem equal_refl_iff : forall x, wf_value x = true ->
  (equal x x = true <->
   no_foreign x = true /\ num_leaves (fun n => equal (VNum n) (VNum n) = true) x).
Proof.
  induction x as [ | b | s | n | a IH | a IH | t] using value_ind'; intros W.
  - simpl; tauto.
  - simpl. rewrite Bool.eqb_reflx. tauto.
  - simpl. rewrite beqb_refl. tauto.
  - cbn [num_leaves no_foreign]. tauto.
  - rewrite equal_arr, num_leaves_arr. apply wf_arr in W.
    change (no_foreign (VArr a)) with (forallb no_foreign a). rewrite forallb_forall.
    rewrite Forall_forall in *. split.
    + intros H. assert (K : forall u, In u a -> equal u u = true).
      { clear IH W. induction a as [|v a IHa]; intros u [].
        - subst. cbn [arr_eq] in H. apply andb_true_iff in H as [H _]. exact H.
        - cbn [arr_eq] in H. apply andb_true_iff in H as [_ H]. auto. }
      split; intros u Hu; apply (IH u Hu (W u Hu)); auto.
    + intros [F N]. apply arr_eq_refl. apply Forall_forall. intros u Hu.
      apply (IH u Hu (W u Hu)). auto.
  - rewrite equal_obj, num_leaves_obj. apply wf_obj in W as [N W].
    change (no_foreign (VObj a)) with (forallb (fun kv => no_foreign (snd kv)) a).
    rewrite forallb_forall.
    rewrite Nat.eqb_refl. cbn [andb]. rewrite obj_sub_spec. rewrite Forall_forall in *. split.
    + intros H. assert (K : forall kv, In kv a -> equal (snd kv) (snd kv) = true).
      { intros [k u] Hin. destruct (H k u Hin) as (v & Ev & Hv).
        rewrite (in_assoc _ _ _ N Hin) in Ev. inversion Ev; subst v. exact Hv. }
      split; intros kv Hin; apply (IH kv Hin (W kv Hin)); auto.
    + intros [F L] k u Hin. exists u. split; [apply in_assoc; assumption|].
      apply (IH (k, u) Hin (W (k, u) Hin)). split; [apply (F (k, u) Hin) | apply (L (k, u) Hin)].
  - simpl. split; [discriminate | intros [F _]; discriminate].
Qed.

(* a number leaf is equal to itself iff it is valid JSON text or it decodes to
   something other than NaN *)
Lemma equal_num_refl_iff : forall n,
  equal (VNum n) (VNum n) = true <->
  (exists s, n = NJson s /\ json_text_ok s = true) \/
  (exists d, to_decimal (VNum n) = Some d /\ dec_equal d d = true).
Proof.
  intros n. split.
  - intros H. apply equal_num_inv in H as (n' & E & [(s & -> & _ & K) | (a & b & E1 & E2 & H)]).
    + left. eauto.
    + inversion E; subst n'. rewrite E1 in E2. inversion E2; subst b. right. eauto.
  - intros [(s & -> & K) | (d & E & H)].
    + apply equal_num_text; exact K.
    + eapply equal_num_dec; eauto.
Qed.

(* reflexivity from an explicit premise on the number leaves only (does not use
   the inclusion theorem [json_number_parses]) *)
Theorem equal_refl_premise : forall x, wf_value x = true -> no_foreign x = true ->
  num_leaves (fun n => match n with NJson t => json_parse t <> None | _ => False end) x ->
  equal x x = true.
Proof.
  intros x W F L. apply equal_refl_iff; [exact W|]. split; [exact F|].
  clear W F. induction x as [ | b | s | n | a IH | a IH | t] using value_ind'; try exact I.
  - cbn [num_leaves] in *. destruct n as [t| | | ]; try contradiction.
    apply equal_num_text. unfold json_text_ok. destruct (json_parse t); [reflexivity | contradiction].
  - apply num_leaves_arr in L. apply num_leaves_arr. rewrite Forall_forall in *. auto.
  - apply num_leaves_obj in L. apply num_leaves_obj. rewrite Forall_forall in *. auto.
Qed.

(* FIXED FINDING (was [equal_refl_refuted]): 1e7000 is a valid JSON number that
   no decimal128 can hold; it is now equal to itself, inside arrays and objects
   too, contains() finds it and != is false on it. *)
Example equal_big_number_refl :
  let x := VNum (NJson big_number) in
  json_value x = true /\ to_decimal x = None /\ equal x x = true /\
  equal (VArr [x]) (VArr [x]) = true /\
  equal (VObj [([97], x)]) (VObj [([97], x)]) = true /\
  contains (VArr [x]) x = Ok (VBool true) /\
  binop_eval ONe x x = Ok (VBool false) /\ binop_eval OEq x x = Ok (VBool true).
Proof. repeat split; vm_compute; reflexivity. Qed.

(* general consequences of reflexivity *)
Corollary ne_self_false : forall x, json_value x = true ->
  binop_eval ONe x x = Ok (VBool false) /\ binop_eval OEq x x = Ok (VBool true).
Proof.
  intros x J. destruct (ne_is_negation x x) as [-> ->]. rewrite (equal_refl x J). split; reflexivity.
Qed.

Corollary contains_member : forall l x, json_value x = true -> In x l ->
  contains (VArr l) x = Ok (VBool true).
Proof.
  intros l x J Hin. rewrite contains_uses_equal.
  replace (existsb (fun y => equal y x) l) with true; [reflexivity|].
  symmetry. apply existsb_exists. exists x. split; [exact Hin | apply equal_refl; exact J].
Qed.

(* REMAINING LIMIT of the textual shortcut: numbers outside the decimal128 range
   are compared as text only, so two spellings of one such value differ, and a
   number that no decimal holds is never equal to a different text *)
Example equal_big_numbers_textual :
  let x := VNum (NJson big_number) in                                   (* 1e7000 *)
  let y := VNum (NJson [49; 48; 101; 54; 57; 57; 57]) in                (* 10e6999 *)
  let z := VNum (NJson [49; 69; 55; 48; 48; 48]) in                     (* 1E7000 *)
  json_value y = true /\ json_value z = true /\
  equal x y = false /\ equal x z = false /\ equal y x = false /\ equal z x = false.
Proof. repeat split; vm_compute; reflexivity. Qed.

(* outside JSON: opaque Go values are never equal, not even to themselves *)
Example equal_foreign_irreflexive : forall t, equal (VForeign t) (VForeign t) = false.
Proof. reflexivity. Qed.

(* ------------------------------------------------------------------ *)
(* 3. objects compare regardless of member order                        *)
(* ------------------------------------------------------------------ *)
Theorem equal_obj_perm : forall m m', nodup_keys m = true -> Permutation m m' ->
  json_value (VObj m) = true -> equal (VObj m) (VObj m') = true.
Proof.
  intros m m' N P J. rewrite equal_obj.
  rewrite (Permutation_length P), Nat.eqb_refl. cbn [andb].
  apply obj_sub_spec. intros k u Hin.
  assert (N' : nodup_keys m' = true).
  { apply nodup_keys_NoDup. eapply Permutation_NoDup; [apply Permutation_map; exact P|].
    apply nodup_keys_NoDup; exact N. }
  exists u. split; [apply in_assoc; [exact N' | eapply Permutation_in; eauto]|].
  apply json_obj in J as [_ J]. rewrite Forall_forall in *.
  apply equal_refl. apply (J (k, u) Hin).
Qed.

(* and the permuted object is again a JSON value, so all the theorems apply to it *)
Lemma json_value_perm : forall m m', Permutation m m' ->
  json_value (VObj m) = true -> json_value (VObj m') = true.
Proof.
  intros m m' P J. apply json_obj in J as [N J]. apply json_obj. split.
  - apply nodup_keys_NoDup. eapply Permutation_NoDup; [apply Permutation_map; exact P|].
    apply nodup_keys_NoDup; exact N.
  - rewrite Forall_forall in *. intros kv H. apply J. eapply Permutation_in; [symmetry; exact P | exact H].
Qed.

(* == is an equivalence relation on JSON values *)
Theorem equal_equivalence :
  (forall x, json_value x = true -> equal x x = true) /\
  (forall x y, json_value x = true -> json_value y = true -> equal x y = equal y x) /\
  (forall x y z, equal x y = true -> equal y z = true -> equal x z = true).
Proof. split; [exact equal_refl | split; [exact equal_sym | exact equal_trans_all]]. Qed.

(* ------------------------------------------------------------------ *)
(* numbers decodable: when do the ORDER comparisons (<, <=, ...) and the  *)
(* decimal reading of == apply to every number of a document             *)
(* ------------------------------------------------------------------ *)
Definition num_ok (v : value) : Prop :=
  num_leaves (fun n => exists d, to_decimal (VNum n) = Some d /\ dec_ok d) v.

Lemma num_ok_arr : forall l, num_ok (VArr l) <-> Forall num_ok l.
Proof. intros; apply num_leaves_arr. Qed.

Lemma num_ok_obj : forall m, num_ok (VObj m) <-> Forall (fun kv => num_ok (snd kv)) m.
Proof. intros; apply num_leaves_obj. Qed.

(* JSON documents whose numbers are written without an exponent and with at most
   6144 bytes all decode *)
Definition plain_numbers (v : value) : Prop :=
  num_leaves (fun n => match n with
                       | NJson t => no_exp t = true /\ Z.of_nat (length t) <= 6144
                       | _ => True end) v.

Lemma plain_num_ok : forall x, json_value x = true -> plain_numbers x -> num_ok x.
Proof.
  induction x as [ | b | s | n | a IH | a IH | t] using value_ind'; intros J P; try exact I.
  - destruct n as [t | | | ]; try discriminate J. destruct P as [P1 P2].
    exact (json_number_plain_decodes t J P1 P2).
  - apply json_arr in J. apply num_leaves_arr in P. apply num_ok_arr.
    rewrite Forall_forall in *. intros u Hu.
    apply IH; [exact Hu | apply J; exact Hu | apply P; exact Hu].
  - apply json_obj in J as [_ J]. apply num_leaves_obj in P. apply num_ok_obj.
    rewrite Forall_forall in *. intros u Hu.
    apply IH; [exact Hu | apply J; exact Hu | apply P; exact Hu].
Qed.

(* subsumed by [equal_refl]; kept under its name *)
Theorem equal_refl_plain : forall x, json_value x = true -> plain_numbers x -> equal x x = true.
Proof. intros x J _. apply equal_refl; exact J. Qed.

Print Assumptions equal_sym.
Print Assumptions equal_obj_perm.
Print Assumptions json_number_dec_ok.
Print Assumptions json_number_dec_finite.
Print Assumptions json_number_plain_finite.
Print Assumptions json_number_plain_overflow.
Print Assumptions json_number_parses.
Print Assumptions equal_numbers.
Print Assumptions is_true_false_iff.
Print Assumptions equal_refl_iff.
Print Assumptions equal_trans.
Print Assumptions equal_refl.
