(* Order/equality theory and exactness facts for the specification-level
   decimal128 model of Num/Dec.v.

   A. dec_leb (the comparison used by sort, sort_by, min, max) is a total
      preorder on well-formed non-NaN decimals;
   B. dec_equal is an equivalence on them;
   C. the strict / non-strict comparisons agree with the preorder;
   D. digits is the number of decimal digits; rounding and fit are the identity
      on coefficients of at most 34 digits with an in-range exponent;
   E. + - * on finite operands are exact when the exact result is short enough.

   Value of a decimal.  We avoid rationals for the main development: the value
   of DFin neg c e relative to a common exponent m <= e is the integer
       scaled m neg c e = sgn neg c * 10 ^ (e - m)          (= value / 10^m)
   and [dec_cmp_fin] shows that dec_cmp on finite operands is Z.compare of the
   scaled values, for EVERY common exponent m below both exponents.  For
   reference a rational-valued [dval : dec -> option Q] is also given at the
   end, with [dec_cmp_dval]: dec_cmp on finite operands is Qcompare of dval. *)
From Coq Require Import List ZArith Bool Lia QArith Qpower.
From JM Require Import Base.Outcome Base.Bytes Num.Dec Model.Array.
Import ListNotations.
Open Scope Z_scope.

(* well-formed, ordered decimals: not NaN, finite ones have a non-negative
   coefficient *)
Definition dec_ok (d : dec) : Prop :=
  match d with DFin _ c _ => 0 <= c | DInf _ => True | DNaN => False end.

(* ------------------------------------------------------------------ *)
(* scaled integer value                                                *)
(* ------------------------------------------------------------------ *)

Definition scaled (m : Z) (neg : bool) (c e : Z) : Z := sgn neg c * 10 ^ (e - m).

Definition cmpres_of (c : comparison) : cmpres :=
  match c with Lt => CLt | Eq => CEq | Gt => CGt end.

Definition cflip (r : cmpres) : cmpres :=
  match r with CLt => CGt | CGt => CLt | CEq => CEq | CUnordered => CUnordered end.

Lemma sgn_mul : forall n c p, sgn n (c * p) = sgn n c * p.
Proof. intros [] c p; unfold sgn; ring. Qed.

Lemma pow10_pos : forall k, 0 <= k -> 0 < 10 ^ k.
Proof. intros; apply Z.pow_pos_nonneg; lia. Qed.

Lemma cmp_scale : forall a b p, 0 < p -> (a * p ?= b * p) = (a ?= b).
Proof. intros; symmetry; apply Zmult_compare_compat_r; lia. Qed.

Lemma dec_cmp_fin_raw : forall n1 c1 e1 n2 c2 e2,
  dec_cmp (DFin n1 c1 e1) (DFin n2 c2 e2) =
  cmpres_of (sgn n1 (c1 * 10 ^ (e1 - Z.min e1 e2)) ?= sgn n2 (c2 * 10 ^ (e2 - Z.min e1 e2))).
Proof. reflexivity. Qed.

(* the comparison of two finite decimals is the integer comparison of their
   values scaled to ANY common exponent m below both *)
Lemma dec_cmp_fin : forall m n1 c1 e1 n2 c2 e2, m <= e1 -> m <= e2 ->
  dec_cmp (DFin n1 c1 e1) (DFin n2 c2 e2) =
  cmpres_of (scaled m n1 c1 e1 ?= scaled m n2 c2 e2).
Proof.
  intros m n1 c1 e1 n2 c2 e2 H1 H2.
  rewrite dec_cmp_fin_raw. unfold scaled. rewrite !sgn_mul.
  replace (e1 - m) with ((e1 - Z.min e1 e2) + (Z.min e1 e2 - m)) by lia.
  replace (e2 - m) with ((e2 - Z.min e1 e2) + (Z.min e1 e2 - m)) by lia.
  rewrite !Z.pow_add_r by lia. rewrite !Z.mul_assoc.
  rewrite cmp_scale by (apply pow10_pos; lia). reflexivity.
Qed.

Lemma cmpres_of_opp : forall c, cmpres_of (CompOpp c) = cflip (cmpres_of c).
Proof. intros []; reflexivity. Qed.

(* antisymmetry of the raw comparison, no side conditions *)
Lemma dec_cmp_flip : forall x y, dec_cmp y x = cflip (dec_cmp x y).
Proof.
  intros [n1 c1 e1|a|] [n2 c2 e2|b|]; try reflexivity.
  - rewrite (dec_cmp_fin (Z.min e1 e2) n2 c2 e2 n1 c1 e1) by lia.
    rewrite (dec_cmp_fin (Z.min e1 e2) n1 c1 e1 n2 c2 e2) by lia.
    rewrite Z.compare_antisym. apply cmpres_of_opp.
  - destruct b; reflexivity.
  - destruct a; reflexivity.
  - destruct a, b; reflexivity.
Qed.

Lemma dec_cmp_ok : forall x y, dec_ok x -> dec_ok y -> dec_cmp x y <> CUnordered.
Proof.
  intros [n1 c1 e1|a|] [n2 c2 e2|b|] Hx Hy; simpl in Hx, Hy; try contradiction.
  - rewrite dec_cmp_fin_raw. destruct (_ ?= _); discriminate.
  - destruct b; discriminate.
  - destruct a; discriminate.
  - destruct a, b; discriminate.
Qed.

Lemma dec_cmp_refl : forall x, dec_ok x -> dec_cmp x x = CEq.
Proof.
  intros [n c e|a|] Hx; simpl in Hx; try contradiction.
  - rewrite (dec_cmp_fin e) by lia. rewrite Z.compare_refl. reflexivity.
  - destruct a; reflexivity.
Qed.

(* dec_leb in terms of dec_cmp on ordered values *)
Lemma dec_leb_cmp : forall x y, dec_ok x -> dec_ok y ->
  dec_leb x y = match dec_cmp x y with CGt => false | _ => true end.
Proof.
  intros x y Hx Hy. unfold dec_leb, dec_compare.
  pose proof (dec_cmp_ok x y Hx Hy) as H.
  destruct (dec_cmp x y); try reflexivity. contradiction.
Qed.

(* ------------------------------------------------------------------ *)
(* A. total preorder                                                   *)
(* ------------------------------------------------------------------ *)

Theorem dec_leb_refl : forall x, dec_ok x -> dec_leb x x = true.
Proof.
  intros x Hx. rewrite dec_leb_cmp by assumption.
  rewrite dec_cmp_refl by assumption. reflexivity.
Qed.

Theorem dec_leb_total : forall x y, dec_ok x -> dec_ok y ->
  dec_leb x y = true \/ dec_leb y x = true.
Proof.
  intros x y Hx Hy. rewrite !dec_leb_cmp by assumption.
  rewrite (dec_cmp_flip x y). destruct (dec_cmp x y); simpl; auto.
Qed.

(* a three-way transitivity principle for dec_cmp, from which everything
   follows: the relation "dec_cmp x y is in a set of outcomes" *)
Lemma dec_cmp_fin3 : forall n1 c1 e1 n2 c2 e2 n3 c3 e3,
  exists a b c : Z,
    dec_cmp (DFin n1 c1 e1) (DFin n2 c2 e2) = cmpres_of (a ?= b) /\
    dec_cmp (DFin n2 c2 e2) (DFin n3 c3 e3) = cmpres_of (b ?= c) /\
    dec_cmp (DFin n1 c1 e1) (DFin n3 c3 e3) = cmpres_of (a ?= c).
Proof.
  intros. set (m := Z.min e1 (Z.min e2 e3)).
  exists (scaled m n1 c1 e1), (scaled m n2 c2 e2), (scaled m n3 c3 e3).
  repeat split; apply dec_cmp_fin; lia.
Qed.

Theorem dec_leb_trans : forall x y z, dec_ok x -> dec_ok y -> dec_ok z ->
  dec_leb x y = true -> dec_leb y z = true -> dec_leb x z = true.
Proof.
  intros x y z Hx Hy Hz. rewrite !dec_leb_cmp by assumption.
  destruct x as [n1 c1 e1|a|], y as [n2 c2 e2|b|], z as [n3 c3 e3|c|];
    simpl in Hx, Hy, Hz; try contradiction.
  - destruct (dec_cmp_fin3 n1 c1 e1 n2 c2 e2 n3 c3 e3) as (p & q & r & E1 & E2 & E3).
    rewrite E1, E2, E3.
    destruct (Z.compare_spec p q), (Z.compare_spec q r), (Z.compare_spec p r);
      simpl; intros; try reflexivity; try discriminate; lia.
  - (* fin fin inf *) destruct c; simpl; intros; try reflexivity; try discriminate.
  - (* fin inf fin *) destruct b; simpl; intros; try reflexivity; try discriminate.
  - (* fin inf inf *) destruct b, c; simpl; intros; try reflexivity; try discriminate.
  - (* inf fin fin *) destruct a; simpl; intros; try reflexivity; try discriminate.
  - (* inf fin inf *) destruct a, c; simpl; intros; try reflexivity; try discriminate.
  - (* inf inf fin *) destruct a, b; simpl; intros; try reflexivity; try discriminate.
  - (* inf inf inf *) destruct a, b, c; simpl; intros; try reflexivity; try discriminate.
Qed.

(* ------------------------------------------------------------------ *)
(* B. value equality is an equivalence                                 *)
(* ------------------------------------------------------------------ *)

Theorem dec_equal_refl : forall x, dec_ok x -> dec_equal x x = true.
Proof. intros x Hx. unfold dec_equal. rewrite dec_cmp_refl by assumption. reflexivity. Qed.

Theorem dec_equal_sym : forall x y, dec_equal x y = dec_equal y x.
Proof.
  intros x y. unfold dec_equal. rewrite (dec_cmp_flip x y).
  destruct (dec_cmp x y); reflexivity.
Qed.

Theorem dec_equal_trans : forall x y z, dec_ok x -> dec_ok y -> dec_ok z ->
  dec_equal x y = true -> dec_equal y z = true -> dec_equal x z = true.
Proof.
  intros x y z Hx Hy Hz. unfold dec_equal.
  destruct x as [n1 c1 e1|a|], y as [n2 c2 e2|b|], z as [n3 c3 e3|c|];
    simpl in Hx, Hy, Hz; try contradiction.
  - destruct (dec_cmp_fin3 n1 c1 e1 n2 c2 e2 n3 c3 e3) as (p & q & r & E1 & E2 & E3).
    rewrite E1, E2, E3.
    destruct (Z.compare_spec p q), (Z.compare_spec q r), (Z.compare_spec p r);
      simpl; intros; try reflexivity; try discriminate; lia.
  - destruct c; simpl; intros; try reflexivity; try discriminate.
  - destruct b; simpl; intros; try reflexivity; try discriminate.
  - destruct b, c; simpl; intros; try reflexivity; try discriminate.
  - destruct a; simpl; intros; try reflexivity; try discriminate.
  - destruct a, c; simpl; intros; try reflexivity; try discriminate.
  - destruct a, b; simpl; intros; try reflexivity; try discriminate.
  - destruct a, b, c; simpl; intros; try reflexivity; try discriminate.
Qed.

(* equal values are interchangeable in comparisons (congruence) *)
Theorem dec_equal_cmp_l : forall x y z, dec_ok x -> dec_ok y -> dec_ok z ->
  dec_equal x y = true -> dec_cmp x z = dec_cmp y z.
Proof.
  intros x y z Hx Hy Hz. unfold dec_equal.
  destruct x as [n1 c1 e1|a|], y as [n2 c2 e2|b|], z as [n3 c3 e3|c|];
    simpl in Hx, Hy, Hz; try contradiction.
  - destruct (dec_cmp_fin3 n1 c1 e1 n2 c2 e2 n3 c3 e3) as (p & q & r & E1 & E2 & E3).
    rewrite E1, E2, E3.
    destruct (Z.compare_spec p q), (Z.compare_spec q r), (Z.compare_spec p r);
      simpl; intros; try reflexivity; try discriminate; lia.
  - destruct c; simpl; intros; try reflexivity; try discriminate.
  - destruct b; simpl; intros; try reflexivity; try discriminate.
  - destruct b, c; simpl; intros; try reflexivity; try discriminate.
  - destruct a; simpl; intros; try reflexivity; try discriminate.
  - destruct a, c; simpl; intros; try reflexivity; try discriminate.
  - destruct a, b; simpl; intros; try reflexivity; try discriminate.
  - destruct a, b, c; simpl; intros; try reflexivity; try discriminate.
Qed.

(* ------------------------------------------------------------------ *)
(* C. strict comparisons                                               *)
(* ------------------------------------------------------------------ *)

Theorem dec_less_iff : forall x y, dec_ok x -> dec_ok y ->
  (dec_less x y = true <-> dec_leb x y = true /\ dec_equal x y = false).
Proof.
  intros x y Hx Hy. rewrite dec_leb_cmp by assumption.
  unfold dec_less, dec_equal.
  pose proof (dec_cmp_ok x y Hx Hy) as H.
  destruct (dec_cmp x y); split; try tauto; intros; try discriminate;
    try (split; reflexivity); try (destruct H0; discriminate).
Qed.

Theorem dec_greater_flip : forall x y, dec_greater x y = dec_less y x.
Proof.
  intros x y. unfold dec_greater, dec_less. rewrite (dec_cmp_flip x y).
  destruct (dec_cmp x y); reflexivity.
Qed.

Theorem dec_le_iff : forall x y, dec_ok x -> dec_ok y ->
  (dec_le x y = true <-> dec_leb x y = true).
Proof.
  intros x y Hx Hy. rewrite dec_leb_cmp by assumption. unfold dec_le.
  pose proof (dec_cmp_ok x y Hx Hy) as H.
  destruct (dec_cmp x y); split; intros; try reflexivity; try discriminate; try contradiction.
Qed.

Theorem dec_ge_flip : forall x y, dec_ge x y = dec_le y x.
Proof.
  intros x y. unfold dec_ge, dec_le. rewrite (dec_cmp_flip x y).
  destruct (dec_cmp x y); reflexivity.
Qed.

(* the strict order is the complement of the reversed preorder *)
Theorem dec_less_not_leb : forall x y, dec_ok x -> dec_ok y ->
  dec_less x y = negb (dec_leb y x).
Proof.
  intros x y Hx Hy. rewrite dec_leb_cmp by assumption. unfold dec_less.
  rewrite (dec_cmp_flip x y).
  pose proof (dec_cmp_ok x y Hx Hy) as H.
  destruct (dec_cmp x y); try reflexivity; try contradiction.
Qed.

(* ------------------------------------------------------------------ *)
(* D. digits, rounding                                                 *)
(* ------------------------------------------------------------------ *)

Lemma digits_f_nonpos : forall fuel c, c <= 0 -> digits_f fuel c = 0.
Proof.
  intros [|f] c H; [reflexivity|]. cbn [digits_f].
  destruct (Z.leb_spec c 0); [reflexivity | lia].
Qed.

Lemma digits_f_spec : forall fuel c, 0 < c -> c < 2 ^ Z.of_nat fuel ->
  10 ^ (digits_f fuel c - 1) <= c < 10 ^ digits_f fuel c.
Proof.
  induction fuel as [|f IH]; intros c Hc Hb.
  - change (2 ^ Z.of_nat 0) with 1 in Hb. lia.
  - cbn [digits_f]. destruct (Z.leb_spec c 0) as [|_]; [lia|].
    destruct (Z_lt_le_dec c 10) as [Hs|Hl].
    + rewrite digits_f_nonpos by (rewrite Z.div_small by lia; lia).
      change (10 ^ (1 + 0 - 1)) with 1. change (10 ^ (1 + 0)) with 10. lia.
    + assert (Hq : 0 < c / 10) by (apply Z.div_str_pos; lia).
      assert (Hq2 : c / 10 < 2 ^ Z.of_nat f).
      { rewrite Nat2Z.inj_succ, Z.pow_succ_r in Hb by lia.
        apply Z.div_lt_upper_bound; lia. }
      specialize (IH (c / 10) Hq Hq2).
      set (d := digits_f f (c / 10)) in *.
      assert (Hd : 1 <= d).
      { destruct (Z_lt_le_dec d 1) as [Hd|Hd]; [|exact Hd]. exfalso.
        assert (10 ^ d <= 1).
        { destruct (Z.eq_dec d 0) as [->|]; [change (10 ^ 0) with 1; lia|].
          rewrite Z.pow_neg_r by lia. lia. }
        lia. }
      pose proof (Z.div_mod c 10 ltac:(lia)) as Hdm.
      pose proof (Z.mod_pos_bound c 10 ltac:(lia)) as Hmb.
      replace (1 + d - 1) with (Z.succ (d - 1)) by lia.
      replace (1 + d) with (Z.succ d) by lia.
      rewrite !Z.pow_succ_r by lia. lia.
Qed.

(* digits c is the number of decimal digits of c > 0 *)
Lemma digits_spec : forall c, 0 < c -> 10 ^ (digits c - 1) <= c < 10 ^ (digits c).
Proof.
  intros c Hc. unfold digits. apply digits_f_spec; [exact Hc|].
  rewrite Nat2Z.inj_succ, Z2Nat.id by apply Z.log2_nonneg.
  apply Z.log2_spec. exact Hc.
Qed.

Lemma digits_nonpos : forall c, c <= 0 -> digits c = 0.
Proof. intros; unfold digits; apply digits_f_nonpos; assumption. Qed.

Lemma digits_pos : forall c, 0 < c -> 1 <= digits c.
Proof.
  intros c Hc. pose proof (digits_spec c Hc) as [_ H].
  destruct (Z_lt_le_dec (digits c) 1) as [Hd|Hd]; [|exact Hd]. exfalso.
  destruct (Z.eq_dec (digits c) 0) as [E|E].
  - rewrite E in H. change (10 ^ 0) with 1 in H. lia.
  - rewrite Z.pow_neg_r in H by lia. lia.
Qed.

(* uniqueness: digits c = d as soon as 10^(d-1) <= c < 10^d *)
Lemma digits_unique : forall c d, 0 < c -> 10 ^ (d - 1) <= c < 10 ^ d -> digits c = d.
Proof.
  intros c d Hc [H1 H2]. pose proof (digits_spec c Hc) as [H3 H4].
  pose proof (digits_pos c Hc) as Hp.
  assert (Hd : 1 <= d).
  { destruct (Z_lt_le_dec d 1) as [Hd|Hd]; [|exact Hd]. exfalso.
    destruct (Z.eq_dec d 0) as [E|E].
    - rewrite E in H2. change (10 ^ 0) with 1 in H2. lia.
    - rewrite Z.pow_neg_r in H2 by lia. lia. }
  destruct (Z_lt_le_dec (digits c) d) as [Hlt|Hge].
  - assert (10 ^ digits c <= 10 ^ (d - 1)) by (apply Z.pow_le_mono_r; lia). lia.
  - destruct (Z_lt_le_dec d (digits c)) as [Hlt|Hle]; [|lia].
    assert (10 ^ d <= 10 ^ (digits c - 1)) by (apply Z.pow_le_mono_r; lia). lia.
Qed.

Lemma round_coef_id : forall c e, 0 <= c -> digits c <= prec34 -> round_coef c e = (c, e).
Proof.
  intros c e _ H. unfold round_coef.
  destruct (Z.leb_spec (digits c) prec34); [reflexivity | lia].
Qed.

Lemma fit_exact : forall neg c e, 0 <= c -> digits c <= prec34 -> emin <= e <= emax ->
  fit neg c e = DFin neg c e.
Proof.
  intros neg c e Hc Hd He. unfold fit. rewrite round_coef_id by assumption.
  destruct (Z.eqb_spec c 0) as [->|Hn].
  - f_equal. lia.
  - destruct (Z.gtb_spec e emax); [lia|].
    destruct (Z.ltb_spec e emin); [lia|]. reflexivity.
Qed.

(* ------------------------------------------------------------------ *)
(* E. exactness of * + -                                               *)
(* ------------------------------------------------------------------ *)

Theorem dec_mul_exact : forall n1 c1 e1 n2 c2 e2, 0 <= c1 -> 0 <= c2 ->
  digits (c1 * c2) <= prec34 -> emin <= e1 + e2 <= emax ->
  dec_mul (DFin n1 c1 e1) (DFin n2 c2 e2) = DFin (xorb n1 n2) (c1 * c2) (e1 + e2).
Proof.
  intros. unfold dec_mul. apply fit_exact; try assumption. apply Z.mul_nonneg_nonneg; assumption.
Qed.

Theorem dec_add_exact : forall n1 c1 e1 n2 c2 e2, 0 <= c1 -> 0 <= c2 ->
  let '(a, b, e) := align c1 e1 c2 e2 in
  let s := sgn n1 a + sgn n2 b in
  s <> 0 -> digits (Z.abs s) <= prec34 -> emin <= e <= emax ->
  dec_add (DFin n1 c1 e1) (DFin n2 c2 e2) = DFin (s <? 0) (Z.abs s) e.
Proof.
  intros n1 c1 e1 n2 c2 e2 H1 H2. unfold dec_add, align.
  cbv beta iota zeta. intros Hs Hd He.
  destruct (Z.eqb_spec (sgn n1 (c1 * pow10 (e1 - Z.min e1 e2)) +
                        sgn n2 (c2 * pow10 (e2 - Z.min e1 e2))) 0); [contradiction|].
  apply fit_exact; try assumption. apply Z.abs_nonneg.
Qed.

Theorem dec_sub_exact : forall n1 c1 e1 n2 c2 e2, 0 <= c1 -> 0 <= c2 ->
  let '(a, b, e) := align c1 e1 c2 e2 in
  let s := sgn n1 a - sgn n2 b in
  s <> 0 -> digits (Z.abs s) <= prec34 -> emin <= e <= emax ->
  dec_sub (DFin n1 c1 e1) (DFin n2 c2 e2) = DFin (s <? 0) (Z.abs s) e.
Proof.
  intros n1 c1 e1 n2 c2 e2 H1 H2.
  pose proof (dec_add_exact n1 c1 e1 (negb n2) c2 e2 H1 H2) as H.
  unfold dec_sub, dec_neg. unfold align in *. cbv beta iota zeta in *.
  assert (E : forall z, sgn (negb n2) z = - sgn n2 z) by (intros; destruct n2; unfold sgn; simpl; lia).
  rewrite E in H. unfold Z.sub. exact H.
Qed.

(* the exact results, read as scaled integers: the sum (product) of the values *)
Lemma scaled_add : forall m n1 c1 e1 n2 c2 e2, m <= e1 -> m <= e2 ->
  let '(a, b, e) := align c1 e1 c2 e2 in
  let s := sgn n1 a + sgn n2 b in
  scaled m (s <? 0) (Z.abs s) e = scaled m n1 c1 e1 + scaled m n2 c2 e2.
Proof.
  intros m n1 c1 e1 n2 c2 e2 H1 H2. unfold align, pow10, scaled. cbv beta iota zeta.
  set (mn := Z.min e1 e2). rewrite !sgn_mul.
  replace (e1 - m) with ((e1 - mn) + (mn - m)) by lia.
  replace (e2 - m) with ((e2 - mn) + (mn - m)) by lia.
  rewrite !Z.pow_add_r by lia.
  set (s := sgn n1 c1 * 10 ^ (e1 - mn) + sgn n2 c2 * 10 ^ (e2 - mn)).
  assert (E : sgn (s <? 0) (Z.abs s) = s).
  { unfold sgn. destruct (Z.ltb_spec s 0); lia. }
  rewrite E. unfold s. ring.
Qed.

Lemma scaled_mul : forall m1 m2 n1 c1 e1 n2 c2 e2, m1 <= e1 -> m2 <= e2 ->
  scaled (m1 + m2) (xorb n1 n2) (c1 * c2) (e1 + e2) = scaled m1 n1 c1 e1 * scaled m2 n2 c2 e2.
Proof.
  intros. unfold scaled.
  replace (e1 + e2 - (m1 + m2)) with ((e1 - m1) + (e2 - m2)) by lia.
  rewrite Z.pow_add_r by lia. destruct n1, n2; unfold sgn; simpl; ring.
Qed.

(* ------------------------------------------------------------------ *)
(* Rational value (for reference): dval (DFin neg c e) = (-1)^neg c 10^e *)
(* ------------------------------------------------------------------ *)

Definition qval (neg : bool) (c e : Z) : Q := (inject_Z (sgn neg c) * inject_Z 10 ^ e)%Q.

Definition dval (d : dec) : option Q :=
  match d with DFin n c e => Some (qval n c e) | _ => None end.

Lemma ten_neq0 : ~ (inject_Z 10 == 0)%Q.
Proof. intro H. discriminate H. Qed.

Lemma ten_pow_pos : forall m, (0 < inject_Z 10 ^ m)%Q.
Proof. intros. apply Qpower_0_lt. reflexivity. Qed.

(* link between the rational value and the scaled integer value *)
Lemma qval_scaled : forall m n c e, m <= e ->
  (qval n c e == inject_Z (scaled m n c e) * inject_Z 10 ^ m)%Q.
Proof.
  intros m n c e H. unfold qval, scaled.
  rewrite inject_Z_mult, Zpower_Qpower by lia.
  replace e with ((e - m) + m) at 1 by lia.
  rewrite Qpower_plus by exact ten_neq0. ring.
Qed.

Lemma Qcompare_mul_r : forall a b p : Q, (0 < p)%Q -> ((a * p ?= b * p) = (a ?= b))%Q.
Proof.
  intros a b p Hp. destruct (Qcompare_spec a b) as [E|L|G].
  - apply Qeq_alt. rewrite E. reflexivity.
  - apply Qlt_alt. apply Qmult_lt_r; assumption.
  - apply Qgt_alt. apply Qmult_lt_r; assumption.
Qed.

Lemma Qcompare_inject_Z : forall a b : Z, (inject_Z a ?= inject_Z b)%Q = (a ?= b).
Proof. intros. unfold Qcompare. simpl. rewrite !Z.mul_1_r. reflexivity. Qed.

(* dec_cmp on finite decimals is the comparison of the rational values *)
Theorem dec_cmp_dval : forall n1 c1 e1 n2 c2 e2,
  dec_cmp (DFin n1 c1 e1) (DFin n2 c2 e2) =
  cmpres_of (qval n1 c1 e1 ?= qval n2 c2 e2)%Q.
Proof.
  intros. set (m := Z.min e1 e2).
  rewrite (dec_cmp_fin m) by lia.
  rewrite (qval_scaled m n1 c1 e1), (qval_scaled m n2 c2 e2) by lia.
  rewrite Qcompare_mul_r by apply ten_pow_pos.
  rewrite Qcompare_inject_Z. reflexivity.
Qed.

Corollary dec_equal_dval : forall n1 c1 e1 n2 c2 e2,
  dec_equal (DFin n1 c1 e1) (DFin n2 c2 e2) = true <-> (qval n1 c1 e1 == qval n2 c2 e2)%Q.
Proof.
  intros. unfold dec_equal. rewrite dec_cmp_dval. rewrite Qeq_alt.
  destruct (qval n1 c1 e1 ?= qval n2 c2 e2)%Q; simpl; split; intros; try reflexivity; discriminate.
Qed.

Corollary dec_leb_dval : forall n1 c1 e1 n2 c2 e2,
  dec_leb (DFin n1 c1 e1) (DFin n2 c2 e2) = true <-> (qval n1 c1 e1 <= qval n2 c2 e2)%Q.
Proof.
  intros. unfold dec_leb, dec_compare. rewrite dec_cmp_dval. rewrite Qle_alt.
  destruct (qval n1 c1 e1 ?= qval n2 c2 e2)%Q; simpl; split; intros;
    try reflexivity; try discriminate; try congruence.
Qed.

(* exact product / sum, read as rationals *)
Lemma qval_mul : forall n1 c1 e1 n2 c2 e2,
  (qval (xorb n1 n2) (c1 * c2) (e1 + e2) == qval n1 c1 e1 * qval n2 c2 e2)%Q.
Proof.
  intros. unfold qval. rewrite Qpower_plus by exact ten_neq0.
  replace (sgn (xorb n1 n2) (c1 * c2)) with (sgn n1 c1 * sgn n2 c2)
    by (destruct n1, n2; unfold sgn; simpl; ring).
  rewrite inject_Z_mult. ring.
Qed.

Lemma qval_add : forall n1 c1 e1 n2 c2 e2,
  let '(a, b, e) := align c1 e1 c2 e2 in
  let s := sgn n1 a + sgn n2 b in
  (qval (s <? 0) (Z.abs s) e == qval n1 c1 e1 + qval n2 c2 e2)%Q.
Proof.
  intros. pose proof (scaled_add (Z.min e1 e2) n1 c1 e1 n2 c2 e2 ltac:(lia) ltac:(lia)) as H.
  unfold align in *. cbv beta iota zeta in *.
  set (m := Z.min e1 e2) in *.
  rewrite (qval_scaled m _ _ m), (qval_scaled m n1 c1 e1), (qval_scaled m n2 c2 e2) by lia.
  rewrite H, inject_Z_plus. ring.
Qed.

Theorem dec_mul_exact_dval : forall n1 c1 e1 n2 c2 e2, 0 <= c1 -> 0 <= c2 ->
  digits (c1 * c2) <= prec34 -> emin <= e1 + e2 <= emax ->
  exists q, dval (dec_mul (DFin n1 c1 e1) (DFin n2 c2 e2)) = Some q /\
            (q == qval n1 c1 e1 * qval n2 c2 e2)%Q.
Proof.
  intros. rewrite dec_mul_exact by assumption. eexists; split; [reflexivity|]. apply qval_mul.
Qed.

Theorem dec_add_exact_dval : forall n1 c1 e1 n2 c2 e2, 0 <= c1 -> 0 <= c2 ->
  let '(a, b, e) := align c1 e1 c2 e2 in
  let s := sgn n1 a + sgn n2 b in
  s <> 0 -> digits (Z.abs s) <= prec34 -> emin <= e <= emax ->
  exists q, dval (dec_add (DFin n1 c1 e1) (DFin n2 c2 e2)) = Some q /\
            (q == qval n1 c1 e1 + qval n2 c2 e2)%Q.
Proof.
  intros n1 c1 e1 n2 c2 e2 H1 H2.
  pose proof (dec_add_exact n1 c1 e1 n2 c2 e2 H1 H2) as HA.
  pose proof (qval_add n1 c1 e1 n2 c2 e2) as HQ.
  unfold align in *. cbv beta iota zeta in *. intros Hs Hd He.
  rewrite HA by assumption. eexists; split; [reflexivity|]. exact HQ.
Qed.

Print Assumptions dec_leb_trans.
Print Assumptions dec_leb_total.
Print Assumptions dec_equal_trans.
Print Assumptions dec_less_iff.
Print Assumptions digits_spec.
Print Assumptions fit_exact.
Print Assumptions dec_mul_exact.
Print Assumptions dec_add_exact.
Print Assumptions dec_sub_exact.
Print Assumptions dec_cmp_dval.
Print Assumptions dec_add_exact_dval.
