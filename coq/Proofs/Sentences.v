(* C04 + C10 together: the TEXTS obtained from a well-formed reference expression e by
     (1) adding any number of redundant parentheses in operand positions (FullParen.paren_variant) and
     (2) placing white space freely between the tokens (Respace.spaced, Respace.empties_ok)
   are accepted by Compile, give the node of the canonical text, mean the same for every
   document, and their token lists are sentences of the grammar of the specification.

   variant_printable       every token of a paren variant of a well-formed e is printable
                           (has the canonical text of its kind), so respace_lex applies to it
   sentence_lex            a legal respacing of a paren variant lexes to that variant
   sentence_compile        ... and parses to compile_r e
   sentence_compile_same   ... which is what the canonical text parses to
   sentence_api_compile, sentence_api_search, sentence_means_spec
                           the same at the level of Compile / Search
   sentence_in_grammar     the tokens of a paren variant are a sentence of Grammar.gE
   sentence_compile_b      with the computable test on the gaps
   Examples                the rich sample fully parenthesised and with tab, LF, space, CR in every
                           gap, by the theorem and by running the model;
                           a.(b) and (a[*]).b are not paren variants and do change the outcome;
                           white space inside [? and || breaks the expression. *)
From Coq Require Import List ZArith Bool Lia.
From JM Require Import Base.Outcome Base.Bytes Base.GoInt Base.Utf8 Num.Dec Json.Value Json.JsonText
  Json.JsonPrint Model.Token Model.Lexer Model.Ast Model.Literals Model.Parser
  Spec.SpecSlice Spec.RefAst Spec.RefEval Proofs.PrattOperators Spec.Unparse Spec.Unfuse
  Proofs.LiteralRoundTrip Proofs.ParseUnparse Proofs.LexUnparse Proofs.Respace Proofs.FullParen.
From JM Require Import Model.Slice Model.Eval Proofs.EvalRefines.
From JM Require Proofs.Termination Model.Api Proofs.Grammar.
Import ListNotations.
Open Scope Z_scope.

(* ================================================================== *)
(* 1. The tokens of a paren variant are printable                      *)
(* ================================================================== *)

Lemma pr_pk t : text_of t <> [] -> printable (pk t).
Proof. apply P_pk. Qed.

Ltac prpk := apply pr_pk; discriminate.

Lemma pr_ident s : str_ok s = true -> printable (ident_tok s).
Proof.
  intros H. unfold ident_tok. destruct (plain_ident s) eqn:E; [apply P_ident, E|apply P_quoted, H].
Qed.

Lemma pr_wrapt ts : Forall printable ts -> Forall printable (wrapt ts).
Proof.
  intros H. unfold wrapt. constructor; [prpk|]. apply Forall_app. split; [exact H|].
  constructor; [prpk|constructor].
Qed.

Lemma pr_wrapn n ts : Forall printable ts -> Forall printable (wrapn n ts).
Proof. intros H. induction n as [|n IH]; [exact H|]. cbn [wrapn]. apply pr_wrapt, IH. Qed.

Lemma pr_PVg (P : list token -> Prop) allow need ts :
  (forall body, P body -> Forall printable body) -> PVg P allow need ts -> Forall printable ts.
Proof. intros HP (n & body & -> & Hb & _). apply pr_wrapn, HP, Hb. Qed.

Lemma pr_sepby sep (l : list (list token)) :
  printable sep -> Forall (Forall printable) l -> Forall printable (sepby sep l).
Proof.
  intros Hs H. induction H as [|x l Hx Hl IH]; [constructor|].
  destruct l as [|y l]; [exact Hx|].
  change (sepby sep (x :: y :: l)) with (x ++ sep :: sepby sep (y :: l)).
  apply Forall_app. split; [exact Hx|]. constructor; [exact Hs|exact IH].
Qed.

Lemma pr_optint a : Forall printable (opt_int_tok a).
Proof. destruct a; cbn [opt_int_tok]; repeat constructor. Qed.

Lemma pr_slice a b c : Forall printable (slice_toks a b c).
Proof.
  unfold slice_toks. constructor; [prpk|]. apply Forall_app. split; [apply pr_optint|].
  constructor; [prpk|]. apply Forall_app. split; [apply pr_optint|].
  apply Forall_app. split.
  - destruct c; [constructor; [prpk|]|]; repeat constructor.
  - constructor; [prpk|constructor].
Qed.

(* the two statements proved together *)
Definition VPb (e : rexpr) : Prop := wfr e -> forall ts, pvb e ts -> Forall printable ts.
Definition VPr (e : rexpr) : Prop := forall sp, rhs_ok sp e -> forall ts, pvr e ts -> Forall printable ts.
Definition VP (e : rexpr) : Prop := VPb e /\ VPr e.

Lemma pr_PVo q x t : VPb x -> wfr x -> PVo q x t -> Forall printable t.
Proof. intros H Hw Hp. unfold PVo in Hp. eapply pr_PVg; [|exact Hp]. intros body Hb. apply H; assumption. Qed.

(* the selector tokens of a projection *)
Lemma pr_pvk k tk :
  match k with PFilter c => VPb c /\ wfr c | _ => True end -> pvk k tk -> Forall printable tk.
Proof.
  destruct k as [|a b c| |cond|]; cbn [pvk ktoks]; intros H Hk; try subst tk.
  - constructor; [prpk|constructor].
  - apply pr_slice.
  - constructor; [prpk|constructor].
  - destruct Hk as (tc & -> & Hc). destruct H as [Hv Hw]. constructor; [prpk|].
    apply Forall_app. split; [apply (pr_PVo L_PIPE cond); assumption|]. constructor; [prpk|constructor].
  - constructor; [prpk|constructor].
Qed.

Lemma pr_pvk0 k tk :
  match k with PFilter c => VPb c /\ wfr c | _ => True end -> pvk0 k tk -> Forall printable tk.
Proof.
  intros H Hk.
  destruct k as [|a b c| |cond|];
    [exact (pr_pvk PList tk H Hk)|exact (pr_pvk (PSlice a b c) tk H Hk)|exact (pr_pvk PFlatten tk H Hk)
    |exact (pr_pvk (PFilter cond) tk H Hk)|].
  cbn [pvk0] in Hk. subst tk. constructor; [prpk|constructor].
Qed.

(* comma-separated parts *)
Lemma pr_tss {A} (ex : A -> rexpr) (l : list A) tss :
  Forall2 (fun a t => PVo L_PIPE (ex a) t) l tss ->
  Forall (fun a => VPb (ex a) /\ wfr (ex a)) l -> Forall (Forall printable) tss.
Proof.
  induction 1 as [|a t l tss Ha _ IH]; intros HF; [constructor|].
  inversion HF as [|? ? [Hv Hw] HF']; subst. constructor; [|apply IH, HF'].
  apply (pr_PVo L_PIPE (ex a)); assumption.
Qed.

Lemma pr_gparts {A} (pre : A -> list token) (l : list A) : forall tss,
  Forall (fun a => Forall printable (pre a)) l -> Forall (Forall printable) tss ->
  Forall (Forall printable) (gparts pre l tss).
Proof.
  unfold gparts. induction l as [|a l IH]; intros [|t tss] Hl Ht; cbn [combine map]; try constructor.
  - cbn [fst snd]. inversion Hl; inversion Ht; subst. apply Forall_app. split; assumption.
  - inversion Hl; inversion Ht; subst. apply IH; assumption.
Qed.

Ltac pr_bin IH Hw H :=
  apply Forall_cons_iff in IH as [[IHl _] IH]; apply Forall_cons_iff in IH as [[IHr _] _];
  destruct Hw as (Wl & Wr); destruct H as (tl & tr & -> & Hl & Hr);
  apply Forall_app; split; [eapply pr_PVg; [|exact Hl]; intros body Hb; apply IHl; assumption|];
  constructor; [|eapply pr_PVg; [|exact Hr]; intros body Hb; apply IHr; assumption].

Ltac pr_un IH Hw H :=
  apply Forall_cons_iff in IH as [[IHx _] _]; cbn [wfr] in Hw; destruct H as (tx & -> & Hx);
  constructor; [prpk|]; eapply pr_PVg; [|exact Hx]; intros body Hb; apply IHx; assumption.

Theorem main_VP : forall e, VP e.
Proof.
  apply rexpr_children_ind. intros e IH.
  destruct e as [| |name|v|s|name|l r|l i|k l r|es|kes|l r|l r|l r|x|op l r|op l r|x|x|f args|bs body];
    cbn [rchildren] in IH.
  - (* RCurrent *) split.
    + intros _ ts H. cbn [pvb] in H. subst ts. constructor; [prpk|constructor].
    + intros sp _ ts H. cbn [pvr] in H. subst ts. constructor.
  - (* RRoot *) split; [|intros sp H; cbn [rhs_ok] in H; contradiction].
    intros _ ts H. cbn [pvb] in H. subst ts. constructor; [prpk|constructor].
  - (* RField *) split; [|intros sp H; cbn [rhs_ok] in H; contradiction].
    intros Hw ts H. cbn [pvb] in H. subst ts. constructor; [apply pr_ident, Hw|constructor].
  - (* RLiteral *) split; [|intros sp H; cbn [rhs_ok] in H; contradiction].
    intros Hw ts H. cbn [pvb] in H. subst ts. constructor; [apply P_lit, Hw|constructor].
  - (* RRaw *) split; [|intros sp H; cbn [rhs_ok] in H; contradiction].
    intros Hw ts H. cbn [pvb] in H. subst ts. constructor; [apply P_raw, Hw|constructor].
  - (* RVar *) split; [|intros sp H; cbn [rhs_ok] in H; contradiction].
    intros Hw ts H. cbn [pvb] in H. subst ts. constructor; [apply P_var, Hw|constructor].
  - (* RSub *)
    apply Forall_cons_iff in IH as [[IHl IHlr] IH]. apply Forall_cons_iff in IH as [[IHr _] _].
    split.
    + intros (Wl & _ & Wr) ts H. cbn [pvb] in H. destruct H as (tl & tr & -> & Hl & Hr).
      apply Forall_app. split; [eapply pr_PVg; [|exact Hl]; intros body Hb; apply IHl; assumption|].
      constructor; [prpk|]. eapply pr_PVg; [|exact Hr]. intros body Hb. apply IHr; assumption.
    + intros sp (Hl & _ & _ & Wr) ts H. cbn [pvr] in H. destruct H as (tl & tx & -> & Hpl & Hx).
      apply Forall_app. split; [apply (IHlr sp); assumption|].
      constructor; [prpk|]. eapply pr_PVg; [|exact Hx]. intros body Hb. apply IHr; assumption.
  - (* RIndex *)
    apply Forall_cons_iff in IH as [[IHl IHlr] _].
    assert (Hidx : Forall printable [pk TOpenSqBrace; int_tok i; pk TCloseSqBrace]).
    { constructor; [prpk|]. constructor; [apply P_int|]. constructor; [prpk|constructor]. }
    split.
    + intros (Wl & _) ts H. cbn [pvb] in H. destruct H as (tl & -> & Hl).
      apply Forall_app. split; [|exact Hidx]. eapply pr_PVg; [|exact Hl]. intros body Hb. apply IHl; assumption.
    + intros sp (Hl & _) ts H. cbn [pvr] in H. destruct H as (tl & -> & Hpl).
      apply Forall_app. split; [|exact Hidx]. apply (IHlr sp); assumption.
  - (* RProj *)
    assert (IH3 : VP l /\ VP r /\ match k with PFilter c => VP c | _ => True end).
    { destruct k; repeat (apply Forall_cons_iff in IH as [? IH]); auto. }
    clear IH. destruct IH3 as ([IHl IHlr] & [_ IHr] & IHc).
    assert (Hk : match k with PFilter c => wfr c | _ => True end ->
                 match k with PFilter c => VPb c /\ wfr c | _ => True end).
    { destruct k; auto. intros Hc. split; [apply IHc|exact Hc]. }
    split.
    + intros (Wl & _ & _ & Wc & Hr) ts H. apply pvb_proj_inv in H.
      destruct H as (tl & tk & tr & -> & Hpr & [(_ & -> & Hpk)|(_ & Hpl & Hpk)]).
      * cbn [app]. apply Forall_app. split; [eapply pr_pvk0; [apply Hk, Wc|exact Hpk]|].
        apply (IHr _ Hr), Hpr.
      * apply Forall_app. split; [eapply pr_PVg; [|exact Hpl]; intros body Hb; apply IHl; assumption|].
        apply Forall_app. split; [eapply pr_pvk; [apply Hk, Wc|exact Hpk]|].
        apply (IHr _ Hr), Hpr.
    + intros sp (Hl & _ & _ & Wc & Hr) ts H. apply pvr_proj_inv in H.
      destruct H as (tl & tk & tx & -> & Hpl & Hpk & Hpx).
      apply Forall_app. split; [apply (IHlr sp); assumption|].
      apply Forall_app. split; [eapply pr_pvk; [apply Hk, Wc|exact Hpk]|].
      apply (IHr _ Hr), Hpx.
  - (* RMultiList *) split; [|intros sp H; cbn [rhs_ok] in H; contradiction].
    intros Hw ts H. apply wfr_mlist in Hw as [_ Hall]. apply pvb_mlist in H. destruct H as (tss & -> & HF).
    constructor; [prpk|]. apply Forall_app. split; [|constructor; [prpk|constructor]].
    apply pr_sepby; [prpk|]. apply (pr_tss (fun x : rexpr => x) es tss HF).
    rewrite Forall_forall in *. intros x Hx. split; [apply (IH x Hx)|apply Hall, Hx].
  - (* RMultiHash *) split; [|intros sp H; cbn [rhs_ok] in H; contradiction].
    intros Hw ts H. apply wfr_mhash in Hw as (_ & _ & Hall). apply pvb_mhash in H. destruct H as (tss & -> & HF).
    apply -> Forall_map in IH.
    constructor; [prpk|]. apply Forall_app. split; [|constructor; [prpk|constructor]].
    apply pr_sepby; [prpk|]. rewrite hparts_g. apply pr_gparts.
    + rewrite Forall_forall in *. intros [kk x] Hx. destruct (Hall _ Hx) as [Hkk _]. cbn [fst] in Hkk.
      unfold hpre. cbn [fst]. constructor; [apply pr_ident, Hkk|]. constructor; [prpk|constructor].
    + apply (pr_tss (fun kx : bytes * rexpr => snd kx) kes tss HF).
      rewrite Forall_forall in *. intros kx Hx. split; [apply (IH kx Hx)|apply (Hall kx Hx)].
  - (* RPipe *) split; [|intros sp H; cbn [rhs_ok] in H; contradiction].
    intros Hw ts H. cbn [wfr] in Hw. cbn [pvb] in H. pr_bin IH Hw H. prpk.
  - (* ROr *) split; [|intros sp H; cbn [rhs_ok] in H; contradiction].
    intros Hw ts H. cbn [wfr] in Hw. cbn [pvb] in H. pr_bin IH Hw H. prpk.
  - (* RAnd *) split; [|intros sp H; cbn [rhs_ok] in H; contradiction].
    intros Hw ts H. cbn [wfr] in Hw. cbn [pvb] in H. pr_bin IH Hw H. prpk.
  - (* RNot *) split; [|intros sp H; cbn [rhs_ok] in H; contradiction].
    intros Hw ts H. cbn [pvb] in H. pr_un IH Hw H.
  - (* RCmp *) split; [|intros sp H; cbn [rhs_ok] in H; contradiction].
    intros Hw ts H. cbn [wfr] in Hw. cbn [pvb] in H. pr_bin IH Hw H. destruct op; prpk.
  - (* RArith *) split; [|intros sp H; cbn [rhs_ok] in H; contradiction].
    intros Hw ts H. cbn [wfr] in Hw. cbn [pvb] in H. pr_bin IH Hw H. destruct op; prpk.
  - (* RNeg *) split; [|intros sp H; cbn [rhs_ok] in H; contradiction].
    intros Hw ts H. cbn [pvb] in H. pr_un IH Hw H.
  - (* RPos *) split; [|intros sp H; cbn [rhs_ok] in H; contradiction].
    intros Hw ts H. cbn [pvb] in H. pr_un IH Hw H.
  - (* RCall *) split; [|intros sp H; cbn [rhs_ok] in H; contradiction].
    intros Hw ts H. apply wfr_call in Hw as (Hok & Hall). apply pvb_call in H. destruct H as (tss & -> & HF).
    apply -> Forall_map in IH.
    constructor; [apply P_ident, (call_ok_plain f args Hok)|]. constructor; [prpk|].
    apply Forall_app. split; [|constructor; [prpk|constructor]].
    apply pr_sepby; [prpk|]. rewrite aparts_g. apply pr_gparts.
    + apply Forall_forall. intros a _. unfold apre. destruct (is_ref a); [constructor; [prpk|constructor]|constructor].
    + apply (pr_tss arg_expr args tss HF).
      rewrite Forall_forall in *. intros a Ha. split; [apply (IH a Ha)|apply (Hall a Ha)].
  - (* RLet *) split; [|intros sp H; cbn [rhs_ok] in H; contradiction].
    apply Forall_cons_iff in IH as [[IHb _] IH].
    intros Hw ts H. apply wfr_let in Hw as (_ & _ & Hall & Wb). apply pvb_let in H.
    destruct H as (tss & tb & -> & HF & Hb).
    apply -> Forall_map in IH.
    constructor; [prpk|]. apply Forall_app. split.
    + apply pr_sepby; [prpk|]. rewrite lparts_g. apply pr_gparts.
      * rewrite Forall_forall in *. intros [n x] Hx. destruct (Hall _ Hx) as [Hn _]. cbn [fst] in Hn.
        unfold lpre. cbn [fst]. constructor; [apply P_var, Hn|]. constructor; [prpk|constructor].
      * apply (pr_tss (fun kx : bytes * rexpr => snd kx) bs tss HF).
        rewrite Forall_forall in *. intros kx Hx. split; [apply (IH kx Hx)|apply (Hall kx Hx)].
    + constructor; [prpk|]. apply (pr_PVo L_PIPE body); assumption.
Qed.

(* M1 *)
Lemma variant_printable : forall e ts, wfr e -> paren_variant e ts -> Forall printable ts.
Proof.
  intros e ts Hw Hp. unfold paren_variant in Hp. apply (pr_PVo 0 e); [apply main_VP|exact Hw|exact Hp].
Qed.

(* the same for the body of a variant and for a right-hand side *)
Lemma variant_body_printable : forall e ts, wfr e -> pvb e ts -> Forall printable ts.
Proof. intros e ts Hw Hp. destruct (main_VP e) as [H _]. apply H; assumption. Qed.

Lemma variant_rhs_printable : forall sp r ts, rhs_ok sp r -> pvr r ts -> Forall printable ts.
Proof. intros sp r ts Hr Hp. destruct (main_VP r) as [_ H]. apply (H sp); assumption. Qed.

(* ================================================================== *)
(* 2. Every legal respacing of every paren variant compiles            *)
(* ================================================================== *)

Theorem sentence_lex : forall e ts gaps, wfr e -> paren_variant e ts ->
  List.length gaps = S (List.length ts) -> Forall ws gaps -> empties_ok gaps ts ->
  lex_all (spaced gaps ts) = map ITok ts ++ [ITok (Tok TEnd [])].
Proof.
  intros e ts gaps Hw Hp Hl Hws He. apply respace_lex; [apply (variant_printable e), Hp; exact Hw|assumption..].
Qed.

(* M2 *)
Theorem sentence_compile : forall e ts gaps, wfr e -> paren_variant e ts ->
  List.length gaps = S (List.length ts) -> Forall ws gaps -> empties_ok gaps ts ->
  parse (spaced gaps ts) = Ok (compile_r e).
Proof.
  intros e ts gaps Hw Hp Hl Hws He. apply (variant_text_parses e ts); [exact Hw|exact Hp|].
  apply (sentence_lex e); assumption.
Qed.

(* ================================================================== *)
(* 3. Corollaries                                                      *)
(* ================================================================== *)

(* Compile of such a text = Compile of the canonical text *)
Corollary sentence_compile_same : forall e ts gaps, wfr e -> paren_variant e ts ->
  List.length gaps = S (List.length ts) -> Forall ws gaps -> empties_ok gaps ts ->
  parse (spaced gaps ts) = parse (unparse e).
Proof.
  intros e ts gaps Hw Hp Hl Hws He. rewrite (sentence_compile e) by assumption.
  symmetry. apply parse_unparse_node_full, Hw.
Qed.

Corollary sentence_api_compile : forall e ts gaps, wfr e -> paren_variant e ts ->
  List.length gaps = S (List.length ts) -> Forall ws gaps -> empties_ok gaps ts ->
  Api.compile (spaced gaps ts) = Api.compile (unparse e) /\
  Api.compile_result (spaced gaps ts) = Api.RValue VNull.
Proof.
  intros e ts gaps Hw Hp Hl Hws He. unfold Api.compile, Api.compile_result. split.
  - apply (sentence_compile_same e); assumption.
  - rewrite (sentence_compile e) by assumption. reflexivity.
Qed.

Corollary sentence_api_search : forall e ts gaps, wfr e -> paren_variant e ts ->
  List.length gaps = S (List.length ts) -> Forall ws gaps -> empties_ok gaps ts ->
  forall doc, Api.search (spaced gaps ts) doc = Api.search (unparse e) doc.
Proof.
  intros e ts gaps Hw Hp Hl Hws He doc. unfold Api.search.
  rewrite (sentence_compile_same e) by assumption. reflexivity.
Qed.

(* two sentences of the same expression cannot be told apart by Search *)
Corollary sentences_same_search : forall e ts1 gaps1 ts2 gaps2, wfr e ->
  paren_variant e ts1 -> List.length gaps1 = S (List.length ts1) -> Forall ws gaps1 -> empties_ok gaps1 ts1 ->
  paren_variant e ts2 -> List.length gaps2 = S (List.length ts2) -> Forall ws gaps2 -> empties_ok gaps2 ts2 ->
  forall doc, Api.search (spaced gaps1 ts1) doc = Api.search (spaced gaps2 ts2) doc.
Proof.
  intros e ts1 gaps1 ts2 gaps2 Hw Hp1 Hl1 Hws1 He1 Hp2 Hl2 Hws2 He2 doc.
  rewrite (sentence_api_search e ts1 gaps1), (sentence_api_search e ts2 gaps2) by assumption. reflexivity.
Qed.

(* ... and the value is the one the specification gives for e (no stepped slice, no zip: plain_r) *)
Corollary sentence_means_spec : forall e ts gaps, wfr e -> plain_r e -> paren_variant e ts ->
  List.length gaps = S (List.length ts) -> Forall ws gaps -> empties_ok gaps ts ->
  forall doc, slices_short doc e doc [] -> Api.search (spaced gaps ts) doc = Api.lift_eval (ref_search e doc).
Proof.
  intros e ts gaps Hw Hpl Hp Hl Hws He doc Hs.
  apply (variant_text_means_spec e ts); try assumption. apply (sentence_lex e); assumption.
Qed.

(* the same with the computable test on the gaps *)
Corollary sentence_compile_b : forall e ts gaps, wfr e -> paren_variant e ts ->
  respacing_okb gaps ts = true -> parse (spaced gaps ts) = Ok (compile_r e).
Proof.
  intros e ts gaps Hw Hp H. apply respacing_okb_spec in H as (Hl & Hws & He). apply (sentence_compile e); assumption.
Qed.

(* the tightest text of a variant: a single space only where two tokens may not touch *)
Corollary sentence_tight_compile : forall e ts, wfr e -> paren_variant e ts ->
  parse (spaced (tight ts) ts) = Ok (compile_r e).
Proof.
  intros e ts Hw Hp. destruct (tight_ok ts) as (Hl & Hws & He). apply (sentence_compile e); assumption.
Qed.

(* the family is inside the grammar of the specification: the token list of every paren variant
   is a sentence of gE (and it is what the lexer reads from every legal respacing) *)
Lemma printable_no_end ts : Forall printable ts -> Forall (fun t => ttyp t <> TEnd) ts.
Proof. intros H. eapply Forall_impl; [|exact H]. intros t Ht. apply printable_not_end, Ht. Qed.

Corollary variant_in_grammar : forall e ts, wfr e -> paren_variant e ts -> Grammar.gE ts.
Proof.
  intros e ts Hw Hp. destruct (paren_variant_same e ts Hw Hp) as [f0 H].
  apply (Grammar.parser_sound ts f0 (compile_r e)).
  - apply printable_no_end, (variant_printable e); assumption.
  - apply H. lia.
Qed.

Corollary sentence_in_grammar : forall e ts gaps, wfr e -> paren_variant e ts ->
  List.length gaps = S (List.length ts) -> Forall ws gaps -> empties_ok gaps ts ->
  exists toks, lex_all (spaced gaps ts) = map ITok toks ++ [ITok (Tok TEnd [])] /\ Grammar.gE toks.
Proof.
  intros e ts gaps Hw Hp Hl Hws He. exists ts. split; [apply (sentence_lex e); assumption|].
  apply (variant_in_grammar e); assumption.
Qed.

(* ================================================================== *)
(* 4. Examples                                                         *)
(* ================================================================== *)

(* the rich sample of ParseUnparse.v with every operator application and the let in parentheses,
   and tab, LF, space, CR in every gap *)
Example full_loose_rich_ok : respacing_okb (loose_gaps (toks_full rich)) (toks_full rich) = true.
Proof. vm_compute. reflexivity. Qed.

Example full_loose_rich_compiles :
  parse (spaced (loose_gaps (toks_full rich)) (toks_full rich)) = Ok (compile_r rich).
Proof. apply (sentence_compile_b rich); [exact wfr_rich|apply toks_full_variant|exact full_loose_rich_ok]. Qed.

(* the theorems agree with running the model lexer and parser on that text *)
Example full_loose_rich_lex_computed :
  lex_all (spaced (loose_gaps (toks_full rich)) (toks_full rich)) =
  map ITok (toks_full rich) ++ [ITok (Tok TEnd [])].
Proof. vm_compute. reflexivity. Qed.

Example full_loose_rich_parse_computed :
  parse (spaced (loose_gaps (toks_full rich)) (toks_full rich)) = parse (unparse rich).
Proof. vm_compute. reflexivity. Qed.

(* it really has more tokens and more bytes than the canonical text *)
Example full_loose_rich_lengths :
  (List.length (toks_of 0 rich) < List.length (toks_full rich) /\
   List.length (unparse rich) < List.length (spaced (loose_gaps (toks_full rich)) (toks_full rich)) /\
   List.length (spaced (tight (toks_full rich)) (toks_full rich)) <
   List.length (spaced (loose_gaps (toks_full rich)) (toks_full rich)))%nat.
Proof. vm_compute. repeat split; lia. Qed.

(* three pairs around every sub-expression wherever a pair is allowed, tightly spaced *)
Definition sel3 (x : rexpr) : nat := 3%nat.

Example triple_tight_rich_compiles :
  parse (spaced (tight (toks_sel sel3 rich)) (toks_sel sel3 rich)) = Ok (compile_r rich).
Proof. apply sentence_tight_compile; [exact wfr_rich|apply toks_sel_variant]. Qed.

Example triple_tight_rich_parse_computed :
  parse (spaced (tight (toks_sel sel3 rich)) (toks_sel sel3 rich)) = parse (unparse rich).
Proof. vm_compute. reflexivity. Qed.

Example full_rich_in_grammar : Grammar.gE (toks_full rich).
Proof. apply (variant_in_grammar rich); [exact wfr_rich|apply toks_full_variant]. Qed.

(* the samples of ParseUnparse.v, fully parenthesised, loosely and tightly respaced *)
Lemma loose_gaps_ok ts :
  List.length (loose_gaps ts) = S (List.length ts) /\ Forall ws (loose_gaps ts) /\ empties_ok (loose_gaps ts) ts.
Proof.
  split; [unfold loose_gaps; apply repeat_length|]. split.
  - apply Forall_forall. intros g Hg. apply repeat_spec in Hg. subst g. reflexivity.
  - unfold loose_gaps. cbn [repeat]. destruct ts as [|t ts]; [exact I|].
    cbn [empties_ok List.length]. revert t. induction ts as [|t' ts IH]; intros t; cbn [List.length repeat inner_ok]; [exact I|].
    split; [discriminate|apply IH].
Qed.

Corollary sentence_loose_compile : forall e ts, wfr e -> paren_variant e ts ->
  parse (spaced (loose_gaps ts) ts) = Ok (compile_r e).
Proof.
  intros e ts Hw Hp. destruct (loose_gaps_ok ts) as (Hl & Hws & He). apply (sentence_compile e); assumption.
Qed.

Example samples_sentences :
  Forall (fun e => parse (spaced (loose_gaps (toks_full e)) (toks_full e)) = Ok (compile_r e) /\
                   parse (spaced (tight (toks_full e)) (toks_full e)) = Ok (compile_r e) /\
                   Grammar.gE (toks_full e))
         [Samples.e1; Samples.e2; Samples.e3; Samples.e4; Samples.e5; Samples.e6; Samples.e7; Samples.e8;
          Samples.e9; Samples.e10; Samples.e11; Samples.e12; Samples.e13; Samples.e14; Samples.e15;
          Samples.e16; Samples.e17; Samples.e18; Samples.e19; Samples.e20; Samples.e21].
Proof.
  eapply Forall_impl; [|apply samples_wfr]. intros e Hw. split; [|split].
  - apply sentence_loose_compile; [exact Hw|apply toks_full_variant].
  - apply sentence_tight_compile; [exact Hw|apply toks_full_variant].
  - apply (variant_in_grammar e); [exact Hw|apply toks_full_variant].
Qed.

(* ---- negative examples: parentheses where paren_variant forbids them ---- *)
Definition ta : token := Tok TUnquotedIdentifier [97].
Definition tb : token := Tok TUnquotedIdentifier [98].
Definition ra : rexpr := RField [97].
Definition rb : rexpr := RField [98].

(* a.(b): after a dot nothing may be wrapped; Compile answers with a syntax error *)
Example dot_paren_text :
  lex_all [97; 46; 40; 98; 41] = map ITok ([ta; pk TDot] ++ wrapt [tb]) ++ [ITok (Tok TEnd [])] /\
  parse [97; 46; 98] = Ok (compile_r (RSub ra rb)) /\
  exists er, parse [97; 46; 40; 98; 41] = Err er /\ Api.parse_category er = Api.CSyntax.
Proof. split; [|split]; [vm_compute; reflexivity..|]. eexists. split; vm_compute; reflexivity. Qed.

Example dot_paren_not_variant : ~ paren_variant (RSub ra rb) ([ta; pk TDot] ++ wrapt [tb]).
Proof.
  intros Hp.
  assert (Hw : wfr (RSub ra rb)) by (cbn; repeat split; reflexivity).
  pose proof (variant_text_parses _ _ [97; 46; 40; 98; 41] Hw Hp (proj1 dot_paren_text)) as H.
  vm_compute in H. discriminate H.
Qed.

(* (a[*]).b: parentheses around a projection end it; the text is accepted, with a different node *)
Definition proj_ab : rexpr := RProj PList ra (RSub RCurrent rb).

Example proj_paren_text :
  lex_all [40; 97; 91; 42; 93; 41; 46; 98] =
    map ITok (wrapt [ta; pk TArrayWildcard] ++ [pk TDot; tb]) ++ [ITok (Tok TEnd [])] /\
  parse [97; 91; 42; 93; 46; 98] = Ok (compile_r proj_ab) /\
  compile_r proj_ab = NProjectArray (NField [97]) (NField [98]) /\
  parse [40; 97; 91; 42; 93; 41; 46; 98] = Ok (NPipe (NPruneArray (NField [97])) (NField [98])).
Proof. repeat split; vm_compute; reflexivity. Qed.

Example proj_paren_not_variant :
  ~ paren_variant proj_ab (wrapt [ta; pk TArrayWildcard] ++ [pk TDot; tb]).
Proof.
  intros Hp.
  assert (Hw : wfr proj_ab) by (cbn; repeat split; try reflexivity; try discriminate; try lia).
  pose proof (variant_text_parses _ _ [40; 97; 91; 42; 93; 41; 46; 98] Hw Hp (proj1 proj_paren_text)) as H.
  vm_compute in H. discriminate H.
Qed.

(* ... while both are fine in operand position: (a).b, (a)[*].b, ((a.b)) *)
Example allowed_parens :
  paren_variant (RSub ra rb) (wrapt [ta] ++ [pk TDot; tb]) /\
  paren_variant proj_ab (wrapt [ta] ++ [pk TArrayWildcard; pk TDot; tb]) /\
  paren_variant (RSub ra rb) (wrapt (wrapt [ta; pk TDot; tb])).
Proof.
  split; [|split].
  - exists O, (wrapt [ta] ++ [pk TDot; tb]). split; [reflexivity|]. split; [|split; [discriminate|congruence]].
    cbn [pvb]. exists (wrapt [ta]), [tb]. split; [reflexivity|]. split.
    + exists 1%nat, [ta]. repeat split; try reflexivity; try discriminate.
    + exists O, [tb]. repeat split; try reflexivity; try discriminate; congruence.
  - exists O, (wrapt [ta] ++ [pk TArrayWildcard; pk TDot; tb]). split; [reflexivity|]. split; [|split; [discriminate|congruence]].
    cbn [pvb]. exists (wrapt [ta]), [pk TArrayWildcard], [pk TDot; tb]. split; [reflexivity|]. split; [|split].
    + exists 1%nat, [ta]. repeat split; try reflexivity; try discriminate.
    + reflexivity.
    + cbn [pvr]. exists [], [tb]. split; [reflexivity|]. split; [reflexivity|].
      exists O, [tb]. repeat split; try reflexivity; try discriminate; congruence.
  - exists 2%nat, [ta; pk TDot; tb]. split; [reflexivity|]. split; [|split; [discriminate|reflexivity]].
    cbn [pvb]. exists [ta], [tb]. split; [reflexivity|]. split.
    + exists O, [ta]. repeat split; try reflexivity; try discriminate; congruence.
    + exists O, [tb]. repeat split; try reflexivity; try discriminate; congruence.
Qed.

Example allowed_parens_compile :
  parse [40; 32; 97; 9; 41; 10; 46; 13; 98] = Ok (compile_r (RSub ra rb)).   (* "( a\t)\n.\rb" *)
Proof.
  assert (Hw : wfr (RSub ra rb)) by (cbn; repeat split; reflexivity).
  apply (sentence_compile_b (RSub ra rb) (wrapt [ta] ++ [pk TDot; tb]) [[]; [32]; [9]; [10]; [13]; []] Hw).
  - exact (proj1 allowed_parens).
  - vm_compute. reflexivity.
Qed.

(* ---- negative examples: white space inside a multi-byte token ---- *)

(* a[?b] is a filter; a[ ?b] is [ ? ... : a syntax error *)
Example space_in_filter :
  (exists n, parse [97; 91; 63; 98; 93] = Ok n) /\
  glue_ok (pk TOpenSqBrace) (Tok TUnknown [63]) = false /\
  exists er, parse [97; 91; 32; 63; 98; 93] = Err er /\ Api.parse_category er = Api.CSyntax.
Proof.
  split; [eexists; vm_compute; reflexivity|]. split; [vm_compute; reflexivity|].
  eexists. split; vm_compute; reflexivity.
Qed.

(* a || b is an or-expression; a | | b is two pipes in a row: a syntax error *)
Example space_in_or :
  parse [97; 32; 124; 124; 32; 98] = Ok (NOr (NField [97]) (NField [98])) /\
  lex_all [97; 32; 124; 32; 124; 32; 98] =
    map ITok [ta; pk TPipe; pk TPipe; tb] ++ [ITok (Tok TEnd [])] /\
  exists er, parse [97; 32; 124; 32; 124; 32; 98] = Err er /\ Api.parse_category er = Api.CSyntax.
Proof.
  split; [vm_compute; reflexivity|]. split; [vm_compute; reflexivity|].
  eexists. split; vm_compute; reflexivity.
Qed.

(* the token list  a | | b  is not a sentence of any well-formed expression *)
Example pipe_pipe_not_variant : forall e, wfr e -> ~ paren_variant e [ta; pk TPipe; pk TPipe; tb].
Proof.
  intros e Hw Hp.
  pose proof (variant_text_parses e _ [97; 32; 124; 32; 124; 32; 98] Hw Hp (proj1 (proj2 space_in_or))) as H.
  vm_compute in H. discriminate H.
Qed.

Print Assumptions variant_printable.
Print Assumptions sentence_lex.
Print Assumptions sentence_compile.
Print Assumptions sentence_compile_same.
Print Assumptions sentence_api_compile.
Print Assumptions sentence_api_search.
Print Assumptions sentences_same_search.
Print Assumptions sentence_means_spec.
Print Assumptions sentence_compile_b.
Print Assumptions sentence_tight_compile.
Print Assumptions sentence_loose_compile.
Print Assumptions variant_in_grammar.
Print Assumptions sentence_in_grammar.
Print Assumptions dot_paren_not_variant.
Print Assumptions proj_paren_not_variant.
Print Assumptions pipe_pipe_not_variant.
