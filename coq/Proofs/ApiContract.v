(* C08 / C06 at the level of the public API model (Model/Api.v). *)
From Coq Require Import List ZArith Bool.
From JM Require Import Base.Outcome Base.Bytes Json.Value Model.Ast Model.Parser Model.Eval Model.Api Proofs.NoPanic.
Import ListNotations.

(* ---- C08 ---- *)

(* a failing call reports exactly one category, and the result is nil: by the shape of [result] *)
Lemma one_outcome : forall r : result,
  (exists v, r = RValue v) \/ (exists c, r = RError c) \/ r = RPanic \/ r = RStuck \/ r = RUnmodelled.
Proof. destruct r; eauto. Qed.

(* static faults are decided by the expression text alone: Search reports them identically for every document *)
Theorem static_fault_ignores_data : forall s e, parse s = Err e -> forall d, search s d = RError (parse_category e).
Proof. intros s e H d. unfold search. rewrite H. reflexivity. Qed.

Corollary static_fault_same_for_all_documents : forall s e, parse s = Err e -> forall d d', search s d = search s d'.
Proof. intros s e H d d'. rewrite !(static_fault_ignores_data s e H). reflexivity. Qed.

(* Compile reports exactly what one-shot Search reports *)
Theorem compile_reports_static_fault : forall s e, parse s = Err e ->
  compile_result s = RError (parse_category e) /\ forall d, search s d = compile_result s.
Proof.
  intros s e H. unfold compile_result. rewrite H. split; [reflexivity|].
  intros d. apply static_fault_ignores_data, H.
Qed.

Definition static_category (c : category) : bool :=
  match c with CSyntax | CInvalidArity | CUnknownFunction => true | _ => false end.

Lemma eval_category_not_static : forall e, static_category (eval_category e) = false.
Proof. destruct e; reflexivity. Qed.

(* a compiled Expression never reports syntax, arity or unknown-function faults *)
Theorem compiled_never_static : forall n d c, expression_search n d = RError c -> static_category c = false.
Proof.
  intros n d c H. unfold expression_search, lift_eval in H.
  destruct (evaluate n d); try discriminate. inversion H. apply eval_category_not_static.
Qed.

(* when Compile succeeds, Search can only fail with a run-time category *)
Corollary search_static_iff_compile_fails : forall s d c,
  search s d = RError c -> static_category c = true -> exists e, parse s = Err e /\ c = parse_category e.
Proof.
  intros s d c H Hs. unfold search, lift_parse in H. destruct (parse s) eqn:P; try discriminate.
  - apply compiled_never_static in H. congruence.
  - inversion H. eauto.
Qed.

(* the categories a parse fault can have *)
Lemma parse_category_range : forall e,
  parse_category e = CSyntax \/ parse_category e = CInvalidArity \/ parse_category e = CUnknownFunction
  \/ parse_category e = CInvalidType \/ parse_category e = CInvalidValue.
Proof. destruct e; simpl; auto. Qed.

(* ---- C06: a compiled expression is a reusable function of the data ---- *)

Theorem expression_search_is_search : forall s n, parse s = Ok n -> forall d, expression_search n d = search s d.
Proof. intros s n H d. unfold search. rewrite H. reflexivity. Qed.

(* for every sequence of documents, whatever the expression was applied to before *)
Theorem history_independent : forall s n docs, parse s = Ok n ->
  map (expression_search n) docs = map (search s) docs.
Proof. intros s n docs H. apply map_ext. intros d. apply expression_search_is_search, H. Qed.

(* any interleaving: the result of the k-th call depends only on its own document *)
Corollary kth_call : forall s n docs k d, parse s = Ok n -> nth_error docs k = Some d ->
  nth_error (map (expression_search n) docs) k = Some (search s d).
Proof.
  intros s n docs k d H Hk. rewrite (history_independent s n docs H).
  rewrite nth_error_map, Hk. reflexivity.
Qed.

(* jmespath.go: MustCompile panics exactly when Parse returns an error *)
Definition must_compile (s : bytes) : outcome node :=
  match parse s with Ok n => Ok n | Err _ => Panic PNilDeref | o => o end.

Theorem must_compile_panics_iff : forall s, is_panic (must_compile s) = true <-> exists e, parse s = Err e.
Proof.
  intros s. unfold must_compile. pose proof (parse_no_panic s) as NP.
  destruct (parse s) eqn:P; simpl in *; split; intros H; try discriminate; eauto;
    destruct H as [e H]; discriminate.
Qed.

Theorem must_compile_ok_iff : forall s n, must_compile s = Ok n <-> compile s = Ok n.
Proof.
  intros s n. unfold must_compile, compile. destruct (parse s); split; intros H; try discriminate; auto.
Qed.
