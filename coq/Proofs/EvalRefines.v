(* C01 / C17 (evaluator side): the evaluator model, including every fused node
   type, computes the reference semantics (Spec/RefEval.v) of the node's unfused
   meaning (Spec/Unfuse.v).

   eval_refines_slice1   every node type except NSliceStep / NSliceStepCurrent /
                         NCallVar FZip: eval = ref_eval (unfuse n), exactly, for every
                         root, current value and scope; step-1 slice projections are
                         included (arrays and strings, no bound on lengths), and so
                         are merge and not_null (the reference looks at each argument
                         as soon as it is evaluated, like the model)
   eval_refines          the same under no_slice (no slice node at all)
   eval_refines_slice_step, eval_refines_slice_step_current
                         stepped slice projections, given that the operand is an
                         array of at most MaxInt elements or a valid UTF-8 string
                         (step_sliceable); slice_step_invalid_utf8_differs shows the
                         string condition is needed
   eval_refines_variadic merge / not_null / zip as an exact equality, given only that
                         the arguments refine; for zip the argument list is non-empty
                         and its arrays are below the model's 2^62 row limit (the
                         PMakeLen guard, which the reference does not have) *)
From Coq Require Import List ZArith Bool Lia.
From JM Require Import Base.Outcome Base.Bytes Base.GoInt Base.Utf8 Num.Dec Json.Value
  Model.Ast Model.Parser Model.Compare Model.NumberFns Model.Slice Model.StringFns Model.Array
  Model.Functions Model.Eval
  Spec.SpecSlice Spec.RefAst Spec.RefEval Spec.Unfuse
  Proofs.SliceSpec Proofs.SliceProofs Proofs.Utf8Theory.
Import ListNotations.
Open Scope Z_scope.

(* ------------------------------------------------------------------ *)
(* induction on values with nested lists                               *)
(* ------------------------------------------------------------------ *)

Section ValueInd.
  Variable P : value -> Prop.
  Hypothesis HNull : P VNull.
  Hypothesis HBool : forall b, P (VBool b).
  Hypothesis HStr : forall s, P (VStr s).
  Hypothesis HNum : forall n, P (VNum n).
  Hypothesis HArr : forall l, Forall P l -> P (VArr l).
  Hypothesis HObj : forall m, Forall (fun kv => P (snd kv)) m -> P (VObj m).
  Hypothesis HForeign : forall t, P (VForeign t).

  Fixpoint value_ind' (v : value) : P v :=
    match v with
    | VNull => HNull
    | VBool b => HBool b
    | VStr s => HStr s
    | VNum n => HNum n
    | VArr l =>
      HArr l ((fix go (l : list value) : Forall P l :=
                 match l with
                 | [] => Forall_nil _
                 | x :: r => Forall_cons x (value_ind' x) (go r)
                 end) l)
    | VObj m =>
      HObj m ((fix go (m : list (bytes * value)) : Forall (fun kv => P (snd kv)) m :=
                 match m with
                 | [] => Forall_nil _
                 | (k, x) :: r => Forall_cons (k, x) (value_ind' x) (go r)
                 end) m)
    | VForeign t => HForeign t
    end.
End ValueInd.

(* ------------------------------------------------------------------ *)
(* the primitive notions agree                                         *)
(* ------------------------------------------------------------------ *)

Lemma is_true_spec v : is_true v = spec_truthy v.
Proof. destruct v as [|b|[|]|[[|]| | |]|[|]|[|]|t]; reflexivity. Qed.

Lemma equal_spec : forall x y, equal x y = spec_equal x y.
Proof.
  induction x as [|a|a|n|l IH|m IH|t] using value_ind'; intros y.
  - destruct y; reflexivity.
  - destruct y; reflexivity.
  - destruct y; reflexivity.
  - destruct y as [|b|s|n'|l'|m'|t']; cbn [equal spec_equal];
      (* both sides first test for two json.Number values with the same valid text *)
      destruct n; destruct (to_decimal (VNum _)); reflexivity.
  - destruct y as [|b|s|n'|l'|m'|t']; try reflexivity.
    cbn [equal spec_equal]. revert l'.
    induction IH as [|u a Hu _ IHa]; intros [|v c]; try reflexivity.
    rewrite Hu, IHa. reflexivity.
  - destruct y as [|b|s|n'|l'|m'|t']; try reflexivity.
    cbn [equal spec_equal]. f_equal.
    induction IH as [|[k u] a Hu _ IHa]; [reflexivity|].
    cbn [snd] in Hu. rewrite IHa. destruct (assoc k m'); [rewrite Hu|]; reflexivity.
  - destruct y; reflexivity.
Qed.

Lemma index_spec v i : index v i = spec_index v i.
Proof.
  destruct v as [| | | |a| |]; try reflexivity.
  unfold index, spec_index, zlen. cbv zeta.
  destruct (i <? 0) eqn:E.
  - apply Z.ltb_lt in E.
    destruct (i + Z.of_nat (length a) <? 0) eqn:E1.
    + apply Z.ltb_lt in E1. rewrite (leb_false 0) by lia. reflexivity.
    + apply Z.ltb_ge in E1. rewrite (leb_true 0), (ltb_true (i + _)) by lia. reflexivity.
  - apply Z.ltb_ge in E. rewrite (leb_true 0 i) by lia. cbn [andb].
    rewrite Z.geb_leb. destruct (Z.of_nat (length a) <=? i) eqn:E1.
    + apply Z.leb_le in E1. rewrite (ltb_false i) by lia. reflexivity.
    + apply Z.leb_gt in E1. rewrite (ltb_true i) by lia. reflexivity.
Qed.

Lemma field_spec name v : field name v = spec_field name v.
Proof. reflexivity. Qed.

Lemma is_null_not_null v : is_null v = negb (not_null v).
Proof. destruct v; reflexivity. Qed.

Lemma order_spec_lt x y : less x y = spec_order CLt x y.
Proof. unfold less, cmp_op, spec_order. destruct (to_decimal x), (to_decimal y); reflexivity. Qed.
Lemma order_spec_le x y : less_or_equal x y = spec_order CLe x y.
Proof. unfold less_or_equal, cmp_op, spec_order. destruct (to_decimal x), (to_decimal y); reflexivity. Qed.
Lemma order_spec_gt x y : greater x y = spec_order CGt x y.
Proof. unfold greater, cmp_op, spec_order. destruct (to_decimal x), (to_decimal y); reflexivity. Qed.
Lemma order_spec_ge x y : greater_or_equal x y = spec_order CGe x y.
Proof. unfold greater_or_equal, cmp_op, spec_order. destruct (to_decimal x), (to_decimal y); reflexivity. Qed.

(* ------------------------------------------------------------------ *)
(* the list helpers agree (given pointwise equal callbacks)            *)
(* ------------------------------------------------------------------ *)

Section Ext.
  Variables f g : value -> outcome value.
  Hypothesis Hfg : forall v, f v = g v.

  Lemma project_list_proj l : project_list f l = proj_list g l.
  Proof.
    induction l as [|v r IH]; [reflexivity|].
    cbn [project_list proj_list]. rewrite Hfg, IH.
    destruct (g v) as [p| | | |]; try reflexivity. cbn [bind].
    destruct (proj_list g r); try reflexivity. cbn [bind].
    destruct p; reflexivity.
  Qed.

  Lemma mapM_ext_v l : mapM f l = mapM g l.
  Proof. induction l as [|v r IH]; [reflexivity|]. cbn [mapM]. rewrite Hfg, IH. reflexivity. Qed.

  Lemma map_array_ext v : map_array f v = map_array g v.
  Proof. destruct v; try reflexivity. cbn [map_array]. rewrite mapM_ext_v. reflexivity. Qed.

  Lemma str_keys_ext l : str_keys f l = str_keys g l.
  Proof. induction l as [|v r IH]; [reflexivity|]. cbn [str_keys]. rewrite Hfg, IH. reflexivity. Qed.
  Lemma num_keys_ext l : num_keys f l = num_keys g l.
  Proof. induction l as [|v r IH]; [reflexivity|]. cbn [num_keys]. rewrite Hfg, IH. reflexivity. Qed.
  Lemma keys_for_ext a l : keys_for f a l = keys_for g a l.
  Proof. unfold keys_for. rewrite Hfg, str_keys_ext, num_keys_ext. reflexivity. Qed.
  Lemma sort_array_by_ext v : sort_array_by f v = sort_array_by g v.
  Proof.
    destruct v as [| | | |[|a0 rest]| |]; try reflexivity.
    cbn [sort_array_by]. rewrite keys_for_ext. reflexivity.
  Qed.
  Lemma array_extreme_by_ext gt v : array_extreme_by f gt v = array_extreme_by g gt v.
  Proof.
    destruct v as [| | | |[|a0 rest]| |]; try reflexivity.
    cbn [array_extreme_by]. rewrite keys_for_ext. reflexivity.
  Qed.
  Lemma group_loop_ext l : forall acc, group_loop f l acc = group_loop g l acc.
  Proof.
    induction l as [|v r IH]; intros acc; [reflexivity|]. cbn [group_loop]. rewrite Hfg.
    destruct (g v) as [k| | | |]; try reflexivity. cbn [bind].
    destruct k; try reflexivity. apply IH.
  Qed.
  Lemma group_by_ext v : group_by f v = group_by g v.
  Proof.
    destruct v as [| | | |[|a0 rest]| |]; try reflexivity.
    cbn [group_by]. rewrite group_loop_ext. reflexivity.
  Qed.
End Ext.

Lemma filter_list_proj pred pred' l : (forall v, pred v = pred' v) ->
  filter_list pred l =
  proj_list (fun x => do c <- pred' x; if spec_truthy c then Ok x else Ok VNull) l.
Proof.
  intros H. induction l as [|v r IH]; [reflexivity|].
  cbn [filter_list proj_list]. rewrite H, IH.
  destruct (pred' v) as [c| | | |]; try reflexivity. cbn [bind].
  rewrite is_true_spec. destruct (spec_truthy c); cbn [bind].
  - destruct (proj_list _ r); try reflexivity. cbn [bind]. destruct v; reflexivity.
  - destruct (proj_list _ r); try reflexivity. cbn [bind]. rewrite andb_false_r. reflexivity.
Qed.

Lemma filter_project_list_proj pred pred' ev ev' l :
  (forall v, pred v = pred' v) -> (forall v, ev v = ev' v) ->
  filter_project_list pred ev l =
  proj_list (fun x => do c <- pred' x; if spec_truthy c then ev' x else Ok VNull) l.
Proof.
  intros H H'. induction l as [|v r IH]; [reflexivity|].
  cbn [filter_project_list proj_list]. rewrite H, H', IH.
  destruct (pred' v) as [c| | | |]; try reflexivity. cbn [bind].
  rewrite is_true_spec. destruct (spec_truthy c).
  - destruct (ev' v) as [p| | | |]; try reflexivity. cbn [bind].
    destruct (proj_list _ r); try reflexivity. cbn [bind]. destruct p; reflexivity.
  - cbn [bind]. destruct (proj_list _ r); reflexivity.
Qed.

Lemma proj_list_id l : proj_list (fun x => Ok x) l = Ok (List.filter not_null l).
Proof.
  induction l as [|v r IH]; [reflexivity|]. cbn [proj_list List.filter bind]. rewrite IH. reflexivity.
Qed.

Lemma drop_nulls_filter l : drop_nulls l = List.filter not_null l.
Proof.
  unfold drop_nulls. induction l as [|v r IH]; [reflexivity|]. cbn [List.filter]. rewrite IH.
  destruct v; reflexivity.
Qed.

Lemma filter_flat_map {A B} (p : B -> bool) (h : A -> list B) l :
  List.filter p (flat_map h l) = flat_map (fun x => List.filter p (h x)) l.
Proof.
  induction l as [|x r IH]; [reflexivity|]. cbn [flat_map].
  rewrite filter_app, IH. reflexivity.
Qed.

Lemma flatten_spec a :
  flatten (VArr a) = VArr (List.filter not_null (merge_level a)).
Proof.
  unfold flatten, merge_level. f_equal. rewrite filter_flat_map.
  induction a as [|x r IH]; [reflexivity|]. cbn [flat_map]. rewrite IH. f_equal.
  destruct x; try reflexivity. apply drop_nulls_filter.
Qed.

Lemma mapM_map {A B C} (h : A -> B) (k : B -> outcome C) l : mapM k (map h l) = mapM (fun x => k (h x)) l.
Proof. induction l as [|x r IH]; [reflexivity|]. cbn [map mapM]. rewrite IH. reflexivity. Qed.

Lemma mapM_ext_Forall {A B} (h k : A -> outcome B) l :
  Forall (fun x => h x = k x) l -> mapM h l = mapM k l.
Proof. induction 1 as [|x r Hx _ IH]; [reflexivity|]. cbn [mapM]. rewrite Hx, IH. reflexivity. Qed.

(* ------------------------------------------------------------------ *)
(* induction on nodes through their immediate children                 *)
(* ------------------------------------------------------------------ *)

Definition children (n : node) : list node :=
  match n with
  | NCall1 _ a | NNot a | NNegate a | NAssertNumber a | NFilterCurrent a
  | NFlatten a | NFlattenAndProjectCurrent a | NIndex a _ | NObjectValues a
  | NProjectArrayCurrent a | NProjectObjectCurrent a | NPruneArray a
  | NSelectArraySingleCurrent a | NSelectObjectSingleCurrent _ a
  | NSlice a _ _ | NSliceStep a _ _ _ => [a]
  | NCall2 _ a b | NCallBy _ a b | NMap a b | NBin _ a b | NAnd a b | NOr a b
  | NFilter a b | NFilterAndProjectCurrent a b | NFlattenAndProject a b | NPipe a b
  | NProjectObject a b | NSelectArraySingle a b | NSelectObjectSingle a _ b => [a; b]
  (* the operand of a slice projection counts as a child of the projection *)
  | NProjectArray a b =>
    a :: b :: match a with NSlice c _ _ | NSliceStep c _ _ _ => [c] | _ => [] end
  | NCall3 _ a b c | NFilterAndProject a b c => [a; b; c]
  | NCall4 _ a b c d => [a; b; c; d]
  | NCallVar _ args | NSelectArrayCurrent args => args
  | NSelectArray c args => c :: args
  | NDefine vars c | NSelectObject c vars => c :: map snd vars
  | NSelectObjectCurrent vars => map snd vars
  | _ => []
  end.

Lemma node_children_ind (P : node -> Prop) :
  (forall n, Forall P (children n) -> P n) -> forall n, P n.
Proof.
  intros H. fix IH 1. intros n. apply H.
  destruct n; cbn [children]; repeat (constructor; try apply IH);
    try match goal with |- Forall P (match ?a with _ => _ end) => destruct a; repeat (constructor; try apply IH) end;
    match goal with
    | |- Forall P (map snd ?l) =>
      induction l as [|[k x] r IHl]; cbn [map snd]; constructor; [apply IH | exact IHl]
    | |- Forall P ?l =>
      induction l as [|x r IHl]; constructor; [apply IH | exact IHl]
    end.
Qed.

(* ------------------------------------------------------------------ *)
(* syntactic side conditions of the main theorem                       *)
(* ------------------------------------------------------------------ *)

(* no slice node anywhere *)
Fixpoint no_slice (n : node) : bool :=
  match n with
  | NSlice _ _ _ | NSliceCurrent _ _ | NSliceStep _ _ _ _ | NSliceStepCurrent _ _ _ => false
  | NCall1 _ a | NNot a | NNegate a | NAssertNumber a | NFilterCurrent a
  | NFlatten a | NFlattenAndProjectCurrent a | NIndex a _ | NObjectValues a
  | NProjectArrayCurrent a | NProjectObjectCurrent a | NPruneArray a
  | NSelectArraySingleCurrent a | NSelectObjectSingleCurrent _ a => no_slice a
  | NCall2 _ a b | NCallBy _ a b | NMap a b | NBin _ a b | NAnd a b | NOr a b
  | NFilter a b | NFilterAndProjectCurrent a b | NFlattenAndProject a b | NPipe a b
  | NProjectArray a b | NProjectObject a b | NSelectArraySingle a b | NSelectObjectSingle a _ b =>
    no_slice a && no_slice b
  | NCall3 _ a b c | NFilterAndProject a b c => no_slice a && no_slice b && no_slice c
  | NCall4 _ a b c d => no_slice a && no_slice b && no_slice c && no_slice d
  | NCallVar _ args | NSelectArrayCurrent args => forallb no_slice args
  | NSelectArray c args => no_slice c && forallb no_slice args
  | NDefine vars c | NSelectObject c vars => no_slice c && forallb (fun kv => no_slice (snd kv)) vars
  | NSelectObjectCurrent vars => forallb (fun kv => no_slice (snd kv)) vars
  | _ => true
  end.

(* no call of merge / not_null / zip anywhere *)
Fixpoint no_variadic (n : node) : bool :=
  match n with
  | NCallVar _ _ => false
  | NCall1 _ a | NNot a | NNegate a | NAssertNumber a | NFilterCurrent a
  | NFlatten a | NFlattenAndProjectCurrent a | NIndex a _ | NObjectValues a
  | NProjectArrayCurrent a | NProjectObjectCurrent a | NPruneArray a
  | NSelectArraySingleCurrent a | NSelectObjectSingleCurrent _ a
  | NSlice a _ _ | NSliceStep a _ _ _ => no_variadic a
  | NCall2 _ a b | NCallBy _ a b | NMap a b | NBin _ a b | NAnd a b | NOr a b
  | NFilter a b | NFilterAndProjectCurrent a b | NFlattenAndProject a b | NPipe a b
  | NProjectArray a b | NProjectObject a b | NSelectArraySingle a b | NSelectObjectSingle a _ b =>
    no_variadic a && no_variadic b
  | NCall3 _ a b c | NFilterAndProject a b c => no_variadic a && no_variadic b && no_variadic c
  | NCall4 _ a b c d => no_variadic a && no_variadic b && no_variadic c && no_variadic d
  | NSelectArrayCurrent args => forallb no_variadic args
  | NSelectArray c args => no_variadic c && forallb no_variadic args
  | NDefine vars c | NSelectObject c vars => no_variadic c && forallb (fun kv => no_variadic (snd kv)) vars
  | NSelectObjectCurrent vars => forallb (fun kv => no_variadic (snd kv)) vars
  | _ => true
  end.

(* no call of zip anywhere (merge and not_null are allowed) *)
Fixpoint no_zip (n : node) : bool :=
  match n with
  | NCallVar f args => match f with FZip => false | _ => forallb no_zip args end
  | NCall1 _ a | NNot a | NNegate a | NAssertNumber a | NFilterCurrent a
  | NFlatten a | NFlattenAndProjectCurrent a | NIndex a _ | NObjectValues a
  | NProjectArrayCurrent a | NProjectObjectCurrent a | NPruneArray a
  | NSelectArraySingleCurrent a | NSelectObjectSingleCurrent _ a
  | NSlice a _ _ | NSliceStep a _ _ _ => no_zip a
  | NCall2 _ a b | NCallBy _ a b | NMap a b | NBin _ a b | NAnd a b | NOr a b
  | NFilter a b | NFilterAndProjectCurrent a b | NFlattenAndProject a b | NPipe a b
  | NProjectArray a b | NProjectObject a b | NSelectArraySingle a b | NSelectObjectSingle a _ b =>
    no_zip a && no_zip b
  | NCall3 _ a b c | NFilterAndProject a b c => no_zip a && no_zip b && no_zip c
  | NCall4 _ a b c d => no_zip a && no_zip b && no_zip c && no_zip d
  | NSelectArrayCurrent args => forallb no_zip args
  | NSelectArray c args => no_zip c && forallb no_zip args
  | NDefine vars c | NSelectObject c vars => no_zip c && forallb (fun kv => no_zip (snd kv)) vars
  | NSelectObjectCurrent vars => forallb (fun kv => no_zip (snd kv)) vars
  | _ => true
  end.

(* no slice node with an explicit step (step-1 slices inside projections are allowed) *)
Fixpoint no_step_slice (n : node) : bool :=
  match n with
  | NSliceStep _ _ _ _ | NSliceStepCurrent _ _ _ => false
  | NCall1 _ a | NNot a | NNegate a | NAssertNumber a | NFilterCurrent a
  | NFlatten a | NFlattenAndProjectCurrent a | NIndex a _ | NObjectValues a
  | NProjectArrayCurrent a | NProjectObjectCurrent a | NPruneArray a
  | NSelectArraySingleCurrent a | NSelectObjectSingleCurrent _ a | NSlice a _ _ => no_step_slice a
  | NCall2 _ a b | NCallBy _ a b | NMap a b | NBin _ a b | NAnd a b | NOr a b
  | NFilter a b | NFilterAndProjectCurrent a b | NFlattenAndProject a b | NPipe a b
  | NProjectArray a b | NProjectObject a b | NSelectArraySingle a b | NSelectObjectSingle a _ b =>
    no_step_slice a && no_step_slice b
  | NCall3 _ a b c | NFilterAndProject a b c => no_step_slice a && no_step_slice b && no_step_slice c
  | NCall4 _ a b c d => no_step_slice a && no_step_slice b && no_step_slice c && no_step_slice d
  | NCallVar _ args | NSelectArrayCurrent args => forallb no_step_slice args
  | NSelectArray c args => no_step_slice c && forallb no_step_slice args
  | NDefine vars c | NSelectObject c vars => no_step_slice c && forallb (fun kv => no_step_slice (snd kv)) vars
  | NSelectObjectCurrent vars => forallb (fun kv => no_step_slice (snd kv)) vars
  | _ => true
  end.

(* ------------------------------------------------------------------ *)
(* the function table resolves every call node to its own function     *)
(* ------------------------------------------------------------------ *)

Lemma spec_call1 f a : spec_call (fn1_bytes f) [AV a] = call1 f a.
Proof. destruct f; reflexivity. Qed.
Lemma spec_call2 f a b : spec_call (fn2_bytes f) [AV a; AV b] = call2 f a b.
Proof. destruct f; reflexivity. Qed.
Lemma spec_call3 f a b c : spec_call (fn3_bytes f) [AV a; AV b; AV c] = call3 f a b c.
Proof. destruct f; reflexivity. Qed.
Lemma spec_call4 f a b c d : spec_call (fn4_bytes f) [AV a; AV b; AV c; AV d] = call4 f a b c d.
Proof. destruct f; reflexivity. Qed.
Lemma spec_callby f a e :
  spec_call (fnby_bytes f) [AV a; AF e] =
  match f with
  | FGroupBy => group_by e a | FMaxBy => array_extreme_by e true a
  | FMinBy => array_extreme_by e false a | FSortBy => sort_array_by e a
  end.
Proof. destruct f; reflexivity. Qed.
Lemma spec_callmap e a : spec_call [109;97;112] [AF e; AV a] = map_array e a.
Proof. reflexivity. Qed.

(* none of these names is one of the three variadic built-ins, which ref_eval
   treats first *)
Definition plain_name (f : bytes) : Prop :=
  beqb f [110;111;116;95;110;117;108;108] = false /\
  beqb f [109;101;114;103;101] = false /\
  beqb f [122;105;112] = false.
Lemma fn1_plain f : plain_name (fn1_bytes f).
Proof. destruct f; repeat split; reflexivity. Qed.
Lemma fn2_plain f : plain_name (fn2_bytes f).
Proof. destruct f; repeat split; reflexivity. Qed.
Lemma fn3_plain f : plain_name (fn3_bytes f).
Proof. destruct f; repeat split; reflexivity. Qed.
Lemma fn4_plain f : plain_name (fn4_bytes f).
Proof. destruct f; repeat split; reflexivity. Qed.
Lemma fnby_plain f : plain_name (fnby_bytes f).
Proof. destruct f; repeat split; reflexivity. Qed.
Lemma map_plain : plain_name [109;97;112].
Proof. repeat split; reflexivity. Qed.

(* ------------------------------------------------------------------ *)
(* evaluation of keyed lists (let bindings, multi-select hashes)       *)
(* ------------------------------------------------------------------ *)

Definition frame_of {N} (ev : N -> outcome value) : list (bytes * N) -> outcome (list (bytes * value)) :=
  fix go l :=
    match l with
    | [] => Ok []
    | (name, e) :: r => do x <- ev e; do fr <- go r; Ok ((name, x) :: fr)
    end.

Definition let_frame (ev : rexpr -> outcome value) : list (bytes * rexpr) -> outcome (list (bytes * value)) :=
  fix go l :=
    match l with
    | [] => Ok []
    | (name, x) :: r =>
      do v <- ev x; do fr <- go r;
      Ok (match assoc name fr with Some _ => fr | None => (name, v) :: fr end)
    end.

Lemma frame_of_map {N M} (h : N -> M) (ev : M -> outcome value) l :
  frame_of ev (map (fun kv => (fst kv, h (snd kv))) l) = frame_of (fun e => ev (h e)) l.
Proof.
  induction l as [|[k e] r IH]; [reflexivity|]. cbn [map frame_of fst snd] in *. rewrite IH. reflexivity.
Qed.

Lemma frame_of_ext {N} (h k : N -> outcome value) l :
  Forall (fun kv => h (snd kv) = k (snd kv)) l -> frame_of h l = frame_of k l.
Proof.
  induction 1 as [|[name e] r Hx _ IH]; [reflexivity|]. cbn [frame_of snd] in *. rewrite Hx, IH. reflexivity.
Qed.

Lemma frame_of_keys {N} (ev : N -> outcome value) l : forall fr,
  frame_of ev l = Ok fr -> map fst fr = map fst l.
Proof.
  induction l as [|[name e] r IH]; intros fr H; cbn [frame_of] in H.
  - injection H as <-. reflexivity.
  - destruct (ev e); try discriminate. cbn [bind] in H.
    destruct (frame_of ev r) as [fr'| | | |]; try discriminate. cbn [bind] in H.
    injection H as <-. cbn [map fst]. f_equal. apply IH. reflexivity.
Qed.

Lemma assoc_none_keys {A B} k (m : list (bytes * A)) : forall (m' : list (bytes * B)),
  map fst m = map fst m' -> assoc k m = None -> assoc k m' = None.
Proof.
  induction m as [|[k1 v1] r IH]; intros [|[k2 v2] r'] E H; try discriminate; [reflexivity|].
  cbn [map fst] in E. injection E as <- E. cbn [assoc] in *.
  destruct (beqb k k1); [discriminate|]. apply (IH _ E H).
Qed.

Lemma let_frame_nodup ev l : nodup_keys l = true -> let_frame ev l = frame_of ev l.
Proof.
  induction l as [|[name e] r IH]; intros H; [reflexivity|].
  cbn [nodup_keys] in H. destruct (assoc name r) eqn:E; [discriminate|].
  cbn [let_frame frame_of]. rewrite (IH H).
  destruct (ev e); try reflexivity. cbn [bind].
  destruct (frame_of ev r) as [fr| | | |] eqn:F; try reflexivity. cbn [bind].
  rewrite (assoc_none_keys name r fr); [reflexivity| |exact E].
  symmetry. apply (frame_of_keys _ _ _ F).
Qed.

Lemma nodup_keys_map {A B} (h : A -> B) (l : list (bytes * A)) :
  nodup_keys (map (fun kv => (fst kv, h (snd kv))) l) = nodup_keys l.
Proof.
  induction l as [|[k e] r IH]; [reflexivity|]. cbn [map nodup_keys fst snd]. rewrite IH.
  destruct (assoc k r) eqn:E.
  - destruct (assoc k (map _ r)) eqn:E'; [reflexivity|].
    rewrite (assoc_none_keys k (map (fun kv => (fst kv, h (snd kv))) r) r) in E; [discriminate| |exact E'].
    rewrite map_map. reflexivity.
  - rewrite (assoc_none_keys k r (map (fun kv => (fst kv, h (snd kv))) r)); [reflexivity| |exact E].
    rewrite map_map. reflexivity.
Qed.

(* ------------------------------------------------------------------ *)
(* evaluation of plain lists (multi-select lists), and the equations   *)
(* that expose the inner loops of eval / ref_eval as these functions   *)
(* ------------------------------------------------------------------ *)

Definition evlist {N} (ev : N -> outcome value) : list N -> outcome (list value) :=
  fix go l := match l with [] => Ok [] | f :: r => do y <- ev f; do ys <- go r; Ok (y :: ys) end.
Section Eqs.
Variable root : value.

Lemma eval_NSelectArrayCurrent fields cur vars :
  eval root (NSelectArrayCurrent fields) cur vars =
  if is_null cur then Ok VNull else do r <- evlist (fun f => eval root f cur vars) fields; Ok (VArr r).
Proof. reflexivity. Qed.

Lemma eval_NSelectArray c fields cur vars :
  eval root (NSelectArray c fields) cur vars =
  do x <- eval root c cur vars;
  if is_null x then Ok VNull else do r <- evlist (fun f => eval root f x vars) fields; Ok (VArr r).
Proof. reflexivity. Qed.

Lemma eval_NSelectObjectCurrent fields cur vars :
  eval root (NSelectObjectCurrent fields) cur vars =
  if is_null cur then Ok VNull else do r <- frame_of (fun f => eval root f cur vars) fields; Ok (VObj r).
Proof. reflexivity. Qed.

Lemma eval_NSelectObject c fields cur vars :
  eval root (NSelectObject c fields) cur vars =
  do x <- eval root c cur vars;
  if is_null x then Ok VNull else do r <- frame_of (fun f => eval root f x vars) fields; Ok (VObj r).
Proof. reflexivity. Qed.

Lemma eval_NDefine bs child cur vars :
  eval root (NDefine bs child) cur vars =
  do frame <- frame_of (fun e => eval root e cur vars) bs; eval root child cur (frame :: vars).
Proof. reflexivity. Qed.

Lemma ref_RMultiList es cur vars :
  ref_eval root (RMultiList es) cur vars =
  match cur, es with
  | VNull, _ :: _ :: _ => Ok VNull
  | _, _ => do vs <- evlist (fun x => ref_eval root x cur vars) es; Ok (VArr vs)
  end.
Proof. reflexivity. Qed.

Lemma ref_RMultiHash kes cur vars :
  ref_eval root (RMultiHash kes) cur vars =
  match cur, kes with
  | VNull, _ :: _ :: _ => Ok VNull
  | _, _ => do kvs <- frame_of (fun x => ref_eval root x cur vars) kes; Ok (VObj kvs)
  end.
Proof. reflexivity. Qed.

Lemma ref_RLet bs body cur vars :
  ref_eval root (RLet bs body) cur vars =
  do frame <- let_frame (fun x => ref_eval root x cur vars) bs; ref_eval root body cur (frame :: vars).
Proof. reflexivity. Qed.
End Eqs.

Lemma evlist_map {N M} (h : N -> M) (ev : M -> outcome value) l :
  evlist ev (map h l) = evlist (fun e => ev (h e)) l.
Proof. induction l as [|e r IH]; [reflexivity|]. cbn [map evlist] in *. rewrite IH. reflexivity. Qed.

Lemma evlist_ext {N} (h k : N -> outcome value) l :
  Forall (fun x => h x = k x) l -> evlist h l = evlist k l.
Proof. induction 1 as [|e r Hx _ IH]; [reflexivity|]. cbn [evlist] in *. rewrite Hx, IH. reflexivity. Qed.

(* ------------------------------------------------------------------ *)
(* slices with step 1: no bound on the length is needed                *)
(* ------------------------------------------------------------------ *)

(* the clamping of slice(), string branch included (there an empty range is kept) *)
Lemma norm1_spec_any L start stop s e sb :
  0 <= L -> spec_bounds L (Some start) (Some stop) 1 = (s, e) ->
  match norm1 L start stop sb with
  | BEmpty => e <= s
  | BRange i j => i = s /\ j = e /\ 0 <= s /\ s <= L /\ e <= L /\ (sb = false -> s < e)
  end.
Proof.
  intros HL Hb. unfold spec_bounds in Hb. rewrite (ltb_false 1 0) in Hb by lia.
  cbv zeta in Hb. injection Hb as <- <-.
  unfold norm1. cbv zeta. destruct sb; cbn [negb andb]; brk; try lia; repeat split; try lia; discriminate.
Qed.

Lemma slice1_seq {A} (l : list A) (d : A) start stop :
  match norm1 (zlen l) start stop true with
  | BEmpty => []
  | BRange i j => firstn (Z.to_nat (j - i)) (skipn (Z.to_nat i) l)
  end = spec_slice l d (Some start) (Some stop) 1.
Proof.
  pose proof (zlen_nonneg l) as H0.
  unfold spec_slice, spec_slice_indices. fold (zlen l).
  destruct (spec_bounds (zlen l) (Some start) (Some stop) 1) as [s e] eqn:Hb.
  pose proof (norm1_spec_any _ _ _ _ _ true H0 Hb) as Hn.
  destruct (norm1 (zlen l) start stop true) as [|i j].
  - rewrite walk_nil_pos by lia. reflexivity.
  - destruct Hn as (-> & -> & Hs0 & HsL & HeL & _).
    destruct (Z.le_gt_cases e s) as [Hes|Hse].
    + rewrite walk_nil_pos by lia. replace (Z.to_nat (e - s)) with 0%nat by lia. reflexivity.
    + rewrite (firstn_skipn_prog l d) by lia.
      rewrite (walk_count_pos (Z.to_nat (e - s))); try lia. reflexivity.
Qed.

Lemma slice1_arr l start stop :
  slice (VArr l) start stop = Ok (VArr (spec_slice l VNull (Some start) (Some stop) 1)).
Proof.
  pose proof (zlen_nonneg l) as H0.
  unfold spec_slice, spec_slice_indices. fold (zlen l).
  destruct (spec_bounds (zlen l) (Some start) (Some stop) 1) as [s e] eqn:Hb.
  pose proof (norm1_spec _ _ _ _ _ H0 Hb) as Hn.
  cbn [slice]. destruct (norm1 (zlen l) start stop false) as [|i j].
  - rewrite walk_nil_pos by lia. reflexivity.
  - destruct Hn as (-> & -> & Hs0 & Hse & HeL).
    rewrite (sub_prog l VNull) by lia. cbn [bind].
    rewrite (walk_count_pos (Z.to_nat (e - s))); try lia. reflexivity.
Qed.

Lemma slice1_str s start stop :
  slice (VStr s) start stop =
  Ok (VStr (concat (spec_slice (chunks s) [] (Some start) (Some stop) 1))).
Proof.
  cbn [slice]. rewrite <- (slice1_seq (chunks s) []).
  destruct (norm1 (zlen (chunks s)) start stop true); reflexivity.
Qed.

(* ------------------------------------------------------------------ *)
(* variadic calls: merge, not_null, zip                                *)
(* ------------------------------------------------------------------ *)

(* The model and the reference both evaluate and check the arguments one at a
   time (not_null stops at the first non-null one).  The loops, over any
   evaluator of arguments: *)

Definition merge_loop {N} (ev : N -> outcome value) : list N -> list (bytes * value) -> outcome value :=
  fix go l acc :=
    match l with
    | [] => Ok (VObj acc)
    | a :: r =>
      do x <- ev a;
      match x with
      | VObj m => go r (fold_left (fun acc kv => assoc_set (fst kv) (snd kv) acc) m acc)
      | _ => Err EInvalidType
      end
    end.

Definition not_null_loop {N} (ev : N -> outcome value) : list N -> outcome value :=
  fix go l :=
    match l with
    | [] => Ok VNull
    | a :: r => do x <- ev a; if is_null x then go r else Ok x
    end.

Definition zip_cols_loop {N} (ev : N -> outcome value) : list N -> outcome (list (list value)) :=
  fix go l :=
    match l with
    | [] => Ok []
    | a :: r =>
      do x <- ev a;
      match x with
      | VArr c => do cs <- go r; Ok (c :: cs)
      | _ => Err EInvalidType
      end
    end.

(* the reference's loops run over call arguments, which may be expression references *)
Definition ref_merge_loop (ev : rexpr -> outcome value) : list rarg -> list (bytes * value) -> outcome value :=
  fix go l acc :=
    match l with
    | [] => Ok (VObj acc)
    | AExpr x :: r =>
      do v <- ev x;
      match v with
      | VObj m => go r (fold_left (fun acc kv => assoc_set (fst kv) (snd kv) acc) m acc)
      | _ => Err EInvalidType
      end
    | ARef _ :: _ => Err EInvalidType
    end.

Definition ref_not_null_loop (ev : rexpr -> outcome value) : list rarg -> outcome value :=
  fix go l :=
    match l with
    | [] => Ok VNull
    | AExpr x :: r => do v <- ev x; if not_null v then Ok v else go r
    | ARef _ :: _ => Err EInvalidType
    end.

Definition ref_zip_cols_loop (ev : rexpr -> outcome value) : list rarg -> outcome (list (list value)) :=
  fix go l :=
    match l with
    | [] => Ok []
    | AExpr x :: r =>
      do v <- ev x;
      match v with
      | VArr c => do cs <- go r; Ok (c :: cs)
      | _ => Err EInvalidType
      end
    | ARef _ :: _ => Err EInvalidType
    end.

(* the model of zip panics above 2^62 rows; arrays of that length do not exist in Go *)
Definition zip_limit : Z := 4611686018427387904.

Definition zip_count (cols : list (list value)) : Z :=
  fold_left (fun m c => Z.min m (zlen c)) cols MaxInt.

Section VarEqs.
Variable root : value.

Lemma eval_NCallVar_merge args cur vars :
  eval root (NCallVar FMerge args) cur vars = merge_loop (fun a => eval root a cur vars) args [].
Proof. reflexivity. Qed.

Lemma eval_NCallVar_not_null args cur vars :
  eval root (NCallVar FNotNull args) cur vars = not_null_loop (fun a => eval root a cur vars) args.
Proof. reflexivity. Qed.

Lemma eval_NCallVar_zip args cur vars :
  eval root (NCallVar FZip args) cur vars =
  do cols <- zip_cols_loop (fun a => eval root a cur vars) args;
  if zip_count cols >? zip_limit then Panic PMakeLen
  else Ok (VArr (zip_rows (Z.to_nat (zip_count cols)) 0 cols)).
Proof. reflexivity. Qed.

Lemma ref_RCall_merge rargs cur vars :
  ref_eval root (RCall (fnvar_bytes FMerge) rargs) cur vars =
  ref_merge_loop (fun x => ref_eval root x cur vars) rargs [].
Proof. reflexivity. Qed.

Lemma ref_RCall_not_null rargs cur vars :
  ref_eval root (RCall (fnvar_bytes FNotNull) rargs) cur vars =
  ref_not_null_loop (fun x => ref_eval root x cur vars) rargs.
Proof. reflexivity. Qed.

Lemma ref_RCall_zip rargs cur vars :
  ref_eval root (RCall (fnvar_bytes FZip) rargs) cur vars =
  do cols <- ref_zip_cols_loop (fun x => ref_eval root x cur vars) rargs;
  Ok (VArr (zip_rows (Z.to_nat (zip_count cols)) 0 cols)).
Proof. reflexivity. Qed.
End VarEqs.

(* on a list of plain expression arguments the reference's loops are the generic ones *)
Lemma ref_merge_loop_map {N} (h : N -> rexpr) ev l : forall acc,
  ref_merge_loop ev (map (fun x => AExpr (h x)) l) acc = merge_loop (fun a => ev (h a)) l acc.
Proof.
  induction l as [|a r IH]; intros acc; [reflexivity|]. cbn [map ref_merge_loop merge_loop].
  destruct (ev (h a)) as [v| | | |]; try reflexivity. cbn [bind]. destruct v; try reflexivity. apply IH.
Qed.

Lemma ref_not_null_loop_map {N} (h : N -> rexpr) ev l :
  ref_not_null_loop ev (map (fun x => AExpr (h x)) l) = not_null_loop (fun a => ev (h a)) l.
Proof.
  induction l as [|a r IH]; [reflexivity|]. cbn [map ref_not_null_loop not_null_loop].
  destruct (ev (h a)) as [v| | | |]; try reflexivity. cbn [bind]. rewrite IH. destruct v; reflexivity.
Qed.

Lemma ref_zip_cols_loop_map {N} (h : N -> rexpr) ev l :
  ref_zip_cols_loop ev (map (fun x => AExpr (h x)) l) = zip_cols_loop (fun a => ev (h a)) l.
Proof.
  induction l as [|a r IH]; [reflexivity|]. cbn [map ref_zip_cols_loop zip_cols_loop].
  destruct (ev (h a)) as [v| | | |]; try reflexivity. cbn [bind]. destruct v; try reflexivity.
  rewrite IH. reflexivity.
Qed.

(* the generic loops only depend on the evaluator through the listed arguments *)
Lemma merge_loop_ext {N} (h k : N -> outcome value) l :
  Forall (fun a => h a = k a) l -> forall acc, merge_loop h l acc = merge_loop k l acc.
Proof.
  induction 1 as [|a r Ha _ IH]; intros acc; [reflexivity|]. cbn [merge_loop]. rewrite Ha.
  destruct (k a) as [v| | | |]; try reflexivity. cbn [bind]. destruct v; try reflexivity. apply IH.
Qed.

Lemma not_null_loop_ext {N} (h k : N -> outcome value) l :
  Forall (fun a => h a = k a) l -> not_null_loop h l = not_null_loop k l.
Proof.
  induction 1 as [|a r Ha _ IH]; [reflexivity|]. cbn [not_null_loop]. rewrite Ha, IH. reflexivity.
Qed.

Lemma zip_cols_loop_ext {N} (h k : N -> outcome value) l :
  Forall (fun a => h a = k a) l -> zip_cols_loop h l = zip_cols_loop k l.
Proof.
  induction 1 as [|a r Ha _ IH]; [reflexivity|]. cbn [zip_cols_loop]. rewrite Ha, IH. reflexivity.
Qed.

(* every column comes from an argument that evaluated to that array *)
Lemma zip_cols_loop_in {N} (ev : N -> outcome value) l : forall cols,
  zip_cols_loop ev l = Ok cols ->
  length cols = length l /\ forall c, In c cols -> exists a, In a l /\ ev a = Ok (VArr c).
Proof.
  induction l as [|a r IH]; intros cols E; cbn [zip_cols_loop] in E.
  - injection E as <-. split; [reflexivity | intros c []].
  - destruct (ev a) as [v| | | |] eqn:Ea; try discriminate. cbn [bind] in E.
    destruct v; try discriminate.
    destruct (zip_cols_loop ev r) as [cs| | | |]; try discriminate. cbn [bind] in E.
    injection E as <-. destruct (IH cs eq_refl) as [Hlen Hin]. split; [cbn [length]; congruence|].
    intros c [<-|Hc].
    + exists a. split; [left; reflexivity | assumption].
    + destruct (Hin c Hc) as (a' & Ha' & Ea'). exists a'. split; [right|]; assumption.
Qed.

Lemma fold_min_le (cols : list (list value)) : forall m,
  fold_left (fun m c => Z.min m (zlen c)) cols m <= m /\
  forall c, In c cols -> fold_left (fun m c => Z.min m (zlen c)) cols m <= zlen c.
Proof.
  induction cols as [|c0 r IH]; intros m; cbn [fold_left]; [split; [lia | intros c []]|].
  destruct (IH (Z.min m (zlen c0))) as [H1 H2]. split; [lia|].
  intros c [<-|Hc]; [lia | auto].
Qed.

Section Variadic.
Variable root : value.
Variables (cur : value) (vars : env).

(* merge / not_null / zip at one current value and scope: exact equality, given that
   the arguments refine there; the side condition is only about zip *)
Theorem eval_refines_variadic_at f args :
  Forall (fun a => eval root a cur vars = ref_eval root (unfuse a) cur vars) args ->
  (f = FZip -> args <> [] /\
               forall a c, In a args -> eval root a cur vars = Ok (VArr c) -> zlen c <= zip_limit) ->
  eval root (NCallVar f args) cur vars = ref_eval root (unfuse (NCallVar f args)) cur vars.
Proof.
  intros H Hz. cbn [unfuse]. destruct f.
  - rewrite eval_NCallVar_merge, ref_RCall_merge, ref_merge_loop_map. apply merge_loop_ext, H.
  - rewrite eval_NCallVar_not_null, ref_RCall_not_null, ref_not_null_loop_map.
    apply not_null_loop_ext, H.
  - destruct (Hz eq_refl) as [Hne Hsmall].
    rewrite eval_NCallVar_zip, ref_RCall_zip, ref_zip_cols_loop_map.
    rewrite <- (zip_cols_loop_ext _ _ _ H).
    destruct (zip_cols_loop (fun a => eval root a cur vars) args) as [cols| | | |] eqn:E;
      try reflexivity. cbn [bind].
    destruct (zip_cols_loop_in _ _ _ E) as [Hlen Hin].
    assert (Hc : zip_count cols <= zip_limit).
    { destruct cols as [|c0 cs].
      - destruct args; [congruence | discriminate].
      - destruct (Hin c0 (or_introl eq_refl)) as (a & Ha & Ea).
        pose proof (Hsmall a c0 Ha Ea).
        pose proof (proj2 (fold_min_le (c0 :: cs) MaxInt) c0 (or_introl eq_refl)).
        unfold zip_count. lia. }
    rewrite (gtb_false _ _ Hc). reflexivity.
Qed.
End Variadic.

(* the same with arguments that refine at every current value and scope *)
Theorem eval_refines_variadic : forall (root : value) (f : fnvar) (args : list node)
    (cur : value) (vars : env),
  Forall (fun a => forall cur' vars', eval root a cur' vars' = ref_eval root (unfuse a) cur' vars') args ->
  (f = FZip -> args <> [] /\
               forall a c, In a args -> eval root a cur vars = Ok (VArr c) -> zlen c <= zip_limit) ->
  eval root (NCallVar f args) cur vars = ref_eval root (unfuse (NCallVar f args)) cur vars.
Proof.
  intros root f args cur vars H Hz. apply eval_refines_variadic_at; [|exact Hz].
  eapply Forall_impl; [|exact H]. intros a Ha. apply Ha.
Qed.

(* consequence (kept from the time when only this direction held): whenever the
   reference yields a value for a variadic call, the model yields the same value *)
Theorem eval_refines_variadic_ok : forall (root : value) (f : fnvar) (args : list node)
    (cur : value) (vars : env) (v : value),
  Forall (fun a => eval root a cur vars = ref_eval root (unfuse a) cur vars) args ->
  (f = FZip -> args <> [] /\
               forall a c, In a args -> eval root a cur vars = Ok (VArr c) -> zlen c <= zip_limit) ->
  ref_eval root (unfuse (NCallVar f args)) cur vars = Ok v ->
  eval root (NCallVar f args) cur vars = Ok v.
Proof.
  intros root f args cur vars v H1 Hz Hv.
  rewrite (eval_refines_variadic_at root cur vars f args H1 Hz). exact Hv.
Qed.

(* ------------------------------------------------------------------ *)
(* one lemma per node type: the node refines its meaning if its        *)
(* children do                                                         *)
(* ------------------------------------------------------------------ *)

Section Cases.
Variable root : value.

Definition refines (n : node) : Prop :=
  forall cur vars, eval root n cur vars = ref_eval root (unfuse n) cur vars.

(* rewrite with a child's hypothesis and split on the child's outcome *)
Ltac step H :=
  rewrite H;
  match goal with
  | |- context [bind (ref_eval root ?e ?c ?v) _] =>
    destruct (ref_eval root e c v); cbn [bind]; try reflexivity
  end.

(* the callee is not a variadic built-in: drop the three name tests of ref_eval *)
Ltac plain H :=
  let E1 := fresh in let E2 := fresh in let E3 := fresh in
  destruct H as (E1 & E2 & E3); rewrite E1, E2, E3; clear E1 E2 E3; cbv iota.

Lemma r_call1 f a : refines a -> refines (NCall1 f a).
Proof.
  intros Ha cur vars. cbn [eval unfuse ref_eval]. plain (fn1_plain f). step Ha. symmetry. apply spec_call1.
Qed.

Lemma r_call2 f a b : refines a -> refines b -> refines (NCall2 f a b).
Proof.
  intros Ha Hb cur vars. cbn [eval unfuse ref_eval]. plain (fn2_plain f). step Ha. step Hb. symmetry. apply spec_call2.
Qed.

Lemma r_call3 f a b c : refines a -> refines b -> refines c -> refines (NCall3 f a b c).
Proof.
  intros Ha Hb Hc cur vars. cbn [eval unfuse ref_eval]. plain (fn3_plain f). step Ha. step Hb. step Hc.
  symmetry. apply spec_call3.
Qed.

Lemma r_call4 f a b c d : refines a -> refines b -> refines c -> refines d -> refines (NCall4 f a b c d).
Proof.
  intros Ha Hb Hc Hd cur vars. cbn [eval unfuse ref_eval]. plain (fn4_plain f). step Ha. step Hb. step Hc. step Hd.
  symmetry. apply spec_call4.
Qed.

Lemma r_callby f a e : refines a -> refines e -> refines (NCallBy f a e).
Proof.
  intros Ha He cur vars. cbn [eval unfuse ref_eval]. plain (fnby_plain f). step Ha.
  rewrite spec_callby.
  destruct f; [apply group_by_ext | apply array_extreme_by_ext | apply array_extreme_by_ext
              | apply sort_array_by_ext]; intros x; apply He.
Qed.

Lemma r_map e a : refines e -> refines a -> refines (NMap e a).
Proof.
  intros He Ha cur vars. cbn [eval unfuse ref_eval]. plain map_plain. step Ha.
  rewrite spec_callmap. apply map_array_ext. intros x; apply He.
Qed.

(* merge and not_null: no side condition *)
Lemma r_callvar_merge args : Forall refines args -> refines (NCallVar FMerge args).
Proof.
  intros H cur vars. apply eval_refines_variadic; [exact H | discriminate].
Qed.

Lemma r_callvar_not_null args : Forall refines args -> refines (NCallVar FNotNull args).
Proof.
  intros H cur vars. apply eval_refines_variadic; [exact H | discriminate].
Qed.

Lemma r_bin op l r : refines l -> refines r -> refines (NBin op l r).
Proof.
  intros Hl Hr cur vars.
  destruct op; cbn [eval unfuse ref_eval]; step Hl; step Hr; cbn [binop_eval arith_eval];
    rewrite ?equal_spec, ?order_spec_lt, ?order_spec_le, ?order_spec_gt, ?order_spec_ge; reflexivity.
Qed.

Lemma r_and l r : refines l -> refines r -> refines (NAnd l r).
Proof.
  intros Hl Hr cur vars. cbn [eval unfuse ref_eval]. step Hl.
  rewrite is_true_spec. destruct (spec_truthy a); [apply Hr | reflexivity].
Qed.

Lemma r_or l r : refines l -> refines r -> refines (NOr l r).
Proof.
  intros Hl Hr cur vars. cbn [eval unfuse ref_eval]. step Hl.
  rewrite is_true_spec. destruct (spec_truthy a); [reflexivity | apply Hr].
Qed.

Lemma r_not c : refines c -> refines (NNot c).
Proof. intros Hc cur vars. cbn [eval unfuse ref_eval]. step Hc; rewrite is_true_spec; reflexivity. Qed.

Lemma r_negate c : refines c -> refines (NNegate c).
Proof. intros Hc cur vars. cbn [eval unfuse ref_eval]. step Hc. Qed.

Lemma r_assert c : refines c -> refines (NAssertNumber c).
Proof. intros Hc cur vars. cbn [eval unfuse ref_eval]. step Hc. Qed.

Lemma r_define bs child :
  Forall (fun kv => refines (snd kv)) bs -> nodup_keys bs = true -> refines child ->
  refines (NDefine bs child).
Proof.
  intros Hbs Hnd Hc cur vars.
  rewrite eval_NDefine. cbn [unfuse]. rewrite ref_RLet.
  rewrite let_frame_nodup by (rewrite nodup_keys_map; exact Hnd).
  rewrite frame_of_map.
  rewrite (frame_of_ext (fun e => eval root e cur vars) (fun e => ref_eval root (unfuse e) cur vars)).
  2:{ eapply Forall_impl; [|exact Hbs]. intros kv H. apply H. }
  destruct (frame_of _ bs); cbn [bind]; try reflexivity. apply Hc.
Qed.

(* filters *)
Lemma filter_array_spec f x vars : refines f ->
  filter_array (fun v => eval root f v vars) x =
  match x with
  | VArr a =>
    do ps <- proj_list (fun x => do c <- ref_eval root (unfuse f) x vars;
                                 if spec_truthy c then Ok x else Ok VNull) a;
    Ok (VArr ps)
  | _ => Ok VNull
  end.
Proof.
  intros Hf. destruct x; try reflexivity. cbn [filter_array].
  rewrite (filter_list_proj _ (fun x => ref_eval root (unfuse f) x vars)) by (intros; apply Hf).
  reflexivity.
Qed.

Lemma r_filter c f : refines c -> refines f -> refines (NFilter c f).
Proof.
  intros Hc Hf cur vars. cbn [eval unfuse ref_eval]. step Hc. apply filter_array_spec; assumption.
Qed.

Lemma r_filter_current f : refines f -> refines (NFilterCurrent f).
Proof.
  intros Hf cur vars. cbn [eval unfuse ref_eval bind]. apply filter_array_spec; assumption.
Qed.

Lemma filter_and_project_spec f r x vars : refines f -> refines r ->
  filter_and_project (fun v => eval root f v vars) (fun v => eval root r v vars) x =
  match x with
  | VArr a =>
    do ps <- proj_list (fun x => do c <- ref_eval root (unfuse f) x vars;
                                 if spec_truthy c then ref_eval root (unfuse r) x vars else Ok VNull) a;
    Ok (VArr ps)
  | _ => Ok VNull
  end.
Proof.
  intros Hf Hr. destruct x; try reflexivity. cbn [filter_and_project].
  rewrite (filter_project_list_proj _ (fun x => ref_eval root (unfuse f) x vars)
             _ (fun x => ref_eval root (unfuse r) x vars)) by (intros; first [apply Hf | apply Hr]).
  reflexivity.
Qed.

Lemma r_fap l f r : refines l -> refines f -> refines r -> refines (NFilterAndProject l f r).
Proof.
  intros Hl Hf Hr cur vars. cbn [eval unfuse ref_eval]. step Hl. apply filter_and_project_spec; assumption.
Qed.

Lemma r_fap_current f c : refines f -> refines c -> refines (NFilterAndProjectCurrent f c).
Proof.
  intros Hf Hc cur vars. cbn [eval unfuse ref_eval bind]. apply filter_and_project_spec; assumption.
Qed.

(* flatten *)
Lemma flatten_value_spec x :
  Ok (flatten x) =
  match x with
  | VArr a => do ps <- proj_list (fun x => Ok x) (merge_level a); Ok (VArr ps)
  | _ => Ok VNull
  end.
Proof.
  destruct x; try reflexivity. rewrite proj_list_id. cbn [bind]. rewrite flatten_spec. reflexivity.
Qed.

Lemma r_flatten c : refines c -> refines (NFlatten c).
Proof. intros Hc cur vars. cbn [eval unfuse ref_eval]. step Hc. apply flatten_value_spec. Qed.

Lemma r_flatten_current : refines NFlattenCurrent.
Proof. intros cur vars. cbn [eval unfuse ref_eval bind]. apply flatten_value_spec. Qed.

Lemma flatten_and_project_spec r x vars : refines r ->
  flatten_and_project (fun v => eval root r v vars) x =
  match x with
  | VArr a => do ps <- proj_list (fun x => ref_eval root (unfuse r) x vars) (merge_level a); Ok (VArr ps)
  | _ => Ok VNull
  end.
Proof.
  intros Hr. destruct x; try reflexivity. cbn [flatten_and_project].
  rewrite (project_list_proj _ (fun x => ref_eval root (unfuse r) x vars)) by (intros; apply Hr).
  reflexivity.
Qed.

Lemma r_flap l r : refines l -> refines r -> refines (NFlattenAndProject l r).
Proof.
  intros Hl Hr cur vars. cbn [eval unfuse ref_eval]. step Hl. apply flatten_and_project_spec; assumption.
Qed.

Lemma r_flap_current c : refines c -> refines (NFlattenAndProjectCurrent c).
Proof.
  intros Hc cur vars. cbn [eval unfuse ref_eval bind]. apply flatten_and_project_spec; assumption.
Qed.

(* index *)
Lemma r_index c i : refines c -> refines (NIndex c i).
Proof. intros Hc cur vars. cbn [eval unfuse ref_eval]. step Hc. rewrite index_spec. reflexivity. Qed.
Lemma r_index_current i : refines (NIndexCurrent i).
Proof. intros cur vars. cbn [eval unfuse ref_eval bind]. rewrite index_spec. reflexivity. Qed.
Lemma r_small_index_current i : refines (NSmallIndexCurrent i).
Proof. intros cur vars. cbn [eval unfuse ref_eval bind]. rewrite index_spec. reflexivity. Qed.

(* object values *)
Lemma object_values_spec x :
  Ok (object_values x) =
  match x with
  | VObj m => do ps <- proj_list (fun x => Ok x) (map snd m); Ok (VArr ps)
  | _ => Ok VNull
  end.
Proof. destruct x; try reflexivity. rewrite proj_list_id. reflexivity. Qed.

Lemma r_object_values c : refines c -> refines (NObjectValues c).
Proof. intros Hc cur vars. cbn [eval unfuse ref_eval]. step Hc. apply object_values_spec. Qed.
Lemma r_object_values_current : refines NObjectValuesCurrent.
Proof. intros cur vars. cbn [eval unfuse ref_eval bind]. apply object_values_spec. Qed.

Lemma r_pipe l r : refines l -> refines r -> refines (NPipe l r).
Proof. intros Hl Hr cur vars. cbn [eval unfuse ref_eval]. step Hl. apply Hr. Qed.

(* list projections *)
Lemma project_array_spec r x vars : refines r ->
  project_array (fun v => eval root r v vars) x =
  match x with
  | VArr a => do ps <- proj_list (fun x => ref_eval root (unfuse r) x vars) a; Ok (VArr ps)
  | _ => Ok VNull
  end.
Proof.
  intros Hr. destruct x; try reflexivity. cbn [project_array].
  rewrite (project_list_proj _ (fun x => ref_eval root (unfuse r) x vars)) by (intros; apply Hr).
  reflexivity.
Qed.

Lemma eval_project_array_noslice l r cur vars : is_slice_node l = false ->
  eval root (NProjectArray l r) cur vars =
  do x <- eval root l cur vars; project_array (fun v => eval root r v vars) x.
Proof.
  intros H.
  change (eval root (NProjectArray l r) cur vars) with
    (do x <- eval root l cur vars;
     match x with
     | VStr _ => if is_slice_node l then eval root r x vars else project_array (fun v => eval root r v vars) x
     | _ => project_array (fun v => eval root r v vars) x
     end).
  rewrite H. destruct (eval root l cur vars) as [x| | | |]; try reflexivity. destruct x; reflexivity.
Qed.

Lemma unfuse_project_array_noslice l r : is_slice_node l = false ->
  unfuse (NProjectArray l r) = RProj PList (unfuse l) (unfuse r).
Proof. destruct l; try discriminate; reflexivity. Qed.

Lemma r_project_array l r : is_slice_node l = false -> refines l -> refines r -> refines (NProjectArray l r).
Proof.
  intros Hs Hl Hr cur vars.
  rewrite eval_project_array_noslice, unfuse_project_array_noslice by assumption.
  cbn [ref_eval]. step Hl. apply project_array_spec; assumption.
Qed.

Lemma r_project_array_current c : refines c -> refines (NProjectArrayCurrent c).
Proof. intros Hc cur vars. cbn [eval unfuse ref_eval bind]. apply project_array_spec; assumption. Qed.

Lemma project_object_spec r x vars : refines r ->
  project_object (fun v => eval root r v vars) x =
  match x with
  | VObj m => do ps <- proj_list (fun x => ref_eval root (unfuse r) x vars) (map snd m); Ok (VArr ps)
  | _ => Ok VNull
  end.
Proof.
  intros Hr. destruct x; try reflexivity. cbn [project_object].
  rewrite (project_list_proj _ (fun x => ref_eval root (unfuse r) x vars)) by (intros; apply Hr).
  reflexivity.
Qed.

Lemma r_project_object l r : refines l -> refines r -> refines (NProjectObject l r).
Proof.
  intros Hl Hr cur vars. cbn [eval unfuse ref_eval]. step Hl. apply project_object_spec; assumption.
Qed.
Lemma r_project_object_current c : refines c -> refines (NProjectObjectCurrent c).
Proof. intros Hc cur vars. cbn [eval unfuse ref_eval bind]. apply project_object_spec; assumption. Qed.

(* prune *)
Lemma prune_array_spec x :
  Ok (prune_array x) =
  match x with
  | VArr a => do ps <- proj_list (fun x => Ok x) a; Ok (VArr ps)
  | _ => Ok VNull
  end.
Proof.
  destruct x; try reflexivity. rewrite proj_list_id. cbn [bind prune_array]. rewrite drop_nulls_filter.
  reflexivity.
Qed.
Lemma r_prune c : refines c -> refines (NPruneArray c).
Proof. intros Hc cur vars. cbn [eval unfuse ref_eval]. step Hc. apply prune_array_spec. Qed.
Lemma r_prune_current : refines NPruneArrayCurrent.
Proof. intros cur vars. cbn [eval unfuse ref_eval bind]. apply prune_array_spec. Qed.

(* multi-select lists *)
Lemma ref_RSub_list l es cur vars :
  ref_eval root (RSub l (RMultiList es)) cur vars =
  do v <- ref_eval root l cur vars; if not_null v then ref_eval root (RMultiList es) v vars else Ok VNull.
Proof. reflexivity. Qed.
Lemma ref_RSub_hash l es cur vars :
  ref_eval root (RSub l (RMultiHash es)) cur vars =
  do v <- ref_eval root l cur vars; if not_null v then ref_eval root (RMultiHash es) v vars else Ok VNull.
Proof. reflexivity. Qed.

Lemma evlist_refines fields x vars : Forall refines fields ->
  evlist (fun f => eval root f x vars) fields =
  evlist (fun e => ref_eval root e x vars) (map unfuse fields).
Proof.
  intros H. rewrite evlist_map. apply evlist_ext.
  eapply Forall_impl; [|exact H]. intros a Ha. apply Ha.
Qed.

Lemma long_list {A B} (h : A -> B) (l : list A) : 2 <=? Z.of_nat (length l) = true ->
  exists a b r, map h l = a :: b :: r.
Proof.
  intros H. apply Z.leb_le in H. destruct l as [|a [|b r]]; cbn [length] in H; try lia.
  exists (h a), (h b), (map h r). reflexivity.
Qed.

Lemma r_select_array_current fields :
  Forall refines fields -> 2 <=? Z.of_nat (length fields) = true -> refines (NSelectArrayCurrent fields).
Proof.
  intros Hf Hlen cur vars. rewrite eval_NSelectArrayCurrent. cbn [unfuse]. rewrite ref_RMultiList.
  rewrite (evlist_refines fields) by assumption.
  destruct (long_list unfuse fields Hlen) as (a & b & r & E). rewrite E.
  destruct cur; reflexivity.
Qed.

Lemma r_select_array c fields :
  refines c -> Forall refines fields -> refines (NSelectArray c fields).
Proof.
  intros Hc Hf cur vars. rewrite eval_NSelectArray. cbn [unfuse]. rewrite ref_RSub_list. step Hc.
  rewrite ref_RMultiList. rewrite (evlist_refines fields) by assumption.
  destruct a; reflexivity.
Qed.

Lemma r_select_array_single c f : refines c -> refines f -> refines (NSelectArraySingle c f).
Proof.
  intros Hc Hf cur vars. cbn [eval unfuse]. cbn [ref_eval]. step Hc.
  destruct a; cbn [is_null not_null]; try reflexivity; cbn [ref_eval]; step Hf.
Qed.

Lemma r_select_array_single_current f : refines f -> refines (NSelectArraySingleCurrent f).
Proof.
  intros Hf cur vars. cbn [eval unfuse]. 
  destruct cur; cbn [ref_eval]; step Hf.
Qed.

(* multi-select hashes *)
Lemma frame_refines fields x vars : Forall (fun kv => refines (snd kv)) fields ->
  frame_of (fun f => eval root f x vars) fields =
  frame_of (fun e => ref_eval root e x vars) (map (fun kv => (fst kv, unfuse (snd kv))) fields).
Proof.
  intros H. rewrite frame_of_map. apply frame_of_ext.
  eapply Forall_impl; [|exact H]. intros a Ha. apply Ha.
Qed.

Lemma r_select_object_current fields :
  Forall (fun kv => refines (snd kv)) fields -> 2 <=? Z.of_nat (length fields) = true ->
  refines (NSelectObjectCurrent fields).
Proof.
  intros Hf Hlen cur vars. rewrite eval_NSelectObjectCurrent. cbn [unfuse]. rewrite ref_RMultiHash.
  rewrite (frame_refines fields) by assumption.
  destruct (long_list (fun kv => (fst kv, unfuse (snd kv))) fields Hlen) as (a & b & r & E). rewrite E.
  destruct cur; reflexivity.
Qed.

Lemma r_select_object c fields :
  refines c -> Forall (fun kv => refines (snd kv)) fields -> refines (NSelectObject c fields).
Proof.
  intros Hc Hf cur vars. rewrite eval_NSelectObject. cbn [unfuse]. rewrite ref_RSub_hash. step Hc.
  rewrite ref_RMultiHash. rewrite (frame_refines fields) by assumption.
  destruct a; reflexivity.
Qed.

Lemma r_select_object_single c k f : refines c -> refines f -> refines (NSelectObjectSingle c k f).
Proof.
  intros Hc Hf cur vars. cbn [eval unfuse]. cbn [ref_eval]. step Hc.
  destruct a; cbn [is_null not_null]; try reflexivity; cbn [ref_eval]; step Hf.
Qed.

Lemma r_select_object_single_current k f : refines f -> refines (NSelectObjectSingleCurrent k f).
Proof.
  intros Hf cur vars. cbn [eval unfuse].
  destruct cur; cbn [ref_eval]; step Hf.
Qed.

(* slice projections with step 1 *)
Lemma slice1_project_spec r x start stop vars : refines r ->
  (do y <- slice x start stop;
   match y with
   | VStr _ => eval root r y vars
   | _ => project_array (fun v => eval root r v vars) y
   end) =
  match x with
  | VArr a =>
    do ps <- proj_list (fun v => ref_eval root (unfuse r) v vars)
                       (spec_slice a VNull (Some start) (Some stop) 1);
    Ok (VArr ps)
  | VStr s => ref_eval root (unfuse r) (VStr (concat (spec_slice (chunks s) [] (Some start) (Some stop) 1))) vars
  | _ => Ok VNull
  end.
Proof.
  intros Hr. destruct x; try reflexivity.
  - rewrite slice1_str. cbn [bind]. apply Hr.
  - rewrite slice1_arr. cbn [bind]. apply (project_array_spec r (VArr _) vars Hr).
Qed.

Lemma r_project_slice c a b r : refines c -> refines r -> refines (NProjectArray (NSlice c a b) r).
Proof.
  intros Hc Hr cur vars. cbn [eval unfuse ref_eval is_slice_node sl]. step Hc.
  apply slice1_project_spec; assumption.
Qed.

Lemma r_project_slice_current a b r : refines r -> refines (NProjectArray (NSliceCurrent a b) r).
Proof.
  intros Hr cur vars. cbn [eval unfuse ref_eval is_slice_node sl bind].
  apply slice1_project_spec; assumption.
Qed.

End Cases.

(* ------------------------------------------------------------------ *)
(* main theorem (nodes without stepped slices and without zip calls;   *)
(* merge and not_null are covered)                                     *)
(* ------------------------------------------------------------------ *)

Section Main.
Variable root : value.

Definition refines_if_plain (n : node) : Prop :=
  wf_node n = true -> no_step_slice n = true -> no_zip n = true -> refines root n.

Lemma Forall_plain l :
  Forall refines_if_plain l ->
  forallb wf_node l = true -> forallb no_step_slice l = true -> forallb no_zip l = true ->
  Forall (refines root) l.
Proof.
  induction 1 as [|a r Ha _ IH]; intros H1 H2 H3; constructor;
    cbn [forallb] in H1, H2, H3;
    apply andb_prop in H1; apply andb_prop in H2; apply andb_prop in H3;
    destruct H1, H2, H3; auto.
Qed.

Lemma Forall_plain_kv (m : list (bytes * node)) :
  Forall refines_if_plain (map snd m) ->
  forallb (fun kv => wf_node (snd kv)) m = true ->
  forallb (fun kv => no_step_slice (snd kv)) m = true ->
  forallb (fun kv => no_zip (snd kv)) m = true ->
  Forall (fun kv => refines root (snd kv)) m.
Proof.
  induction m as [|[k a] r IH]; intros H H1 H2 H3; constructor;
    cbn [forallb map snd] in H, H1, H2, H3;
    apply Forall_cons_iff in H;
    apply andb_prop in H1; apply andb_prop in H2; apply andb_prop in H3;
    destruct H, H1, H2, H3; auto.
Qed.

Lemma wf_project_array_noslice l r : is_slice_node l = false ->
  wf_node (NProjectArray l r) = wf_node l && wf_node r.
Proof. destruct l; try discriminate; reflexivity. Qed.

Ltac split_andb :=
  repeat match goal with H : _ && _ = true |- _ => apply andb_prop in H; destruct H end.
Ltac inv_forall :=
  repeat match goal with
  | H : Forall _ (_ :: _) |- _ => apply Forall_cons_iff in H; destruct H as [? H]
  | H : Forall _ [] |- _ => clear H
  end.
Ltac use_ih :=
  repeat match goal with
  | H : refines_if_plain ?a, H1 : wf_node ?a = true, H2 : no_step_slice ?a = true, H3 : no_zip ?a = true |- _ =>
    specialize (H H1 H2 H3)
  end.

Lemma r_project_array_any l r :
  refines_if_plain l -> refines_if_plain r ->
  Forall refines_if_plain (match l with NSlice c _ _ | NSliceStep c _ _ _ => [c] | _ => [] end) ->
  refines_if_plain (NProjectArray l r).
Proof.
  intros Hl Hr Hc Hwf Hns Hnv.
  cbn [no_step_slice no_zip] in Hns, Hnv. split_andb.
  destruct (is_slice_node l) eqn:Es.
  - destruct l; try discriminate; cbn [wf_node no_step_slice no_zip] in *;
      try discriminate; split_andb; inv_forall; use_ih.
    + apply r_project_slice; assumption.
    + apply r_project_slice_current; assumption.
  - rewrite wf_project_array_noslice in Hwf by assumption. split_andb.
    apply r_project_array; auto.
Qed.

Lemma eval_refines_plain : forall n, refines_if_plain n.
Proof.
  induction n as [n IH] using node_children_ind.
  destruct n; cbn [children] in IH;
    try (inv_forall; apply r_project_array_any; assumption);
    intros Hwf Hns Hnv; cbn [no_step_slice no_zip] in Hns, Hnv;
    try discriminate;
    cbn [wf_node] in Hwf; split_andb; inv_forall; use_ih;
    try (intros cur vars; reflexivity).
  all: eauto using r_call1, r_call2, r_call3, r_call4, r_callby, r_map, r_bin, r_and, r_or, r_not,
    r_negate, r_assert, r_filter, r_filter_current, r_fap, r_fap_current, r_flatten, r_flatten_current,
    r_flap, r_flap_current, r_index, r_index_current, r_small_index_current, r_object_values,
    r_object_values_current, r_pipe, r_project_array_current, r_project_object,
    r_project_object_current, r_prune, r_prune_current, r_select_array_single,
    r_select_array_single_current, r_select_object_single, r_select_object_single_current.
  - destruct f; try discriminate; [apply r_callvar_merge | apply r_callvar_not_null];
      auto using Forall_plain.
  - apply r_define; auto using Forall_plain_kv.
  - apply r_select_array; auto using Forall_plain.
  - apply r_select_array_current; auto using Forall_plain.
  - apply r_select_object; auto using Forall_plain_kv.
  - apply r_select_object_current; auto using Forall_plain_kv.
Qed.

(* every node type except NSliceStep / NSliceStepCurrent / NCallVar FZip *)
Theorem eval_refines_slice1 : forall (n : node) (cur : value) (vars : env),
  wf_node n = true -> no_step_slice n = true -> no_zip n = true ->
  eval root n cur vars = ref_eval root (unfuse n) cur vars.
Proof. intros n cur vars H1 H2 H3. apply eval_refines_plain; assumption. Qed.

End Main.

Lemma forallb_impl {A} (p q : A -> bool) l :
  Forall (fun a => p a = true -> q a = true) l -> forallb p l = true -> forallb q l = true.
Proof.
  induction 1 as [|a r Ha _ IH]; [reflexivity|]. cbn [forallb]. intros H.
  apply andb_prop in H. destruct H as [H1 H2]. rewrite (Ha H1), (IH H2). reflexivity.
Qed.

Lemma forallb_impl_kv {K A} (p q : A -> bool) (m : list (K * A)) :
  Forall (fun a => p a = true -> q a = true) (map snd m) ->
  forallb (fun kv => p (snd kv)) m = true -> forallb (fun kv => q (snd kv)) m = true.
Proof.
  induction m as [|[k a] r IH]; [reflexivity|]. cbn [forallb map snd]. intros HF H.
  apply Forall_cons_iff in HF. destruct HF as [Ha HF].
  apply andb_prop in H. destruct H as [H1 H2]. rewrite (Ha H1), (IH HF H2). reflexivity.
Qed.

Lemma no_slice_no_step_slice : forall n, no_slice n = true -> no_step_slice n = true.
Proof.
  induction n as [n IH] using node_children_ind.
  destruct n; cbn [children] in IH; cbn [no_slice no_step_slice]; intros H; try discriminate;
    repeat match goal with H : _ && _ = true |- _ => apply andb_prop in H; destruct H end;
    repeat match goal with
    | H : Forall _ (_ :: _) |- _ => apply Forall_cons_iff in H; destruct H as [? H]
    end;
    repeat match goal with
    | H : no_slice ?a = true -> _, H1 : no_slice ?a = true |- _ => rewrite (H H1); clear H
    end;
    cbn [andb]; try reflexivity;
    eauto using forallb_impl, forallb_impl_kv.
Qed.

(* the older, stronger exclusion of every variadic call implies the one used now *)
Lemma no_variadic_no_zip : forall n, no_variadic n = true -> no_zip n = true.
Proof.
  induction n as [n IH] using node_children_ind.
  destruct n; cbn [children] in IH; cbn [no_variadic no_zip]; intros H; try discriminate;
    repeat match goal with H : _ && _ = true |- _ => apply andb_prop in H; destruct H end;
    repeat match goal with
    | H : Forall _ (_ :: _) |- _ => apply Forall_cons_iff in H; destruct H as [? H]
    end;
    repeat match goal with
    | H : no_variadic ?a = true -> _, H1 : no_variadic ?a = true |- _ => rewrite (H H1); clear H
    end;
    cbn [andb]; try reflexivity;
    eauto using forallb_impl, forallb_impl_kv.
Qed.

(* the same under the stronger, purely syntactic exclusion of every slice node *)
Theorem eval_refines : forall (root : value) (n : node) (cur : value) (vars : env),
  wf_node n = true -> no_slice n = true -> no_zip n = true ->
  eval root n cur vars = ref_eval root (unfuse n) cur vars.
Proof.
  intros root n cur vars H1 H2 H3.
  apply eval_refines_slice1; auto using no_slice_no_step_slice.
Qed.

(* ------------------------------------------------------------------ *)
(* slices with an explicit step                                        *)
(* ------------------------------------------------------------------ *)

Lemma in_int_range z : in_int z = true -> MinInt <= z <= MaxInt.
Proof. unfold in_int. intros H. apply andb_prop in H. destruct H as [H1 H2]. lia. Qed.

Lemma slice_step_arr l a b s : zlen l <= MaxInt -> in_int s = true -> s <> 0 ->
  slice_step (VArr l) a b s = Ok (VArr (spec_slice l VNull (Some a) (Some b) s)).
Proof.
  intros HL Hs Hnz. apply in_int_range in Hs.
  destruct (Z.lt_ge_cases 0 s).
  - apply slice_step_pos_some; assumption.
  - apply slice_step_neg_some; [assumption | lia].
Qed.

Lemma pick_default_prog rs : forall k j step,
  pick_default rs k j step = map (fun x => nth (Z.to_nat x) rs RuneError) (prog k j step).
Proof. induction k as [|k IH]; intros j step; [reflexivity|]. cbn [pick_default prog map]. rewrite IH. reflexivity. Qed.

Lemma encode_all_concat cs : encode_all cs = concat (map encode_rune cs).
Proof. unfold encode_all. apply flat_map_concat_map. Qed.

Lemma nth_map_in_range cs : forall idx,
  Forall (fun x => 0 <= x < zlen cs) idx ->
  map (fun x => nth (Z.to_nat x) (map encode_rune cs) []) idx =
  map encode_rune (map (fun x => nth (Z.to_nat x) cs RuneError) idx).
Proof.
  induction 1 as [|x r Hx _ IH]; [reflexivity|]. cbn [map]. rewrite IH. f_equal.
  rewrite (nth_indep _ [] (encode_rune RuneError)) by (rewrite map_length; unfold zlen in Hx; lia).
  apply map_nth.
Qed.

Lemma nth_skipn_plus {A} (d : A) : forall k (l : list A) n, nth n (skipn k l) d = nth (k + n) l d.
Proof.
  induction k as [|k IH]; intros l n; [reflexivity|].
  destruct l as [|x l]; [destruct n; reflexivity|]. cbn [skipn Nat.add nth]. apply IH.
Qed.

(* reading a reversed list from the back *)
Lemma nth_skipn_rev {A} (d : A) (l : list A) i k :
  0 <= k <= i -> i < zlen l ->
  nth (Z.to_nat k) (skipn (Z.to_nat (zlen l - 1 - i)) (rev l)) d = nth (Z.to_nat (i - k)) l d.
Proof.
  unfold zlen. intros Hk Hi.
  rewrite nth_skipn_plus. rewrite rev_nth by lia. f_equal. lia.
Qed.

Lemma pick_default_back cs i : forall k j step,
  Forall (fun x => 0 <= x < i + 1) (prog k j step) -> i < zlen cs ->
  pick_default (skipn (Z.to_nat (zlen cs - 1 - i)) (rev cs)) k j step =
  map (fun x => nth (Z.to_nat x) cs RuneError) (prog k (i - j) (- step)).
Proof.
  induction k as [|k IH]; intros j step HF Hi; [reflexivity|].
  cbn [prog] in HF. apply Forall_cons_iff in HF. destruct HF as [Hj HF].
  cbn [pick_default prog map]. rewrite nth_skipn_rev by lia. f_equal.
  rewrite IH by assumption. f_equal. f_equal. lia.
Qed.

Lemma prog_shift : forall k i j step, 
  prog k (i - j) (- step) = map (fun x => i - x) (prog k j step).
Proof.
  induction k as [|k IH]; intros i j step; [reflexivity|]. cbn [prog map]. f_equal.
  rewrite <- IH. f_equal. lia.
Qed.

Lemma slice_step_str t a b s :
  bytes_ok t = true -> valid_utf8 t = true -> rune_count t <= MaxInt -> in_int s = true -> s <> 0 ->
  slice_step (VStr t) a b s = Ok (VStr (concat (spec_slice (chunks t) [] (Some a) (Some b) s))).
Proof.
  intros Hb Hv HL Hs Hnz. apply in_int_range in Hs.
  apply (valid_utf8_iff t Hb) in Hv. destruct Hv as (cs & Hcs & ->).
  rewrite rune_count_encode_all in HL by assumption. fold (zlen cs) in HL.
  unfold slice_step. rewrite runes_encode_all, runes_rev_encode_all, chunks_encode_all by assumption.
  cbv zeta.
  unfold spec_slice, spec_slice_indices. rewrite map_length. fold (zlen cs).
  pose proof (zlen_nonneg cs) as H0.
  destruct (spec_bounds (zlen cs) (Some a) (Some b) s) as [st e] eqn:Hbd.
  destruct (Z.lt_ge_cases 0 s) as [Hpos|Hneg].
  - pose proof (norm_step_pos_spec _ _ _ _ _ _ H0 Hpos Hbd) as Hn.
    destruct (norm_step (zlen cs) a b s) as [[i n]|].
    + destruct Hn as (-> & Hs0 & Hse & HeL & c & -> & ->).
      pose proof (ceilq_spec (e - st) s ltac:(lia) Hpos) as [[Hlo Hhi] [Hn1 Hnc]].
      set (n := ceilq (e - st) s) in *.
      rewrite (proj2 (Z.eqb_neq s 0)) by lia.
      rewrite (gtb_true s 0) by lia.
      assert (0 <= (n - 1) * s) by (apply Z.mul_nonneg_nonneg; lia).
      rewrite (walk_count_pos (Z.to_nat n)); try (rewrite ?Z2Nat.id by lia; lia).
      rewrite pick_default_prog, encode_all_concat, nth_map_in_range; [reflexivity|].
      apply prog_range. intros _. rewrite Z2Nat.id by lia. lia.
    + rewrite walk_nil_pos by lia. reflexivity.
  - assert (Hs' : s < 0) by lia.
    pose proof (norm_step_neg_spec _ _ _ _ _ _ H0 Hs' Hbd) as Hn.
    destruct (norm_step (zlen cs) a b s) as [[i n]|].
    + destruct Hn as (-> & Hes & He1 & HsL & c & -> & ->).
      assert (exists n, ceilq (st - e) (wrap64 (s * -1)) = n /\ 1 <= n <= st - e /\
                        st + n * s <= e /\ e < st + (n - 1) * s) as (n & -> & Hn1 & Hhi & Hlo).
      { destruct (Z.eq_dec s MinInt) as [->|Hne].
        - rewrite wrap64_neg_MinInt. rewrite ceilq_MinInt by (unfold MinInt, MaxInt in *; lia).
          exists 1. unfold MinInt, MaxInt in *. repeat split; lia.
        - rewrite wrap64_id by (unfold MinInt, MaxInt in *; lia).
          replace (s * -1) with (- s) by lia.
          pose proof (ceilq_spec (st - e) (- s) ltac:(lia) ltac:(lia)) as [[Hlo Hhi] [Hn1 Hnc]].
          eexists; split; [reflexivity|]. repeat split; lia. }
      rewrite (proj2 (Z.eqb_neq s 0)) by lia.
      rewrite (gtb_false s 0) by lia.
      assert ((n - 1) * s <= 0) by (apply Z.mul_nonneg_nonpos; lia).
      rewrite (walk_count_neg (Z.to_nat n)); try (rewrite ?Z2Nat.id by lia; lia).
      rewrite (pick_default_back cs st).
      2:{ apply prog_range. intros _. rewrite Z2Nat.id by lia. lia. }
      2:{ lia. }
      replace (st - 0) with st by lia. replace (- - s) with s by lia.
      rewrite encode_all_concat, nth_map_in_range; [reflexivity|].
      apply prog_range. intros _. rewrite Z2Nat.id by lia. lia.
    + rewrite walk_nil_neg by lia. reflexivity.
Qed.

(* ------------------------------------------------------------------ *)
(* slice projections with an explicit step                             *)
(* ------------------------------------------------------------------ *)

(* what the operand of a stepped slice must be for the model to agree with the
   reference: an array no longer than a Go slice can be, or a valid UTF-8 string
   (on invalid UTF-8 the two differ, see slice_step_invalid_utf8_differs) *)
Definition step_sliceable (x : value) : Prop :=
  match x with
  | VArr l => zlen l <= MaxInt
  | VStr t => bytes_ok t = true /\ valid_utf8 t = true /\ rune_count t <= MaxInt
  | _ => True
  end.

Section StepSlice.
Variable root : value.

Lemma slice_step_project_spec r x a b s vars :
  refines root r -> in_int s = true -> s <> 0 -> step_sliceable x ->
  (do y <- slice_step x a b s;
   match y with
   | VStr _ => eval root r y vars
   | _ => project_array (fun v => eval root r v vars) y
   end) =
  match x with
  | VArr l =>
    do ps <- proj_list (fun v => ref_eval root (unfuse r) v vars)
                       (spec_slice l VNull (Some a) (Some b) s);
    Ok (VArr ps)
  | VStr t => ref_eval root (unfuse r) (VStr (concat (spec_slice (chunks t) [] (Some a) (Some b) s))) vars
  | _ => Ok VNull
  end.
Proof.
  intros Hr Hs Hnz Hx. destruct x; try reflexivity.
  - destruct Hx as (Hb & Hv & HL). rewrite slice_step_str by assumption. cbn [bind]. apply Hr.
  - cbn [step_sliceable] in Hx. rewrite slice_step_arr by assumption. cbn [bind].
    apply (project_array_spec root r (VArr _) vars Hr).
Qed.

Lemma ref_step_slice l r a b s cur vars : s <> 0 ->
  ref_eval root (RProj (PSlice (sl a) (sl b) (Some s)) l r) cur vars =
  do v <- ref_eval root l cur vars;
  match v with
  | VArr x =>
    do ps <- proj_list (fun v => ref_eval root r v vars) (spec_slice x VNull (Some a) (Some b) s);
    Ok (VArr ps)
  | VStr t => ref_eval root r (VStr (concat (spec_slice (chunks t) [] (Some a) (Some b) s))) vars
  | _ => Ok VNull
  end.
Proof. intros H. destruct s; [congruence| |]; reflexivity. Qed.

Theorem eval_refines_slice_step : forall (c : node) (a b s : Z) (r : node) (cur : value) (vars : env),
  wf_node (NProjectArray (NSliceStep c a b s) r) = true ->
  eval root c cur vars = ref_eval root (unfuse c) cur vars ->
  (forall v vars', eval root r v vars' = ref_eval root (unfuse r) v vars') ->
  (forall x, eval root c cur vars = Ok x -> step_sliceable x) ->
  eval root (NProjectArray (NSliceStep c a b s) r) cur vars =
  ref_eval root (unfuse (NProjectArray (NSliceStep c a b s) r)) cur vars.
Proof.
  intros c a b s r cur vars Hwf Hc Hr Hx.
  cbn [wf_node] in Hwf.
  repeat match goal with H : _ && _ = true |- _ => apply andb_prop in H; destruct H end.
  assert (Hnz : s <> 0).
  { match goal with H : negb (s =? 0) = true |- _ => apply negb_true_iff, Z.eqb_neq in H; exact H end. }
  cbn [unfuse]. rewrite ref_step_slice by assumption.
  cbn [eval is_slice_node]. rewrite <- Hc.
  destruct (eval root c cur vars) as [x| | | |] eqn:E; cbn [bind]; try reflexivity.
  apply slice_step_project_spec; auto.
Qed.

Theorem eval_refines_slice_step_current : forall (a b s : Z) (r : node) (cur : value) (vars : env),
  wf_node (NProjectArray (NSliceStepCurrent a b s) r) = true ->
  (forall v vars', eval root r v vars' = ref_eval root (unfuse r) v vars') ->
  step_sliceable cur ->
  eval root (NProjectArray (NSliceStepCurrent a b s) r) cur vars =
  ref_eval root (unfuse (NProjectArray (NSliceStepCurrent a b s) r)) cur vars.
Proof.
  intros a b s r cur vars Hwf Hr Hx.
  cbn [wf_node] in Hwf.
  repeat match goal with H : _ && _ = true |- _ => apply andb_prop in H; destruct H end.
  assert (Hnz : s <> 0).
  { match goal with H : negb (s =? 0) = true |- _ => apply negb_true_iff, Z.eqb_neq in H; exact H end. }
  cbn [unfuse]. rewrite ref_step_slice by assumption.
  cbn [eval is_slice_node ref_eval bind].
  apply slice_step_project_spec; auto.
Qed.

End StepSlice.

(* ------------------------------------------------------------------ *)
(* where the model and the reference differ                            *)
(* ------------------------------------------------------------------ *)

(* [::2] on the one-byte string "\xff" (not valid UTF-8; it cannot come out of
   encoding/json, but it is a Go string): the stepped slice goes through runes and
   re-encodes U+FFFD, the reference (and the model's own step-1 slice) keeps the byte *)
Lemma slice_step_invalid_utf8_differs :
  let n := NProjectArray (NSliceStepCurrent 0 MaxInt 2) NCurrent in
  wf_node n = true /\
  eval VNull n (VStr [255]) [] = Ok (VStr [239; 191; 189]) /\
  ref_eval VNull (unfuse n) (VStr [255]) [] = Ok (VStr [255]).
Proof. repeat split; vm_compute; reflexivity. Qed.

Print Assumptions eval_refines_slice1.
Print Assumptions eval_refines_slice_step.
Print Assumptions eval_refines_slice_step_current.
Print Assumptions eval_refines_variadic.
Print Assumptions eval_refines_variadic_ok.
Print Assumptions eval_refines.
