(* C13: sort, sort_by, min, max, min_by, max_by.

   The model functions (Model/Array.v: sort_array, array_max, array_min;
   Model/Eval.v: sort_array_by, array_extreme_by) are related to the generic
   theory of the stable insertion sort (Proofs/SortTheory.v) and to the order
   theory of decimals (Proofs/DecTheory.v) and byte strings. *)
From Coq Require Import List ZArith Bool Lia Permutation Sorted.
From JM Require Import Base.Outcome Base.Bytes Base.Utf8 Num.Dec Json.Value
  Model.NumberFns Model.Array Model.Eval
  Proofs.SortTheory Proofs.DecTheory Proofs.Utf8Theory.
Import ListNotations.
Open Scope Z_scope.

(* a number whose decimal value is comparable (not NaN, well formed) *)
Definition num_ok (v : value) : Prop := exists d, to_decimal v = Some d /\ dec_ok d.

(* ================================================================== *)
(* 0. the two key orders                                               *)
(* ================================================================== *)

(* ---- byte strings ---- *)

Lemma bcmp_refl : forall a, bcmp a a = Eq.
Proof. induction a as [|x a IH]; cbn [bcmp]; [reflexivity|]. rewrite Z.compare_refl. exact IH. Qed.

Lemma bcmp_eq : forall a b, bcmp a b = Eq <-> a = b.
Proof.
  induction a as [|x a IH]; destruct b as [|y b]; cbn [bcmp]; split; intros H;
    try reflexivity; try discriminate.
  - destruct (Z.compare_spec x y); try discriminate. subst. f_equal. apply IH; exact H.
  - inversion H; subst. rewrite Z.compare_refl. apply IH. reflexivity.
Qed.

Lemma bcmp_trans_le : forall a b c, bcmp a b <> Gt -> bcmp b c <> Gt -> bcmp a c <> Gt.
Proof.
  induction a as [|x a IH]; destruct b as [|y b]; destruct c as [|z c]; cbn [bcmp];
    intros H1 H2; try congruence; try discriminate.
  destruct (Z.compare_spec x y), (Z.compare_spec y z), (Z.compare_spec x z);
    try congruence; try discriminate; try lia.
  eapply IH; eassumption.
Qed.

Lemma str_leb_total : forall x y, str_leb x y = true \/ str_leb y x = true.
Proof.
  intros x y. unfold str_leb. rewrite (bcmp_antisym x y).
  destruct (bcmp x y); simpl; auto.
Qed.

Lemma str_leb_trans : forall x y z,
  str_leb x y = true -> str_leb y z = true -> str_leb x z = true.
Proof.
  intros x y z. unfold str_leb.
  pose proof (bcmp_trans_le x y z) as H.
  destruct (bcmp x y), (bcmp y z), (bcmp x z); intros; try reflexivity; try discriminate;
    exfalso; apply H; congruence.
Qed.

Lemma str_leb_refl : forall x, str_leb x x = true.
Proof. intros x. unfold str_leb. rewrite bcmp_refl. reflexivity. Qed.

(* the string order is antisymmetric: a total ORDER, not only a preorder *)
Lemma str_leb_antisym : forall x y, str_leb x y = true -> str_leb y x = true -> x = y.
Proof.
  intros x y. unfold str_leb. rewrite (bcmp_antisym x y).
  destruct (bcmp x y) eqn:E; simpl; intros; try discriminate.
  apply bcmp_eq; exact E.
Qed.

Lemma str_equiv_beqb : forall x y, str_leb x y && str_leb y x = beqb x y.
Proof.
  intros x y. destruct (beqb x y) eqn:E.
  - apply beqb_eq in E. subst. rewrite str_leb_refl. reflexivity.
  - destruct (str_leb x y) eqn:E1, (str_leb y x) eqn:E2; try reflexivity.
    rewrite (str_leb_antisym x y E1 E2), beqb_refl in E. discriminate.
Qed.

Lemma bgtb_str_leb : forall x y, bgtb x y = negb (str_leb x y).
Proof. intros. unfold bgtb, str_leb. destruct (bcmp x y); reflexivity. Qed.

Lemma bltb_str_leb : forall x y, bltb x y = negb (str_leb y x).
Proof. intros. unfold bltb, str_leb. rewrite (bcmp_antisym x y). destruct (bcmp x y); reflexivity. Qed.

(* for valid UTF-8 the byte order is the code point order *)
Lemma str_leb_code_points : forall a b, scalars a -> scalars b ->
  str_leb (encode_all a) (encode_all b) = match zlist_cmp a b with Gt => false | _ => true end.
Proof. intros a b Ha Hb. unfold str_leb. rewrite bcmp_encode_all by assumption. reflexivity. Qed.

(* ---- decimals: dec_leb is decimal128.Compare <= 0, which is a total preorder
   on ALL decimals, NaN included (NaN is the least element, equivalent only to
   itself); no dec_ok side condition is needed for sorting ---- *)

Lemma dec_leb_nan_l : forall y, dec_leb DNaN y = true.
Proof. intros [n c e|b|]; reflexivity. Qed.

Lemma dec_leb_nan_r : forall x, dec_leb x DNaN = true -> x = DNaN.
Proof. intros [n c e|b|]; intros H; try reflexivity; discriminate. Qed.

Lemma dec_cmp_nonnan : forall x y, x <> DNaN -> y <> DNaN -> dec_cmp x y <> CUnordered.
Proof.
  intros [n1 c1 e1|a|] [n2 c2 e2|b|] Hx Hy; try congruence.
  - rewrite dec_cmp_fin_raw. destruct (_ ?= _); discriminate.
  - destruct b; discriminate.
  - destruct a; discriminate.
  - destruct a, b; discriminate.
Qed.

Lemma dec_leb_cmp_nonnan : forall x y, x <> DNaN -> y <> DNaN ->
  dec_leb x y = match dec_cmp x y with CGt => false | _ => true end.
Proof.
  intros x y Hx Hy. unfold dec_leb, dec_compare.
  pose proof (dec_cmp_nonnan x y Hx Hy) as H.
  destruct (dec_cmp x y); try reflexivity. contradiction.
Qed.

Theorem dec_leb_total_all : forall x y, dec_leb x y = true \/ dec_leb y x = true.
Proof.
  intros x y.
  destruct x as [n1 c1 e1|a|]; [| |left; apply dec_leb_nan_l];
  (destruct y as [n2 c2 e2|b|]; [| |right; apply dec_leb_nan_l]);
  rewrite !dec_leb_cmp_nonnan by discriminate;
  match goal with |- context [dec_cmp ?p ?q] => rewrite (dec_cmp_flip p q); destruct (dec_cmp p q) end;
  simpl; auto.
Qed.

Theorem dec_leb_trans_all : forall x y z,
  dec_leb x y = true -> dec_leb y z = true -> dec_leb x z = true.
Proof.
  intros x y z Hxy Hyz.
  destruct x as [n1 c1 e1|a|]; [| |apply dec_leb_nan_l];
  (destruct y as [n2 c2 e2|b|]; [| |apply dec_leb_nan_r in Hxy; discriminate]);
  (destruct z as [n3 c3 e3|c|]; [| |apply dec_leb_nan_r in Hyz; discriminate]);
  revert Hxy Hyz; rewrite !dec_leb_cmp_nonnan by discriminate.
  - destruct (dec_cmp_fin3 n1 c1 e1 n2 c2 e2 n3 c3 e3) as (p & q & r & E1 & E2 & E3).
    rewrite E1, E2, E3.
    destruct (Z.compare_spec p q), (Z.compare_spec q r), (Z.compare_spec p r);
      simpl; intros; try reflexivity; try discriminate; lia.
  - destruct c; simpl; intros; try reflexivity; try discriminate.
  - destruct b; simpl; intros; try reflexivity; try discriminate.
  - destruct b, c; simpl; intros; try reflexivity; try discriminate.
  - destruct a; simpl; intros; try reflexivity; try discriminate.
  - destruct a, c; simpl; intros; try reflexivity; try discriminate.
  - destruct a, b; simpl; intros; try reflexivity; try discriminate.
  - destruct a, b, c; simpl; intros; try reflexivity; try discriminate.
Qed.

(* ================================================================== *)
(* 1. list helpers                                                     *)
(* ================================================================== *)

Lemma all_strings_map : forall ss, all_strings (map VStr ss) = Some ss.
Proof. induction ss as [|s ss IH]; simpl; [reflexivity|]. rewrite IH. reflexivity. Qed.

Lemma all_strings_some : forall a ss, all_strings a = Some ss -> a = map VStr ss.
Proof.
  induction a as [|v a IH]; intros ss H; simpl in H.
  - inversion H; reflexivity.
  - destruct v; try discriminate.
    destruct (all_strings a) as [r|] eqn:E; simpl in H; inversion H; subst.
    simpl. f_equal. apply IH. reflexivity.
Qed.

Lemma all_strings_iff : forall a ss, all_strings a = Some ss <-> a = map VStr ss.
Proof. intros; split; [apply all_strings_some | intros ->; apply all_strings_map]. Qed.

Lemma all_decimals_iff : forall a ds,
  all_decimals a = Some ds <-> Forall2 (fun v d => to_decimal v = Some d) a ds.
Proof.
  intros a ds; split.
  - revert ds. induction a as [|v a IH]; intros ds H; simpl in H.
    + inversion H. constructor.
    + destruct (to_decimal v) as [d|] eqn:Ev; [|discriminate].
      destruct (all_decimals a) as [r|] eqn:E; simpl in H; inversion H; subst.
      constructor; [exact Ev | apply IH; reflexivity].
  - intros H. induction H as [|v d a ds Hv _ IH]; simpl; [reflexivity|].
    rewrite Hv, IH. reflexivity.
Qed.

Lemma to_decimal_str : forall s, to_decimal (VStr s) = None.
Proof. reflexivity. Qed.

Lemma num_ok_not_str : forall s, ~ num_ok (VStr s).
Proof. intros s (d & H & _). discriminate. Qed.

Lemma Forall_num_ok_decimals : forall a, Forall num_ok a ->
  exists ds, all_decimals a = Some ds /\ Forall dec_ok ds.
Proof.
  intros a H. induction H as [|v a (d & Hd & Hok) _ (ds & E & Hds)].
  - exists []. split; [reflexivity | constructor].
  - exists (d :: ds). split; [simpl; rewrite Hd, E; reflexivity | constructor; assumption].
Qed.

Lemma Forall2_combine : forall (A B : Type) (R : A -> B -> Prop) a b,
  Forall2 R a b -> Forall (fun p => R (fst p) (snd p)) (combine a b).
Proof. intros A B R a b H. induction H; simpl; constructor; assumption. Qed.

Lemma Forall2_fst_combine : forall (A B : Type) (R : A -> B -> Prop) a b,
  Forall2 R a b -> map fst (combine a b) = a.
Proof. intros A B R a b H. induction H; simpl; [reflexivity|]. f_equal. assumption. Qed.

Lemma Forall2_snd_combine : forall (A B : Type) (R : A -> B -> Prop) a b,
  Forall2 R a b -> map snd (combine a b) = b.
Proof. intros A B R a b H. induction H; simpl; [reflexivity|]. f_equal. assumption. Qed.

Lemma Forall2_in_l : forall (A B : Type) (R : A -> B -> Prop) a b x,
  Forall2 R a b -> In x a -> exists y, In y b /\ In (x, y) (combine a b) /\ R x y.
Proof.
  intros A B R a b x H. induction H as [|u v a b Huv _ IH]; intros Hi; [contradiction|].
  destruct Hi as [<-|Hi].
  - exists v. simpl. auto.
  - destruct (IH Hi) as (y & H1 & H2 & H3). exists y. simpl. auto.
Qed.

Lemma StronglySorted_map_rel : forall (A B : Type) (f : A -> B) (R : A -> A -> Prop)
    (R' : B -> B -> Prop) (P : A -> Prop) (l : list A),
  (forall x y, P x -> P y -> R x y -> R' (f x) (f y)) ->
  Forall P l -> StronglySorted R l -> StronglySorted R' (map f l).
Proof.
  intros A B f R R' P l HR HP HS. induction HS as [|a l Hs IH Hf]; simpl.
  - constructor.
  - inversion HP as [|? ? Pa Pl]; subst. constructor; [apply IH; exact Pl|].
    rewrite Forall_forall in *. intros y Hy.
    apply in_map_iff in Hy. destruct Hy as [z [<- Hz]].
    apply HR; auto.
Qed.

Lemma filter_map_fst : forall (A B : Type) (p : A -> bool) (q : A * B -> bool) (l : list (A * B)),
  Forall (fun x => p (fst x) = q x) l ->
  filter p (map fst l) = map fst (filter q l).
Proof.
  intros A B p q l H. induction H as [|x l Hx _ IH]; simpl; [reflexivity|].
  rewrite Hx. destruct (q x); simpl; rewrite IH; reflexivity.
Qed.

(* ================================================================== *)
(* 2. sort: type errors                                                *)
(* ================================================================== *)

Theorem sort_empty : sort_array (VArr []) = Ok (VArr []).
Proof. reflexivity. Qed.

(* a non-empty array that is neither all strings nor all numbers *)
Theorem sort_type_error : forall a, a <> [] ->
  all_strings a = None -> all_decimals a = None -> sort_array (VArr a) = Err EInvalidType.
Proof.
  intros [|v a] Hne Hs Hd; [congruence|].
  destruct v; unfold sort_array; try rewrite Hs; try rewrite Hd; reflexivity.
Qed.

(* the first element decides which test is applied *)
Theorem sort_mixed_first_string : forall s r,
  all_strings (VStr s :: r) = None -> sort_array (VArr (VStr s :: r)) = Err EInvalidType.
Proof. intros s r H. unfold sort_array. rewrite H. reflexivity. Qed.

Theorem sort_mixed_first_not_string : forall v r, (forall s, v <> VStr s) ->
  all_decimals (v :: r) = None -> sort_array (VArr (v :: r)) = Err EInvalidType.
Proof.
  intros v r Hv H. destruct v; unfold sort_array; try rewrite H; try reflexivity.
  exfalso. eapply Hv. reflexivity.
Qed.

(* one element that is neither a string nor a number is enough, whatever the
   length and wherever it stands *)
Theorem sort_bad_element : forall a x, In x a ->
  (forall s, x <> VStr s) -> to_decimal x = None -> sort_array (VArr a) = Err EInvalidType.
Proof.
  intros a x Hi Hs Hd. apply sort_type_error.
  - intros ->. contradiction.
  - destruct (all_strings a) as [ss|] eqn:E; [|reflexivity].
    apply all_strings_some in E. subst a. apply in_map_iff in Hi.
    destruct Hi as (s & <- & _). exfalso. eapply Hs. reflexivity.
  - destruct (all_decimals a) as [ds|] eqn:E; [|reflexivity].
    apply all_decimals_iff in E.
    destruct (Forall2_in_l _ _ _ _ _ _ E Hi) as (d & _ & _ & Hx). congruence.
Qed.

(* a string and a number in the same array *)
Theorem sort_mixed : forall a s n, In (VStr s) a -> In (VNum n) a ->
  sort_array (VArr a) = Err EInvalidType.
Proof.
  intros a s n Hs Hn. apply sort_type_error.
  - intros ->. contradiction.
  - destruct (all_strings a) as [ss|] eqn:E; [|reflexivity].
    apply all_strings_some in E. subst a. apply in_map_iff in Hn.
    destruct Hn as (? & ? & _). discriminate.
  - destruct (all_decimals a) as [ds|] eqn:E; [|reflexivity].
    apply all_decimals_iff in E.
    destruct (Forall2_in_l _ _ _ _ _ _ E Hs) as (d & _ & _ & Hx). discriminate.
Qed.

Theorem sort_not_array : forall v, (forall l, v <> VArr l) -> sort_array v = Err EInvalidType.
Proof. intros v H. destruct v; try reflexivity. exfalso. eapply H. reflexivity. Qed.

(* ================================================================== *)
(* 3. sort on strings                                                  *)
(* ================================================================== *)

Theorem sort_strings_eq : forall ss, ss <> [] ->
  sort_array (VArr (map VStr ss)) = Ok (VArr (map VStr (stable_sort str_leb ss))).
Proof.
  intros [|s ss] H; [congruence|].
  change (map VStr (s :: ss)) with (VStr s :: map VStr ss).
  unfold sort_array. change (VStr s :: map VStr ss) with (map VStr (s :: ss)).
  rewrite all_strings_map. reflexivity.
Qed.

Theorem sort_strings : forall ss, ss <> [] ->
  exists r, sort_array (VArr (map VStr ss)) = Ok (VArr (map VStr r)) /\
            r = stable_sort str_leb ss /\
            Permutation r ss /\
            StronglySorted (fun x y => str_leb x y = true) r /\
            (* the order being antisymmetric, r is THE sorted permutation *)
            (forall r', Permutation r' ss ->
                        StronglySorted (fun x y => str_leb x y = true) r' -> r' = r).
Proof.
  intros ss H. exists (stable_sort str_leb ss).
  split; [apply sort_strings_eq; exact H|]. split; [reflexivity|].
  split; [apply stable_sort_perm|].
  split; [apply (stable_sort_sorted str_leb str_leb_total str_leb_trans)|].
  intros r' HP HS.
  apply (stable_sort_unique str_leb str_leb_total str_leb_trans); auto.
  (* stability is automatic for an antisymmetric order: the class of x is x repeated *)
  intros x.
  assert (E : forall l, filter (fun y => equiv str_leb x y) l = repeat x (count_occ (list_eq_dec Z.eq_dec) l x)).
  { induction l as [|y l IH]; simpl; [reflexivity|].
    unfold equiv at 1. rewrite str_equiv_beqb.
    destruct (list_eq_dec Z.eq_dec y x) as [->|Hn].
    - rewrite beqb_refl. simpl. f_equal. exact IH.
    - destruct (beqb x y) eqn:Eb; [apply beqb_eq in Eb; congruence | exact IH]. }
  rewrite !E. f_equal. apply Permutation_count_occ. exact HP.
Qed.

(* valid UTF-8 strings come out in code point order *)
Corollary sort_strings_code_points : forall css, css <> [] -> Forall scalars css ->
  exists r, sort_array (VArr (map VStr (map encode_all css))) = Ok (VArr (map VStr (map encode_all r))) /\
            Permutation r css /\
            StronglySorted (fun x y => zlist_cmp x y <> Gt) r.
Proof.
  intros css Hne Hsc.
  set (lec := fun a b : list Z => match zlist_cmp a b with Gt => false | _ => true end).
  assert (Hsort : forall acc x, Forall scalars acc -> scalars x ->
            insert_after str_leb (encode_all x) (map encode_all acc)
            = map encode_all (insert_after lec x acc)).
  { intros acc x. induction acc as [|y acc IH]; intros Ha Hx; simpl; [reflexivity|].
    inversion Ha as [|? ? Hy Hacc]; subst.
    rewrite str_leb_code_points by assumption. fold (lec y x).
    destruct (lec y x); simpl; [rewrite IH by assumption|]; reflexivity. }
  assert (Hins : forall x acc, Forall scalars acc -> scalars x -> Forall scalars (insert_after lec x acc)).
  { intros x acc Ha Hx. eapply Permutation_Forall; [apply Permutation_sym, insert_after_perm|].
    constructor; assumption. }
  assert (Hfold : forall l acc, Forall scalars l -> Forall scalars acc ->
            fold_left (fun acc x => insert_after str_leb x acc) (map encode_all l) (map encode_all acc)
            = map encode_all (fold_left (fun acc x => insert_after lec x acc) l acc)).
  { induction l as [|x l IH]; intros acc Hl Ha; simpl; [reflexivity|].
    inversion Hl as [|? ? Hx Hl']; subst.
    rewrite (Hsort acc x Ha Hx). apply IH; [exact Hl' | apply Hins; assumption]. }
  pose proof (Hfold css [] Hsc (Forall_nil _)) as HH.
  change (map encode_all []) with (@nil bytes) in HH.
  exists (stable_sort lec css). split; [|split].
  - rewrite sort_strings_eq by (destruct css; [congruence | discriminate]).
    unfold stable_sort. rewrite HH. reflexivity.
  - apply stable_sort_perm.
  - assert (HS : StronglySorted (fun x y => str_leb x y = true) (map encode_all (stable_sort lec css))).
    { unfold stable_sort. rewrite <- HH.
      apply (stable_sort_sorted str_leb str_leb_total str_leb_trans). }
    assert (HF : Forall scalars (stable_sort lec css)).
    { eapply Permutation_Forall; [apply Permutation_sym, stable_sort_perm | exact Hsc]. }
    revert HS HF. generalize (stable_sort lec css). intros r HS HF.
    induction r as [|x r IH]; [constructor|].
    simpl in HS. inversion HS as [|? ? HS' Hall]; subst. inversion HF as [|? ? Hx HF']; subst.
    constructor; [apply IH; assumption|].
    rewrite Forall_forall in *. intros y Hy.
    specialize (Hall (encode_all y) (in_map _ _ _ Hy)).
    rewrite str_leb_code_points in Hall by auto.
    destruct (zlist_cmp x y); congruence.
Qed.

(* ================================================================== *)
(* 4. sort on numbers                                                  *)
(* ================================================================== *)

(* the decorated order used by sort (numbers) and sort_by *)
Notation lekd := (fun x y : value * dec => dec_leb (snd x) (snd y)).
Notation leks := (fun x y : value * bytes => str_leb (snd x) (snd y)).

Lemma lekd_total : forall x y : value * dec, lekd x y = true \/ lekd y x = true.
Proof. intros x y. apply dec_leb_total_all. Qed.
Lemma lekd_trans : forall x y z : value * dec, lekd x y = true -> lekd y z = true -> lekd x z = true.
Proof. intros x y z. apply dec_leb_trans_all. Qed.
Lemma leks_total : forall x y : value * bytes, leks x y = true \/ leks y x = true.
Proof. intros x y. apply str_leb_total. Qed.
Lemma leks_trans : forall x y z : value * bytes, leks x y = true -> leks y z = true -> leks x z = true.
Proof. intros x y z. apply str_leb_trans. Qed.

(* numeric order on values *)
Definition num_le (x y : value) : Prop :=
  exists dx dy, to_decimal x = Some dx /\ to_decimal y = Some dy /\ dec_leb dx dy = true.
(* numeric equivalence class of the decimal d *)
Definition num_eqv (d : dec) (v : value) : bool :=
  match to_decimal v with Some d' => dec_leb d d' && dec_leb d' d | None => false end.

Lemma sort_array_decimals : forall a ds, a <> [] -> all_decimals a = Some ds ->
  sort_array (VArr a) = Ok (VArr (map fst (stable_sort lekd (combine a ds)))).
Proof.
  intros [|v a] ds Hne H; [congruence|].
  destruct v; try (unfold sort_array; rewrite H; reflexivity).
  simpl in H. discriminate.
Qed.

(* General form: every array of numbers (NaN included: decimal128.Compare
   puts NaN first) is sorted by the stable sort on the decimal keys. *)
Theorem sort_decimals : forall a ds, a <> [] -> all_decimals a = Some ds ->
  let r := stable_sort lekd (combine a ds) in
  sort_array (VArr a) = Ok (VArr (map fst r)) /\
  Permutation (map fst r) a /\
  Permutation (map snd r) ds /\
  Forall (fun p => to_decimal (fst p) = Some (snd p)) r /\
  StronglySorted num_le (map fst r) /\
  StronglySorted (fun x y => dec_leb x y = true) (map snd r) /\
  (* stability: numerically equal elements keep their relative order *)
  (forall k, filter (fun p => equiv lekd k p) r = filter (fun p => equiv lekd k p) (combine a ds)) /\
  (forall d, filter (num_eqv d) (map fst r) = filter (num_eqv d) a) /\
  (* and these properties determine the result *)
  (forall r', Permutation r' (combine a ds) -> StronglySorted (leP lekd) r' ->
     (forall k, filter (fun p => equiv lekd k p) r' = filter (fun p => equiv lekd k p) (combine a ds)) ->
     r' = r).
Proof.
  intros a ds Hne H r.
  pose proof (proj1 (all_decimals_iff a ds) H) as HF2.
  assert (Hinv0 : Forall (fun p => to_decimal (fst p) = Some (snd p)) (combine a ds))
    by exact (Forall2_combine _ _ (fun v d => to_decimal v = Some d) _ _ HF2).
  assert (Hinv : Forall (fun p => to_decimal (fst p) = Some (snd p)) r).
  { eapply Permutation_Forall; [apply Permutation_sym, stable_sort_perm | exact Hinv0]. }
  assert (Hstab : forall k, filter (fun p => equiv lekd k p) r = filter (fun p => equiv lekd k p) (combine a ds)).
  { intros k. apply (stable_sort_stable lekd lekd_total lekd_trans). }
  assert (Hcls : forall d (l : list (value * dec)),
             Forall (fun p => to_decimal (fst p) = Some (snd p)) l ->
             filter (num_eqv d) (map fst l) = map fst (filter (fun p => equiv lekd (VNull, d) p) l)).
  { intros d l Hl. apply filter_map_fst. eapply Forall_impl; [|exact Hl].
    intros p Hp. unfold num_eqv, equiv. rewrite Hp. reflexivity. }
  split; [apply sort_array_decimals; assumption|].
  split.
  { eapply Permutation_trans; [apply stable_sort_fst_perm|].
    rewrite (Forall2_fst_combine _ _ _ _ _ HF2). apply Permutation_refl. }
  split.
  { eapply Permutation_trans; [apply stable_sort_snd_perm|].
    rewrite (Forall2_snd_combine _ _ _ _ _ HF2). apply Permutation_refl. }
  split; [exact Hinv|].
  split.
  { eapply StronglySorted_map_rel with (P := fun p => to_decimal (fst p) = Some (snd p));
      [| exact Hinv | apply (stable_sort_sorted lekd lekd_total lekd_trans)].
    intros x y Hx Hy Hxy. exists (snd x), (snd y). auto. }
  split. { apply (stable_sort_keys_sorted value dec dec_leb dec_leb_total_all dec_leb_trans_all). }
  split; [exact Hstab|].
  split.
  { intros d. rewrite (Hcls d r Hinv), Hstab, <- (Hcls d _ Hinv0).
    rewrite (Forall2_fst_combine _ _ _ _ _ HF2). reflexivity. }
  intros r' HP HS HF. apply (stable_sort_unique lekd lekd_total lekd_trans); assumption.
Qed.

(* 1. sort on (comparable) numbers, as sketched *)
Theorem sort_numbers : forall a, a <> [] -> Forall num_ok a ->
  exists r, sort_array (VArr a) = Ok (VArr r) /\
            Permutation r a /\
            Forall num_ok r /\
            StronglySorted num_le r /\
            (forall d, filter (num_eqv d) r = filter (num_eqv d) a).
Proof.
  intros a Hne Hok.
  destruct (Forall_num_ok_decimals a Hok) as (ds & Hds & _).
  destruct (sort_decimals a ds Hne Hds) as (H1 & H2 & _ & _ & H5 & _ & _ & H8 & _).
  eexists. split; [exact H1|]. split; [exact H2|].
  split; [eapply Permutation_Forall; [apply Permutation_sym; exact H2 | exact Hok]|].
  split; assumption.
Qed.

(* Remark (model vs library).  Permutation + StronglySorted are the
   implementation independent part.  The stability clause holds for the model
   (stable insertion sort); the Go code sorts numbers with slices.SortFunc
   (pdqsort, not stable above 12 elements), so numerically equal numbers with
   different spellings (0.0, 0.0000, ...) may come out in another order there.
   For strings the question does not arise (the order is antisymmetric), and
   sort_by uses sort.Stable. *)

Example sort_bool_error : sort_array (VArr [VBool true]) = Err EInvalidType.
Proof. reflexivity. Qed.
Example sort_null_error : sort_array (VArr [VNull]) = Err EInvalidType.
Proof. reflexivity. Qed.

(* NaN is not an error for sort: it is ordered before every number *)
Example sort_nan_first :
  sort_array (VArr [vdec (DFin false 1 0); vdec DNaN; vdec (DInf true)])
  = Ok (VArr [vdec DNaN; vdec (DInf true); vdec (DFin false 1 0)]).
Proof. reflexivity. Qed.

(* ================================================================== *)
(* 5. extrema: the linear scan returns the FIRST best element          *)
(* ================================================================== *)

Section Scan.
  Context {V K : Type} (le : K -> K -> bool) (P : K -> Prop).
  Hypothesis le_total : forall x y, P x -> P y -> le x y = true \/ le y x = true.
  Hypothesis le_trans : forall x y z, P x -> P y -> P z ->
    le x y = true -> le y z = true -> le x z = true.
  Variable better : K -> K -> bool.
  Hypothesis better_spec : forall k b, P k -> P b -> better k b = negb (le k b).

  (* the scan of extreme_str / extreme_dec / best_by, keeping element and key *)
  Fixpoint scan (bv : V) (bk : K) (l : list (V * K)) : V * K :=
    match l with
    | [] => (bv, bk)
    | (v, k) :: r => if better k bk then scan v k r else scan bv bk r
    end.

  Definition below (m : K) (p : V * K) : Prop := le (snd p) m = true.
  Definition sbelow (m : K) (p : V * K) : Prop := le (snd p) m = true /\ le m (snd p) = false.
  Local Notation PK := (fun p : V * K => P (snd p)).

  Lemma scan_le_refl : forall x, P x -> le x x = true.
  Proof. intros x Hx. destruct (le_total x x Hx Hx); assumption. Qed.

  Lemma scan_spec_gen : forall l pre mid bv bk,
    P bk -> Forall PK l -> Forall PK pre -> Forall PK mid ->
    Forall (sbelow bk) pre -> Forall (below bk) mid ->
    exists l1 l2,
      pre ++ (bv, bk) :: mid ++ l = l1 ++ scan bv bk l :: l2 /\
      P (snd (scan bv bk l)) /\
      Forall (sbelow (snd (scan bv bk l))) l1 /\
      Forall (below (snd (scan bv bk l))) l2.
  Proof.
    induction l as [|[v k] r IH]; intros pre mid bv bk Pb Pl Ppre Pmid Hpre Hmid.
    - exists pre, mid. rewrite app_nil_r. simpl. auto.
    - inversion Pl as [|? ? Pk Pr]; subst. simpl in Pk. cbn [scan].
      rewrite (better_spec k bk Pk Pb).
      destruct (le k bk) eqn:E; cbn [negb].
      + (* not better: the best stays, (v,k) joins the elements below it *)
        destruct (IH pre (mid ++ [(v, k)]) bv bk Pb Pr Ppre) as (l1 & l2 & E1 & H1 & H2 & H3).
        * apply Forall_app; split; [exact Pmid | constructor; [exact Pk | constructor]].
        * exact Hpre.
        * apply Forall_app; split; [exact Hmid | constructor; [exact E | constructor]].
        * exists l1, l2. rewrite <- app_assoc in E1. simpl in E1. auto.
      + (* strictly better: everything seen so far is strictly below k *)
        assert (Hbk : le bk k = true).
        { destruct (le_total bk k Pb Pk) as [H|H]; [exact H | congruence]. }
        assert (Hstrict : forall x, P x -> le x bk = true -> le x k = true /\ le k x = false).
        { intros x Px Hx. split; [eapply (le_trans x bk k); eassumption|].
          destruct (le k x) eqn:Ekx; [|reflexivity].
          rewrite (le_trans k x bk Pk Px Pb Ekx Hx) in E. discriminate. }
        destruct (IH (pre ++ (bv, bk) :: mid) [] v k Pk Pr) as (l1 & l2 & E1 & H1 & H2 & H3).
        * apply Forall_app; split; [exact Ppre | constructor; [exact Pb | exact Pmid]].
        * constructor.
        * apply Forall_app; split; [|constructor].
          -- rewrite Forall_forall in *. intros p Hp. destruct (Hpre p Hp) as [Hp1 _].
             apply Hstrict; [apply Ppre; exact Hp | exact Hp1].
          -- apply Hstrict; [exact Pb | apply scan_le_refl; exact Pb].
          -- rewrite Forall_forall in *. intros p Hp.
             apply Hstrict; [apply Pmid; exact Hp | apply Hmid; exact Hp].
        * constructor.
        * exists l1, l2. rewrite <- app_assoc in E1. simpl in E1. auto.
  Qed.

  (* the result is the first element whose key is maximal for le *)
  Theorem scan_first_best : forall bv bk l, P bk -> Forall PK l ->
    exists l1 l2,
      (bv, bk) :: l = l1 ++ scan bv bk l :: l2 /\
      Forall (sbelow (snd (scan bv bk l))) l1 /\
      Forall (below (snd (scan bv bk l))) l2.
  Proof.
    intros bv bk l Pb Pl.
    destruct (scan_spec_gen l [] [] bv bk Pb Pl) as (l1 & l2 & E & _ & H1 & H2);
      try constructor.
    exists l1, l2. simpl in E. auto.
  Qed.

  Corollary scan_in : forall bv bk l, In (scan bv bk l) ((bv, bk) :: l).
  Proof.
    intros bv bk l. revert bv bk. induction l as [|[v k] r IH]; intros bv bk; cbn [scan].
    - left; reflexivity.
    - destruct (better k bk).
      + right. apply IH.
      + destruct (IH bv bk) as [H|H]; [left; exact H | right; right; exact H].
  Qed.

  Corollary scan_upper_bound : forall bv bk l, P bk -> Forall PK l ->
    forall p, In p ((bv, bk) :: l) -> le (snd p) (snd (scan bv bk l)) = true.
  Proof.
    intros bv bk l Pb Pl p Hp.
    destruct (scan_first_best bv bk l Pb Pl) as (l1 & l2 & E & H1 & H2).
    assert (Pm : P (snd (scan bv bk l))).
    { pose proof (scan_in bv bk l) as Hi. destruct Hi as [<-|Hi]; [exact Pb|].
      rewrite Forall_forall in Pl. apply (Pl _ Hi). }
    rewrite E in Hp. apply in_app_or in Hp. destruct Hp as [Hp|[<-|Hp]].
    - rewrite Forall_forall in H1. apply H1; exact Hp.
    - apply scan_le_refl; exact Pm.
    - rewrite Forall_forall in H2. apply H2; exact Hp.
  Qed.
End Scan.

(* ---- the three model scans are instances of scan ---- *)

Lemma best_by_scan : forall (K : Type) (better : K -> K -> bool) l bv bk,
  best_by better bv bk l = fst (scan better bv bk l).
Proof.
  intros K better. induction l as [|[v k] r IH]; intros bv bk; cbn [best_by scan]; [reflexivity|].
  destruct (better k bk); apply IH.
Qed.

Lemma extreme_dec_scan : forall gt l ds bv best, all_decimals l = Some ds ->
  extreme_dec gt best l
  = Ok (snd (scan (if gt then dec_greater else dec_less) bv best (combine l ds))).
Proof.
  intros gt. induction l as [|v l IH]; intros ds bv best H; simpl in H.
  - inversion H; subst. reflexivity.
  - destruct (to_decimal v) as [d|] eqn:Ev; [|discriminate].
    destruct (all_decimals l) as [ds'|] eqn:E; simpl in H; inversion H; subst.
    cbn [extreme_dec combine scan]. rewrite Ev.
    destruct gt.
    + destruct (dec_greater d best); apply IH; reflexivity.
    + destruct (dec_less d best); apply IH; reflexivity.
Qed.

Lemma extreme_str_scan : forall gt ss best,
  extreme_str gt best (map VStr ss)
  = Ok (snd (scan (if gt then bgtb else bltb) tt best (map (pair tt) ss))).
Proof.
  intros gt. induction ss as [|s ss IH]; intros best; [reflexivity|].
  cbn [map extreme_str scan].
  destruct gt.
  + destruct (bgtb s best); apply IH.
  + destruct (bltb s best); apply IH.
Qed.

(* the four orders: max uses le, min uses the converse *)
Definition dec_geb (x y : dec) : bool := dec_leb y x.
Definition str_geb (x y : bytes) : bool := str_leb y x.

Lemma dec_greater_spec : forall k b, dec_ok k -> dec_ok b -> dec_greater k b = negb (dec_leb k b).
Proof. intros k b Hk Hb. rewrite dec_greater_flip. apply dec_less_not_leb; assumption. Qed.
Lemma dec_less_spec : forall k b, dec_ok k -> dec_ok b -> dec_less k b = negb (dec_geb k b).
Proof. intros k b Hk Hb. unfold dec_geb. apply dec_less_not_leb; assumption. Qed.
Lemma dec_geb_total : forall x y, dec_ok x -> dec_ok y -> dec_geb x y = true \/ dec_geb y x = true.
Proof. intros x y Hx Hy. unfold dec_geb. apply dec_leb_total; assumption. Qed.
Lemma dec_geb_trans : forall x y z, dec_ok x -> dec_ok y -> dec_ok z ->
  dec_geb x y = true -> dec_geb y z = true -> dec_geb x z = true.
Proof. intros x y z Hx Hy Hz H1 H2. unfold dec_geb in *. eapply (dec_leb_trans z y x); assumption. Qed.

Lemma extreme_empty : array_max (VArr []) = Ok VNull /\ array_min (VArr []) = Ok VNull.
Proof. split; reflexivity. Qed.

Theorem extreme_not_array : forall gt v, (forall l, v <> VArr l) -> array_extreme gt v = Err EInvalidType.
Proof. intros gt v H. destruct v; try reflexivity. exfalso. eapply H. reflexivity. Qed.

Lemma array_extreme_decimals : forall gt x r d ds, all_decimals (x :: r) = Some (d :: ds) ->
  array_extreme gt (VArr (x :: r))
  = Ok (vdec (snd (scan (if gt then dec_greater else dec_less) x d (combine r ds)))).
Proof.
  intros gt x r d ds H. simpl in H.
  destruct (to_decimal x) as [d'|] eqn:Ex; [|discriminate].
  destruct (all_decimals r) as [ds'|] eqn:E; simpl in H; inversion H; subst.
  destruct x; try discriminate; unfold array_extreme; rewrite Ex;
    rewrite (extreme_dec_scan gt r ds (VNum n) d E); reflexivity.
Qed.

(* strictly smaller / greater, in terms of the library's comparisons *)
Lemma sbelow_dec_less : forall (m : dec) (p : value * dec), dec_ok m -> dec_ok (snd p) ->
  sbelow dec_leb m p -> dec_less (snd p) m = true.
Proof.
  intros m p Hm Hp [_ H2]. rewrite dec_less_not_leb by assumption. rewrite H2. reflexivity.
Qed.
Lemma sbelow_dec_greater : forall (m : dec) (p : value * dec), dec_ok m -> dec_ok (snd p) ->
  sbelow dec_geb m p -> dec_greater (snd p) m = true.
Proof.
  intros m p Hm Hp [_ H2]. unfold dec_geb in H2.
  rewrite dec_greater_flip, dec_less_not_leb by assumption. rewrite H2. reflexivity.
Qed.

(* max on comparable numbers: the result is the decimal value d of the FIRST
   element x whose value is maximal; it is returned as a decimal (vdec d), not
   as the original element x *)
Theorem max_numbers_first : forall a, a <> [] -> Forall num_ok a ->
  exists x d ds l1 l2,
    all_decimals a = Some ds /\
    array_max (VArr a) = Ok (VNum (NDec d)) /\
    combine a ds = l1 ++ (x, d) :: l2 /\
    Forall (fun p => dec_less (snd p) d = true) l1 /\
    Forall (fun p => dec_leb (snd p) d = true) l2.
Proof.
  intros a Hne Hok. destruct (Forall_num_ok_decimals a Hok) as (ds & Hds & Hdok).
  destruct a as [|x r]; [congruence|].
  destruct ds as [|d ds]; [apply all_decimals_iff in Hds; inversion Hds|].
  inversion Hdok as [|? ? Pd Pds]; subst.
  assert (PK : Forall (fun p : value * dec => dec_ok (snd p)) (combine r ds)).
  { rewrite Forall_forall in *. intros p Hp. apply Pds. destruct p. eapply in_combine_r; exact Hp. }
  destruct (scan_first_best dec_leb dec_ok dec_leb_total dec_leb_trans dec_greater dec_greater_spec
              x d (combine r ds) Pd PK) as (l1 & l2 & E & H1 & H2).
  pose proof (scan_in dec_greater x d (combine r ds)) as Hin.
  destruct (scan dec_greater x d (combine r ds)) as [xm dm] eqn:Es.
  exists xm, dm, (d :: ds), l1, l2.
  split; [exact Hds|]. split.
  { unfold array_max. rewrite (array_extreme_decimals true x r d ds Hds). rewrite Es. reflexivity. }
  split; [exact E|]. split; [|exact H2].
  assert (Pm : dec_ok dm).
  { destruct Hin as [Hi|Hi]; [inversion Hi; subst; exact Pd|].
    rewrite Forall_forall in PK. apply (PK _ Hi). }
  rewrite Forall_forall in *. intros p Hp. simpl snd in *.
  apply sbelow_dec_less; [exact Pm | | apply H1; exact Hp].
  assert (Hi : In p ((x, d) :: combine r ds)) by (rewrite E; apply in_or_app; left; exact Hp).
  destruct Hi as [<-|Hi]; [exact Pd | apply PK; exact Hi].
Qed.

Theorem min_numbers_first : forall a, a <> [] -> Forall num_ok a ->
  exists x d ds l1 l2,
    all_decimals a = Some ds /\
    array_min (VArr a) = Ok (VNum (NDec d)) /\
    combine a ds = l1 ++ (x, d) :: l2 /\
    Forall (fun p => dec_greater (snd p) d = true) l1 /\
    Forall (fun p => dec_leb d (snd p) = true) l2.
Proof.
  intros a Hne Hok. destruct (Forall_num_ok_decimals a Hok) as (ds & Hds & Hdok).
  destruct a as [|x r]; [congruence|].
  destruct ds as [|d ds]; [apply all_decimals_iff in Hds; inversion Hds|].
  inversion Hdok as [|? ? Pd Pds]; subst.
  assert (PK : Forall (fun p : value * dec => dec_ok (snd p)) (combine r ds)).
  { rewrite Forall_forall in *. intros p Hp. apply Pds. destruct p. eapply in_combine_r; exact Hp. }
  destruct (scan_first_best dec_geb dec_ok dec_geb_total dec_geb_trans dec_less dec_less_spec
              x d (combine r ds) Pd PK) as (l1 & l2 & E & H1 & H2).
  pose proof (scan_in dec_less x d (combine r ds)) as Hin.
  destruct (scan dec_less x d (combine r ds)) as [xm dm] eqn:Es.
  exists xm, dm, (d :: ds), l1, l2.
  split; [exact Hds|]. split.
  { unfold array_min. rewrite (array_extreme_decimals false x r d ds Hds). rewrite Es. reflexivity. }
  split; [exact E|]. split; [|exact H2].
  assert (Pm : dec_ok dm).
  { destruct Hin as [Hi|Hi]; [inversion Hi; subst; exact Pd|].
    rewrite Forall_forall in PK. apply (PK _ Hi). }
  rewrite Forall_forall in *. intros p Hp. simpl snd in *.
  apply sbelow_dec_greater; [exact Pm | | apply H1; exact Hp].
  assert (Hi : In p ((x, d) :: combine r ds)) by (rewrite E; apply in_or_app; left; exact Hp).
  destruct Hi as [<-|Hi]; [exact Pd | apply PK; exact Hi].
Qed.

(* the sketched forms *)
Theorem max_numbers : forall a, a <> [] -> Forall num_ok a ->
  exists x d, array_max (VArr a) = Ok (VNum (NDec d)) /\
    In x a /\ to_decimal x = Some d /\ dec_ok d /\
    forall y dy, In y a -> to_decimal y = Some dy -> dec_leb dy d = true.
Proof.
  intros a Hne Hok.
  destruct (max_numbers_first a Hne Hok) as (x & d & ds & l1 & l2 & Hds & Hmax & E & H1 & H2).
  apply all_decimals_iff in Hds.
  pose proof (Forall2_combine _ _ (fun v d => to_decimal v = Some d) _ _ Hds) as Hinv.
  assert (Hx : In (x, d) (combine a ds)) by (rewrite E; apply in_or_app; right; left; reflexivity).
  assert (Hxd : to_decimal x = Some d) by (rewrite Forall_forall in Hinv; apply (Hinv _ Hx)).
  assert (Hxa : In x a) by (eapply in_combine_l; exact Hx).
  assert (Hdok : dec_ok d).
  { rewrite Forall_forall in Hok. destruct (Hok x Hxa) as (d' & E' & Hd'). congruence. }
  exists x, d. repeat split; auto.
  intros y dy Hy Hdy.
  destruct (Forall2_in_l _ _ _ _ _ _ Hds Hy) as (dy' & _ & Hp & Hy').
  assert (dy' = dy) by congruence. subst dy'.
  rewrite E in Hp. apply in_app_or in Hp. destruct Hp as [Hp|[Hp|Hp]].
  - rewrite Forall_forall in H1. specialize (H1 _ Hp). simpl in H1.
    assert (Hyok : dec_ok dy).
    { rewrite Forall_forall in Hok. destruct (Hok y Hy) as (d' & E' & Hd'). congruence. }
    apply (dec_less_iff dy d Hyok Hdok). exact H1.
  - inversion Hp; subst. apply dec_leb_refl; exact Hdok.
  - rewrite Forall_forall in H2. apply (H2 _ Hp).
Qed.

Theorem min_numbers : forall a, a <> [] -> Forall num_ok a ->
  exists x d, array_min (VArr a) = Ok (VNum (NDec d)) /\
    In x a /\ to_decimal x = Some d /\ dec_ok d /\
    forall y dy, In y a -> to_decimal y = Some dy -> dec_leb d dy = true.
Proof.
  intros a Hne Hok.
  destruct (min_numbers_first a Hne Hok) as (x & d & ds & l1 & l2 & Hds & Hmin & E & H1 & H2).
  apply all_decimals_iff in Hds.
  pose proof (Forall2_combine _ _ (fun v d => to_decimal v = Some d) _ _ Hds) as Hinv.
  assert (Hx : In (x, d) (combine a ds)) by (rewrite E; apply in_or_app; right; left; reflexivity).
  assert (Hxd : to_decimal x = Some d) by (rewrite Forall_forall in Hinv; apply (Hinv _ Hx)).
  assert (Hxa : In x a) by (eapply in_combine_l; exact Hx).
  assert (Hdok : dec_ok d).
  { rewrite Forall_forall in Hok. destruct (Hok x Hxa) as (d' & E' & Hd'). congruence. }
  exists x, d. repeat split; auto.
  intros y dy Hy Hdy.
  destruct (Forall2_in_l _ _ _ _ _ _ Hds Hy) as (dy' & _ & Hp & Hy').
  assert (dy' = dy) by congruence. subst dy'.
  rewrite E in Hp. apply in_app_or in Hp. destruct Hp as [Hp|[Hp|Hp]].
  - rewrite Forall_forall in H1. specialize (H1 _ Hp). simpl in H1.
    assert (Hyok : dec_ok dy).
    { rewrite Forall_forall in Hok. destruct (Hok y Hy) as (d' & E' & Hd'). congruence. }
    rewrite dec_greater_flip in H1.
    apply (dec_less_iff d dy Hdok Hyok). exact H1.
  - inversion Hp; subst. apply dec_leb_refl; exact Hdok.
  - rewrite Forall_forall in H2. apply (H2 _ Hp).
Qed.

(* ---- strings ---- *)

Lemma array_extreme_strings : forall gt s ss,
  array_extreme gt (VArr (map VStr (s :: ss)))
  = Ok (VStr (snd (scan (if gt then bgtb else bltb) tt s (map (pair tt) ss)))).
Proof.
  intros gt s ss. cbn [map]. unfold array_extreme. rewrite extreme_str_scan. reflexivity.
Qed.

Theorem max_strings : forall ss, ss <> [] ->
  exists m, array_max (VArr (map VStr ss)) = Ok (VStr m) /\ In m ss /\
            forall y, In y ss -> str_leb y m = true.
Proof.
  intros [|s ss] Hne; [congruence|].
  set (sc := scan bgtb tt s (map (pair tt) ss)).
  exists (snd sc). split; [apply (array_extreme_strings true)|].
  assert (HP : Forall (fun p : unit * bytes => True) (map (pair tt) ss))
    by (apply Forall_forall; auto).
  split.
  - pose proof (scan_in bgtb tt s (map (pair tt) ss)) as Hi. fold sc in Hi.
    destruct Hi as [Hi|Hi]; [left; rewrite <- Hi; reflexivity|].
    right. apply in_map_iff in Hi. destruct Hi as (z & <- & Hz). exact Hz.
  - intros y Hy.
    apply (scan_upper_bound str_leb (fun _ => True)
             (fun x y _ _ => str_leb_total x y)
             (fun x y z _ _ _ => str_leb_trans x y z)
             bgtb (fun k b _ _ => bgtb_str_leb k b) tt s (map (pair tt) ss) I HP (tt, y)).
    destruct Hy as [<-|Hy]; [left; reflexivity | right; apply in_map; exact Hy].
Qed.

Theorem min_strings : forall ss, ss <> [] ->
  exists m, array_min (VArr (map VStr ss)) = Ok (VStr m) /\ In m ss /\
            forall y, In y ss -> str_leb m y = true.
Proof.
  intros [|s ss] Hne; [congruence|].
  set (sc := scan bltb tt s (map (pair tt) ss)).
  exists (snd sc). split; [apply (array_extreme_strings false)|].
  assert (HP : Forall (fun p : unit * bytes => True) (map (pair tt) ss))
    by (apply Forall_forall; auto).
  split.
  - pose proof (scan_in bltb tt s (map (pair tt) ss)) as Hi. fold sc in Hi.
    destruct Hi as [Hi|Hi]; [left; rewrite <- Hi; reflexivity|].
    right. apply in_map_iff in Hi. destruct Hi as (z & <- & Hz). exact Hz.
  - intros y Hy. change (str_geb y (snd sc) = true).
    apply (scan_upper_bound str_geb (fun _ => True)
             (fun x y _ _ => str_leb_total y x)
             (fun x y z _ _ _ H1 H2 => str_leb_trans z y x H2 H1)
             bltb (fun k b _ _ => bltb_str_leb k b) tt s (map (pair tt) ss) I HP (tt, y)).
    destruct Hy as [<-|Hy]; [left; reflexivity | right; apply in_map; exact Hy].
Qed.

(* the string order is antisymmetric, so the extremum is unique: ties are equal strings *)
Corollary max_strings_unique : forall ss m m',
  In m ss -> (forall y, In y ss -> str_leb y m = true) ->
  In m' ss -> (forall y, In y ss -> str_leb y m' = true) -> m = m'.
Proof. intros ss m m' H1 H2 H3 H4. apply str_leb_antisym; auto. Qed.

(* ---- type errors of max / min ---- *)

Theorem extreme_first_string_error : forall gt s r, all_strings r = None ->
  array_extreme gt (VArr (VStr s :: r)) = Err EInvalidType.
Proof.
  intros gt s r H. unfold array_extreme.
  assert (E : forall best, extreme_str gt best r = Err EInvalidType).
  { induction r as [|v r IH]; intros best; [discriminate|].
    destruct v; try reflexivity. cbn [extreme_str]. apply IH.
    simpl in H. destruct (all_strings r); [discriminate | reflexivity]. }
  rewrite E. reflexivity.
Qed.

Theorem extreme_first_number_error : forall gt x r, (forall s, x <> VStr s) ->
  all_decimals (x :: r) = None -> array_extreme gt (VArr (x :: r)) = Err EInvalidType.
Proof.
  intros gt x r Hx H. simpl in H.
  assert (E : forall best, all_decimals r = None -> extreme_dec gt best r = Err EInvalidType).
  { clear. induction r as [|v r IH]; intros best H; [discriminate|].
    simpl in H. cbn [extreme_dec]. destruct (to_decimal v); [|reflexivity].
    apply IH. destruct (all_decimals r); [discriminate | reflexivity]. }
  destruct x; unfold array_extreme; try reflexivity;
    try (exfalso; eapply Hx; reflexivity).
  destruct (to_decimal (VNum n)) as [d|]; [|reflexivity].
  rewrite E; [reflexivity|]. destruct (all_decimals r); [discriminate | reflexivity].
Qed.

(* NaN: the scan uses the IEEE-style comparisons (everything is false on NaN),
   not decimal128.Compare, so a NaN in first position is never replaced and a
   later NaN is never selected: max and min depend on the position of NaN *)
Example max_nan_first : array_max (VArr [vdec DNaN; vdec (DFin false 1 0)]) = Ok (vdec DNaN).
Proof. reflexivity. Qed.
Example max_nan_later : array_max (VArr [vdec (DFin false 1 0); vdec DNaN]) = Ok (vdec (DFin false 1 0)).
Proof. reflexivity. Qed.
Example min_nan_first : array_min (VArr [vdec DNaN; vdec (DFin false 1 0)]) = Ok (vdec DNaN).
Proof. reflexivity. Qed.
(* ties: the first of two numerically equal maxima is returned (1.0 before 1.00) *)
Example max_tie_first :
  array_max (VArr [vdec (DFin false 10 (-1)); vdec (DFin false 100 (-2))]) = Ok (vdec (DFin false 10 (-1))).
Proof. reflexivity. Qed.

(* ================================================================== *)
(* 6. sort_by, max_by, min_by                                          *)
(* ================================================================== *)

Lemma dec_less_leb : forall x y, dec_less x y = true -> dec_leb x y = true.
Proof. intros x y. unfold dec_less, dec_leb, dec_compare. destruct (dec_cmp x y); auto; discriminate. Qed.
Lemma dec_greater_leb : forall x y, dec_greater x y = true -> dec_leb y x = true.
Proof. intros x y. rewrite dec_greater_flip. apply dec_less_leb. Qed.
Lemma bltb_leb : forall x y, bltb x y = true -> str_leb x y = true.
Proof. intros x y. unfold bltb, str_leb. destruct (bcmp x y); auto. Qed.
Lemma bgtb_leb : forall x y, bgtb x y = true -> str_leb y x = true.
Proof. intros x y. unfold bgtb, str_leb. rewrite (bcmp_antisym x y). destruct (bcmp x y); auto; discriminate. Qed.

(* from "x is the first best element" to the membership / bound form *)
Lemma split_bound : forall (K : Type) (R : value -> K -> Prop) (le : K -> K -> bool)
    a ks x k l1 l2,
  Forall2 R a ks -> (forall v k1 k2, R v k1 -> R v k2 -> k1 = k2) -> le k k = true ->
  combine a ks = l1 ++ (x, k) :: l2 ->
  Forall (fun p => le (snd p) k = true) l1 -> Forall (fun p => le (snd p) k = true) l2 ->
  In x a /\ R x k /\ forall y ky, In y a -> R y ky -> le ky k = true.
Proof.
  intros K R le a ks x k l1 l2 HF Hfun Hrefl E H1 H2.
  pose proof (Forall2_combine _ _ R _ _ HF) as Hinv.
  assert (Hx : In (x, k) (combine a ks)) by (rewrite E; apply in_or_app; right; left; reflexivity).
  split; [eapply in_combine_l; exact Hx|].
  split; [rewrite Forall_forall in Hinv; apply (Hinv _ Hx)|].
  intros y ky Hy Hky.
  destruct (Forall2_in_l _ _ _ _ _ _ HF Hy) as (ky' & _ & Hp & Hy').
  rewrite (Hfun y ky ky' Hky Hy').
  rewrite E in Hp. apply in_app_or in Hp. destruct Hp as [Hp|[Hp|Hp]].
  - rewrite Forall_forall in H1. apply (H1 _ Hp).
  - inversion Hp; subst. exact Hrefl.
  - rewrite Forall_forall in H2. apply (H2 _ Hp).
Qed.

Section By.
  Variable ev : value -> outcome value.

  (* v has the string key k / the numeric key d *)
  Definition str_key (v : value) (k : bytes) : Prop := ev v = Ok (VStr k).
  Definition num_key (v : value) (d : dec) : Prop :=
    exists k, ev v = Ok k /\ to_decimal k = Some d.

  Lemma str_key_fun : forall v k1 k2, str_key v k1 -> str_key v k2 -> k1 = k2.
  Proof. unfold str_key. intros v k1 k2 H1 H2. congruence. Qed.
  Lemma num_key_fun : forall v k1 k2, num_key v k1 -> num_key v k2 -> k1 = k2.
  Proof. intros v k1 k2 (a & Ha & Ha') (b & Hb & Hb'). congruence. Qed.

  Lemma str_keys_ok : forall l ks, Forall2 str_key l ks -> str_keys ev l = Ok ks.
  Proof.
    intros l ks H. induction H as [|v k l ks Hv _ IH]; [reflexivity|].
    cbn [str_keys]. rewrite Hv. cbn [bind]. rewrite IH. reflexivity.
  Qed.

  Lemma num_keys_ok : forall l ds, Forall2 num_key l ds -> num_keys ev l = Ok ds.
  Proof.
    intros l ds H. induction H as [|v d l ds (k & Hk & Hd) _ IH]; [reflexivity|].
    cbn [num_keys]. rewrite Hk. cbn [bind]. rewrite Hd, IH. reflexivity.
  Qed.

  Lemma keys_for_str : forall a0 rest ks, Forall2 str_key (a0 :: rest) ks ->
    keys_for ev a0 rest = Ok (KStr ks).
  Proof.
    intros a0 rest ks H. inversion H as [|? k ? ks' Hk Hr]; subst.
    unfold keys_for. rewrite Hk. cbn [bind]. rewrite (str_keys_ok _ _ Hr). reflexivity.
  Qed.

  (* a numeric key is never a string: the first key selects the numeric branch *)
  Lemma keys_for_num : forall a0 rest ds, Forall2 num_key (a0 :: rest) ds ->
    keys_for ev a0 rest = Ok (KNum ds).
  Proof.
    intros a0 rest ds H. inversion H as [|? d ? ds' (k & Hk & Hd) Hr]; subst.
    unfold keys_for. rewrite Hk. cbn [bind].
    destruct k; try discriminate. rewrite Hd, (num_keys_ok _ _ Hr). reflexivity.
  Qed.

  (* ---- failures of the key computation (shared by sort_by, max_by, min_by) ---- *)

  Lemma str_keys_bad : forall pre ks x post k,
    Forall2 str_key pre ks -> ev x = Ok k -> (forall s, k <> VStr s) ->
    str_keys ev (pre ++ x :: post) = Err EInvalidType.
  Proof.
    intros pre ks x post k H Hx Hk. induction H as [|v kv l ks' Hv _ IH]; cbn [app str_keys].
    - rewrite Hx. cbn [bind]. destruct k; try reflexivity. exfalso. eapply Hk. reflexivity.
    - rewrite Hv. cbn [bind]. rewrite IH. reflexivity.
  Qed.

  Lemma num_keys_bad : forall pre ds x post k,
    Forall2 num_key pre ds -> ev x = Ok k -> to_decimal k = None ->
    num_keys ev (pre ++ x :: post) = Err EInvalidType.
  Proof.
    intros pre ds x post k H Hx Hk. induction H as [|v d l ds' (kv & Hv & Hd) _ IH]; cbn [app num_keys].
    - rewrite Hx. cbn [bind]. rewrite Hk. reflexivity.
    - rewrite Hv. cbn [bind]. rewrite Hd, IH. reflexivity.
  Qed.

  Lemma str_keys_err : forall pre ks x post e,
    Forall2 str_key pre ks -> ev x = Err e -> str_keys ev (pre ++ x :: post) = Err e.
  Proof.
    intros pre ks x post e H Hx. induction H as [|v kv l ks' Hv _ IH]; cbn [app str_keys].
    - rewrite Hx. reflexivity.
    - rewrite Hv. cbn [bind]. rewrite IH. reflexivity.
  Qed.

  Lemma num_keys_err : forall pre ds x post e,
    Forall2 num_key pre ds -> ev x = Err e -> num_keys ev (pre ++ x :: post) = Err e.
  Proof.
    intros pre ds x post e H Hx. induction H as [|v d l ds' (kv & Hv & Hd) _ IH]; cbn [app num_keys].
    - rewrite Hx. reflexivity.
    - rewrite Hv. cbn [bind]. rewrite Hd, IH. reflexivity.
  Qed.

  (* the first key is neither a string nor a number *)
  Lemma keys_for_bad_first : forall a0 rest k,
    ev a0 = Ok k -> (forall s, k <> VStr s) -> to_decimal k = None ->
    keys_for ev a0 rest = Err EInvalidType.
  Proof.
    intros a0 rest k H Hs Hd. unfold keys_for. rewrite H. cbn [bind].
    destruct k; try reflexivity; try (rewrite Hd; reflexivity).
    exfalso. eapply Hs. reflexivity.
  Qed.

  (* the first key is a string, x is the first element whose key is not a string *)
  Lemma keys_for_bad_str : forall a0 pre ks x post k,
    Forall2 str_key (a0 :: pre) ks -> ev x = Ok k -> (forall s, k <> VStr s) ->
    keys_for ev a0 (pre ++ x :: post) = Err EInvalidType.
  Proof.
    intros a0 pre ks x post k H Hx Hk. inversion H as [|? k0 ? ks' Hk0 Hr]; subst.
    unfold keys_for. rewrite Hk0. cbn [bind].
    rewrite (str_keys_bad pre ks' x post k Hr Hx Hk). reflexivity.
  Qed.

  (* the first key is a number, x is the first element whose key is not a number
     (for instance a string) *)
  Lemma keys_for_bad_num : forall a0 pre ds x post k,
    Forall2 num_key (a0 :: pre) ds -> ev x = Ok k -> to_decimal k = None ->
    keys_for ev a0 (pre ++ x :: post) = Err EInvalidType.
  Proof.
    intros a0 pre ds x post k H Hx Hk. inversion H as [|? d ? ds' (k0 & Hk0 & Hd0) Hr]; subst.
    unfold keys_for. rewrite Hk0. cbn [bind]. destruct k0; try discriminate.
    rewrite Hd0. rewrite (num_keys_bad pre ds' x post k Hr Hx Hk). reflexivity.
  Qed.

  (* an error of the key expression is propagated *)
  Lemma keys_for_err_first : forall a0 rest e, ev a0 = Err e -> keys_for ev a0 rest = Err e.
  Proof. intros a0 rest e H. unfold keys_for. rewrite H. reflexivity. Qed.

  Lemma keys_for_err_str : forall a0 pre ks x post e,
    Forall2 str_key (a0 :: pre) ks -> ev x = Err e -> keys_for ev a0 (pre ++ x :: post) = Err e.
  Proof.
    intros a0 pre ks x post e H Hx. inversion H as [|? k0 ? ks' Hk0 Hr]; subst.
    unfold keys_for. rewrite Hk0. cbn [bind]. rewrite (str_keys_err pre ks' x post e Hr Hx). reflexivity.
  Qed.

  Lemma keys_for_err_num : forall a0 pre ds x post e,
    Forall2 num_key (a0 :: pre) ds -> ev x = Err e -> keys_for ev a0 (pre ++ x :: post) = Err e.
  Proof.
    intros a0 pre ds x post e H Hx. inversion H as [|? d ? ds' (k0 & Hk0 & Hd0) Hr]; subst.
    unfold keys_for. rewrite Hk0. cbn [bind]. destruct k0; try discriminate.
    rewrite Hd0. rewrite (num_keys_err pre ds' x post e Hr Hx). reflexivity.
  Qed.

  (* ---- sort_by ---- *)

  Theorem sort_by_empty : sort_array_by ev (VArr []) = Ok (VArr []).
  Proof. reflexivity. Qed.

  Theorem sort_by_not_array : forall v, (forall l, v <> VArr l) -> sort_array_by ev v = Err EInvalidType.
  Proof. intros v H. destruct v; try reflexivity. exfalso. eapply H. reflexivity. Qed.

  (* any failure of the key computation is the result of sort_by *)
  Theorem sort_by_keys_fail : forall a0 rest e, keys_for ev a0 rest = Err e ->
    sort_array_by ev (VArr (a0 :: rest)) = Err e.
  Proof. intros a0 rest e H. unfold sort_array_by. rewrite H. reflexivity. Qed.

  Theorem sort_by_type_error_first : forall a0 rest k,
    ev a0 = Ok k -> (forall s, k <> VStr s) -> to_decimal k = None ->
    sort_array_by ev (VArr (a0 :: rest)) = Err EInvalidType.
  Proof. intros. apply sort_by_keys_fail. eapply keys_for_bad_first; eassumption. Qed.

  Theorem sort_by_type_error_str : forall a0 pre ks x post k,
    Forall2 str_key (a0 :: pre) ks -> ev x = Ok k -> (forall s, k <> VStr s) ->
    sort_array_by ev (VArr (a0 :: pre ++ x :: post)) = Err EInvalidType.
  Proof. intros. apply sort_by_keys_fail. eapply keys_for_bad_str; eassumption. Qed.

  Theorem sort_by_type_error_num : forall a0 pre ds x post k,
    Forall2 num_key (a0 :: pre) ds -> ev x = Ok k -> to_decimal k = None ->
    sort_array_by ev (VArr (a0 :: pre ++ x :: post)) = Err EInvalidType.
  Proof. intros. apply sort_by_keys_fail. eapply keys_for_bad_num; eassumption. Qed.

  Theorem sort_by_strings : forall a ks, a <> [] -> Forall2 str_key a ks ->
    let r := stable_sort leks (combine a ks) in
    sort_array_by ev (VArr a) = Ok (VArr (map fst r)) /\
    Permutation (map fst r) a /\
    Permutation (map snd r) ks /\
    Forall (fun p => str_key (fst p) (snd p)) r /\
    StronglySorted (fun x y => str_leb x y = true) (map snd r) /\
    (* stability: elements with the same key keep their relative order *)
    (forall k, filter (fun p => equiv leks k p) r = filter (fun p => equiv leks k p) (combine a ks)) /\
    (forall key, filter (fun p => beqb key (snd p)) r = filter (fun p => beqb key (snd p)) (combine a ks)) /\
    (* uniqueness *)
    (forall r', Permutation r' (combine a ks) -> StronglySorted (leP leks) r' ->
       (forall k, filter (fun p => equiv leks k p) r' = filter (fun p => equiv leks k p) (combine a ks)) ->
       r' = r).
  Proof.
    intros a ks Hne HF r.
    assert (Hstab : forall k, filter (fun p => equiv leks k p) r = filter (fun p => equiv leks k p) (combine a ks)).
    { intros k. apply (stable_sort_stable leks leks_total leks_trans). }
    split.
    { destruct a as [|a0 rest]; [congruence|]. unfold sort_array_by.
      rewrite (keys_for_str a0 rest ks HF). reflexivity. }
    split.
    { eapply Permutation_trans; [apply stable_sort_fst_perm|].
      rewrite (Forall2_fst_combine _ _ _ _ _ HF). apply Permutation_refl. }
    split.
    { eapply Permutation_trans; [apply stable_sort_snd_perm|].
      rewrite (Forall2_snd_combine _ _ _ _ _ HF). apply Permutation_refl. }
    split.
    { eapply Permutation_Forall; [apply Permutation_sym, stable_sort_perm|].
      exact (Forall2_combine _ _ str_key _ _ HF). }
    split. { apply (stable_sort_keys_sorted value bytes str_leb str_leb_total str_leb_trans). }
    split; [exact Hstab|].
    split.
    { intros key.
      assert (E : forall l : list (value * bytes),
                filter (fun p => beqb key (snd p)) l = filter (fun p => equiv leks (VNull, key) p) l).
      { intros l. apply filter_ext. intros p. unfold equiv. simpl. symmetry. apply str_equiv_beqb. }
      rewrite !E. apply Hstab. }
    intros r' HP HS HFi. apply (stable_sort_unique leks leks_total leks_trans); assumption.
  Qed.

  (* numeric keys, NaN included (it sorts first); no comparability condition is needed *)
  Theorem sort_by_numbers : forall a ds, a <> [] -> Forall2 num_key a ds ->
    let r := stable_sort lekd (combine a ds) in
    sort_array_by ev (VArr a) = Ok (VArr (map fst r)) /\
    Permutation (map fst r) a /\
    Permutation (map snd r) ds /\
    Forall (fun p => num_key (fst p) (snd p)) r /\
    StronglySorted (fun x y => dec_leb x y = true) (map snd r) /\
    (forall k, filter (fun p => equiv lekd k p) r = filter (fun p => equiv lekd k p) (combine a ds)) /\
    (forall r', Permutation r' (combine a ds) -> StronglySorted (leP lekd) r' ->
       (forall k, filter (fun p => equiv lekd k p) r' = filter (fun p => equiv lekd k p) (combine a ds)) ->
       r' = r).
  Proof.
    intros a ds Hne HF r.
    split.
    { destruct a as [|a0 rest]; [congruence|]. unfold sort_array_by.
      rewrite (keys_for_num a0 rest ds HF). reflexivity. }
    split.
    { eapply Permutation_trans; [apply stable_sort_fst_perm|].
      rewrite (Forall2_fst_combine _ _ _ _ _ HF). apply Permutation_refl. }
    split.
    { eapply Permutation_trans; [apply stable_sort_snd_perm|].
      rewrite (Forall2_snd_combine _ _ _ _ _ HF). apply Permutation_refl. }
    split.
    { eapply Permutation_Forall; [apply Permutation_sym, stable_sort_perm|].
      exact (Forall2_combine _ _ num_key _ _ HF). }
    split. { apply (stable_sort_keys_sorted value dec dec_leb dec_leb_total_all dec_leb_trans_all). }
    split. { intros k. apply (stable_sort_stable lekd lekd_total lekd_trans). }
    intros r' HP HS HFi. apply (stable_sort_unique lekd lekd_total lekd_trans); assumption.
  Qed.

  (* ---- max_by / min_by ---- *)

  Theorem extreme_by_empty : forall gt, array_extreme_by ev gt (VArr []) = Ok VNull.
  Proof. reflexivity. Qed.

  Theorem extreme_by_not_array : forall gt v, (forall l, v <> VArr l) ->
    array_extreme_by ev gt v = Err EInvalidType.
  Proof. intros gt v H. destruct v; try reflexivity. exfalso. eapply H. reflexivity. Qed.

  Theorem extreme_by_keys_fail : forall gt a0 rest e, keys_for ev a0 rest = Err e ->
    array_extreme_by ev gt (VArr (a0 :: rest)) = Err e.
  Proof. intros gt a0 rest e H. unfold array_extreme_by. rewrite H. reflexivity. Qed.

  Lemma extreme_by_str_scan : forall gt a0 rest k0 ss, Forall2 str_key (a0 :: rest) (k0 :: ss) ->
    array_extreme_by ev gt (VArr (a0 :: rest))
    = Ok (fst (scan (if gt then bgtb else bltb) a0 k0 (combine rest ss))).
  Proof.
    intros gt a0 rest k0 ss H. unfold array_extreme_by.
    rewrite (keys_for_str a0 rest _ H). cbn [bind]. rewrite best_by_scan. reflexivity.
  Qed.

  Lemma extreme_by_num_scan : forall gt a0 rest d0 ds, Forall2 num_key (a0 :: rest) (d0 :: ds) ->
    array_extreme_by ev gt (VArr (a0 :: rest))
    = Ok (fst (scan (if gt then dec_greater else dec_less) a0 d0 (combine rest ds))).
  Proof.
    intros gt a0 rest d0 ds H. unfold array_extreme_by.
    rewrite (keys_for_num a0 rest _ H). cbn [bind]. rewrite best_by_scan. reflexivity.
  Qed.

  (* the key computation never yields an empty key list: the PIndexRange branch is dead *)
  Theorem extreme_by_no_panic : forall gt a0 rest p,
    array_extreme_by ev gt (VArr (a0 :: rest)) = Panic p ->
    keys_for ev a0 rest = Panic p.
  Proof.
    intros gt a0 rest p. unfold array_extreme_by, keys_for.
    destruct (ev a0) as [k| | | |]; cbn [bind];
      try (intros H; first [discriminate | inversion H; reflexivity]).
    destruct k; cbn [bind];
      try (destruct (to_decimal _); [destruct (num_keys ev rest)|]; cbn [bind];
           intros H; first [discriminate | inversion H; reflexivity]).
    destruct (str_keys ev rest); cbn [bind];
      intros H; first [discriminate | inversion H; reflexivity].
  Qed.

  Theorem max_by_strings : forall a ks, a <> [] -> Forall2 str_key a ks ->
    exists x k l1 l2,
      array_extreme_by ev true (VArr a) = Ok x /\
      combine a ks = l1 ++ (x, k) :: l2 /\
      Forall (fun p => bltb (snd p) k = true) l1 /\
      Forall (fun p => str_leb (snd p) k = true) l2.
  Proof.
    intros [|a0 rest] ks Hne HF; [congruence|].
    destruct ks as [|k0 ss]; [inversion HF|].
    assert (PK : Forall (fun p : value * bytes => True) (combine rest ss)) by (apply Forall_forall; auto).
    destruct (scan_first_best str_leb (fun _ => True)
               (fun x y _ _ => str_leb_total x y) (fun x y z _ _ _ => str_leb_trans x y z)
               bgtb (fun k b _ _ => bgtb_str_leb k b) a0 k0 (combine rest ss) I PK)
      as (l1 & l2 & E & H1 & H2).
    destruct (scan bgtb a0 k0 (combine rest ss)) as [xm km] eqn:Es.
    exists xm, km, l1, l2.
    split; [rewrite (extreme_by_str_scan true a0 rest k0 ss HF), Es; reflexivity|].
    split; [exact E|]. split; [|exact H2].
    eapply Forall_impl; [|exact H1]. intros p [_ Hp]. simpl in Hp.
    rewrite bltb_str_leb, Hp. reflexivity.
  Qed.

  Theorem min_by_strings : forall a ks, a <> [] -> Forall2 str_key a ks ->
    exists x k l1 l2,
      array_extreme_by ev false (VArr a) = Ok x /\
      combine a ks = l1 ++ (x, k) :: l2 /\
      Forall (fun p => bgtb (snd p) k = true) l1 /\
      Forall (fun p => str_leb k (snd p) = true) l2.
  Proof.
    intros [|a0 rest] ks Hne HF; [congruence|].
    destruct ks as [|k0 ss]; [inversion HF|].
    assert (PK : Forall (fun p : value * bytes => True) (combine rest ss)) by (apply Forall_forall; auto).
    destruct (scan_first_best str_geb (fun _ => True)
               (fun x y _ _ => str_leb_total y x)
               (fun x y z _ _ _ H1 H2 => str_leb_trans z y x H2 H1)
               bltb (fun k b _ _ => bltb_str_leb k b) a0 k0 (combine rest ss) I PK)
      as (l1 & l2 & E & H1 & H2).
    destruct (scan bltb a0 k0 (combine rest ss)) as [xm km] eqn:Es.
    exists xm, km, l1, l2.
    split; [rewrite (extreme_by_str_scan false a0 rest k0 ss HF), Es; reflexivity|].
    split; [exact E|]. split; [|exact H2].
    eapply Forall_impl; [|exact H1]. intros p [_ Hp]. simpl in Hp. unfold str_geb in Hp.
    rewrite bgtb_str_leb, Hp. reflexivity.
  Qed.

  Theorem max_by_numbers : forall a ds, a <> [] -> Forall2 num_key a ds -> Forall dec_ok ds ->
    exists x d l1 l2,
      array_extreme_by ev true (VArr a) = Ok x /\
      combine a ds = l1 ++ (x, d) :: l2 /\
      Forall (fun p => dec_less (snd p) d = true) l1 /\
      Forall (fun p => dec_leb (snd p) d = true) l2.
  Proof.
    intros [|a0 rest] ds Hne HF Hok; [congruence|].
    destruct ds as [|d0 ds]; [inversion HF|].
    inversion Hok as [|? ? Pd Pds]; subst.
    assert (PK : Forall (fun p : value * dec => dec_ok (snd p)) (combine rest ds)).
    { rewrite Forall_forall in *. intros p Hp. apply Pds. destruct p. eapply in_combine_r; exact Hp. }
    destruct (scan_first_best dec_leb dec_ok dec_leb_total dec_leb_trans dec_greater dec_greater_spec
                a0 d0 (combine rest ds) Pd PK) as (l1 & l2 & E & H1 & H2).
    pose proof (scan_in dec_greater a0 d0 (combine rest ds)) as Hin.
    destruct (scan dec_greater a0 d0 (combine rest ds)) as [xm dm] eqn:Es.
    exists xm, dm, l1, l2.
    split; [rewrite (extreme_by_num_scan true a0 rest d0 ds HF), Es; reflexivity|].
    split; [exact E|]. split; [|exact H2].
    assert (Pm : dec_ok dm).
    { destruct Hin as [Hi|Hi]; [inversion Hi; subst; exact Pd|].
      rewrite Forall_forall in PK. apply (PK _ Hi). }
    rewrite Forall_forall in *. intros p Hp. simpl snd in *.
    apply sbelow_dec_less; [exact Pm | | apply H1; exact Hp].
    assert (Hi : In p ((a0, d0) :: combine rest ds)) by (rewrite E; apply in_or_app; left; exact Hp).
    destruct Hi as [<-|Hi]; [exact Pd | apply PK; exact Hi].
  Qed.

  Theorem min_by_numbers : forall a ds, a <> [] -> Forall2 num_key a ds -> Forall dec_ok ds ->
    exists x d l1 l2,
      array_extreme_by ev false (VArr a) = Ok x /\
      combine a ds = l1 ++ (x, d) :: l2 /\
      Forall (fun p => dec_greater (snd p) d = true) l1 /\
      Forall (fun p => dec_leb d (snd p) = true) l2.
  Proof.
    intros [|a0 rest] ds Hne HF Hok; [congruence|].
    destruct ds as [|d0 ds]; [inversion HF|].
    inversion Hok as [|? ? Pd Pds]; subst.
    assert (PK : Forall (fun p : value * dec => dec_ok (snd p)) (combine rest ds)).
    { rewrite Forall_forall in *. intros p Hp. apply Pds. destruct p. eapply in_combine_r; exact Hp. }
    destruct (scan_first_best dec_geb dec_ok dec_geb_total dec_geb_trans dec_less dec_less_spec
                a0 d0 (combine rest ds) Pd PK) as (l1 & l2 & E & H1 & H2).
    pose proof (scan_in dec_less a0 d0 (combine rest ds)) as Hin.
    destruct (scan dec_less a0 d0 (combine rest ds)) as [xm dm] eqn:Es.
    exists xm, dm, l1, l2.
    split; [rewrite (extreme_by_num_scan false a0 rest d0 ds HF), Es; reflexivity|].
    split; [exact E|]. split; [|exact H2].
    assert (Pm : dec_ok dm).
    { destruct Hin as [Hi|Hi]; [inversion Hi; subst; exact Pd|].
      rewrite Forall_forall in PK. apply (PK _ Hi). }
    rewrite Forall_forall in *. intros p Hp. simpl snd in *.
    apply sbelow_dec_greater; [exact Pm | | apply H1; exact Hp].
    assert (Hi : In p ((a0, d0) :: combine rest ds)) by (rewrite E; apply in_or_app; left; exact Hp).
    destruct Hi as [<-|Hi]; [exact Pd | apply PK; exact Hi].
  Qed.

  (* membership / bound forms: the result is an element of the array (the
     element itself, not its key) whose key bounds every key *)
  Corollary max_by_strings_bound : forall a ks, a <> [] -> Forall2 str_key a ks ->
    exists x k, array_extreme_by ev true (VArr a) = Ok x /\ In x a /\ str_key x k /\
                forall y ky, In y a -> str_key y ky -> str_leb ky k = true.
  Proof.
    intros a ks Hne HF. destruct (max_by_strings a ks Hne HF) as (x & k & l1 & l2 & Hr & E & H1 & H2).
    exists x, k. split; [exact Hr|].
    apply (split_bound bytes str_key str_leb a ks x k l1 l2 HF str_key_fun (str_leb_refl k) E); [|exact H2].
    eapply Forall_impl; [|exact H1]. intros p. apply bltb_leb.
  Qed.

  Corollary min_by_strings_bound : forall a ks, a <> [] -> Forall2 str_key a ks ->
    exists x k, array_extreme_by ev false (VArr a) = Ok x /\ In x a /\ str_key x k /\
                forall y ky, In y a -> str_key y ky -> str_leb k ky = true.
  Proof.
    intros a ks Hne HF. destruct (min_by_strings a ks Hne HF) as (x & k & l1 & l2 & Hr & E & H1 & H2).
    exists x, k. split; [exact Hr|].
    apply (split_bound bytes str_key str_geb a ks x k l1 l2 HF str_key_fun (str_leb_refl k) E); [|exact H2].
    eapply Forall_impl; [|exact H1]. intros p. apply bgtb_leb.
  Qed.

  Corollary max_by_numbers_bound : forall a ds, a <> [] -> Forall2 num_key a ds -> Forall dec_ok ds ->
    exists x d, array_extreme_by ev true (VArr a) = Ok x /\ In x a /\ num_key x d /\
                forall y dy, In y a -> num_key y dy -> dec_leb dy d = true.
  Proof.
    intros a ds Hne HF Hok.
    destruct (max_by_numbers a ds Hne HF Hok) as (x & d & l1 & l2 & Hr & E & H1 & H2).
    exists x, d. split; [exact Hr|].
    assert (Hd : dec_ok d).
    { rewrite Forall_forall in Hok. apply Hok. eapply (in_combine_r a ds x d).
      rewrite E. apply in_or_app; right; left; reflexivity. }
    apply (split_bound dec num_key dec_leb a ds x d l1 l2 HF num_key_fun (dec_leb_refl d Hd) E); [|exact H2].
    eapply Forall_impl; [|exact H1]. intros p. apply dec_less_leb.
  Qed.

  Corollary min_by_numbers_bound : forall a ds, a <> [] -> Forall2 num_key a ds -> Forall dec_ok ds ->
    exists x d, array_extreme_by ev false (VArr a) = Ok x /\ In x a /\ num_key x d /\
                forall y dy, In y a -> num_key y dy -> dec_leb d dy = true.
  Proof.
    intros a ds Hne HF Hok.
    destruct (min_by_numbers a ds Hne HF Hok) as (x & d & l1 & l2 & Hr & E & H1 & H2).
    exists x, d. split; [exact Hr|].
    assert (Hd : dec_ok d).
    { rewrite Forall_forall in Hok. apply Hok. eapply (in_combine_r a ds x d).
      rewrite E. apply in_or_app; right; left; reflexivity. }
    apply (split_bound dec num_key dec_geb a ds x d l1 l2 HF num_key_fun (dec_leb_refl d Hd) E); [|exact H2].
    eapply Forall_impl; [|exact H1]. intros p. apply dec_greater_leb.
  Qed.
End By.

Print Assumptions str_leb_trans.
Print Assumptions sort_type_error.
Print Assumptions sort_strings.
Print Assumptions sort_strings_code_points.
Print Assumptions sort_decimals.
Print Assumptions max_numbers.
Print Assumptions min_numbers.
Print Assumptions max_strings.
Print Assumptions min_strings.
Print Assumptions sort_by_strings.
Print Assumptions sort_by_numbers.
Print Assumptions sort_by_type_error_num.
Print Assumptions max_by_strings_bound.
Print Assumptions min_by_numbers_bound.
Print Assumptions extreme_by_no_panic.
Print Assumptions sort_numbers.
