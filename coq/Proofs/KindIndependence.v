(* C14: results do not depend on which Go type carries a number.

   Replacing a number by another Go representation of the same mathematical
   value (json.Number text, int8..int64/int, uint8..uint64/uint,
   decimal128.Decimal) leaves every result of the evaluator equal in value.
   float32/float64 values are related only to themselves (they take the binary
   float path of arith; handled separately).

   A. decimals.  [drel d d']: both well formed (coefficient in [0, 10^34)) and
      either identical or finite with dec_equal d d' = true.  KEY LEMMA
      [fit_value]: rounding to 34 digits / clamping the exponent maps equal
      VALUES (not only equal (coefficient, exponent) pairs) to equal values, so
      NO exactness / no-rounding hypothesis is needed anywhere.  Then
      dec_add/sub/mul/neg/abs/floor/ceil, dec_quorem (remainder) respect drel;
      dec_quo and the quotient of dec_quorem respect it up to the sign of an
      infinity (x / -0 vs x / 0; both are reported as the same error);
      dec_cmp, dec_compare and decimal_to_int give identical results.
      sum/avg accumulate EXACTLY and round once: the unrounded totals are
      related by [ueq] (same value, no coefficient bound); [exact_add_ueq],
      [round_once_rel] (via fit_value) and [dec_quo_ueq] (dec_quo depends only
      on the value of an unbounded dividend: [quo_scale_u], whose hard case is
      the sticky-digit rounding lemma [fit_sticky]).
   B. values.  [vrel]: equal up to the representation of numbers; [num_rel];
      uniform classification ([is_number_rel], [is_true_rel], [type_name_rel],
      [to_number_rel], [to_float_rel]), integer arguments ([to_int_rel],
      [int_arg_rel]: the SAME integer or the SAME error), [equal_rel],
      comparisons, arithmetic, sum/avg, sort/max/min, every string, array and
      object built-in.
   C. [eval_kind_independent]: the whole evaluator, every node type, for every
      expression that does not call to_string ([kind_safe]).
   D. corollaries ([search_kind_independent], [vrel_equal], vrel is symmetric
      and transitive), E. spot checks by computation, and the finding
      [to_string_not_kind_independent]. *)
From Coq Require Import List ZArith Bool Lia.
From JM Require Import Base.Outcome Base.Bytes Base.GoInt Base.Utf8 Num.Dec Num.Flt Json.Value Json.JsonText
  Model.Ast Model.Compare Model.NumberFns Model.Slice Model.StringFns Model.Array Model.Functions Model.Eval
  Model.Api Proofs.DecTheory Proofs.EqualTheory Proofs.Scoping.
Import ListNotations.
Open Scope Z_scope.



(* ================================================================== *)
(* A. decimals: value equality is a congruence for every operation     *)
(* ================================================================== *)

Definition P34 : Z := 10 ^ 34.
Definition dec_wf (d : dec) : Prop :=
  match d with DFin _ c _ => 0 <= c < P34 | _ => True end.
Definition dfin (d : dec) : Prop := match d with DFin _ _ _ => True | _ => False end.
(* same value: identical, or finite with equal values *)
Definition deq (x y : dec) : Prop := x = y \/ (dfin x /\ dfin y /\ dec_equal x y = true).
Definition drel (x y : dec) : Prop := dec_wf x /\ dec_wf y /\ deq x y.

Lemma dec_wf_ok : forall d, d <> DNaN -> dec_wf d -> dec_ok d.
Proof. intros [n c e|a|] H W; simpl in *; try lia; try exact I. congruence. Qed.

Lemma pow10_gt0 : forall k, 0 <= k -> 0 < 10 ^ k.
Proof. intros. apply Z.pow_pos_nonneg; lia. Qed.

(* ---- scaled values ---- *)
Lemma dec_equal_scaled : forall m n c e n' c' e', m <= e -> m <= e' ->
  (dec_equal (DFin n c e) (DFin n' c' e') = true <-> scaled m n c e = scaled m n' c' e').
Proof.
  intros. unfold dec_equal. rewrite (dec_cmp_fin m) by assumption.
  destruct (Z.compare_spec (scaled m n c e) (scaled m n' c' e')); simpl; split; intros; try lia; try discriminate; reflexivity.
Qed.

Lemma scaled_shift : forall m m' n c e, m' <= m -> m <= e ->
  scaled m' n c e = scaled m n c e * 10 ^ (m - m').
Proof.
  intros. unfold scaled. replace (e - m') with ((e - m) + (m - m')) by lia.
  rewrite Z.pow_add_r by lia. ring.
Qed.

Lemma scaled_zero_iff : forall m n c e, m <= e -> (scaled m n c e = 0 <-> c = 0).
Proof.
  intros. unfold scaled. pose proof (pow10_gt0 (e - m) ltac:(lia)).
  destruct n; unfold sgn; split; intros; try nia.
Qed.

Lemma dec_equal_any_m : forall m n c e n' c' e', m <= e -> m <= e' ->
  dec_equal (DFin n c e) (DFin n' c' e') = true -> scaled m n c e = scaled m n' c' e'.
Proof. intros. eapply dec_equal_scaled; eauto. Qed.

Lemma deq_refl : forall x, deq x x. Proof. left; reflexivity. Qed.
Lemma deq_sym : forall x y, deq x y -> deq y x.
Proof.
  intros x y [->|(A & B & C)]; [left; reflexivity|right]. rewrite dec_equal_sym. auto.
Qed.
Lemma deq_trans : forall x y z, dec_ok x -> dec_ok y -> dec_ok z -> deq x y -> deq y z -> deq x z.
Proof.
  intros x y z Hx Hy Hz [E|(A & B & C)] [E'|(A' & B' & C')].
  - left; congruence.
  - subst y. right; auto.
  - subst z. right; auto.
  - right. repeat split; auto. apply (dec_equal_trans x y z); assumption.
Qed.

Lemma deq_zero : forall n e n' e', deq (DFin n 0 e) (DFin n' 0 e').
Proof.
  intros. right. repeat split. apply (dec_equal_scaled (Z.min e e')); try lia.
  unfold scaled. destruct n, n'; reflexivity.
Qed.

(* two finite decimals of the same value: both zero, or same sign and one
   coefficient is the other one padded with zeros *)
Lemma fin_equal_inv : forall n c e n' c' e', 0 <= c -> 0 <= c' ->
  dec_equal (DFin n c e) (DFin n' c' e') = true ->
  (c = 0 /\ c' = 0) \/
  (0 < c /\ 0 < c' /\ n = n' /\
   ((e <= e' /\ c = c' * 10 ^ (e' - e)) \/ (e' <= e /\ c' = c * 10 ^ (e - e')))).
Proof.
  intros n c e n' c' e' Hc Hc' H.
  destruct (Z_le_gt_dec e e') as [L|L].
  - apply (dec_equal_any_m e) in H; try lia. unfold scaled in H.
    rewrite Z.sub_diag in H. change (10 ^ 0) with 1 in H. rewrite Z.mul_1_r in H.
    pose proof (pow10_gt0 (e' - e) ltac:(lia)) as HP.
    destruct (Z.eq_dec c' 0) as [->|N].
    + left. destruct n, n'; unfold sgn in H; simpl in H; lia.
    + right. assert (0 < c') by lia.
      destruct n, n'; unfold sgn in H; repeat split; try nia; try reflexivity; left; split; nia.
  - apply (dec_equal_any_m e') in H; try lia. unfold scaled in H.
    rewrite Z.sub_diag in H. change (10 ^ 0) with 1 in H. rewrite Z.mul_1_r in H.
    pose proof (pow10_gt0 (e - e') ltac:(lia)) as HP.
    destruct (Z.eq_dec c 0) as [->|N].
    + left. destruct n, n'; unfold sgn in H; simpl in H; lia.
    + right. assert (0 < c) by lia.
      destruct n, n'; unfold sgn in H; repeat split; try nia; try reflexivity; right; split; nia.
Qed.

(* ---- rounding keeps coefficients below 10^34 ---- *)
Lemma drop_digits_le : forall c k, 0 <= c -> 1 <= k -> 0 <= drop_digits c k <= c / 10 ^ k + 1.
Proof.
  intros c k Hc Hk. pose proof (drop_digits_nonneg c k Hc) as H0. split; [exact H0|].
  unfold drop_digits, pow10. cbv zeta.
  destruct (_ >? _); [lia|]. destruct (_ =? _); [destruct (Z.even _); lia | lia].
Qed.

Lemma lt_pow_digits : forall c, 0 <= c -> c < 10 ^ digits c.
Proof.
  intros c Hc. destruct (Z.eq_dec c 0) as [->|N].
  - rewrite digits_nonpos by lia. simpl. lia.
  - apply digits_spec. lia.
Qed.

Lemma round_coef_bound : forall c e c1 e1, 0 <= c -> round_coef c e = (c1, e1) -> 0 <= c1 < P34.
Proof.
  intros c e c1 e1 Hc R. pose proof (round_coef_nonneg _ _ _ _ Hc R) as H0. split; [exact H0|].
  unfold round_coef in R. cbv zeta in R. unfold prec34 in R.
  destruct (Z.leb_spec (digits c) 34) as [L|L].
  - injection R as E1 E2. rewrite <- E1. pose proof (lt_pow_digits c Hc).
    assert (10 ^ digits c <= 10 ^ 34) by (apply Z.pow_le_mono_r; lia). unfold P34. lia.
  - set (k := digits c - 34) in *. set (q := drop_digits c k) in *.
    assert (Hq : 0 <= q <= c / 10 ^ k + 1) by (apply drop_digits_le; unfold k; lia).
    assert (Hck : c / 10 ^ k < 10 ^ 34).
    { apply Z.div_lt_upper_bound; [apply pow10_gt0; unfold k; lia|].
      rewrite <- Z.pow_add_r by (unfold k; lia). replace (k + 34) with (digits c) by (unfold k; lia).
      apply lt_pow_digits; exact Hc. }
    destruct (Z.gtb_spec (digits q) 34) as [G|G]; injection R as E1 E2; rewrite <- E1.
    + apply Z.div_lt_upper_bound; [lia|]. unfold P34. change (10 * 10 ^ 34) with (10 ^ 35).
      assert (10 ^ 34 < 10 ^ 35) by (apply Z.pow_lt_mono_r; lia). lia.
    + pose proof (lt_pow_digits q ltac:(lia)).
      assert (10 ^ digits q <= 10 ^ 34) by (apply Z.pow_le_mono_r; lia). unfold P34. lia.
Qed.

Definition fit2 (neg : bool) (c e : Z) : dec :=
  if c =? 0 then DFin neg 0 (Z.max emin (Z.min emax e)) else
  if e >? emax then
    let k := e - emax in
    if digits c + k <=? prec34 then DFin neg (c * pow10 k) emax else DInf neg
  else if e <? emin then
    let k := emin - e in
    if k >? 40 then DFin neg 0 emin else DFin neg (drop_digits c k) emin
  else DFin neg c e.

Lemma fit_unfold : forall neg c e, fit neg c e = let '(c1, e1) := round_coef c e in fit2 neg c1 e1.
Proof. reflexivity. Qed.

Lemma P34_pos : 0 < P34. Proof. reflexivity. Qed.

Lemma fit2_wf : forall neg c e, 0 <= c < P34 -> dec_wf (fit2 neg c e).
Proof.
  intros neg c e Hc. unfold fit2. pose proof P34_pos.
  destruct (c =? 0); [cbn [dec_wf]; lia|].
  destruct (e >? emax) eqn:G.
  - cbv zeta. destruct (Z.leb_spec (digits c + (e - emax)) prec34) as [L|L]; [|exact I].
    cbn [dec_wf]. unfold pow10. apply Z.gtb_lt in G.
    split; [apply Z.mul_nonneg_nonneg; [lia|apply Z.pow_nonneg; lia]|].
    pose proof (lt_pow_digits c ltac:(lia)) as D.
    pose proof (pow10_gt0 (e - emax) ltac:(lia)).
    assert (c * 10 ^ (e - emax) < 10 ^ digits c * 10 ^ (e - emax)) by nia.
    assert (0 <= digits c).
    { destruct (Z.eq_dec c 0) as [->|N]; [rewrite digits_nonpos; lia|]. pose proof (digits_pos c ltac:(lia)); lia. }
    rewrite <- Z.pow_add_r in H1 by lia.
    assert (10 ^ (digits c + (e - emax)) <= 10 ^ 34) by (apply Z.pow_le_mono_r; unfold prec34 in L; lia).
    unfold P34. lia.
  - destruct (e <? emin) eqn:L; [|cbn [dec_wf]; exact Hc].
    cbv zeta. destruct (emin - e >? 40); [cbn [dec_wf]; lia|]. cbn [dec_wf].
    apply Z.ltb_lt in L.
    pose proof (drop_digits_le c (emin - e) ltac:(lia) ltac:(lia)) as D.
    split; [lia|].
    assert (c / 10 ^ (emin - e) <= c / 10 ^ 1).
    { apply Z.div_le_compat_l; [lia|]. split; [reflexivity|]. apply Z.pow_le_mono_r; lia. }
    change (10 ^ 1) with 10 in H0.
    assert (c / 10 < P34 / 10 + 1).
    { assert (c / 10 <= P34 / 10) by (apply Z.div_le_mono; lia). lia. }
    assert (P34 / 10 + 2 < P34) by reflexivity. lia.
Qed.

Lemma fit_wf : forall neg c e, 0 <= c -> dec_wf (fit neg c e).
Proof.
  intros neg c e Hc. rewrite fit_unfold. destruct (round_coef c e) as [c1 e1] eqn:R.
  apply fit2_wf. eapply round_coef_bound; eauto.
Qed.

Lemma dec_of_Z_wf : forall z, dec_wf (dec_of_Z z).
Proof. intros. apply fit_wf. lia. Qed.

Lemma dec_of_flt_wf : forall f, dec_wf (dec_of_flt f).
Proof.
  intros [m e| |n|]; simpl; try exact I; try (pose proof P34_pos; lia).
  destruct (0 <=? e) eqn:E; apply fit_wf.
  - apply Z.mul_nonneg_nonneg; [lia|]. apply Z.pow_nonneg; lia.
  - apply Z.mul_nonneg_nonneg; [lia|]. apply Z.pow_nonneg; lia.
Qed.


Lemma lone_point_kind : forall (neg : bool) (r1 r2 : bytes) (d : dec),
  (match r1, r2 with 46 :: _, [] => Some (DFin neg 0 0) | _, _ => None end) = Some d -> d = DFin neg 0 0.
Proof.
  intros neg r1 r2 d. destruct r1 as [|b r]; [discriminate|].
  destruct (Z.eq_dec b 46) as [->|Hb].
  - destruct r2; [intros H; inversion H; reflexivity | discriminate].
  - destruct b as [|p|p]; try discriminate.
    repeat (destruct p as [p|p|]; try discriminate). exfalso; apply Hb; reflexivity.
Qed.

Lemma parse_dec_body_wf : forall neg s d, parse_dec_body neg s = Some d -> dec_wf d.
Proof.
  intros neg s d. unfold parse_dec_body. cbv zeta. pose proof P34_pos as HP.
  destruct (_ || _); [intros H; inversion H; exact I|].
  destruct (beqb (map lower_byte s) [110; 97; 110]); [intros H; inversion H; exact I|].
  destruct (take_digits s 0 0) as [[ip ni] r1] eqn:T1.
  assert (Hip : 0 <= ip) by (eapply take_digits_nonneg; [|exact T1]; lia).
  match goal with
  | |- context [match ?T with pair _ _ => _ end] =>
    match T with context [r1] => destruct T as [[[c nf] nd] r2] eqn:T2 end
  end.
  assert (HF : 0 <= c) by (eapply (frac_nonneg ip ni r1); [exact Hip | exact T2]).
  destruct (nd =? 0); [intros H; apply lone_point_kind in H; subst d; simpl; lia|].
  destruct r2 as [|b2 r].
  { pose proof (fit_wf neg c (- nf) HF) as HO. destruct (fit neg c (- nf));
      intros H; inversion H; subst; exact HO. }
  destruct ((b2 =? 101) || (b2 =? 69)); [|discriminate].
  match goal with |- (let '(eneg, r') := ?T in _) = _ -> _ => destruct T as [eneg r'] end.
  destruct (take_digits r' 0 0) as [[ev ne] r''].
  destruct (_ || _); [discriminate|].
  destruct (ne >? 8).
  - destruct (c =? 0); [intros H; inversion H; simpl; lia|].
    destruct eneg; [intros H; inversion H; simpl; lia | discriminate].
  - match goal with |- match ?F with _ => _ end = _ -> _ =>
      pose proof (fit_wf neg c ((if eneg then - ev else ev) - nf) HF) as HO; destruct F end;
      intros H; inversion H; subst; exact HO.
Qed.

Lemma parse_dec_wf : forall t d, parse_dec t = Some d -> dec_wf d.
Proof.
  intros t0 d. unfold parse_dec. destruct (strip_us false t0) as [t|]; [|discriminate].
  rewrite parse_dec_alt. destruct t as [|b r]; [discriminate|].
  destruct (b =? 43); [destruct r; [discriminate|apply parse_dec_body_wf]|].
  destruct (b =? 45); [destruct r; [discriminate|apply parse_dec_body_wf]|].
  apply parse_dec_body_wf.
Qed.

(* ---- rounding depends on the value only ---- *)
Lemma digits_10 : forall c, 0 < c -> digits (10 * c) = digits c + 1.
Proof.
  intros c Hc. pose proof (digits_spec c Hc) as [A B]. pose proof (digits_pos c Hc).
  apply digits_unique; [lia|].
  replace (digits c + 1 - 1) with (Z.succ (digits c - 1)) by lia.
  replace (digits c + 1) with (Z.succ (digits c)) by lia.
  rewrite !Z.pow_succ_r by lia. lia.
Qed.

Lemma drop_digits_10 : forall c k, 0 <= c -> 1 <= k -> drop_digits (10 * c) (k + 1) = drop_digits c k.
Proof.
  intros c k Hc Hk. unfold drop_digits, pow10. cbv zeta.
  replace (k + 1 - 1) with (Z.succ (k - 1)) by lia.
  replace (k + 1) with (Z.succ k) by lia.
  rewrite !Z.pow_succ_r by lia.
  pose proof (pow10_gt0 k ltac:(lia)) as Hp. pose proof (pow10_gt0 (k - 1) ltac:(lia)) as Hh.
  set (p := 10 ^ k) in *. set (h := 10 ^ (k - 1)) in *.
  rewrite Z.div_mul_cancel_l by lia. rewrite Z.mul_mod_distr_l by lia.
  set (r := c mod p). set (q := c / p).
  destruct (Z.gtb_spec (10 * r) (5 * (10 * h))), (Z.gtb_spec r (5 * h)); try lia.
  destruct (Z.eqb_spec (10 * r) (5 * (10 * h))), (Z.eqb_spec r (5 * h)); try lia; reflexivity.
Qed.

Lemma drop_digits_10_1 : forall c, 0 <= c -> drop_digits (10 * c) 1 = c.
Proof.
  intros c Hc. unfold drop_digits, pow10. cbv zeta. change (10 ^ 1) with 10. change (10 ^ (1 - 1)) with 1.
  rewrite (Z.mul_comm 10 c), Z.div_mul, Z.mod_mul by lia. reflexivity.
Qed.

Lemma round_coef_10 : forall c e, 0 < c -> 34 <= digits c -> round_coef (10 * c) (e - 1) = round_coef c e.
Proof.
  intros c e Hc Hd. unfold round_coef. cbv zeta. rewrite digits_10 by exact Hc. unfold prec34.
  destruct (Z.leb_spec (digits c + 1) 34); [lia|].
  destruct (Z.leb_spec (digits c) 34).
  - assert (E : digits c = 34) by lia. rewrite E. change (34 + 1 - 34) with 1.
    rewrite drop_digits_10_1 by lia. rewrite E. simpl. f_equal. lia.
  - replace (digits c + 1 - 34) with ((digits c - 34) + 1) by lia.
    rewrite drop_digits_10 by lia.
    destruct (_ >? 34); f_equal; lia.
Qed.

Lemma fit2_10 : forall n c e, 0 < c -> digits c + 1 <= 34 ->
  deq (fit2 n (10 * c) (e - 1)) (fit2 n c e).
Proof.
  intros n c e Hc Hd. unfold fit2.
  destruct (Z.eqb_spec (10 * c) 0); [lia|]. destruct (Z.eqb_spec c 0); [lia|].
  rewrite digits_10 by exact Hc. cbv zeta. unfold prec34, emax, emin, pow10.
  destruct (Z.gtb_spec (e - 1) 6111) as [A|A].
  - (* both above emax *)
    destruct (Z.gtb_spec e 6111); [|lia].
    replace (digits c + 1 + (e - 1 - 6111)) with (digits c + (e - 6111)) by lia.
    destruct (_ <=? 34); [|left; reflexivity].
    left. f_equal. replace (e - 6111) with (Z.succ (e - 1 - 6111)) by lia.
    rewrite Z.pow_succ_r by lia. ring.
  - destruct (Z.gtb_spec e 6111) as [B|B].
    + assert (e = 6112) by lia. subst e.
      destruct (Z.ltb_spec (6112 - 1) (-6176)); [lia|].
      change (6112 - 6111) with 1. destruct (Z.leb_spec (digits c + 1) 34); [|lia].
      left. f_equal; change (10 ^ 1) with 10; lia.
    + destruct (Z.ltb_spec (e - 1) (-6176)) as [C|C].
      * destruct (Z.ltb_spec e (-6176)) as [D|D].
        -- replace (-6176 - (e - 1)) with ((-6176 - e) + 1) by lia.
           set (k := -6176 - e) in *.
           destruct (Z.gtb_spec (k + 1) 40), (Z.gtb_spec k 40); try lia.
           ++ left; reflexivity.
           ++ assert (k = 40) by lia. left. f_equal.
              assert (Hb : c < 10 ^ 33).
              { pose proof (lt_pow_digits c ltac:(lia)).
                assert (10 ^ digits c <= 10 ^ 33) by (apply Z.pow_le_mono_r; lia). lia. }
              unfold drop_digits, pow10. cbv zeta. rewrite H1.
              assert (10 ^ 33 < 5 * 10 ^ (40 - 1)) by reflexivity.
              assert (10 ^ 33 < 10 ^ 40) by reflexivity.
              rewrite Z.div_small, Z.mod_small by lia.
              destruct (Z.gtb_spec c (5 * 10 ^ (40 - 1))); [lia|].
              destruct (Z.eqb_spec c (5 * 10 ^ (40 - 1))); [lia|]. reflexivity.
           ++ left. f_equal. apply drop_digits_10; lia.
        -- assert (e = -6176) by lia. subst e. change (-6176 - (-6176 - 1)) with 1.
           change (1 >? 40) with false. cbv iota. rewrite drop_digits_10_1 by lia. left; reflexivity.
      * destruct (Z.ltb_spec e (-6176)); [lia|].
        right. repeat split. apply (dec_equal_scaled (e - 1)); try lia.
        unfold scaled. replace (e - 1 - (e - 1)) with 0 by lia. replace (e - (e - 1)) with 1 by lia.
        change (10 ^ 0) with 1. change (10 ^ 1) with 10. destruct n; unfold sgn; lia.
Qed.

Lemma fit_10 : forall n c e, 0 < c -> deq (fit n (10 * c) (e - 1)) (fit n c e).
Proof.
  intros n c e Hc. rewrite !fit_unfold.
  destruct (Z_le_gt_dec 34 (digits c)) as [L|L].
  - rewrite round_coef_10 by assumption. left; reflexivity.
  - rewrite !round_coef_id; try lia; try (rewrite digits_10 by lia; unfold prec34; lia); try (unfold prec34; lia).
    apply fit2_10; lia.
Qed.

Lemma fit_scale : forall (j : nat) n c e, 0 < c ->
  deq (fit n (c * 10 ^ Z.of_nat j) (e - Z.of_nat j)) (fit n c e).
Proof.
  induction j as [|j IH]; intros n c e Hc.
  - simpl. rewrite Z.mul_1_r, Z.sub_0_r. left; reflexivity.
  - rewrite Nat2Z.inj_succ, Z.pow_succ_r by lia.
    replace (c * (10 * 10 ^ Z.of_nat j)) with (10 * (c * 10 ^ Z.of_nat j)) by ring.
    replace (e - Z.succ (Z.of_nat j)) with ((e - Z.of_nat j) - 1) by lia.
    pose proof (pow10_gt0 (Z.of_nat j) ltac:(lia)).
    eapply deq_trans; [| | |apply fit_10; nia|apply IH; exact Hc]; apply fit_ok; nia.
Qed.

Lemma fit_zero : forall n e, fit n 0 e = DFin n 0 (Z.max emin (Z.min emax e)).
Proof. intros. reflexivity. Qed.

(* the key lemma: rounding maps equal values to equal values *)
Lemma fit_value : forall m n c e n' c' e', m <= e -> m <= e' -> 0 <= c -> 0 <= c' ->
  scaled m n c e = scaled m n' c' e' -> deq (fit n c e) (fit n' c' e').
Proof.
  intros m n c e n' c' e' He He' Hc Hc' H.
  assert (E : dec_equal (DFin n c e) (DFin n' c' e') = true) by (apply (dec_equal_scaled m); assumption).
  destruct (fin_equal_inv _ _ _ _ _ _ Hc Hc' E) as [[-> ->]|(P & P' & <- & [[L ->]|[L ->]])].
  - rewrite !fit_zero. apply deq_zero.
  - replace e with (e' - Z.of_nat (Z.to_nat (e' - e))) at 2 by (rewrite Z2Nat.id; lia).
    replace (e' - e) with (Z.of_nat (Z.to_nat (e' - e))) at 1 by (rewrite Z2Nat.id; lia).
    apply fit_scale. exact P'.
  - apply deq_sym.
    replace e' with (e - Z.of_nat (Z.to_nat (e - e'))) at 2 by (rewrite Z2Nat.id; lia).
    replace (e - e') with (Z.of_nat (Z.to_nat (e - e'))) at 1 by (rewrite Z2Nat.id; lia).
    apply fit_scale. exact P.
Qed.

(* ---- the relation on decimals ---- *)
Lemma dec_equal_fin_refl : forall n c e, dec_equal (DFin n c e) (DFin n c e) = true.
Proof. intros. apply (dec_equal_scaled e); lia. Qed.

Lemma drel_refl : forall x, dec_wf x -> drel x x.
Proof. intros x H. repeat split; auto. apply deq_refl. Qed.
Lemma drel_sym : forall x y, drel x y -> drel y x.
Proof. intros x y (A & B & C). repeat split; auto. apply deq_sym; exact C. Qed.

Lemma drel_cases : forall x y, drel x y ->
  (exists n c e n' c' e', x = DFin n c e /\ y = DFin n' c' e' /\ 0 <= c < P34 /\ 0 <= c' < P34 /\
     dec_equal (DFin n c e) (DFin n' c' e') = true) \/
  (x = y /\ ~ dfin x).
Proof.
  intros x y (Wx & Wy & [E|(Fx & Fy & E)]).
  - subst y. destruct x as [n c e|a|]; [left|right|right]; try (split; [reflexivity|intros []]).
    exists n, c, e, n, c, e. repeat split; try apply Wx. apply dec_equal_fin_refl.
  - destruct x as [n c e|a|]; try contradiction. destruct y as [n' c' e'|a'|]; try contradiction.
    left. exists n, c, e, n', c', e'. repeat split; try apply Wx; try apply Wy. exact E.
Qed.

Lemma drel_fin : forall n c e n' c' e', 0 <= c < P34 -> 0 <= c' < P34 ->
  dec_equal (DFin n c e) (DFin n' c' e') = true -> drel (DFin n c e) (DFin n' c' e').
Proof. intros. repeat split; try lia. right. repeat split. assumption. Qed.

Lemma drel_trans : forall x y z, drel x y -> drel y z -> drel x z.
Proof.
  intros x y z Hxy Hyz.
  destruct (drel_cases _ _ Hxy) as [(n & c & e & n' & c' & e' & -> & -> & W & W' & E)|[-> N]]; [|exact Hyz].
  destruct (drel_cases _ _ Hyz) as [(n2 & c2 & e2 & n3 & c3 & e3 & E2 & -> & W2 & W3 & E3)|[<- N]]; [|exact Hxy].
  inversion E2; subst. apply drel_fin; try assumption.
  eapply dec_equal_trans; [| | |exact E|exact E3]; simpl; lia.
Qed.

Ltac dcases H :=
  let n := fresh "n" in let c := fresh "c" in let e := fresh "e" in
  let n' := fresh "n'" in let c' := fresh "c'" in let e' := fresh "e'" in
  let W := fresh "W" in let W' := fresh "W'" in let E := fresh "E" in let N := fresh "N" in
  destruct (drel_cases _ _ H) as [(n & c & e & n' & c' & e' & -> & -> & W & W' & E)|[<- N]].

Ltac nofin := match goal with N : ~ dfin (DFin _ _ _) |- _ => exfalso; apply N; exact I end.

Lemma fin_zero_iff : forall n c e n' c' e', 0 <= c -> 0 <= c' ->
  dec_equal (DFin n c e) (DFin n' c' e') = true -> (c = 0 <-> c' = 0) /\ (c <> 0 -> n = n').
Proof.
  intros n c e n' c' e' Hc Hc' E.
  destruct (fin_equal_inv _ _ _ _ _ _ Hc Hc' E) as [[-> ->]|(P & P' & <- & _)]; split; intros; try lia; try reflexivity.
Qed.

Lemma drel_is_nan : forall x y, drel x y -> is_nan x = is_nan y.
Proof. intros x y H. dcases H; reflexivity. Qed.
Lemma drel_is_inf : forall x y, drel x y -> is_inf x = is_inf y.
Proof. intros x y H. dcases H; reflexivity. Qed.
Lemma drel_is_zero : forall x y, drel x y -> is_zero x = is_zero y.
Proof.
  intros x y H. dcases H; [|reflexivity]. simpl.
  destruct (fin_zero_iff n c e n' c' e' ltac:(lia) ltac:(lia) E) as [Hz _].
  destruct (Z.eqb_spec c 0), (Z.eqb_spec c' 0); try reflexivity; lia.
Qed.
Lemma drel_sign : forall x y, drel x y -> is_zero x = false -> sign_of x = sign_of y.
Proof.
  intros x y H Hz0. dcases H; [|reflexivity]. simpl in *.
  destruct (fin_zero_iff n c e n' c' e' ltac:(lia) ltac:(lia) E) as [_ S].
  apply S. intros ->. discriminate.
Qed.

Lemma dec_neg_rel : forall x y, drel x y -> drel (dec_neg x) (dec_neg y).
Proof.
  intros x y H. dcases H.
  - simpl. apply drel_fin; try assumption.
    apply (dec_equal_scaled (Z.min e e')); try lia.
    apply (dec_equal_any_m (Z.min e e')) in E; try lia.
    unfold scaled in *. destruct n, n'; unfold sgn in *; simpl; lia.
  - apply drel_refl. destruct H as (W & _). destruct x; simpl in *; auto.
Qed.
Lemma dec_abs_rel : forall x y, drel x y -> drel (dec_abs x) (dec_abs y).
Proof.
  intros x y H. dcases H.
  - simpl. apply drel_fin; try assumption.
    apply (dec_equal_scaled (Z.min e e')); try lia.
    apply (dec_equal_any_m (Z.min e e')) in E; try lia.
    unfold scaled in *.
    pose proof (pow10_gt0 (e - Z.min e e') ltac:(lia)). pose proof (pow10_gt0 (e' - Z.min e e') ltac:(lia)).
    destruct n, n'; unfold sgn in *; simpl; nia.
  - apply drel_refl. destruct H as (W & _). destruct x; simpl in *; auto.
Qed.

(* comparisons *)
Lemma dec_cmp_rel : forall a a' b b', drel a a' -> drel b b' -> dec_cmp a b = dec_cmp a' b'.
Proof.
  intros a a' b b' Ha Hb. dcases Ha; dcases Hb.
  - rewrite (dec_equal_cmp_l (DFin n c e) (DFin n' c' e') (DFin n0 c0 e0)) by (simpl; first [lia|exact E]).
    rewrite (dec_cmp_flip (DFin n0 c0 e0)), (dec_cmp_flip (DFin n'0 c'0 e'0)). f_equal.
    apply dec_equal_cmp_l; simpl; try lia. exact E0.
  - destruct b; try nofin; reflexivity.
  - destruct a; try nofin; reflexivity.
  - reflexivity.
Qed.
Lemma dec_compare_rel : forall a a' b b', drel a a' -> drel b b' -> dec_compare a b = dec_compare a' b'.
Proof.
  intros. unfold dec_compare. rewrite (dec_cmp_rel a a' b b') by assumption.
  rewrite (drel_is_nan a a'), (drel_is_nan b b') by assumption. reflexivity.
Qed.

(* addition *)
Lemma dec_add_wf : forall a b, dec_wf a -> dec_wf b -> dec_wf (dec_add a b).
Proof.
  intros [n1 c1 e1|s1|] [n2 c2 e2|s2|] Wa Wb; simpl; try exact I.
  - destruct (_ =? 0); [simpl; pose proof P34_pos; lia|]. apply fit_wf. lia.
  - destruct (Bool.eqb s1 s2); exact I.
Qed.

Lemma dec_add_fin_rel : forall n1 c1 e1 n2 c2 e2 n1' c1' e1' n2' c2' e2',
  dec_equal (DFin n1 c1 e1) (DFin n1' c1' e1') = true ->
  dec_equal (DFin n2 c2 e2) (DFin n2' c2' e2') = true ->
  deq (dec_add (DFin n1 c1 e1) (DFin n2 c2 e2)) (dec_add (DFin n1' c1' e1') (DFin n2' c2' e2')).
Proof.
  intros n1 c1 e1 n2 c2 e2 n1' c1' e1' n2' c2' e2' E1 E2.
  set (m := Z.min (Z.min e1 e2) (Z.min e1' e2')).
  pose proof (scaled_add m n1 c1 e1 n2 c2 e2 ltac:(lia) ltac:(lia)) as H.
  pose proof (scaled_add m n1' c1' e1' n2' c2' e2' ltac:(lia) ltac:(lia)) as H'.
  apply (dec_equal_any_m m) in E1; try lia. apply (dec_equal_any_m m) in E2; try lia.
  unfold dec_add. unfold align in *. cbv beta iota zeta in *.
  set (s := sgn n1 (c1 * pow10 (e1 - Z.min e1 e2)) + sgn n2 (c2 * pow10 (e2 - Z.min e1 e2))) in *.
  set (s' := sgn n1' (c1' * pow10 (e1' - Z.min e1' e2')) + sgn n2' (c2' * pow10 (e2' - Z.min e1' e2'))) in *.
  assert (K : scaled m (s <? 0) (Z.abs s) (Z.min e1 e2) = scaled m (s' <? 0) (Z.abs s') (Z.min e1' e2')) by lia.
  destruct (Z.eqb_spec s 0) as [Hz|Hz]; destruct (Z.eqb_spec s' 0) as [Hz'|Hz'].
  - apply deq_zero.
  - exfalso. rewrite Hz in K. change (scaled m (0 <? 0) (Z.abs 0) (Z.min e1 e2)) with (0 * 10 ^ (Z.min e1 e2 - m)) in K.
    symmetry in K. rewrite Z.mul_0_l in K. apply scaled_zero_iff in K; lia.
  - exfalso. rewrite Hz' in K. change (scaled m (0 <? 0) (Z.abs 0) (Z.min e1' e2')) with (0 * 10 ^ (Z.min e1' e2' - m)) in K.
    rewrite Z.mul_0_l in K. apply scaled_zero_iff in K; lia.
  - apply (fit_value m); first [lia | exact K].
Qed.

Lemma dec_add_rel : forall a a' b b', drel a a' -> drel b b' -> drel (dec_add a b) (dec_add a' b').
Proof.
  intros a a' b b' Ha Hb.
  split; [apply dec_add_wf; [apply Ha|apply Hb]|]. split; [apply dec_add_wf; [apply Ha|apply Hb]|].
  dcases Ha; dcases Hb.
  - apply dec_add_fin_rel; assumption.
  - destruct b; try nofin; left; reflexivity.
  - destruct a; try nofin; left; reflexivity.
  - left; reflexivity.
Qed.

Lemma dec_sub_rel : forall a a' b b', drel a a' -> drel b b' -> drel (dec_sub a b) (dec_sub a' b').
Proof. intros. unfold dec_sub. apply dec_add_rel; [assumption|apply dec_neg_rel; assumption]. Qed.

(* multiplication *)
Lemma dec_mul_wf : forall a b, dec_wf a -> dec_wf b -> dec_wf (dec_mul a b).
Proof.
  intros [n1 c1 e1|s1|] [n2 c2 e2|s2|] Wa Wb; simpl; try exact I.
  - apply fit_wf. simpl in *. apply Z.mul_nonneg_nonneg; lia.
  - destruct (_ =? 0); exact I.
  - destruct (_ =? 0); exact I.
Qed.

Lemma dec_mul_rel : forall a a' b b', drel a a' -> drel b b' -> drel (dec_mul a b) (dec_mul a' b').
Proof.
  intros a a' b b' Ha Hb.
  split; [apply dec_mul_wf; [apply Ha|apply Hb]|]. split; [apply dec_mul_wf; [apply Ha|apply Hb]|].
  dcases Ha; dcases Hb.
  - unfold dec_mul.
    apply (fit_value (Z.min e e' + Z.min e0 e'0)); try lia; try (apply Z.mul_nonneg_nonneg; lia).
    rewrite !scaled_mul by lia.
    apply (dec_equal_any_m (Z.min e e')) in E; [|lia|lia].
    apply (dec_equal_any_m (Z.min e0 e'0)) in E0; [|lia|lia]. congruence.
  - destruct b; try nofin; try (left; reflexivity).
    simpl. destruct (fin_zero_iff n c e n' c' e' ltac:(lia) ltac:(lia) E) as [Hz S].
    destruct (Z.eqb_spec c 0), (Z.eqb_spec c' 0); try lia; try (left; reflexivity).
    rewrite (S ltac:(lia)). left; reflexivity.
  - destruct a; try nofin; try (left; reflexivity).
    simpl. destruct (fin_zero_iff n c e n' c' e' ltac:(lia) ltac:(lia) E) as [Hz S].
    destruct (Z.eqb_spec c 0), (Z.eqb_spec c' 0); try lia; try (left; reflexivity).
    rewrite (S ltac:(lia)). left; reflexivity.
  - left; reflexivity.
Qed.

(* ---- division ---- *)
Lemma digits_scale : forall c j, 0 < c -> 0 <= j -> digits (c * 10 ^ j) = digits c + j.
Proof.
  intros c j Hc Hj. pose proof (digits_spec c Hc) as [A B]. pose proof (digits_pos c Hc).
  pose proof (pow10_gt0 j Hj).
  apply digits_unique; [nia|].
  replace (digits c + j - 1) with ((digits c - 1) + j) by lia.
  rewrite !Z.pow_add_r by lia. nia.
Qed.

Lemma digits_le34 : forall c, 0 <= c < P34 -> digits c <= 34.
Proof. intros. apply digits_le; [exact H|lia]. Qed.

Lemma quo_scale_l : forall n1 c1 e1 n2 c2 e2 j, 0 < c1 -> c1 * 10 ^ j < P34 -> 0 < c2 -> 0 <= j ->
  dec_quo (DFin n1 (c1 * 10 ^ j) (e1 - j)) (DFin n2 c2 e2) = dec_quo (DFin n1 c1 e1) (DFin n2 c2 e2).
Proof.
  intros n1 c1 e1 n2 c2 e2 j H1 Hb H2 Hj. unfold dec_quo.
  pose proof (pow10_gt0 j Hj) as Hp.
  destruct (Z.eqb_spec c2 0); [lia|]. destruct (Z.eqb_spec c1 0); [lia|].
  destruct (Z.eqb_spec (c1 * 10 ^ j) 0); [nia|].
  cbv zeta. rewrite digits_scale by lia.
  pose proof (digits_le34 (c1 * 10 ^ j) ltac:(nia)) as D. rewrite digits_scale in D by lia.
  pose proof (digits_pos c2 H2). unfold prec34, pow10.
  set (k' := 34 + 3 + digits c2 - (digits c1 + j)).
  replace (34 + 3 + digits c2 - digits c1) with (k' + j) by (unfold k'; lia).
  rewrite !Z.max_r by (unfold k'; lia).
  replace (c1 * 10 ^ j * 10 ^ k') with (c1 * 10 ^ (k' + j)).
  2:{ rewrite Z.pow_add_r by (unfold k'; lia). ring. }
  replace (e1 - j - e2 - k') with (e1 - e2 - (k' + j)) by lia. reflexivity.
Qed.

Lemma quo_scale_r : forall n1 c1 e1 n2 c2 e2 j, 0 < c1 < P34 -> 0 < c2 -> 0 <= j ->
  dec_quo (DFin n1 c1 e1) (DFin n2 (c2 * 10 ^ j) (e2 - j)) = dec_quo (DFin n1 c1 e1) (DFin n2 c2 e2).
Proof.
  intros n1 c1 e1 n2 c2 e2 j H1 H2 Hj. unfold dec_quo.
  pose proof (pow10_gt0 j Hj) as Hp.
  destruct (Z.eqb_spec c2 0); [lia|]. destruct (Z.eqb_spec c1 0); [lia|].
  destruct (Z.eqb_spec (c2 * 10 ^ j) 0); [nia|].
  cbv zeta. rewrite digits_scale by lia.
  pose proof (digits_le34 c1 ltac:(lia)) as D.
  pose proof (digits_pos c2 H2). unfold prec34, pow10.
  set (k := 34 + 3 + digits c2 - digits c1).
  replace (34 + 3 + (digits c2 + j) - digits c1) with (k + j) by (unfold k; lia).
  rewrite !Z.max_r by (unfold k; lia).
  rewrite Z.pow_add_r by (unfold k; lia). rewrite Z.mul_assoc.
  rewrite Z.div_mul_cancel_r by lia. rewrite Z.mul_mod_distr_r by lia.
  replace (e1 - (e2 - j) - (k + j)) with (e1 - e2 - k) by lia.
  set (r := (c1 * 10 ^ k) mod c2).
  destruct (Z.eqb_spec (r * 10 ^ j) 0), (Z.eqb_spec r 0); try nia; reflexivity.
Qed.

(* equal up to the sign of an infinity (x / -0 vs x / 0) *)
Definition drelw (x y : dec) : Prop := drel x y \/ (is_inf x = true /\ is_inf y = true).

Lemma dec_quo_wf : forall a b, dec_wf a -> dec_wf b -> dec_wf (dec_quo a b).
Proof.
  intros [n1 c1 e1|s1|] [n2 c2 e2|s2|] Wa Wb; unfold dec_quo; try exact I; pose proof P34_pos as HP.
  - cbn [dec_wf] in Wa, Wb.
    destruct (Z.eqb_spec c2 0); [destruct (c1 =? 0); exact I|].
    destruct (Z.eqb_spec c1 0); [cbn [dec_wf]; lia|]. cbv zeta.
    assert (0 <= c1 * pow10 (Z.max 0 (prec34 + 3 + digits c2 - digits c1)) / c2).
    { apply Z.div_pos; [|lia]. apply Z.mul_nonneg_nonneg; [lia|]. apply Z.pow_nonneg; lia. }
    destruct (_ =? 0); apply fit_wf; lia.
  - cbn [dec_wf]. lia.
Qed.

Lemma fin_scale_cases : forall n c e n' c' e', 0 <= c < P34 -> 0 <= c' < P34 ->
  dec_equal (DFin n c e) (DFin n' c' e') = true ->
  (c = 0 /\ c' = 0) \/
  (0 < c /\ 0 < c' /\ n = n' /\
   ((exists j, 0 <= j /\ c = c' * 10 ^ j /\ e = e' - j) \/ (exists j, 0 <= j /\ c' = c * 10 ^ j /\ e' = e - j))).
Proof.
  intros n c e n' c' e' W W' E.
  destruct (fin_equal_inv n c e n' c' e' ltac:(lia) ltac:(lia) E) as [Z0|(P & P' & S & [[L Ec]|[L Ec]])]; [left; exact Z0|right..];
    repeat split; try assumption.
  - left. exists (e' - e). repeat split; try lia.
  - right. exists (e - e'). repeat split; try lia.
Qed.

Lemma dec_quo_rel : forall a a' b b', drel a a' -> drel b b' -> drelw (dec_quo a b) (dec_quo a' b').
Proof.
  intros a a' b b' Ha Hb.
  assert (Wq : dec_wf (dec_quo a b)) by (apply dec_quo_wf; [apply Ha|apply Hb]).
  assert (Wq' : dec_wf (dec_quo a' b')) by (apply dec_quo_wf; [apply Ha|apply Hb]).
  dcases Ha; dcases Hb.
  - destruct (fin_scale_cases n c e n' c' e' W W' E) as [[-> ->]|(P & P' & <- & SA)];
    destruct (fin_scale_cases n0 c0 e0 n'0 c'0 e'0 W0 W'0 E0) as [[-> ->]|(P0 & P0' & <- & SB)].
    + left. apply drel_refl. exact I.
    + left. split; [exact Wq|]. split; [exact Wq'|].
      unfold dec_quo. destruct (Z.eqb_spec c0 0); [lia|]. destruct (Z.eqb_spec c'0 0); [lia|].
      simpl. apply deq_zero.
    + right. unfold dec_quo. simpl. destruct (Z.eqb_spec c 0); [lia|]. destruct (Z.eqb_spec c' 0); [lia|].
      split; reflexivity.
    + left. split; [exact Wq|]. split; [exact Wq'|]. left.
      destruct SA as [(j & Hj & -> & ->)|(j & Hj & -> & ->)]; destruct SB as [(i & Hi & -> & ->)|(i & Hi & -> & ->)].
      * rewrite quo_scale_l by lia. rewrite quo_scale_r by lia. reflexivity.
      * rewrite quo_scale_l by lia. rewrite quo_scale_r by lia. reflexivity.
      * rewrite quo_scale_r by lia. rewrite quo_scale_l by lia. reflexivity.
      * rewrite quo_scale_l by lia. rewrite quo_scale_r by lia. reflexivity.
  - destruct b; try nofin; left.
    + split; [exact Wq|split; [exact Wq'|]]. simpl. apply deq_zero.
    + apply drel_refl; exact I.
  - destruct a; try nofin.
    + right. split; reflexivity.
    + left. apply drel_refl. exact I.
  - left. apply drel_refl. exact Wq.
Qed.

(* ---- QuoRem ---- *)
Lemma scaled_abs_eq : forall n c e n' c' e' m, 0 <= c -> 0 <= c' -> m <= e -> m <= e' ->
  dec_equal (DFin n c e) (DFin n' c' e') = true -> c * 10 ^ (e - m) = c' * 10 ^ (e' - m).
Proof.
  intros n c e n' c' e' m Hc Hc' L L' E. apply (dec_equal_any_m m) in E; [|lia|lia]. unfold scaled in E.
  pose proof (pow10_gt0 (e - m) ltac:(lia)). pose proof (pow10_gt0 (e' - m) ltac:(lia)).
  assert (0 <= c * 10 ^ (e - m)) by (apply Z.mul_nonneg_nonneg; lia).
  assert (0 <= c' * 10 ^ (e' - m)) by (apply Z.mul_nonneg_nonneg; lia).
  destruct n, n'; unfold sgn in E; lia.
Qed.

Lemma quorem_core : forall a b a' b' t, 0 < t -> a = a' * t -> b = b' * t -> 0 < b' ->
  a / b = a' / b' /\ a mod b = (a' mod b') * t.
Proof.
  intros a b a' b' t Ht -> -> Hb. split.
  - apply Z.div_mul_cancel_r; lia.
  - apply Z.mul_mod_distr_r; lia.
Qed.

Lemma quorem_fin_dir : forall n1 c1 e1 n2 c2 e2 n1' c1' e1' n2' c2' e2',
  0 <= c1 -> 0 <= c1' -> 0 < c2 -> 0 < c2' ->
  dec_equal (DFin n1 c1 e1) (DFin n1' c1' e1') = true ->
  dec_equal (DFin n2 c2 e2) (DFin n2' c2' e2') = true ->
  Z.min e1 e2 <= Z.min e1' e2' ->
  deq (fst (dec_quorem (DFin n1 c1 e1) (DFin n2 c2 e2))) (fst (dec_quorem (DFin n1' c1' e1') (DFin n2' c2' e2'))) /\
  deq (snd (dec_quorem (DFin n1 c1 e1) (DFin n2 c2 e2))) (snd (dec_quorem (DFin n1' c1' e1') (DFin n2' c2' e2'))).
Proof.
  intros n1 c1 e1 n2 c2 e2 n1' c1' e1' n2' c2' e2' H1 H1' H2 H2' E1 E2 L.
  unfold dec_quorem, align. destruct (Z.eqb_spec c2 0); [lia|]. destruct (Z.eqb_spec c2' 0); [lia|].
  cbv beta iota zeta. cbn [fst snd]. unfold pow10.
  set (e := Z.min e1 e2) in *. set (e' := Z.min e1' e2') in *.
  set (t := 10 ^ (e' - e)). assert (Ht : 0 < t) by (apply pow10_gt0; lia).
  set (A := c1 * 10 ^ (e1 - e)). set (B := c2 * 10 ^ (e2 - e)).
  set (A' := c1' * 10 ^ (e1' - e')). set (B' := c2' * 10 ^ (e2' - e')).
  assert (HA : A = A' * t).
  { unfold A, A', t. rewrite <- Z.mul_assoc, <- Z.pow_add_r by lia.
    replace (e1' - e' + (e' - e)) with (e1' - e) by lia.
    apply (scaled_abs_eq n1 c1 e1 n1' c1' e1' e); try lia. exact E1. }
  assert (HB : B = B' * t).
  { unfold B, B', t. rewrite <- Z.mul_assoc, <- Z.pow_add_r by lia.
    replace (e2' - e' + (e' - e)) with (e2' - e) by lia.
    apply (scaled_abs_eq n2 c2 e2 n2' c2' e2' e); try lia. exact E2. }
  assert (HB' : 0 < B') by (apply Z.mul_pos_pos; [lia|apply pow10_gt0; lia]).
  destruct (quorem_core A B A' B' t Ht HA HB HB') as [EQ ER]. rewrite EQ, ER.
  destruct (fin_zero_iff n2 c2 e2 n2' c2' e2' ltac:(lia) ltac:(lia) E2) as [_ S2]. rewrite <- (S2 ltac:(lia)).
  destruct (fin_zero_iff n1 c1 e1 n1' c1' e1' H1 H1' E1) as [Z1 S1].
  destruct (Z.eq_dec c1 0) as [C|C].
  - assert (C' : c1' = 0) by tauto. unfold A'. rewrite C'. rewrite Z.mul_0_l, Z.div_0_l, Z.mod_0_l by lia.
    rewrite Z.mul_0_l, !fit_zero. split; apply deq_zero.
  - rewrite <- (S1 C). split; [left; reflexivity|].
    pose proof (Z.mod_pos_bound A' B' HB').
    apply (fit_value e); try lia; try nia.
    unfold scaled. rewrite Z.sub_diag. fold t. change (10 ^ 0) with 1.
    destruct n1; unfold sgn; ring.
Qed.

Lemma dec_quorem_wf : forall a b, dec_wf a -> dec_wf b ->
  dec_wf (fst (dec_quorem a b)) /\ dec_wf (snd (dec_quorem a b)).
Proof.
  intros [n1 c1 e1|s1|] [n2 c2 e2|s2|] Wa Wb; unfold dec_quorem; cbn [fst snd]; try (split; exact I);
    pose proof P34_pos as HP.
  - cbn [dec_wf] in Wa, Wb.
    destruct (Z.eqb_spec c2 0); [destruct (c1 =? 0); split; exact I|].
    unfold align, pow10. cbv beta iota zeta. cbn [fst snd].
    assert (0 < c2 * 10 ^ (e2 - Z.min e1 e2)) by (apply Z.mul_pos_pos; [lia|apply pow10_gt0; lia]).
    assert (0 <= c1 * 10 ^ (e1 - Z.min e1 e2)) by (apply Z.mul_nonneg_nonneg; [lia|apply Z.pow_nonneg; lia]).
    split; apply fit_wf.
    + apply Z.div_pos; lia.
    + apply Z.mod_pos_bound; lia.
  - split; [cbn [dec_wf]; lia|exact Wa].
Qed.

Lemma dec_quorem_rel : forall a a' b b', drel a a' -> drel b b' ->
  drelw (fst (dec_quorem a b)) (fst (dec_quorem a' b')) /\
  drel (snd (dec_quorem a b)) (snd (dec_quorem a' b')).
Proof.
  intros a a' b b' Ha Hb.
  destruct (dec_quorem_wf a b) as [W1 W2]; [apply Ha|apply Hb|].
  destruct (dec_quorem_wf a' b') as [W1' W2']; [apply Ha|apply Hb|].
  dcases Ha; dcases Hb.
  - destruct (fin_zero_iff n0 c0 e0 n'0 c'0 e'0 ltac:(lia) ltac:(lia) E0) as [Z2 _].
    destruct (Z.eq_dec c0 0) as [C|C].
    + assert (C' : c'0 = 0) by tauto. subst c0 c'0. unfold dec_quorem. cbn [Z.eqb].
      destruct (fin_zero_iff n c e n' c' e' ltac:(lia) ltac:(lia) E) as [Z1 _].
      destruct (Z.eqb_spec c 0), (Z.eqb_spec c' 0); try (exfalso; tauto); cbn [fst snd].
      * split; [left|]; apply drel_refl; exact I.
      * split; [right; split; reflexivity|apply drel_refl; exact I].
    + assert (C' : c'0 <> 0) by tauto.
      destruct (Z_le_gt_dec (Z.min e e0) (Z.min e' e'0)) as [L|L].
      * destruct (quorem_fin_dir n c e n0 c0 e0 n' c' e' n'0 c'0 e'0) as [Q R]; try lia; try assumption.
        split; [left|]; repeat split; assumption.
      * destruct (quorem_fin_dir n' c' e' n'0 c'0 e'0 n c e n0 c0 e0) as [Q R]; try lia;
          try (rewrite dec_equal_sym; assumption).
        split; [left|]; repeat split; try assumption; apply deq_sym; assumption.
  - destruct b; try nofin; unfold dec_quorem; cbn [fst snd].
    + split; [left; split; [exact W1|split; [exact W1'|apply deq_zero]]|exact Ha].
    + split; [left|]; apply drel_refl; exact I.
  - destruct a; try nofin; unfold dec_quorem; cbn [fst snd].
    + split; [right; split; reflexivity|apply drel_refl; exact I].
    + split; [left|]; apply drel_refl; exact I.
  - split; [left|]; apply drel_refl; assumption.
Qed.

Lemma quorem_q_fin : forall x y, dec_wf y ->
  is_inf (fst (dec_quorem x y)) = false -> is_nan (fst (dec_quorem x y)) = false -> is_zero y = false.
Proof.
  intros [n1 c1 e1|s1|] [n2 c2 e2|s2|] W; unfold dec_quorem; cbn [fst snd is_zero]; try reflexivity;
    try discriminate.
  destruct (Z.eqb_spec c2 0); [|intros; reflexivity]. destruct (c1 =? 0); discriminate.
Qed.

(* ---- floor / ceil ---- *)
Definition fc (up : bool) (n : bool) (c e : Z) : dec :=
  if 0 <=? e then DFin n c e else
  let p := pow10 (- e) in
  DFin n (if up && negb (c mod p =? 0) then c / p + 1 else c / p) 0.

Lemma dec_floor_fc : forall n c e, dec_floor (DFin n c e) = fc n n c e.
Proof.
  intros. unfold dec_floor, fc. destruct (0 <=? e); [reflexivity|]. cbv zeta.
  destruct n; [|reflexivity]. destruct (_ =? 0); reflexivity.
Qed.
Lemma dec_ceil_fc : forall n c e, dec_ceil (DFin n c e) = fc (negb n) n c e.
Proof.
  intros. unfold dec_ceil, fc. destruct (0 <=? e); [reflexivity|]. cbv zeta.
  destruct n; [reflexivity|]. destruct (_ =? 0); reflexivity.
Qed.

Lemma fc_zero : forall up n e, exists e', fc up n 0 e = DFin n 0 e'.
Proof.
  intros. unfold fc. destruct (0 <=? e); [eauto|]. cbv zeta.
  rewrite Zmod_0_l. rewrite andb_false_r. rewrite Zdiv_0_l. eauto.
Qed.

Lemma fc_wf : forall up n c e, 0 <= c < P34 -> dec_wf (fc up n c e).
Proof.
  intros up n c e W. unfold fc. destruct (Z.leb_spec 0 e); [exact W|]. cbv zeta. cbn [dec_wf]. unfold pow10.
  assert (0 <= c / 10 ^ (- e)) by (apply Z.div_pos; [lia|apply pow10_gt0; lia]).
  assert (c / 10 ^ (- e) <= c / 10 ^ 1).
  { apply Z.div_le_compat_l; [lia|]. split; [reflexivity|]. apply Z.pow_le_mono_r; lia. }
  change (10 ^ 1) with 10 in H1.
  assert (c / 10 <= P34 / 10) by (apply Z.div_le_mono; lia).
  assert (P34 / 10 + 2 < P34) by reflexivity.
  destruct (_ && _); lia.
Qed.

Lemma fc_scale : forall up n c e j, 0 < c -> 0 <= j ->
  deq (fc up n (c * 10 ^ j) (e - j)) (fc up n c e).
Proof.
  intros up n c e j Hc Hj. unfold fc, pow10. cbv zeta.
  pose proof (pow10_gt0 j Hj) as Hp.
  destruct (Z.leb_spec 0 (e - j)) as [A|A].
  - destruct (Z.leb_spec 0 e); [|lia]. right. repeat split.
    apply (dec_equal_scaled (e - j)); try lia. unfold scaled.
    rewrite Z.sub_diag. replace (e - (e - j)) with j by lia. change (10 ^ 0) with 1.
    destruct n; unfold sgn; ring.
  - destruct (Z.leb_spec 0 e) as [B|B].
    + replace (10 ^ j) with (10 ^ e * 10 ^ (- (e - j))).
      2:{ rewrite <- Z.pow_add_r by lia. f_equal. lia. }
      rewrite Z.mul_assoc, Z.mod_mul, Z.div_mul by (pose proof (pow10_gt0 (- (e - j)) ltac:(lia)); lia).
      rewrite Z.eqb_refl, andb_false_r. right. repeat split.
      apply (dec_equal_scaled 0); try lia. unfold scaled. rewrite !Z.sub_0_r. change (10 ^ 0) with 1.
      destruct n; unfold sgn; ring.
    + replace (- (e - j)) with (- e + j) by lia. rewrite Z.pow_add_r by lia.
      pose proof (pow10_gt0 (- e) ltac:(lia)) as Hq.
      rewrite Z.div_mul_cancel_r by lia. rewrite Z.mul_mod_distr_r by lia.
      set (r := c mod 10 ^ (- e)).
      destruct (Z.eqb_spec (r * 10 ^ j) 0), (Z.eqb_spec r 0); try nia; left; reflexivity.
Qed.

Lemma fc_rel : forall up n c e n' c' e', 0 <= c < P34 -> 0 <= c' < P34 ->
  dec_equal (DFin n c e) (DFin n' c' e') = true -> (c <> 0 -> n = n' -> True) ->
  forall up', (c <> 0 -> up = up') ->
  drel (fc up n c e) (fc up' n' c' e').
Proof.
  intros up n c e n' c' e' W W' E _ up' Hup.
  split; [apply fc_wf; exact W|]. split; [apply fc_wf; exact W'|].
  destruct (fin_scale_cases n c e n' c' e' W W' E) as [[-> ->]|(P & P' & <- & S)].
  - destruct (fc_zero up n e) as [x ->]. destruct (fc_zero up' n' e') as [y ->]. apply deq_zero.
  - rewrite <- (Hup ltac:(lia)).
    destruct S as [(j & Hj & -> & ->)|(j & Hj & -> & ->)].
    + apply fc_scale; lia.
    + apply deq_sym. apply fc_scale; lia.
Qed.

Lemma dec_floor_rel : forall x y, drel x y -> drel (dec_floor x) (dec_floor y).
Proof.
  intros x y H. dcases H.
  - rewrite !dec_floor_fc. apply fc_rel; try assumption; [trivial|].
    intros C. apply (fin_zero_iff n c e n' c' e'); try lia. exact E.
  - destruct x; try nofin; apply drel_refl; exact I.
Qed.
Lemma dec_ceil_rel : forall x y, drel x y -> drel (dec_ceil x) (dec_ceil y).
Proof.
  intros x y H. dcases H.
  - rewrite !dec_ceil_fc. apply fc_rel; try assumption; [trivial|].
    intros C. f_equal. apply (fin_zero_iff n c e n' c' e'); try lia. exact E.
  - destruct x; try nofin; apply drel_refl; exact I.
Qed.

(* ---- conversion to int64 ---- *)
Definition ival (n : bool) (c e : Z) : option Z :=
  if 0 <=? e then Some (sgn n (c * 10 ^ e))
  else if c mod 10 ^ (- e) =? 0 then Some (sgn n (c / 10 ^ (- e))) else None.

Definition int_res (o : option Z) : outcome (Z * bool * bool) :=
  match o with
  | Some z => if in_int z then Ok (z, true, true) else Ok (0, true, false)
  | None => Ok (0, true, false)
  end.

Definition chk (z : Z) : outcome (Z * bool) :=
  if z <? -9223372036854775808 then Ok (-9223372036854775808, false)
  else if z >? 9223372036854775807 then Ok (9223372036854775807, false)
  else Ok (z, true).

Lemma chk_res : forall z,
  (do r <- chk z; let '(i, ok) := r in if ok then Ok (i, true, true) else Ok (0, true, false)) = int_res (Some z).
Proof.
  intros z. unfold chk, int_res, in_int, MinInt, MaxInt.
  destruct (Z.ltb_spec z (-9223372036854775808)), (Z.gtb_spec z 9223372036854775807),
    (Z.leb_spec (-9223372036854775808) z), (Z.leb_spec z 9223372036854775807); cbn [bind andb]; try reflexivity; lia.
Qed.

Lemma dec_int64_chk : forall n c e, dec_int64 (DFin n c e) =
  chk (sgn n (if 0 <=? e then (if e >? 40 then (if c =? 0 then 0 else pow10 60) else c * pow10 e)
              else (if e <? -80 then 0 else c / pow10 (- e)))).
Proof. reflexivity. Qed.

Lemma decimal_to_int_spec : forall n c e, 0 <= c < P34 ->
  decimal_to_int (DFin n c e) = int_res (ival n c e).
Proof.
  intros n c e W. unfold decimal_to_int. cbn [is_nan is_inf orb]. rewrite orb_false_r.
  unfold dec_is_integral, ival. rewrite dec_int64_chk. unfold pow10.
  destruct (Z.leb_spec 0 e) as [A|A].
  - cbn [negb]. destruct (Z.gtb_spec e 40) as [B|B].
    + destruct (Z.eqb_spec c 0) as [->|C].
      * rewrite chk_res. rewrite Z.mul_0_l. reflexivity.
      * assert (10 ^ 41 <= 10 ^ e) by (apply Z.pow_le_mono_r; lia).
        assert (10 ^ 41 <= c * 10 ^ e) by nia.
        assert (X : 10 ^ 41 = 100000000000000000000000000000000000000000) by reflexivity.
        rewrite chk_res. unfold int_res, in_int, MinInt, MaxInt.
        destruct n; unfold sgn.
        -- change (- 10 ^ 60) with (-1000000000000000000000000000000000000000000000000000000000000).
           destruct (Z.leb_spec (-9223372036854775808) (- (c * 10 ^ e))); [lia|].
           reflexivity.
        -- change (10 ^ 60) with (1000000000000000000000000000000000000000000000000000000000000).
           destruct (Z.leb_spec (c * 10 ^ e) 9223372036854775807); [lia|].
           destruct (-9223372036854775808 <=? c * 10 ^ e); reflexivity.
    + apply chk_res.
  - destruct (Z.ltb_spec e (-80)) as [B|B].
    + destruct (Z.eqb_spec c 0) as [->|C].
      * cbn [negb]. rewrite chk_res. rewrite Zmod_0_l, Zdiv_0_l. reflexivity.
      * cbn [negb]. assert (P34 <= 10 ^ (- e)) by (unfold P34; apply Z.pow_le_mono_r; lia).
        rewrite Z.mod_small by lia. destruct (Z.eqb_spec c 0); [lia|]. reflexivity.
    + destruct (c mod 10 ^ (- e) =? 0); cbn [negb]; [apply chk_res|reflexivity].
Qed.

Lemma ival_zero : forall n e, ival n 0 e = Some 0.
Proof.
  intros. unfold ival. destruct (0 <=? e).
  - rewrite Z.mul_0_l. destruct n; reflexivity.
  - rewrite Zmod_0_l, Zdiv_0_l. destruct n; reflexivity.
Qed.

Lemma ival_scale : forall n c e j, 0 < c -> 0 <= j -> ival n (c * 10 ^ j) (e - j) = ival n c e.
Proof.
  intros n c e j Hc Hj. unfold ival. pose proof (pow10_gt0 j Hj) as Hp.
  destruct (Z.leb_spec 0 (e - j)) as [A|A].
  - destruct (Z.leb_spec 0 e); [|lia]. f_equal. f_equal.
    rewrite <- Z.mul_assoc, <- Z.pow_add_r by lia. f_equal. f_equal. lia.
  - destruct (Z.leb_spec 0 e) as [B|B].
    + replace (10 ^ j) with (10 ^ e * 10 ^ (- (e - j))).
      2:{ rewrite <- Z.pow_add_r by lia. f_equal. lia. }
      rewrite Z.mul_assoc, Z.mod_mul, Z.div_mul by (pose proof (pow10_gt0 (- (e - j)) ltac:(lia)); lia).
      rewrite Z.eqb_refl. reflexivity.
    + replace (- (e - j)) with (- e + j) by lia. rewrite Z.pow_add_r by lia.
      pose proof (pow10_gt0 (- e) ltac:(lia)) as Hq.
      rewrite Z.div_mul_cancel_r by lia. rewrite Z.mul_mod_distr_r by lia.
      set (r := c mod 10 ^ (- e)).
      destruct (Z.eqb_spec (r * 10 ^ j) 0), (Z.eqb_spec r 0); try nia; reflexivity.
Qed.

Lemma decimal_to_int_rel : forall x y, drel x y -> decimal_to_int x = decimal_to_int y.
Proof.
  intros x y H. dcases H; [|reflexivity].
  rewrite !decimal_to_int_spec by assumption. f_equal.
  destruct (fin_scale_cases n c e n' c' e' W W' E) as [[-> ->]|(P & P' & <- & S)].
  - rewrite !ival_zero. reflexivity.
  - destruct S as [(j & Hj & -> & ->)|(j & Hj & -> & ->)].
    + apply ival_scale; lia.
    + symmetry. apply ival_scale; lia.
Qed.

(* never a panic, always "is a number" *)
Lemma decimal_to_int_shape : forall d, dec_wf d ->
  (exists i, decimal_to_int d = Ok (i, true, true)) \/ decimal_to_int d = Ok (0, true, false).
Proof.
  intros [n c e|s|] W.
  - rewrite decimal_to_int_spec by exact W. unfold int_res. destruct (ival n c e) as [z|]; [|right; reflexivity].
    destruct (in_int z); [left; eauto|right; reflexivity].
  - right. destruct s; reflexivity.
  - right. reflexivity.
Qed.

(* integers *)
Lemma dec_of_Z_exact : forall z, Z.abs z < P34 -> dec_of_Z z = DFin (z <? 0) (Z.abs z) 0.
Proof.
  intros z H. unfold dec_of_Z. apply fit_exact; [lia| |unfold emin, emax; lia].
  apply digits_le34. lia.
Qed.

Lemma decimal_to_int_of_Z : forall z, Z.abs z < P34 ->
  decimal_to_int (dec_of_Z z) = int_res (Some z).
Proof.
  intros z H. rewrite dec_of_Z_exact by exact H. rewrite decimal_to_int_spec by lia.
  f_equal. unfold ival. cbn [Z.leb Z.compare]. change (10 ^ 0) with 1. rewrite Z.mul_1_r.
  f_equal. unfold sgn. destruct (Z.ltb_spec z 0); lia.
Qed.

Definition kind_min (k : intkind) : Z :=
  match k with
  | I8 => -128 | I16 => -32768 | I32 => -2147483648 | I64 | IInt => MinInt
  | _ => 0
  end.

Lemma to_int_NInt : forall k z, kind_min k <= z <= kind_max k ->
  to_int (VNum (NInt k z)) = decimal_to_int (dec_of_Z z).
Proof.
  intros k z H. assert (B : MinInt <= z <= 18446744073709551615).
  { destruct k; unfold kind_min, kind_max, MinInt, MaxInt in *; lia. }
  rewrite decimal_to_int_of_Z.
  2:{ unfold P34. unfold MinInt in B. assert (18446744073709551615 < 10 ^ 34) by reflexivity. lia. }
  cbn [to_int]. unfold int_res, in_int. unfold MinInt, MaxInt in *.
  destruct (Z.gtb_spec z 9223372036854775807), (Z.leb_spec (-9223372036854775808) z),
    (Z.leb_spec z 9223372036854775807); cbn [andb]; try reflexivity; lia.
Qed.

(* json.Number: the strconv.ParseInt fast path agrees with the decimal path *)
Lemma parse_int64_alt : forall s, parse_int64 s =
  let '(neg, d) := match s with
                   | b :: r => if b =? 45 then (true, r) else if b =? 43 then (false, r) else (false, s)
                   | [] => (false, s)
                   end in
  let '(v, n, r) := take_digits d 0 0 in
  match r with
  | [] => if n =? 0 then None else
          let z := if neg then - v else v in if in_int z then Some z else None
  | _ => None
  end.
Proof.
  intros s. destruct s as [|[|p|p] r]; try reflexivity.
  do 6 (destruct p as [p|p|]; try reflexivity).
Qed.

Lemma take_digits_all_head : forall d v n, take_digits d 0 0 = (v, n, []) -> n <> 0 ->
  exists b d', d = b :: d' /\ is_digit b = true.
Proof.
  intros [|b d'] v n T Hn.
  - simpl in T. inversion T. lia.
  - exists b, d'. split; [reflexivity|]. cbn [take_digits] in T. destruct (is_digit b); [reflexivity|].
    inversion T.
Qed.

Lemma parse_body_int : forall neg d v n, take_digits d 0 0 = (v, n, []) -> n <> 0 ->
  v <= 9223372036854775808 ->
  parse_dec_body neg d = Some (DFin neg v 0) /\ 0 <= v.
Proof.
  intros neg d v n T Hn Hv.
  destruct (take_digits_all_head d v n T Hn) as (b & d' & -> & D).
  assert (H0 : 0 <= v) by (eapply take_digits_nonneg; [|exact T]; lia).
  split; [|exact H0].
  rewrite (parse_dec_body_plain neg b d' v n [] v 0 n D T eq_refl Hn).
  change (- 0) with 0. rewrite fit_exact; [reflexivity|exact H0| |unfold emin, emax; lia].
  apply digits_le34. unfold P34. assert (9223372036854775808 < 10 ^ 34) by reflexivity. lia.
Qed.

Lemma parse_int64_no_us : forall t i, parse_int64 t = Some i -> parse_dec t = parse_dec_plain t.
Proof.
  intros t i H. unfold parse_dec. rewrite strip_us_id; [reflexivity|].
  rewrite parse_int64_alt in H. fold not_us.
  destruct t as [|b r]; [reflexivity|].
  destruct (Z.eqb_spec b 45) as [->|N45].
  - destruct (take_digits r 0 0) as [[v n] rest] eqn:T. destruct rest; [|discriminate].
    simpl. eapply take_digits_no_us; [exact T|reflexivity].
  - destruct (Z.eqb_spec b 43) as [->|N43].
    + destruct (take_digits r 0 0) as [[v n] rest] eqn:T. destruct rest; [|discriminate].
      simpl. eapply take_digits_no_us; [exact T|reflexivity].
    + destruct (take_digits (b :: r) 0 0) as [[v n] rest] eqn:T. destruct rest; [|discriminate].
      eapply take_digits_no_us; [exact T|reflexivity].
Qed.

Lemma parse_int64_dec : forall t i, parse_int64 t = Some i ->
  exists n v, parse_dec t = Some (DFin n v 0) /\ 0 <= v < P34 /\ sgn n v = i /\ in_int i = true.
Proof.
  intros t i Hpi. rewrite (parse_int64_no_us t i Hpi). revert Hpi. rewrite parse_int64_alt, parse_dec_alt.
  assert (HB : 9223372036854775808 < P34) by reflexivity.
  destruct t as [|b r]; [simpl; discriminate|].
  destruct (Z.eqb_spec b 45) as [->|N45].
  - change (45 =? 43) with false. cbv iota.
    destruct (take_digits r 0 0) as [[v n] rest] eqn:T. destruct rest; [|discriminate].
    destruct (Z.eqb_spec n 0); [discriminate|]. cbv zeta.
    destruct (in_int (- v)) eqn:I; [|discriminate]. intros H; inversion H; subst i.
    assert (Hv : v <= 9223372036854775808).
    { unfold in_int, MinInt in I. apply andb_true_iff in I as [I _]. apply Z.leb_le in I. lia. }
    destruct (parse_body_int true r v n T n0 Hv) as [P H0].
    destruct r; [simpl in T; inversion T; lia|].
    exists true, v. repeat split; try assumption; try lia.
  - destruct (Z.eqb_spec b 43) as [->|N43].
    + destruct (take_digits r 0 0) as [[v n] rest] eqn:T. destruct rest; [|discriminate].
      destruct (Z.eqb_spec n 0); [discriminate|]. cbv zeta.
      destruct (in_int v) eqn:I; [|discriminate]. intros H; inversion H; subst i.
      assert (Hv : v <= 9223372036854775808).
      { unfold in_int, MaxInt in I. apply andb_true_iff in I as [_ I]. apply Z.leb_le in I. lia. }
      destruct (parse_body_int false r v n T n0 Hv) as [P H0].
      destruct r; [simpl in T; inversion T; lia|].
      exists false, v. repeat split; try assumption; try lia.
    + destruct (take_digits (b :: r) 0 0) as [[v n] rest] eqn:T. destruct rest; [|discriminate].
      destruct (Z.eqb_spec n 0); [discriminate|]. cbv zeta.
      destruct (in_int v) eqn:I; [|discriminate]. intros H; inversion H; subst i.
      assert (Hv : v <= 9223372036854775808).
      { unfold in_int, MaxInt in I. apply andb_true_iff in I as [_ I]. apply Z.leb_le in I. lia. }
      destruct (parse_body_int false (b :: r) v n T n0 Hv) as [P H0].
      exists false, v. repeat split; try assumption; try lia.
Qed.

Lemma to_int_NJson : forall t d, parse_dec t = Some d -> to_int (VNum (NJson t)) = decimal_to_int d.
Proof.
  intros t d P. cbn [to_int]. destruct (parse_int64 t) as [i|] eqn:PI.
  - destruct (parse_int64_dec t i PI) as (n & v & P' & W & S & I).
    rewrite P in P'. inversion P'; subst d.
    rewrite decimal_to_int_spec by exact W. unfold ival. cbn [Z.leb Z.compare].
    change (10 ^ 0) with 1. rewrite Z.mul_1_r. rewrite S. unfold int_res. rewrite I. reflexivity.
  - rewrite P. reflexivity.
Qed.



(* ================================================================== *)
(* B. values up to the representation of numbers                        *)
(* ================================================================== *)

Definition nonfloat (n : num) : Prop := match n with NFloat _ _ => False | _ => True end.
(* invariants of real Go values that the model's value space does not enforce *)
Definition num_wf (n : num) : Prop :=
  match n with
  | NDec d => dec_wf d
  | NInt k z => kind_min k <= z <= kind_max k
  | _ => True
  end.
Definition num_dwf (n : num) : Prop := match n with NDec d => dec_wf d | _ => True end.

Definition num_core (n n' : num) : Prop :=
  nonfloat n /\ nonfloat n' /\ num_wf n /\ num_wf n' /\
  exists d d', to_decimal (VNum n) = Some d /\ to_decimal (VNum n') = Some d' /\ deq d d'.
Definition num_rel (n n' : num) : Prop := (n = n' /\ num_dwf n) \/ num_core n n'.

Inductive vrel : value -> value -> Prop :=
| vrel_null : vrel VNull VNull
| vrel_bool : forall b, vrel (VBool b) (VBool b)
| vrel_str : forall s, vrel (VStr s) (VStr s)
| vrel_num : forall n n', num_rel n n' -> vrel (VNum n) (VNum n')
| vrel_arr : forall l l', Forall2 vrel l l' -> vrel (VArr l) (VArr l')
| vrel_obj : forall m m',
    Forall2 (fun kv kv' => fst kv = fst kv' /\ vrel (snd kv) (snd kv')) m m' -> vrel (VObj m) (VObj m')
| vrel_foreign : forall t, vrel (VForeign t) (VForeign t).

Definition kvrel (kv kv' : bytes * value) : Prop := fst kv = fst kv' /\ vrel (snd kv) (snd kv').

Inductive orel {A} (R : A -> A -> Prop) : outcome A -> outcome A -> Prop :=
| orel_ok : forall a a', R a a' -> orel R (Ok a) (Ok a')
| orel_err : forall e, orel R (Err e) (Err e)
| orel_panic : forall p, orel R (Panic p) (Panic p)
| orel_fuel : orel R OutOfFuel OutOfFuel
| orel_unm : orel R Unmodelled Unmodelled.

Lemma orel_bind : forall {A B} (R : A -> A -> Prop) (S : B -> B -> Prop) o o' f f',
  orel R o o' -> (forall a a', R a a' -> orel S (f a) (f' a')) -> orel S (bind o f) (bind o' f').
Proof. intros A B R S o o' f f' H K. destruct H; cbn [bind]; try constructor. apply K; assumption. Qed.

Lemma orel_eq : forall {A} (o : outcome A), orel eq o o.
Proof. intros A []; constructor. reflexivity. Qed.

Lemma orel_imp : forall {A} (R S : A -> A -> Prop) o o', (forall a a', R a a' -> S a a') -> orel R o o' -> orel S o o'.
Proof. intros A R S o o' H K. destruct K; constructor. auto. Qed.

(* ---- numbers ---- *)
Lemma num_wf_dwf : forall n, num_wf n -> num_dwf n.
Proof. intros []; simpl; auto. Qed.

Lemma num_dwf_decimal : forall n d, num_dwf n -> to_decimal (VNum n) = Some d -> dec_wf d.
Proof.
  intros [t|d0|s f|k z] d W H; simpl in H.
  - eapply parse_dec_wf; eauto.
  - inversion H; subst. exact W.
  - inversion H; subst. apply dec_of_flt_wf.
  - inversion H; subst. apply dec_of_Z_wf.
Qed.

Definition odrel (o o' : option dec) : Prop :=
  match o, o' with
  | None, None => True
  | Some d, Some d' => drel d d'
  | _, _ => False
  end.

Lemma num_decimal_rel : forall n n', num_rel n n' -> odrel (to_decimal (VNum n)) (to_decimal (VNum n')).
Proof.
  intros n n' [[<- W]|(F & F' & W & W' & d & d' & H & H' & Q)].
  - destruct (to_decimal (VNum n)) as [d|] eqn:E; [|exact I]. simpl.
    apply drel_refl. eapply num_dwf_decimal; eauto.
  - rewrite H, H'. simpl. repeat split; try assumption.
    + eapply num_dwf_decimal; [apply num_wf_dwf; exact W|exact H].
    + eapply num_dwf_decimal; [apply num_wf_dwf; exact W'|exact H'].
Qed.

Lemma to_decimal_rel : forall v v', vrel v v' -> odrel (to_decimal v) (to_decimal v').
Proof. intros v v' H. destruct H; try exact I. apply num_decimal_rel; assumption. Qed.

Lemma to_float_rel : forall v v', vrel v v' -> to_float v = to_float v'.
Proof.
  intros v v' H. destruct H; try reflexivity.
  destruct H as [[<- _]|(F & F' & _)]; [reflexivity|].
  destruct n, n'; simpl in *; try contradiction; reflexivity.
Qed.

Lemma to_float_some_eq : forall v v' f, vrel v v' -> to_float v = Some f -> v' = v.
Proof.
  intros v v' f H E. destruct H; try discriminate.
  destruct H as [[<- _]|(F & _)]; [reflexivity|].
  destruct n; simpl in *; try discriminate. contradiction.
Qed.

Lemma vdec_rel : forall d d', drel d d' -> vrel (vdec d) (vdec d').
Proof.
  intros d d' (W & W' & Q). apply vrel_num. right. repeat split; try assumption.
  exists d, d'. auto.
Qed.

Lemma num_rel_refl : forall n, num_dwf n -> num_rel n n.
Proof. intros. left. auto. Qed.

Lemma vint_rel : forall z, vrel (vint z) (vint z).
Proof. intros. apply vrel_num. apply num_rel_refl. exact I. Qed.
Lemma vflt_rel : forall f, vrel (vflt f) (vflt f).
Proof. intros. apply vrel_num. apply num_rel_refl. exact I. Qed.

(* ---- uniform classification ---- *)
Lemma is_number_rel : forall v v', vrel v v' -> is_number v = is_number v'.
Proof. intros v v' H. destruct H; reflexivity. Qed.

Lemma is_null_rel : forall v v', vrel v v' -> is_null v = is_null v'.
Proof. intros v v' H. destruct H; reflexivity. Qed.

Lemma type_name_rel : forall v v', vrel v v' -> type_name v = type_name v'.
Proof. intros v v' H. destruct H; reflexivity. Qed.

Lemma core_true : forall n n', num_core n n' -> is_true (VNum n) = true.
Proof.
  intros n n' (F & _ & _ & _ & d & _ & H & _). destruct n; try reflexivity.
  simpl in H. destruct text; [discriminate|reflexivity].
Qed.
Lemma core_sym : forall n n', num_core n n' -> num_core n' n.
Proof.
  intros n n' (F & F' & W & W' & d & d' & H & H' & Q). repeat split; try assumption.
  exists d', d. repeat split; try assumption. apply deq_sym; exact Q.
Qed.

Lemma is_true_rel : forall v v', vrel v v' -> is_true v = is_true v'.
Proof.
  intros v v' H. destruct H; try reflexivity.
  - destruct H as [[<- _]|C]; [reflexivity|].
    rewrite (core_true _ _ C), (core_true _ _ (core_sym _ _ C)). reflexivity.
  - destruct H; reflexivity.
  - destruct H; reflexivity.
Qed.

Lemma to_number_rel : forall v v', vrel v v' -> vrel (to_number v) (to_number v').
Proof.
  intros v v' H. destruct H; try (simpl; constructor; fail).
  - (* string: identical results *)
    simpl. destruct (json_number_ok s); [|constructor].
    destruct (parse_dec s) as [d|] eqn:P; [|constructor].
    apply vdec_rel. apply drel_refl. eapply parse_dec_wf; eauto.
  - simpl. constructor; assumption.
Qed.

(* ---- integer arguments ---- *)
Lemma to_int_decimal : forall n d, nonfloat n -> num_wf n -> to_decimal (VNum n) = Some d ->
  to_int (VNum n) = decimal_to_int d.
Proof.
  intros [t|d0|s f|k z] d F W H; simpl in F; try contradiction.
  - apply to_int_NJson. exact H.
  - simpl in H. inversion H; subst. reflexivity.
  - simpl in H. inversion H; subst. apply to_int_NInt. exact W.
Qed.

Lemma to_int_rel : forall v v', vrel v v' -> to_int v = to_int v'.
Proof.
  intros v v' H. destruct H; try reflexivity.
  destruct H as [[<- _]|(F & F' & W & W' & d & d' & H & H' & Q)]; [reflexivity|].
  rewrite (to_int_decimal n d F W H), (to_int_decimal n' d' F' W' H').
  apply decimal_to_int_rel. repeat split; try assumption.
  - eapply num_dwf_decimal; [apply num_wf_dwf; exact W|exact H].
  - eapply num_dwf_decimal; [apply num_wf_dwf; exact W'|exact H'].
Qed.

Lemma to_decimal_some_rel : forall v v', vrel v v' ->
  match to_decimal v, to_decimal v' with Some _, Some _ => True | None, None => True | _, _ => False end.
Proof.
  intros v v' H. pose proof (to_decimal_rel v v' H) as K. unfold odrel in K.
  destruct (to_decimal v), (to_decimal v'); auto.
Qed.

Theorem int_arg_rel : forall v v', vrel v v' -> int_arg v = int_arg v'.
Proof.
  intros v v' H. unfold int_arg. rewrite (to_int_rel v v' H).
  pose proof (to_decimal_some_rel v v' H) as K.
  destruct (to_decimal v), (to_decimal v'); try contradiction; reflexivity.
Qed.

Lemma str_arg_rel : forall v v', vrel v v' -> str_arg v = str_arg v'.
Proof. intros v v' H. destruct H; reflexivity. Qed.
Lemma str_arg_inv : forall v v' s, vrel v v' -> str_arg v = Ok s -> v = VStr s /\ v' = VStr s.
Proof. intros v v' s H E. destruct H; simpl in E; try discriminate. inversion E; auto. Qed.

(* ---- equality ---- *)
Lemma dec_equal_rel : forall a a' b b', drel a a' -> drel b b' -> dec_equal a b = dec_equal a' b'.
Proof. intros. unfold dec_equal. rewrite (dec_cmp_rel a a' b b') by assumption. reflexivity. Qed.

Lemma num_short_true : forall n k, num_short n (VNum k) = true ->
  exists s, n = NJson s /\ k = NJson s /\ json_text_ok s = true.
Proof.
  intros n k H. apply num_short_inv in H as (s & -> & E & K). inversion E. eauto.
Qed.

Lemma short_dec : forall s d, json_text_ok s = true -> parse_dec s = Some d -> dec_equal d d = true.
Proof.
  intros s d K P. destruct (parse_dec_ok_or_nan s d P) as [O|[_ F]]; [|congruence].
  apply dec_equal_refl. exact O.
Qed.

Lemma equal_num_rel : forall n n' k k', num_rel n n' -> num_rel k k' ->
  equal (VNum n) (VNum k) = equal (VNum n') (VNum k').
Proof.
  intros n n' k k' Hn Hk. rewrite !equal_num_l.
  pose proof (num_decimal_rel n n' Hn) as Dn. pose proof (num_decimal_rel k k' Hk) as Dk.
  set (D := match to_decimal (VNum n) with
            | Some a => match to_decimal (VNum k) with Some b => dec_equal a b | None => false end
            | None => false end).
  set (D' := match to_decimal (VNum n') with
             | Some a => match to_decimal (VNum k') with Some b => dec_equal a b | None => false end
             | None => false end).
  assert (ED : D = D').
  { unfold D, D', odrel in *.
    destruct (to_decimal (VNum n)), (to_decimal (VNum n')); try contradiction; try reflexivity.
    destruct (to_decimal (VNum k)), (to_decimal (VNum k')); try contradiction; try reflexivity.
    apply dec_equal_rel; assumption. }
  rewrite <- ED.
  assert (S1 : forall n n' k k', num_rel n n' -> num_rel k k' ->
               match to_decimal (VNum n) with
               | Some a => match to_decimal (VNum k) with Some b => dec_equal a b | None => false end
               | None => false end = false ->
               num_short n (VNum k) = true -> num_short n' (VNum k') = true).
  { clear. intros n n' k k' Hn Hk HD S. apply num_short_true in S as (s & -> & -> & K).
    destruct Hn as [[<- _]|Cn].
    - destruct Hk as [[<- _]|Ck].
      + cbn [num_short]. rewrite beqb_refl, K. reflexivity.
      + exfalso. destruct Ck as (_ & _ & _ & _ & d & _ & H & _). rewrite H in HD.
        rewrite (short_dec s d K H) in HD. discriminate.
    - exfalso. destruct Cn as (_ & _ & _ & _ & d & _ & H & _). rewrite H in HD.
      rewrite (short_dec s d K H) in HD. discriminate. }
  destruct D eqn:ED0.
  - destruct (num_short n (VNum k)), (num_short n' (VNum k')); reflexivity.
  - destruct (num_short n (VNum k)) eqn:S.
    + rewrite (S1 n n' k k' Hn Hk ED0 S). reflexivity.
    + destruct (num_short n' (VNum k')) eqn:S'; [|reflexivity].
      assert (X : num_short n (VNum k) = true).
      { apply (S1 n' n k' k).
        - destruct Hn as [[<- W]|C]; [left; auto|right; apply core_sym; exact C].
        - destruct Hk as [[<- W]|C]; [left; auto|right; apply core_sym; exact C].
        - fold D'. symmetry. exact ED.
        - exact S'. }
      congruence.
Qed.

Lemma assoc_rel : forall k m m', Forall2 kvrel m m' ->
  match assoc k m, assoc k m' with
  | Some v, Some v' => vrel v v'
  | None, None => True
  | _, _ => False
  end.
Proof.
  intros k m m' H. induction H as [|[a v] [a' v'] r r' [E R] _ IH]; [exact I|].
  simpl in E. subst a'. cbn [assoc]. destruct (beqb k a); [exact R|exact IH].
Qed.

Lemma Forall2_length' : forall {A B} (R : A -> B -> Prop) l l', Forall2 R l l' -> length l = length l'.
Proof. intros A B R l l' H. induction H; simpl; congruence. Qed.

Lemma equal_num_other : forall n y, is_number y = false -> equal (VNum n) y = false.
Proof.
  intros n y H. rewrite equal_num_l.
  destruct y; try discriminate; destruct n; cbn [num_short to_decimal];
    try reflexivity; destruct (parse_dec _); reflexivity.
Qed.

Lemma vrel_arr_inv : forall a x', vrel (VArr a) x' -> exists a', x' = VArr a' /\ Forall2 vrel a a'.
Proof. intros a x' H. inversion H; subst. eauto. Qed.
Lemma vrel_obj_inv : forall m x', vrel (VObj m) x' -> exists m', x' = VObj m' /\ Forall2 kvrel m m'.
Proof. intros m x' H. inversion H; subst. eauto. Qed.
Lemma vrel_num_inv : forall n x', vrel (VNum n) x' -> exists n', x' = VNum n' /\ num_rel n n'.
Proof. intros n x' H. inversion H; subst. eauto. Qed.
Lemma vrel_str_inv : forall s x', vrel (VStr s) x' -> x' = VStr s.
Proof. intros s x' H. inversion H; subst. reflexivity. Qed.

Lemma equal_rel : forall x x' y y', vrel x x' -> vrel y y' -> equal x y = equal x' y'.
Proof.
  induction x as [| b | s | n | a IH | a IH | t] using value_ind'; intros x' y y' Hx Hy.
  - inversion Hx; subst. destruct Hy; reflexivity.
  - inversion Hx; subst. destruct Hy; reflexivity.
  - inversion Hx; subst. destruct Hy; reflexivity.
  - destruct (vrel_num_inv _ _ Hx) as (n' & -> & Hn).
    destruct Hy; try (rewrite !equal_num_other by reflexivity; reflexivity). apply equal_num_rel; assumption.
  - destruct (vrel_arr_inv _ _ Hx) as (a' & -> & HA).
    destruct Hy as [| | | |c c' Hc| |]; try reflexivity. rewrite !equal_arr.
    clear Hx. revert c c' Hc. induction HA as [|u u' r r' Hu Hr IHr]; intros c c' Hc.
    + destruct Hc; reflexivity.
    + destruct Hc as [|v v' q q' Hv Hq]; [reflexivity|]. cbn [arr_eq].
      rewrite (Forall_inv IH u' v v' Hu Hv). f_equal.
      apply IHr; [apply (Forall_inv_tail IH)|exact Hq].
  - destruct (vrel_obj_inv _ _ Hx) as (a' & -> & HA).
    destruct Hy as [| | | | |c c' Hc|]; try reflexivity. rewrite !equal_obj. fold kvrel in Hc.
    rewrite (Forall2_length' _ _ _ HA), (Forall2_length' _ _ _ Hc). f_equal.
    clear Hx. induction HA as [|[k u] [k' u'] r r' [Ek Hu] Hr IHr]; [reflexivity|].
    simpl in Ek. subst k'. cbn [obj_sub]. cbn [snd] in Hu.
    rewrite (IHr (Forall_inv_tail IH)). f_equal.
    pose proof (assoc_rel k c c' Hc) as A.
    destruct (assoc k c), (assoc k c'); try contradiction; try reflexivity.
    apply (Forall_inv IH); assumption.
  - inversion Hx; subst. destruct Hy; reflexivity.
Qed.

(* ---- ordering comparisons ---- *)
Lemma cmp_op_rel : forall f, (forall a a' b b', drel a a' -> drel b b' -> f a b = f a' b') ->
  forall x x' y y', vrel x x' -> vrel y y' -> vrel (cmp_op f x y) (cmp_op f x' y').
Proof.
  intros f Hf x x' y y' Hx Hy. unfold cmp_op.
  pose proof (to_decimal_rel x x' Hx) as Dx. pose proof (to_decimal_rel y y' Hy) as Dy. unfold odrel in *.
  destruct (to_decimal x), (to_decimal x'); try contradiction; try constructor.
  destruct (to_decimal y), (to_decimal y'); try contradiction; try constructor.
  rewrite (Hf d d0 d1 d2) by assumption. constructor.
Qed.

Lemma dec_less_rel : forall a a' b b', drel a a' -> drel b b' -> dec_less a b = dec_less a' b'.
Proof. intros. unfold dec_less. rewrite (dec_cmp_rel a a' b b') by assumption. reflexivity. Qed.
Lemma dec_le_rel : forall a a' b b', drel a a' -> drel b b' -> dec_le a b = dec_le a' b'.
Proof. intros. unfold dec_le. rewrite (dec_cmp_rel a a' b b') by assumption. reflexivity. Qed.
Lemma dec_greater_rel : forall a a' b b', drel a a' -> drel b b' -> dec_greater a b = dec_greater a' b'.
Proof. intros. unfold dec_greater. rewrite (dec_cmp_rel a a' b b') by assumption. reflexivity. Qed.
Lemma dec_ge_rel : forall a a' b b', drel a a' -> drel b b' -> dec_ge a b = dec_ge a' b'.
Proof. intros. unfold dec_ge. rewrite (dec_cmp_rel a a' b b') by assumption. reflexivity. Qed.
Lemma dec_leb_rel : forall a a' b b', drel a a' -> drel b b' -> dec_leb a b = dec_leb a' b'.
Proof. intros. unfold dec_leb. rewrite (dec_compare_rel a a' b b') by assumption. reflexivity. Qed.

(* ---- arithmetic ---- *)
Lemma trap_rel : forall d d', drelw d d' -> orel vrel (trap d) (trap d').
Proof.
  intros d d' [H|[I I']]; unfold trap.
  - rewrite (drel_is_inf d d' H), (drel_is_nan d d' H).
    destruct (is_inf d'); [constructor|]. destruct (is_nan d'); [constructor|].
    constructor. apply vdec_rel. exact H.
  - rewrite I, I'. constructor.
Qed.

Lemma ftrap_refl : forall o, orel vrel (ftrap o) (ftrap o).
Proof.
  intros [f|]; simpl; [|constructor]. destruct (f_is_inf f); [constructor|].
  destruct (f_is_nan f); constructor. apply vflt_rel.
Qed.

Lemma arith_rel : forall fop dop,
  (forall a a' b b', drel a a' -> drel b b' -> drelw (dop a b) (dop a' b')) ->
  forall x x' y y', vrel x x' -> vrel y y' -> orel vrel (arith fop dop x y) (arith fop dop x' y').
Proof.
  intros fop dop Hd x x' y y' Hx Hy. unfold arith.
  rewrite <- (to_float_rel x x' Hx), <- (to_float_rel y y' Hy).
  pose proof (to_decimal_rel x x' Hx) as Dx. pose proof (to_decimal_rel y y' Hy) as Dy. unfold odrel in *.
  destruct (to_float x) as [xf|] eqn:Fx.
  - destruct (to_float y) as [yf|] eqn:Fy; [apply ftrap_refl|].
    destruct (to_decimal x), (to_decimal x'); try contradiction; try constructor.
    destruct (to_decimal y), (to_decimal y'); try contradiction; try constructor.
    apply trap_rel. apply Hd; assumption.
  - assert (E : match to_float y with Some yf => @None flt | None => None end = None) by (destruct (to_float y); reflexivity).
    destruct (to_float y); (
    destruct (to_decimal x), (to_decimal x'); try contradiction; try constructor;
    destruct (to_decimal y), (to_decimal y'); try contradiction; try constructor;
    apply trap_rel; apply Hd; assumption).
Qed.

Lemma drel_w : forall a b, drel a b -> drelw a b. Proof. intros; left; assumption. Qed.

Lemma add_rel : forall x x' y y', vrel x x' -> vrel y y' -> orel vrel (add x y) (add x' y').
Proof. apply arith_rel. intros. apply drel_w, dec_add_rel; assumption. Qed.
Lemma subtract_rel : forall x x' y y', vrel x x' -> vrel y y' -> orel vrel (subtract x y) (subtract x' y').
Proof. apply arith_rel. intros. apply drel_w, dec_sub_rel; assumption. Qed.
Lemma multiply_rel : forall x x' y y', vrel x x' -> vrel y y' -> orel vrel (multiply x y) (multiply x' y').
Proof. apply arith_rel. intros. apply drel_w, dec_mul_rel; assumption. Qed.
Lemma divide_rel : forall x x' y y', vrel x x' -> vrel y y' -> orel vrel (divide x y) (divide x' y').
Proof. apply arith_rel. intros. apply dec_quo_rel; assumption. Qed.

Lemma drel_one : drel (DFin false 1 0) (DFin false 1 0).
Proof. apply drel_refl. cbn [dec_wf]. pose proof P34_pos. assert (1 < P34) by reflexivity. lia. Qed.

Lemma integer_divide_rel : forall x x' y y', vrel x x' -> vrel y y' ->
  orel vrel (integer_divide x y) (integer_divide x' y').
Proof.
  intros x x' y y' Hx Hy. unfold integer_divide.
  rewrite <- (to_float_rel x x' Hx), <- (to_float_rel y y' Hy).
  pose proof (to_decimal_rel x x' Hx) as Dx. pose proof (to_decimal_rel y y' Hy) as Dy. unfold odrel in *.
  assert (Main : orel vrel
    match to_decimal x with
    | Some xd => match to_decimal y with
                 | Some yd => let '(q, rem) := dec_quorem xd yd in
                     if is_inf q then Err EInfinity else if is_nan q then Err ENotANumber else
                     if negb (is_zero rem) && negb (is_nan rem) && negb (Bool.eqb (sign_of rem) (sign_of yd))
                     then Ok (vdec (dec_sub q (DFin false 1 0))) else Ok (vdec q)
                 | None => Err EInvalidType end
    | None => Err EInvalidType end
    match to_decimal x' with
    | Some xd => match to_decimal y' with
                 | Some yd => let '(q, rem) := dec_quorem xd yd in
                     if is_inf q then Err EInfinity else if is_nan q then Err ENotANumber else
                     if negb (is_zero rem) && negb (is_nan rem) && negb (Bool.eqb (sign_of rem) (sign_of yd))
                     then Ok (vdec (dec_sub q (DFin false 1 0))) else Ok (vdec q)
                 | None => Err EInvalidType end
    | None => Err EInvalidType end).
  { destruct (to_decimal x) as [xd|], (to_decimal x') as [xd'|]; try contradiction; try constructor.
    destruct (to_decimal y) as [yd|], (to_decimal y') as [yd'|]; try contradiction; try constructor.
    destruct (dec_quorem_rel xd xd' yd yd' Dx Dy) as [Q R].
    pose proof (quorem_q_fin xd yd ltac:(apply Dy)) as NZ.
    destruct (dec_quorem xd yd) as [q rem]. destruct (dec_quorem xd' yd') as [q' rem']. cbn [fst snd] in *.
    destruct Q as [Q|[I I']]; [|rewrite I, I'; constructor].
    rewrite <- (drel_is_inf q q' Q), <- (drel_is_nan q q' Q).
    destruct (is_inf q) eqn:EI; [constructor|]. destruct (is_nan q) eqn:EN; [constructor|].
    specialize (NZ eq_refl eq_refl).
    rewrite <- (drel_is_zero rem rem' R), <- (drel_is_nan rem rem' R).
    rewrite <- (drel_sign yd yd' Dy NZ).
    destruct (is_zero rem) eqn:ZR.
    - cbn [negb andb]. constructor. apply vdec_rel; exact Q.
    - rewrite <- (drel_sign rem rem' R ZR).
      destruct (negb false && negb (is_nan rem) && negb (Bool.eqb (sign_of rem) (sign_of yd)));
        constructor; apply vdec_rel; [apply dec_sub_rel; [exact Q|apply drel_one]|exact Q]. }
  destruct (to_float x) as [xf|] eqn:Fx; [destruct (to_float y) as [yf|] eqn:Fy|]; try exact Main.
  apply ftrap_refl.
Qed.

Lemma modulo_rel : forall x x' y y', vrel x x' -> vrel y y' -> orel vrel (modulo x y) (modulo x' y').
Proof.
  intros x x' y y' Hx Hy. unfold modulo.
  rewrite <- (to_float_rel x x' Hx), <- (to_float_rel y y' Hy).
  pose proof (to_decimal_rel x x' Hx) as Dx. pose proof (to_decimal_rel y y' Hy) as Dy. unfold odrel in *.
  assert (Main : orel vrel
    match to_decimal x with
    | Some xd => match to_decimal y with Some yd => trap (snd (dec_quorem xd yd)) | None => Err EInvalidType end
    | None => Err EInvalidType end
    match to_decimal x' with
    | Some xd => match to_decimal y' with Some yd => trap (snd (dec_quorem xd yd)) | None => Err EInvalidType end
    | None => Err EInvalidType end).
  { destruct (to_decimal x) as [xd|], (to_decimal x') as [xd'|]; try contradiction; try constructor.
    destruct (to_decimal y) as [yd|], (to_decimal y') as [yd'|]; try contradiction; try constructor.
    apply trap_rel. left. apply dec_quorem_rel; assumption. }
  destruct (to_float x) as [xf|] eqn:Fx; [destruct (to_float y) as [yf|] eqn:Fy|]; try exact Main.
  apply ftrap_refl.
Qed.

Lemma num1_rel : forall fop dop, (forall a a', drel a a' -> drel (dop a) (dop a')) ->
  forall v v', vrel v v' -> orel vrel (num1 fop dop v) (num1 fop dop v').
Proof.
  intros fop dop Hd v v' H. unfold num1. rewrite <- (to_float_rel v v' H).
  destruct (to_float v); [constructor; apply vflt_rel|].
  pose proof (to_decimal_rel v v' H) as D. unfold odrel in D.
  destruct (to_decimal v), (to_decimal v'); try contradiction; constructor.
  apply vdec_rel. apply Hd. exact D.
Qed.

Lemma negate_rel : forall v v', vrel v v' -> vrel (negate v) (negate v').
Proof.
  intros v v' H. unfold negate. rewrite <- (to_float_rel v v' H).
  destruct (to_float v); [apply vflt_rel|].
  pose proof (to_decimal_rel v v' H) as D. unfold odrel in D.
  destruct (to_decimal v), (to_decimal v'); try contradiction; try constructor.
  rewrite <- (drel_is_zero d d0 D). destruct (is_zero d); apply vdec_rel; [exact D|apply dec_neg_rel; exact D].
Qed.

(* ---- sum / avg: exact accumulation, one rounding ---- *)

(* unrounded finite decimals (any coefficient size) of the same value *)
Definition ueq (x y : dec) : Prop :=
  match x, y with
  | DFin n c e, DFin n' c' e' => 0 <= c /\ 0 <= c' /\ dec_equal x y = true
  | _, _ => False
  end.

Lemma drel_is_fin : forall d d', drel d d' -> is_fin d = is_fin d'.
Proof. intros d d' H. dcases H; reflexivity. Qed.

(* exact_add is exact: the value of the result is the sum of the values *)
Lemma exact_add_ueq : forall t t' d d', ueq t t' -> drel d d' -> is_fin d = true ->
  ueq (exact_add t d) (exact_add t' d').
Proof.
  intros t t' d d' Ht Hd F.
  destruct t as [n1 c1 e1| |]; try contradiction. destruct t' as [n1' c1' e1'| |]; try contradiction.
  destruct Ht as (P1 & P1' & E1).
  dcases Hd; [|destruct d; try discriminate; nofin].
  unfold exact_add.
  set (m := Z.min (Z.min e1 e) (Z.min e1' e')).
  pose proof (scaled_add m n1 c1 e1 n c e ltac:(lia) ltac:(lia)) as H.
  pose proof (scaled_add m n1' c1' e1' n' c' e' ltac:(lia) ltac:(lia)) as H'.
  apply (dec_equal_any_m m) in E1; try lia. apply (dec_equal_any_m m) in E; try lia.
  unfold align in *. cbv beta iota zeta in *. cbn [ueq].
  split; [apply Z.abs_nonneg|]. split; [apply Z.abs_nonneg|].
  apply (dec_equal_scaled m); lia.
Qed.

Definition srel (r r' : dec * dec * bool) : Prop :=
  ueq (fst (fst r)) (fst (fst r')) /\ drel (snd (fst r)) (snd (fst r')) /\ snd r = snd r'.

Lemma sum_loop_rel : forall l l', Forall2 vrel l l' -> forall t t' s s' f, ueq t t' -> drel s s' ->
  orel srel (sum_loop l t s f) (sum_loop l' t' s' f).
Proof.
  intros l l' H. induction H as [|v v' q q' Hv Hq IH]; intros t t' s s' f Ht Hs; cbn [sum_loop].
  - constructor. split; [exact Ht|split; [exact Hs|reflexivity]].
  - pose proof (to_decimal_rel v v' Hv) as D. unfold odrel in D.
    destruct (to_decimal v) as [d|], (to_decimal v') as [d'|]; try contradiction; try constructor.
    rewrite <- (drel_is_fin d d' D).
    destruct (f && is_fin d) eqn:B.
    + apply IH; [|exact Hs]. apply exact_add_ueq; try assumption.
      apply andb_true_iff in B. apply B.
    + apply IH; [exact Ht|]. apply dec_add_rel; assumption.
Qed.

Lemma drel_zero0 : drel dec_zero dec_zero.
Proof. apply drel_refl. unfold dec_zero. cbn [dec_wf]. pose proof P34_pos. lia. Qed.

Lemma ueq_zero0 : ueq dec_zero dec_zero.
Proof. unfold dec_zero. cbn [ueq]. repeat split; try lia. Qed.

(* one rounding of equal exact values gives equal values *)
Lemma round_once_rel : forall t t', ueq t t' -> drel (round_once t) (round_once t').
Proof.
  intros [n c e| |] [n' c' e'| |] H; try contradiction. destruct H as (P & P' & E).
  cbn [round_once]. split; [apply fit_wf; exact P|]. split; [apply fit_wf; exact P'|].
  apply (dec_equal_any_m (Z.min e e')) in E; [|lia|lia].
  apply (fit_value (Z.min e e')); first [lia|exact E].
Qed.

Lemma sum_rel : forall v v', vrel v v' -> orel vrel (sum v) (sum v').
Proof.
  intros v v' H. destruct H; try constructor. cbn [sum].
  eapply orel_bind; [apply sum_loop_rel; [exact H|apply ueq_zero0|apply drel_zero0]|].
  intros [[t s] f] [[t' s'] f'] (Ht & Hs & Hf). cbn [fst snd] in *. subst f'.
  apply trap_rel. left. destruct f; [apply round_once_rel; exact Ht|exact Hs].
Qed.

(* ---- the quotient of an unrounded dividend (avg) ---- *)
Lemma digits_gt : forall c p, 0 <= p -> 10 ^ p <= c -> p < digits c.
Proof.
  intros c p Hp H. pose proof (pow10_gt0 p Hp). pose proof (digits_spec c ltac:(lia)) as [_ B].
  pose proof (digits_pos c ltac:(lia)).
  apply (Z.pow_lt_mono_r_iff 10); lia.
Qed.

(* a nonzero tail below a coefficient that ends in 0 rounds like a final digit 1 *)
Lemma drop_sticky : forall Q h m u, 0 <= Q -> Q mod 10 = 0 -> 0 <= h -> 0 <= m -> 0 < u < 10 * 10 ^ m ->
  drop_digits (Q * 10 ^ m + u) (h + 2 + m) = drop_digits (Q + 1) (h + 2).
Proof.
  intros Q h m u HQ HM Hh Hm Hu. unfold drop_digits, pow10. cbv zeta.
  replace (h + 2 + m - 1) with (h + 1 + m) by lia. replace (h + 2 - 1) with (h + 1) by lia.
  rewrite !Z.pow_add_r by lia. change (10 ^ 2) with 100. change (10 ^ 1) with 10.
  pose proof (pow10_gt0 h Hh) as H3p. pose proof (pow10_gt0 m Hm) as HTp.
  set (H3 := 10 ^ h) in *. set (T := 10 ^ m) in *.
  pose proof (Z.div_mod Q 10 ltac:(lia)) as EQ10. rewrite HM in EQ10.
  pose proof (Z.div_mod Q (H3 * 100) ltac:(lia)) as EQ.
  pose proof (Z.mod_pos_bound Q (H3 * 100) ltac:(lia)) as HB.
  set (q := Q / 10) in *. set (A := Q / (H3 * 100)) in *. set (B := Q mod (H3 * 100)) in *.
  clearbody q A B.
  set (b := q - 10 * (H3 * A)).
  assert (EB : B = 10 * b) by (unfold b; lia).
  assert (Hb : 0 <= b /\ b + 1 <= 10 * H3) by lia.
  assert (E1 : (Q + 1) / (H3 * 100) = A).
  { symmetry. apply (Z.div_unique_pos _ _ _ (B + 1)); lia. }
  assert (E2 : (Q + 1) mod (H3 * 100) = B + 1).
  { symmetry. apply (Z.mod_unique_pos _ _ A); lia. }
  assert (HbT : 0 <= b * T) by (apply Z.mul_nonneg_nonneg; lia).
  assert (HbT' : (b + 1) * T <= 10 * H3 * T) by (apply Z.mul_le_mono_nonneg_r; lia).
  assert (E3 : (Q * T + u) / (H3 * 100 * T) = A).
  { symmetry. apply (Z.div_unique_pos _ _ _ (B * T + u)); [|rewrite EQ; ring].
    rewrite EB. lia. }
  assert (E4 : (Q * T + u) mod (H3 * 100 * T) = B * T + u).
  { symmetry. apply (Z.mod_unique_pos _ _ A); [|rewrite EQ; ring]. rewrite EB. lia. }
  rewrite E1, E2, E3, E4. rewrite EB.
  destruct (Z_lt_ge_dec b (5 * H3)) as [C|C].
  - assert ((b + 1) * T <= 5 * H3 * T) by (apply Z.mul_le_mono_nonneg_r; lia).
    destruct (Z.gtb_spec (10 * b * T + u) (5 * (H3 * 10 * T))); [lia|].
    destruct (Z.gtb_spec (10 * b + 1) (5 * (H3 * 10))); [lia|].
    destruct (Z.eqb_spec (10 * b * T + u) (5 * (H3 * 10 * T))); [lia|].
    destruct (Z.eqb_spec (10 * b + 1) (5 * (H3 * 10))); [lia|]. reflexivity.
  - assert (5 * H3 * T <= b * T) by (apply Z.mul_le_mono_nonneg_r; lia).
    destruct (Z.gtb_spec (10 * b * T + u) (5 * (H3 * 10 * T))); [|lia].
    destruct (Z.gtb_spec (10 * b + 1) (5 * (H3 * 10))); [|lia]. reflexivity.
Qed.

Lemma round_coef_sticky : forall Q F m u, 10 ^ 36 <= Q -> Q mod 10 = 0 -> 0 <= m -> 0 < u < 10 * 10 ^ m ->
  round_coef (Q * 10 ^ m + u) (F - m) = round_coef (Q + 1) F.
Proof.
  intros Q F m u HQ HM Hm Hu.
  assert (Q0 : 0 < Q) by (assert (0 < 10 ^ 36) by reflexivity; lia).
  pose proof (digits_gt Q 36 ltac:(lia) HQ) as Hd.
  pose proof (digits_spec Q Q0) as [DA DB].
  pose proof (pow10_gt0 m Hm) as HTp.
  pose proof (Z.div_mod Q 10 ltac:(lia)) as EQ10. rewrite HM in EQ10.
  set (d := digits Q) in *.
  assert (P10 : 10 ^ d = 10 * 10 ^ (d - 1)).
  { replace d with (Z.succ (d - 1)) at 1 by lia. apply Z.pow_succ_r. lia. }
  assert (D1 : digits (Q + 1) = d) by (apply digits_unique; lia).
  assert (D2 : digits (Q * 10 ^ m + u) = d + m).
  { assert (10 ^ (d - 1) * 10 ^ m <= Q * 10 ^ m) by (apply Z.mul_le_mono_nonneg_r; lia).
    assert ((Q + 10) * 10 ^ m <= 10 ^ d * 10 ^ m) by (apply Z.mul_le_mono_nonneg_r; lia).
    apply digits_unique; [nia|].
    replace (d + m - 1) with ((d - 1) + m) by lia. rewrite !Z.pow_add_r by lia. lia. }
  unfold round_coef. cbv zeta. rewrite D1, D2. unfold prec34.
  destruct (Z.leb_spec (d + m) 34); [lia|]. destruct (Z.leb_spec d 34); [lia|].
  replace (d + m - 34) with ((d - 36) + 2 + m) by lia. replace (d - 34) with ((d - 36) + 2) by lia.
  rewrite drop_sticky by lia.
  destruct (_ >? 34); f_equal; lia.
Qed.

Lemma fit_sticky : forall n Q F m u, 10 ^ 36 <= Q -> Q mod 10 = 0 -> 0 <= m -> 0 < u < 10 * 10 ^ m ->
  fit n (Q * 10 ^ m + u) (F - m) = fit n (Q + 1) F.
Proof. intros. rewrite !fit_unfold. rewrite round_coef_sticky by assumption. reflexivity. Qed.

(* once the quotient has more than 36 digits, more dividend digits do not change the rounded result *)
Lemma quo_sticky : forall n N c2 E i, 0 < c2 -> c2 * 10 ^ 36 <= N -> 0 <= i ->
  deq (if (N * 10 ^ i) mod c2 =? 0 then fit n (N * 10 ^ i / c2) (E - i)
       else fit n (N * 10 ^ i / c2 * 10 + 1) (E - i - 1))
      (if N mod c2 =? 0 then fit n (N / c2) E else fit n (N / c2 * 10 + 1) (E - 1)).
Proof.
  intros n N c2 E i H2 HN Hi.
  destruct (Z.eq_dec i 0) as [->|Ni].
  { change (10 ^ 0) with 1. rewrite Z.mul_1_r, Z.sub_0_r. left; reflexivity. }
  pose proof (Z.div_mod N c2 ltac:(lia)) as EQ. pose proof (Z.mod_pos_bound N c2 H2) as HR.
  assert (Hq : 10 ^ 36 <= N / c2) by (apply Z.div_le_lower_bound; lia).
  assert (P36 : 0 < 10 ^ 36) by reflexivity.
  set (q0 := N / c2) in *. set (r0 := N mod c2) in *. clearbody q0 r0.
  pose proof (pow10_gt0 i Hi) as HTp.
  assert (PT : 10 ^ i = 10 * 10 ^ (i - 1)).
  { replace i with (Z.succ (i - 1)) at 1 by lia. apply Z.pow_succ_r. lia. }
  pose proof (pow10_gt0 (i - 1) ltac:(lia)) as HT1.
  set (T := 10 ^ i) in *.
  assert (EN : N * T = q0 * T * c2 + r0 * T) by (rewrite EQ; ring).
  assert (Eq1 : N * T / c2 = q0 * T + r0 * T / c2) by (rewrite EN; apply Z.div_add_l; lia).
  assert (Er1 : (N * T) mod c2 = (r0 * T) mod c2).
  { rewrite EN, Z.add_comm. apply Z.mod_add. lia. }
  rewrite Eq1, Er1. clear Eq1 Er1.
  pose proof (Z.div_mod (r0 * T) c2 ltac:(lia)) as EQ'. pose proof (Z.mod_pos_bound (r0 * T) c2 H2) as HR'.
  assert (Ht : 0 <= r0 * T / c2 < T).
  { split; [apply Z.div_pos; nia|]. apply Z.div_lt_upper_bound; nia. }
  set (t := r0 * T / c2) in *. set (r1 := (r0 * T) mod c2) in *. clearbody t r1.
  destruct (Z.eqb_spec r0 0) as [R0|R0].
  - assert (r1 = 0) by nia. assert (t = 0) by nia. subst r1 t.
    cbn [Z.eqb]. rewrite Z.add_0_r. unfold T.
    replace i with (Z.of_nat (Z.to_nat i)) by (apply Z2Nat.id; lia).
    apply fit_scale. lia.
  - left. destruct (Z.eqb_spec r1 0) as [R1|R1].
    + assert (0 < t) by nia.
      replace (q0 * T + t) with (10 * q0 * 10 ^ (i - 1) + t) by (rewrite PT; ring).
      replace (E - i) with (E - 1 - (i - 1)) by lia.
      replace (q0 * 10 + 1) with (10 * q0 + 1) by ring.
      apply fit_sticky; try lia.
      rewrite Z.mul_comm. apply Z.mod_mul. lia.
    + replace ((q0 * T + t) * 10 + 1) with (10 * q0 * 10 ^ i + (10 * t + 1)) by (fold T; ring).
      replace (E - i - 1) with (E - 1 - i) by lia.
      replace (q0 * 10 + 1) with (10 * q0 + 1) by ring.
      apply fit_sticky; try (fold T; lia).
      rewrite Z.mul_comm. apply Z.mod_mul. lia.
Qed.

Lemma quo_scale_u : forall n1 c1 e1 n2 c2 e2 j, 0 < c1 -> 0 < c2 -> 0 <= j ->
  deq (dec_quo (DFin n1 (c1 * 10 ^ j) (e1 - j)) (DFin n2 c2 e2)) (dec_quo (DFin n1 c1 e1) (DFin n2 c2 e2)).
Proof.
  intros n1 c1 e1 n2 c2 e2 j H1 H2 Hj. unfold dec_quo.
  pose proof (pow10_gt0 j Hj) as Hp.
  destruct (Z.eqb_spec c2 0); [lia|]. destruct (Z.eqb_spec c1 0); [lia|].
  destruct (Z.eqb_spec (c1 * 10 ^ j) 0); [nia|].
  cbv zeta. rewrite digits_scale by lia. unfold prec34, pow10.
  set (D := 34 + 3 + digits c2 - digits c1).
  replace (34 + 3 + digits c2 - (digits c1 + j)) with (D - j) by (unfold D; lia).
  destruct (Z_le_gt_dec j D) as [L|G].
  - rewrite (Z.max_r 0 (D - j)), (Z.max_r 0 D) by lia.
    replace (c1 * 10 ^ j * 10 ^ (D - j)) with (c1 * 10 ^ D).
    2:{ rewrite <- Z.mul_assoc, <- Z.pow_add_r by lia. do 2 f_equal. lia. }
    replace (e1 - j - e2 - (D - j)) with (e1 - e2 - D) by lia. left; reflexivity.
  - rewrite (Z.max_l 0 (D - j)) by lia. change (10 ^ 0) with 1. rewrite Z.mul_1_r.
    set (k0 := Z.max 0 D). set (i := j - k0).
    assert (Hi : 0 <= i) by (unfold i, k0; lia).
    replace (c1 * 10 ^ j) with (c1 * 10 ^ k0 * 10 ^ i).
    2:{ rewrite <- Z.mul_assoc, <- Z.pow_add_r by (unfold k0; lia). do 2 f_equal. unfold i; lia. }
    replace (e1 - j - e2 - 0) with (e1 - e2 - k0 - i) by (unfold i; lia).
    apply quo_sticky; try lia.
    pose proof (digits_pos c1 H1). pose proof (digits_pos c2 H2).
    pose proof (digits_spec c2 H2) as [_ B2].
    assert (Hn : 0 < c1 * 10 ^ k0) by (apply Z.mul_pos_pos; [lia|apply pow10_gt0; unfold k0; lia]).
    pose proof (digits_spec (c1 * 10 ^ k0) Hn) as [A1 _].
    rewrite digits_scale in A1 by (unfold k0; lia).
    assert (10 ^ (digits c2 + 36) <= 10 ^ (digits c1 + k0 - 1)) by (apply Z.pow_le_mono_r; unfold k0, D; lia).
    rewrite Z.pow_add_r in H3 by lia.
    assert (0 < 10 ^ 36) by reflexivity. nia.
Qed.

Lemma dec_quo_wf_u : forall n1 c1 e1 n2 c2 e2, 0 <= c1 -> 0 < c2 ->
  dec_wf (dec_quo (DFin n1 c1 e1) (DFin n2 c2 e2)).
Proof.
  intros n1 c1 e1 n2 c2 e2 H1 H2. unfold dec_quo. pose proof P34_pos as HP.
  destruct (Z.eqb_spec c2 0); [lia|].
  destruct (Z.eqb_spec c1 0); [cbn [dec_wf]; lia|]. cbv zeta.
  assert (0 <= c1 * pow10 (Z.max 0 (prec34 + 3 + digits c2 - digits c1)) / c2).
  { apply Z.div_pos; [|lia]. apply Z.mul_nonneg_nonneg; [lia|]. apply Z.pow_nonneg; lia. }
  destruct (_ =? 0); apply fit_wf; lia.
Qed.

(* dec_quo depends on the VALUE of an unrounded dividend only *)
Lemma dec_quo_ueq : forall t t' n2 c2 e2, ueq t t' -> 0 < c2 ->
  drel (dec_quo t (DFin n2 c2 e2)) (dec_quo t' (DFin n2 c2 e2)).
Proof.
  intros [n c e| |] [n' c' e'| |] n2 c2 e2 H H2; try contradiction. destruct H as (P & P' & E).
  split; [apply dec_quo_wf_u; assumption|]. split; [apply dec_quo_wf_u; assumption|].
  destruct (fin_equal_inv _ _ _ _ _ _ P P' E) as [[-> ->]|(Q & Q' & <- & [[L ->]|[L ->]])].
  - unfold dec_quo. destruct (Z.eqb_spec c2 0); [lia|]. cbn [Z.eqb]. apply deq_zero.
  - pose proof (quo_scale_u n c' e' n2 c2 e2 (e' - e) Q' H2 ltac:(lia)) as K.
    replace (e' - (e' - e)) with e in K by lia. exact K.
  - apply deq_sym. pose proof (quo_scale_u n c e n2 c2 e2 (e - e') Q H2 ltac:(lia)) as K.
    replace (e - (e - e')) with e' in K by lia. exact K.
Qed.

Lemma avg_rel : forall v v', vrel v v' -> orel vrel (avg v) (avg v').
Proof.
  intros v v' H. destruct H; try constructor.
  destruct H as [|x x' l l' Hx Hl]; [constructor; constructor|].
  cbn [avg]. rewrite <- (Forall2_length' _ _ _ (Forall2_cons _ _ Hx Hl)).
  eapply orel_bind; [apply sum_loop_rel; [constructor; assumption|apply ueq_zero0|apply drel_zero0]|].
  intros [[t s] f] [[t' s'] f'] (Ht & Hs & Hf). cbn [fst snd] in *. subst f'.
  apply trap_rel. left. destruct f; [|exact Hs].
  apply dec_quo_ueq; [exact Ht|]. cbn [length]. lia.
Qed.

Lemma contains_rel : forall x x' y y', vrel x x' -> vrel y y' -> orel vrel (contains x y) (contains x' y').
Proof.
  intros x x' y y' Hx Hy. destruct Hx; try constructor.
  - destruct Hy; constructor; constructor.
  - cbn [contains].
    assert (E : existsb (fun xi => equal xi y) l = existsb (fun xi => equal xi y') l').
    { induction H as [|u u' r r' Hu Hr IH]; [reflexivity|]. cbn [existsb].
      rewrite (equal_rel u u' y y' Hu Hy), IH. reflexivity. }
    rewrite E. constructor.
Qed.

(* ---- sorting and extrema ---- *)
Section SortRel.
  Context {A B : Type} (R : A -> B -> Prop) (le : A -> A -> bool) (le' : B -> B -> bool).
  Hypothesis Hle : forall x x' y y', R x x' -> R y y' -> le x y = le' x' y'.

  Lemma insert_after_rel : forall x x' l l', R x x' -> Forall2 R l l' ->
    Forall2 R (insert_after le x l) (insert_after le' x' l').
  Proof.
    intros x x' l l' Hx H. induction H as [|y y' r r' Hy Hr IH]; cbn [insert_after].
    - constructor; [exact Hx|constructor].
    - rewrite (Hle y y' x x' Hy Hx). destruct (le' y' x'); constructor; auto.
  Qed.

  Lemma stable_sort_rel : forall l l', Forall2 R l l' -> Forall2 R (stable_sort le l) (stable_sort le' l').
  Proof.
    intros l l' H. unfold stable_sort.
    assert (G : forall acc acc', Forall2 R acc acc' ->
                Forall2 R (fold_left (fun a x => insert_after le x a) l acc)
                          (fold_left (fun a x => insert_after le' x a) l' acc')).
    { induction H as [|y y' r r' Hy Hr IH]; intros acc acc' Ha; cbn [fold_left]; [exact Ha|].
      apply IH. apply insert_after_rel; assumption. }
    apply G. constructor.
  Qed.
End SortRel.

Lemma all_strings_rel : forall l l', Forall2 vrel l l' -> all_strings l = all_strings l'.
Proof.
  intros l l' H. induction H as [|v v' r r' Hv Hr IH]; [reflexivity|].
  destruct Hv; cbn [all_strings]; try reflexivity. rewrite IH. reflexivity.
Qed.

Definition oldrel (o o' : option (list dec)) : Prop :=
  match o, o' with
  | None, None => True
  | Some d, Some d' => Forall2 drel d d'
  | _, _ => False
  end.
Lemma all_decimals_rel : forall l l', Forall2 vrel l l' -> oldrel (all_decimals l) (all_decimals l').
Proof.
  intros l l' H. induction H as [|v v' r r' Hv Hr IH]; [constructor|].
  cbn [all_decimals]. pose proof (to_decimal_rel v v' Hv) as D. unfold odrel in D.
  destruct (to_decimal v), (to_decimal v'); try contradiction; try exact I.
  unfold oldrel in *. destruct (all_decimals r), (all_decimals r'); try contradiction; try exact I.
  cbn [option_map]. constructor; assumption.
Qed.

Lemma Forall2_combine : forall {A B C D} (R : A -> B -> Prop) (S : C -> D -> Prop) l l' k k',
  Forall2 R l l' -> Forall2 S k k' ->
  Forall2 (fun p p' => R (fst p) (fst p') /\ S (snd p) (snd p')) (combine l k) (combine l' k').
Proof.
  intros A B C D R S l l' k k' H. revert k k'. induction H; intros k k' K; [constructor|].
  destruct K; [constructor|]. cbn [combine]. constructor; [split; assumption|]. apply IHForall2. assumption.
Qed.

Lemma Forall2_map_fst : forall {A B C D} (R : A -> B -> Prop) (S : C -> D -> Prop) l l',
  Forall2 (fun p p' => R (fst p) (fst p') /\ S (snd p) (snd p')) l l' -> Forall2 R (map fst l) (map fst l').
Proof. intros. induction H; cbn [map]; constructor; tauto. Qed.

Lemma vrel_refl_strs : forall ss, Forall2 vrel (map VStr ss) (map VStr ss).
Proof. induction ss; cbn [map]; constructor; [constructor|assumption]. Qed.

Lemma sort_pairs_rel : forall a a' ds ds', Forall2 vrel a a' -> Forall2 drel ds ds' ->
  Forall2 vrel (map fst (stable_sort (fun x y => dec_leb (snd x) (snd y)) (combine a ds)))
               (map fst (stable_sort (fun x y => dec_leb (snd x) (snd y)) (combine a' ds'))).
Proof.
  intros a a' ds ds' Ha Hd.
  eapply (Forall2_map_fst vrel drel).
  apply (stable_sort_rel (fun p p' => vrel (fst p) (fst p') /\ drel (snd p) (snd p'))).
  - intros x x' y y' [_ Hx] [_ Hy]. apply dec_leb_rel; assumption.
  - apply Forall2_combine; assumption.
Qed.

Lemma sort_array_rel : forall v v', vrel v v' -> orel vrel (sort_array v) (sort_array v').
Proof.
  intros v v' H. destruct H; try constructor.
  destruct H as [|x x' l l' Hx Hl]; [constructor; constructor; constructor|].
  assert (Num : orel vrel
    match all_decimals (x :: l) with
    | Some ds => Ok (VArr (map fst (stable_sort (fun x y => dec_leb (snd x) (snd y)) (combine (x :: l) ds))))
    | None => Err EInvalidType end
    match all_decimals (x' :: l') with
    | Some ds => Ok (VArr (map fst (stable_sort (fun x y => dec_leb (snd x) (snd y)) (combine (x' :: l') ds))))
    | None => Err EInvalidType end).
  { pose proof (all_decimals_rel (x :: l) (x' :: l') (Forall2_cons _ _ Hx Hl)) as D. unfold oldrel in D.
    destruct (all_decimals (x :: l)), (all_decimals (x' :: l')); try contradiction; constructor.
    constructor. apply sort_pairs_rel; [constructor; assumption|exact D]. }
  destruct Hx; try exact Num.
  cbn [sort_array]. rewrite <- (all_strings_rel (VStr s :: l) (VStr s :: l') (Forall2_cons _ _ (vrel_str s) Hl)).
  destruct (all_strings (VStr s :: l)); constructor. constructor. apply vrel_refl_strs.
Qed.

Lemma extreme_str_rel : forall gt l l', Forall2 vrel l l' -> forall best,
  extreme_str gt best l = extreme_str gt best l'.
Proof.
  intros gt l l' H. induction H as [|v v' r r' Hv Hr IH]; intros best; [reflexivity|].
  destruct Hv; cbn [extreme_str]; try reflexivity. apply IH.
Qed.

Lemma extreme_dec_rel : forall gt l l', Forall2 vrel l l' -> forall best best', drel best best' ->
  orel drel (extreme_dec gt best l) (extreme_dec gt best' l').
Proof.
  intros gt l l' H. induction H as [|v v' r r' Hv Hr IH]; intros best best' Hb; cbn [extreme_dec].
  - constructor; exact Hb.
  - pose proof (to_decimal_rel v v' Hv) as D. unfold odrel in D.
    destruct (to_decimal v), (to_decimal v'); try contradiction; try constructor.
    apply IH. destruct gt.
    + rewrite (dec_greater_rel d d0 best best') by assumption. destruct (dec_greater d0 best'); assumption.
    + rewrite (dec_less_rel d d0 best best') by assumption. destruct (dec_less d0 best'); assumption.
Qed.

Lemma array_extreme_rel : forall gt v v', vrel v v' -> orel vrel (array_extreme gt v) (array_extreme gt v').
Proof.
  intros gt v v' H. destruct H; try constructor.
  destruct H as [|x x' l l' Hx Hl]; [constructor; constructor|].
  assert (Num : orel vrel
    match to_decimal x with
    | None => Err EInvalidType
    | Some d => do m <- extreme_dec gt d l; Ok (vdec m) end
    match to_decimal x' with
    | None => Err EInvalidType
    | Some d => do m <- extreme_dec gt d l'; Ok (vdec m) end).
  { pose proof (to_decimal_rel x x' Hx) as D. unfold odrel in D.
    destruct (to_decimal x), (to_decimal x'); try contradiction; try constructor.
    eapply orel_bind; [apply extreme_dec_rel; eassumption|].
    intros a a' Ha. constructor. apply vdec_rel; exact Ha. }
  destruct Hx; try exact Num.
  cbn [array_extreme]. rewrite (extreme_str_rel gt l l' Hl s).
  destruct (extreme_str gt s l'); constructor. constructor.
Qed.

(* ---- reflexivity: values whose decimal128 leaves are well formed ---- *)
Fixpoint val_dwf (v : value) : Prop :=
  match v with
  | VNum n => num_dwf n
  | VArr l => (fix go (l : list value) : Prop := match l with [] => True | x :: r => val_dwf x /\ go r end) l
  | VObj m => (fix go (m : list (bytes * value)) : Prop :=
                 match m with [] => True | (_, x) :: r => val_dwf x /\ go r end) m
  | _ => True
  end.

Lemma val_dwf_arr : forall l, val_dwf (VArr l) <-> Forall val_dwf l.
Proof.
  induction l as [|x r IH].
  - split; intros; constructor.
  - change (val_dwf (VArr (x :: r))) with (val_dwf x /\ val_dwf (VArr r)).
    rewrite IH, Forall_cons_iff. reflexivity.
Qed.
Lemma val_dwf_obj : forall m, val_dwf (VObj m) <-> Forall (fun kv => val_dwf (snd kv)) m.
Proof.
  induction m as [|[k x] r IH].
  - split; intros; constructor.
  - change (val_dwf (VObj ((k, x) :: r))) with (val_dwf x /\ val_dwf (VObj r)).
    rewrite IH, Forall_cons_iff. reflexivity.
Qed.

Lemma vrel_refl : forall v, val_dwf v -> vrel v v.
Proof.
  induction v as [| b | s | n | a IH | a IH | t] using value_ind'; intros W; try constructor.
  - left. split; [reflexivity|exact W].
  - apply val_dwf_arr in W. induction a as [|x r IHr]; constructor.
    + apply (Forall_inv IH). exact (Forall_inv W).
    + apply IHr; [exact (Forall_inv_tail IH)|exact (Forall_inv_tail W)].
  - apply val_dwf_obj in W. induction a as [|[k x] r IHr]; constructor.
    + split; [reflexivity|]. apply (Forall_inv IH). exact (Forall_inv W).
    + apply IHr; [exact (Forall_inv_tail IH)|exact (Forall_inv_tail W)].
Qed.

Lemma vrel_dwf_l : forall v v', vrel v v' -> val_dwf v.
Proof.
  induction v as [| b | s | n | a IH | a IH | t] using value_ind'; intros v' H; try exact I.
  - destruct (vrel_num_inv _ _ H) as (n' & -> & [[_ W]|(_ & _ & W & _)]); [exact W|apply num_wf_dwf; exact W].
  - destruct (vrel_arr_inv _ _ H) as (a' & -> & HA). apply val_dwf_arr. clear H.
    induction HA; constructor.
    + eapply (Forall_inv IH); eassumption.
    + apply IHHA. exact (Forall_inv_tail IH).
  - destruct (vrel_obj_inv _ _ H) as (a' & -> & HA). apply val_dwf_obj. clear H.
    induction HA as [|x y r r' [_ Hxy] Hr IHr]; constructor.
    + eapply (Forall_inv IH); eassumption.
    + apply IHr. exact (Forall_inv_tail IH).
Qed.

Fixpoint nodec (v : value) : bool :=
  match v with
  | VNum (NDec _) => false
  | VArr l => forallb nodec l
  | VObj m => forallb (fun kv => nodec (snd kv)) m
  | _ => true
  end.
Lemma nodec_dwf : forall v, nodec v = true -> val_dwf v.
Proof.
  induction v as [| b | s | n | a IH | a IH | t] using value_ind'; intros H; try exact I.
  - destruct n; try exact I. discriminate.
  - apply val_dwf_arr. cbn [nodec] in H. rewrite forallb_forall in H. rewrite Forall_forall in *.
    intros x Hx. apply IH; auto.
  - apply val_dwf_obj. cbn [nodec] in H. rewrite forallb_forall in H. rewrite Forall_forall in *.
    intros x Hx. apply IH; auto.
Qed.

Definition oknd (o : outcome value) : Prop := match o with Ok v => nodec v = true | _ => True end.
Lemma orel_refl_nd : forall o, oknd o -> orel vrel o o.
Proof. intros [v| | | |] H; constructor. apply vrel_refl, nodec_dwf. exact H. Qed.
Lemma orel_of_eq : forall o o', o = o' -> oknd o -> orel vrel o o'.
Proof. intros o o' <-. apply orel_refl_nd. Qed.

Lemma nodec_strs : forall l, forallb nodec (map VStr l) = true.
Proof. induction l; simpl; auto. Qed.

Ltac nd_step :=
  match goal with
  | |- oknd (bind ?o _) => destruct o; cbn [bind oknd]
  | |- oknd (if ?b then _ else _) => destruct b
  | |- oknd (match ?x with _ => _ end) => destruct x
  | |- oknd (let '(_, _) := ?x in _) => destruct x
  end.
Ltac nd_tac := repeat nd_step; cbn [oknd nodec vint vstr vdec vflt]; try exact I; try reflexivity; try apply nodec_strs.

Lemma nd_find_first : forall a b, oknd (find_first a b). Proof. intros. unfold find_first. nd_tac. Qed.
Lemma nd_find_last : forall a b, oknd (find_last a b). Proof. intros. unfold find_last. nd_tac. Qed.
Lemma nd_ends_with : forall a b, oknd (ends_with a b). Proof. intros. unfold ends_with. nd_tac. Qed.
Lemma nd_starts_with : forall a b, oknd (starts_with a b). Proof. intros. unfold starts_with. nd_tac. Qed.
Lemma nd_find_from : forall l a b c, oknd (find_from l a b c). Proof. intros. unfold find_from. nd_tac. Qed.
Lemma nd_split : forall a b, oknd (split a b). Proof. intros. unfold split. nd_tac. Qed.
Lemma nd_split_count : forall a b c, oknd (split_count a b c). Proof. intros. unfold split_count. nd_tac. Qed.
Lemma nd_replace : forall a b c, oknd (replace a b c). Proof. intros. unfold replace. nd_tac. Qed.
Lemma nd_replace_count : forall a b c d, oknd (replace_count a b c d). Proof. intros. unfold replace_count. nd_tac. Qed.
Lemma nd_trim_space : forall a, oknd (trim_space a). Proof. intros. unfold trim_space. nd_tac. Qed.
Lemma nd_trim_space_left : forall a, oknd (trim_space_left a). Proof. intros. unfold trim_space_left. nd_tac. Qed.
Lemma nd_trim_space_right : forall a, oknd (trim_space_right a). Proof. intros. unfold trim_space_right. nd_tac. Qed.
Lemma nd_trim : forall a b, oknd (trim a b). Proof. intros. unfold trim. nd_tac. Qed.
Lemma nd_trim_left : forall a b, oknd (trim_left a b). Proof. intros. unfold trim_left. nd_tac. Qed.
Lemma nd_trim_right : forall a b, oknd (trim_right a b). Proof. intros. unfold trim_right. nd_tac. Qed.
Lemma nd_lower : forall a, oknd (lower a). Proof. intros. unfold lower. nd_tac. Qed.
Lemma nd_upper : forall a, oknd (upper a). Proof. intros. unfold upper. nd_tac. Qed.

(* ---- list plumbing ---- *)
Section F2.
  Context {A B : Type} (R : A -> B -> Prop).
  Lemma F2_app : forall l l' k k', Forall2 R l l' -> Forall2 R k k' -> Forall2 R (l ++ k) (l' ++ k').
  Proof. intros l l' k k' H K. induction H; cbn [app]; [exact K|constructor; assumption]. Qed.
  Lemma F2_rev : forall l l', Forall2 R l l' -> Forall2 R (rev l) (rev l').
  Proof. intros l l' H. induction H; cbn [rev]; [constructor|]. apply F2_app; [assumption|]. constructor; [assumption|constructor]. Qed.
  Lemma F2_firstn : forall n l l', Forall2 R l l' -> Forall2 R (firstn n l) (firstn n l').
  Proof. induction n; intros l l' H; [constructor|]. destruct H; cbn [firstn]; constructor; auto. Qed.
  Lemma F2_skipn : forall n l l', Forall2 R l l' -> Forall2 R (skipn n l) (skipn n l').
  Proof. induction n; intros l l' H; [exact H|]. destruct H; cbn [skipn]; [constructor|auto]. Qed.
  Lemma F2_nth : forall n l l' d d', Forall2 R l l' -> R d d' -> R (nth n l d) (nth n l' d').
  Proof. induction n; intros l l' d d' H Hd; destruct H; cbn [nth]; auto. Qed.
  Lemma F2_nth_error : forall n l l', Forall2 R l l' ->
    match nth_error l n, nth_error l' n with
    | Some x, Some x' => R x x' | None, None => True | _, _ => False end.
  Proof. induction n; intros l l' H; destruct H; cbn [nth_error]; auto; try exact I; apply IHn; assumption. Qed.
  Lemma F2_filter : forall (p : A -> bool) (p' : B -> bool), (forall x x', R x x' -> p x = p' x') ->
    forall l l', Forall2 R l l' -> Forall2 R (filter p l) (filter p' l').
  Proof.
    intros p p' Hp l l' H. induction H; cbn [filter]; [constructor|].
    rewrite (Hp x y H). destruct (p' y); [constructor|]; assumption.
  Qed.
End F2.

Lemma F2_map : forall {A B C D} (R : A -> B -> Prop) (S : C -> D -> Prop) (f : A -> C) (g : B -> D),
  (forall x x', R x x' -> S (f x) (g x')) -> forall l l', Forall2 R l l' -> Forall2 S (map f l) (map g l').
Proof. intros A B C D R S f g H l l' K. induction K; cbn [map]; constructor; auto. Qed.

Lemma F2_flat_map : forall {A B C D} (R : A -> B -> Prop) (S : C -> D -> Prop) (f : A -> list C) (g : B -> list D),
  (forall x x', R x x' -> Forall2 S (f x) (g x')) -> forall l l', Forall2 R l l' ->
  Forall2 S (flat_map f l) (flat_map g l').
Proof. intros A B C D R S f g H l l' K. induction K; cbn [flat_map]; [constructor|]. apply F2_app; auto. Qed.

Lemma zlen_rel : forall {A B} (R : A -> B -> Prop) l l', Forall2 R l l' -> zlen l = zlen l'.
Proof. intros. unfold zlen. rewrite (Forall2_length' _ _ _ H). reflexivity. Qed.

(* ---- string functions: every argument is read through str_arg / int_arg ---- *)
Lemma bind_str_rel : forall v v' (k k' : bytes -> outcome value), vrel v v' ->
  (forall s, orel vrel (k s) (k' s)) -> orel vrel (bind (str_arg v) k) (bind (str_arg v') k').
Proof.
  intros v v' k k' H K. rewrite <- (str_arg_rel v v' H). destruct (str_arg v); cbn [bind]; try constructor. apply K.
Qed.
Lemma bind_int_rel : forall v v' (k k' : Z -> outcome value), vrel v v' ->
  (forall s, orel vrel (k s) (k' s)) -> orel vrel (bind (int_arg v) k) (bind (int_arg v') k').
Proof.
  intros v v' k k' H K. rewrite <- (int_arg_rel v v' H). destruct (int_arg v); cbn [bind]; try constructor. apply K.
Qed.

Ltac sfn := repeat first [ apply bind_str_rel; [assumption|intros ?] | apply bind_int_rel; [assumption|intros ?] ];
            try (apply orel_refl_nd; nd_tac).

Lemma ends_with_rel : forall a a' b b', vrel a a' -> vrel b b' -> orel vrel (ends_with a b) (ends_with a' b').
Proof. intros. unfold ends_with. sfn. Qed.
Lemma starts_with_rel : forall a a' b b', vrel a a' -> vrel b b' -> orel vrel (starts_with a b) (starts_with a' b').
Proof. intros. unfold starts_with. sfn. Qed.
Lemma find_first_rel : forall a a' b b', vrel a a' -> vrel b b' -> orel vrel (find_first a b) (find_first a' b').
Proof. intros. unfold find_first. sfn. Qed.
Lemma find_last_rel : forall a a' b b', vrel a a' -> vrel b b' -> orel vrel (find_last a b) (find_last a' b').
Proof. intros. unfold find_last. sfn. Qed.
Lemma find_from_rel : forall l a a' b b' c c', vrel a a' -> vrel b b' -> vrel c c' ->
  orel vrel (find_from l a b c) (find_from l a' b' c').
Proof. intros. unfold find_from. sfn. Qed.
Lemma split_rel : forall a a' b b', vrel a a' -> vrel b b' -> orel vrel (split a b) (split a' b').
Proof. intros. unfold split. sfn. Qed.
Lemma split_count_rel : forall a a' b b' c c', vrel a a' -> vrel b b' -> vrel c c' ->
  orel vrel (split_count a b c) (split_count a' b' c').
Proof. intros. unfold split_count. sfn. Qed.
Lemma replace_rel : forall a a' b b' c c', vrel a a' -> vrel b b' -> vrel c c' ->
  orel vrel (replace a b c) (replace a' b' c').
Proof. intros. unfold replace. sfn. Qed.
Lemma replace_count_rel : forall a a' b b' c c' d d', vrel a a' -> vrel b b' -> vrel c c' -> vrel d d' ->
  orel vrel (replace_count a b c d) (replace_count a' b' c' d').
Proof. intros. unfold replace_count. sfn. Qed.
Lemma trim_space_rel : forall a a', vrel a a' -> orel vrel (trim_space a) (trim_space a').
Proof. intros. unfold trim_space. sfn. Qed.
Lemma trim_space_left_rel : forall a a', vrel a a' -> orel vrel (trim_space_left a) (trim_space_left a').
Proof. intros. unfold trim_space_left. sfn. Qed.
Lemma trim_space_right_rel : forall a a', vrel a a' -> orel vrel (trim_space_right a) (trim_space_right a').
Proof. intros. unfold trim_space_right. sfn. Qed.
Lemma trim_rel : forall a a' b b', vrel a a' -> vrel b b' -> orel vrel (trim a b) (trim a' b').
Proof. intros. unfold trim. sfn. Qed.
Lemma trim_left_rel : forall a a' b b', vrel a a' -> vrel b b' -> orel vrel (trim_left a b) (trim_left a' b').
Proof. intros. unfold trim_left. sfn. Qed.
Lemma trim_right_rel : forall a a' b b', vrel a a' -> vrel b b' -> orel vrel (trim_right a b) (trim_right a' b').
Proof. intros. unfold trim_right. sfn. Qed.

Lemma pad_rel : forall l a a' b b' c c', vrel a a' -> vrel b b' ->
  match c, c' with Some x, Some x' => vrel x x' | None, None => True | _, _ => False end ->
  orel vrel (pad l a b c) (pad l a' b' c').
Proof.
  intros l a a' b b' c c' Ha Hb Hc.
  destruct Ha; try (unfold pad; cbn [str_arg bind]; constructor; fail).
  unfold pad. cbn [str_arg bind].
  destruct c as [x|], c' as [x'|]; try contradiction.
  - sfn.
  - cbn [bind]. sfn.
Qed.

Lemma find_between_rel : forall l a a' b b' c c' d d', vrel a a' -> vrel b b' -> vrel c c' -> vrel d d' ->
  orel vrel (find_between l a b c d) (find_between l a' b' c' d').
Proof.
  intros l a a' b b' c c' d d' Ha Hb Hc Hd. unfold find_between.
  apply bind_str_rel; [assumption|intros s]. apply bind_str_rel; [assumption|intros p].
  rewrite <- (to_int_rel c c' Hc), <- (to_int_rel d d' Hd), <- (int_arg_rel d d' Hd).
  pose proof (to_decimal_some_rel c c' Hc) as K.
  destruct (to_decimal c), (to_decimal c'); try contradiction; apply orel_refl_nd; nd_tac.
Qed.

Lemma join_loop_rel : forall s l l', Forall2 vrel l l' -> join_loop s l = join_loop s l'.
Proof.
  intros s l l' H. induction H as [|v v' r r' Hv Hr IH]; [reflexivity|].
  cbn [join_loop]. rewrite (str_arg_rel v v' Hv), IH. reflexivity.
Qed.
Lemma join_rel : forall a a' b b', vrel a a' -> vrel b b' -> orel vrel (join a b) (join a' b').
Proof.
  intros a a' b b' Ha Hb. destruct Hb; try (unfold join; constructor; fail).
  unfold join. apply bind_str_rel; [assumption|intros s].
  destruct H as [|v v' r r' Hv Hr]; [constructor; constructor|].
  apply bind_str_rel; [assumption|intros e]. rewrite (join_loop_rel s r r' Hr).
  apply orel_refl_nd. nd_tac.
Qed.

Lemma lower_rel : forall a a', vrel a a' -> orel vrel (lower a) (lower a').
Proof. intros a a' H. destruct H; try constructor. apply orel_refl_nd. unfold lower. nd_tac. Qed.
Lemma upper_rel : forall a a', vrel a a' -> orel vrel (upper a) (upper a').
Proof. intros a a' H. destruct H; try constructor. apply orel_refl_nd. unfold upper. nd_tac. Qed.

(* ---- structural functions ---- *)
Lemma length_rel : forall a a', vrel a a' -> orel vrel (length_ a) (length_ a').
Proof.
  intros a a' H. destruct H; try constructor; cbn [length_].
  - apply vint_rel.
  - rewrite (zlen_rel _ _ _ H). apply vint_rel.
  - rewrite (zlen_rel _ _ _ H). apply vint_rel.
Qed.

Lemma reverse_rel : forall a a', vrel a a' -> orel vrel (reverse a) (reverse a').
Proof.
  intros a a' H. destruct H; try constructor; cbn [reverse].
  - constructor.
  - constructor. apply F2_rev. assumption.
Qed.

Lemma to_array_rel : forall a a', vrel a a' -> vrel (to_array a) (to_array a').
Proof.
  intros a a' H. assert (G : vrel (VArr [a]) (VArr [a'])) by (constructor; constructor; [exact H|constructor]).
  destruct H; cbn [to_array]; try exact G. constructor; assumption.
Qed.

Lemma assoc_set_rel : forall k v v' m m', vrel v v' -> Forall2 kvrel m m' ->
  Forall2 kvrel (assoc_set k v m) (assoc_set k v' m').
Proof.
  intros k v v' m m' Hv H. induction H as [|[a x] [a' x'] r r' [E R] Hr IH]; cbn [assoc_set].
  - constructor; [split; [reflexivity|exact Hv]|constructor].
  - simpl in E. subst a'. destruct (beqb k a).
    + constructor; [split; [reflexivity|exact Hv]|exact Hr].
    + constructor; [split; [reflexivity|exact R]|exact IH].
Qed.

Lemma from_items_loop_rel : forall l l', Forall2 vrel l l' -> forall acc acc', Forall2 kvrel acc acc' ->
  orel (Forall2 kvrel) (from_items_loop l acc) (from_items_loop l' acc').
Proof.
  intros l l' H. induction H as [|v v' r r' Hv Hr IH]; intros acc acc' Ha; cbn [from_items_loop].
  - constructor; exact Ha.
  - destruct Hv; try constructor.
    destruct H as [|k k' q q' Hk Hq]; [constructor|].
    destruct Hq as [|x x' q q' Hx Hq]; [destruct Hk; constructor|].
    destruct Hq; [|destruct Hk; constructor].
    destruct Hk; try constructor. apply IH. apply assoc_set_rel; assumption.
Qed.

Lemma forallb_is_arr_rel : forall l l', Forall2 vrel l l' -> forallb is_arr l = forallb is_arr l'.
Proof.
  induction 1 as [|a b l l' Hab _ IH]; [reflexivity|]. cbn [forallb]. rewrite IH. f_equal.
  destruct Hab; reflexivity.
Qed.
Lemma from_items_rel : forall a a', vrel a a' -> orel vrel (from_items a) (from_items a').
Proof.
  intros a a' H. destruct H; try constructor. cbn [from_items].
  match goal with F : Forall2 vrel ?l ?l' |- _ => rewrite (forallb_is_arr_rel _ _ F); destruct (forallb is_arr l'); [|constructor] end.
  eapply orel_bind; [apply from_items_loop_rel; [eassumption|constructor]|].
  intros m m' Hm. constructor. constructor. exact Hm.
Qed.

Lemma items_rel : forall a a', vrel a a' -> orel vrel (items a) (items a').
Proof.
  intros a a' H. destruct H; try constructor. cbn [items]. constructor.
  eapply F2_map; [|exact H]. intros [k x] [k' x'] [E R]. simpl in *. subst k'.
  constructor. constructor; [constructor|]. constructor; [exact R|constructor].
Qed.
Lemma keys_rel : forall a a', vrel a a' -> orel vrel (keys a) (keys a').
Proof.
  intros a a' H. destruct H; try constructor. cbn [keys]. constructor.
  eapply F2_map; [|exact H]. intros [k x] [k' x'] [E R]. simpl in *. subst k'. constructor.
Qed.
Lemma values_rel : forall a a', vrel a a' -> orel vrel (values a) (values a').
Proof.
  intros a a' H. destruct H; try constructor. cbn [values]. constructor.
  eapply F2_map; [|exact H]. intros [k x] [k' x'] [E R]. exact R.
Qed.
Lemma object_values_rel : forall a a', vrel a a' -> vrel (object_values a) (object_values a').
Proof.
  intros a a' H. destruct H; try constructor. cbn [object_values].
  apply F2_filter.
  - intros x x' R. destruct R; reflexivity.
  - eapply F2_map; [|exact H]. intros [k x] [k' x'] [E R]. exact R.
Qed.

Lemma field_rel : forall name a a', vrel a a' -> vrel (field name a) (field name a').
Proof.
  intros name a a' H. destruct H; try constructor. cbn [field].
  pose proof (assoc_rel name m m' H) as A.
  destruct (assoc name m), (assoc name m'); try contradiction; [exact A|constructor].
Qed.

Lemma drop_nulls_rel : forall l l', Forall2 vrel l l' -> Forall2 vrel (drop_nulls l) (drop_nulls l').
Proof.
  intros. unfold drop_nulls. apply F2_filter; [|assumption].
  intros x x' R. rewrite (is_null_rel x x' R). reflexivity.
Qed.

Lemma flatten_rel : forall a a', vrel a a' -> vrel (flatten a) (flatten a').
Proof.
  intros a a' H. destruct H; try constructor. cbn [flatten].
  eapply F2_flat_map; [|exact H]. intros x x' R.
  destruct R; try (constructor; [constructor; assumption|constructor]); try constructor.
  apply drop_nulls_rel. assumption.
Qed.

Lemma prune_array_rel : forall a a', vrel a a' -> vrel (prune_array a) (prune_array a').
Proof. intros a a' H. destruct H; try constructor. cbn [prune_array]. apply drop_nulls_rel. assumption. Qed.

Lemma index_rel : forall i a a', vrel a a' -> vrel (index a i) (index a' i).
Proof.
  intros i a a' H. destruct H; try constructor. cbn [index]. rewrite <- (zlen_rel _ _ _ H).
  destruct (i <? 0).
  - destruct (i + zlen l <? 0); [constructor|]. apply F2_nth; [assumption|constructor].
  - destruct (i >=? zlen l); [constructor|]. apply F2_nth; [assumption|constructor].
Qed.

Lemma sub_rel : forall l l' i j, Forall2 vrel l l' -> orel (Forall2 vrel) (sub l i j) (sub l' i j).
Proof.
  intros l l' i j H. unfold sub. rewrite <- (zlen_rel _ _ _ H).
  destruct (_ && _); constructor. apply F2_firstn. apply F2_skipn. assumption.
Qed.

Lemma slice_rel : forall a a' i j, vrel a a' -> orel vrel (slice a i j) (slice a' i j).
Proof.
  intros a a' i j H. destruct H; try (constructor; constructor; fail).
  - apply orel_refl_nd. unfold slice. nd_tac.
  - cbn [slice]. rewrite <- (zlen_rel _ _ _ H).
    destruct (norm1 (zlen l) i j false); [constructor; constructor; constructor|].
    eapply orel_bind; [apply sub_rel; eassumption|]. intros r r' Hr. constructor. constructor. exact Hr.
Qed.

Lemma at_rel : forall l l' j, Forall2 vrel l l' -> orel vrel (at_ l j) (at_ l' j).
Proof.
  intros l l' j H. unfold at_. rewrite <- (zlen_rel _ _ _ H).
  destruct (_ && _); [|constructor].
  pose proof (F2_nth_error vrel (Z.to_nat j) l l' H) as K.
  destruct (nth_error l (Z.to_nat j)), (nth_error l' (Z.to_nat j)); try contradiction; constructor. exact K.
Qed.

Lemma pick_rel : forall l l' k j step, Forall2 vrel l l' -> orel (Forall2 vrel) (pick l k j step) (pick l' k j step).
Proof.
  intros l l' k. induction k as [|k IH]; intros j step H; cbn [pick]; [constructor; constructor|].
  eapply orel_bind; [apply at_rel; exact H|]. intros x x' Hx.
  eapply orel_bind; [apply IH; exact H|]. intros r r' Hr. constructor. constructor; assumption.
Qed.

Lemma slice_step_rel : forall a a' i j s, vrel a a' -> orel vrel (slice_step a i j s) (slice_step a' i j s).
Proof.
  intros a a' i j s H. destruct H; try (constructor; constructor; fail).
  - apply orel_refl_nd. unfold slice_step. nd_tac.
  - cbn [slice_step]. rewrite <- (zlen_rel _ _ _ H).
    destruct (norm_step (zlen l) i j s) as [[st n]|]; [|constructor; constructor; constructor].
    destruct (s =? 0); [constructor|]. destruct (_ || _); [constructor|].
    eapply orel_bind; [apply pick_rel; eassumption|]. intros r r' Hr. constructor. constructor. exact Hr.
Qed.



(* ================================================================== *)
(* C. the evaluator                                                     *)
(* ================================================================== *)

(* ---- built-in function tables ---- *)
Definition safe1 (f : fn1) : bool := match f with FToString => false | _ => true end.

Lemma call1_rel : forall f a a', safe1 f = true -> vrel a a' -> orel vrel (call1 f a) (call1 f a').
Proof.
  intros f a a' S H. destruct f; try discriminate S; cbn [call1].
  - apply num1_rel; [apply dec_abs_rel|assumption].
  - apply avg_rel; assumption.
  - apply num1_rel; [apply dec_ceil_rel|assumption].
  - apply num1_rel; [apply dec_floor_rel|assumption].
  - apply from_items_rel; assumption.
  - apply items_rel; assumption.
  - apply keys_rel; assumption.
  - apply length_rel; assumption.
  - apply lower_rel; assumption.
  - apply array_extreme_rel; assumption.
  - apply array_extreme_rel; assumption.
  - apply reverse_rel; assumption.
  - apply sort_array_rel; assumption.
  - apply sum_rel; assumption.
  - constructor. apply to_array_rel; assumption.
  - constructor. apply to_number_rel; assumption.
  - apply trim_space_rel; assumption.
  - apply trim_space_left_rel; assumption.
  - apply trim_space_right_rel; assumption.
  - rewrite (type_name_rel a a' H). apply orel_refl_nd. unfold type_name. nd_tac.
  - apply upper_rel; assumption.
  - apply values_rel; assumption.
Qed.

Lemma call2_rel : forall f a a' b b', vrel a a' -> vrel b b' -> orel vrel (call2 f a b) (call2 f a' b').
Proof.
  intros f a a' b b' Ha Hb. destruct f; cbn [call2].
  - apply contains_rel; assumption.
  - apply ends_with_rel; assumption.
  - apply find_first_rel; assumption.
  - apply find_last_rel; assumption.
  - apply join_rel; assumption.
  - apply pad_rel; auto.
  - apply pad_rel; auto.
  - apply split_rel; assumption.
  - apply starts_with_rel; assumption.
  - apply trim_rel; assumption.
  - apply trim_left_rel; assumption.
  - apply trim_right_rel; assumption.
Qed.

Lemma call3_rel : forall f a a' b b' c c', vrel a a' -> vrel b b' -> vrel c c' ->
  orel vrel (call3 f a b c) (call3 f a' b' c').
Proof.
  intros f a a' b b' c c' Ha Hb Hc. destruct f; cbn [call3].
  - apply find_from_rel; assumption.
  - apply find_from_rel; assumption.
  - apply pad_rel; auto.
  - apply pad_rel; auto.
  - apply replace_rel; assumption.
  - apply split_count_rel; assumption.
Qed.

Lemma call4_rel : forall f a a' b b' c c' d d', vrel a a' -> vrel b b' -> vrel c c' -> vrel d d' ->
  orel vrel (call4 f a b c d) (call4 f a' b' c' d').
Proof.
  intros f a a' b b' c c' d d' Ha Hb Hc Hd. destruct f; cbn [call4].
  - apply find_between_rel; assumption.
  - apply find_between_rel; assumption.
  - apply replace_count_rel; assumption.
Qed.

Lemma binop_rel : forall op l l' r r', vrel l l' -> vrel r r' ->
  orel vrel (binop_eval op l r) (binop_eval op l' r').
Proof.
  intros op l l' r r' Hl Hr. destruct op; cbn [binop_eval].
  - apply add_rel; assumption.
  - apply subtract_rel; assumption.
  - apply multiply_rel; assumption.
  - apply divide_rel; assumption.
  - apply integer_divide_rel; assumption.
  - apply modulo_rel; assumption.
  - rewrite (equal_rel l l' r r' Hl Hr). constructor. constructor.
  - rewrite (equal_rel l l' r r' Hl Hr). constructor. constructor.
  - constructor. apply cmp_op_rel; [apply dec_less_rel|assumption..].
  - constructor. apply cmp_op_rel; [apply dec_le_rel|assumption..].
  - constructor. apply cmp_op_rel; [apply dec_greater_rel|assumption..].
  - constructor. apply cmp_op_rel; [apply dec_ge_rel|assumption..].
Qed.

(* ---- helpers with a callback ---- *)
Section Callback.
  Variables ev ev' : value -> outcome value.
  Hypothesis Hev : forall v v', vrel v v' -> orel vrel (ev v) (ev' v').

  Lemma project_list_rel : forall l l', Forall2 vrel l l' ->
    orel (Forall2 vrel) (project_list ev l) (project_list ev' l').
  Proof.
    intros l l' H. induction H as [|v v' r r' Hv Hr IH]; cbn [project_list]; [constructor; constructor|].
    eapply orel_bind; [apply Hev; exact Hv|]. intros p p' Hp.
    eapply orel_bind; [exact IH|]. intros ps ps' Hps. constructor.
    rewrite (is_null_rel p p' Hp). destruct (is_null p'); [exact Hps|constructor; assumption].
  Qed.

  Lemma project_array_rel : forall v v', vrel v v' -> orel vrel (project_array ev v) (project_array ev' v').
  Proof.
    intros v v' H. destruct H; try (constructor; constructor; fail). cbn [project_array].
    eapply orel_bind; [apply project_list_rel; eassumption|]. intros r r' Hr. constructor. constructor. exact Hr.
  Qed.

  Lemma project_object_rel : forall v v', vrel v v' -> orel vrel (project_object ev v) (project_object ev' v').
  Proof.
    intros v v' H. destruct H; try (constructor; constructor; fail). cbn [project_object].
    eapply orel_bind.
    - apply project_list_rel. eapply F2_map; [|exact H]. intros [k x] [k' x'] [E R]. exact R.
    - intros r r' Hr. constructor. constructor. exact Hr.
  Qed.

  Lemma mapM_rel : forall l l', Forall2 vrel l l' -> orel (Forall2 vrel) (mapM ev l) (mapM ev' l').
  Proof.
    intros l l' H. induction H as [|v v' r r' Hv Hr IH]; cbn [mapM]; [constructor; constructor|].
    eapply orel_bind; [apply Hev; exact Hv|]. intros p p' Hp.
    eapply orel_bind; [exact IH|]. intros ps ps' Hps. constructor. constructor; assumption.
  Qed.

  Lemma map_array_rel : forall v v', vrel v v' -> orel vrel (map_array ev v) (map_array ev' v').
  Proof.
    intros v v' H. destruct H; try constructor. cbn [map_array].
    eapply orel_bind; [apply mapM_rel; eassumption|]. intros r r' Hr. constructor. constructor. exact Hr.
  Qed.

  Lemma flatten_and_project_rel : forall v v', vrel v v' ->
    orel vrel (flatten_and_project ev v) (flatten_and_project ev' v').
  Proof.
    intros v v' H. destruct H; try (constructor; constructor; fail). cbn [flatten_and_project].
    eapply orel_bind.
    - apply project_list_rel. eapply F2_flat_map; [|exact H]. intros x x' R.
      destruct R; try (constructor; [constructor; assumption|constructor]); try assumption.
    - intros r r' Hr. constructor. constructor. exact Hr.
  Qed.

  Lemma str_keys_rel : forall l l', Forall2 vrel l l' -> orel eq (str_keys ev l) (str_keys ev' l').
  Proof.
    intros l l' H. induction H as [|v v' r r' Hv Hr IH]; cbn [str_keys]; [constructor; reflexivity|].
    eapply orel_bind; [apply Hev; exact Hv|]. intros k k' Hk.
    destruct Hk; try constructor.
    eapply orel_bind; [exact IH|]. intros ks ks' <-. constructor. reflexivity.
  Qed.

  Lemma num_keys_rel : forall l l', Forall2 vrel l l' -> orel (Forall2 drel) (num_keys ev l) (num_keys ev' l').
  Proof.
    intros l l' H. induction H as [|v v' r r' Hv Hr IH]; cbn [num_keys]; [constructor; constructor|].
    eapply orel_bind; [apply Hev; exact Hv|]. intros k k' Hk.
    pose proof (to_decimal_rel k k' Hk) as D. unfold odrel in D.
    destruct (to_decimal k), (to_decimal k'); try contradiction; try constructor.
    eapply orel_bind; [exact IH|]. intros ks ks' Hks. constructor. constructor; assumption.
  Qed.

  Definition keys_rel_of (k k' : keys_of) : Prop :=
    match k, k' with
    | KStr a, KStr b => a = b
    | KNum a, KNum b => Forall2 drel a b
    | _, _ => False
    end.

  Lemma keys_for_rel : forall a a' l l', vrel a a' -> Forall2 vrel l l' ->
    orel keys_rel_of (keys_for ev a l) (keys_for ev' a' l').
  Proof.
    intros a a' l l' Ha Hl. unfold keys_for.
    eapply orel_bind; [apply Hev; exact Ha|]. intros f f' Hf.
    assert (Num : orel keys_rel_of
      match to_decimal f with
      | None => Err EInvalidType
      | Some d => do ks <- num_keys ev l; Ok (KNum (d :: ks)) end
      match to_decimal f' with
      | None => Err EInvalidType
      | Some d => do ks <- num_keys ev' l'; Ok (KNum (d :: ks)) end).
    { pose proof (to_decimal_rel f f' Hf) as D. unfold odrel in D.
      destruct (to_decimal f), (to_decimal f'); try contradiction; try constructor.
      eapply orel_bind; [apply num_keys_rel; exact Hl|]. intros ks ks' Hks. constructor.
      simpl. constructor; assumption. }
    destruct Hf; try exact Num.
    eapply orel_bind; [apply str_keys_rel; exact Hl|]. intros ks ks' <-. constructor. reflexivity.
  Qed.

  Lemma sort_pairs_str_rel : forall a a' (ss : list bytes), Forall2 vrel a a' ->
    Forall2 vrel (map fst (stable_sort (fun x y => str_leb (snd x) (snd y)) (combine a ss)))
                 (map fst (stable_sort (fun x y => str_leb (snd x) (snd y)) (combine a' ss))).
  Proof.
    intros a a' ss Ha.
    eapply (Forall2_map_fst vrel (@eq bytes)).
    apply (stable_sort_rel (fun p p' => vrel (fst p) (fst p') /\ snd p = snd p')).
    - intros x x' y y' [_ Hx] [_ Hy]. rewrite Hx, Hy. reflexivity.
    - apply Forall2_combine; [assumption|]. clear. induction ss; constructor; auto.
  Qed.

  Lemma sort_array_by_rel : forall v v', vrel v v' -> orel vrel (sort_array_by ev v) (sort_array_by ev' v').
  Proof.
    intros v v' H. destruct H; try constructor.
    destruct H as [|x x' l l' Hx Hl]; [constructor; constructor; constructor|].
    cbn [sort_array_by].
    eapply orel_bind; [apply keys_for_rel; eassumption|]. intros ks ks' Hks.
    destruct ks, ks'; simpl in Hks; try contradiction.
    - subst. constructor. constructor. apply sort_pairs_str_rel. constructor; assumption.
    - constructor. constructor. apply sort_pairs_rel; [constructor; assumption|assumption].
  Qed.

  Lemma best_by_rel : forall {K K'} (RK : K -> K' -> Prop) (better : K -> K -> bool) (better' : K' -> K' -> bool),
    (forall a a' b b', RK a a' -> RK b b' -> better a b = better' a' b') ->
    forall l l', Forall2 (fun p p' => vrel (fst p) (fst p') /\ RK (snd p) (snd p')) l l' ->
    forall bv bv' bk bk', vrel bv bv' -> RK bk bk' ->
    vrel (best_by better bv bk l) (best_by better' bv' bk' l').
  Proof.
    intros K K' RK better better' Hb l l' H.
    induction H as [|[v k] [v' k'] r r' [Hv Hk] Hr IH]; intros bv bv' bk bk' Hbv Hbk; cbn [best_by]; [exact Hbv|].
    simpl in Hv, Hk. rewrite (Hb k k' bk bk' Hk Hbk). destruct (better' k' bk'); apply IH; assumption.
  Qed.

  Lemma array_extreme_by_rel : forall gt v v', vrel v v' ->
    orel vrel (array_extreme_by ev gt v) (array_extreme_by ev' gt v').
  Proof.
    intros gt v v' H. destruct H; try constructor.
    destruct H as [|x x' l l' Hx Hl]; [constructor; constructor|].
    cbn [array_extreme_by].
    eapply orel_bind; [apply keys_for_rel; eassumption|]. intros ks ks' Hks.
    destruct ks as [ss|ds], ks' as [ss'|ds']; simpl in Hks; try contradiction.
    - subst ss'. destruct ss as [|k0 ss]; [constructor|]. constructor.
      apply (best_by_rel (@eq bytes)); try assumption; try reflexivity.
      + intros a a' b b' -> ->. reflexivity.
      + apply Forall2_combine; [assumption|]. clear. induction ss; constructor; auto.
    - destruct Hks as [|k0 k0' ds ds' Hk0 Hds]; [constructor|]. constructor.
      apply (best_by_rel drel); try assumption.
      + intros a a' b b' Ha Hb. destruct gt; [apply dec_greater_rel|apply dec_less_rel]; assumption.
      + apply Forall2_combine; assumption.
  Qed.

  Lemma group_loop_rel : forall l l', Forall2 vrel l l' -> forall acc acc', Forall2 kvrel acc acc' ->
    orel (Forall2 kvrel) (group_loop ev l acc) (group_loop ev' l' acc').
  Proof.
    intros l l' H. induction H as [|v v' r r' Hv Hr IH]; intros acc acc' Ha; cbn [group_loop].
    - constructor; exact Ha.
    - eapply orel_bind; [apply Hev; exact Hv|]. intros k k' Hk.
      destruct Hk; try constructor. apply IH. apply assoc_set_rel; [|exact Ha].
      constructor. apply F2_app; [|constructor; [exact Hv|constructor]].
      pose proof (assoc_rel s acc acc' Ha) as A.
      destruct (assoc s acc) as [g|], (assoc s acc') as [g'|]; try contradiction; try constructor.
      destruct A; try constructor. assumption.
  Qed.

  Lemma group_by_rel : forall v v', vrel v v' -> orel vrel (group_by ev v) (group_by ev' v').
  Proof.
    intros v v' H. destruct H; try constructor.
    destruct H as [|x x' l l' Hx Hl]; [constructor; constructor|].
    cbn [group_by].
    eapply orel_bind; [apply group_loop_rel; [constructor; eassumption|constructor]|].
    intros m m' Hm. constructor. constructor. exact Hm.
  Qed.

  Lemma filter_list_rel : forall l l', Forall2 vrel l l' ->
    orel (Forall2 vrel) (filter_list ev l) (filter_list ev' l').
  Proof.
    intros l l' H. induction H as [|v v' r r' Hv Hr IH]; cbn [filter_list]; [constructor; constructor|].
    eapply orel_bind; [apply Hev; exact Hv|]. intros f f' Hf.
    eapply orel_bind; [exact IH|]. intros rs rs' Hrs. constructor.
    rewrite (is_null_rel v v' Hv), (is_true_rel f f' Hf).
    destruct (negb (is_null v') && is_true f'); [constructor; assumption|assumption].
  Qed.

  Lemma filter_array_rel : forall v v', vrel v v' -> orel vrel (filter_array ev v) (filter_array ev' v').
  Proof.
    intros v v' H. destruct H; try (constructor; constructor; fail). cbn [filter_array].
    eapply orel_bind; [apply filter_list_rel; eassumption|]. intros r r' Hr. constructor. constructor. exact Hr.
  Qed.

  Variables ev2 ev2' : value -> outcome value.
  Hypothesis Hev2 : forall v v', vrel v v' -> orel vrel (ev2 v) (ev2' v').

  Lemma filter_project_list_rel : forall l l', Forall2 vrel l l' ->
    orel (Forall2 vrel) (filter_project_list ev ev2 l) (filter_project_list ev' ev2' l').
  Proof.
    intros l l' H. induction H as [|v v' r r' Hv Hr IH]; cbn [filter_project_list]; [constructor; constructor|].
    eapply orel_bind; [apply Hev; exact Hv|]. intros f f' Hf.
    rewrite (is_true_rel f f' Hf). destruct (is_true f'); [|exact IH].
    eapply orel_bind; [apply Hev2; exact Hv|]. intros p p' Hp.
    eapply orel_bind; [exact IH|]. intros rs rs' Hrs. constructor.
    rewrite (is_null_rel p p' Hp). destruct (is_null p'); [exact Hrs|constructor; assumption].
  Qed.

  Lemma filter_and_project_rel : forall v v', vrel v v' ->
    orel vrel (filter_and_project ev ev2 v) (filter_and_project ev' ev2' v').
  Proof.
    intros v v' H. destruct H; try (constructor; constructor; fail). cbn [filter_and_project].
    eapply orel_bind; [apply filter_project_list_rel; eassumption|]. intros r r' Hr. constructor. constructor. exact Hr.
  Qed.
End Callback.

(* ---- environments ---- *)
Definition env_rel (vars vars' : env) : Prop := Forall2 (Forall2 kvrel) vars vars'.

Lemma env_get_rel : forall name vars vars', env_rel vars vars' ->
  match env_get name vars, env_get name vars' with
  | Some v, Some v' => vrel v v'
  | None, None => True
  | _, _ => False
  end.
Proof.
  intros name vars vars' H. induction H as [|fr fr' r r' Hf Hr IH]; [exact I|].
  cbn [env_get]. pose proof (assoc_rel name fr fr' Hf) as A.
  destruct (assoc name fr), (assoc name fr'); try contradiction; [exact A|exact IH].
Qed.

(* ---- what an expression must avoid ---- *)
(* to_string prints the spelling of a number; literals of the expression are
   the same on both sides and must not contain ill-formed decimal128 values
   (the parser only produces json.Number leaves) *)
Fixpoint kind_safe (n : node) : bool :=
  match n with
  | NCall1 f c => safe1 f && kind_safe c
  | NLitArr l => forallb nodec l
  | NLitObj m => forallb (fun kv => nodec (snd kv)) m
  | NNot c | NNegate c | NAssertNumber c | NFilterCurrent c | NFlatten c
  | NFlattenAndProjectCurrent c | NIndex c _ | NObjectValues c | NProjectArrayCurrent c
  | NProjectObjectCurrent c | NPruneArray c | NSelectArraySingleCurrent c
  | NSelectObjectSingleCurrent _ c | NSlice c _ _ | NSliceStep c _ _ _ => kind_safe c
  | NCall2 _ a b | NCallBy _ a b | NMap a b | NBin _ a b | NAnd a b | NOr a b | NFilter a b
  | NFilterAndProjectCurrent a b | NFlattenAndProject a b | NPipe a b | NProjectArray a b
  | NProjectObject a b | NSelectArraySingle a b | NSelectObjectSingle a _ b => kind_safe a && kind_safe b
  | NCall3 _ a b c | NFilterAndProject a b c => kind_safe a && kind_safe b && kind_safe c
  | NCall4 _ a b c d => kind_safe a && kind_safe b && kind_safe c && kind_safe d
  | NCallVar _ l | NSelectArrayCurrent l => forallb kind_safe l
  | NSelectArray c l => kind_safe c && forallb kind_safe l
  | NSelectObjectCurrent m => forallb (fun kf => let '(_, f) := kf in kind_safe f) m
  | NSelectObject c m => kind_safe c && forallb (fun kf => let '(_, f) := kf in kind_safe f) m
  | NDefine bs child => kind_safe child && forallb (fun kf => let '(_, f) := kf in kind_safe f) bs
  | _ => true
  end.

Lemma forallb_snd : forall (m : list (bytes * node)),
  forallb (fun kf => let '(_, f) := kf in kind_safe f) m = true -> Forall (fun c => kind_safe c = true) (map snd m).
Proof.
  induction m as [|[k f] r IH]; cbn [forallb map snd]; intros H; constructor.
  - apply andb_true_iff in H. tauto.
  - apply IH. apply andb_true_iff in H. tauto.
Qed.
Lemma forallb_F : forall (l : list node), forallb kind_safe l = true -> Forall (fun c => kind_safe c = true) l.
Proof. intros l H. rewrite forallb_forall in H. apply Forall_forall. exact H. Qed.

Lemma kind_safe_children : forall n, kind_safe n = true -> Forall (fun c => kind_safe c = true) (nchildren n).
Proof.
  intros n H. destruct n; cbn [kind_safe nchildren] in *;
    repeat (apply andb_true_iff in H; destruct H as [H ?]);
    repeat (constructor; try assumption);
    try (apply forallb_F; assumption); try (apply forallb_snd; assumption).
Qed.

(* ---- the inline loops of evaluate, named ---- *)
Definition merge_loop (ev : node -> outcome value) :=
  fix go (l : list node) (acc : list (bytes * value)) : outcome value :=
    match l with
    | [] => Ok (VObj acc)
    | a :: r =>
      do x <- ev a;
      match x with
      | VObj m => go r (fold_left (fun acc kv => assoc_set (fst kv) (snd kv) acc) m acc)
      | _ => Err EInvalidType
      end
    end.
Definition not_null_loop (ev : node -> outcome value) :=
  fix go (l : list node) : outcome value :=
    match l with
    | [] => Ok VNull
    | a :: r => do x <- ev a; if is_null x then go r else Ok x
    end.
Definition zip_loop (ev : node -> outcome value) :=
  fix go (l : list node) : outcome (list (list value)) :=
    match l with
    | [] => Ok []
    | a :: r =>
      do x <- ev a;
      match x with
      | VArr c => do cs <- go r; Ok (c :: cs)
      | _ => Err EInvalidType
      end
    end.

Lemma eval_merge root args cur vars :
  eval root (NCallVar FMerge args) cur vars = merge_loop (fun a => eval root a cur vars) args [].
Proof. reflexivity. Qed.
Lemma eval_not_null root args cur vars :
  eval root (NCallVar FNotNull args) cur vars = not_null_loop (fun a => eval root a cur vars) args.
Proof. reflexivity. Qed.
Lemma eval_zip root args cur vars :
  eval root (NCallVar FZip args) cur vars =
  do cols <- zip_loop (fun a => eval root a cur vars) args;
  let count := fold_left (fun m c => Z.min m (zlen c)) cols MaxInt in
  if count >? 4611686018427387904 then Panic PMakeLen else
  Ok (VArr (zip_rows (Z.to_nat count) 0 cols)).
Proof. reflexivity. Qed.

Section Loops.
  Variables ev ev' : node -> outcome value.

  Lemma fold_assoc_set_rel : forall m m', Forall2 kvrel m m' -> forall acc acc', Forall2 kvrel acc acc' ->
    Forall2 kvrel (fold_left (fun acc kv => assoc_set (fst kv) (snd kv) acc) m acc)
                  (fold_left (fun acc kv => assoc_set (fst kv) (snd kv) acc) m' acc').
  Proof.
    intros m m' H. induction H as [|[k x] [k' x'] r r' [E R] Hr IH]; intros acc acc' Ha; cbn [fold_left]; [exact Ha|].
    simpl in E. subst k'. apply IH. cbn [fst snd]. apply assoc_set_rel; assumption.
  Qed.

  Lemma merge_loop_rel : forall l, Forall (fun a => orel vrel (ev a) (ev' a)) l ->
    forall acc acc', Forall2 kvrel acc acc' -> orel vrel (merge_loop ev l acc) (merge_loop ev' l acc').
  Proof.
    intros l H. induction H as [|a r Ha Hr IH]; intros acc acc' Hacc; cbn [merge_loop].
    - constructor. constructor. exact Hacc.
    - eapply orel_bind; [exact Ha|]. intros x x' Hx. destruct Hx; try constructor.
      apply IH. apply fold_assoc_set_rel; assumption.
  Qed.

  Lemma not_null_loop_rel : forall l, Forall (fun a => orel vrel (ev a) (ev' a)) l ->
    orel vrel (not_null_loop ev l) (not_null_loop ev' l).
  Proof.
    intros l H. induction H as [|a r Ha Hr IH]; cbn [not_null_loop]; [constructor; constructor|].
    eapply orel_bind; [exact Ha|]. intros x x' Hx. rewrite (is_null_rel x x' Hx).
    destruct (is_null x'); [exact IH|constructor; exact Hx].
  Qed.

  Lemma zip_loop_rel : forall l, Forall (fun a => orel vrel (ev a) (ev' a)) l ->
    orel (Forall2 (Forall2 vrel)) (zip_loop ev l) (zip_loop ev' l).
  Proof.
    intros l H. induction H as [|a r Ha Hr IH]; cbn [zip_loop]; [constructor; constructor|].
    eapply orel_bind; [exact Ha|]. intros x x' Hx. destruct Hx; try constructor.
    eapply orel_bind; [exact IH|]. intros cs cs' Hcs. constructor. constructor; assumption.
  Qed.

  Lemma define_loop_rel : forall bs, Forall (fun a => orel vrel (ev a) (ev' a)) (map snd bs) ->
    orel (Forall2 kvrel) (define_loop ev bs) (define_loop ev' bs).
  Proof.
    induction bs as [|[k e] r IH]; intros H; [constructor; constructor|].
    cbn [define_loop]. fold (define_loop ev r). fold (define_loop ev' r).
    cbn [map snd] in H.
    eapply orel_bind; [exact (Forall_inv H)|]. intros x x' Hx.
    eapply orel_bind; [apply IH; exact (Forall_inv_tail H)|]. intros fr fr' Hfr.
    constructor. constructor; [split; [reflexivity|exact Hx]|exact Hfr].
  Qed.

  Lemma nlist_loop_rel : forall l, Forall (fun a => orel vrel (ev a) (ev' a)) l ->
    orel (Forall2 vrel) (nlist_loop ev l) (nlist_loop ev' l).
  Proof.
    induction l as [|e r IH]; intros H; [constructor; constructor|].
    cbn [nlist_loop]. fold (nlist_loop ev r). fold (nlist_loop ev' r).
    eapply orel_bind; [exact (Forall_inv H)|]. intros x x' Hx.
    eapply orel_bind; [apply IH; exact (Forall_inv_tail H)|]. intros ys ys' Hys.
    constructor. constructor; assumption.
  Qed.
End Loops.

Lemma zip_count_rel : forall cols cols', Forall2 (Forall2 vrel) cols cols' -> forall m,
  fold_left (fun m c => Z.min m (zlen c)) cols m = fold_left (fun m c => Z.min m (zlen c)) cols' m.
Proof.
  intros cols cols' H. induction H as [|c c' r r' Hc Hr IH]; intros m; [reflexivity|].
  cbn [fold_left]. rewrite (zlen_rel _ _ _ Hc). apply IH.
Qed.

Lemma zip_rows_rel : forall cols cols', Forall2 (Forall2 vrel) cols cols' -> forall k i,
  Forall2 vrel (zip_rows k i cols) (zip_rows k i cols').
Proof.
  intros cols cols' H k. induction k as [|k IH]; intros i; cbn [zip_rows]; constructor; [|apply IH].
  constructor. eapply F2_map; [|exact H]. intros c c' Hc. apply F2_nth; [exact Hc|constructor].
Qed.



Ltac child HC := apply HC; [cbn [In]; tauto | first [assumption | constructor; assumption] | first [assumption | constructor; assumption]].
Ltac step HC := eapply orel_bind; [child HC | intros ? ? ?].
Ltac kids HC := apply Forall_forall; intros ? ?; apply HC; [cbn [In]; tauto | assumption | assumption].

Theorem eval_kind_independent : forall n root root' cur cur' vars vars',
  kind_safe n = true -> vrel root root' -> vrel cur cur' -> env_rel vars vars' ->
  orel vrel (eval root n cur vars) (eval root' n cur' vars').
Proof.
  intros n root root' cur cur' vars vars' Hs Hroot. revert cur cur' vars vars' Hs.
  induction n as [n IH] using node_ind'. intros cur cur' vars vars' Hs Hcur Hvars.
  assert (HC : forall c, In c (nchildren n) -> forall cur cur' vars vars', vrel cur cur' -> env_rel vars vars' ->
                 orel vrel (eval root c cur vars) (eval root' c cur' vars')).
  { intros c Hin cu cu' va va' H1 H2. rewrite Forall_forall in IH. apply (IH c Hin); try assumption.
    pose proof (kind_safe_children n Hs) as K. rewrite Forall_forall in K. apply K. exact Hin. }
  clear IH.
  destruct n as [f a|f a b|f a b c|f a b c d|f a e|e a|f args|op l r|l r|l r|c|c|c|lits|lits|b| |t|s| | |name|name
                |bs child|c f|f|l f r|f c|c| |l r|c|c i|i|i|c| |l r|l r|c|l r|c|c| |c fields|fields|c f|f
                |c fields|fields|c k f|k f|c st sp|st sp|c st sp se|st sp se];
    cbn [nchildren] in HC.
  - (* NCall1 *) cbn [kind_safe] in Hs. apply andb_true_iff in Hs as [S _]. cbn [eval].
    step HC. apply call1_rel; assumption.
  - cbn [eval]. step HC. step HC. apply call2_rel; assumption.
  - cbn [eval]. step HC. step HC. step HC. apply call3_rel; assumption.
  - cbn [eval]. step HC. step HC. step HC. step HC. apply call4_rel; assumption.
  - (* NCallBy *) cbn [eval]. step HC. cbv zeta.
    destruct f; [apply group_by_rel|apply array_extreme_by_rel|apply array_extreme_by_rel|apply sort_array_by_rel];
      try assumption; intros; child HC.
  - (* NMap *) cbn [eval]. step HC. apply map_array_rel; [intros; child HC|assumption].
  - (* NCallVar *) destruct f.
    + rewrite !eval_merge. apply merge_loop_rel; [kids HC|constructor].
    + rewrite !eval_not_null. apply not_null_loop_rel. kids HC.
    + rewrite !eval_zip. eapply orel_bind; [apply zip_loop_rel; kids HC|].
      intros cols cols' Hc. cbv zeta. rewrite <- (zip_count_rel cols cols' Hc).
      destruct (_ >? _); constructor. constructor. apply zip_rows_rel. exact Hc.
  - (* NBin *) cbn [eval]. step HC. step HC. apply binop_rel; assumption.
  - (* NAnd *) cbn [eval]. step HC. rewrite (is_true_rel _ _ H). destruct (negb (is_true a')); [constructor; assumption|child HC].
  - (* NOr *) cbn [eval]. step HC. rewrite (is_true_rel _ _ H). destruct (is_true a'); [constructor; assumption|child HC].
  - (* NNot *) cbn [eval]. step HC. rewrite (is_true_rel _ _ H). constructor. constructor.
  - (* NNegate *) cbn [eval]. step HC. constructor. apply negate_rel; assumption.
  - (* NAssertNumber *) cbn [eval]. step HC. constructor. rewrite (is_number_rel _ _ H).
    destruct (is_number a'); [assumption|constructor].
  - (* NLitArr *) cbn [eval]. constructor. apply vrel_refl, nodec_dwf. exact Hs.
  - (* NLitObj *) cbn [eval]. constructor. apply vrel_refl, nodec_dwf. exact Hs.
  - cbn [eval]. constructor. constructor.
  - cbn [eval]. constructor. constructor.
  - (* NNumber *) cbn [eval]. constructor. constructor. apply num_rel_refl. exact I.
  - cbn [eval]. constructor. constructor.
  - cbn [eval]. constructor. assumption.
  - cbn [eval]. constructor. assumption.
  - cbn [eval]. constructor. apply field_rel; assumption.
  - (* NVariable *) cbn [eval]. pose proof (env_get_rel name vars vars' Hvars) as E.
    destruct (env_get name vars), (env_get name vars'); try contradiction; constructor. exact E.
  - (* NDefine *) rewrite !eval_define.
    eapply orel_bind; [apply define_loop_rel; kids HC|]. intros fr fr' Hfr.
    apply HC; [cbn [In]; tauto|assumption|]. constructor; assumption.
  - (* NFilter *) cbn [eval]. step HC. apply filter_array_rel; [intros; child HC|assumption].
  - cbn [eval]. apply filter_array_rel; [intros; child HC|assumption].
  - cbn [eval]. step HC. apply filter_and_project_rel; try assumption; intros; child HC.
  - cbn [eval]. apply filter_and_project_rel; try assumption; intros; child HC.
  - cbn [eval]. step HC. constructor. apply flatten_rel; assumption.
  - cbn [eval]. constructor. apply flatten_rel; assumption.
  - cbn [eval]. step HC. apply flatten_and_project_rel; [intros; child HC|assumption].
  - cbn [eval]. apply flatten_and_project_rel; [intros; child HC|assumption].
  - cbn [eval]. step HC. constructor. apply index_rel; assumption.
  - cbn [eval]. constructor. apply index_rel; assumption.
  - cbn [eval]. constructor. apply index_rel; assumption.
  - cbn [eval]. step HC. constructor. apply object_values_rel; assumption.
  - cbn [eval]. constructor. apply object_values_rel; assumption.
  - (* NPipe *) cbn [eval]. step HC. child HC.
  - (* NProjectArray *) cbn [eval]. step HC.
    assert (P : orel vrel (project_array (fun v => eval root r v vars) a) (project_array (fun v => eval root' r v vars') a'))
      by (apply project_array_rel; [intros; child HC|assumption]).
    destruct H; try exact P. destruct (is_slice_node l); [|exact P]. child HC.
  - cbn [eval]. apply project_array_rel; [intros; child HC|assumption].
  - cbn [eval]. step HC. apply project_object_rel; [intros; child HC|assumption].
  - cbn [eval]. apply project_object_rel; [intros; child HC|assumption].
  - cbn [eval]. step HC. constructor. apply prune_array_rel; assumption.
  - cbn [eval]. constructor. apply prune_array_rel; assumption.
  - (* NSelectArray *) rewrite !eval_select_array. step HC. rewrite (is_null_rel _ _ H).
    destruct (is_null a'); [constructor; constructor|].
    eapply orel_bind; [apply nlist_loop_rel; kids HC|]. intros ys ys' Hys. constructor. constructor. exact Hys.
  - rewrite !eval_select_array_current. rewrite (is_null_rel _ _ Hcur).
    destruct (is_null cur'); [constructor; constructor|].
    eapply orel_bind; [apply nlist_loop_rel; kids HC|]. intros ys ys' Hys. constructor. constructor. exact Hys.
  - (* NSelectArraySingle *) cbn [eval]. step HC. rewrite (is_null_rel _ _ H).
    destruct (is_null a'); [constructor; constructor|]. step HC. constructor. constructor.
    constructor; [assumption|constructor].
  - cbn [eval]. step HC. constructor. constructor. constructor; [assumption|constructor].
  - (* NSelectObject *) rewrite !eval_select_object. step HC. rewrite (is_null_rel _ _ H).
    destruct (is_null a'); [constructor; constructor|].
    eapply orel_bind; [apply define_loop_rel; kids HC|]. intros ys ys' Hys. constructor. constructor. exact Hys.
  - rewrite !eval_select_object_current. rewrite (is_null_rel _ _ Hcur).
    destruct (is_null cur'); [constructor; constructor|].
    eapply orel_bind; [apply define_loop_rel; kids HC|]. intros ys ys' Hys. constructor. constructor. exact Hys.
  - (* NSelectObjectSingle *) cbn [eval]. step HC. rewrite (is_null_rel _ _ H).
    destruct (is_null a'); [constructor; constructor|]. step HC. constructor. constructor.
    constructor; [split; [reflexivity|assumption]|constructor].
  - cbn [eval]. step HC. constructor. constructor. constructor; [split; [reflexivity|assumption]|constructor].
  - cbn [eval]. step HC. apply slice_rel; assumption.
  - cbn [eval]. apply slice_rel; assumption.
  - cbn [eval]. step HC. apply slice_step_rel; assumption.
  - cbn [eval]. apply slice_step_rel; assumption.
Qed.


(* ================================================================== *)
(* D. consequences                                                      *)
(* ================================================================== *)

(* the public API: same value up to representation, or the same error category *)
Definition rrel (r r' : result) : Prop :=
  match r, r' with
  | RValue v, RValue v' => vrel v v'
  | RError c, RError c' => c = c'
  | RPanic, RPanic | RStuck, RStuck | RUnmodelled, RUnmodelled => True
  | _, _ => False
  end.

Corollary search_kind_independent : forall n data data',
  kind_safe n = true -> vrel data data' ->
  rrel (expression_search n data) (expression_search n data').
Proof.
  intros n data data' S H. unfold expression_search, evaluate.
  pose proof (eval_kind_independent n data data' data data' [] [] S H H (Forall2_nil _)) as K.
  destruct K; simpl; auto.
Qed.

(* related values are equal in value (for ==), whenever the value is equal to itself *)
Corollary vrel_equal : forall v v', vrel v v' -> equal v v' = equal v v.
Proof.
  intros v v' H. symmetry. apply equal_rel; [|exact H].
  apply vrel_refl. eapply vrel_dwf_l; exact H.
Qed.

(* the relation is symmetric and transitive *)
Lemma num_rel_sym : forall n n', num_rel n n' -> num_rel n' n.
Proof. intros n n' [[<- W]|C]; [left; auto|right; apply core_sym; exact C]. Qed.

Lemma F2_sym : forall {A} (R : A -> A -> Prop) l l',
  Forall (fun x => forall y, R x y -> R y x) l -> Forall2 R l l' -> Forall2 R l' l.
Proof.
  intros A R l l' F H. induction H; constructor.
  - apply (Forall_inv F). assumption.
  - apply IHForall2. exact (Forall_inv_tail F).
Qed.

Lemma vrel_sym : forall v v', vrel v v' -> vrel v' v.
Proof.
  induction v as [| b | s | n | a IH | a IH | t] using value_ind'; intros v' H.
  - inversion H; constructor.
  - inversion H; constructor.
  - inversion H; constructor.
  - destruct (vrel_num_inv _ _ H) as (n' & -> & Hn). constructor. apply num_rel_sym; exact Hn.
  - destruct (vrel_arr_inv _ _ H) as (a' & -> & HA). constructor. apply F2_sym; assumption.
  - destruct (vrel_obj_inv _ _ H) as (a' & -> & HA). constructor. fold kvrel. clear H.
    induction HA as [|[k x] [k' x'] r r' [E R] Hr IHr]; constructor.
    + split; [symmetry; exact E|]. apply (Forall_inv IH). exact R.
    + apply IHr. exact (Forall_inv_tail IH).
  - inversion H; constructor.
Qed.

Lemma num_rel_trans : forall a b c, num_rel a b -> num_rel b c -> num_rel a c.
Proof.
  intros a b c [[<- W]|C1] [[<- W']|C2]; try (left; auto; fail); try (right; assumption).
  destruct C1 as (F1 & F2 & W1 & W2 & d1 & d2 & H1 & H2 & Q1).
  destruct C2 as (_ & F3 & _ & W3 & d2' & d3 & H2' & H3 & Q2).
  rewrite H2 in H2'. inversion H2'; subst d2'.
  right. repeat split; try assumption. exists d1, d3. repeat split; try assumption.
  assert (X1 : dec_wf d1) by (eapply num_dwf_decimal; [apply num_wf_dwf; exact W1|exact H1]).
  assert (X2 : dec_wf d2) by (eapply num_dwf_decimal; [apply num_wf_dwf; exact W2|exact H2]).
  assert (X3 : dec_wf d3) by (eapply num_dwf_decimal; [apply num_wf_dwf; exact W3|exact H3]).
  assert (D12 : drel d1 d2) by (split; [exact X1|split; [exact X2|exact Q1]]).
  assert (D23 : drel d2 d3) by (split; [exact X2|split; [exact X3|exact Q2]]).
  destruct (drel_trans d1 d2 d3 D12 D23) as (_ & _ & Q). exact Q.
Qed.

Lemma vrel_trans : forall a b c, vrel a b -> vrel b c -> vrel a c.
Proof.
  induction a as [| x | s | n | l IH | l IH | t] using value_ind'; intros b c H1 H2.
  - inversion H1; subst. exact H2.
  - inversion H1; subst. exact H2.
  - inversion H1; subst. exact H2.
  - destruct (vrel_num_inv _ _ H1) as (n' & -> & Hn). destruct (vrel_num_inv _ _ H2) as (n'' & -> & Hn').
    constructor. eapply num_rel_trans; eassumption.
  - destruct (vrel_arr_inv _ _ H1) as (l' & -> & HA). destruct (vrel_arr_inv _ _ H2) as (l'' & -> & HB).
    constructor. clear H1 H2. revert l'' HB. induction HA as [|x x' r r' Hx Hr IHr]; intros l'' HB.
    + inversion HB; constructor.
    + inversion HB; subst. constructor.
      * eapply (Forall_inv IH); eassumption.
      * apply IHr; [exact (Forall_inv_tail IH)|assumption].
  - destruct (vrel_obj_inv _ _ H1) as (l' & -> & HA). destruct (vrel_obj_inv _ _ H2) as (l'' & -> & HB).
    constructor. fold kvrel. clear H1 H2. revert l'' HB.
    induction HA as [|[k x] [k' x'] r r' [E R] Hr IHr]; intros l'' HB.
    + inversion HB; constructor.
    + inversion HB as [|? [k'' x''] ? ? [E' R'] HB']; subst. constructor.
      * split; [simpl in *; congruence|]. eapply (Forall_inv IH); eassumption.
      * apply IHr; [exact (Forall_inv_tail IH)|assumption].
  - inversion H1; subst. exact H2.
Qed.

(* the algebraic core in its plain form: on well-formed finite decimals every
   arithmetic operation maps equal values to equal values, rounding included *)
Lemma deq_dec_equal : forall x y, deq x y -> dec_ok x -> dec_equal x y = true.
Proof. intros x y [<-|(_ & _ & E)] O; [apply dec_equal_refl; exact O|exact E]. Qed.

Definition finwf (d : dec) : Prop := dfin d /\ dec_wf d.
Lemma finwf_drel : forall a a', finwf a -> finwf a' -> dec_equal a a' = true -> drel a a'.
Proof. intros a a' [F W] [F' W'] E. repeat split; try assumption. right. auto. Qed.

Lemma dec_add_fin_ok : forall a b, finwf a -> finwf b -> dec_ok (dec_add a b).
Proof.
  intros [n1 c1 e1|?|] [n2 c2 e2|?|] [F1 W1] [F2 W2]; try contradiction. simpl.
  destruct (_ =? 0); [simpl; lia|]. apply fit_ok. lia.
Qed.

Theorem dec_add_respects_value : forall a a' b b', finwf a -> finwf a' -> finwf b -> finwf b' ->
  dec_equal a a' = true -> dec_equal b b' = true -> dec_equal (dec_add a b) (dec_add a' b') = true.
Proof.
  intros a a' b b' Fa Fa' Fb Fb' Ea Eb. apply deq_dec_equal; [|apply dec_add_fin_ok; assumption].
  apply dec_add_rel; apply finwf_drel; assumption.
Qed.

Lemma finwf_neg : forall b, finwf b -> finwf (dec_neg b).
Proof. intros [n c e|?|] [F W]; try contradiction. split; [exact I|exact W]. Qed.

Theorem dec_sub_respects_value : forall a a' b b', finwf a -> finwf a' -> finwf b -> finwf b' ->
  dec_equal a a' = true -> dec_equal b b' = true -> dec_equal (dec_sub a b) (dec_sub a' b') = true.
Proof.
  intros a a' b b' Fa Fa' Fb Fb' Ea Eb. apply deq_dec_equal.
  - apply dec_sub_rel; apply finwf_drel; assumption.
  - unfold dec_sub. apply dec_add_fin_ok; [assumption|apply finwf_neg; assumption].
Qed.

Theorem dec_mul_respects_value : forall a a' b b', finwf a -> finwf a' -> finwf b -> finwf b' ->
  dec_equal a a' = true -> dec_equal b b' = true -> dec_equal (dec_mul a b) (dec_mul a' b') = true.
Proof.
  intros a a' b b' Fa Fa' Fb Fb' Ea Eb. apply deq_dec_equal.
  - apply dec_mul_rel; apply finwf_drel; assumption.
  - destruct a as [n1 c1 e1|?|]; [|destruct Fa as [[] _]..].
    destruct b as [n2 c2 e2|?|]; [|destruct Fb as [[] _]..].
    simpl. apply fit_ok. destruct Fa as [_ Wa], Fb as [_ Wb]. simpl in *. apply Z.mul_nonneg_nonneg; lia.
Qed.

Theorem dec_cmp_respects_value : forall a a' b b', finwf a -> finwf a' -> finwf b -> finwf b' ->
  dec_equal a a' = true -> dec_equal b b' = true -> dec_cmp a b = dec_cmp a' b'.
Proof. intros. apply dec_cmp_rel; apply finwf_drel; assumption. Qed.

(* numbers related across representations are never binary floats *)
Lemma core_to_float : forall n n', num_core n n' -> to_float (VNum n) = None /\ to_float (VNum n') = None.
Proof.
  intros n n' (F & F' & _). destruct n, n'; simpl in *; try contradiction; split; reflexivity.
Qed.

(* a convenient introduction rule and a decision procedure for examples *)
Lemma num_core_intro : forall n n' d d',
  nonfloat n -> nonfloat n' -> num_wf n -> num_wf n' ->
  to_decimal (VNum n) = Some d -> to_decimal (VNum n') = Some d' ->
  dfin d -> dfin d' -> dec_equal d d' = true -> num_rel n n'.
Proof. intros. right. repeat split; try assumption. exists d, d'. repeat split; try assumption. right. auto. Qed.

Definition nonfloat_b (n : num) : bool := match n with NFloat _ _ => false | _ => true end.
Definition dec_wf_b (d : dec) : bool := match d with DFin _ c _ => (0 <=? c) && (c <? P34) | _ => true end.
Definition num_wf_b (n : num) : bool :=
  match n with
  | NDec d => dec_wf_b d
  | NInt k z => (kind_min k <=? z) && (z <=? kind_max k)
  | _ => true
  end.
Definition dfin_b (d : dec) : bool := match d with DFin _ _ _ => true | _ => false end.
Definition num_rel_b (n n' : num) : bool :=
  nonfloat_b n && nonfloat_b n' && num_wf_b n && num_wf_b n' &&
  match to_decimal (VNum n), to_decimal (VNum n') with
  | Some d, Some d' => dfin_b d && dfin_b d' && dec_equal d d'
  | _, _ => false
  end.

Lemma num_rel_b_sound : forall n n', num_rel_b n n' = true -> num_rel n n'.
Proof.
  intros n n' H. unfold num_rel_b in H.
  repeat (apply andb_true_iff in H; destruct H as [H ?]).
  destruct (to_decimal (VNum n)) as [d|] eqn:E; [|discriminate].
  destruct (to_decimal (VNum n')) as [d'|] eqn:E'; [|discriminate].
  repeat (match goal with K : _ && _ = true |- _ => apply andb_true_iff in K; destruct K end).
  apply (num_core_intro n n' d d'); try assumption.
  - destruct n; simpl in *; try exact I; discriminate.
  - destruct n'; simpl in *; try exact I; discriminate.
  - destruct n; simpl in *; try exact I.
    + destruct d0; try exact I. simpl in *. apply andb_true_iff in H2 as [A B]. apply Z.leb_le in A. apply Z.ltb_lt in B. lia.
    + apply andb_true_iff in H2 as [A B]. apply Z.leb_le in A. apply Z.leb_le in B. lia.
  - destruct n'; simpl in *; try exact I.
    + destruct d0; try exact I. simpl in *. apply andb_true_iff in H1 as [A B]. apply Z.leb_le in A. apply Z.ltb_lt in B. lia.
    + apply andb_true_iff in H1 as [A B]. apply Z.leb_le in A. apply Z.leb_le in B. lia.
  - destruct d; simpl in *; try exact I; discriminate.
  - destruct d'; simpl in *; try exact I; discriminate.
Qed.

(* ================================================================== *)
(* E. spot checks                                                       *)
(* ================================================================== *)
Definition two_i8 := NInt I8 2.
Definition two_u64 := NInt U64 2.
Definition two_json := NJson [50; 46; 48].          (* 2.0 *)
Definition two_exp := NJson [48; 46; 50; 101; 49].   (* 0.2e1 *)
Definition two_dec := NDec (DFin false 200 (-2)).    (* 2.00 *)

Example two_related :
  num_rel two_i8 two_json /\ num_rel two_json two_dec /\ num_rel two_dec two_u64 /\ num_rel two_u64 two_exp.
Proof. repeat split; apply num_rel_b_sound; vm_compute; reflexivity. Qed.

Example equal_mixed :
  equal (VNum (NInt I8 2)) (VNum (NJson [50; 46; 48])) = true /\
  equal (VNum two_dec) (VNum two_exp) = true /\
  equal (VArr [VNum two_i8; VNum two_dec]) (VArr [VNum two_exp; VNum two_u64]) = true /\
  equal (VNum two_i8) (VNum (NJson [50; 46; 49])) = false.
Proof. repeat split; vm_compute; reflexivity. Qed.

Example compare_mixed :
  less (VNum (NInt U8 1)) (VNum two_json) = VBool true /\
  greater_or_equal (VNum two_dec) (VNum two_exp) = VBool true /\
  less (VNum two_json) (VNum (NInt I16 (-5))) = VBool false.
Proof. repeat split; vm_compute; reflexivity. Qed.

(* sort([3.0, uint8 1, decimal 2.5, 1e1, int64 -7]) orders by value and keeps every element's representation *)
Example sort_mixed :
  sort_array (VArr [VNum (NJson [51; 46; 48]); VNum (NInt U8 1); VNum (NDec (DFin false 25 (-1)));
                    VNum (NJson [49; 101; 49]); VNum (NInt I64 (-7))]) =
  Ok (VArr [VNum (NInt I64 (-7)); VNum (NInt U8 1); VNum (NDec (DFin false 25 (-1)));
            VNum (NJson [51; 46; 48]); VNum (NJson [49; 101; 49])]).
Proof. vm_compute. reflexivity. Qed.

Example int_arg_mixed :
  int_arg (VNum (NJson [51; 46; 48])) = Ok 3 /\                 (* json.Number "3.0" *)
  int_arg (VNum (NJson [51])) = Ok 3 /\                         (* json.Number "3" *)
  int_arg (VNum (NJson [48; 46; 51; 101; 49])) = Ok 3 /\        (* json.Number "0.3e1" *)
  int_arg (VNum (NDec (DFin false 30 (-1)))) = Ok 3 /\          (* decimal 3.0 *)
  int_arg (VNum (NInt U16 3)) = Ok 3 /\
  int_arg (VNum (NInt I8 3)) = Ok 3 /\
  int_arg (VNum (NJson [51; 46; 53])) = Err EIntegerConversion /\          (* "3.5" *)
  int_arg (VNum (NDec (DFin false 35 (-1)))) = Err EIntegerConversion /\   (* decimal 3.5 *)
  int_arg (VStr [51]) = Err EInvalidType.
Proof. repeat split; vm_compute; reflexivity. Qed.

(* 2^63 is out of range whichever type carries it *)
Example int_arg_out_of_range :
  int_arg (VNum (NInt U64 9223372036854775808)) = Err EIntegerConversion /\
  int_arg (VNum (NJson [57;50;50;51;51;55;50;48;51;54;56;53;52;55;55;53;56;48;56])) = Err EIntegerConversion /\
  int_arg (VNum (NDec (DFin false 9223372036854775808 0))) = Err EIntegerConversion /\
  int_arg (VNum (NInt U64 9223372036854775807)) = Ok 9223372036854775807 /\
  int_arg (VNum (NJson [57;50;50;51;51;55;50;48;51;54;56;53;52;55;55;53;56;48;55])) = Ok 9223372036854775807.
Proof. repeat split; vm_compute; reflexivity. Qed.

Example truthiness_and_type_mixed :
  is_true (VNum (NInt I8 0)) = true /\ is_true (VNum (NJson [48])) = true /\
  is_true (VNum (NDec (DFin false 0 0))) = true /\
  type_name (VNum (NInt U32 7)) = type_name (VNum (NJson [55])) /\
  type_name (VNum (NDec (DFin false 7 0))) = type_name (VNum (NJson [55])).
Proof. repeat split; vm_compute; reflexivity. Qed.

(* a whole expression: a + b * `2` < c on two differently typed documents *)
Definition k_a : bytes := [97]. Definition k_b : bytes := [98]. Definition k_c : bytes := [99].
Definition expr1 : node :=
  NBin OLt (NBin OAdd (NField k_a) (NBin OMul (NField k_b) (NNumber [50]))) (NField k_c).
Definition doc1 : value :=
  VObj [(k_a, VNum (NJson [49; 46; 53])); (k_b, VNum (NJson [50])); (k_c, VNum (NJson [54]))].
Definition doc2 : value :=
  VObj [(k_a, VNum (NDec (DFin false 150 (-2)))); (k_b, VNum (NInt U8 2)); (k_c, VNum (NInt I64 6))].

Example docs_related : vrel doc1 doc2.
Proof.
  constructor.
  repeat (constructor; [split; [reflexivity|cbn [snd]; constructor; apply num_rel_b_sound; vm_compute; reflexivity]|]).
  constructor.
Qed.
Example expr1_same : evaluate expr1 doc1 = Ok (VBool true) /\ evaluate expr1 doc2 = Ok (VBool true).
Proof. split; vm_compute; reflexivity. Qed.

(* FINDING (why to_string is excluded): it prints the spelling / the Go type's
   own formatting, so equal numbers give different strings; for a decimal128
   the model does not even determine the text *)
Example to_string_depends_on_representation :
  num_rel (NInt I8 2) two_json /\
  to_string (VNum (NInt I8 2)) = Ok (VStr [50]) /\
  to_string (VNum two_json) = Ok (VStr [50; 46; 48]) /\
  to_string (VNum two_exp) = Ok (VStr [48; 46; 50; 101; 49]) /\
  to_string (VNum two_dec) = Unmodelled.
Proof. split; [apply num_rel_b_sound; vm_compute; reflexivity|]. repeat split; vm_compute; reflexivity. Qed.

Theorem to_string_not_kind_independent :
  exists v v', vrel v v' /\ ~ orel vrel (to_string v) (to_string v').
Proof.
  exists (VNum (NInt I8 2)), (VNum two_json). split.
  - constructor. apply num_rel_b_sound. vm_compute. reflexivity.
  - intros H. assert (E1 : to_string (VNum (NInt I8 2)) = Ok (VStr [50])) by (vm_compute; reflexivity).
    assert (E2 : to_string (VNum two_json) = Ok (VStr [50; 46; 48])) by (vm_compute; reflexivity).
    rewrite E1, E2 in H. inversion H as [a a' R| | | |]; subst. inversion R.
Qed.

(* the side conditions of the relation are needed: the model's value space
   contains "integers" no Go integer type can hold, and they are not converted
   like the same value carried by another type *)
Example out_of_kind_integer_is_not_uniform :
  to_int (VNum (NInt I64 (-9223372036854775809))) = Ok (-9223372036854775809, true, true) /\
  to_int (VNum (NDec (DFin true 9223372036854775809 0))) = Ok (0, true, false).
Proof. split; vm_compute; reflexivity. Qed.

Print Assumptions eval_kind_independent.
Print Assumptions search_kind_independent.
Print Assumptions int_arg_rel.
Print Assumptions fit_value.
Print Assumptions to_string_not_kind_independent.
