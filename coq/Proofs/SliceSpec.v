(* Statement side of C12: how the parser encodes absent slice parts, and the
   model's array slice entry point. Proofs are in Proofs/SliceProofs.v. *)
From Coq Require Import List ZArith Bool Lia.
From JM Require Import Base.Outcome Base.Bytes Base.GoInt Base.Utf8 Json.Value Model.Slice Spec.SpecSlice.
Import ListNotations.
Open Scope Z_scope.

(* parser.index: an absent start/stop becomes a sentinel that depends on the sign of step *)
Definition enc_start (start : option Z) (step : Z) : Z :=
  match start with Some s => s | None => if step <? 0 then MaxInt else 0 end.
Definition enc_stop (stop : option Z) (step : Z) : Z :=
  match stop with Some e => e | None => if step <? 0 then MinInt else MaxInt end.

(* the evaluator entry point the parser selects: SliceNode for step 1, SliceStepNode otherwise *)
Definition model_slice (v : value) (start stop : option Z) (step : Z) : outcome value :=
  if step =? 1 then slice v (enc_start start 1) (enc_stop stop 1)
  else slice_step v (enc_start start step) (enc_stop stop step) step.

Definition int_opt (x : option Z) : Prop := match x with Some z => MinInt <= z <= MaxInt | None => True end.
