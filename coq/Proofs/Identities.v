(* C17: equivalent ways of writing a query give the same answer.

   Part 1  the evaluator model: every fused "Current" node type is its explicit form
           with child `@`; PruneArray / ObjectValues / Flatten / Filter are the
           projections with right-hand side `@`; the single-field multi-selects.
   Part 2  list lemmas: a projection can be split into two passes, under
           null-strictness of the second pass and a condition on the order in
           which failures are met.
   Part 3  the reference semantics (Spec/RefEval.v): identities a - g.
   Part 4  the evaluator model again: the fused project nodes are pipes of their
           unfused parts, directly and by transport through eval_refines_slice1.
   Part 5  counterexamples (each side condition is needed). *)
From Coq Require Import List ZArith Bool Lia.
From JM Require Import Base.Outcome Base.Bytes Base.GoInt Base.Utf8 Num.Dec Json.Value
  Model.Ast Model.Parser Model.Compare Model.NumberFns Model.Slice Model.StringFns Model.Array
  Model.Functions Model.Eval
  Spec.SpecSlice Spec.RefAst Spec.RefEval Spec.Unfuse
  Proofs.Scoping Proofs.EvalRefines.
Import ListNotations.
Open Scope Z_scope.

(* ================================================================== *)
(* Part 1. fused node types of the evaluator model                     *)
(* ================================================================== *)

Section CurrentForms.
  Variables (root cur : value) (vars : env).
  Notation ev n := (eval root n cur vars).

  (* one lemma per "Current" node type: it is the explicit node with child `@` *)
  Lemma NFilterCurrent_explicit f : ev (NFilterCurrent f) = ev (NFilter NCurrent f).
  Proof. reflexivity. Qed.
  Lemma NFilterAndProjectCurrent_explicit f c :
    ev (NFilterAndProjectCurrent f c) = ev (NFilterAndProject NCurrent f c).
  Proof. reflexivity. Qed.
  Lemma NFlattenCurrent_explicit : ev NFlattenCurrent = ev (NFlatten NCurrent).
  Proof. reflexivity. Qed.
  Lemma NFlattenAndProjectCurrent_explicit c :
    ev (NFlattenAndProjectCurrent c) = ev (NFlattenAndProject NCurrent c).
  Proof. reflexivity. Qed.
  Lemma NIndexCurrent_explicit i : ev (NIndexCurrent i) = ev (NIndex NCurrent i).
  Proof. reflexivity. Qed.
  Lemma NSmallIndexCurrent_explicit i : ev (NSmallIndexCurrent i) = ev (NIndex NCurrent i).
  Proof. reflexivity. Qed.
  Lemma NSmallIndexCurrent_NIndexCurrent i : ev (NSmallIndexCurrent i) = ev (NIndexCurrent i).
  Proof. reflexivity. Qed.
  Lemma NObjectValuesCurrent_explicit : ev NObjectValuesCurrent = ev (NObjectValues NCurrent).
  Proof. reflexivity. Qed.
  Lemma NProjectArrayCurrent_explicit c : ev (NProjectArrayCurrent c) = ev (NProjectArray NCurrent c).
  Proof. cbn [eval bind is_slice_node]. destruct cur; reflexivity. Qed.
  Lemma NProjectObjectCurrent_explicit c : ev (NProjectObjectCurrent c) = ev (NProjectObject NCurrent c).
  Proof. reflexivity. Qed.
  Lemma NPruneArrayCurrent_explicit : ev NPruneArrayCurrent = ev (NPruneArray NCurrent).
  Proof. reflexivity. Qed.
  Lemma NSelectArrayCurrent_explicit fields : ev (NSelectArrayCurrent fields) = ev (NSelectArray NCurrent fields).
  Proof. reflexivity. Qed.
  Lemma NSelectObjectCurrent_explicit fields : ev (NSelectObjectCurrent fields) = ev (NSelectObject NCurrent fields).
  Proof. reflexivity. Qed.
  Lemma NSliceCurrent_explicit a b : ev (NSliceCurrent a b) = ev (NSlice NCurrent a b).
  Proof. reflexivity. Qed.
  Lemma NSliceStepCurrent_explicit a b s : ev (NSliceStepCurrent a b s) = ev (NSliceStep NCurrent a b s).
  Proof. reflexivity. Qed.

  (* the two single-field multi-select "Current" types skip the null test of their
     explicit forms: equal on a non-null current node only (see the counterexamples) *)
  Lemma NSelectArraySingleCurrent_explicit f : is_null cur = false ->
    ev (NSelectArraySingleCurrent f) = ev (NSelectArraySingle NCurrent f).
  Proof. intros H. cbn [eval bind]. rewrite H. reflexivity. Qed.
  Lemma NSelectObjectSingleCurrent_explicit k f : is_null cur = false ->
    ev (NSelectObjectSingleCurrent k f) = ev (NSelectObjectSingle NCurrent k f).
  Proof. intros H. cbn [eval bind]. rewrite H. reflexivity. Qed.

  (* the single-field multi-selects are the general ones with a one-element list *)
  Lemma NSelectArraySingle_general c f : ev (NSelectArraySingle c f) = ev (NSelectArray c [f]).
  Proof.
    cbn [eval]. destruct (eval root c cur vars) as [x| | | |]; try reflexivity. cbn [bind].
    destruct (is_null x); [reflexivity|]. destruct (eval root f x vars); reflexivity.
  Qed.
  Lemma NSelectObjectSingle_general c k f : ev (NSelectObjectSingle c k f) = ev (NSelectObject c [(k, f)]).
  Proof.
    cbn [eval]. destruct (eval root c cur vars) as [x| | | |]; try reflexivity. cbn [bind].
    destruct (is_null x); [reflexivity|]. destruct (eval root f x vars); reflexivity.
  Qed.
  Lemma NSelectArraySingleCurrent_general f : is_null cur = false ->
    ev (NSelectArraySingleCurrent f) = ev (NSelectArrayCurrent [f]).
  Proof. intros H. cbn [eval]. rewrite H. destruct (eval root f cur vars); reflexivity. Qed.
  Lemma NSelectObjectSingleCurrent_general k f : is_null cur = false ->
    ev (NSelectObjectSingleCurrent k f) = ev (NSelectObjectCurrent [(k, f)]).
  Proof. intros H. cbn [eval]. rewrite H. destruct (eval root f cur vars); reflexivity. Qed.
End CurrentForms.

(* the unprojected node types are the projections with right-hand side `@` *)
Lemma project_list_id l : project_list (fun v => Ok v) l = Ok (drop_nulls l).
Proof.
  rewrite (project_list_proj _ (fun v => Ok v)) by reflexivity.
  rewrite proj_list_id, drop_nulls_filter. reflexivity.
Qed.

Lemma project_array_id x : project_array (fun v => Ok v) x = Ok (prune_array x).
Proof. destruct x; try reflexivity. cbn [project_array prune_array]. rewrite project_list_id. reflexivity. Qed.

Theorem NPruneArray_as_projection root c cur vars : is_slice_node c = false ->
  eval root (NPruneArray c) cur vars = eval root (NProjectArray c NCurrent) cur vars.
Proof.
  intros H. rewrite eval_project_array_noslice by exact H. cbn [eval].
  destruct (eval root c cur vars) as [x| | | |]; try reflexivity. cbn [bind].
  rewrite project_array_id. reflexivity.
Qed.

Theorem NObjectValues_as_projection root c cur vars :
  eval root (NObjectValues c) cur vars = eval root (NProjectObject c NCurrent) cur vars.
Proof.
  cbn [eval]. destruct (eval root c cur vars) as [x| | | |]; try reflexivity. cbn [bind].
  destruct x; try reflexivity. cbn [project_object object_values]. rewrite project_list_id, drop_nulls_filter. reflexivity.
Qed.

Theorem NFlatten_as_projection root c cur vars :
  eval root (NFlatten c) cur vars = eval root (NFlattenAndProject c NCurrent) cur vars.
Proof.
  cbn [eval]. destruct (eval root c cur vars) as [x| | | |]; try reflexivity. cbn [bind].
  destruct x as [| | | |a| |]; try reflexivity. cbn [flatten_and_project]. rewrite project_list_id.
  cbn [bind]. rewrite flatten_spec, drop_nulls_filter. reflexivity.
Qed.

Lemma filter_project_list_id pred l : filter_project_list pred (fun v => Ok v) l = filter_list pred l.
Proof.
  induction l as [|v r IH]; [reflexivity|]. cbn [filter_project_list filter_list]. rewrite IH.
  destruct (pred v) as [f| | | |]; try reflexivity. cbn [bind].
  destruct (is_true f); cbn [bind andb]; [|rewrite andb_false_r; destruct (filter_list pred r); reflexivity].
  rewrite andb_true_r. destruct (filter_list pred r); try reflexivity. cbn [bind]. destruct v; reflexivity.
Qed.

Theorem NFilter_as_projection root c f cur vars :
  eval root (NFilter c f) cur vars = eval root (NFilterAndProject c f NCurrent) cur vars.
Proof.
  cbn [eval]. destruct (eval root c cur vars) as [x| | | |]; try reflexivity. cbn [bind].
  destruct x; try reflexivity. cbn [filter_and_project filter_array]. rewrite filter_project_list_id. reflexivity.
Qed.

(* ================================================================== *)
(* Part 2. splitting a projection into two passes                      *)
(* ================================================================== *)

Lemma bind_ok_eta {A} (o : outcome A) : (do x <- o; Ok x) = o.
Proof. destruct o; reflexivity. Qed.
Lemma bind_assoc {A B C} (o : outcome A) (f : A -> outcome B) (g : B -> outcome C) :
  (do y <- (do x <- o; f x); g y) = (do x <- o; do y <- f x; g y).
Proof. destruct o; reflexivity. Qed.

Section Split.
  Variables f g : value -> outcome value.
  (* the second pass maps null to null *)
  Hypothesis g_null : g VNull = Ok VNull.

  Lemma proj_list_total l : (forall x, In x l -> exists v, f x = Ok v) -> exists ps, proj_list f l = Ok ps.
  Proof.
    induction l as [|x r IH]; intros H; [eexists; reflexivity|].
    destruct (H x (or_introl eq_refl)) as [v Hv].
    destruct IH as [ps Hps]; [intros y Hy; apply H; right; exact Hy|].
    cbn [proj_list]. rewrite Hv, Hps. eexists; reflexivity.
  Qed.

  (* one pass g after f = a pass of f, then a pass of g over what is left.
     The one-pass form meets the failures of f and g interleaved, element by
     element; the two-pass form meets every failure of f first.  They agree
     when f cannot fail on the list ... *)
  Lemma proj_list_split_l l : (forall x, In x l -> exists v, f x = Ok v) ->
    proj_list (fun x => do v <- f x; g v) l = do ps <- proj_list f l; proj_list g ps.
  Proof.
    induction l as [|x r IH]; intros H; [reflexivity|].
    destruct (H x (or_introl eq_refl)) as [v Hv].
    assert (Hr : forall y, In y r -> exists v, f y = Ok v) by (intros y Hy; apply H; right; exact Hy).
    destruct (proj_list_total r Hr) as [ps0 Hps0].
    cbn [proj_list]. rewrite (IH Hr), Hv, Hps0. cbn [bind].
    destruct v; cbn [not_null proj_list]; try reflexivity.
    rewrite g_null. cbn [bind not_null]. apply bind_ok_eta.
  Qed.

  (* ... or when g cannot fail at all *)
  Lemma proj_list_split_r l : (forall v, exists w, g v = Ok w) ->
    proj_list (fun x => do v <- f x; g v) l = do ps <- proj_list f l; proj_list g ps.
  Proof.
    intros Hg. induction l as [|x r IH]; [reflexivity|].
    cbn [proj_list]. rewrite IH. destruct (f x) as [v| | | |]; try reflexivity. cbn [bind].
    destruct (Hg v) as [w Hw]. rewrite Hw. cbn [bind].
    destruct (proj_list f r) as [ps0| | | |]; try reflexivity. cbn [bind].
    destruct v; cbn [not_null proj_list]; rewrite ?Hw; cbn [bind]; try reflexivity.
    rewrite g_null in Hw. injection Hw as <-. cbn [not_null]. apply bind_ok_eta.
  Qed.

  (* dropping the null elements first changes nothing *)
  Lemma proj_list_drop l : proj_list g (List.filter not_null l) = proj_list g l.
  Proof.
    induction l as [|x r IH]; [reflexivity|]. cbn [List.filter proj_list].
    destruct x; cbn [not_null proj_list]; rewrite IH; try reflexivity.
    rewrite g_null. cbn [bind not_null]. symmetry. apply bind_ok_eta.
  Qed.
End Split.

Lemma proj_list_mapM f l : proj_list f l = do r <- mapM f l; Ok (List.filter not_null r).
Proof.
  induction l as [|x r IH]; [reflexivity|]. cbn [proj_list mapM]. rewrite IH.
  destruct (f x) as [p| | | |]; try reflexivity. cbn [bind].
  destruct (mapM f r); reflexivity.
Qed.

(* ================================================================== *)
(* Part 3. identities of the reference semantics                       *)
(* ================================================================== *)

(* L ≡ R: the same outcome for every root, current node and scope *)
Definition req (L R : rexpr) : Prop :=
  forall root cur vars, ref_eval root L cur vars = ref_eval root R cur vars.
Infix "≡" := req (at level 70, no associativity).

Lemma req_refl e : e ≡ e. Proof. intros root cur vars. reflexivity. Qed.
Lemma req_sym a b : a ≡ b -> b ≡ a. Proof. intros H root cur vars. symmetry. apply H. Qed.
Lemma req_trans a b c : a ≡ b -> b ≡ c -> a ≡ c.
Proof. intros H1 H2 root cur vars. rewrite H1. apply H2. Qed.
Lemma req_R a b : a ≡ b <-> forall root vars, R root vars vars a b.
Proof. split; [intros H root vars cur|intros H root cur vars]; apply H. Qed.

(* ---- null-strict and total expressions, at a root and scope ---- *)
Definition null_strict_at (root : value) (vars : env) (e : rexpr) : Prop :=
  ref_eval root e VNull vars = Ok VNull.
Definition total_at (root : value) (vars : env) (e : rexpr) : Prop :=
  forall v, exists w, ref_eval root e v vars = Ok w.

(* chains of identifiers and indices starting at the current node *)
Inductive strict_chain : rexpr -> Prop :=
| SC_current : strict_chain RCurrent
| SC_field name : strict_chain (RField name)
| SC_sub s name : strict_chain s -> strict_chain (RSub s (RField name))
| SC_index s i : strict_chain s -> strict_chain (RIndex s i)
| SC_pipe s t : strict_chain s -> strict_chain t -> strict_chain (RPipe s t).

(* s2 continued after s1: the chain s2 with its starting point `@` replaced by s1 *)
Fixpoint graft (s1 s2 : rexpr) : rexpr :=
  match s2 with
  | RCurrent => s1
  | RField name => RSub s1 (RField name)
  | RSub s f => RSub (graft s1 s) f
  | RIndex s i => RIndex (graft s1 s) i
  | RPipe s t => RPipe (graft s1 s) t
  | _ => RPipe s1 s2
  end.

(* a chain is a total function of the current node alone, and maps null to null *)
Fixpoint chain_fn (s : rexpr) (v : value) : value :=
  match s with
  | RField name => spec_field name v
  | RSub s (RField name) => spec_field name (chain_fn s v)
  | RIndex s i => spec_index (chain_fn s v) i
  | RPipe s t => chain_fn t (chain_fn s v)
  | _ => v
  end.

Lemma chain_eval s : strict_chain s -> forall root v vars, ref_eval root s v vars = Ok (chain_fn s v).
Proof.
  induction 1 as [|name|s name Hs IH|s i Hs IH|s t Hs IHs Ht IHt]; intros root v vars; try reflexivity;
    cbn [ref_eval chain_fn]; try (rewrite IH; reflexivity).
  rewrite IHs. cbn [bind]. apply IHt.
Qed.
Lemma chain_null s : strict_chain s -> chain_fn s VNull = VNull.
Proof.
  induction 1 as [|name|s name Hs IH|s i Hs IH|s t Hs IHs Ht IHt]; try reflexivity; cbn [chain_fn];
    try (rewrite IH; reflexivity).
  rewrite IHs. exact IHt.
Qed.
Lemma chain_null_strict s root vars : strict_chain s -> null_strict_at root vars s.
Proof. intros H. unfold null_strict_at. rewrite (chain_eval s H), (chain_null s H). reflexivity. Qed.
Lemma chain_total s root vars : strict_chain s -> total_at root vars s.
Proof. intros H v. eexists. apply (chain_eval s H). Qed.

(* grafting a chain is piping into it *)
Lemma graft_pipe s1 s2 : strict_chain s2 -> graft s1 s2 ≡ RPipe s1 s2.
Proof.
  induction 1 as [|name|s name Hs IH|s i Hs IH|s t Hs IH Ht _]; intros root cur vars; cbn [graft].
  - cbn [ref_eval]. symmetry. apply bind_ok_eta.
  - reflexivity.
  - cbn [ref_eval]. rewrite (IH root cur vars). cbn [ref_eval]. rewrite bind_assoc. reflexivity.
  - cbn [ref_eval]. rewrite (IH root cur vars). cbn [ref_eval]. rewrite bind_assoc. reflexivity.
  - cbn [ref_eval]. rewrite (IH root cur vars). cbn [ref_eval]. rewrite bind_assoc. reflexivity.
Qed.

(* ---- the projection kinds ---- *)
(* a slice applied to a string is not a projection: the right-hand side gets the
   sliced string *)
Definition not_string_slice (k : projkind) (o : outcome value) : Prop :=
  match k, o with PSlice _ _ _, Ok (VStr _) => False | _, _ => True end.
(* the condition of a filter succeeds on every element *)
Definition cond_total_at (root : value) (vars : env) (k : projkind) (o : outcome value) : Prop :=
  match k, o with
  | PFilter c, Ok (VArr a) => forall y, In y a -> exists w, ref_eval root c y vars = Ok w
  | _, _ => True
  end.

Lemma Rk_refl root vars k : Rk root vars vars k k.
Proof. destruct k; cbn [Rk]; try reflexivity. intros cur. reflexivity. Qed.

(* the list a projection of kind k runs over, and the per-element function: the
   shape of ref_eval on RProj, for the kinds and operands that do project *)
Definition filter_pass (root : value) (vars : env) (c : rexpr) (rhs : value -> outcome value)
  : value -> outcome value :=
  fun x => do cv <- ref_eval root c x vars; if spec_truthy cv then rhs x else Ok VNull.

Section ProjSplit.
  Variables (root : value) (vars : env).
  Notation re e v := (ref_eval root e v vars).

  (* what RProj PList RCurrent s2 does to the value produced by the first projection *)
  Lemma second_pass s2 (o : outcome (list value)) :
    (do w <- (do ps <- o; Ok (VArr ps)); re (RProj PList RCurrent s2) w) =
    (do ps <- o; do qs <- proj_list (fun x => re s2 x) ps; Ok (VArr qs)).
  Proof. destruct o; reflexivity. Qed.

  (* a. a projection followed by total null-strict selectors = the projection,
        piped into a new projection of those selectors *)
  Theorem proj_split_total k x s1 s2 cur :
    null_strict_at root vars s2 -> total_at root vars s2 ->
    not_string_slice k (re x cur) ->
    re (RProj k x (RPipe s1 s2)) cur = re (RPipe (RProj k x s1) (RProj PList RCurrent s2)) cur.
  Proof.
    intros Hn Ht Hs.
    assert (Hsplit : forall (F : value -> outcome value) l,
              (do ps <- proj_list (fun y => do v <- F y; re s2 v) l; Ok (VArr ps)) =
              (do w <- (do ps <- proj_list F l; Ok (VArr ps)); re (RProj PList RCurrent s2) w)).
    { intros F l. rewrite second_pass, (proj_list_split_r F (fun v => re s2 v) Hn l Ht), bind_assoc.
      reflexivity. }
    change (re (RPipe (RProj k x s1) (RProj PList RCurrent s2)) cur)
      with (do w <- re (RProj k x s1) cur; re (RProj PList RCurrent s2) w).
    cbn [ref_eval]. destruct (ref_eval root x cur vars) as [v| | | |]; try reflexivity. cbn [bind].
    destruct k as [|start stop step| |c|].
    - destruct v; try reflexivity. apply (Hsplit (fun y => re s1 y)).
    - destruct step as [[|p|p]|]; try reflexivity;
        (destruct v; try reflexivity; [destruct Hs|apply (Hsplit (fun y => re s1 y))]).
    - destruct v; try reflexivity. apply (Hsplit (fun y => re s1 y)).
    - destruct v; try reflexivity.
      rewrite <- (Hsplit (filter_pass root vars c (fun y => re s1 y))). f_equal.
      apply proj_list_ext. intros y. unfold filter_pass.
      destruct (ref_eval root c y vars) as [cv| | | |]; try reflexivity. cbn [bind].
      destruct (spec_truthy cv); [reflexivity|]. cbn [bind]. symmetry. exact Hn.
    - destruct v; try reflexivity. apply (Hsplit (fun y => re s1 y)).
  Qed.

  (* c. a projection = its unprojected form piped into [*] with the same
        right-hand side, when that right-hand side is null-strict (and, for a
        filter, the condition does not fail) *)
  Theorem proj_split_current k x e cur :
    null_strict_at root vars e ->
    not_string_slice k (re x cur) ->
    cond_total_at root vars k (re x cur) ->
    re (RProj k x e) cur = re (RPipe (RProj k x RCurrent) (RProj PList RCurrent e)) cur.
  Proof.
    intros Hn Hs Hc.
    assert (Hdrop : forall l,
              (do ps <- proj_list (fun y => re e y) l; Ok (VArr ps)) =
              (do w <- (do ps <- proj_list (fun y => Ok y) l; Ok (VArr ps)); re (RProj PList RCurrent e) w)).
    { intros l. rewrite second_pass, proj_list_id. cbn [bind].
      rewrite (proj_list_drop (fun y => re e y) Hn). reflexivity. }
    assert (Hf : forall (F : value -> outcome value) l,
              (forall y, In y l -> exists v, F y = Ok v) ->
              (do ps <- proj_list (fun y => do v <- F y; re e v) l; Ok (VArr ps)) =
              (do w <- (do ps <- proj_list F l; Ok (VArr ps)); re (RProj PList RCurrent e) w)).
    { intros F l HF. rewrite second_pass, (proj_list_split_l F (fun v => re e v) Hn l HF), bind_assoc.
      reflexivity. }
    change (re (RPipe (RProj k x RCurrent) (RProj PList RCurrent e)) cur)
      with (do w <- re (RProj k x RCurrent) cur; re (RProj PList RCurrent e) w).
    cbn [ref_eval]. destruct (ref_eval root x cur vars) as [v| | | |]; try reflexivity. cbn [bind].
    destruct k as [|start stop step| |c|].
    - destruct v; try reflexivity. apply Hdrop.
    - destruct step as [[|p|p]|]; try reflexivity;
        (destruct v; try reflexivity; [destruct Hs|apply Hdrop]).
    - destruct v; try reflexivity. apply Hdrop.
    - destruct v as [| | | |a| |]; try reflexivity. cbn [cond_total_at] in Hc.
      etransitivity; [|apply (Hf (filter_pass root vars c (fun y => Ok y)) a)].
      + f_equal. apply proj_list_ext. intros y. unfold filter_pass.
        destruct (ref_eval root c y vars) as [cv| | | |]; try reflexivity. cbn [bind].
        destruct (spec_truthy cv); [reflexivity|]. cbn [bind]. symmetry. exact Hn.
      + intros y Hy. unfold filter_pass. destruct (Hc y Hy) as [w ->]. cbn [bind].
        destruct (spec_truthy w); eexists; reflexivity.
    - destruct v; try reflexivity. apply Hdrop.
  Qed.

  (* c, for a filter whose condition may fail: the right-hand side total instead *)
  Theorem proj_split_current_total k x e cur :
    null_strict_at root vars e -> total_at root vars e ->
    not_string_slice k (re x cur) ->
    re (RProj k x e) cur = re (RPipe (RProj k x RCurrent) (RProj PList RCurrent e)) cur.
  Proof.
    intros Hn Ht Hs. rewrite <- (proj_split_total k x RCurrent e cur Hn Ht Hs).
    apply (cong_proj root vars vars); [apply Rk_refl|intros c; reflexivity|intros c; reflexivity].
  Qed.
End ProjSplit.

(* a, as stated for chains: all kinds but a slice of a string *)
Theorem proj_chain_split k x s1 s2 root cur vars :
  strict_chain s2 ->
  not_string_slice k (ref_eval root x cur vars) ->
  ref_eval root (RProj k x (graft s1 s2)) cur vars =
  ref_eval root (RPipe (RProj k x s1) (RProj PList RCurrent s2)) cur vars.
Proof.
  intros Hc Hs.
  rewrite <- (proj_split_total root vars k x s1 s2 cur (chain_null_strict s2 root vars Hc)
                (chain_total s2 root vars Hc) Hs).
  apply (cong_proj root vars vars); [apply Rk_refl|intros c; reflexivity|].
  intros c. apply graft_pipe. exact Hc.
Qed.

Definition is_slice_kind (k : projkind) : bool := match k with PSlice _ _ _ => true | _ => false end.

Corollary proj_chain_split_equiv k x s1 s2 :
  strict_chain s2 -> is_slice_kind k = false ->
  RProj k x (graft s1 s2) ≡ RPipe (RProj k x s1) (RProj PList RCurrent s2).
Proof.
  intros Hc Hk root cur vars. apply proj_chain_split; [exact Hc|]. destruct k; try exact I. discriminate.
Qed.

(* c, per kind, for expressions that are null-strict everywhere *)
Definition null_strict (e : rexpr) : Prop := forall root vars, null_strict_at root vars e.

Corollary list_projection_split x e : null_strict e ->
  RProj PList x e ≡ RPipe (RProj PList x RCurrent) (RProj PList RCurrent e).
Proof. intros H root cur vars. apply proj_split_current; [apply H|exact I|exact I]. Qed.
Corollary flatten_projection_split x e : null_strict e ->
  RProj PFlatten x e ≡ RPipe (RProj PFlatten x RCurrent) (RProj PList RCurrent e).
Proof. intros H root cur vars. apply proj_split_current; [apply H|exact I|exact I]. Qed.
Corollary values_projection_split x e : null_strict e ->
  RProj PValues x e ≡ RPipe (RProj PValues x RCurrent) (RProj PList RCurrent e).
Proof. intros H root cur vars. apply proj_split_current; [apply H|exact I|exact I]. Qed.
Corollary slice_projection_split a b s x e root cur vars :
  null_strict_at root vars e ->
  (forall t, ref_eval root x cur vars <> Ok (VStr t)) ->
  ref_eval root (RProj (PSlice a b s) x e) cur vars =
  ref_eval root (RPipe (RProj (PSlice a b s) x RCurrent) (RProj PList RCurrent e)) cur vars.
Proof.
  intros H Hx. apply proj_split_current; [exact H| |exact I].
  cbn [not_string_slice]. destruct (ref_eval root x cur vars) as [[]| | | |]; try exact I.
  exact (Hx s0 eq_refl).
Qed.
Corollary filter_projection_split c x e root cur vars :
  null_strict_at root vars e ->
  (forall y, exists w, ref_eval root c y vars = Ok w) ->
  ref_eval root (RProj (PFilter c) x e) cur vars =
  ref_eval root (RPipe (RProj (PFilter c) x RCurrent) (RProj PList RCurrent e)) cur vars.
Proof.
  intros H Hc. apply proj_split_current; [exact H|exact I|].
  cbn [cond_total_at]. destruct (ref_eval root x cur vars) as [[]| | | |]; try exact I. intros y _. apply Hc.
Qed.
Corollary filter_projection_split_total c x e root cur vars :
  null_strict_at root vars e -> total_at root vars e ->
  ref_eval root (RProj (PFilter c) x e) cur vars =
  ref_eval root (RPipe (RProj (PFilter c) x RCurrent) (RProj PList RCurrent e)) cur vars.
Proof. intros H Ht. apply proj_split_current_total; [exact H|exact Ht|exact I]. Qed.

(* ---- b. x[*].e = map(&e, x) with the nulls pruned ---- *)
Definition s_map : bytes := [109;97;112].

Lemma ref_eval_proj_list root l r cur vars :
  ref_eval root (RProj PList l r) cur vars =
  do v <- ref_eval root l cur vars;
  match v with
  | VArr a => do ps <- proj_list (fun x => ref_eval root r x vars) a; Ok (VArr ps)
  | _ => Ok VNull
  end.
Proof. reflexivity. Qed.

Lemma ref_eval_map root e x cur vars :
  ref_eval root (RCall s_map [ARef e; AExpr x]) cur vars =
  do v <- ref_eval root x cur vars; map_array (fun y => ref_eval root e y vars) v.
Proof.
  rewrite ref_eval_call.
  assert (E1 : beqb s_map s_not_null = false) by reflexivity.
  assert (E2 : beqb s_map s_merge = false) by reflexivity.
  assert (E3 : beqb s_map s_zip = false) by reflexivity.
  rewrite E1, E2, E3. cbn [args_loop].
  destruct (ref_eval root x cur vars) as [v| | | |]; reflexivity.
Qed.

(* the premise: x does not evaluate to a non-array (map would raise invalid-type,
   the projection gives null) *)
Theorem list_projection_is_map x e root cur vars :
  (forall v, ref_eval root x cur vars = Ok v -> exists a, v = VArr a) ->
  ref_eval root (RProj PList x e) cur vars =
  ref_eval root (RProj PList (RCall s_map [ARef e; AExpr x]) RCurrent) cur vars.
Proof.
  intros H. rewrite !ref_eval_proj_list, ref_eval_map.
  destruct (ref_eval root x cur vars) as [v| | | |]; try reflexivity.
  destruct (H v eq_refl) as [a ->]. cbn [bind map_array]. rewrite proj_list_mapM.
  destruct (mapM _ a) as [r| | | |]; try reflexivity. cbn [bind]. rewrite proj_list_id. reflexivity.
Qed.

(* ---- d. a.b = a | b ---- *)
Theorem sub_is_pipe a b : is_multi b = false -> RSub a b ≡ RPipe a b.
Proof. intros H root cur vars. rewrite ref_eval_sub, H. reflexivity. Qed.

(* a multi-select after a dot is not applied to null *)
Theorem sub_multi_is_pipe a b root cur vars :
  (forall v, ref_eval root a cur vars = Ok v -> not_null v = true) ->
  ref_eval root (RSub a b) cur vars = ref_eval root (RPipe a b) cur vars.
Proof.
  intros H. rewrite ref_eval_sub. cbn [ref_eval].
  destruct (ref_eval root a cur vars) as [v| | | |]; try reflexivity. cbn [bind].
  rewrite (H v eq_refl), andb_false_r. reflexivity.
Qed.
Theorem sub_multi_on_null a b root cur vars :
  is_multi b = true -> ref_eval root a cur vars = Ok VNull ->
  ref_eval root (RSub a b) cur vars = Ok VNull.
Proof. intros Hm Ha. rewrite ref_eval_sub, Ha, Hm. reflexivity. Qed.

(* ---- e. a pipe (or a parenthesis) ends a projection: what follows is applied to
        the projected array, not to its elements ---- *)
Theorem projection_ends_at_pipe root k x s f cur vars :
  ref_eval root (RPipe (RProj k x s) f) cur vars =
  do v <- ref_eval root (RProj k x s) cur vars; ref_eval root f v vars.
Proof. reflexivity. Qed.
Theorem sub_after_projection k x s f : is_multi f = false ->
  RSub (RProj k x s) f ≡ RPipe (RProj k x s) f.
Proof. apply sub_is_pipe. Qed.

(* ---- f. multi-select lists ---- *)
Lemma mlist_loop_app ev es1 es2 :
  mlist_loop ev (es1 ++ es2) = do a <- mlist_loop ev es1; do b <- mlist_loop ev es2; Ok (a ++ b).
Proof.
  induction es1 as [|x r IH]; cbn [app mlist_loop bind].
  - symmetry. apply bind_ok_eta.
  - fold (mlist_loop ev (r ++ es2)). fold (mlist_loop ev r). rewrite IH.
    destruct (ev x); try reflexivity. cbn [bind].
    destruct (mlist_loop ev r); try reflexivity. cbn [bind].
    destruct (mlist_loop ev es2); reflexivity.
Qed.

Lemma multilist_nonnull root es cur vars : not_null cur = true ->
  ref_eval root (RMultiList es) cur vars =
  do vs <- mlist_loop (fun x => ref_eval root x cur vars) es; Ok (VArr vs).
Proof. intros H. rewrite ref_eval_multilist. destruct cur; try reflexivity. discriminate. Qed.

Theorem multilist_app root es1 es2 cur vars a1 a2 :
  not_null cur = true ->
  ref_eval root (RMultiList es1) cur vars = Ok (VArr a1) ->
  ref_eval root (RMultiList es2) cur vars = Ok (VArr a2) ->
  ref_eval root (RMultiList (es1 ++ es2)) cur vars = Ok (VArr (a1 ++ a2)).
Proof.
  intros Hc. rewrite !multilist_nonnull by exact Hc. rewrite mlist_loop_app.
  destruct (mlist_loop _ es1) as [b1| | | |]; try discriminate. intros [= ->].
  destruct (mlist_loop _ es2) as [b2| | | |]; try discriminate. intros [= ->]. reflexivity.
Qed.
(* in general, on a non-null current node: the elements are evaluated left to right *)
Theorem multilist_app_outcome root es1 es2 cur vars :
  not_null cur = true ->
  ref_eval root (RMultiList (es1 ++ es2)) cur vars =
  do a <- mlist_loop (fun x => ref_eval root x cur vars) es1;
  do b <- mlist_loop (fun x => ref_eval root x cur vars) es2; Ok (VArr (a ++ b)).
Proof.
  intros Hc. rewrite multilist_nonnull by exact Hc. rewrite mlist_loop_app.
  destruct (mlist_loop _ es1); try reflexivity. cbn [bind]. destruct (mlist_loop _ es2); reflexivity.
Qed.
(* a one-element list, on any current node (null included) *)
Theorem multilist_single root e cur vars :
  ref_eval root (RMultiList [e]) cur vars = do v <- ref_eval root e cur vars; Ok (VArr [v]).
Proof.
  rewrite ref_eval_multilist. cbn [mlist_loop].
  destruct cur; destruct (ref_eval root e _ vars); reflexivity.
Qed.

(* ---- g. {k: e}.k = e ---- *)
Theorem multihash_single_field k e : RSub (RMultiHash [(k, e)]) (RField k) ≡ e.
Proof.
  intros root cur vars. rewrite ref_eval_sub. cbn [is_multi andb]. rewrite ref_eval_multihash.
  cbn [mhash_loop].
  assert (E : forall v, ref_eval root (RField k) (VObj [(k, v)]) vars = Ok v).
  { intros v. cbn [ref_eval spec_field assoc]. rewrite beqb_refl. reflexivity. }
  destruct cur; destruct (ref_eval root e _ vars); cbn [bind]; try reflexivity; apply E.
Qed.

(* the selected key of a longer hash, on a non-null current node, when every
   member evaluates *)
Lemma mhash_loop_assoc ev kes k e :
  assoc k kes = Some e ->
  (forall k' e', In (k', e') kes -> exists v, ev e' = Ok v) ->
  exists kvs v, mhash_loop ev kes = Ok kvs /\ ev e = Ok v /\ assoc k kvs = Some v.
Proof.
  induction kes as [|[k0 e0] r IH]; [discriminate|]. intros Ha Ht. cbn [assoc] in Ha.
  destruct (Ht k0 e0 (or_introl eq_refl)) as [v0 Hv0].
  cbn [mhash_loop]. fold (mhash_loop ev r). rewrite Hv0. cbn [bind].
  destruct (beqb k k0) eqn:E.
  - injection Ha as <-.
    assert (exists kvs, mhash_loop ev r = Ok kvs) as [kvs Hk].
    { clear IH E. induction r as [|[k1 e1] r' IHr]; [eexists; reflexivity|].
      destruct (Ht k1 e1 (or_intror (or_introl eq_refl))) as [v1 Hv1].
      destruct IHr as [kvs Hk]; [intros k' e' [H|H]; apply (Ht k' e'); [left|right; right]; assumption|].
      cbn [mhash_loop]. fold (mhash_loop ev r'). rewrite Hv1, Hk. eexists; reflexivity. }
    rewrite Hk. exists ((k0, v0) :: kvs), v0. cbn [bind assoc]. rewrite E. auto.
  - destruct (IH Ha) as [kvs [v [Hk [Hv Hs]]]]; [intros k' e' H; apply (Ht k' e'); right; exact H|].
    rewrite Hk. exists ((k0, v0) :: kvs), v. cbn [bind assoc]. rewrite E. auto.
Qed.

Theorem multihash_select root kes k e cur vars :
  not_null cur = true -> assoc k kes = Some e ->
  (forall k' e', In (k', e') kes -> exists v, ref_eval root e' cur vars = Ok v) ->
  ref_eval root (RSub (RMultiHash kes) (RField k)) cur vars = ref_eval root e cur vars.
Proof.
  intros Hc Ha Ht. rewrite ref_eval_sub. cbn [is_multi andb]. rewrite ref_eval_multihash.
  destruct (mhash_loop_assoc (fun x => ref_eval root x cur vars) kes k e Ha Ht) as [kvs [v [Hk [Hv Hs]]]].
  rewrite Hk, Hv.
  assert (E : ref_eval root (RField k) (VObj kvs) vars = Ok v)
    by (cbn [ref_eval spec_field]; rewrite Hs; reflexivity).
  destruct cur; try discriminate; destruct kes as [|? [|? ?]]; cbn [bind]; exact E.
Qed.

(* ---- a and c with null-strictness alone: the same answer ---- *)
(* Without the conditions on failures the two forms still succeed together and
   with the same value; when they fail they may report different failures
   (filter_split_failure_order below). *)
Definition agree {A} (o1 o2 : outcome A) : Prop :=
  match o1, o2 with
  | Ok a, Ok b => a = b
  | Ok _, _ | _, Ok _ => False
  | _, _ => True
  end.
Lemma agree_eq {A} (o1 o2 : outcome A) : o1 = o2 -> agree o1 o2.
Proof. intros <-. destruct o1; cbn [agree]; auto. Qed.
Lemma agree_ok {A} (o1 o2 : outcome A) v : agree o1 o2 -> (o1 = Ok v <-> o2 = Ok v).
Proof. destruct o1, o2; cbn [agree]; intros H; try contradiction; split; intros E; try discriminate; congruence. Qed.
Lemma agree_map {A B} (h : A -> B) (o1 o2 : outcome A) :
  agree o1 o2 -> agree (do x <- o1; Ok (h x)) (do x <- o2; Ok (h x)).
Proof. destruct o1, o2; cbn [agree bind]; intros H; try exact H; congruence. Qed.

Lemma proj_list_split_agree f g l : g VNull = Ok VNull ->
  agree (proj_list (fun x => do v <- f x; g v) l) (do ps <- proj_list f l; proj_list g ps).
Proof.
  intros g_null. induction l as [|x r IH]; [reflexivity|].
  cbn [proj_list]. destruct (f x) as [v| | | |]; cbn [bind]; try exact I.
  revert IH. destruct (proj_list f r) as [ps0| | | |]; cbn [bind].
  - destruct v; cbn [not_null proj_list]; rewrite ?g_null; cbn [bind not_null];
      try (match goal with |- context [g ?u] => destruct (g u) as [p| | | |] end;
           cbn [bind agree]; try (intros; exact I));
      destruct (proj_list _ r), (proj_list g ps0); cbn [bind agree]; intros IH;
      try exact I; try contradiction; first [subst; reflexivity | congruence].
  - destruct (g v); cbn [bind agree]; try (intros; exact I).
    destruct (proj_list _ r); cbn [bind agree]; intros IH; try exact I; contradiction.
  - destruct (g v); cbn [bind agree]; try (intros; exact I).
    destruct (proj_list _ r); cbn [bind agree]; intros IH; try exact I; contradiction.
  - destruct (g v); cbn [bind agree]; try (intros; exact I).
    destruct (proj_list _ r); cbn [bind agree]; intros IH; try exact I; contradiction.
  - destruct (g v); cbn [bind agree]; try (intros; exact I).
    destruct (proj_list _ r); cbn [bind agree]; intros IH; try exact I; contradiction.
Qed.

Theorem proj_split_agree root vars k x s1 s2 cur :
  null_strict_at root vars s2 ->
  not_string_slice k (ref_eval root x cur vars) ->
  agree (ref_eval root (RProj k x (RPipe s1 s2)) cur vars)
        (ref_eval root (RPipe (RProj k x s1) (RProj PList RCurrent s2)) cur vars).
Proof.
  intros Hn Hs.
  assert (Hsplit : forall (F : value -> outcome value) l,
            agree (do ps <- proj_list (fun y => do v <- F y; ref_eval root s2 v vars) l; Ok (VArr ps))
                  (do w <- (do ps <- proj_list F l; Ok (VArr ps)); ref_eval root (RProj PList RCurrent s2) w vars)).
  { intros F l. rewrite second_pass, <- bind_assoc. apply agree_map.
    apply (proj_list_split_agree F (fun v => ref_eval root s2 v vars) l Hn). }
  change (ref_eval root (RPipe (RProj k x s1) (RProj PList RCurrent s2)) cur vars)
    with (do w <- ref_eval root (RProj k x s1) cur vars; ref_eval root (RProj PList RCurrent s2) w vars).
  cbn [ref_eval]. destruct (ref_eval root x cur vars) as [v| | | |]; try exact I. cbn [bind].
  destruct k as [|start stop step| |c|].
  - destruct v; try reflexivity. apply (Hsplit (fun y => ref_eval root s1 y vars)).
  - destruct step as [[|p|p]|]; try exact I;
      (destruct v; try reflexivity; [destruct Hs|apply (Hsplit (fun y => ref_eval root s1 y vars))]).
  - destruct v; try reflexivity. apply (Hsplit (fun y => ref_eval root s1 y vars)).
  - destruct v as [| | | |a| |]; try reflexivity.
    pose proof (Hsplit (filter_pass root vars c (fun y => ref_eval root s1 y vars)) a) as H.
    erewrite proj_list_ext in H; [exact H|].
    intros y. unfold filter_pass.
    destruct (ref_eval root c y vars) as [cv| | | |]; try reflexivity. cbn [bind].
    destruct (spec_truthy cv); [reflexivity|]. cbn [bind]. exact Hn.
  - destruct v; try reflexivity. apply (Hsplit (fun y => ref_eval root s1 y vars)).
Qed.

(* c in that form: any kind, any condition, e null-strict *)
Corollary proj_split_current_agree root vars k x e cur :
  null_strict_at root vars e ->
  not_string_slice k (ref_eval root x cur vars) ->
  agree (ref_eval root (RProj k x e) cur vars)
        (ref_eval root (RPipe (RProj k x RCurrent) (RProj PList RCurrent e)) cur vars).
Proof.
  intros Hn Hs. pose proof (proj_split_agree root vars k x RCurrent e cur Hn Hs) as H.
  rewrite (cong_proj root vars vars k k x x (RPipe RCurrent e) e) in H; [exact H|apply Rk_refl| |];
    intros c; reflexivity.
Qed.

(* ================================================================== *)
(* Part 4. the fused project nodes of the evaluator model              *)
(* ================================================================== *)

(* ---- directly on eval (no hypothesis on the shape of the sub-nodes) ---- *)

Lemma project_list_as_proj ev l : project_list ev l = proj_list ev l.
Proof. apply project_list_proj. reflexivity. Qed.

Lemma project_list_drop ev l : ev VNull = Ok VNull -> project_list ev (drop_nulls l) = project_list ev l.
Proof. intros H. rewrite !project_list_as_proj, drop_nulls_filter. apply proj_list_drop. exact H. Qed.

(* l[*].r = (l[*]) | [*].r, for r null-strict: the pruned array has lost the null
   elements, on which the fused node still evaluates r *)
Theorem NProjectArray_split root l r cur vars :
  is_slice_node l = false ->
  eval root r VNull vars = Ok VNull ->
  eval root (NProjectArray l r) cur vars =
  eval root (NPipe (NPruneArray l) (NProjectArrayCurrent r)) cur vars.
Proof.
  intros Hs Hn. rewrite eval_project_array_noslice by exact Hs. cbn [eval].
  destruct (eval root l cur vars) as [x| | | |]; try reflexivity. cbn [bind].
  destruct x; try reflexivity. cbn [prune_array project_array].
  rewrite (project_list_drop _ _ Hn). reflexivity.
Qed.

Theorem NProjectObject_split root l r cur vars :
  eval root r VNull vars = Ok VNull ->
  eval root (NProjectObject l r) cur vars =
  eval root (NPipe (NObjectValues l) (NProjectArrayCurrent r)) cur vars.
Proof.
  intros Hn. cbn [eval].
  destruct (eval root l cur vars) as [x| | | |]; try reflexivity. cbn [bind].
  destruct x; try reflexivity. cbn [object_values project_object project_array].
  rewrite <- (project_list_drop _ (map snd m) Hn), drop_nulls_filter. reflexivity.
Qed.

Theorem NFlattenAndProject_split root l r cur vars :
  eval root r VNull vars = Ok VNull ->
  eval root (NFlattenAndProject l r) cur vars =
  eval root (NPipe (NFlatten l) (NProjectArrayCurrent r)) cur vars.
Proof.
  intros Hn. cbn [eval].
  destruct (eval root l cur vars) as [x| | | |]; try reflexivity. cbn [bind].
  destruct x as [| | | |a| |]; try reflexivity. rewrite flatten_spec. cbn [flatten_and_project project_array].
  fold (merge_level a). rewrite <- (project_list_drop _ (merge_level a) Hn), drop_nulls_filter. reflexivity.
Qed.

(* the filter: the fused node meets the failures of the condition and of r
   interleaved; the piped form meets those of the condition first *)
Lemma filter_and_project_split pred ev x :
  ev VNull = Ok VNull ->
  (forall y, exists w, pred y = Ok w) \/ (forall y, exists w, ev y = Ok w) ->
  filter_and_project pred ev x = do y <- filter_array pred x; project_array ev y.
Proof.
  intros Hn Ht. destruct x as [| | | |a| |]; try reflexivity. cbn [filter_and_project filter_array].
  rewrite (filter_project_list_proj pred pred ev ev) by reflexivity.
  rewrite (filter_list_proj pred pred) by reflexivity.
  set (F := fun x => do c <- pred x; if spec_truthy c then Ok x else Ok VNull).
  assert (E : proj_list (fun x => do c <- pred x; if spec_truthy c then ev x else Ok VNull) a =
              do ps <- proj_list F a; proj_list ev ps).
  { rewrite (proj_list_ext _ (fun x => do v <- F x; ev v)).
    - destruct Ht as [Hp|He].
      + apply proj_list_split_l; [exact Hn|]. intros y _. unfold F. destruct (Hp y) as [w ->]. cbn [bind].
        destruct (spec_truthy w); eexists; reflexivity.
      + apply proj_list_split_r; assumption.
    - intros y. unfold F. destruct (pred y) as [c| | | |]; try reflexivity. cbn [bind].
      destruct (spec_truthy c); [reflexivity|]. cbn [bind]. symmetry. exact Hn. }
  rewrite E. destruct (proj_list F a) as [ps| | | |]; try reflexivity. cbn [bind project_array].
  rewrite project_list_as_proj. reflexivity.
Qed.

Theorem NFilterAndProject_split root l f r cur vars :
  eval root r VNull vars = Ok VNull ->
  (forall y, exists w, eval root f y vars = Ok w) \/ (forall y, exists w, eval root r y vars = Ok w) ->
  eval root (NFilterAndProject l f r) cur vars =
  eval root (NPipe (NFilter l f) (NProjectArrayCurrent r)) cur vars.
Proof.
  intros Hn Ht. cbn [eval].
  destruct (eval root l cur vars) as [x| | | |]; try reflexivity. cbn [bind].
  apply (filter_and_project_split (fun v => eval root f v vars) (fun v => eval root r v vars)); assumption.
Qed.

(* the "Current" variants, through Part 1 *)
Corollary NFilterAndProjectCurrent_split root f r cur vars :
  eval root r VNull vars = Ok VNull ->
  (forall y, exists w, eval root f y vars = Ok w) \/ (forall y, exists w, eval root r y vars = Ok w) ->
  eval root (NFilterAndProjectCurrent f r) cur vars =
  eval root (NPipe (NFilterCurrent f) (NProjectArrayCurrent r)) cur vars.
Proof. intros Hn Ht. exact (NFilterAndProject_split root NCurrent f r cur vars Hn Ht). Qed.
Corollary NFlattenAndProjectCurrent_split root r cur vars :
  eval root r VNull vars = Ok VNull ->
  eval root (NFlattenAndProjectCurrent r) cur vars =
  eval root (NPipe NFlattenCurrent (NProjectArrayCurrent r)) cur vars.
Proof. intros Hn. exact (NFlattenAndProject_split root NCurrent r cur vars Hn). Qed.
Corollary NProjectArrayCurrent_split root r cur vars :
  eval root r VNull vars = Ok VNull ->
  eval root (NProjectArrayCurrent r) cur vars =
  eval root (NPipe NPruneArrayCurrent (NProjectArrayCurrent r)) cur vars.
Proof.
  intros Hn. rewrite NProjectArrayCurrent_explicit.
  exact (NProjectArray_split root NCurrent r cur vars eq_refl Hn).
Qed.
Corollary NProjectObjectCurrent_split root r cur vars :
  eval root r VNull vars = Ok VNull ->
  eval root (NProjectObjectCurrent r) cur vars =
  eval root (NPipe NObjectValuesCurrent (NProjectArrayCurrent r)) cur vars.
Proof. intros Hn. exact (NProjectObject_split root NCurrent r cur vars Hn). Qed.

(* ---- by transport: two nodes with equivalent unfused meanings ---- *)

(* the nodes eval_refines_slice1 covers *)
Definition plain_node (n : node) : Prop :=
  wf_node n = true /\ no_step_slice n = true /\ no_zip n = true.

Theorem eval_transport root n1 n2 cur vars :
  plain_node n1 -> plain_node n2 ->
  ref_eval root (unfuse n1) cur vars = ref_eval root (unfuse n2) cur vars ->
  eval root n1 cur vars = eval root n2 cur vars.
Proof.
  intros [W1 [S1 Z1]] [W2 [S2 Z2]] H.
  rewrite (eval_refines_slice1 root n1 cur vars W1 S1 Z1), (eval_refines_slice1 root n2 cur vars W2 S2 Z2).
  exact H.
Qed.

Corollary eval_transport_equiv n1 n2 :
  plain_node n1 -> plain_node n2 -> unfuse n1 ≡ unfuse n2 ->
  forall root cur vars, eval root n1 cur vars = eval root n2 cur vars.
Proof. intros P1 P2 H root cur vars. apply eval_transport; [exact P1|exact P2|apply H]. Qed.

(* null-strictness and totality go through the refinement as well *)
Lemma null_strict_transport root vars r : plain_node r ->
  eval root r VNull vars = Ok VNull -> null_strict_at root vars (unfuse r).
Proof. intros [W [S Z]] H. unfold null_strict_at. rewrite <- (eval_refines_slice1 root r VNull vars W S Z). exact H. Qed.

(* chains of identifiers and indices, as nodes *)
Fixpoint nchain (n : node) : bool :=
  match n with
  | NCurrent | NField _ | NIndexCurrent _ | NSmallIndexCurrent _ => true
  | NIndex c _ => nchain c
  | NPipe a b => nchain a && nchain b
  | _ => false
  end.

Lemma nchain_strict n : nchain n = true -> strict_chain (unfuse n).
Proof.
  induction n; cbn [nchain unfuse]; intros H; try discriminate;
    try (constructor; fail); try (constructor; constructor; fail).
  - constructor. auto.
  - apply andb_prop in H as [H1 H2]. constructor; auto.
Qed.
Lemma nchain_plain n : nchain n = true -> plain_node n.
Proof.
  induction n; cbn [nchain]; intros H; try discriminate; try (repeat split; reflexivity).
  - destruct (IHn H) as [W [S Z]]. repeat split; assumption.
  - apply andb_prop in H as [H1 H2].
    destruct (IHn1 H1) as [W1 [S1 Z1]]. destruct (IHn2 H2) as [W2 [S2 Z2]].
    repeat split; cbn [wf_node no_step_slice no_zip]; rewrite ?W1, ?W2, ?S1, ?S2, ?Z1, ?Z2; reflexivity.
Qed.

Lemma plain_pipe a b : plain_node a -> plain_node b -> plain_node (NPipe a b).
Proof.
  intros [W1 [S1 Z1]] [W2 [S2 Z2]].
  repeat split; cbn [wf_node no_step_slice no_zip]; rewrite ?W1, ?W2, ?S1, ?S2, ?Z1, ?Z2; reflexivity.
Qed.
Lemma plain_project_array l r : is_slice_node l = false ->
  plain_node l -> plain_node r -> plain_node (NProjectArray l r).
Proof.
  intros Hs [W1 [S1 Z1]] [W2 [S2 Z2]]. repeat split.
  - rewrite wf_project_array_noslice by exact Hs. rewrite W1, W2. reflexivity.
  - cbn [no_step_slice]. rewrite S1, S2. reflexivity.
  - cbn [no_zip]. rewrite Z1, Z2. reflexivity.
Qed.
Lemma plain_project_array_current r : plain_node r -> plain_node (NProjectArrayCurrent r).
Proof. intros [W [S Z]]. repeat split; assumption. Qed.

(* identity a on nodes: l[*].s1.s2 = (l[*].s1) | [*].s2 for a chain s2.  The
   parser represents `a.b` as NPipe a b, so the chain is appended with NPipe. *)
Theorem NProjectArray_chain_split root l s1 s2 cur vars :
  is_slice_node l = false -> plain_node l -> plain_node s1 -> nchain s2 = true ->
  eval root (NProjectArray l (NPipe s1 s2)) cur vars =
  eval root (NPipe (NProjectArray l s1) (NProjectArrayCurrent s2)) cur vars.
Proof.
  intros Hs Pl P1 Hc. pose proof (nchain_plain s2 Hc) as P2. pose proof (nchain_strict s2 Hc) as C2.
  apply eval_transport.
  - apply plain_project_array; [exact Hs|exact Pl|apply plain_pipe; assumption].
  - apply plain_pipe; [apply plain_project_array; assumption|apply plain_project_array_current; exact P2].
  - change (unfuse (NPipe (NProjectArray l s1) (NProjectArrayCurrent s2)))
      with (RPipe (unfuse (NProjectArray l s1)) (RProj PList RCurrent (unfuse s2))).
    rewrite !unfuse_project_array_noslice by exact Hs.
    change (unfuse (NPipe s1 s2)) with (RPipe (unfuse s1) (unfuse s2)).
    apply proj_split_total; [apply chain_null_strict; exact C2|apply chain_total; exact C2|exact I].
Qed.

(* identity c on nodes by transport (the direct proofs above need no plain_node) *)
Theorem NFlattenAndProject_split_transport root l r cur vars :
  plain_node l -> plain_node r ->
  eval root r VNull vars = Ok VNull ->
  eval root (NFlattenAndProject l r) cur vars =
  eval root (NPipe (NFlatten l) (NProjectArrayCurrent r)) cur vars.
Proof.
  intros [W1 [S1 Z1]] [W2 [S2 Z2]] Hn. apply eval_transport.
  - repeat split; cbn [wf_node no_step_slice no_zip]; rewrite ?W1, ?W2, ?S1, ?S2, ?Z1, ?Z2; reflexivity.
  - repeat split; cbn [wf_node no_step_slice no_zip]; rewrite ?W1, ?W2, ?S1, ?S2, ?Z1, ?Z2; reflexivity.
  - cbn [unfuse]. apply proj_split_current; [|exact I|exact I].
    apply null_strict_transport; [repeat split; assumption|exact Hn].
Qed.

(* ================================================================== *)
(* Part 5. counterexamples: each side condition is needed              *)
(* ================================================================== *)

Definition s_type : bytes := [116;121;112;101].
Definition s_abs : bytes := [97;98;115].
Definition str_null : value := VStr [110;117;108;108].

(* c without null-strictness: [*].type(@) on [null].  The fused projection
   applies type to the null element; the piped form has dropped it. *)
Example split_needs_null_strict_ref :
  let e := RCall s_type [AExpr RCurrent] in
  let doc := VArr [VNull] in
  ref_search (RProj PList RCurrent e) doc = Ok (VArr [str_null]) /\
  ref_search (RPipe (RProj PList RCurrent RCurrent) (RProj PList RCurrent e)) doc = Ok (VArr []) /\
  ref_search (RProj PFlatten RCurrent e) doc = Ok (VArr [str_null]) /\
  ref_search (RPipe (RProj PFlatten RCurrent RCurrent) (RProj PList RCurrent e)) doc = Ok (VArr []).
Proof. repeat split; vm_compute; reflexivity. Qed.

Example split_needs_null_strict_eval :
  let r := NCall1 FType NCurrent in
  let doc := VArr [VNull] in
  evaluate (NProjectArray NCurrent r) doc = Ok (VArr [str_null]) /\
  evaluate (NPipe (NPruneArray NCurrent) (NProjectArrayCurrent r)) doc = Ok (VArr []) /\
  evaluate (NFlattenAndProject NCurrent r) doc = Ok (VArr [str_null]) /\
  evaluate (NPipe (NFlatten NCurrent) (NProjectArrayCurrent r)) doc = Ok (VArr []) /\
  evaluate (NFilterAndProject NCurrent (NBool true) r) doc = Ok (VArr [str_null]) /\
  evaluate (NPipe (NFilter NCurrent (NBool true)) (NProjectArrayCurrent r)) doc = Ok (VArr []).
Proof. repeat split; vm_compute; reflexivity. Qed.

(* c for a filter, with a null-strict right-hand side, when both the condition and
   the right-hand side can fail: the two forms fail differently.
   [?abs(@)].(@ && $x) on [1, "s"]: fused, $x fails on 1 before abs is tried on "s". *)
Example filter_split_failure_order :
  let c := RCall s_abs [AExpr RCurrent] in
  let e := RAnd RCurrent (RVar [120]) in
  let doc := VArr [VNum (NJson [49]); VStr [115]] in
  ref_eval doc e VNull [] = Ok VNull /\
  ref_search (RProj (PFilter c) RCurrent e) doc = Err (EUndefinedVariable [120]) /\
  ref_search (RPipe (RProj (PFilter c) RCurrent RCurrent) (RProj PList RCurrent e)) doc = Err EInvalidType.
Proof. repeat split; vm_compute; reflexivity. Qed.

(* c for a slice of a string: the slice is not a projection there *)
Example slice_split_string :
  let k := PSlice (Some 0) (Some 2) None in
  let doc := VStr [97;98;99] in
  ref_search (RProj k RCurrent RCurrent) doc = Ok (VStr [97;98]) /\
  ref_search (RPipe (RProj k RCurrent RCurrent) (RProj PList RCurrent RCurrent)) doc = Ok VNull.
Proof. repeat split; vm_compute; reflexivity. Qed.

(* a with a total selector that is not null-strict: [*].b.(!@) on [{"b":1},{}] *)
Example chain_split_needs_null_strict :
  let doc := VArr [VObj [([98], VNum (NJson [49]))]; VObj []] in
  ref_search (RProj PList RCurrent (RPipe (RField [98]) (RNot RCurrent))) doc
    = Ok (VArr [VBool false; VBool true]) /\
  ref_search (RPipe (RProj PList RCurrent (RField [98])) (RProj PList RCurrent (RNot RCurrent))) doc
    = Ok (VArr [VBool false]).
Proof. repeat split; vm_compute; reflexivity. Qed.

(* e: a[*].b[0] is not a[*].b | [0] *)
Example pipe_ends_projection :
  let one := VNum (NJson [49]) in let two := VNum (NJson [50]) in
  let three := VNum (NJson [51]) in let four := VNum (NJson [52]) in
  let doc := VObj [([97], VArr [VObj [([98], VArr [one; two])]; VObj [([98], VArr [three; four])]])] in
  ref_search (RProj PList (RField [97]) (RIndex (RField [98]) 0)) doc = Ok (VArr [one; three]) /\
  ref_search (RPipe (RProj PList (RField [97]) (RField [98])) (RIndex RCurrent 0)) doc = Ok (VArr [one; two]).
Proof. repeat split; vm_compute; reflexivity. Qed.

(* d: a.[@] is not a | [@] when a is null *)
Example sub_multi_null :
  ref_search (RSub (RField [97]) (RMultiList [RCurrent; RCurrent])) (VObj []) = Ok VNull /\
  ref_search (RSub (RField [97]) (RMultiList [RCurrent])) (VObj []) = Ok VNull /\
  ref_search (RPipe (RField [97]) (RMultiList [RCurrent])) (VObj []) = Ok (VArr [VNull]).
Proof. repeat split; vm_compute; reflexivity. Qed.

(* Part 1: the single-field multi-select "Current" node types on a null current node *)
Example select_single_current_null :
  evaluate (NSelectArraySingleCurrent NCurrent) VNull = Ok (VArr [VNull]) /\
  evaluate (NSelectArraySingle NCurrent NCurrent) VNull = Ok VNull /\
  evaluate (NSelectArrayCurrent [NCurrent]) VNull = Ok VNull /\
  evaluate (NSelectObjectSingleCurrent [97] NCurrent) VNull = Ok (VObj [([97], VNull)]) /\
  evaluate (NSelectObjectSingle NCurrent [97] NCurrent) VNull = Ok VNull.
Proof. repeat split; vm_compute; reflexivity. Qed.

(* Part 1: NPruneArray over a slice node, on a string *)
Example prune_slice_string :
  let doc := VStr [97;98;99] in
  evaluate (NPruneArray (NSliceCurrent 0 1)) doc = Ok VNull /\
  evaluate (NProjectArray (NSliceCurrent 0 1) NCurrent) doc = Ok (VStr [97]).
Proof. repeat split; vm_compute; reflexivity. Qed.

(* b: without the premise, map raises invalid-type where the projection gives null *)
Example projection_vs_map_on_non_array :
  ref_search (RProj PList RCurrent RCurrent) (VBool true) = Ok VNull /\
  ref_search (RProj PList (RCall s_map [ARef RCurrent; AExpr RCurrent]) RCurrent) (VBool true) = Err EInvalidType.
Proof. repeat split; vm_compute; reflexivity. Qed.

Print Assumptions proj_split_total.
Print Assumptions proj_chain_split.
Print Assumptions proj_split_current.
Print Assumptions proj_split_current_total.
Print Assumptions proj_split_agree.
Print Assumptions proj_split_current_agree.
Print Assumptions list_projection_is_map.
Print Assumptions sub_is_pipe.
Print Assumptions sub_multi_is_pipe.
Print Assumptions multilist_app.
Print Assumptions multilist_single.
Print Assumptions multihash_single_field.
Print Assumptions multihash_select.
Print Assumptions NProjectArray_split.
Print Assumptions NProjectObject_split.
Print Assumptions NFlattenAndProject_split.
Print Assumptions NFilterAndProject_split.
Print Assumptions NPruneArray_as_projection.
Print Assumptions eval_transport.
Print Assumptions NProjectArray_chain_split.
Print Assumptions NFlattenAndProject_split_transport.
