(* Theory of the UTF-8 model (Base/Utf8.v): encode/decode round trips, segmentation
   of well-formed strings, backward decoding, and byte order = code point order. *)
From Coq Require Import List ZArith Bool Lia.
From JM Require Import Base.Outcome Base.Bytes Base.Utf8.
Import ListNotations. Open Scope Z_scope.

Definition scalars (cs : list Z) : Prop := Forall (fun c => scalar_ok c = true) cs.

(* ------------------------------------------------------------------ *)
(* tactics *)

Ltac b2p := repeat match goal with
  | H : _ && _ = true |- _ => apply andb_true_iff in H; destruct H
  | H : negb _ = true |- _ => apply negb_true_iff in H
  | H : negb _ = false |- _ => apply negb_false_iff in H
  | H : _ && _ = false |- _ => apply andb_false_iff in H; destruct H
  | H : (_ <=? _) = true |- _ => apply Z.leb_le in H
  | H : (_ <=? _) = false |- _ => apply Z.leb_gt in H
  | H : (_ <? _) = true |- _ => apply Z.ltb_lt in H
  | H : (_ <? _) = false |- _ => apply Z.ltb_ge in H
  | H : (_ =? _) = true |- _ => apply Z.eqb_eq in H
  | H : (_ =? _) = false |- _ => apply Z.eqb_neq in H
  end.

(* decide the integer tests occurring in the goal, closing impossible branches *)
Ltac ztests := repeat (match goal with
  | |- context[?a =? ?b] => destruct (Z.eqb_spec a b); try lia
  | |- context[?a <? ?b] => destruct (Z.ltb_spec a b); try lia
  | |- context[?a <=? ?b] => destruct (Z.leb_spec a b); try lia
  end; cbn [andb negb]).

(* ------------------------------------------------------------------ *)
(* the shape of an encoded scalar value *)

Inductive enc_shape (c : Z) : bytes -> Prop :=
| ES1 : 0 <= c < 128 -> enc_shape c [c]
| ES2 b0 b1 : 194 <= b0 <= 223 -> 128 <= b1 <= 191 ->
    c = (b0 - 192) * 64 + (b1 - 128) -> enc_shape c [b0; b1]
| ES3 b0 b1 b2 : 224 <= b0 <= 239 -> 128 <= b1 <= 191 -> 128 <= b2 <= 191 ->
    (b0 = 224 -> 160 <= b1) -> (b0 = 237 -> b1 <= 159) ->
    c = (b0 - 224) * 4096 + (b1 - 128) * 64 + (b2 - 128) -> enc_shape c [b0; b1; b2]
| ES4 b0 b1 b2 b3 : 240 <= b0 <= 244 -> 128 <= b1 <= 191 -> 128 <= b2 <= 191 -> 128 <= b3 <= 191 ->
    (b0 = 240 -> 144 <= b1) -> (b0 = 244 -> b1 <= 143) ->
    c = (b0 - 240) * 262144 + (b1 - 128) * 4096 + (b2 - 128) * 64 + (b3 - 128) ->
    enc_shape c [b0; b1; b2; b3].

Lemma encode_rune_shape c : scalar_ok c = true -> enc_shape c (encode_rune c).
Proof.
  intros H. unfold encode_rune. rewrite H. cbn [negb].
  assert (Hc : 0 <= c <= 1114111 /\ (c < 55296 \/ 57343 < c))
    by (unfold scalar_ok, is_surrogate in H; b2p; lia).
  clear H.
  destruct (Z.ltb_spec c 128). { apply ES1; lia. }
  destruct (Z.ltb_spec c 2048).
  { apply ES2; Z.div_mod_to_equations; lia. }
  destruct (Z.ltb_spec c 65536).
  { apply ES3; Z.div_mod_to_equations; lia. }
  apply ES4; Z.div_mod_to_equations; lia.
Qed.

Lemma enc_shape_length c e : enc_shape c e -> 1 <= Z.of_nat (length e) <= 4.
Proof. destruct 1; cbn [length]; lia. Qed.

Lemma enc_shape_nonnil c e : enc_shape c e -> e <> [].
Proof. destruct 1; discriminate. Qed.

Lemma decode_shape c e r : enc_shape c e -> decode_rune (e ++ r) = (c, Z.of_nat (length e)).
Proof.
  destruct 1; cbn [app].
  - change (Z.of_nat (length [c])) with 1. unfold decode_rune. ztests. reflexivity.
  - change (Z.of_nat (length [b0; b1])) with 2. unfold decode_rune, inr, is_cont. ztests.
    subst c; reflexivity.
  - change (Z.of_nat (length [b0; b1; b2])) with 3. unfold decode_rune, inr, is_cont. cbv zeta.
    ztests; subst c; reflexivity.
  - change (Z.of_nat (length [b0; b1; b2; b3])) with 4. unfold decode_rune, inr, is_cont. cbv zeta.
    ztests; subst c; reflexivity.
Qed.

(* 1 *)
Lemma encode_rune_length : forall c, scalar_ok c = true ->
  1 <= Z.of_nat (length (encode_rune c)) <= 4.
Proof. intros c H. eapply enc_shape_length, encode_rune_shape, H. Qed.

(* 2 *)
Lemma decode_encode_rune : forall c r, scalar_ok c = true ->
  decode_rune (encode_rune c ++ r) = (c, Z.of_nat (length (encode_rune c))).
Proof. intros c r H. apply decode_shape, encode_rune_shape, H. Qed.

(* ------------------------------------------------------------------ *)
(* decode_rune always makes progress and never over-reads *)

Lemma decode_rune_size s : s <> [] -> 1 <= snd (decode_rune s) <= Z.of_nat (length s).
Proof.
  destruct s as [|b0 r]; [congruence|]. intros _. unfold decode_rune. cbv zeta.
  repeat match goal with
  | |- context[if ?c then _ else _] => destruct c
  | |- context[match ?l with [] => _ | _ :: _ => _ end] => destruct l
  end; cbn [snd length]; lia.
Qed.

Lemma skipn_decode_length s x sz :
  s <> [] -> decode_rune s = (x, sz) ->
  (length (skipn (Z.to_nat sz) s) < length s)%nat.
Proof.
  intros Hs E. pose proof (decode_rune_size s Hs) as B. rewrite E in B. cbn [snd] in B.
  rewrite skipn_length. lia.
Qed.

Lemma skipn_len_app {A} (e t : list A) : skipn (length e) (e ++ t) = t.
Proof. induction e; cbn; auto. Qed.

Lemma firstn_len_app {A} (e t : list A) : firstn (length e) (e ++ t) = e.
Proof. induction e; cbn; [destruct t|]; congruence. Qed.

(* one-step unfoldings on non-empty input *)
Lemma runes_f_S f s : s <> [] ->
  runes_f (S f) s = fst (decode_rune s) :: runes_f f (skipn (Z.to_nat (snd (decode_rune s))) s).
Proof. destruct s; [congruence|]. intros _. cbn [runes_f]. destruct (decode_rune (z :: s)); reflexivity. Qed.

Lemma chunks_f_S f s : s <> [] ->
  chunks_f (S f) s = firstn (Z.to_nat (snd (decode_rune s))) s
                     :: chunks_f f (skipn (Z.to_nat (snd (decode_rune s))) s).
Proof. destruct s; [congruence|]. intros _. cbn [chunks_f]. destruct (decode_rune (z :: s)); reflexivity. Qed.

Lemma runes_f_nil f : runes_f f [] = [].
Proof. destruct f; reflexivity. Qed.

Lemma chunks_f_nil f : chunks_f f [] = [].
Proof. destruct f; reflexivity. Qed.

(* any fuel >= length gives the same result *)
Lemma runes_f_fuel : forall f1 f2 s, (length s <= f1)%nat -> (length s <= f2)%nat ->
  runes_f f1 s = runes_f f2 s.
Proof.
  induction f1 as [|f1 IH]; intros f2 s H1 H2.
  - destruct s; [|cbn in H1; lia]. now rewrite !runes_f_nil.
  - destruct s as [|b r]; [now rewrite !runes_f_nil|].
    destruct f2 as [|f2]; [cbn in H2; lia|].
    assert (Hne : b :: r <> []) by discriminate.
    rewrite !runes_f_S by assumption. f_equal.
    pose proof (skipn_decode_length (b :: r) _ _ Hne (surjective_pairing _)).
    apply IH; lia.
Qed.

Lemma runes_f_enough fuel s : (length s <= fuel)%nat -> runes_f fuel s = runes s.
Proof. intros. unfold runes. apply runes_f_fuel; lia. Qed.

Lemma chunks_f_fuel : forall f1 f2 s, (length s <= f1)%nat -> (length s <= f2)%nat ->
  chunks_f f1 s = chunks_f f2 s.
Proof.
  induction f1 as [|f1 IH]; intros f2 s H1 H2.
  - destruct s; [|cbn in H1; lia]. now rewrite !chunks_f_nil.
  - destruct s as [|b r]; [now rewrite !chunks_f_nil|].
    destruct f2 as [|f2]; [cbn in H2; lia|].
    assert (Hne : b :: r <> []) by discriminate.
    rewrite !chunks_f_S by assumption. f_equal.
    pose proof (skipn_decode_length (b :: r) _ _ Hne (surjective_pairing _)).
    apply IH; lia.
Qed.

Lemma chunks_f_enough fuel s : (length s <= fuel)%nat -> chunks_f fuel s = chunks s.
Proof. intros. unfold chunks. apply chunks_f_fuel; lia. Qed.

(* unfolding equations for runes / chunks themselves *)
Lemma runes_nil : runes [] = [].
Proof. reflexivity. Qed.

Lemma runes_step s : s <> [] ->
  runes s = fst (decode_rune s) :: runes (skipn (Z.to_nat (snd (decode_rune s))) s).
Proof.
  intros Hne. unfold runes at 1. destruct s as [|b r] eqn:Es; [congruence|].
  cbn [length]. rewrite runes_f_S by assumption. f_equal.
  apply runes_f_enough.
  pose proof (skipn_decode_length (b :: r) _ _ Hne (surjective_pairing _)). cbn [length] in H. lia.
Qed.

Lemma chunks_nil : chunks [] = [].
Proof. reflexivity. Qed.

Lemma chunks_step s : s <> [] ->
  chunks s = firstn (Z.to_nat (snd (decode_rune s))) s
             :: chunks (skipn (Z.to_nat (snd (decode_rune s))) s).
Proof.
  intros Hne. unfold chunks at 1. destruct s as [|b r] eqn:Es; [congruence|].
  cbn [length]. rewrite chunks_f_S by assumption. f_equal.
  apply chunks_f_enough.
  pose proof (skipn_decode_length (b :: r) _ _ Hne (surjective_pairing _)). cbn [length] in H. lia.
Qed.

(* ------------------------------------------------------------------ *)
(* segmentation of encode_all *)

Lemma encode_all_cons c cs : encode_all (c :: cs) = encode_rune c ++ encode_all cs.
Proof. reflexivity. Qed.

Lemma encode_all_app a b : encode_all (a ++ b) = encode_all a ++ encode_all b.
Proof. apply flat_map_app. Qed.

Lemma scalars_cons c cs : scalars (c :: cs) <-> scalar_ok c = true /\ scalars cs.
Proof. unfold scalars. split; [inversion 1; auto | intros []; constructor; auto]. Qed.

Lemma scalars_app a b : scalars (a ++ b) <-> scalars a /\ scalars b.
Proof. apply Forall_app. Qed.

Lemma app_nonnil {A} (e t : list A) : e <> [] -> e ++ t <> [].
Proof. destruct e; [congruence|discriminate]. Qed.

Lemma runes_enc_app c t : scalar_ok c = true -> runes (encode_rune c ++ t) = c :: runes t.
Proof.
  intros H. pose proof (encode_rune_shape c H) as Sh.
  rewrite runes_step by (apply app_nonnil; eapply enc_shape_nonnil; eauto).
  rewrite decode_encode_rune by assumption. cbn [fst snd].
  rewrite Nat2Z.id, skipn_len_app. reflexivity.
Qed.

Lemma chunks_enc_app c t : scalar_ok c = true ->
  chunks (encode_rune c ++ t) = encode_rune c :: chunks t.
Proof.
  intros H. pose proof (encode_rune_shape c H) as Sh.
  rewrite chunks_step by (apply app_nonnil; eapply enc_shape_nonnil; eauto).
  rewrite decode_encode_rune by assumption. cbn [fst snd].
  rewrite Nat2Z.id, skipn_len_app, firstn_len_app. reflexivity.
Qed.

Lemma runes_encode_all_app : forall cs t, scalars cs -> runes (encode_all cs ++ t) = cs ++ runes t.
Proof.
  induction cs as [|c cs IH]; intros t H; [reflexivity|].
  apply scalars_cons in H as [Hc Hcs].
  rewrite encode_all_cons, <- app_assoc, runes_enc_app by assumption.
  rewrite IH by assumption. reflexivity.
Qed.

Lemma chunks_encode_all_app : forall cs t, scalars cs ->
  chunks (encode_all cs ++ t) = map encode_rune cs ++ chunks t.
Proof.
  induction cs as [|c cs IH]; intros t H; [reflexivity|].
  apply scalars_cons in H as [Hc Hcs].
  rewrite encode_all_cons, <- app_assoc, chunks_enc_app by assumption.
  rewrite IH by assumption. reflexivity.
Qed.

(* 3 *)
Lemma runes_encode_all : forall cs, scalars cs -> runes (encode_all cs) = cs.
Proof.
  intros cs H. rewrite <- (app_nil_r (encode_all cs)), runes_encode_all_app by assumption.
  rewrite runes_nil. apply app_nil_r.
Qed.

(* 4 *)
Lemma chunks_encode_all : forall cs, scalars cs -> chunks (encode_all cs) = map encode_rune cs.
Proof.
  intros cs H. rewrite <- (app_nil_r (encode_all cs)), chunks_encode_all_app by assumption.
  rewrite chunks_nil. apply app_nil_r.
Qed.

(* 5 *)
Lemma rune_count_encode_all : forall cs, scalars cs ->
  rune_count (encode_all cs) = Z.of_nat (length cs).
Proof. intros cs H. unfold rune_count. now rewrite runes_encode_all. Qed.

(* 6 *)
Lemma valid_utf8_encode_all : forall cs, scalars cs -> valid_utf8 (encode_all cs) = true.
Proof. intros cs H. unfold valid_utf8. rewrite runes_encode_all by assumption. apply beqb_refl. Qed.

(* 7 *)
Lemma valid_utf8_inv : forall s, valid_utf8 s = true -> s = encode_all (runes s).
Proof. intros s H. symmetry. apply beqb_eq, H. Qed.

(* every decoded rune of a byte string is a scalar value (invalid bytes give U+FFFD) *)
Lemma decode_rune_scalar s : bytes_ok s = true -> scalar_ok (fst (decode_rune s)) = true.
Proof.
  intros Hb.
  assert (G : forall c, 0 <= c <= 1114111 -> (c < 55296 \/ 57343 < c) -> scalar_ok c = true).
  { intros c H1 H2. unfold scalar_ok, is_surrogate.
    destruct H2; ztests; reflexivity. }
  destruct s as [|b0 r]; [reflexivity|].
  unfold bytes_ok in Hb. cbn [forallb] in Hb. apply andb_true_iff in Hb as [H0 Hr].
  unfold byte_ok in H0. b2p.
  unfold decode_rune, inr, is_cont. cbv zeta.
  destruct (Z.ltb_spec b0 128); [cbn [fst]; apply G; lia|].
  repeat match goal with
  | |- context[match ?l with [] => _ | _ :: _ => _ end] =>
      destruct l; [| cbn [forallb] in Hr; apply andb_true_iff in Hr as [? Hr]]
  end; unfold byte_ok in *; b2p; ztests; cbn [fst]; try reflexivity; apply G; lia.
Qed.

Lemma bytes_ok_skipn n s : bytes_ok s = true -> bytes_ok (skipn n s) = true.
Proof.
  revert s; induction n; intros s H; [assumption|]. destruct s; [assumption|].
  cbn [skipn]. apply IHn. unfold bytes_ok in *. cbn [forallb] in H.
  apply andb_true_iff in H. tauto.
Qed.

Lemma runes_scalars_f : forall fuel s, bytes_ok s = true -> scalars (runes_f fuel s).
Proof.
  induction fuel as [|f IH]; intros s H; [constructor|].
  destruct s as [|b r]; [constructor|].
  rewrite runes_f_S by discriminate. constructor.
  - apply decode_rune_scalar, H.
  - apply IH, bytes_ok_skipn, H.
Qed.

Lemma runes_scalars s : bytes_ok s = true -> scalars (runes s).
Proof. apply runes_scalars_f. Qed.

(* 7, second half *)
Lemma valid_utf8_scalars : forall s, bytes_ok s = true -> valid_utf8 s = true -> scalars (runes s).
Proof. intros s H _. apply runes_scalars, H. Qed.

(* valid strings are exactly the encodings of scalar lists *)
Lemma valid_utf8_iff s : bytes_ok s = true ->
  (valid_utf8 s = true <-> exists cs, scalars cs /\ s = encode_all cs).
Proof.
  intros Hb; split.
  - intros H. exists (runes s). split; [apply runes_scalars, Hb | apply valid_utf8_inv, H].
  - intros (cs & Hcs & ->). apply valid_utf8_encode_all, Hcs.
Qed.

(* 10 *)
Lemma concat_chunks_f : forall fuel s, (length s <= fuel)%nat -> concat (chunks_f fuel s) = s.
Proof.
  induction fuel as [|f IH]; intros s H.
  - destruct s; [reflexivity|cbn in H; lia].
  - destruct s as [|b r]; [reflexivity|].
    assert (Hne : b :: r <> []) by discriminate.
    rewrite chunks_f_S by assumption. cbn [concat].
    pose proof (skipn_decode_length (b :: r) _ _ Hne (surjective_pairing _)).
    rewrite IH by lia. apply firstn_skipn.
Qed.

Lemma concat_chunks : forall s, concat (chunks s) = s.
Proof. intros s. apply concat_chunks_f. lia. Qed.

Lemma length_chunks_runes_f : forall fuel s, length (chunks_f fuel s) = length (runes_f fuel s).
Proof.
  induction fuel as [|f IH]; intros s; [reflexivity|].
  destruct s as [|b r]; [reflexivity|].
  rewrite chunks_f_S, runes_f_S by discriminate. cbn [length]. now rewrite IH.
Qed.

Lemma length_chunks s : Z.of_nat (length (chunks s)) = rune_count s.
Proof. unfold chunks, rune_count, runes. now rewrite length_chunks_runes_f. Qed.

(* ------------------------------------------------------------------ *)
(* backward decoding *)

(* the local [scan] of decode_last_rune as a named function *)
Definition scan_m (s : bytes) (lim : Z) : nat -> Z -> Z :=
  fix scan (k : nat) (start : Z) : Z :=
    match k with
    | O => start
    | S k' => if start <? lim then start
              else if rune_start (nth (Z.to_nat start) s 0) then start
              else scan k' (start - 1)
    end.

Lemma decode_last_rune_eq s : decode_last_rune s =
  let n := blen s in
  if n =? 0 then (RuneError, 0) else
  let last := nth (Z.to_nat (n - 1)) s 0 in
  if last <? 128 then (last, 1) else
  let lim := Z.max 0 (n - 4) in
  let start0 := scan_m s lim 4%nat (n - 2) in
  let start := if start0 <? 0 then 0 else start0 in
  let '(r, sz) := decode_rune (skipn (Z.to_nat start) s) in
  if start + sz =? n then (r, sz) else (RuneError, 1).
Proof. reflexivity. Qed.

Lemma scan_m_S s lim k start :
  scan_m s lim (S k) start =
  if start <? lim then start
  else if rune_start (nth (Z.to_nat start) s 0) then start
  else scan_m s lim k (start - 1).
Proof. reflexivity. Qed.

Lemma scan_m_find s lim L :
  lim <= L -> 0 <= L -> rune_start (nth (Z.to_nat L) s 0) = true ->
  forall k start, L <= start -> start - L < Z.of_nat k ->
  (forall j, L < j <= start -> rune_start (nth (Z.to_nat j) s 0) = false) ->
  scan_m s lim k start = L.
Proof.
  intros Hl HL Hs. induction k as [|k IH]; intros start H1 H2 H3; [lia|].
  rewrite scan_m_S. destruct (Z.ltb_spec start lim); [lia|].
  destruct (Z.eq_dec start L) as [->|Hne]; [now rewrite Hs|].
  rewrite H3 by lia. apply IH; try lia. intros; apply H3; lia.
Qed.

Lemma nth_app_Z (p e : bytes) i z :
  z = Z.of_nat (length p) + Z.of_nat i -> nth (Z.to_nat z) (p ++ e) 0 = nth i e 0.
Proof.
  intros ->. replace (Z.to_nat _) with (length p + i)%nat by lia. apply app_nth2_plus.
Qed.

Lemma skipn_app_Z (p e : bytes) z : z = Z.of_nat (length p) -> skipn (Z.to_nat z) (p ++ e) = e.
Proof. intros ->. rewrite Nat2Z.id. apply skipn_len_app. Qed.

Lemma decode_last_gen p e c :
  (2 <= length e <= 4)%nat ->
  decode_rune e = (c, Z.of_nat (length e)) ->
  rune_start (nth 0 e 0) = true ->
  (forall i, (1 <= i < length e)%nat -> rune_start (nth i e 0) = false) ->
  decode_last_rune (p ++ e) = (c, Z.of_nat (length e)).
Proof.
  intros Hlen D Hst Hco. rewrite decode_last_rune_eq. cbv zeta.
  set (L := Z.of_nat (length p)).
  assert (Hn : blen (p ++ e) = L + Z.of_nat (length e)) by (unfold blen; rewrite app_length; lia).
  rewrite Hn. set (k := length e) in *.
  destruct (Z.eqb_spec (L + Z.of_nat k) 0); [lia|].
  rewrite (nth_app_Z p e (k - 1)) by lia.
  pose proof (Hco (k - 1)%nat ltac:(lia)) as Hlast.
  unfold rune_start, is_cont in Hlast. b2p.
  destruct (Z.ltb_spec (nth (k - 1) e 0) 128); [lia|].
  rewrite (scan_m_find (p ++ e) _ L); try lia.
  - destruct (Z.ltb_spec L 0); [lia|].
    rewrite skipn_app_Z by reflexivity. rewrite D.
    now rewrite Z.eqb_refl.
  - rewrite (nth_app_Z p e 0) by lia. exact Hst.
  - intros j Hj. rewrite (nth_app_Z p e (Z.to_nat (j - L))) by lia. apply Hco. lia.
Qed.

Lemma decode_last_shape p c e : enc_shape c e ->
  decode_last_rune (p ++ e) = (c, Z.of_nat (length e)).
Proof.
  intros Sh. pose proof (decode_shape c e [] Sh) as D. rewrite app_nil_r in D.
  destruct Sh.
  - (* one byte *)
    rewrite decode_last_rune_eq. cbv zeta.
    assert (Hn : blen (p ++ [c]) = Z.of_nat (length p) + 1)
      by (unfold blen; rewrite app_length; cbn [length]; lia).
    rewrite Hn. destruct (Z.eqb_spec (Z.of_nat (length p) + 1) 0); [lia|].
    rewrite (nth_app_Z p [c] 0) by lia. cbn [nth].
    destruct (Z.ltb_spec c 128); [reflexivity|lia].
  - apply decode_last_gen; [cbn [length]; lia|exact D| |].
    + cbn [nth]. unfold rune_start, is_cont. ztests; reflexivity.
    + intros i Hi. cbn [length] in Hi. destruct i as [|[|i]]; try lia.
      cbn [nth]. unfold rune_start, is_cont. ztests; reflexivity.
  - apply decode_last_gen; [cbn [length]; lia|exact D| |].
    + cbn [nth]. unfold rune_start, is_cont. ztests; reflexivity.
    + intros i Hi. cbn [length] in Hi. destruct i as [|[|[|i]]]; try lia;
      cbn [nth]; unfold rune_start, is_cont; ztests; reflexivity.
  - apply decode_last_gen; [cbn [length]; lia|exact D| |].
    + cbn [nth]. unfold rune_start, is_cont. ztests; reflexivity.
    + intros i Hi. cbn [length] in Hi. destruct i as [|[|[|[|i]]]]; try lia;
      cbn [nth]; unfold rune_start, is_cont; ztests; reflexivity.
Qed.

(* the prefix may be any byte string *)
Lemma decode_last_enc_app : forall p c, scalar_ok c = true ->
  decode_last_rune (p ++ encode_rune c) = (c, Z.of_nat (length (encode_rune c))).
Proof. intros p c H. apply decode_last_shape, encode_rune_shape, H. Qed.

(* 8 *)
Lemma decode_last_encode : forall cs c, scalars cs -> scalar_ok c = true ->
  decode_last_rune (encode_all cs ++ encode_rune c) = (c, Z.of_nat (length (encode_rune c))).
Proof. intros cs c _ H. apply decode_last_enc_app, H. Qed.

Lemma runes_rev_f_S f s : s <> [] ->
  runes_rev_f (S f) s =
  fst (decode_last_rune s)
  :: runes_rev_f f (firstn (length s - Z.to_nat (snd (decode_last_rune s))) s).
Proof.
  destruct s; [congruence|]. intros _. cbn [runes_rev_f].
  destruct (decode_last_rune (z :: s)); reflexivity.
Qed.

Lemma runes_rev_f_nil f : runes_rev_f f [] = [].
Proof. destruct f; reflexivity. Qed.

Lemma runes_rev_f_encode_all : forall cs fuel, scalars cs ->
  (length (encode_all cs) <= fuel)%nat -> runes_rev_f fuel (encode_all cs) = rev cs.
Proof.
  induction cs as [|x cs IH] using rev_ind; intros fuel H Hf.
  - cbn. apply runes_rev_f_nil.
  - apply scalars_app in H as [Hcs Hx]. apply scalars_cons in Hx as [Hx _].
    rewrite encode_all_app in *. cbn [encode_all flat_map] in *. rewrite app_nil_r in *.
    fold (encode_all cs) in *.
    pose proof (encode_rune_length x Hx) as Hl.
    rewrite app_length in Hf.
    destruct fuel as [|f]; [lia|].
    rewrite runes_rev_f_S
      by (intros E; apply app_eq_nil in E as [_ E]; rewrite E in Hl; cbn in Hl; lia).
    rewrite decode_last_enc_app by assumption. cbn [fst snd].
    rewrite Nat2Z.id, app_length.
    replace (length (encode_all cs) + length (encode_rune x) - length (encode_rune x))%nat
      with (length (encode_all cs)) by lia.
    rewrite firstn_len_app, rev_app_distr. cbn [rev app]. f_equal.
    apply IH; [assumption|lia].
Qed.

(* 9 *)
Lemma runes_rev_encode_all : forall cs, scalars cs -> runes_rev (encode_all cs) = rev cs.
Proof. intros cs H. unfold runes_rev. apply runes_rev_f_encode_all; [assumption|lia]. Qed.

(* ------------------------------------------------------------------ *)
(* byte order is code point order *)

Fixpoint zlist_cmp (a b : list Z) : comparison :=
  match a, b with
  | [], [] => Eq
  | [], _ :: _ => Lt
  | _ :: _, [] => Gt
  | x :: a', y :: b' => match x ?= y with Eq => zlist_cmp a' b' | c => c end
  end.

Lemma bcmp_app_prefix p a b : bcmp (p ++ a) (p ++ b) = bcmp a b.
Proof. induction p; cbn [app bcmp]; [reflexivity|]. now rewrite Z.compare_refl. Qed.

Lemma bcmp_antisym : forall a b, bcmp b a = CompOpp (bcmp a b).
Proof.
  induction a as [|x a IH]; destruct b as [|y b]; cbn [bcmp]; try reflexivity.
  rewrite (Z.compare_antisym x y). destruct (x ?= y); cbn [CompOpp]; auto.
Qed.

Lemma bcmp_cons_lt x y a b : x < y -> bcmp (x :: a) (y :: b) = Lt.
Proof. intros H. cbn [bcmp]. apply Z.compare_lt_iff in H. now rewrite H. Qed.

Lemma bcmp_cons_eq x a b : bcmp (x :: a) (x :: b) = bcmp a b.
Proof. cbn [bcmp]. now rewrite Z.compare_refl. Qed.

(* lexicographic comparison of two byte strings with a decided head *)
Ltac lexlt :=
  repeat match goal with
  | |- bcmp (?x :: _) (?y :: _) = Lt =>
      destruct (Z.lt_trichotomy x y) as [?|[?|?]];
      [apply bcmp_cons_lt; assumption | subst; rewrite bcmp_cons_eq | exfalso; lia]
  end; try (exfalso; lia).

Lemma bcmp_shape_lt c d e1 e2 x y :
  enc_shape c e1 -> enc_shape d e2 -> c < d -> bcmp (e1 ++ x) (e2 ++ y) = Lt.
Proof.
  intros S1 S2 Hlt.
  destruct S1; destruct S2; cbn [app]; try (exfalso; lia);
    try (apply bcmp_cons_lt; lia).
  - lexlt.
  - lexlt.
  - lexlt.
Qed.

Lemma bcmp_enc_lt c d x y : scalar_ok c = true -> scalar_ok d = true -> c < d ->
  bcmp (encode_rune c ++ x) (encode_rune d ++ y) = Lt.
Proof. intros Hc Hd. apply bcmp_shape_lt; apply encode_rune_shape; assumption. Qed.

(* 11 *)
Lemma bcmp_encode_all : forall a b, scalars a -> scalars b ->
  bcmp (encode_all a) (encode_all b) = zlist_cmp a b.
Proof.
  induction a as [|x a IH]; destruct b as [|y b]; intros Ha Hb.
  - reflexivity.
  - apply scalars_cons in Hb as [Hy _]. rewrite encode_all_cons.
    destruct (encode_rune_shape y Hy); reflexivity.
  - apply scalars_cons in Ha as [Hx _]. rewrite encode_all_cons.
    destruct (encode_rune_shape x Hx); reflexivity.
  - apply scalars_cons in Ha as [Hx Ha]. apply scalars_cons in Hb as [Hy Hb].
    rewrite !encode_all_cons. cbn [zlist_cmp].
    destruct (Z.compare_spec x y) as [->|Hlt|Hgt].
    + rewrite bcmp_app_prefix. apply IH; assumption.
    + apply bcmp_enc_lt; assumption.
    + rewrite bcmp_antisym, bcmp_enc_lt by assumption. reflexivity.
Qed.

Lemma zlist_cmp_eq : forall a b, zlist_cmp a b = Eq <-> a = b.
Proof.
  induction a as [|x a IH]; destruct b as [|y b]; cbn [zlist_cmp]; split;
    try congruence; try discriminate.
  - destruct (Z.compare_spec x y) as [E|E|E]; try discriminate.
    intros H'; apply IH in H'. congruence.
  - intros H'; inversion H'; subst. rewrite Z.compare_refl. now apply IH.
Qed.

(* encode_all is injective on scalar lists *)
Lemma encode_all_inj a b : scalars a -> scalars b -> encode_all a = encode_all b -> a = b.
Proof.
  intros Ha Hb E. rewrite <- (runes_encode_all a Ha), <- (runes_encode_all b Hb). now rewrite E.
Qed.
