(* ====================================================================== *)
(*  Effects.v  --  memory effects of library calls (properties C06, C07)   *)
(*                                                                         *)
(*  An abstract heap machine, self-contained from the JMESPath model.      *)
(*  The translator-checked lemma [tie_writes] (Model/Tie.v) establishes    *)
(*  that every write site of the Go sources targets an object ALLOCATED    *)
(*  DURING THE SAME CALL (or a field of a per-call struct, which is also   *)
(*  allocated by the call), that no package-level variable is assigned,    *)
(*  and that there are no [go] statements / sync / atomic / unsafe.        *)
(*  This file is the reusable theory that turns                            *)
(*      "every write of a call targets a location the call allocated"      *)
(*  into                                                                    *)
(*    - the FRAME property (C06): nothing that existed before the call is  *)
(*      modified, so earlier results stay valid (Part 1), and               *)
(*    - NON-INTERFERENCE and DATA-RACE FREEDOM for arbitrary interleavings *)
(*      (C07), first for traces (Part 2), then for deterministic programs  *)
(*      run under an arbitrary scheduler (Part 3).                          *)
(*  Part 4 is a non-vacuity example.                                        *)
(* ====================================================================== *)

From Coq Require Import List Arith PeanoNat Bool Lia.
Import ListNotations.

(* ====================================================================== *)
(** * Part 0.  The abstract machine                                        *)
(* ====================================================================== *)

Definition loc := nat.
Definition val := nat.
Definition tid := nat.

Inductive act :=
| ARead  (l : loc) (v : val)     (* the thread read value v at l *)
| AWrite (l : loc) (v : val)     (* the thread stored v at l *)
| AAlloc (l : loc) (v : val).    (* l becomes allocated with initial content v *)

Definition heap := loc -> option val.          (* None = not allocated *)

Definition upd (h : heap) (l : loc) (v : val) : heap :=
  fun l' => if Nat.eqb l' l then Some v else h l'.

(* one step of the machine on a heap *)
Inductive step : heap -> act -> heap -> Prop :=
| s_read  h l v   : h l = Some v -> step h (ARead l v) h
| s_write h l v w : h l = Some w -> step h (AWrite l v) (upd h l v)
| s_alloc h l v   : h l = None   -> step h (AAlloc l v) (upd h l v).

(* reflexive transitive closure along a trace *)
Inductive run : heap -> list act -> heap -> Prop :=
| run_nil  h : run h [] h
| run_cons h a h1 t h2 : step h a h1 -> run h1 t h2 -> run h (a :: t) h2.

(* locations allocated in a trace *)
Fixpoint owned (t : list act) : list loc :=
  match t with
  | [] => []
  | AAlloc l _ :: t' => l :: owned t'
  | _ :: t' => owned t'
  end.

(* THE DISCIPLINE: every write goes to a location allocated earlier in the
   same trace. *)
Definition self_contained (t : list act) : Prop :=
  forall pre l v post, t = pre ++ AWrite l v :: post -> In l (owned pre).

(* ---------------------------------------------------------------------- *)
(** ** Basic facts                                                          *)
(* ---------------------------------------------------------------------- *)

Lemma upd_eq h l v : upd h l v l = Some v.
Proof. unfold upd. now rewrite Nat.eqb_refl. Qed.

Lemma upd_neq h l v l' : l' <> l -> upd h l v l' = h l'.
Proof. unfold upd. intros H. apply Nat.eqb_neq in H. now rewrite H. Qed.

Lemma owned_app t1 t2 : owned (t1 ++ t2) = owned t1 ++ owned t2.
Proof.
  induction t1 as [|a t1 IH]; simpl; auto.
  destruct a; simpl; now rewrite IH.
Qed.

Lemma run_one h a h' : step h a h' -> run h [a] h'.
Proof. intros; econstructor; eauto; constructor. Qed.

Lemma run_one_inv h a h' : run h [a] h' -> step h a h'.
Proof.
  intros H. inversion H as [|? ? ? ? ? Hs Hr]; subst.
  inversion Hr; subst. exact Hs.
Qed.

Lemma run_app h t1 hm t2 h' :
  run h t1 hm -> run hm t2 h' -> run h (t1 ++ t2) h'.
Proof.
  induction 1; simpl; auto. intros. econstructor; eauto.
Qed.

Lemma run_app_inv t1 : forall t2 h h',
  run h (t1 ++ t2) h' -> exists hm, run h t1 hm /\ run hm t2 h'.
Proof.
  induction t1 as [|a t1 IH]; simpl; intros t2 h h' H.
  - exists h; split; [constructor|auto].
  - inversion H as [|? ? h1 ? ? Hs Hr]; subst.
    destruct (IH _ _ _ Hr) as (hm & R1 & R2).
    exists hm; split; auto. econstructor; eauto.
Qed.

(* allocation is monotone: an allocated location stays allocated *)
Lemma step_alloc_mono h a h' l : step h a h' -> h l <> None -> h' l <> None.
Proof.
  intros Hs Hl. inversion Hs; subst; auto;
    unfold upd; destruct (Nat.eqb l l0); auto; discriminate.
Qed.

Lemma run_alloc_mono h t h' l : run h t h' -> h l <> None -> h' l <> None.
Proof.
  induction 1; auto. intros. apply IHrun. eapply step_alloc_mono; eauto.
Qed.

(* a location allocated by the trace was not allocated before ... *)
Lemma run_owned_fresh h t h' :
  run h t h' -> forall l, In l (owned t) -> h l = None.
Proof.
  induction 1 as [|h a h1 t h2 Hs Hr IH]; simpl; intros l Hin; [contradiction|].
  assert (Tail : In l (owned t) -> h l = None).
  { intros Hin'. destruct (h l) eqn:E; auto. exfalso.
    apply (step_alloc_mono _ _ _ l Hs); [congruence | auto]. }
  destruct a; auto.
  destruct Hin as [<-|Hin]; auto. inversion Hs; subst; auto.
Qed.

(* ... and is allocated afterwards *)
Lemma run_owned_allocated h t h' :
  run h t h' -> forall l, In l (owned t) -> h' l <> None.
Proof.
  induction 1 as [|h a h1 t h2 Hs Hr IH]; simpl; intros l Hin; [contradiction|].
  destruct a; auto.
  destruct Hin as [<-|Hin]; auto.
  eapply run_alloc_mono; eauto. inversion Hs; subst. rewrite upd_eq; discriminate.
Qed.

(* ====================================================================== *)
(** * Part 1.  The frame property (C06)                                    *)
(* ====================================================================== *)

(* If no write of the trace targets l, and l exists, l is unchanged. *)
Lemma frame_gen h t h' :
  run h t h' -> forall l,
  (forall pre l' v post, t = pre ++ AWrite l' v :: post -> l' <> l) ->
  h l <> None -> h' l = h l.
Proof.
  induction 1 as [|h a h1 t h2 Hs Hr IH]; intros l Hw Hl; auto.
  assert (E1 : h1 l = h l).
  { inversion Hs; subst; auto.
    - apply upd_neq. intros ->. eapply (Hw [] l0 v t); reflexivity.
    - apply upd_neq. intros ->. auto. }
  rewrite <- E1. apply IH.
  - intros pre l' v post ->. apply (Hw (a :: pre) l' v post). reflexivity.
  - now rewrite E1.
Qed.

(** FRAME: every location that existed before the call -- the caller's
    document including the spare capacity of its slices, the AST of the
    compiled expression, earlier results -- has the same content afterwards. *)
Theorem frame : forall h t h',
  run h t h' -> self_contained t -> forall l, h l <> None -> h' l = h l.
Proof.
  intros h t h' Hr Hsc l Hl. apply (frame_gen _ _ _ Hr); auto.
  intros pre l' v post E ->.
  pose proof (Hsc _ _ _ _ E) as Hin. subst t.
  destruct (run_app_inv _ _ _ _ Hr) as (hm & R1 & _).
  apply Hl. eapply run_owned_fresh; eauto.
Qed.

(* Nothing is ever de-allocated either, so the set of the caller's valid
   locations is preserved as well. *)
Corollary frame_allocated : forall h t h',
  run h t h' -> forall l, h l <> None -> h' l <> None.
Proof. intros; eapply run_alloc_mono; eauto. Qed.

(* ---------------------------------------------------------------------- *)
(** ** Histories of calls: earlier results stay valid                       *)
(* ---------------------------------------------------------------------- *)

Lemma frame_concat ts : forall h h',
  Forall self_contained ts -> run h (concat ts) h' ->
  forall l, h l <> None -> h' l = h l.
Proof.
  induction ts as [|t ts IH]; simpl; intros h h' HF Hr l Hl.
  - inversion Hr; auto.
  - inversion HF as [|? ? Ht Hts]; subst.
    destruct (run_app_inv _ _ _ _ Hr) as (hm & R1 & R2).
    rewrite <- (frame _ _ _ R1 Ht l Hl).
    apply IH; auto. rewrite (frame _ _ _ R1 Ht l Hl). auto.
Qed.

(** A history [ts1 ++ ts2] of calls executed one after the other from [h].
    Let [hm] be the heap after the calls of [ts1] (i.e. just before the
    k-th call, k = length ts1).  Everything allocated at that point -- what
    was in [h], and everything allocated by the EARLIER calls [ts1], in
    particular their results -- is left untouched by the k-th call and all
    LATER calls. *)
Theorem history_frame : forall ts1 ts2 h h',
  Forall self_contained (ts1 ++ ts2) ->
  run h (concat (ts1 ++ ts2)) h' ->
  exists hm,
    run h (concat ts1) hm /\ run hm (concat ts2) h' /\
    (* what exists before the k-th call: *)
    (forall l, h l <> None \/ In l (owned (concat ts1)) -> hm l <> None) /\
    (* is preserved by calls k, k+1, ... *)
    (forall l, hm l <> None -> h' l = hm l).
Proof.
  intros ts1 ts2 h h' HF Hr. rewrite concat_app in Hr.
  destruct (run_app_inv _ _ _ _ Hr) as (hm & R1 & R2).
  apply Forall_app in HF. destruct HF as [HF1 HF2].
  exists hm. repeat split; auto.
  - intros l [Hl|Hl].
    + eapply run_alloc_mono; eauto.
    + eapply run_owned_allocated; eauto.
  - intros l Hl. eapply frame_concat; eauto.
Qed.

(* Specialisation: the caller's initial data survive the whole history. *)
Corollary history_initial : forall ts h h',
  Forall self_contained ts -> run h (concat ts) h' ->
  forall l, h l <> None -> h' l = h l.
Proof. intros; eapply frame_concat; eauto. Qed.

(* Concatenation of self-contained calls is self-contained (a sequence of
   calls is itself a "call"). *)
Lemma self_contained_app t1 t2 :
  self_contained t1 -> self_contained t2 -> self_contained (t1 ++ t2).
Proof.
  intros H1 H2 pre l v post E.
  apply app_eq_app in E. destruct E as (m & [[E1 E2]|[E1 E2]]).
  - destruct m as [|b m]; simpl in E2.
    + exfalso. apply (H2 [] l v post). auto.
    + inversion E2; subst. apply (H1 pre l v m). reflexivity.
  - subst pre. rewrite owned_app. apply in_or_app. right.
    apply (H2 m l v post E2).
Qed.

(* ====================================================================== *)
(** * Part 2.  Concurrent executions at trace level (C07)                  *)
(* ====================================================================== *)

(** A concurrent execution is a list of events (thread, action), executed
    in this (arbitrary, scheduler-chosen) order on ONE global heap. *)

Definition event := (tid * act)%type.

Definition acts (tr : list event) : list act := map snd tr.

Definition runT (h : heap) (tr : list event) (h' : heap) : Prop :=
  run h (acts tr) h'.

Definition by_tid (i : tid) (e : event) : bool := Nat.eqb (fst e) i.

(* the actions of thread i, in order *)
Definition proj (i : tid) (tr : list event) : list act :=
  map snd (filter (by_tid i) tr).

(** The discipline, per thread.  [pre] is the part of the execution that
    happened before the event.
    - a thread writes only to locations IT allocated earlier;
    - a thread reads only locations of the initial heap [h0] (the shared
      read-only document and compiled expression) or locations it
      allocated itself.
    The second clause is memory safety: in Go a pointer cannot be forged,
    and since nobody writes a shared location and there are no channels,
    a pointer to a cell allocated by one goroutine can never reach another
    goroutine.  Without it the statement below would be false (thread j
    allocates l, thread i reads l). *)
Definition ok_event (h0 : heap) (pre : list event) (i : tid) (a : act) : Prop :=
  match a with
  | ARead l _  => h0 l <> None \/ In l (owned (proj i pre))
  | AWrite l _ => In l (owned (proj i pre))
  | AAlloc _ _ => True
  end.

Definition disciplined (h0 : heap) (tr : list event) : Prop :=
  forall pre i a post, tr = pre ++ (i, a) :: post -> ok_event h0 pre i a.

(* ---------------------------------------------------------------------- *)
(** ** Projections                                                          *)
(* ---------------------------------------------------------------------- *)

Lemma acts_app t1 t2 : acts (t1 ++ t2) = acts t1 ++ acts t2.
Proof. apply map_app. Qed.

Lemma proj_app i t1 t2 : proj i (t1 ++ t2) = proj i t1 ++ proj i t2.
Proof. unfold proj. now rewrite filter_app, map_app. Qed.

Lemma proj_cons_same i a tr : proj i ((i, a) :: tr) = a :: proj i tr.
Proof. unfold proj, by_tid; simpl. now rewrite Nat.eqb_refl. Qed.

Lemma proj_cons_other i k a tr : k <> i -> proj i ((k, a) :: tr) = proj i tr.
Proof.
  intros H. unfold proj, by_tid; simpl. apply Nat.eqb_neq in H. now rewrite H.
Qed.

Lemma proj_snoc_same i a tr : proj i (tr ++ [(i, a)]) = proj i tr ++ [a].
Proof. now rewrite proj_app, proj_cons_same. Qed.

Lemma proj_snoc_other i k a tr : k <> i -> proj i (tr ++ [(k, a)]) = proj i tr.
Proof.
  intros H. rewrite proj_app, proj_cons_other by auto.
  unfold proj; simpl. apply app_nil_r.
Qed.

(* what thread i owns after one more event *)
Lemma owned_proj_snoc i tr k a l :
  In l (owned (proj i (tr ++ [(k, a)]))) <->
  In l (owned (proj i tr)) \/ (i = k /\ exists v, a = AAlloc l v).
Proof.
  destruct (Nat.eq_dec k i) as [->|Hne].
  - rewrite proj_snoc_same, owned_app, in_app_iff. split.
    + intros [H|H]; auto. right. split; auto.
      destruct a; simpl in H; try contradiction.
      destruct H as [<-|[]]. eauto.
    + intros [H|[_ [v ->]]]; auto. right; simpl; auto.
  - rewrite proj_snoc_other by auto. split; auto.
    intros [H|[E _]]; auto. congruence.
Qed.

Lemma owned_proj_mono i pre post l :
  In l (owned (proj i pre)) -> In l (owned (proj i (pre ++ post))).
Proof. intros. rewrite proj_app, owned_app. apply in_or_app; auto. Qed.

(* ---------------------------------------------------------------------- *)
(** ** The discipline is prefix closed and can be checked event by event    *)
(* ---------------------------------------------------------------------- *)

Lemma disciplined_nil h0 : disciplined h0 [].
Proof. intros pre i a post E. destruct pre; discriminate. Qed.

Lemma disciplined_prefix h0 tr x : disciplined h0 (tr ++ x) -> disciplined h0 tr.
Proof.
  intros D pre i a post E. apply (D pre i a (post ++ x)).
  subst tr. now rewrite <- app_assoc.
Qed.

Lemma disciplined_last h0 tr k a : disciplined h0 (tr ++ [(k, a)]) -> ok_event h0 tr k a.
Proof. intros D. apply (D tr k a []). reflexivity. Qed.

Lemma disciplined_snoc h0 tr k a :
  disciplined h0 tr -> ok_event h0 tr k a -> disciplined h0 (tr ++ [(k, a)]).
Proof.
  intros D Ok pre i b post E.
  destruct post as [|x post _] using rev_ind.
  - apply app_inj_tail in E. destruct E as [-> E]. inversion E; subst. exact Ok.
  - rewrite app_comm_cons, app_assoc in E.
    apply app_inj_tail in E. destruct E as [E _].
    apply (D pre i b post E).
Qed.

(* ---------------------------------------------------------------------- *)
(** ** The invariant of disciplined executions                              *)
(* ---------------------------------------------------------------------- *)

(** [Inv h0 tr h]: state of the world after the events [tr] were executed
    from the initial heap [h0], reaching the global heap [h]. *)
Record Inv (h0 : heap) (tr : list event) (h : heap) : Prop := {
  (* FRAME: initial locations keep their initial content *)
  inv_frame : forall l, h0 l <> None -> h l = h0 l;
  (* what a thread owns is fresh w.r.t. h0 and allocated now *)
  inv_own   : forall i l, In l (owned (proj i tr)) -> h0 l = None /\ h l <> None;
  (* OWNERSHIP IS EXCLUSIVE *)
  inv_disj  : forall i j l, In l (owned (proj i tr)) -> In l (owned (proj j tr)) -> i = j;
  (* SIMULATION: the actions of thread i, taken alone, are a valid
     sequential run from the INITIAL heap; the heap [hi] it reaches is the
     global heap on i's locations and the initial heap elsewhere *)
  inv_sim   : forall i, exists hi,
      run h0 (proj i tr) hi /\
      (forall l, In l (owned (proj i tr)) -> hi l = h l) /\
      (forall l, ~ In l (owned (proj i tr)) -> hi l = h0 l)
}.

Lemma inv_init h0 : Inv h0 [] h0.
Proof.
  constructor; simpl; try contradiction; auto.
  intros i. exists h0. repeat split; auto. constructor.
Qed.

Lemma inv_step h0 tr h k a h' :
  Inv h0 tr h -> step h a h' -> ok_event h0 tr k a ->
  Inv h0 (tr ++ [(k, a)]) h'.
Proof.
  intros [F O D S] Hs Hok.
  (* facts about the location touched by the step *)
  assert (Hmono : forall l, h l <> None -> h' l <> None)
    by (intros; eapply step_alloc_mono; eauto).
  constructor.
  - (* frame *)
    intros l0 Hl0. rewrite <- (F l0 Hl0).
    inversion Hs; subst; auto.
    + apply upd_neq. intros ->. simpl in Hok.
      destruct (O _ _ Hok) as [E _]. auto.
    + apply upd_neq. intros ->. rewrite (F l Hl0) in H. auto.
  - (* own *)
    intros i l0 Hin. apply owned_proj_snoc in Hin.
    destruct Hin as [Hin|[-> [v ->]]].
    + destruct (O _ _ Hin). split; auto.
    + inversion Hs; subst. split.
      * destruct (h0 l0) eqn:E; auto. rewrite <- (F l0) in E by congruence. congruence.
      * rewrite upd_eq; discriminate.
  - (* exclusive ownership *)
    intros i j l0 Hi Hj.
    apply owned_proj_snoc in Hi. apply owned_proj_snoc in Hj.
    destruct Hi as [Hi|[-> [v ->]]]; destruct Hj as [Hj|[-> [v' E]]]; eauto.
    + inversion E; subst. inversion Hs; subst.
      destruct (O _ _ Hi) as [_ C]. contradiction.
    + inversion Hs; subst. destruct (O _ _ Hj) as [_ C]. contradiction.
  - (* simulation *)
    intros i. destruct (S i) as (hi & Ri & Ai & Bi).
    destruct (Nat.eq_dec i k) as [->|Hne].
    + (* the moving thread *)
      rewrite proj_snoc_same.
      inversion Hs; subst.
      * (* read: sees the same value as alone *)
        exists hi. split; [|split].
        -- eapply run_app; eauto. apply run_one. constructor.
           simpl in Hok.
           destruct (in_dec Nat.eq_dec l (owned (proj k tr))) as [Hin|Hnin].
           ++ rewrite Ai; auto.
           ++ rewrite Bi by auto. destruct Hok as [Hl|Hl]; [|contradiction].
              rewrite <- (F l Hl). auto.
        -- intros l0 Hin. rewrite owned_app in Hin. simpl in Hin.
           rewrite app_nil_r in Hin. auto.
        -- intros l0 Hin. rewrite owned_app in Hin. simpl in Hin.
           rewrite app_nil_r in Hin. auto.
      * (* write to an own location *)
        simpl in Hok.
        exists (upd hi l v). split; [|split].
        -- eapply run_app; eauto. apply run_one. apply s_write with w.
           rewrite Ai; auto.
        -- intros l0 Hin. rewrite owned_app in Hin. simpl in Hin.
           rewrite app_nil_r in Hin.
           unfold upd. destruct (Nat.eqb l0 l); auto.
        -- intros l0 Hin. rewrite owned_app in Hin. simpl in Hin.
           rewrite app_nil_r in Hin.
           rewrite upd_neq; auto. intros ->. contradiction.
      * (* allocation of a globally fresh location *)
        assert (H0l : h0 l = None).
        { destruct (h0 l) eqn:E; auto. rewrite <- (F l) in E by congruence. congruence. }
        assert (Hil : hi l = None).
        { destruct (in_dec Nat.eq_dec l (owned (proj k tr))) as [Hin|Hnin].
          - rewrite Ai; auto.
          - rewrite Bi; auto. }
        exists (upd hi l v). split; [|split].
        -- eapply run_app; eauto. apply run_one. constructor. auto.
        -- intros l0 Hin. rewrite owned_app in Hin. apply in_app_or in Hin.
           simpl in Hin. unfold upd.
           destruct (Nat.eqb l0 l) eqn:E; auto.
           apply Nat.eqb_neq in E.
           destruct Hin as [Hin|[Hin|[]]]; auto. congruence.
        -- intros l0 Hin. rewrite owned_app in Hin. simpl in Hin.
           assert (l0 <> l) by (intros ->; apply Hin; apply in_or_app; simpl; auto).
           rewrite upd_neq by auto. apply Bi. intros C. apply Hin. apply in_or_app; auto.
    + (* a thread that does not move: its view is unchanged *)
      rewrite proj_snoc_other by auto.
      exists hi. split; [|split]; auto.
      intros l0 Hin. rewrite (Ai l0 Hin).
      inversion Hs; subst; auto.
      * symmetry. apply upd_neq. intros ->. simpl in Hok.
        apply Hne. eapply D; eauto.
      * symmetry. apply upd_neq. intros ->.
        destruct (O _ _ Hin) as [_ C]. contradiction.
Qed.

Theorem trace_invariant : forall h0 tr h',
  runT h0 tr h' -> disciplined h0 tr -> Inv h0 tr h'.
Proof.
  unfold runT. intros h0 tr.
  induction tr as [|[k a] tr IH] using rev_ind; intros h' Hr Hd.
  - inversion Hr; subst. apply inv_init.
  - rewrite acts_app in Hr. simpl in Hr.
    destruct (run_app_inv _ _ _ _ Hr) as (hm & R1 & R2).
    apply run_one_inv in R2.
    apply inv_step with hm; auto.
    + apply IH; auto. eapply disciplined_prefix; eauto.
    + apply disciplined_last; auto.
Qed.

(* ---------------------------------------------------------------------- *)
(** ** Main results at trace level                                          *)
(* ---------------------------------------------------------------------- *)

(** (3'a) The shared initial data are never modified, by anyone, under any
    interleaving. *)
Theorem initial_untouched : forall h0 tr h',
  runT h0 tr h' -> disciplined h0 tr ->
  forall l, h0 l <> None -> h' l = h0 l.
Proof. intros h0 tr h' Hr Hd. apply (trace_invariant _ _ _ Hr Hd). Qed.

(** (3'b) NON-INTERFERENCE: for every thread i, its actions extracted from
    the concurrent execution form a valid SEQUENTIAL run from the initial
    heap: every value it read is the value it would have read had it run
    alone.  The heap [hi] of that solo run agrees with the final global
    heap on the locations i owns and with the initial heap elsewhere. *)
Theorem noninterference_trace : forall h0 tr h',
  runT h0 tr h' -> disciplined h0 tr ->
  forall i, exists hi,
    run h0 (proj i tr) hi /\
    (forall l, In l (owned (proj i tr)) -> hi l = h' l) /\
    (forall l, ~ In l (owned (proj i tr)) -> hi l = h0 l).
Proof. intros h0 tr h' Hr Hd. apply (trace_invariant _ _ _ Hr Hd). Qed.

(** (4') DATA-RACE FREEDOM.  Two events conflict when they are issued by
    different threads, touch the same location, and at least one of them
    is a write (or an allocation).  As the machine has no synchronisation
    at all, any two conflicting events would be a data race. *)

Definition act_loc (a : act) : loc :=
  match a with ARead l _ | AWrite l _ | AAlloc l _ => l end.

Definition is_write (a : act) : bool :=
  match a with ARead _ _ => false | _ => true end.

Definition conflict (e1 e2 : event) : Prop :=
  fst e1 <> fst e2 /\
  act_loc (snd e1) = act_loc (snd e2) /\
  (is_write (snd e1) = true \/ is_write (snd e2) = true).

(* the footprint of an event of a disciplined execution *)
Lemma event_footprint h0 tr i a :
  disciplined h0 tr -> In (i, a) tr ->
  (is_write a = true -> In (act_loc a) (owned (proj i tr))) /\
  (h0 (act_loc a) <> None \/ In (act_loc a) (owned (proj i tr))).
Proof.
  intros Hd Hin. apply in_split in Hin. destruct Hin as (pre & post & ->).
  pose proof (Hd pre i a post eq_refl) as Hok.
  assert (M : forall l, In l (owned (proj i pre)) ->
                        In l (owned (proj i (pre ++ (i, a) :: post))))
    by (intros; apply owned_proj_mono; auto).
  destruct a; simpl in *.
  - split; [discriminate|]. destruct Hok; auto.
  - split; auto.
  - assert (In l (owned (proj i (pre ++ (i, AAlloc l v) :: post)))).
    { rewrite proj_app, proj_cons_same, owned_app. apply in_or_app. right. simpl; auto. }
    split; auto.
Qed.

Theorem race_free_trace : forall h0 tr h',
  runT h0 tr h' -> disciplined h0 tr ->
  forall e1 e2, In e1 tr -> In e2 tr -> ~ conflict e1 e2.
Proof.
  intros h0 tr h' Hr Hd.
  pose proof (trace_invariant _ _ _ Hr Hd) as [F O D S].
  assert (Half : forall i a j b, In (i, a) tr -> In (j, b) tr ->
            i <> j -> act_loc a = act_loc b -> is_write a = true -> False).
  { intros i a j b Ha Hb Hne Hl Hw.
    destruct (event_footprint _ _ _ _ Hd Ha) as [Wa _].
    destruct (event_footprint _ _ _ _ Hd Hb) as [_ Fb].
    specialize (Wa Hw). rewrite <- Hl in Fb.
    destruct Fb as [Fb|Fb].
    - destruct (O _ _ Wa) as [E _]. auto.
    - apply Hne. eapply D; eauto. }
  intros [i a] [j b] H1 H2 (Hne & Hl & [Hw|Hw]); simpl in *.
  - eapply Half; eauto.
  - eapply (Half j b i a); eauto.
Qed.

(* ====================================================================== *)
(** * Part 3.  Deterministic programs under an arbitrary scheduler (C07)   *)
(* ====================================================================== *)

(** A thread is a deterministic sequential program: its NEXT action is a
    function of what it has observed so far (the values it read and the
    locations the allocator handed to it, most recent first) and of the
    number of steps it has performed.  [None] = the call has returned; its
    result is its list of observations. *)

Inductive pact :=
| PRead  (l : loc)
| PWrite (l : loc) (v : val)
| PAlloc (v : val).               (* the location is chosen by the allocator *)

Definition program := list val -> nat -> option pact.

(* per-thread local state *)
Record lstate := mkst {
  obs   : list val;   (* observations so far, most recent first *)
  steps : nat;        (* number of own steps done *)
  mine  : list loc    (* locations this thread allocated *)
}.

Definition init_st : lstate := mkst [] 0 [].

(** One step of one thread on a heap.  The allocator may return ANY fresh
    location (this is the only non-determinism besides scheduling). *)
Inductive tstep (p : program) (h : heap) (st : lstate)
  : act -> heap -> lstate -> Prop :=
| t_read l v :
    p (obs st) (steps st) = Some (PRead l) -> h l = Some v ->
    tstep p h st (ARead l v) h (mkst (v :: obs st) (S (steps st)) (mine st))
| t_write l v w :
    p (obs st) (steps st) = Some (PWrite l v) -> h l = Some w ->
    tstep p h st (AWrite l v) (upd h l v) (mkst (obs st) (S (steps st)) (mine st))
| t_alloc l v :
    p (obs st) (steps st) = Some (PAlloc v) -> h l = None ->
    tstep p h st (AAlloc l v) (upd h l v)
          (mkst (l :: obs st) (S (steps st)) (l :: mine st)).

(** Interleaving semantics: a global heap, one local state per thread.
    (A finite set of threads is modelled by giving the idle program
    [fun _ _ => None] to all other thread identifiers.) *)
Definition config := (heap * (tid -> lstate))%type.

Definition updl (ls : tid -> lstate) (i : tid) (st : lstate) : tid -> lstate :=
  fun j => if Nat.eqb j i then st else ls j.

Definition sched := list tid.      (* which thread moves next *)

(** [exec P c s tr c']: from configuration c, letting the threads move in
    the order s, the system can reach c', emitting the events tr. *)
Inductive exec (P : tid -> program) : config -> sched -> list event -> config -> Prop :=
| exec_nil c : exec P c [] [] c
| exec_cons h ls i a h1 st1 s tr c2 :
    tstep (P i) h (ls i) a h1 st1 ->
    exec P (h1, updl ls i st1) s tr c2 ->
    exec P (h, ls) (i :: s) ((i, a) :: tr) c2.

(* the unlabelled relation *)
Definition exec_sched (P : tid -> program) (c : config) (s : sched) (c' : config) : Prop :=
  exists tr, exec P c s tr c'.

(* ---------------------------------------------------------------------- *)
(** ** A thread step = a machine step that follows the program             *)
(* ---------------------------------------------------------------------- *)

Definition pact_of (a : act) : pact :=
  match a with
  | ARead l _  => PRead l
  | AWrite l v => PWrite l v
  | AAlloc _ v => PAlloc v
  end.

Definition next_st (st : lstate) (a : act) : lstate :=
  match a with
  | ARead _ v  => mkst (v :: obs st) (S (steps st)) (mine st)
  | AWrite _ _ => mkst (obs st) (S (steps st)) (mine st)
  | AAlloc l _ => mkst (l :: obs st) (S (steps st)) (l :: mine st)
  end.

Lemma tstep_iff p h st a h' st' :
  tstep p h st a h' st' <->
  p (obs st) (steps st) = Some (pact_of a) /\ step h a h' /\ st' = next_st st a.
Proof.
  split.
  - intros H; inversion H; subst; simpl; repeat split; auto; econstructor; eauto.
  - intros (Hp & Hs & ->). inversion Hs; subst; simpl in *; econstructor; eauto.
Qed.

(** [follows p st t st']: the action sequence t is what program p does
    from local state st (heap independent part of a thread's run). *)
Inductive follows (p : program) : lstate -> list act -> lstate -> Prop :=
| fo_nil st : follows p st [] st
| fo_cons st a t st' :
    p (obs st) (steps st) = Some (pact_of a) ->
    follows p (next_st st a) t st' ->
    follows p st (a :: t) st'.

(** [solo p h t h' st']: program p, run ALONE from heap h, performs the
    actions t, reaching heap h' and local state st' (its observations
    [obs st'] are its result). Deterministic up to allocator choices. *)
Definition solo (p : program) (h : heap) (t : list act) (h' : heap) (st' : lstate) : Prop :=
  run h t h' /\ follows p init_st t st'.

Definition alone (p : program) (h : heap) (t : list act) (st' : lstate) : Prop :=
  exists h', solo p h t h' st'.

Definition finished (p : program) (st : lstate) : Prop :=
  p (obs st) (steps st) = None.

(* a solo run is exactly an execution of the one-thread system *)
Lemma solo_is_exec p h t h' st' :
  solo p h t h' st' <->
  exists ls', exec (fun _ => p) (h, fun _ => init_st) (map (fun _ => 0) t)
                   (map (fun a => (0, a)) t) (h', ls') /\ ls' 0 = st'.
Proof.
  unfold solo. generalize init_st as st. intros st.
  split.
  - intros [Hr Hf]. revert st Hf.
    assert (G : forall (ls : tid -> lstate), follows p (ls 0) t st' ->
              exists ls', exec (fun _ => p) (h, ls) (map (fun _ => 0) t)
                   (map (fun a => (0, a)) t) (h', ls') /\ ls' 0 = st').
    { induction Hr as [h|h a h1 t h2 Hs Hr IH]; intros ls Hf.
      - inversion Hf; subst. exists ls. split; auto. constructor.
      - inversion Hf as [|? ? ? ? Hp Hf']; subst.
        destruct (IH (updl ls 0 (next_st (ls 0) a))) as (ls' & He & E).
        { unfold updl; simpl. auto. }
        exists ls'. split; auto. simpl. econstructor; eauto.
        apply tstep_iff. auto. }
    intros st Hf. apply (G (fun _ => st)). auto.
  - intros (ls' & He & E).
    assert (G : forall c s tr c', exec (fun _ => p) c s tr c' ->
              forall t, tr = map (fun a => (0, a)) t ->
              run (fst c) t (fst c') /\ follows p (snd c 0) t (snd c' 0)).
    { clear. induction 1 as [c|h ls i a h1 st1 s tr c2 Ht He IH]; intros t E.
      - destruct t; [|discriminate]. split; constructor.
      - destruct t as [|b t]; [discriminate|]. simpl in E. inversion E; subst.
        apply tstep_iff in Ht. destruct Ht as (Hp & Hs & ->).
        destruct (IH t eq_refl) as [R Fo]. simpl in *.
        split; [econstructor; eauto|].
        econstructor; eauto. }
    destruct (G _ _ _ _ He t eq_refl) as [R Fo]. simpl in *. subst. auto.
Qed.

(* ---------------------------------------------------------------------- *)
(** ** Properties of [follows]                                              *)
(* ---------------------------------------------------------------------- *)

Lemma follows_app p st t1 sm t2 st' :
  follows p st t1 sm -> follows p sm t2 st' -> follows p st (t1 ++ t2) st'.
Proof. induction 1; simpl; auto. intros. econstructor; eauto. Qed.

Lemma follows_app_inv p t1 : forall st t2 st',
  follows p st (t1 ++ t2) st' ->
  exists sm, follows p st t1 sm /\ follows p sm t2 st'.
Proof.
  induction t1 as [|a t1 IH]; simpl; intros st t2 st' H.
  - exists st. split; [constructor|auto].
  - inversion H as [|? ? ? ? Hp Hf]; subst.
    destruct (IH _ _ _ Hf) as (sm & F1 & F2).
    exists sm. split; auto. econstructor; eauto.
Qed.

Lemma follows_fun p st t s1 : follows p st t s1 -> forall s2, follows p st t s2 -> s1 = s2.
Proof.
  induction 1; intros s2 H2; inversion H2; subst; auto.
Qed.

Lemma follows_mine p st t st' :
  follows p st t st' ->
  forall l, In l (mine st') <-> In l (mine st) \/ In l (owned t).
Proof.
  induction 1 as [st|st a t st' Hp Hf IH]; intros l; simpl.
  - tauto.
  - rewrite IH. destruct a; simpl; tauto.
Qed.

Lemma follows_steps p st t st' :
  follows p st t st' -> steps st' = steps st + length t.
Proof.
  induction 1 as [st|st a t st' Hp Hf IH]; simpl; [lia|].
  rewrite IH. destruct a; simpl; lia.
Qed.

(* ---------------------------------------------------------------------- *)
(** ** Decomposition of a concurrent execution                              *)
(* ---------------------------------------------------------------------- *)

Lemma exec_sched_trace P c s tr c' : exec P c s tr c' -> s = map fst tr.
Proof. induction 1; simpl; congruence. Qed.

Lemma exec_decompose P c s tr c' :
  exec P c s tr c' ->
  run (fst c) (acts tr) (fst c') /\
  forall i, follows (P i) (snd c i) (proj i tr) (snd c' i).
Proof.
  induction 1 as [c|h ls k a h1 st1 s tr c2 Ht He IH]; simpl.
  - split; intros; constructor.
  - apply tstep_iff in Ht. destruct Ht as (Hp & Hs & ->).
    destruct IH as [R Fo]. simpl in *. split.
    + econstructor; eauto.
    + intros i. specialize (Fo i). unfold updl in Fo.
      destruct (Nat.eq_dec k i) as [->|Hne].
      * rewrite proj_cons_same. rewrite Nat.eqb_refl in Fo. econstructor; eauto.
      * rewrite proj_cons_other by auto.
        assert (E : Nat.eqb i k = false) by (apply Nat.eqb_neq; auto).
        now rewrite E in Fo.
Qed.

(* ---------------------------------------------------------------------- *)
(** ** Self-contained programs                                              *)
(* ---------------------------------------------------------------------- *)

(** The next action of a thread in local state st is harmless:
    it writes only to a location the thread allocated itself, and reads
    only an initial location or an own location. *)
Definition safe_state (h0 : heap) (p : program) (st : lstate) : Prop :=
  match p (obs st) (steps st) with
  | Some (PWrite l _) => In l (mine st)
  | Some (PRead l)    => h0 l <> None \/ In l (mine st)
  | _ => True
  end.

(** A program is self-contained (w.r.t. the initial heap h0) when this
    holds in every state it can reach RUNNING ALONE from h0, whatever the
    allocator chooses.  Note that this is a property of the sequential
    behaviour of the program only. *)
Definition self_contained_prog (h0 : heap) (p : program) : Prop :=
  forall t h' st, solo p h0 t h' st -> safe_state h0 p st.

(* each solo run of a self-contained program is a self-contained trace in
   the sense of Part 0, so the frame theorem applies to it *)
Lemma solo_self_contained h0 p t h' st :
  self_contained_prog h0 p -> solo p h0 t h' st -> self_contained t.
Proof.
  intros Hsc [Hr Hf] pre l v post E. subst t.
  destruct (run_app_inv _ _ _ _ Hr) as (hm & R1 & _).
  destruct (follows_app_inv _ _ _ _ _ Hf) as (sm & F1 & F2).
  pose proof (Hsc pre hm sm (conj R1 F1)) as Hsafe.
  inversion F2 as [|? ? ? ? Hp _]; subst.
  unfold safe_state in Hsafe. rewrite Hp in Hsafe. simpl in Hsafe.
  apply (follows_mine _ _ _ _ F1) in Hsafe. simpl in Hsafe. tauto.
Qed.

(** Key step: an execution of self-contained programs is disciplined.
    (The proof is by induction on the execution: the prefix is disciplined,
    hence by non-interference every thread is in a state it could have
    reached alone, hence its next action is harmless.) *)
Lemma programs_disciplined P h0 :
  (forall i, self_contained_prog h0 (P i)) ->
  forall tr,
    (exists h, run h0 (acts tr) h) ->
    (forall i, exists st, follows (P i) init_st (proj i tr) st) ->
    disciplined h0 tr.
Proof.
  intros Hsc tr.
  induction tr as [|[k a] tr IH] using rev_ind; intros [h Hr] Hf.
  - apply disciplined_nil.
  - rewrite acts_app in Hr. simpl in Hr.
    destruct (run_app_inv _ _ _ _ Hr) as (hm & R1 & R2).
    assert (Hd : disciplined h0 tr).
    { apply IH; eauto. intros i. destruct (Hf i) as (st & Fo).
      rewrite proj_app in Fo.
      destruct (follows_app_inv _ _ _ _ _ Fo) as (sm & F1 & _). eauto. }
    apply disciplined_snoc; auto.
    destruct (inv_sim _ _ _ (trace_invariant _ _ _ R1 Hd) k) as (hk & Rk & _ & _).
    destruct (Hf k) as (st & Fo). rewrite proj_snoc_same in Fo.
    destruct (follows_app_inv _ _ _ _ _ Fo) as (sm & F1 & F2).
    pose proof (Hsc k _ _ _ (conj Rk F1)) as Hsafe.
    inversion F2 as [|? ? ? ? Hp _]; subst.
    unfold safe_state in Hsafe. rewrite Hp in Hsafe.
    pose proof (follows_mine _ _ _ _ F1) as M. simpl in M.
    destruct a; simpl in *; auto.
    + destruct Hsafe as [?|Hin]; auto. right. apply M in Hin. tauto.
    + apply M in Hsafe. tauto.
Qed.

Lemma exec_disciplined P h0 s tr c' :
  (forall i, self_contained_prog h0 (P i)) ->
  exec P (h0, fun _ => init_st) s tr c' ->
  runT h0 tr (fst c') /\ disciplined h0 tr.
Proof.
  intros Hsc He. destruct (exec_decompose _ _ _ _ _ He) as [R Fo]. simpl in *.
  split; auto. eapply programs_disciplined; eauto.
Qed.

(* ---------------------------------------------------------------------- *)
(** ** Main results at program level                                        *)
(* ---------------------------------------------------------------------- *)

(** NON-INTERFERENCE.  Any number of self-contained programs sharing the
    initial heap h0 (the compiled Expression and the read-only document),
    under EVERY schedule and every allocator behaviour:
    (1) the initial locations are never modified by anyone;
    (2) for every thread i, what it did in the concurrent execution is a
        SOLO run of program i from the initial heap: it performed the same
        actions, read the same values, and ended in the same local state
        (so it returns the same result) as when running alone with the
        same allocator choices. *)
Theorem noninterference : forall P h0 s tr h' ls',
  (forall i, self_contained_prog h0 (P i)) ->
  exec P (h0, fun _ => init_st) s tr (h', ls') ->
  (forall l, h0 l <> None -> h' l = h0 l) /\
  (forall i, exists hi,
      solo (P i) h0 (proj i tr) hi (ls' i) /\
      (forall l, In l (mine (ls' i)) -> hi l = h' l) /\
      (forall l, ~ In l (mine (ls' i)) -> hi l = h0 l)).
Proof.
  intros P h0 s tr h' ls' Hsc He.
  destruct (exec_disciplined _ _ _ _ _ Hsc He) as [R Hd].
  destruct (exec_decompose _ _ _ _ _ He) as [_ Fo]. simpl in *.
  pose proof (trace_invariant _ _ _ R Hd) as [F O D S].
  split; auto.
  intros i. destruct (S i) as (hi & Ri & Ai & Bi).
  pose proof (follows_mine _ _ _ _ (Fo i)) as M. simpl in M.
  exists hi. split; [split; auto|]. split.
  - intros l Hl. apply Ai. apply M in Hl. tauto.
  - intros l Hl. apply Bi. intros C. apply Hl. apply M. auto.
Qed.

(** DATA-RACE FREEDOM at program level. *)
Theorem race_free : forall P h0 s tr c',
  (forall i, self_contained_prog h0 (P i)) ->
  exec P (h0, fun _ => init_st) s tr c' ->
  forall e1 e2, In e1 tr -> In e2 tr -> ~ conflict e1 e2.
Proof.
  intros P h0 s tr c' Hsc He.
  destruct (exec_disciplined _ _ _ _ _ Hsc He) as [R Hd].
  eapply race_free_trace; eauto.
Qed.

(** Threads never fault: whenever a thread of the concurrent system is
    about to read or write a location, that location is allocated. *)
Theorem no_fault : forall P h0 s tr h' ls' i,
  (forall i, self_contained_prog h0 (P i)) ->
  exec P (h0, fun _ => init_st) s tr (h', ls') ->
  match P i (obs (ls' i)) (steps (ls' i)) with
  | Some (PRead l) | Some (PWrite l _) => h' l <> None
  | _ => True
  end.
Proof.
  intros P h0 s tr h' ls' i Hsc He.
  destruct (noninterference _ _ _ _ _ _ Hsc He) as [F Sim].
  destruct (exec_disciplined _ _ _ _ _ Hsc He) as [R Hd]. simpl in R.
  destruct (Sim i) as (hi & Hsolo & Ai & Bi).
  pose proof (Hsc i _ _ _ Hsolo) as Hsafe. unfold safe_state in Hsafe.
  assert (Own : forall l, In l (mine (ls' i)) -> h' l <> None).
  { intros l Hl. rewrite <- (Ai l Hl). destruct Hsolo as [Rs Fs].
    apply (follows_mine _ _ _ _ Fs) in Hl. simpl in Hl.
    eapply run_owned_allocated; eauto. tauto. }
  destruct (P i (obs (ls' i)) (steps (ls' i))) as [[l|l v|v]|]; auto.
  destruct Hsafe as [Hl|Hl]; auto. rewrite (F l Hl). auto.
Qed.

(* ---------------------------------------------------------------------- *)
(** ** Determinism of solo runs: "the same outcome as when run alone"       *)
(* ---------------------------------------------------------------------- *)

(** Two runs of the same program from (extensionally) the same heap and the
    same local state, of the same length and with the same allocator
    choices, are identical. *)
Lemma solo_det_gen p t1 : forall t2 ha hb ha' hb' st s1 s2,
  (forall l, ha l = hb l) ->
  run ha t1 ha' -> follows p st t1 s1 ->
  run hb t2 hb' -> follows p st t2 s2 ->
  length t1 = length t2 -> owned t1 = owned t2 ->
  t1 = t2 /\ s1 = s2 /\ forall l, ha' l = hb' l.
Proof.
  induction t1 as [|a t1 IH]; intros [|b t2] ha hb ha' hb' st s1 s2 Heq R1 F1 R2 F2 Hlen Hown;
    try discriminate.
  - inversion R1; inversion R2; inversion F1; inversion F2; subst. auto.
  - inversion R1 as [|? ? ha1 ? ? Sa Ra]; subst.
    inversion R2 as [|? ? hb1 ? ? Sb Rb]; subst.
    inversion F1 as [|? ? ? ? Pa Fa]; subst.
    inversion F2 as [|? ? ? ? Pb Fb]; subst.
    assert (Eab : a = b /\ forall l, ha1 l = hb1 l).
    { rewrite Pa in Pb. inversion Pb as [Epa]. clear Pb.
      inversion Sa; subst; inversion Sb; subst; simpl in Epa; try discriminate;
        inversion Epa; subst.
      - split; auto. f_equal. rewrite Heq in H. congruence.
      - split; auto. intros l'. unfold upd. destruct (Nat.eqb l' l0); auto.
      - simpl in Hown. inversion Hown; subst. split; auto.
        intros l'. unfold upd. destruct (Nat.eqb l' l0); auto. }
    destruct Eab as [<- Heq1].
    assert (Hown' : owned t1 = owned t2).
    { destruct a; simpl in Hown; auto. inversion Hown; auto. }
    simpl in Hlen. inversion Hlen as [Hlen'].
    destruct (IH _ _ _ _ _ _ _ _ Heq1 Ra Fa Rb Fb Hlen' Hown') as (-> & -> & Hh).
    auto.
Qed.

Theorem solo_deterministic : forall p h t1 t2 h1 h2 s1 s2,
  solo p h t1 h1 s1 -> solo p h t2 h2 s2 ->
  length t1 = length t2 -> owned t1 = owned t2 ->
  t1 = t2 /\ s1 = s2 /\ forall l, h1 l = h2 l.
Proof.
  intros p h t1 t2 h1 h2 s1 s2 [R1 F1] [R2 F2] Hlen Hown.
  eapply solo_det_gen; eauto.
Qed.

(** SAME OUTCOME.  Take any concurrent execution of self-contained
    programs, and any run of program i ALONE from the initial heap that
    performs as many steps and receives the same locations from the
    allocator.  Then thread i did exactly the same in both: same actions,
    same values read, same final local state -- in particular the same
    observations, i.e. the same result; and if it has returned in one, it
    has returned in the other. *)
Theorem same_outcome : forall P h0 s tr h' ls' i t hi st,
  (forall i, self_contained_prog h0 (P i)) ->
  exec P (h0, fun _ => init_st) s tr (h', ls') ->
  solo (P i) h0 t hi st ->
  length t = length (proj i tr) -> owned t = owned (proj i tr) ->
  t = proj i tr /\ st = ls' i /\
  (finished (P i) st <-> finished (P i) (ls' i)).
Proof.
  intros P h0 s tr h' ls' i t hi st Hsc He Hsolo Hlen Hown.
  destruct (noninterference _ _ _ _ _ _ Hsc He) as [_ Sim].
  destruct (Sim i) as (hi' & Hsolo' & _).
  destruct (solo_deterministic _ _ _ _ _ _ _ _ Hsolo Hsolo' Hlen Hown) as (-> & -> & _).
  repeat split; auto.
Qed.

(* ---------------------------------------------------------------------- *)
(** ** Link with Part 1: each thread's actions are a self-contained call    *)
(* ---------------------------------------------------------------------- *)

Lemma proj_split i tr : forall pre' x post',
  proj i tr = pre' ++ x :: post' ->
  exists pre post, tr = pre ++ (i, x) :: post /\ proj i pre = pre'.
Proof.
  induction tr as [|[k a] tr IH]; intros pre' x post' E.
  - destruct pre'; discriminate.
  - destruct (Nat.eq_dec k i) as [->|Hne].
    + rewrite proj_cons_same in E. destruct pre' as [|b pre']; simpl in E.
      * inversion E; subst. exists [], tr. auto.
      * inversion E; subst. destruct (IH _ _ _ H1) as (pre & post & -> & <-).
        exists ((i, b) :: pre), post. rewrite proj_cons_same. auto.
    + rewrite proj_cons_other in E by auto.
      destruct (IH _ _ _ E) as (pre & post & -> & <-).
      exists ((k, a) :: pre), post. rewrite proj_cons_other by auto. auto.
Qed.

Theorem thread_self_contained : forall h0 tr i,
  disciplined h0 tr -> self_contained (proj i tr).
Proof.
  intros h0 tr i Hd pre' l v post' E.
  destruct (proj_split _ _ _ _ _ E) as (pre & post & -> & <-).
  apply (Hd pre i (AWrite l v) post eq_refl).
Qed.

(* ====================================================================== *)
(** * Part 4.  Non-vacuity                                                 *)
(* ====================================================================== *)

Module Demo.

(* the shared, read-only initial heap: one cell at location 0 holding 5 *)
Definition h0 : heap := fun l => if Nat.eqb l 0 then Some 5 else None.

(* read the shared cell (v); allocate a cell (l); store v + c into it;
   read it back; return. *)
Definition worker (c : val) : program := fun o n =>
  match n, o with
  | 0, _ => Some (PRead 0)
  | 1, _ => Some (PAlloc 0)
  | 2, l :: v :: _ => Some (PWrite l (v + c))
  | 3, l :: _ => Some (PRead l)
  | _, _ => None
  end.

Definition idle : program := fun _ _ => None.

Definition threads (i : tid) : program :=
  match i with 0 => worker 1 | 1 => worker 2 | _ => idle end.

Lemma worker_self_contained c : self_contained_prog h0 (worker c).
Proof.
  intros t h' st [_ Hf]. unfold safe_state.
  destruct t as [|a1 t].
  { inversion Hf; subst. simpl. left. discriminate. }
  inversion Hf as [|? ? ? ? Hp1 Hf1]; subst. clear Hf.
  destruct a1; simpl in Hp1; inversion Hp1; subst. simpl in Hf1.
  destruct t as [|a2 t].
  { inversion Hf1; subst. simpl. exact I. }
  inversion Hf1 as [|? ? ? ? Hp2 Hf2]; subst. clear Hf1.
  destruct a2; simpl in Hp2; inversion Hp2; subst. simpl in Hf2.
  destruct t as [|a3 t].
  { inversion Hf2; subst. simpl. auto. }
  inversion Hf2 as [|? ? ? ? Hp3 Hf3]; subst. clear Hf2.
  destruct a3; simpl in Hp3; inversion Hp3; subst. simpl in Hf3.
  destruct t as [|a4 t].
  { inversion Hf3; subst. simpl. auto. }
  inversion Hf3 as [|? ? ? ? Hp4 Hf4]; subst. clear Hf3.
  destruct a4; simpl in Hp4; inversion Hp4; subst. simpl in Hf4.
  destruct t as [|a5 t].
  { inversion Hf4; subst. simpl. exact I. }
  inversion Hf4 as [|? ? ? ? Hp5 _]; subst. simpl in Hp5. discriminate.
Qed.

Lemma idle_self_contained : self_contained_prog h0 idle.
Proof. intros t h' st _. unfold safe_state, idle. exact I. Qed.

Lemma threads_self_contained : forall i, self_contained_prog h0 (threads i).
Proof.
  intros [|[|i]]; simpl.
  - apply worker_self_contained.
  - apply worker_self_contained.
  - apply idle_self_contained.
Qed.

(* an explicit interleaving of the two workers *)
Definition demo_sched : sched := [0; 1; 0; 1; 1; 0; 0; 1].

Definition demo_trace : list event :=
  [ (0, ARead 0 5); (1, ARead 0 5);
    (0, AAlloc 1 0); (1, AAlloc 2 0);
    (1, AWrite 2 7); (0, AWrite 1 6);
    (0, ARead 1 6);  (1, ARead 2 7) ].

Example demo_executes :
  exists h' ls',
    exec threads (h0, fun _ => init_st) demo_sched demo_trace (h', ls') /\
    (* both calls have returned, with these observations *)
    finished (threads 0) (ls' 0) /\ obs (ls' 0) = [6; 1; 5] /\
    finished (threads 1) (ls' 1) /\ obs (ls' 1) = [7; 2; 5] /\
    (* and the shared cell is intact *)
    h' 0 = Some 5.
Proof.
  eexists. eexists. split.
  { unfold demo_sched, demo_trace.
    repeat (eapply exec_cons; [econstructor; reflexivity | cbn [obs steps mine updl Nat.eqb]]).
    apply exec_nil. }
  repeat split; reflexivity.
Qed.

(* the general theorems apply to the demo *)
Example demo_race_free : forall e1 e2,
  In e1 demo_trace -> In e2 demo_trace -> ~ conflict e1 e2.
Proof.
  destruct demo_executes as (h' & ls' & He & _).
  eapply race_free; eauto. apply threads_self_contained.
Qed.

Example demo_same_as_alone : forall i,
  exists hi, solo (threads i) h0 (proj i demo_trace) hi
                  (match i with
                   | 0 => mkst [6; 1; 5] 4 [1]
                   | 1 => mkst [7; 2; 5] 4 [2]
                   | _ => init_st end).
Proof.
  intros [|[|i]].
  - exists (upd (upd h0 1 0) 1 6). split.
    + repeat (eapply run_cons; [econstructor; reflexivity|]). apply run_nil.
    + repeat (eapply fo_cons; [reflexivity|]). apply fo_nil.
  - exists (upd (upd h0 2 0) 2 7). split.
    + repeat (eapply run_cons; [econstructor; reflexivity|]). apply run_nil.
    + repeat (eapply fo_cons; [reflexivity|]). apply fo_nil.
  - exists h0. split; constructor.
Qed.

(** The hypothesis matters and [conflict] is not vacuous: a program that
    writes the SHARED cell is not self-contained, and two copies of it do
    race. *)
Definition bad : program := fun _ n => match n with 0 => Some (PWrite 0 1) | _ => None end.

Example bad_not_self_contained : ~ self_contained_prog h0 bad.
Proof.
  intros H. specialize (H [] h0 init_st (conj (run_nil h0) (fo_nil bad init_st))).
  unfold safe_state in H. simpl in H. exact H.
Qed.

Example bad_races :
  exists c',
    exec (fun _ => bad) (h0, fun _ => init_st) [0; 1]
         [(0, AWrite 0 1); (1, AWrite 0 1)] c' /\
    conflict (0, AWrite 0 1) (1, AWrite 0 1) /\
    fst c' 0 <> h0 0.
Proof.
  eexists. split; [|split].
  - repeat (eapply exec_cons; [econstructor; reflexivity|]). apply exec_nil.
  - unfold conflict; simpl. repeat split; auto.
  - simpl. discriminate.
Qed.

End Demo.

(* ====================================================================== *)
(** * Assumptions                                                          *)
(* ====================================================================== *)

Print Assumptions frame.
Print Assumptions history_frame.
Print Assumptions initial_untouched.
Print Assumptions noninterference_trace.
Print Assumptions race_free_trace.
Print Assumptions thread_self_contained.
Print Assumptions noninterference.
Print Assumptions race_free.
Print Assumptions no_fault.
Print Assumptions same_outcome.
Print Assumptions Demo.demo_executes.
Print Assumptions Demo.demo_race_free.
