(* Shared vocabulary of the generated case files: what the harness observed on
   the real library, and how it is compared with the model. *)
From Coq Require Import List ZArith Bool String.
From JM Require Import Base.Outcome Base.Bytes Num.Dec Num.Flt Json.Value Json.JsonText
  Model.Ast Model.Parser Model.Eval Model.Api.
Import ListNotations.
Open Scope Z_scope.

Inductive obs :=
| OVal (v : value)
| OErr (cats : list category)   (* every exported sentinel errors.Is matches *)
| OPanic
| OTimeout.

(* numbers observed as text *)
Definition dtext (s : string) : num :=
  match parse_dec (bs s) with Some d => NDec d | None => NDec DNaN end.
Definition jn (s : string) : value := VNum (NJson (bs s)).
Definition jnh (s : string) : value := VNum (NJson (hex s)).
Definition vs (s : string) : value := VStr (hex s).
Definition vi (z : Z) : value := VNum (NInt I64 z).
Definition vd (s : string) : value := VNum (dtext s).
Definition kv (k : string) (v : value) : bytes * value := (hex k, v).

Definition cat_eqb (a b : category) : bool := if category_eq_dec a b then true else false.

(* result codes of a comparison *)
Definition R_OK : Z := 0.
Definition R_MISMATCH : Z := 1.     (* model and implementation differ *)
Definition R_UNMODELLED : Z := 2.   (* model does not determine the result: skipped *)
Definition R_STUCK : Z := 3.        (* model ran out of fuel *)
Definition R_PROPERTY : Z := 4.     (* observed outcome violates the property's own checker *)

Definition agree (same : value -> value -> bool) (r : result) (o : obs) : Z :=
  match r, o with
  | RUnmodelled, _ => R_UNMODELLED
  | RStuck, _ => R_STUCK
  | RValue v, OVal w => if same v w then R_OK else R_MISMATCH
  | RError c, OErr [c'] => if cat_eqb c c' then R_OK else R_MISMATCH
  | RPanic, OPanic => R_OK
  | _, _ => R_MISMATCH
  end.

(* order-insensitive comparison for results that enumerate object members:
   arrays are compared as multisets at every depth *)
Fixpoint remove_same (same : value -> value -> bool) (x : value) (l : list value) : option (list value) :=
  match l with
  | [] => None
  | y :: r => if same x y then Some r else option_map (cons y) (remove_same same x r)
  end.
Fixpoint multiset_same (same : value -> value -> bool) (a b : list value) : bool :=
  match a with
  | [] => match b with [] => true | _ => false end
  | x :: a' => match remove_same same x b with Some b' => multiset_same same a' b' | None => false end
  end.
Fixpoint value_same_unordered (a b : value) : bool :=
  match a, b with
  | VArr x, VArr y =>
    (fix ms (x y : list value) : bool :=
       match x with
       | [] => match y with [] => true | _ => false end
       | u :: x' =>
         (fix rm (y : list value) (acc : list value) : bool :=
            match y with
            | [] => false
            | v :: y' => if value_same_unordered u v then ms x' (rev_append acc y') else rm y' (v :: acc)
            end) y []
       end) x y
  | VObj x, VObj y =>
    (List.length x =? List.length y)%nat &&
    (fix go (x : list (bytes * value)) : bool :=
       match x with
       | [] => true
       | (k, u) :: x' => match assoc k y with Some v => value_same_unordered u v | None => false end && go x'
       end) x
  | _, _ => value_same a b
  end.

(* keep (id, code) pairs whose code is not OK, flattened for easy printing *)
Fixpoint failures (l : list (Z * Z)) : list Z :=
  match l with
  | [] => []
  | (i, c) :: r => if c =? 0 then failures r else i :: c :: failures r
  end.
