(* Cases that carry a reference expression: the text must be its canonical
   rendering, the observed outcome must be the reference semantics' (spec =
   implementation), and the model must agree with the implementation. *)
From Coq Require Import List ZArith Bool String.
From JM Require Import Base.Outcome Base.Bytes Json.Value Model.Api Spec.RefAst Spec.RefEval Spec.Unparse Checks.Common.
(* text-only cases (model = implementation) may accompany the reference cases of a property *)
From JM Require Export Checks.Basic.
Import ListNotations.
Open Scope Z_scope.

Record speccase := SC {
  sc_id : Z; sc_ast : rexpr; sc_text : string; sc_doc : value; sc_unordered : bool; sc_obs : obs }.

(* An index on the current node has two spellings, "@[n]" (the canonical one)
   and the bare "[n]" (which the parser compiles to a node of its own); the
   harness alternates between them.  The rendering check therefore compares the
   texts up to an "@" directly in front of "[" digit / "[-".  What decides a
   case is not this check but the two comparisons below, both of which are made
   on the text the implementation was actually given. *)
Definition starts_index (r : bytes) : bool :=
  match r with 91 :: c :: _ => ((48 <=? c) && (c <=? 57)) || (c =? 45) | _ => false end.
Fixpoint drop_at (s : bytes) : bytes :=
  match s with
  | [] => []
  | b :: r => if (b =? 64) && starts_index r then drop_at r else b :: drop_at r
  end.

Definition R_UNPARSE : Z := 6.   (* the harness's rendering differs from Spec/Unparse.v *)
Definition R_SPEC : Z := 7.      (* reference semantics and implementation differ *)

Definition spec_check (c : speccase) : Z * Z :=
  let same := if sc_unordered c then value_same_unordered else value_same in
  let text := hex (sc_text c) in
  if negb (beqb (drop_at (unparse (sc_ast c))) (drop_at text)) then (sc_id c, R_UNPARSE) else
  let s := agree same (lift_eval (ref_search (sc_ast c) (sc_doc c))) (sc_obs c) in
  let m := agree same (search text (sc_doc c)) (sc_obs c) in
  if (s =? R_MISMATCH) || (s =? R_STUCK) then (sc_id c, R_SPEC)
  else if negb (m =? R_OK) then (sc_id c, m) else (sc_id c, s).

Definition spec_run (l : list speccase) : list Z := failures (map spec_check l).
