(* C04 cases: outcome class of Compile vs the model, and vs the expected membership when the harness knows it *)
From Coq Require Import List ZArith Bool String.
From JM Require Import Base.Outcome Base.Bytes Json.Value Model.Api Checks.Common.
(* text-only cases (model = implementation) may accompany the cases of this checker *)
From JM Require Export Checks.Basic.
Import ListNotations.
Open Scope Z_scope.

Record c04case := C4 { c4_id : Z; c4_expr : string; c4_member : option bool; c4_obs : obs }.

Definition c04_check (c : c04case) : Z * Z :=
  let m := agree value_same (compile_result (hex (c4_expr c))) (c4_obs c) in
  let p := match c4_member c, c4_obs c with
           | Some true, OVal _ => true
           | Some true, _ => false
           | Some false, OErr [CSyntax] => true
           | Some false, _ => false
           | None, _ => true
           end in
  if negb p then (c4_id c, R_PROPERTY) else (c4_id c, m).

Definition c04_run (l : list c04case) : list Z := failures (map c04_check l).
