(* C12 case checker: (a) model = implementation through the whole pipeline,
   (b) the observed result is the specification's slice walk. *)
From Coq Require Import List ZArith Bool String.
From JM Require Import Base.Outcome Base.Bytes Base.Utf8 Json.Value Model.Api Model.Array Spec.SpecSlice Checks.Common.
(* text-only cases (model = implementation) may accompany the cases of this checker *)
From JM Require Export Checks.Basic.
Import ListNotations.
Open Scope Z_scope.

Record c12case := C12 {
  c12_id : Z; c12_expr : string; c12_doc : value; c12_target : value;
  c12_start : option Z; c12_stop : option Z; c12_step : option Z; c12_obs : obs }.

Definition c12_expected (c : c12case) : obs :=
  match c12_step c with
  | Some 0 => OErr [CInvalidValue]
  | _ =>
    let step := match c12_step c with Some s => s | None => 1 end in
    match c12_target c with
    | VArr l => OVal (VArr (drop_nulls (spec_slice l VNull (c12_start c) (c12_stop c) step)))
    | VStr s => OVal (VStr (List.concat (spec_slice (chunks s) [] (c12_start c) (c12_stop c) step)))
    | _ => OVal VNull
    end
  end.

Definition obs_same (a b : obs) : bool :=
  match a, b with
  | OVal v, OVal w => value_same v w
  | OErr [c], OErr [d] => cat_eqb c d
  | OPanic, OPanic => true
  | _, _ => false
  end.

Definition c12_check (c : c12case) : Z * Z :=
  let m := agree value_same (search (hex (c12_expr c)) (c12_doc c)) (c12_obs c) in
  if negb (obs_same (c12_expected c) (c12_obs c)) then (c12_id c, R_PROPERTY) else (c12_id c, m).

Definition c12_run (l : list c12case) : list Z := failures (map c12_check l).
