(* C05 case checker: exact rational oracle for decimal arithmetic, independent
   of the model's rounding: the observed result must be the exact result when
   that has at most 34 significant digits, and within one unit of the 34th
   digit otherwise; plus agreement with the model. *)
From Coq Require Import List ZArith Bool String.
From JM Require Import Base.Outcome Base.Bytes Num.Dec Json.Value Model.Api Checks.Common.
(* text-only cases (model = implementation) may accompany the cases of this checker *)
From JM Require Export Checks.Basic.
Import ListNotations.
Open Scope Z_scope.

Inductive c5op := PAdd | PSub | PMul | PDiv | PIDiv | PMod | PNeg | PAbs | PCeil | PFloor | PToNumber
                | PLt | PLe | PGt | PGe | PEq | PNe | PSum | PAvg.

Record c05case := C5 {
  c5_id : Z; c5_op : c5op; c5_args : list string (* operand texts *);
  c5_expr : string; c5_doc : value; c5_obs : obs }.

(* exact value num/den * 10^k, den > 0 *)
Record exact := EX { ex_num : Z; ex_den : Z; ex_k : Z }.

Definition dparse (s : string) : option (Z * Z) :=
  match parse_dec (bs s) with
  | Some (DFin n c e) => Some (sgn n c, e)
  | _ => None
  end.

Definition strip_zeros_fuel : nat := 200.
Fixpoint strip_zeros (f : nat) (q : Z) : Z :=
  match f with O => q | S f' => if (q =? 0) then 0 else if q mod 10 =? 0 then strip_zeros f' (q / 10) else q end.

(* does the observed decimal equal / approximate the exact value? *)
Definition close_enough (x : exact) (d : dec) : bool :=
  match d with
  | DFin n c e =>
    let m := Z.min e (ex_k x) - 80 in
    let A := sgn n c * pow10 (e - m) * ex_den x in
    let B := ex_num x * pow10 (ex_k x - m) in
    if B =? 0 then c =? 0 else
    let q := Z.abs B / ex_den x in
    let exact_fits := (Z.abs B mod ex_den x =? 0) && (digits (strip_zeros strip_zeros_fuel q) <=? 34) in
    if exact_fits then A =? B
    else Z.abs (A - B) <=? pow10 (digits q - 34) * ex_den x
  | _ => false
  end.

Definition add_ex (a b : Z * Z) : exact :=
  let '(x, y, e) := align (fst a) (snd a) (fst b) (snd b) in EX (x + y) 1 e.
Definition neg_p (a : Z * Z) : Z * Z := (- fst a, snd a).

(* floor of a/b for aligned integers *)
Definition floor_div (a b : Z * Z) : Z :=
  let '(x, y, _) := align (fst a) (snd a) (fst b) (snd b) in x / y.

Definition cmp_ex (a b : Z * Z) : comparison :=
  let '(x, y, _) := align (fst a) (snd a) (fst b) (snd b) in x ?= y.

Definition obs_dec (o : obs) : option dec :=
  match o with OVal (VNum n) => to_decimal (VNum n) | _ => None end.
Definition obs_is (o : obs) (v : value) : bool := match o with OVal w => value_same v w | _ => false end.
Definition obs_nan_error (o : obs) : bool := match o with OErr [CNotANumber] => true | _ => false end.

Definition expect_ex (x : exact) (o : obs) : bool :=
  match obs_dec o with Some d => close_enough x d | None => false end.

Definition c05_property (c : c05case) : bool :=
  let o := c5_obs c in
  match c5_op c, map dparse (c5_args c) with
  | PAdd, [Some a; Some b] => expect_ex (add_ex a b) o
  | PSub, [Some a; Some b] => expect_ex (add_ex a (neg_p b)) o
  | PMul, [Some a; Some b] => expect_ex (EX (fst a * fst b) 1 (snd a + snd b)) o
  | PDiv, [Some a; Some b] =>
    if fst b =? 0 then obs_nan_error o
    else expect_ex (EX (fst a * Z.sgn (fst b)) (Z.abs (fst b)) (snd a - snd b)) o
  | PIDiv, [Some a; Some b] =>
    if fst b =? 0 then obs_nan_error o else expect_ex (EX (floor_div a b) 1 0) o
  | PMod, [Some a; Some b] =>
    if fst b =? 0 then obs_nan_error o
    else (* pinned for operands of equal sign: a - b * floor(a/b) *)
      let q := floor_div a b in expect_ex (add_ex a (- (fst b * q), snd b)) o
  | PNeg, [Some a] => expect_ex (EX (- fst a) 1 (snd a)) o
  | PAbs, [Some a] => expect_ex (EX (Z.abs (fst a)) 1 (snd a)) o
  | PCeil, [Some a] => expect_ex (EX (- floor_div (neg_p a) (1, 0)) 1 0) o
  | PFloor, [Some a] => expect_ex (EX (floor_div a (1, 0)) 1 0) o
  | PToNumber, [Some a] => expect_ex (EX (fst a) 1 (snd a)) o
  | PLt, [Some a; Some b] => obs_is o (VBool (match cmp_ex a b with Lt => true | _ => false end))
  | PLe, [Some a; Some b] => obs_is o (VBool (match cmp_ex a b with Gt => false | _ => true end))
  | PGt, [Some a; Some b] => obs_is o (VBool (match cmp_ex a b with Gt => true | _ => false end))
  | PGe, [Some a; Some b] => obs_is o (VBool (match cmp_ex a b with Lt => false | _ => true end))
  | PEq, [Some a; Some b] => obs_is o (VBool (match cmp_ex a b with Eq => true | _ => false end))
  | PNe, [Some a; Some b] => obs_is o (VBool (match cmp_ex a b with Eq => false | _ => true end))
  | PSum, args =>
    match fold_left (fun acc a => match acc, a with Some s, Some x => Some (let e := add_ex s x in (ex_num e, ex_k e)) | _, _ => None end) args (Some (0, 0)) with
    | Some s => expect_ex (EX (fst s) 1 (snd s)) o
    | None => true
    end
  | PAvg, args =>
    match fold_left (fun acc a => match acc, a with Some s, Some x => Some (let e := add_ex s x in (ex_num e, ex_k e)) | _, _ => None end) args (Some (0, 0)) with
    | Some s => expect_ex (EX (fst s) (Z.of_nat (List.length args)) (snd s)) o
    | None => true
    end
  | _, _ => true
  end.

Definition c05_check (c : c05case) : Z * Z :=
  let m := agree value_same (search (hex (c5_expr c)) (c5_doc c)) (c5_obs c) in
  if negb (c05_property c) then (c5_id c, R_PROPERTY) else (c5_id c, m).

Definition c05_run (l : list c05case) : list Z := failures (map c05_check l).
