(* Cases that only compare the model with the implementation through the public API. *)
From Coq Require Import List ZArith Bool String.
From JM Require Import Base.Outcome Base.Bytes Json.Value Model.Api Checks.Common.
Import ListNotations.
Open Scope Z_scope.

Record bcase := BC { bc_id : Z; bc_expr : string; bc_doc : value; bc_unordered : bool; bc_obs : obs }.

Definition basic_check (c : bcase) : Z * Z :=
  let same := if bc_unordered c then value_same_unordered else value_same in
  (bc_id c, agree same (search (hex (bc_expr c)) (bc_doc c)) (bc_obs c)).

Definition basic_run (l : list bcase) : list Z := failures (map basic_check l).
