(* C12 -- slices select exactly the elements of the specified start:stop:step walk.
   Statements only; every proof is in Proofs/. *)
From Coq Require Import List ZArith Bool.
From JM Require Import Base.Outcome Base.Bytes Base.GoInt Base.Utf8 Json.Value Model.Slice
  Spec.SpecSlice Proofs.SliceSpec Proofs.SliceProofs.
Import ListNotations.
Open Scope Z_scope.

(* arrays of any length, every start/stop (absent or any 64-bit integer), every non-zero 64-bit step *)
Theorem C12_array : forall (l : list value) (start stop : option Z) (step : Z),
  zlen l <= MaxInt -> int_opt start -> int_opt stop -> MinInt <= step <= MaxInt -> step <> 0 ->
  model_slice (VArr l) start stop step = Ok (VArr (spec_slice l VNull start stop step)).
Proof. exact slice_array_spec. Qed.
Print Assumptions C12_array.
