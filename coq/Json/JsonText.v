(* Model of encoding/json decoding (Decoder with UseNumber) as used by
   parseJSONLiteral: RFC 8259 text -> value, numbers kept as text, invalid
   UTF-8 and lone surrogate escapes replaced by U+FFFD, the last duplicate key
   wins, nesting deeper than 10000 is an error. *)
From Coq Require Import List ZArith Bool.
From JM Require Import Base.Outcome Base.Bytes Base.Utf8 Num.Dec Num.Flt Json.Value.
Import ListNotations.
Open Scope Z_scope.

Definition jws (b : Z) : bool := (b =? 32) || (b =? 9) || (b =? 10) || (b =? 13).
Fixpoint skipws (s : bytes) : bytes :=
  match s with b :: r => if jws b then skipws r else s | [] => [] end.

Definition hexdig (b : Z) : option Z :=
  if (48 <=? b) && (b <=? 57) then Some (b - 48)
  else if (97 <=? b) && (b <=? 102) then Some (b - 87)
  else if (65 <=? b) && (b <=? 70) then Some (b - 55) else None.
Definition hex4 (s : bytes) : option (Z * bytes) :=
  match s with
  | a :: b :: c :: d :: r =>
    match hexdig a, hexdig b, hexdig c, hexdig d with
    | Some a, Some b, Some c, Some d => Some (a * 4096 + b * 256 + c * 16 + d, r)
    | _, _, _, _ => None
    end
  | _ => None
  end.

(* body of a JSON string after the opening quote: decoded bytes and the rest after the closing quote *)
Fixpoint jstring (fuel : nat) (s : bytes) (acc : bytes) : option (bytes * bytes) :=
  match fuel with
  | O => None
  | S f =>
    match s with
    | [] => None
    | 34 :: r => Some (rev acc, r)
    | 92 :: e :: r =>
      let simple (c : Z) := jstring f r (c :: acc) in
      if e =? 34 then simple 34 else if e =? 92 then simple 92 else if e =? 47 then simple 47
      else if e =? 98 then simple 8 else if e =? 102 then simple 12 else if e =? 110 then simple 10
      else if e =? 114 then simple 13 else if e =? 116 then simple 9
      else if e =? 117 then
        match hex4 r with
        | None => None
        | Some (u, r1) =>
          if is_surrogate u then
            let lone := jstring f r1 (rev_append (encode_rune RuneError) acc) in
            match r1 with
            | 92 :: 117 :: r2 =>
              match hex4 r2 with
              | Some (u2, r3) =>
                if (55296 <=? u) && (u <=? 56319) && (56320 <=? u2) && (u2 <=? 57343)
                then jstring f r3 (rev_append (encode_rune ((u - 55296) * 1024 + (u2 - 56320) + 65536)) acc)
                else lone
              | None => lone
              end
            | _ => lone
            end
          else jstring f r1 (rev_append (encode_rune u) acc)
        end
      else None
    | 92 :: [] => None
    | b :: r =>
      if b <? 32 then None else
      if b <? 128 then jstring f r (b :: acc) else
      let '(c, sz) := decode_rune s in
      jstring f (skipn (Z.to_nat sz) s) (rev_append (encode_rune c) acc)
    end
  end.

(* a number per the RFC grammar: its text and the rest *)
Definition jnumber (s : bytes) : option (bytes * bytes) :=
  let n0 := match s with 45 :: _ => 1 | _ => 0 end in
  let s1 := skipn (Z.to_nat n0) s in
  let oi := match s1 with
            | 48 :: r => Some (1, r)
            | b :: r => if (49 <=? b) && (b <=? 57) then let '(_, n, r') := take_digits r 0 0 in Some (1 + n, r') else None
            | [] => None
            end in
  match oi with
  | None => None
  | Some (ni, r1) =>
    let of_ := match r1 with
               | 46 :: r => let '(_, n, r') := take_digits r 0 0 in if n =? 0 then None else Some (1 + n, r')
               | _ => Some (0, r1)
               end in
    match of_ with
    | None => None
    | Some (nf, r2) =>
      let oe := match r2 with
                | b :: r =>
                  if (b =? 101) || (b =? 69) then
                    let '(ns, r') := match r with 45 :: t => (1, t) | 43 :: t => (1, t) | _ => (0, r) end in
                    let '(_, n, r'') := take_digits r' 0 0 in
                    if n =? 0 then None else Some (1 + ns + n, r'')
                  else Some (0, r2)
                | [] => Some (0, r2)
                end in
      match oe with
      | None => None
      | Some (ne, r3) => let n := n0 + ni + nf + ne in Some (firstn (Z.to_nat n) s, r3)
      end
    end
  end.

Definition lit_true : bytes := [116; 114; 117; 101].
Definition lit_false : bytes := [102; 97; 108; 115; 101].
Definition lit_null : bytes := [110; 117; 108; 108].

Fixpoint jvalue (fuel : nat) (depth : Z) (s0 : bytes) : option (value * bytes) :=
  match fuel with
  | O => None
  | S f =>
    let s := skipws s0 in
    match s with
    | [] => None
    | 34 :: r => match jstring (S (length r)) r [] with Some (str, r') => Some (VStr str, r') | None => None end
    | 91 :: r =>
      if depth >=? 10000 then None else
      let r1 := skipws r in
      match r1 with
      | 93 :: r2 => Some (VArr [], r2)
      | _ =>
        (fix elems (k : nat) (s : bytes) (acc : list value) : option (value * bytes) :=
           match k with
           | O => None
           | S k' =>
             match jvalue f (depth + 1) s with
             | None => None
             | Some (v, s1) =>
               match skipws s1 with
               | 44 :: s2 => elems k' s2 (v :: acc)
               | 93 :: s2 => Some (VArr (rev (v :: acc)), s2)
               | _ => None
               end
             end
           end) f r1 []
      end
    | 123 :: r =>
      if depth >=? 10000 then None else
      let r1 := skipws r in
      match r1 with
      | 125 :: r2 => Some (VObj [], r2)
      | _ =>
        (fix members (k : nat) (s : bytes) (acc : list (bytes * value)) : option (value * bytes) :=
           match k with
           | O => None
           | S k' =>
             match skipws s with
             | 34 :: sk =>
               match jstring (S (length sk)) sk [] with
               | None => None
               | Some (key, s1) =>
                 match skipws s1 with
                 | 58 :: s2 =>
                   match jvalue f (depth + 1) s2 with
                   | None => None
                   | Some (v, s3) =>
                     match skipws s3 with
                     | 44 :: s4 => members k' s4 (assoc_set key v acc)
                     | 125 :: s4 => Some (VObj (assoc_set key v acc), s4)
                     | _ => None
                     end
                   end
                 | _ => None
                 end
               end
             | _ => None
             end
           end) f r1 []
      end
    | 116 :: _ => if is_prefix lit_true s then Some (VBool true, skipn 4 s) else None
    | 102 :: _ => if is_prefix lit_false s then Some (VBool false, skipn 5 s) else None
    | 110 :: _ => if is_prefix lit_null s then Some (VNull, skipn 4 s) else None
    | _ => match jnumber s with Some (t, r) => Some (VNum (NJson t), r) | None => None end
    end
  end.

(* one JSON value, then only white space *)
Definition json_parse (s : bytes) : option value :=
  match jvalue (S (length s)) 0 s with
  | Some (v, r) => match skipws r with [] => Some v | _ => None end
  | None => None
  end.
