(* The Go-level value space the library sees (not only JSON). *)
From Coq Require Import List ZArith Bool Lia.
From JM Require Import Base.Outcome Base.Bytes Num.Dec Num.Flt.
Import ListNotations.
Open Scope Z_scope.

Inductive intkind := I8 | I16 | I32 | I64 | IInt | U8 | U16 | U32 | U64 | UInt.

Inductive num :=
| NJson (text : bytes)              (* json.Number: arbitrary text kept verbatim *)
| NDec (d : dec)                    (* decimal128.Decimal *)
| NFloat (single : bool) (f : flt)  (* float32 / float64 *)
| NInt (k : intkind) (z : Z).

Inductive value :=
| VNull
| VBool (b : bool)
| VStr (s : bytes)
| VNum (n : num)
| VArr (l : list value)
| VObj (m : list (bytes * value))   (* Go map: keys unique (wf_value) *)
| VForeign (tag : Z).               (* any other Go value *)

(* ---- association lists as Go maps ---- *)
Fixpoint assoc {A} (k : bytes) (m : list (bytes * A)) : option A :=
  match m with
  | [] => None
  | (k', v) :: r => if beqb k k' then Some v else assoc k r
  end.
Fixpoint assoc_set {A} (k : bytes) (v : A) (m : list (bytes * A)) : list (bytes * A) :=
  match m with
  | [] => [(k, v)]
  | (k', v') :: r => if beqb k k' then (k, v) :: r else (k', v') :: assoc_set k v r
  end.
Fixpoint nodup_keys {A} (m : list (bytes * A)) : bool :=
  match m with
  | [] => true
  | (k, _) :: r => match assoc k r with None => nodup_keys r | Some _ => false end
  end.

Fixpoint wf_value (v : value) : bool :=
  match v with
  | VArr l => forallb wf_value l
  | VObj m => nodup_keys m && forallb (fun kv => wf_value (snd kv)) m
  | _ => true
  end.

(* JSON documents as encoding/json with UseNumber produces them *)
Fixpoint json_value (v : value) : bool :=
  match v with
  | VNull | VBool _ | VStr _ => true
  | VNum (NJson t) => json_number_ok t
  | VNum _ => false
  | VArr l => forallb json_value l
  | VObj m => nodup_keys m && forallb (fun kv => json_value (snd kv)) m
  | VForeign _ => false
  end.

(* ---- numeric views ---- *)
Definition to_decimal (v : value) : option dec :=
  match v with
  | VNum (NDec d) => Some d
  | VNum (NJson t) => parse_dec t
  | VNum (NFloat _ f) => Some (dec_of_flt f)
  | VNum (NInt _ z) => Some (dec_of_Z z)
  | _ => None
  end.
Definition is_number (v : value) : bool := match v with VNum _ => true | _ => false end.
Definition to_float (v : value) : option flt :=
  match v with VNum (NFloat _ f) => Some f | _ => None end.

(* ---- comparison of observed and modelled results (checking side, not the library's ==) ---- *)
Definition num_close (a b : num) : bool :=
  match to_decimal (VNum a), to_decimal (VNum b) with
  | Some x, Some y => dec_close x y
  | None, None => match a, b with NJson s, NJson t => beqb s t | _, _ => false end
  | _, _ => false
  end.

(* the exact value of number text (no rounding): coefficient and exponent *)
Definition exact_text (s : bytes) : option (Z * Z) :=
  let '(neg, r) := match s with 45 :: t => (true, t) | 43 :: t => (false, t) | _ => (false, s) end in
  let '(ip, ni, r1) := take_digits r 0 0 in
  let '(c, nf, nd, r2) :=
    match r1 with
    | 46 :: t => let '(fp, nfr, r') := take_digits t ip 0 in (fp, nfr, ni + nfr, r')
    | _ => (ip, 0, ni, r1)
    end in
  if nd =? 0 then None else
  match r2 with
  | [] => Some (if neg then - c else c, - nf)
  | b :: t =>
    if (b =? 101) || (b =? 69) then
      let '(eneg, t') := match t with 45 :: u => (true, u) | 43 :: u => (false, u) | _ => (false, t) end in
      let '(ev, ne, t'') := take_digits t' 0 0 in
      if (ne =? 0) || negb (match t'' with [] => true | _ => false end) then None
      else Some (if neg then - c else c, (if eneg then - ev else ev) - nf)
    else None
  end.
Definition exact_num (n : num) : option (Z * Z) :=
  match n with
  | NJson t => exact_text t
  | NDec (DFin s c e) => Some (sgn s c, e)
  | NInt _ z => Some (z, 0)
  | _ => None
  end.
Definition is_computed (n : num) : bool := match n with NDec _ | NFloat _ _ => true | _ => false end.

(* Numbers that were computed (decimals, floats) are compared within the rounding the decimal package may
   apply (it keeps some 35-digit coefficients); a number that passed through verbatim (JSON text, a Go
   integer) must keep its exact value, whatever carries it on the other side. *)
Definition num_same (a b : num) : bool :=
  if is_computed a && is_computed b then num_close a b else
  match exact_num a, exact_num b with
  | Some x, Some y =>
    if (Z.abs (snd x) <? 20000) && (Z.abs (snd y) <? 20000)
    then (let '(p, q, _) := align (fst x) (snd x) (fst y) (snd y) in p =? q)
    else num_close a b
  | _, _ => num_close a b
  end.

Fixpoint value_same (a b : value) : bool :=
  match a, b with
  | VNull, VNull => true
  | VBool x, VBool y => Bool.eqb x y
  | VStr x, VStr y => beqb x y
  | VNum x, VNum y => num_same x y
  | VArr x, VArr y =>
    (fix go (x y : list value) : bool :=
       match x, y with
       | [], [] => true
       | u :: x', v :: y' => value_same u v && go x' y'
       | _, _ => false
       end) x y
  | VObj x, VObj y =>
    (length x =? length y)%nat &&
    (fix go (x : list (bytes * value)) : bool :=
       match x with
       | [] => true
       | (k, u) :: x' => match assoc k y with Some v => value_same u v | None => false end && go x'
       end) x
  | VForeign s, VForeign t => s =? t
  | _, _ => false
  end.
