(* Model of encoding/json.Marshal on the values the evaluator can hold
   (default options: HTML escaping on, map keys sorted). *)
From Coq Require Import List ZArith Bool.
From JM Require Import Base.Outcome Base.Bytes Base.Utf8 Num.Dec Num.Flt Json.Value.
Import ListNotations.
Open Scope Z_scope.

Definition hexchar (d : Z) : Z := if d <? 10 then 48 + d else 87 + d.
Definition u00 (b : Z) : bytes := [92; 117; 48; 48; hexchar (b / 16); hexchar (b mod 16)].

Fixpoint jescape_f (fuel : nat) (s : bytes) : bytes :=
  match fuel with
  | O => []
  | S f =>
    match s with
    | [] => []
    | b :: r =>
      if b <? 128 then
        (if b =? 34 then [92; 34] else if b =? 92 then [92; 92]
         else if b =? 10 then [92; 110] else if b =? 13 then [92; 114] else if b =? 9 then [92; 116]
         else if b =? 8 then [92; 98] else if b =? 12 then [92; 102]
         else if (b <? 32) || (b =? 60) || (b =? 62) || (b =? 38) || (b =? 127) then u00 b
         else [b]) ++ jescape_f f r
      else
        let '(c, sz) := decode_rune s in
        let rest := skipn (Z.to_nat sz) s in
        if (c =? RuneError) && (sz =? 1) then [92; 117; 102; 102; 102; 100] ++ jescape_f f rest
        else if (c =? 8232) then [92; 117; 50; 48; 50; 56] ++ jescape_f f rest
        else if (c =? 8233) then [92; 117; 50; 48; 50; 57] ++ jescape_f f rest
        else firstn (Z.to_nat sz) s ++ jescape_f f rest
    end
  end.
Definition jquote (s : bytes) : bytes := 34 :: jescape_f (length s) s ++ [34].

(* insertion sort of members by key (byte order) *)
Fixpoint insert_kv {A} (kv : bytes * A) (l : list (bytes * A)) : list (bytes * A) :=
  match l with
  | [] => [kv]
  | x :: r => if bltb (fst kv) (fst x) then kv :: l else x :: insert_kv kv r
  end.
Definition sort_kv {A} (l : list (bytes * A)) : list (bytes * A) := fold_right insert_kv [] l.

Definition jnum (n : num) : outcome bytes :=
  match n with
  | NJson t => match t with
               | [] => Ok [48]   (* encoding/json writes an empty json.Number as 0 *)
               | _ => if json_number_ok t then Ok t else Err EStringConversion
               end
  | NInt _ z => Ok (Z_to_bytes z)
  | NDec d => match d with DFin _ _ _ => Unmodelled | _ => Err EStringConversion end
  | NFloat _ f => match f with FInf _ | FNaN => Err EStringConversion | _ => Unmodelled end
  end.

Fixpoint intercalate (sep : bytes) (l : list bytes) : bytes :=
  match l with
  | [] => []
  | [x] => x
  | x :: r => x ++ sep ++ intercalate sep r
  end.

Fixpoint jprint (v : value) : outcome bytes :=
  match v with
  | VNull => Ok [110; 117; 108; 108]
  | VBool true => Ok [116; 114; 117; 101]
  | VBool false => Ok [102; 97; 108; 115; 101]
  | VStr s => Ok (jquote s)
  | VNum n => jnum n
  | VArr l =>
    do parts <- (fix go (l : list value) : outcome (list bytes) :=
                   match l with
                   | [] => Ok []
                   | x :: r => do p <- jprint x; do ps <- go r; Ok (p :: ps)
                   end) l;
    Ok (91 :: intercalate [44] parts ++ [93])
  | VObj m =>
    do parts <- (fix go (l : list (bytes * value)) : outcome (list (bytes * bytes)) :=
                   match l with
                   | [] => Ok []
                   | (k, x) :: r => do p <- jprint x; do ps <- go r; Ok ((k, p) :: ps)
                   end) m;
    Ok (123 :: intercalate [44] (map (fun kp => jquote (fst kp) ++ 58 :: snd kp) (sort_kv parts)) ++ [125])
  | VForeign _ => Unmodelled
  end.
