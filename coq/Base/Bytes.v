(* Go strings are byte sequences: list Z with every element in [0,256). *)
From Coq Require Import List ZArith Bool String Ascii Lia.
From JM Require Import Base.Outcome.
Import ListNotations.
Open Scope Z_scope.

Definition bs (s : string) : bytes :=
  List.map (fun a => Z.of_N (N_of_ascii a)) (list_ascii_of_string s).

Definition byte_ok (b : Z) : bool := (0 <=? b) && (b <? 256).
Definition bytes_ok (s : bytes) : bool := forallb byte_ok s.

Fixpoint beqb (a b : bytes) : bool :=
  match a, b with
  | [], [] => true
  | x :: a', y :: b' => (x =? y) && beqb a' b'
  | _, _ => false
  end.

Lemma beqb_eq a b : beqb a b = true <-> a = b.
Proof.
  revert b; induction a as [|x a IH]; destruct b as [|y b]; simpl; split; try congruence; try discriminate.
  - intros H. apply andb_true_iff in H as [H1 H2]. apply Z.eqb_eq in H1. apply IH in H2. congruence.
  - intros H. inversion H; subst. rewrite Z.eqb_refl. simpl. apply IH. reflexivity.
Qed.

Lemma beqb_refl a : beqb a a = true. Proof. apply beqb_eq; reflexivity. Qed.

(* Go's string comparison: lexicographic on bytes *)
Fixpoint bcmp (a b : bytes) : comparison :=
  match a, b with
  | [], [] => Eq
  | [], _ :: _ => Lt
  | _ :: _, [] => Gt
  | x :: a', y :: b' => match x ?= y with Eq => bcmp a' b' | c => c end
  end.
Definition bltb (a b : bytes) : bool := match bcmp a b with Lt => true | _ => false end.
Definition bgtb (a b : bytes) : bool := match bcmp a b with Gt => true | _ => false end.

Definition blen (s : bytes) : Z := Z.of_nat (List.length s).

(* s[i:j] with Go's bounds check (0 <= i <= j <= len) *)
Definition bslice (s : bytes) (i j : Z) : outcome bytes :=
  if (0 <=? i) && (i <=? j) && (j <=? blen s)
  then Ok (firstn (Z.to_nat (j - i)) (skipn (Z.to_nat i) s))
  else Panic PSliceBounds.

Fixpoint is_prefix (p s : bytes) : bool :=
  match p, s with
  | [], _ => true
  | x :: p', y :: s' => (x =? y) && is_prefix p' s'
  | _ :: _, [] => false
  end.

(* strings.Index: byte offset of the first occurrence, -1 if none *)
Fixpoint index_from (s p : bytes) (off : Z) : Z :=
  if is_prefix p s then off else
  match s with
  | [] => -1
  | _ :: s' => index_from s' p (off + 1)
  end.
Definition bindex (s p : bytes) : Z := index_from s p 0.

(* strings.LastIndex *)
Fixpoint last_index_from (s p : bytes) (off : Z) (best : Z) : Z :=
  let best' := if is_prefix p s then off else best in
  match s with
  | [] => best'
  | _ :: s' => last_index_from s' p (off + 1) best'
  end.
Definition blast_index (s p : bytes) : Z := last_index_from s p 0 (-1).

Definition bhas_prefix (s p : bytes) : bool := is_prefix p s.
Definition bhas_suffix (s p : bytes) : bool := is_prefix (rev p) (rev s).
Definition bcontains (s p : bytes) : bool := 0 <=? bindex s p.

(* decoding of hexadecimal text, used by generated case files *)
Definition hexval (a : ascii) : Z :=
  let n := Z.of_N (N_of_ascii a) in
  if (48 <=? n) && (n <=? 57) then n - 48
  else if (97 <=? n) && (n <=? 102) then n - 87
  else if (65 <=? n) && (n <=? 70) then n - 55 else 0.
Fixpoint hex (s : string) : bytes :=
  match s with
  | String a (String b r) => (hexval a * 16 + hexval b) :: hex r
  | _ => []
  end.
