(* Go's int is 64 bits on the platforms the library is built for. *)
From Coq Require Import ZArith Lia.
Open Scope Z_scope.

Definition MaxInt : Z := 9223372036854775807.
Definition MinInt : Z := -9223372036854775808.
Definition two64 : Z := 18446744073709551616.
Definition two63 : Z := 9223372036854775808.

Definition wrap64 (z : Z) : Z := ((z + two63) mod two64) - two63.
Definition in_int (z : Z) : bool := (MinInt <=? z) && (z <=? MaxInt).

Lemma wrap64_id z : MinInt <= z <= MaxInt -> wrap64 z = z.
Proof.
  unfold wrap64, MinInt, MaxInt, two63, two64. intros H.
  rewrite Z.mod_small by lia. lia.
Qed.

Lemma wrap64_range z : MinInt <= wrap64 z <= MaxInt.
Proof.
  unfold wrap64, MinInt, MaxInt, two63, two64.
  pose proof (Z.mod_pos_bound (z + 9223372036854775808) 18446744073709551616 ltac:(lia)). lia.
Qed.
