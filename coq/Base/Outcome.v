(* Outcomes of modelled Go calls: value, error, panic, or model fuel exhausted. *)
From Coq Require Import List ZArith.
Import ListNotations.

Definition bytes := list Z.

(* internal Go error values, one constructor per error type / sentinel *)
Inductive err :=
| ELexInvalidRune | ELexEOF | ELexUnexpectedRune (r : Z)
| EUnexpectedToken (s : bytes) | EInvalidIndex (s : bytes)
| EInvalidJSONLiteral (s : bytes) | EInvalidQuoted (s : bytes)
| EInvalidFunctionArgument (f : bytes) | EInvalidFunctionCall (f : bytes)
| EInvalidSliceStep | EUnknownFunction (f : bytes)
| EInvalidType | EIntegerConversion | ENegativeInteger | EPadLength
| EFromItemsLength | EFromItemsKeyType
| EInfinity | ENotANumber | EUndefinedVariable (name : bytes)
| EStringConversion | EUnexpectedOperation.

Inductive panic_kind :=
| PSliceBounds | PIndexRange | PMakeLen | PNilDeref | PDecInt64NaN | PTypeAssert | PDivZero.

Inductive outcome (A : Type) :=
| Ok (a : A) | Err (e : err) | Panic (p : panic_kind) | OutOfFuel
| Unmodelled. (* the model does not determine the result (e.g. inexact binary float arithmetic) *)
Arguments Ok {A} a. Arguments Err {A} e. Arguments Panic {A} p. Arguments OutOfFuel {A}. Arguments Unmodelled {A}.

Definition bind {A B} (o : outcome A) (f : A -> outcome B) : outcome B :=
  match o with Ok a => f a | Err e => Err e | Panic p => Panic p | OutOfFuel => OutOfFuel | Unmodelled => Unmodelled end.
Notation "'do' x <- o ; k" := (bind o (fun x => k)) (at level 200, x pattern, o at level 100, k at level 200).

Definition omap {A B} (f : A -> B) (o : outcome A) : outcome B := bind o (fun a => Ok (f a)).

Definition is_panic {A} (o : outcome A) : bool := match o with Panic _ => true | _ => false end.
Definition is_ok {A} (o : outcome A) : bool := match o with Ok _ => true | _ => false end.

(* map a fallible function over a list, left to right, stopping at the first failure *)
Fixpoint mapM {A B} (f : A -> outcome B) (l : list A) : outcome (list B) :=
  match l with
  | [] => Ok []
  | x :: xs => do y <- f x; do ys <- mapM f xs; Ok (y :: ys)
  end.
