(* Model of the four unicode/utf8 functions the library uses, on byte lists.
   DecodeRuneInString, DecodeLastRuneInString, RuneCountInString, AppendRune. *)
From Coq Require Import List ZArith Bool Lia.
From JM Require Import Base.Outcome Base.Bytes.
Import ListNotations.
Open Scope Z_scope.

Definition RuneError : Z := 65533.

Definition is_cont (b : Z) : bool := (128 <=? b) && (b <=? 191).
Definition inr (lo hi b : Z) : bool := (lo <=? b) && (b <=? hi).

(* utf8.DecodeRuneInString: (rune, size); size 0 only on empty input *)
Definition decode_rune (s : bytes) : Z * Z :=
  match s with
  | [] => (RuneError, 0)
  | b0 :: r =>
    if b0 <? 128 then (b0, 1) else
    if inr 194 223 b0 then
      match r with
      | b1 :: _ => if is_cont b1 then ((b0 - 192) * 64 + (b1 - 128), 2) else (RuneError, 1)
      | _ => (RuneError, 1)
      end
    else if inr 224 239 b0 then
      match r with
      | b1 :: b2 :: _ =>
        let lo := if b0 =? 224 then 160 else 128 in
        let hi := if b0 =? 237 then 159 else 191 in
        if inr lo hi b1 && is_cont b2
        then ((b0 - 224) * 4096 + (b1 - 128) * 64 + (b2 - 128), 3) else (RuneError, 1)
      | _ => (RuneError, 1)
      end
    else if inr 240 244 b0 then
      match r with
      | b1 :: b2 :: b3 :: _ =>
        let lo := if b0 =? 240 then 144 else 128 in
        let hi := if b0 =? 244 then 143 else 191 in
        if inr lo hi b1 && is_cont b2 && is_cont b3
        then ((b0 - 240) * 262144 + (b1 - 128) * 4096 + (b2 - 128) * 64 + (b3 - 128), 4)
        else (RuneError, 1)
      | _ => (RuneError, 1)
      end
    else (RuneError, 1)
  end.

Definition is_surrogate (r : Z) : bool := (55296 <=? r) && (r <=? 57343).
Definition scalar_ok (r : Z) : bool := (0 <=? r) && (r <=? 1114111) && negb (is_surrogate r).

(* utf8.AppendRune / strings.Builder.WriteRune *)
Definition encode_rune (r : Z) : bytes :=
  if negb (scalar_ok r) then [239; 191; 189] else
  if r <? 128 then [r] else
  if r <? 2048 then [192 + r / 64; 128 + r mod 64] else
  if r <? 65536 then [224 + r / 4096; 128 + (r / 64) mod 64; 128 + r mod 64] else
  [240 + r / 262144; 128 + (r / 4096) mod 64; 128 + (r / 64) mod 64; 128 + r mod 64].

(* forward segmentation of a Go string into runes (invalid bytes -> U+FFFD, width 1) *)
Fixpoint runes_f (fuel : nat) (s : bytes) : list Z :=
  match fuel with
  | O => []
  | S f =>
    match s with
    | [] => []
    | _ => let '(r, sz) := decode_rune s in r :: runes_f f (skipn (Z.to_nat sz) s)
    end
  end.
Definition runes (s : bytes) : list Z := runes_f (length s) s.

(* the same segmentation keeping the byte chunks *)
Fixpoint chunks_f (fuel : nat) (s : bytes) : list bytes :=
  match fuel with
  | O => []
  | S f =>
    match s with
    | [] => []
    | _ => let '(_, sz) := decode_rune s in
           firstn (Z.to_nat sz) s :: chunks_f f (skipn (Z.to_nat sz) s)
    end
  end.
Definition chunks (s : bytes) : list bytes := chunks_f (length s) s.

Definition rune_count (s : bytes) : Z := Z.of_nat (length (runes s)).

Definition encode_all (rs : list Z) : bytes := flat_map encode_rune rs.

(* an invalid byte decodes to U+FFFD with width 1 and re-encodes as three bytes,
   so re-encoding reproduces the input exactly on valid UTF-8 *)
Definition valid_utf8 (s : bytes) : bool := beqb (encode_all (runes s)) s.

Definition rune_start (b : Z) : bool := negb (is_cont b).

(* utf8.DecodeLastRuneInString *)
Definition decode_last_rune (s : bytes) : Z * Z :=
  let n := blen s in
  if n =? 0 then (RuneError, 0) else
  let last := nth (Z.to_nat (n - 1)) s 0 in
  if last <? 128 then (last, 1) else
  let lim := Z.max 0 (n - 4) in
  (* scan start from n-2 down to lim for a rune-start byte *)
  let fix scan (k : nat) (start : Z) : Z :=
      match k with
      | O => start
      | S k' => if start <? lim then start
                else if rune_start (nth (Z.to_nat start) s 0) then start
                else scan k' (start - 1)
      end in
  let start0 := scan 4%nat (n - 2) in
  let start := if start0 <? 0 then 0 else start0 in
  let '(r, sz) := decode_rune (skipn (Z.to_nat start) s) in
  if start + sz =? n then (r, sz) else (RuneError, 1).

(* backward segmentation *)
Fixpoint runes_rev_f (fuel : nat) (s : bytes) : list Z :=
  match fuel with
  | O => []
  | S f =>
    match s with
    | [] => []
    | _ => let '(r, sz) := decode_last_rune s in
           r :: runes_rev_f f (firstn (length s - Z.to_nat sz) s)
    end
  end.
Definition runes_rev (s : bytes) : list Z := runes_rev_f (length s) s.
