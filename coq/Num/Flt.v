(* Partial model of binary64: exact dyadic values only.  An operation whose exact
   result is not representable yields None (the model does not determine it). *)
From Coq Require Import List ZArith Bool Lia.
From JM Require Import Base.Outcome Base.Bytes Num.Dec.
Open Scope Z_scope.

Inductive flt := FFin (m e : Z) (* m * 2^e *) | FNegZero | FInf (neg : bool) | FNaN.

Fixpoint strip2_f (fuel : nat) (m e : Z) : Z * Z :=
  match fuel with
  | O => (m, e)
  | S f => if (m =? 0) then (0, 0) else if Z.even m then strip2_f f (m / 2) (e + 1) else (m, e)
  end.
Definition fnorm (m e : Z) : Z * Z := strip2_f (S (Z.to_nat (Z.log2 (Z.abs m)))) m e.

(* representable in binary64 (normal or subnormal), given odd m *)
Definition f64_ok (m e : Z) : bool :=
  let bits := Z.log2 (Z.abs m) + 1 in
  if m =? 0 then true else
  (bits <=? 53) && (-1074 <=? e) && (e + bits <=? 1024).
Definition f32_ok (m e : Z) : bool :=
  let bits := Z.log2 (Z.abs m) + 1 in
  if m =? 0 then true else
  (bits <=? 24) && (-149 <=? e) && (e + bits <=? 128).

Definition fmk (m e : Z) : option flt :=
  let '(m', e') := fnorm m e in if f64_ok m' e' then Some (FFin m' e') else None.

Definition falign (m1 e1 m2 e2 : Z) : Z * Z * Z :=
  let e := Z.min e1 e2 in (m1 * 2 ^ (e1 - e), m2 * 2 ^ (e2 - e), e).

Definition fneg (x : flt) : flt :=
  match x with
  | FFin m e => if m =? 0 then FNegZero else FFin (- m) e
  | FNegZero => FFin 0 0 | FInf n => FInf (negb n) | FNaN => FNaN end.
Definition fabs (x : flt) : flt :=
  match x with FFin m e => FFin (Z.abs m) e | FNegZero => FFin 0 0 | FInf _ => FInf false | FNaN => FNaN end.
Definition fz (x : flt) : flt := match x with FNegZero => FFin 0 0 | _ => x end.
Definition f_is_zero (x : flt) : bool := match x with FFin m _ => m =? 0 | FNegZero => true | _ => false end.
Definition f_isneg (x : flt) : bool := match x with FFin m _ => m <? 0 | FNegZero => true | FInf n => n | FNaN => false end.

Definition fadd (x y : flt) : option flt :=
  match x, y with
  | FNaN, _ | _, FNaN => Some FNaN
  | FInf a, FInf b => if Bool.eqb a b then Some (FInf a) else Some FNaN
  | FInf a, _ => Some (FInf a) | _, FInf b => Some (FInf b)
  | FNegZero, FNegZero => Some FNegZero
  | _, _ =>
    match fz x, fz y with
    | FFin m1 e1, FFin m2 e2 => let '(a, b, e) := falign m1 e1 m2 e2 in fmk (a + b) e
    | _, _ => None
    end
  end.
Definition fsub (x y : flt) : option flt := fadd x (fneg y).
Definition fmul (x y : flt) : option flt :=
  match x, y with
  | FNaN, _ | _, FNaN => Some FNaN
  | FInf a, _ => if f_is_zero y then Some FNaN else Some (FInf (xorb a (f_isneg y)))
  | _, FInf b => if f_is_zero x then Some FNaN else Some (FInf (xorb b (f_isneg x)))
  | _, _ =>
    if f_is_zero x || f_is_zero y then Some (if xorb (f_isneg x) (f_isneg y) then FNegZero else FFin 0 0) else
    match x, y with
    | FFin m1 e1, FFin m2 e2 => fmk (m1 * m2) (e1 + e2)
    | _, _ => None
    end
  end.
Definition fdiv (x y : flt) : option flt :=
  match x, y with
  | FNaN, _ | _, FNaN => Some FNaN
  | FInf a, FInf _ => Some FNaN
  | FInf a, _ => Some (FInf (xorb a (f_isneg y)))
  | _, FInf b => Some (if xorb b (f_isneg x) then FNegZero else FFin 0 0)
  | _, _ =>
    if f_is_zero y then (if f_is_zero x then Some FNaN else Some (FInf (xorb (f_isneg x) (f_isneg y)))) else
    if f_is_zero x then Some (if xorb (f_isneg x) (f_isneg y) then FNegZero else FFin 0 0) else
    match x, y with
    | FFin m1 e1, FFin m2 e2 =>
      (* exact iff the odd part of m2 divides m1 *)
      let '(o2, k2) := fnorm m2 0 in
      if m1 mod o2 =? 0 then fmk (m1 / o2) (e1 - e2 - k2) else None
    | _, _ => None
    end
  end.

Definition ffloor (x : flt) : flt :=
  match x with
  | FFin m e => if 0 <=? e then x else let q := m / 2 ^ (- e) in (if (q =? 0) && (m <? 0) then FNegZero else FFin q 0)
  | _ => x end.
Definition fceil (x : flt) : flt :=
  match x with
  | FFin m e => if 0 <=? e then x else let q := - ((- m) / 2 ^ (- e)) in (if (q =? 0) && (m <? 0) then FNegZero else FFin q 0)
  | _ => x end.

(* math.Mod: result has the sign of x, exact whenever both are finite *)
Definition fmod (x y : flt) : option flt :=
  match x, y with
  | FNaN, _ | _, FNaN => Some FNaN
  | FInf _, _ => Some FNaN
  | _, FInf _ => Some x
  | _, _ =>
    if f_is_zero y then Some FNaN else
    if f_is_zero x then Some x else
    match x, y with
    | FFin m1 e1, FFin m2 e2 =>
      let '(a, b, e) := falign m1 e1 m2 e2 in
      let r := Z.rem a b in
      if r =? 0 then Some (if m1 <? 0 then FNegZero else FFin 0 0) else fmk r e
    | _, _ => None
    end
  end.

Definition f_is_inf (x : flt) : bool := match x with FInf _ => true | _ => false end.
Definition f_is_nan (x : flt) : bool := match x with FNaN => true | _ => false end.

(* decimal128.FromFloat64: exact decimal expansion, rounded to 34 digits *)
Definition dec_of_flt (x : flt) : dec :=
  match x with
  | FNaN => DNaN | FInf n => DInf n | FNegZero => DFin true 0 0
  | FFin m e => if 0 <=? e then fit (m <? 0) (Z.abs m * 2 ^ e) 0
                else fit (m <? 0) (Z.abs m * 5 ^ (- e)) e
  end.

(* integral value of a float, if any *)
Definition flt_int (x : flt) : option Z :=
  match x with
  | FFin m e => if 0 <=? e then Some (m * 2 ^ e) else if m mod 2 ^ (- e) =? 0 then Some (m / 2 ^ (- e)) else None
  | FNegZero => Some 0
  | _ => None
  end.
