(* Specification-level model of github.com/woodsbury/decimal128 (a dependency:
   modelled, not verified).  A finite decimal is (-1)^neg * c * 10^e; every
   operation is the exact result followed by one rounding to nearest-even at 34
   significant digits within the decimal128 exponent range. *)
From Coq Require Import List ZArith Bool Lia.
From JM Require Import Base.Outcome Base.Bytes.
Import ListNotations.
Open Scope Z_scope.

Inductive dec := DFin (neg : bool) (c : Z) (e : Z) | DInf (neg : bool) | DNaN.

Definition prec34 : Z := 34.
Definition emax : Z := 6111.
Definition emin : Z := -6176.

Fixpoint digits_f (fuel : nat) (c : Z) : Z :=
  match fuel with
  | O => 0
  | S f => if c <=? 0 then 0 else 1 + digits_f f (c / 10)
  end.
(* number of decimal digits of c > 0; 0 for c <= 0 *)
Definition digits (c : Z) : Z := digits_f (S (Z.to_nat (Z.log2 c))) c.

Definition pow10 (k : Z) : Z := 10 ^ k.

(* drop k >= 1 low digits of c, rounding half to even *)
Definition drop_digits (c k : Z) : Z :=
  let p := pow10 k in
  let q := c / p in
  let r := c mod p in
  let half := 5 * pow10 (k - 1) in
  if r >? half then q + 1
  else if r =? half then (if Z.even q then q else q + 1)
  else q.

(* round the coefficient to at most 34 digits *)
Definition round_coef (c e : Z) : Z * Z :=
  let d := digits c in
  if d <=? prec34 then (c, e) else
  let k := d - prec34 in
  let q := drop_digits c k in
  if digits q >? prec34 then (q / 10, e + k + 1) else (q, e + k).

(* bring the exponent into range: clamp upward by padding zeros, downward by
   subnormal rounding; overflow gives infinity *)
Definition fit (neg : bool) (c e : Z) : dec :=
  let '(c, e) := round_coef c e in
  if c =? 0 then DFin neg 0 (Z.max emin (Z.min emax e)) else
  if e >? emax then
    let k := e - emax in
    if digits c + k <=? prec34 then DFin neg (c * pow10 k) emax else DInf neg
  else if e <? emin then
    let k := emin - e in
    if k >? 40 then DFin neg 0 emin else DFin neg (drop_digits c k) emin
  else DFin neg c e.

Definition dec_zero : dec := DFin false 0 0.
Definition dec_of_Z (z : Z) : dec := fit (z <? 0) (Z.abs z) 0.

Definition is_nan (d : dec) : bool := match d with DNaN => true | _ => false end.
Definition is_inf (d : dec) : bool := match d with DInf _ => true | _ => false end.
Definition is_zero (d : dec) : bool := match d with DFin _ c _ => c =? 0 | _ => false end.
Definition dec_neg (d : dec) : dec :=
  match d with DFin n c e => DFin (negb n) c e | DInf n => DInf (negb n) | DNaN => DNaN end.
Definition dec_abs (d : dec) : dec :=
  match d with DFin _ c e => DFin false c e | DInf _ => DInf false | DNaN => DNaN end.

Definition sgn (neg : bool) (c : Z) : Z := if neg then - c else c.

(* exact alignment of two finite decimals on the smaller exponent *)
Definition align (c1 e1 c2 e2 : Z) : Z * Z * Z :=
  let e := Z.min e1 e2 in (c1 * pow10 (e1 - e), c2 * pow10 (e2 - e), e).

Definition dec_add (x y : dec) : dec :=
  match x, y with
  | DNaN, _ | _, DNaN => DNaN
  | DInf a, DInf b => if Bool.eqb a b then DInf a else DNaN
  | DInf a, _ => DInf a
  | _, DInf b => DInf b
  | DFin n1 c1 e1, DFin n2 c2 e2 =>
    let '(a, b, e) := align c1 e1 c2 e2 in
    let s := sgn n1 a + sgn n2 b in
    if s =? 0 then DFin (n1 && n2) 0 (Z.max emin (Z.min emax e))
    else fit (s <? 0) (Z.abs s) e
  end.
Definition dec_sub (x y : dec) : dec := dec_add x (dec_neg y).

Definition dec_mul (x y : dec) : dec :=
  match x, y with
  | DNaN, _ | _, DNaN => DNaN
  | DInf a, DInf b => DInf (xorb a b)
  | DInf a, DFin b c _ => if c =? 0 then DNaN else DInf (xorb a b)
  | DFin a c _, DInf b => if c =? 0 then DNaN else DInf (xorb a b)
  | DFin n1 c1 e1, DFin n2 c2 e2 => fit (xorb n1 n2) (c1 * c2) (e1 + e2)
  end.

Definition dec_quo (x y : dec) : dec :=
  match x, y with
  | DNaN, _ | _, DNaN => DNaN
  | DInf _, DInf _ => DNaN
  | DInf a, DFin b _ _ => DInf (xorb a b)
  | DFin a _ _, DInf b => DFin (xorb a b) 0 0
  | DFin n1 c1 e1, DFin n2 c2 e2 =>
    if c2 =? 0 then (if c1 =? 0 then DNaN else DInf (xorb n1 n2)) else
    if c1 =? 0 then DFin (xorb n1 n2) 0 (Z.max emin (Z.min emax (e1 - e2))) else
    let k := Z.max 0 (prec34 + 3 + digits c2 - digits c1) in
    let num := c1 * pow10 k in
    let q := num / c2 in
    let r := num mod c2 in
    if r =? 0 then fit (xorb n1 n2) q (e1 - e2 - k)
    else fit (xorb n1 n2) (q * 10 + 1) (e1 - e2 - k - 1)
  end.

(* QuoRem: integer quotient truncated toward zero, and the matching remainder *)
Definition dec_quorem (x y : dec) : dec * dec :=
  match x, y with
  | DNaN, _ | _, DNaN => (DNaN, DNaN)
  | DInf _, DInf _ => (DNaN, DNaN)
  | DInf a, DFin b _ _ => (DInf (xorb a b), DNaN)
  | DFin n1 c1 e1, DInf n2 => (DFin (xorb n1 n2) 0 0, x)
  | DFin n1 c1 e1, DFin n2 c2 e2 =>
    if c2 =? 0 then (if c1 =? 0 then (DNaN, DNaN) else (DInf (xorb n1 n2), DNaN)) else
    let '(a, b, e) := align c1 e1 c2 e2 in
    let q := a / b in
    let r := a mod b in
    (fit (xorb n1 n2) q 0, fit n1 r e)
  end.

Inductive cmpres := CLt | CEq | CGt | CUnordered.

Definition dec_cmp (x y : dec) : cmpres :=
  match x, y with
  | DNaN, _ | _, DNaN => CUnordered
  | DInf a, DInf b => if Bool.eqb a b then CEq else if a then CLt else CGt
  | DInf a, _ => if a then CLt else CGt
  | _, DInf b => if b then CGt else CLt
  | DFin n1 c1 e1, DFin n2 c2 e2 =>
    let '(a, b, _) := align c1 e1 c2 e2 in
    match sgn n1 a ?= sgn n2 b with Lt => CLt | Eq => CEq | Gt => CGt end
  end.
Definition dec_equal (x y : dec) : bool := match dec_cmp x y with CEq => true | _ => false end.
Definition dec_less (x y : dec) : bool := match dec_cmp x y with CLt => true | _ => false end.
Definition dec_greater (x y : dec) : bool := match dec_cmp x y with CGt => true | _ => false end.
Definition dec_le (x y : dec) : bool := match dec_cmp x y with CLt | CEq => true | _ => false end.
Definition dec_ge (x y : dec) : bool := match dec_cmp x y with CGt | CEq => true | _ => false end.
(* decimal128.Compare: a total order used by sort; NaN sorts first *)
Definition dec_compare (x y : dec) : comparison :=
  match dec_cmp x y with
  | CLt => Lt | CEq => Eq | CGt => Gt
  | CUnordered => match is_nan x, is_nan y with true, true => Eq | true, false => Lt | _, _ => Gt end
  end.

Definition dec_floor (d : dec) : dec :=
  match d with
  | DFin n c e =>
    if 0 <=? e then d else
    let p := pow10 (- e) in
    let q := c / p in let r := c mod p in
    if n then DFin n (if r =? 0 then q else q + 1) 0 else DFin n q 0
  | _ => d
  end.
Definition dec_ceil (d : dec) : dec :=
  match d with
  | DFin n c e =>
    if 0 <=? e then d else
    let p := pow10 (- e) in
    let q := c / p in let r := c mod p in
    if n then DFin n q 0 else DFin n (if r =? 0 then q else q + 1) 0
  | _ => d
  end.

(* Decimal.Int64: truncation toward zero; (value, in-range); panics on NaN *)
Definition dec_int64 (d : dec) : outcome (Z * bool) :=
  match d with
  | DNaN => Panic PDecInt64NaN
  | DInf n => Ok ((if n then -9223372036854775808 else 9223372036854775807), false)
  | DFin n c e =>
    let v := if 0 <=? e then (if e >? 40 then (if c =? 0 then 0 else pow10 60) else c * pow10 e)
             else (if e <? -80 then 0 else c / pow10 (- e)) in
    let z := sgn n v in
    if z <? -9223372036854775808 then Ok (-9223372036854775808, false)
    else if z >? 9223372036854775807 then Ok (9223372036854775807, false)
    else Ok (z, true)
  end.

(* is the decimal an integer value? *)
Definition dec_is_integral (d : dec) : bool :=
  match d with
  | DFin _ c e => if 0 <=? e then true else if e <? -80 then c =? 0 else c mod pow10 (- e) =? 0
  | _ => false
  end.

(* ---- parsing of number text (the JSON number grammar plus the extras the
   package accepts: leading '+', "inf"/"infinity"/"nan" in any case) ---- *)
Definition is_digit (b : Z) : bool := (48 <=? b) && (b <=? 57).

Fixpoint take_digits (s : bytes) (acc : Z) (n : Z) : Z * Z * bytes :=
  match s with
  | b :: r => if is_digit b then take_digits r (acc * 10 + (b - 48)) (n + 1) else (acc, n, s)
  | [] => (acc, n, s)
  end.

Definition lower_byte (b : Z) : Z := if (65 <=? b) && (b <=? 90) then b + 32 else b.

Definition parse_dec_body (neg : bool) (s : bytes) : option dec :=
  let low := map lower_byte s in
  if beqb low [105; 110; 102] || beqb low [105;110;102;105;110;105;116;121] then Some (DInf neg) else
  if beqb low [110; 97; 110] then Some DNaN else
  let '(ip, ni, r1) := take_digits s 0 0 in
  let '(c, nf, nd, r2) :=
    match r1 with
    | 46 :: r => let '(fp, nfr, r') := take_digits r ip 0 in (fp, nfr, ni + nfr, r')
    | _ => (ip, 0, ni, r1)
    end in
  (* no digit at all: the package still accepts a lone decimal point (".", "-.", "+.") as zero *)
  if nd =? 0 then (match r1, r2 with 46 :: _, [] => Some (DFin neg 0 0) | _, _ => None end) else
  match r2 with
  | [] => match fit neg c (- nf) with DInf _ => None (* range error *) | d => Some d end
  | b :: r =>
    if (b =? 101) || (b =? 69) then
      let '(eneg, r') := match r with 45 :: t => (true, t) | 43 :: t => (false, t) | _ => (false, r) end in
      let '(ev, ne, r'') := take_digits r' 0 0 in
      if (ne =? 0) || negb (match r'' with [] => true | _ => false end) then None
      else if ne >? 8 then (if c =? 0 then Some (DFin neg 0 0) else if eneg then Some (DFin neg 0 emin) else None)
      else
        let e := (if eneg then - ev else ev) - nf in
        match fit neg c e with
        | DInf _ => None (* range error *)
        | d => Some d
        end
    else None
  end.

Definition parse_dec_plain (s : bytes) : option dec :=
  match s with
  | [] => None
  | 43 :: r => match r with [] => None | _ => parse_dec_body false r end
  | 45 :: r => match r with [] => None | _ => parse_dec_body true r end
  | _ => parse_dec_body false s
  end.

(* the package accepts '_' as a digit separator: each one directly after a
   digit and never last ("1_000", "1_.5", "1e1_0"; not "_1", "1__0", "1_").
   [strip_us prev s]: the text without separators, [prev] = the previous byte
   was a digit *)
Fixpoint strip_us (prev : bool) (s : bytes) : option bytes :=
  match s with
  | [] => Some []
  | 95 :: r => if prev then match r with [] => None | _ => strip_us false r end else None
  | b :: r => match strip_us (is_digit b) r with Some r' => Some (b :: r') | None => None end
  end.

Definition parse_dec (s : bytes) : option dec :=
  match strip_us false s with Some s' => parse_dec_plain s' | None => None end.

(* RFC 8259 number grammar (what encoding/json accepts for json.Number) *)
Definition json_number_ok (s : bytes) : bool :=
  let s1 := match s with 45 :: r => r | _ => s end in
  let ok_int :=
    match s1 with
    | 48 :: r => Some r
    | b :: r => if (49 <=? b) && (b <=? 57) then let '(_, _, r') := take_digits r 0 0 in Some r' else None
    | [] => None
    end in
  match ok_int with
  | None => false
  | Some r1 =>
    let ok_frac :=
      match r1 with
      | 46 :: r => let '(_, n, r') := take_digits r 0 0 in if n =? 0 then None else Some r'
      | _ => Some r1
      end in
    match ok_frac with
    | None => false
    | Some r2 =>
      match r2 with
      | [] => true
      | b :: r =>
        if (b =? 101) || (b =? 69) then
          let r' := match r with 45 :: t => t | 43 :: t => t | _ => r end in
          let '(_, n, r'') := take_digits r' 0 0 in
          negb (n =? 0) && match r'' with [] => true | _ => false end
        else false
      end
    end
  end.

(* ---- printing ---- *)
Fixpoint digits_of_f (fuel : nat) (c : Z) (acc : bytes) : bytes :=
  match fuel with
  | O => acc
  | S f => if c <? 10 then (48 + c) :: acc else digits_of_f f (c / 10) ((48 + c mod 10) :: acc)
  end.
Definition digits_of (c : Z) : bytes := digits_of_f (S (Z.to_nat (Z.log2 c))) (Z.abs c) [].
Definition Z_to_bytes (z : Z) : bytes := if z <? 0 then 45 :: digits_of (- z) else digits_of z.

(* strip trailing zeros of the coefficient: the package prints the digits of the
   stored significand; our canonical value printing is only used to compare by value *)
Definition dec_value_eq (x y : dec) : bool :=
  match x, y with
  | DNaN, DNaN => true
  | _, _ => dec_equal x y
  end.

(* relative closeness: |x - y| <= 10^-33 * max(|x|,|y|) ; used to compare
   rounded results of the real package with this specification-level model *)
Definition dec_close (x y : dec) : bool :=
  match x, y with
  | DFin n1 c1 e1, DFin n2 c2 e2 =>
    let '(a, b, _) := align c1 e1 c2 e2 in
    let a := sgn n1 a in let b := sgn n2 b in
    Z.abs (a - b) * pow10 33 <=? Z.max (Z.abs a) (Z.abs b)
  | _, _ => dec_value_eq x y
  end.
