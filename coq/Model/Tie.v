(* The tie between the hand-written model and the tables that tools/gotrans
   regenerates from the current sources on every run (Gen/Generated.v).  Each
   lemma is a closed boolean computation: a source edit that changes a binding
   power, a function signature, a node-kind set, an error-category mapping, a
   numeric kind list or introduces package-level mutable state makes one of
   them false, and the build of every property that depends on it fails. *)
From Coq Require Import List ZArith Bool String.
From JM Require Import Base.Outcome Base.Bytes Json.Value Model.Token Model.Ast Model.Parser Model.Api.
From JM Require Import Gen.Generated.
Import ListNotations.
Open Scope string_scope. Open Scope Z_scope.

Definition ttype_name (t : ttype) : string :=
  match t with
  | TUnknown => "UnknownToken" | TEnd => "EndToken"
  | TOpenBrace => "OpenBraceToken" | TCloseBrace => "CloseBraceToken"
  | TOpenParen => "OpenParenToken" | TCloseParen => "CloseParenToken"
  | TOpenSqBrace => "OpenSqBraceToken" | TCloseSqBrace => "CloseSqBraceToken"
  | TAdd => "AddToken" | TAnd => "AndToken" | TArrayWildcard => "ArrayWildcardToken"
  | TAssign => "AssignToken" | TAsterisk => "AsteriskToken" | TColon => "ColonToken"
  | TComma => "CommaToken" | TDivide => "DivideToken" | TDot => "DotToken"
  | TEqual => "EqualToken" | TFilter => "FilterToken" | TFlatten => "FlattenToken"
  | TIn => "InToken" | TGreater => "GreaterToken" | TGreaterOrEqual => "GreaterOrEqualToken"
  | TIntegerDivide => "IntegerDivideToken" | TLess => "LessToken" | TLessOrEqual => "LessOrEqualToken"
  | TLet => "LetToken" | TModulo => "ModuloToken" | TMultiply => "MultiplyToken"
  | TNot => "NotToken" | TNotEqual => "NotEqualToken" | TObjectWildcard => "ObjectWildcardToken"
  | TOr => "OrToken" | TPipe => "PipeToken" | TSubtract => "SubtractToken"
  | TCurrent => "CurrentToken" | TExpression => "ExpressionToken"
  | TIntegerLiteral => "IntegerLiteralToken" | TJSONLiteral => "JSONLiteralToken"
  | TQuotedIdentifier => "QuotedIdentifierToken" | TRoot => "RootToken"
  | TUnquotedIdentifier => "UnquotedIdentifierToken" | TStringLiteral => "StringLiteralToken"
  | TVariable => "VariableToken"
  end.

Fixpoint sassoc {A} (k : string) (l : list (string * A)) : option A :=
  match l with
  | [] => None
  | (k', v) :: r => if String.eqb k k' then Some v else sassoc k r
  end.
Fixpoint slist_eqb (a b : list string) : bool :=
  match a, b with
  | [], [] => true
  | x :: a', y :: b' => String.eqb x y && slist_eqb a' b'
  | _, _ => false
  end.

(* 1. the token enumeration is the one of token.go, in order *)
Definition tie_tokens_b : bool := slist_eqb gen_tokens (map ttype_name all_ttypes).
Lemma tie_tokens : tie_tokens_b = true. Proof. vm_compute. reflexivity. Qed.

(* 2. binding powers: every token type has the power the source gives it *)
Definition gen_prec_of (t : ttype) : Z :=
  match sassoc (ttype_name t) gen_precedence with
  | Some p => p
  | None => match sassoc "default" gen_precedence with Some p => p | None => -1 end
  end.
Definition tie_precedence_b : bool :=
  forallb (fun t => precedence t =? gen_prec_of t) all_ttypes
  && forallb (fun kv => existsb (fun t => String.eqb (fst kv) (ttype_name t)) all_ttypes || String.eqb (fst kv) "default") gen_precedence
  && (projection_precedence =? gen_projection_precedence).
Lemma tie_precedence : tie_precedence_b = true. Proof. vm_compute. reflexivity. Qed.

(* 3. binding powers used by prefix operators and by the projections that start a primary *)
Definition model_prefix_powers : list (string * string) :=
  [("AddToken", "expression:precedence(MultiplyToken)");
   ("ArrayWildcardToken", "projection:projectionPrecedence");
   ("AsteriskToken", "projection:projectionPrecedence");
   ("FilterToken", "projection:projectionPrecedence");
   ("FlattenToken", "projection:precedence(FlattenToken)");
   ("NotToken", "expression:precedence(NotToken)");
   ("OpenParenToken", "expression:1");
   ("OpenSqBraceToken", "projection:projectionPrecedence");
   ("SubtractToken", "expression:precedence(MultiplyToken)")].
Definition tie_prefix_b : bool :=
  slist_eqb (map (fun p => fst p ++ "=" ++ snd p) gen_prefix_powers)
            (map (fun p => fst p ++ "=" ++ snd p) model_prefix_powers).
Lemma tie_prefix : tie_prefix_b = true. Proof. vm_compute. reflexivity. Qed.

(* 3b. every binding power handed to a recursive call of the parser (expression / projection /
   continuation), per method and per switch case, in source order: the text the model's
   Parser.v was written against.  A change of any of them in the source breaks this lemma. *)
Definition model_call_powers : list (string * list string) := [("expression", [" continuation:prec"]);
  ("continuation", ["/AddToken expression:newPrec"; "/AndToken expression:newPrec"; "/ArrayWildcardToken projection:projectionPrecedence"; "/AsteriskToken,MultiplyToken expression:newPrec"; "/DivideToken expression:newPrec"; "/DotToken/QuotedIdentifierToken,UnquotedIdentifierToken expression:newPrec"; "/EqualToken expression:newPrec"; "/FilterToken projection:projectionPrecedence"; "/FlattenToken projection:newPrec"; "/GreaterToken expression:newPrec"; "/GreaterOrEqualToken expression:newPrec"; "/IntegerDivideToken expression:newPrec"; "/LessToken expression:newPrec"; "/LessOrEqualToken expression:newPrec"; "/ModuloToken expression:newPrec"; "/NotEqualToken expression:newPrec"; "/ObjectWildcardToken projection:projectionPrecedence"; "/OpenSqBraceToken projection:projectionPrecedence"; "/OrToken expression:newPrec"; "/PipeToken expression:newPrec"; "/SubtractToken expression:newPrec"]);
  ("filter", [" expression:1"]);
  ("function1Arg", [" expression:1"]);
  ("function1To2Arg", [" expression:1"; " expression:1"]);
  ("function2Arg", [" expression:1"; " expression:1"]);
  ("function2ExpArg", [" expression:1"; " expression:1"]);
  ("function2MapArg", [" expression:1"; " expression:1"]);
  ("function2To3Arg", [" expression:1"; " expression:1"; " expression:1"]);
  ("function2To4Arg", [" expression:1"; " expression:1"; " expression:1"; " expression:1"]);
  ("function3To4Arg", [" expression:1"; " expression:1"; " expression:1"; " expression:1"]);
  ("functionVarArg", [" expression:1"]);
  ("let", [" expression:1"; " expression:1"]);
  ("parse", [" expression:1"]);
  ("primaryExpression", ["/AddToken expression:precedence(MultiplyToken)"; "/ArrayWildcardToken projection:projectionPrecedence"; "/AsteriskToken projection:projectionPrecedence"; "/FilterToken projection:projectionPrecedence"; "/FlattenToken projection:precedence(FlattenToken)"; "/NotToken expression:precedence(NotToken)"; "/OpenParenToken expression:1"; "/OpenSqBraceToken projection:projectionPrecedence"; "/SubtractToken expression:precedence(MultiplyToken)"]);
  ("projection", ["/ArrayWildcardToken,DotToken,FilterToken,ObjectWildcardToken,OpenSqBraceToken continuation:prec"]);
  ("selectArray", [" expression:1"]);
  ("selectObject", [" expression:1"])].
Definition call_powers_flat (l : list (string * list string)) : list string :=
  flat_map (fun p => map (fun c => fst p ++ ":" ++ c) (snd p)) l.
Definition tie_call_powers_b : bool :=
  slist_eqb (call_powers_flat gen_call_powers) (call_powers_flat model_call_powers).
Lemma tie_call_powers : tie_call_powers_b = true. Proof. vm_compute. reflexivity. Qed.

(* 4. function table: name, argument parser, node constructors *)
Definition argparser_name (a : argparser) : string :=
  match a with
  | AP1 => "function1Arg" | AP1to2 => "function1To2Arg" | AP2 => "function2Arg"
  | AP2Exp => "function2ExpArg" | AP2Map => "function2MapArg" | AP2to3 => "function2To3Arg"
  | AP2to4 => "function2To4Arg" | AP3to4 => "function3To4Arg" | APVar => "functionVarArg"
  end.
Definition fn1_name (f : fn1) : string :=
  match f with
  | FAbs => "AbsNode" | FAvg => "AvgNode" | FCeil => "CeilNode" | FFloor => "FloorNode"
  | FFromItems => "FromItemsNode" | FItems => "ItemsNode" | FKeys => "KeysNode" | FLength => "LengthNode"
  | FLower => "LowerNode" | FMax => "MaxNode" | FMin => "MinNode" | FReverse => "ReverseNode"
  | FSort => "SortNode" | FSum => "SumNode" | FToArray => "ToArrayNode" | FToNumber => "ToNumberNode"
  | FToString => "ToStringNode" | FTrimSpace => "TrimSpaceNode" | FTrimSpaceLeft => "TrimSpaceLeftNode"
  | FTrimSpaceRight => "TrimSpaceRightNode" | FType => "TypeNode" | FUpper => "UpperNode" | FValues => "ValuesNode"
  end.
Definition fn2_name (f : fn2) : string :=
  match f with
  | FContains => "ContainsNode" | FEndsWith => "EndsWithNode" | FFindFirst => "FindFirstNode"
  | FFindLast => "FindLastNode" | FJoin => "JoinNode" | FPadSpaceLeft => "PadSpaceLeftNode"
  | FPadSpaceRight => "PadSpaceRightNode" | FSplit => "SplitNode" | FStartsWith => "StartsWithNode"
  | FTrim => "TrimNode" | FTrimLeft => "TrimLeftNode" | FTrimRight => "TrimRightNode"
  end.
Definition fn3_name (f : fn3) : string :=
  match f with
  | FFindFirstFrom => "FindFirstFromNode" | FFindLastFrom => "FindLastFromNode"
  | FPadLeft => "PadLeftNode" | FPadRight => "PadRightNode" | FReplace => "ReplaceNode"
  | FSplitCount => "SplitCountNode"
  end.
Definition fn4_name (f : fn4) : string :=
  match f with
  | FFindFirstBetween => "FindFirstBetweenNode" | FFindLastBetween => "FindLastBetweenNode"
  | FReplaceCount => "ReplaceCountNode"
  end.
Definition fnby_name (f : fnby) : string :=
  match f with FGroupBy => "GroupByNode" | FMaxBy => "MaxByNode" | FMinBy => "MinByNode" | FSortBy => "SortByNode" end.
Definition fnvar_name (f : fnvar) : string :=
  match f with FMerge => "MergeNode" | FNotNull => "NotNullNode" | FZip => "ZipNode" end.
Definition fbuild_names (b : fbuild) : list string :=
  match b with
  | B1 f => [fn1_name f] | B2 f => [fn2_name f] | BBy f => [fnby_name f] | BMap => ["MapNode"]
  | BVar f => [fnvar_name f]
  | B1or2 f g => [fn1_name f; fn2_name g]
  | B2or3 f g => [fn2_name f; fn3_name g]
  | B2to4 f g h => [fn2_name f; fn3_name g; fn4_name h]
  | B3or4 f g => [fn3_name f; fn4_name g]
  end.
Definition string_of_bytes (l : bytes) : string :=
  string_of_list_ascii (map (fun z => Ascii.ascii_of_N (Z.to_N z)) l).
Definition model_functions : list (string * (string * list string)) :=
  map (fun e => (string_of_bytes (fst e), (argparser_name (fst (snd e)), fbuild_names (snd (snd e))))) function_table.
Fixpoint fl_eqb (a b : list (string * (string * list string))) : bool :=
  match a, b with
  | [], [] => true
  | (n, (p, l)) :: a', (n', (p', l')) :: b' =>
    String.eqb n n' && String.eqb p p' && slist_eqb l l' && fl_eqb a' b'
  | _, _ => false
  end.
Definition tie_functions_b : bool := fl_eqb gen_functions model_functions.
Lemma tie_functions : tie_functions_b = true. Proof. vm_compute. reflexivity. Qed.

(* 5. node-kind sets *)
Definition tie_node_sets_b : bool :=
  slist_eqb gen_slice_nodes ["SliceNode"; "SliceCurrentNode"; "SliceStepNode"; "SliceStepCurrentNode"].
Lemma tie_node_sets : tie_node_sets_b = true. Proof. vm_compute. reflexivity. Qed.

(* 6. numeric kinds: every type switch over numbers lists the same 14 kinds *)
Definition number_kinds : list string :=
  ["decimal128.Decimal"; "float32"; "float64"; "int"; "int16"; "int32"; "int64"; "int8";
   "json.Number"; "uint"; "uint16"; "uint32"; "uint64"; "uint8"].
Definition keep_numbers (l : list string) : list string :=
  List.filter (fun s => existsb (String.eqb s) number_kinds) l.
Definition tie_kinds_b : bool :=
  slist_eqb gen_kinds_toDecimal number_kinds
  && slist_eqb gen_kinds_toInt number_kinds
  && slist_eqb gen_kinds_isNumber number_kinds
  && slist_eqb (keep_numbers gen_kinds_isTrue) number_kinds
  && slist_eqb (keep_numbers gen_kinds_typeName) number_kinds
  && slist_eqb (keep_numbers gen_kinds_toNumber) number_kinds
  && slist_eqb gen_kinds_toFloat ["float32"; "float64"].
Lemma tie_kinds : tie_kinds_b = true. Proof. vm_compute. reflexivity. Qed.

(* 7. error categories: parseError / evaluateError compose with the Is methods
   to the category functions of Model/Api.v *)
Definition sentinel_of (public_type : string) : string :=
  match sassoc public_type
          (map (fun s => let i := match String.index 0 "=>" s with Some i => i | None => 0%nat end in
                         (substring 0 i s, substring (i + 2) (String.length s) s)) gen_public_is) with
  | Some x => x | None => "?"
  end.
Definition strip_lit (s : string) : string := (* "&invalidTypeError{}" -> "invalidTypeError" *)
  substring 1 (String.length s - 3) s.
Definition split_arrow (s : string) : string * string :=
  let i := match String.index 0 "=>" s with Some i => i | None => 0%nat end in
  (substring 0 i s, substring (i + 2) (String.length s) s).
Definition gen_parse_cats : list (string * string) :=
  map (fun s => let '(c, r) := split_arrow s in (c, sentinel_of (strip_lit r))) gen_parse_error_map.
Definition gen_eval_cats : list (string * string) :=
  map (fun s => let '(c, r) := split_arrow s in (c, sentinel_of (strip_lit r))) gen_eval_error_map.
Definition cat_name (c : category) : string :=
  match c with
  | CSyntax => "ErrSyntax" | CInvalidArity => "ErrInvalidArity" | CUnknownFunction => "ErrUnknownFunction"
  | CInvalidType => "ErrInvalidType" | CInvalidValue => "ErrInvalidValue" | CNotANumber => "ErrNotANumber"
  | CUndefinedVariable => "ErrUndefinedVariable" | CEvaluationFailed => "ErrEvaluationFailed"
  end.
Definition plist_eqb (a b : list (string * string)) : bool :=
  slist_eqb (map (fun p => fst p ++ "|" ++ snd p) a) (map (fun p => fst p ++ "|" ++ snd p) b).
Definition tie_errors_b : bool :=
  plist_eqb gen_parse_cats
    [("type:*parser.InvalidFunctionArgumentError", cat_name (parse_category (EInvalidFunctionArgument [])));
     ("type:*parser.InvalidFunctionCallError", cat_name (parse_category (EInvalidFunctionCall [])));
     ("type:*parser.InvalidSliceStepError", cat_name (parse_category EInvalidSliceStep));
     ("type:*parser.UnknownFunctionError", cat_name (parse_category (EUnknownFunction [])));
     ("default", cat_name (parse_category (EUnexpectedToken [])))]
  && plist_eqb gen_eval_cats
    [("is:evaluator.ErrInvalidType", cat_name (eval_category EInvalidType));
     ("is:evaluator.ErrInvalidValue", cat_name (eval_category EIntegerConversion));
     ("is:evaluator.ErrInfinity", cat_name (eval_category EInfinity));
     ("is:evaluator.ErrNotANumber", cat_name (eval_category ENotANumber));
     ("type:*evaluator.UndefinedVariableError", cat_name (eval_category (EUndefinedVariable [])));
     ("default", cat_name (eval_category EStringConversion))]
  && slist_eqb gen_internal_is
    ["InvalidTypeError=>ErrInvalidType"; "UndefinedVariableError=>ErrUndefinedVariable";
     "fromItemsKeyTypeError=>ErrInvalidValue"; "fromItemsLengthError=>ErrInvalidValue";
     "integerConversionError=>ErrInvalidValue"; "negativeIntegerError=>ErrInvalidValue";
     "padLengthError=>ErrInvalidValue"]
  && (List.length gen_public_is =? 10)%nat.
Lemma tie_errors : tie_errors_b = true. Proof. vm_compute. reflexivity. Qed.

(* 8. no shared mutable state: package-level variables are never assigned, no
   goroutines are started, no sync/atomic/unsafe, and the long-lived structs
   hold only the AST and the root document *)
Definition tie_state_b : bool :=
  match gen_globals_assigned, gen_go_stmts, gen_sync_uses with
  | [], [], [] => true
  | _, _, _ => false
  end
  && slist_eqb gen_expression_fields ["node:parser.Node"]
  && slist_eqb gen_evaluator_fields ["root:any"]
  && forallb (fun s => match String.index 0 "=errors.New()" s with Some _ => true | None => String.eqb s "internal/parser/visitor.go:indentBytes=[]byte()" end) gen_globals.
Lemma tie_state : tie_state_b = true. Proof. vm_compute. reflexivity. Qed.

(* 8b. variables are looked up by NAME: a scope is a map from names (strings) to values plus its parent, a variable
   node carries the name, a let carries a map from names to the bound expressions and its body.  (Any other key -- an
   index, a hash of the name -- would make two names one variable for some pair of names.) *)
Definition tie_scopes_b : bool :=
  slist_eqb gen_scope_fields ["parent:*variableScope"; "variables:map[string]any"]
  && slist_eqb gen_variable_node_fields ["Name:string"]
  && slist_eqb gen_define_variables_fields ["Variables:map[string]Node"; "Child:Node"].
Lemma tie_scopes : tie_scopes_b = true. Proof. vm_compute. reflexivity. Qed.

(* 9. every statement that writes through a slice, map, pointer or struct field
   targets an object allocated in the same function, a field of a per-call
   struct, or the token out-parameter of the Lexer methods (which the parser points at
   its own per-call struct); sort helper structs are built from fresh slices.
   This is the premise of the frame and non-interference theorems (C06, C07). *)
Definition ends_with (suffix s : string) : bool :=
  let ls := String.length s in let lx := String.length suffix in
  if Nat.ltb ls lx then false else String.eqb (substring (ls - lx) lx s) suffix.
Definition starts_with (p s : string) : bool := String.eqb (substring 0 (String.length p) s) p.
Definition write_site_ok (s : string) : bool :=
  ends_with "=fresh" s || ends_with "=percall" s
  || (ends_with "=ptrparam:t" s && starts_with "internal/lexer/lexer.go:Lexer." s).
Definition tie_writes_b : bool :=
  forallb write_site_ok gen_write_sites && Nat.ltb 50 (List.length gen_write_sites).
Lemma tie_writes : tie_writes_b = true. Proof. vm_compute. reflexivity. Qed.

(* 10. every public error type answers Is for exactly one sentinel (one entry per type) *)
Fixpoint snodup (l : list string) : bool :=
  match l with [] => true | x :: r => negb (existsb (String.eqb x) r) && snodup r end.
Definition tie_one_category_b : bool := snodup (map (fun s => fst (split_arrow s)) gen_public_is).
Lemma tie_one_category : tie_one_category_b = true. Proof. vm_compute. reflexivity. Qed.
