(* internal/evaluator/array.go (the helpers that do not call back into evaluate) *)
From Coq Require Import List ZArith Bool.
From JM Require Import Base.Outcome Base.Bytes Num.Dec Json.Value Model.NumberFns Model.Slice.
Import ListNotations.
Open Scope Z_scope.

Definition is_null (v : value) : bool := match v with VNull => true | _ => false end.
Definition drop_nulls (l : list value) : list value := filter (fun v => negb (is_null v)) l.

Definition flatten (v : value) : value :=
  match v with
  | VArr a => VArr (flat_map (fun x => match x with
                                      | VArr va => drop_nulls va
                                      | VNull => []
                                      | _ => [x] end) a)
  | _ => VNull
  end.

Definition index (v : value) (i : Z) : value :=
  match v with
  | VArr a =>
    let l := zlen a in
    if i <? 0 then (let i' := i + l in if i' <? 0 then VNull else nth (Z.to_nat i') a VNull)
    else if i >=? l then VNull else nth (Z.to_nat i) a VNull
  | _ => VNull
  end.

Definition prune_array (v : value) : value :=
  match v with VArr a => VArr (drop_nulls a) | _ => VNull end.

(* stable insertion sort: the unique stable sorted permutation *)
Section Sort.
  Context {A : Type} (le : A -> A -> bool).
  Fixpoint insert (x : A) (l : list A) : list A :=
    match l with
    | [] => [x]
    | y :: r => if le x y then x :: l else y :: insert x r
    end.
  (* insert x after every element that is <= x keeps earlier equal elements first *)
  Fixpoint insert_after (x : A) (l : list A) : list A :=
    match l with
    | [] => [x]
    | y :: r => if le y x then y :: insert_after x r else x :: l
    end.
  Definition stable_sort (l : list A) : list A := fold_left (fun acc x => insert_after x acc) l [].
End Sort.

Definition dec_leb (x y : dec) : bool := match dec_compare x y with Gt => false | _ => true end.
Definition str_leb (x y : bytes) : bool := match bcmp x y with Gt => false | _ => true end.

Fixpoint all_strings (l : list value) : option (list bytes) :=
  match l with
  | [] => Some []
  | VStr s :: r => option_map (cons s) (all_strings r)
  | _ => None
  end.
Fixpoint all_decimals (l : list value) : option (list dec) :=
  match l with
  | [] => Some []
  | v :: r => match to_decimal v with
              | Some d => option_map (cons d) (all_decimals r)
              | None => None end
  end.

Definition sort_array (v : value) : outcome value :=
  match v with
  | VArr [] => Ok v
  | VArr ((VStr _ :: _) as a) =>
    match all_strings a with
    | Some ss => Ok (VArr (map VStr (stable_sort str_leb ss)))
    | None => Err EInvalidType
    end
  | VArr a =>
    match all_decimals a with
    | Some ds => Ok (VArr (map fst (stable_sort (fun x y => dec_leb (snd x) (snd y)) (combine a ds))))
    | None => Err EInvalidType
    end
  | _ => Err EInvalidType
  end.

(* linear scans; "greater" picks the first maximum, "less" the first minimum *)
Fixpoint extreme_str (gt : bool) (best : bytes) (l : list value) : outcome bytes :=
  match l with
  | [] => Ok best
  | VStr s :: r => extreme_str gt (if (if gt then bgtb s best else bltb s best) then s else best) r
  | _ => Err EInvalidType
  end.
Fixpoint extreme_dec (gt : bool) (best : dec) (l : list value) : outcome dec :=
  match l with
  | [] => Ok best
  | v :: r =>
    match to_decimal v with
    | None => Err EInvalidType
    | Some d => extreme_dec gt (if (if gt then dec_greater d best else dec_less d best) then d else best) r
    end
  end.
Definition array_extreme (gt : bool) (v : value) : outcome value :=
  match v with
  | VArr [] => Ok VNull
  | VArr (VStr s :: r) => do m <- extreme_str gt s r; Ok (VStr m)
  | VArr (x :: r) =>
    match to_decimal x with
    | None => Err EInvalidType
    | Some d => do m <- extreme_dec gt d r; Ok (vdec m)
    end
  | _ => Err EInvalidType
  end.
Definition array_max := array_extreme true.
Definition array_min := array_extreme false.
