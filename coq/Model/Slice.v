(* internal/evaluator/slice.go: slice and sliceStep *)
From Coq Require Import List ZArith Bool.
From JM Require Import Base.Outcome Base.Bytes Base.GoInt Base.Utf8 Json.Value.
Import ListNotations.
Open Scope Z_scope.

Definition zlen {A} (l : list A) : Z := Z.of_nat (length l).

(* a[i:j] on a Go slice *)
Definition sub {A} (l : list A) (i j : Z) : outcome (list A) :=
  if (0 <=? i) && (i <=? j) && (j <=? zlen l)
  then Ok (firstn (Z.to_nat (j - i)) (skipn (Z.to_nat i) l))
  else Panic PSliceBounds.

(* a[j] on a Go slice *)
Definition at_ {A} (l : list A) (j : Z) : outcome A :=
  if (0 <=? j) && (j <? zlen l)
  then match nth_error l (Z.to_nat j) with Some x => Ok x | None => Panic PIndexRange end
  else Panic PIndexRange.

Inductive bounds := BEmpty | BRange (start stop : Z).

(* the clamping of slice(): start and stop for step 1 *)
Definition norm1 (l start stop : Z) (string_branch : bool) : bounds :=
  let ostart := if start <? 0 then (if start <? - l then Some 0 else Some (start + l))
                else if start >=? l then None else Some start in
  match ostart with
  | None => BEmpty
  | Some start =>
    let ostop := if stop <? 0 then (if stop <? - l then None else Some (stop + l))
                 else if stop >=? l then Some l else Some stop in
    match ostop with
    | None => BEmpty
    | Some stop => if negb string_branch && (start >=? stop) then BEmpty else BRange start stop
    end
  end.

Definition slice (v : value) (start stop : Z) : outcome value :=
  match v with
  | VArr a =>
    match norm1 (zlen a) start stop false with
    | BEmpty => Ok (VArr [])
    | BRange i j => do r <- sub a i j; Ok (VArr r)
    end
  | VStr s =>
    let cs := chunks s in
    match norm1 (zlen cs) start stop true with
    | BEmpty => Ok (VStr [])
    | BRange i j => Ok (VStr (concat (firstn (Z.to_nat (j - i)) (skipn (Z.to_nat i) cs))))
    end
  | _ => Ok VNull
  end.

(* the clamping of sliceStep(): Some (start, n) = first index and element count *)
Definition norm_step (l start stop step : Z) : option (Z * Z) :=
  if step >? 0 then
    let ostart := if start <? 0 then (if start <? - l then Some 0 else Some (start + l))
                  else if start >=? l then None else Some start in
    match ostart with
    | None => None
    | Some start =>
      let ostop := if stop <? 0 then (if stop <? - l then None else Some (stop + l))
                   else if stop >? l then Some l else Some stop in
      match ostop with
      | None => None
      | Some stop =>
        if start >=? stop then None else
        let c := stop - start in
        let n := Z.quot c step in
        Some (start, if Z.rem c step >? 0 then n + 1 else n)
      end
    end
  else
    let ostart := if start <? 0 then (if start <? - l then None else Some (start + l))
                  else if start >=? l then Some (l - 1) else Some start in
    match ostart with
    | None => None
    | Some start =>
      let ostop := if stop <? 0 then (if stop <? - l then Some (-1) else Some (stop + l))
                   else if stop >=? l then None else Some stop in
      match ostop with
      | None => None
      | Some stop =>
        if start <=? stop then None else
        let s := wrap64 (step * -1) in
        let c := start - stop in
        let n := Z.quot c s in
        Some (start, if Z.rem c s >? 0 then n + 1 else n)
      end
    end.

(* r[i] = a[j] for i < n, j = start + i*step *)
Fixpoint pick {A} (a : list A) (k : nat) (j step : Z) : outcome (list A) :=
  match k with
  | O => Ok []
  | S k' => do x <- at_ a j; do r <- pick a k' (wrap64 (j + step)) step; Ok (x :: r)
  end.

Fixpoint pick_default (rs : list Z) (k : nat) (j step : Z) : list Z :=
  match k with
  | O => []
  | S k' => nth (Z.to_nat j) rs RuneError :: pick_default rs k' (j + step) step
  end.

Definition slice_step (v : value) (start stop step : Z) : outcome value :=
  match v with
  | VArr a =>
    match norm_step (zlen a) start stop step with
    | None => Ok (VArr [])
    | Some (i, n) =>
      (* a zero step reaches the division c / s with s = 0 (the parser never produces it) *)
      if step =? 0 then Panic PDivZero else
      if (n <? 0) || (n >? MaxInt) then Panic PMakeLen else
      do r <- pick a (Z.to_nat n) i step; Ok (VArr r)
    end
  | VStr s =>
    let rs := runes s in
    let l := zlen rs in
    match norm_step l start stop step with
    | None => Ok (VStr [])
    | Some (i, n) =>
      if step =? 0 then Panic PDivZero else
      if step >? 0 then Ok (VStr (encode_all (pick_default rs (Z.to_nat n) i step)))
      else
        let back := skipn (Z.to_nat (l - 1 - i)) (runes_rev s) in
        Ok (VStr (encode_all (pick_default back (Z.to_nat n) 0 (- step))))
    end
  | _ => Ok VNull
  end.
