(* internal/parser/parser.go: the Pratt parser.  The token stream is the
   pre-computed list of Model/Lexer.v (see the remark there on lazy lexing). *)
From Coq Require Import List ZArith Bool.
From JM Require Import Base.Outcome Base.Bytes Base.GoInt Num.Dec Json.Value
  Model.Token Model.Lexer Model.Ast Model.Literals.
Import ListNotations.
Open Scope Z_scope.

(* internal/parser/precedence.go *)
Definition precedence (t : ttype) : Z :=
  match t with
  | TPipe => 2
  | TOr => 3
  | TAnd => 4
  | TEqual | TGreater | TGreaterOrEqual | TLess | TLessOrEqual | TNotEqual => 5
  | TAdd | TSubtract => 6
  | TAsterisk | TDivide | TIntegerDivide | TModulo | TMultiply => 7
  | TFlatten => 8
  | TFilter => 10
  | TDot | TObjectWildcard => 11
  | TNot => 12
  | TArrayWildcard | TOpenSqBrace => 13
  | _ => 0
  end.
Definition projection_precedence : Z := 9.

Record pst := { curr : token; next : token; rest : list item }.

Definition pull (l : list item) : outcome (token * list item) :=
  match l with
  | [] => Ok (Tok TEnd [], [])
  | ITok t :: r => Ok (t, match r with [] => l | _ => r end)
  | IErr e :: _ => Err e
  | IStuck :: _ => OutOfFuel
  end.

Definition advance (st : pst) : outcome pst :=
  do tr <- pull (rest st);
  let '(t, r) := tr in Ok {| curr := next st; next := t; rest := r |}.
Definition advance2 (st : pst) : outcome pst :=
  do tr <- pull (rest st);
  let '(t, r) := tr in
  do tr2 <- pull r;
  let '(t2, r2) := tr2 in Ok {| curr := t; next := t2; rest := r2 |}.

Definition ct (st : pst) : ttype := ttyp (curr st).
Definition nt (st : pst) : ttype := ttyp (next st).
Definition is (t : ttype) (u : ttype) : bool := ttype_eqb t u.
Definition unexpected_curr {A} (st : pst) : outcome A := Err (EUnexpectedToken (tval (curr st))).
Definition unexpected_next {A} (st : pst) : outcome A := Err (EUnexpectedToken (tval (next st))).

(* strconv.Atoi on an integer literal token (optional '-' and digits) *)
Definition atoi (s : bytes) : option Z :=
  let '(neg, d) := match s with 45 :: r => (true, r) | _ => (false, s) end in
  let '(v, n, r) := take_digits d 0 0 in
  match r with
  | [] => if n =? 0 then None else
          let z := if neg then - v else v in
          if in_int z then Some z else None
  | _ => None
  end.

(* ---- function table: parser.function ---- *)
Inductive argparser := AP1 | AP1to2 | AP2 | AP2Exp | AP2Map | AP2to3 | AP2to4 | AP3to4 | APVar.

Inductive fbuild :=
| B1 (f : fn1) | B2 (f : fn2) | BBy (f : fnby) | BMap | BVar (f : fnvar)
| B1or2 (f : fn1) (g : fn2)            (* trim, trim_left, trim_right *)
| B2or3 (f : fn2) (g : fn3)            (* pad_left, pad_right, split *)
| B2to4 (f : fn2) (g : fn3) (h : fn4)  (* find_first, find_last *)
| B3or4 (f : fn3) (g : fn4).           (* replace *)

Definition b (l : list Z) : bytes := l.

Definition function_table : list (bytes * (argparser * fbuild)) :=
  [ ([97;98;115], (AP1, B1 FAbs));
    ([97;118;103], (AP1, B1 FAvg));
    ([99;101;105;108], (AP1, B1 FCeil));
    ([99;111;110;116;97;105;110;115], (AP2, B2 FContains));
    ([101;110;100;115;95;119;105;116;104], (AP2, B2 FEndsWith));
    ([102;105;110;100;95;102;105;114;115;116], (AP2to4, B2to4 FFindFirst FFindFirstFrom FFindFirstBetween));
    ([102;105;110;100;95;108;97;115;116], (AP2to4, B2to4 FFindLast FFindLastFrom FFindLastBetween));
    ([102;108;111;111;114], (AP1, B1 FFloor));
    ([102;114;111;109;95;105;116;101;109;115], (AP1, B1 FFromItems));
    ([103;114;111;117;112;95;98;121], (AP2Exp, BBy FGroupBy));
    ([105;116;101;109;115], (AP1, B1 FItems));
    ([106;111;105;110], (AP2, B2 FJoin));
    ([107;101;121;115], (AP1, B1 FKeys));
    ([108;101;110;103;116;104], (AP1, B1 FLength));
    ([108;111;119;101;114], (AP1, B1 FLower));
    ([109;97;112], (AP2Map, BMap));
    ([109;97;120], (AP1, B1 FMax));
    ([109;97;120;95;98;121], (AP2Exp, BBy FMaxBy));
    ([109;101;114;103;101], (APVar, BVar FMerge));
    ([109;105;110], (AP1, B1 FMin));
    ([109;105;110;95;98;121], (AP2Exp, BBy FMinBy));
    ([110;111;116;95;110;117;108;108], (APVar, BVar FNotNull));
    ([112;97;100;95;108;101;102;116], (AP2to3, B2or3 FPadSpaceLeft FPadLeft));
    ([112;97;100;95;114;105;103;104;116], (AP2to3, B2or3 FPadSpaceRight FPadRight));
    ([114;101;112;108;97;99;101], (AP3to4, B3or4 FReplace FReplaceCount));
    ([114;101;118;101;114;115;101], (AP1, B1 FReverse));
    ([115;111;114;116], (AP1, B1 FSort));
    ([115;111;114;116;95;98;121], (AP2Exp, BBy FSortBy));
    ([115;112;108;105;116], (AP2to3, B2or3 FSplit FSplitCount));
    ([115;116;97;114;116;115;95;119;105;116;104], (AP2, B2 FStartsWith));
    ([115;117;109], (AP1, B1 FSum));
    ([116;111;95;97;114;114;97;121], (AP1, B1 FToArray));
    ([116;111;95;110;117;109;98;101;114], (AP1, B1 FToNumber));
    ([116;111;95;115;116;114;105;110;103], (AP1, B1 FToString));
    ([116;114;105;109], (AP1to2, B1or2 FTrimSpace FTrim));
    ([116;114;105;109;95;108;101;102;116], (AP1to2, B1or2 FTrimSpaceLeft FTrimLeft));
    ([116;114;105;109;95;114;105;103;104;116], (AP1to2, B1or2 FTrimSpaceRight FTrimRight));
    ([116;121;112;101], (AP1, B1 FType));
    ([117;112;112;101;114], (AP1, B1 FUpper));
    ([118;97;108;117;101;115], (AP1, B1 FValues));
    ([122;105;112], (APVar, BVar FZip)) ].

Definition build (fb : fbuild) (args : list node) : option node :=
  match fb, args with
  | B1 f, [a] => Some (NCall1 f a)
  | B2 f, [a; b] => Some (NCall2 f a b)
  | BBy f, [a; e] => Some (NCallBy f a e)
  | BMap, [e; a] => Some (NMap e a)
  | BVar f, l => Some (NCallVar f l)
  | B1or2 f _, [a] => Some (NCall1 f a)
  | B1or2 _ g, [a; b] => Some (NCall2 g a b)
  | B2or3 f _, [a; b] => Some (NCall2 f a b)
  | B2or3 _ g, [a; b; c] => Some (NCall3 g a b c)
  | B2to4 f _ _, [a; b] => Some (NCall2 f a b)
  | B2to4 _ g _, [a; b; c] => Some (NCall3 g a b c)
  | B2to4 _ _ h, [a; b; c; d] => Some (NCall4 h a b c d)
  | B3or4 f _, [a; b; c] => Some (NCall3 f a b c)
  | B3or4 _ g, [a; b; c; d] => Some (NCall4 g a b c d)
  | _, _ => None
  end.

(* ---- parser.index (no recursion into expression) ---- *)
Definition mk_slice (child : option node) (start stop step : Z) : node :=
  match child with
  | None => if step =? 1 then NSliceCurrent start stop else NSliceStepCurrent start stop step
  | Some c => if step =? 1 then NSlice c start stop else NSliceStep c start stop step
  end.

Definition index (child : option node) (st : pst) : outcome (node * bool * pst) :=
  (* start *)
  do r1 <-
    (if is (ct st) TIntegerLiteral then
       match atoi (tval (curr st)) with
       | None => Err (EInvalidIndex (tval (curr st)))
       | Some start =>
         if is (nt st) TCloseSqBrace then
           do st' <- advance2 st;
           let n := match child with
                    | None => if (0 <=? start) && (start <=? 255) then NSmallIndexCurrent start else NIndexCurrent start
                    | Some c => NIndex c start
                    end in
           Ok (inl (n, st'))
         else if is (nt st) TColon then
           do st' <- advance2 st; Ok (inr (true, start, st'))
         else unexpected_next st
       end
     else if is (ct st) TColon then
       do st' <- advance st; Ok (inr (false, 0, st'))
     else unexpected_curr st);
  match r1 with
  | inl (n, st') => Ok (n, false, st')
  | inr (have_start, start, st) =>
    (* stop *)
    do r2 <-
      (if is (ct st) TIntegerLiteral then
         match atoi (tval (curr st)) with
         | None => Err (EInvalidIndex (tval (curr st)))
         | Some stop =>
           if is (nt st) TCloseSqBrace then
             do st' <- advance2 st; Ok (inl (mk_slice child start stop 1, st'))
           else if is (nt st) TColon then
             do st' <- advance2 st; Ok (inr (true, stop, st'))
           else unexpected_next st
         end
       else if is (ct st) TCloseSqBrace then
         do st' <- advance st; Ok (inl (mk_slice child start MaxInt 1, st'))
       else if is (ct st) TColon then
         do st' <- advance st; Ok (inr (false, MaxInt, st'))
       else unexpected_curr st);
    match r2 with
    | inl (n, st') => Ok (n, true, st')
    | inr (have_stop, stop, st) =>
      (* step *)
      if is (ct st) TIntegerLiteral then
        if negb (is (nt st) TCloseSqBrace) then unexpected_next st else
        match atoi (tval (curr st)) with
        | None => Err (EInvalidIndex (tval (curr st)))
        | Some step =>
          if step =? 0 then Err EInvalidSliceStep else
          let start' := if (step <? 0) && negb have_start then MaxInt else start in
          let stop' := if (step <? 0) && negb have_stop then MinInt else stop in
          do st' <- advance2 st;
          Ok (mk_slice child start' stop' step, true, st')
        end
      else if is (ct st) TCloseSqBrace then
        do st' <- advance st; Ok (mk_slice child start stop 1, true, st')
      else unexpected_curr st
    end
  end.

(* ---- the mutually recursive core, on one fuel ---- *)
Inductive pcall :=
| CExpr (prec : Z)                      (* parser.expression *)
| CCont (n : option node) (prec : Z).   (* parser.continuation; None = the current node *)

Definition bin_of (t : ttype) : option binop :=
  match t with
  | TAdd => Some OAdd | TSubtract => Some OSub
  | TAsterisk | TMultiply => Some OMul
  | TDivide => Some ODiv | TIntegerDivide => Some OIDiv | TModulo => Some OMod
  | TEqual => Some OEq | TNotEqual => Some ONe
  | TLess => Some OLt | TLessOrEqual => Some OLe | TGreater => Some OGt | TGreaterOrEqual => Some OGe
  | _ => None
  end.

Section Core.
  (* the two entry points at smaller fuel *)
  Variable rec : pcall -> pst -> outcome (option node * pst).
  Variable fuel' : nat. (* bound for the local argument/field loops *)

  Definition expr (prec : Z) (st : pst) : outcome (node * pst) :=
    do r <- rec (CExpr prec) st;
    match r with (Some n, st') => Ok (n, st') | (None, _) => Panic PNilDeref end.

  (* parser.projection *)
  Definition projection (prec : Z) (st : pst) : outcome (option node * pst) :=
    match ct st with
    | TArrayWildcard | TDot | TFilter | TObjectWildcard | TOpenSqBrace =>
      if precedence (ct st) >? prec then rec (CCont None prec) st else Ok (None, st)
    | _ => Ok (None, st)
    end.

  (* parser.filter *)
  Definition filter (st : pst) : outcome (node * pst) :=
    do r <- expr 1 st;
    let '(n, st) := r in
    if negb (is (ct st) TCloseSqBrace) then unexpected_curr st else
    do st <- advance st; Ok (n, st).

  (* parser.selectArray *)
  Fixpoint select_array_loop (k : nat) (child : option node) (fields : list node) (st : pst)
    : outcome (node * pst) :=
    match k with
    | O => OutOfFuel
    | S k' =>
      do r <- expr 1 st;
      let '(field, st) := r in
      match ct st with
      | TComma => do st <- advance st; select_array_loop k' child (fields ++ [field]) st
      | TCloseSqBrace =>
        do st <- advance st;
        match fields with
        | [] => Ok (match child with None => NSelectArraySingleCurrent field
                                   | Some c => NSelectArraySingle c field end, st)
        | _ => let fs := fields ++ [field] in
               Ok (match child with None => NSelectArrayCurrent fs | Some c => NSelectArray c fs end, st)
        end
      | _ => unexpected_curr st
      end
    end.
  Definition select_array (child : option node) (st : pst) := select_array_loop fuel' child [] st.

  (* parser.selectObject *)
  Fixpoint select_object_loop (k : nat) (child : option node) (fields : list (bytes * node)) (st : pst)
    : outcome (node * pst) :=
    match k with
    | O => OutOfFuel
    | S k' =>
      do key <- (match ct st with
                 | TQuotedIdentifier => parse_quoted_identifier (tval (curr st))
                 | TUnquotedIdentifier => Ok (tval (curr st))
                 | _ => unexpected_curr st
                 end);
      if negb (is (nt st) TColon) then unexpected_next st else
      do st <- advance2 st;
      do r <- expr 1 st;
      let '(field, st) := r in
      match ct st with
      | TComma => do st <- advance st; select_object_loop k' child (assoc_set key field fields) st
      | TCloseBrace =>
        do st <- advance st;
        match fields with
        | [] => Ok (match child with None => NSelectObjectSingleCurrent key field
                                   | Some c => NSelectObjectSingle c key field end, st)
        | _ => let fs := assoc_set key field fields in
               Ok (match child with None => NSelectObjectCurrent fs | Some c => NSelectObject c fs end, st)
        end
      | _ => unexpected_curr st
      end
    end.
  Definition select_object (child : option node) (st : pst) := select_object_loop fuel' child [] st.

  (* parser.let *)
  Fixpoint let_loop (k : nat) (vars : list (bytes * node)) (st : pst) : outcome (list (bytes * node) * pst) :=
    match k with
    | O => OutOfFuel
    | S k' =>
      if negb (is (ct st) TVariable) then unexpected_curr st else
      if negb (is (nt st) TAssign) then unexpected_next st else
      let name := tval (curr st) in
      do st <- advance2 st;
      do r <- expr 1 st;
      let '(n, st) := r in
      let vars := assoc_set name n vars in
      if is (ct st) TIn then do st <- advance st; Ok (vars, st)
      else if negb (is (ct st) TComma) then unexpected_curr st
      else do st <- advance st; let_loop k' vars st
    end.
  Definition let_ (st : pst) : outcome (node * pst) :=
    do r <- let_loop fuel' [] st;
    let '(vars, st) := r in
    do r2 <- expr 1 st;
    let '(child, st) := r2 in
    Ok (NDefine vars child, st).

  (* ---- function argument parsers ---- *)
  Definition check_not_close (name : bytes) (st : pst) : outcome unit :=
    if is (ct st) TCloseParen then Err (EInvalidFunctionCall name) else Ok tt.
  Definition end_args (name : bytes) (st : pst) : outcome pst :=
    if is (ct st) TComma then Err (EInvalidFunctionCall name)
    else if negb (is (ct st) TCloseParen) then unexpected_curr st
    else advance st.
  Definition need_comma (name : bytes) (st : pst) : outcome pst :=
    if is (ct st) TCloseParen then Err (EInvalidFunctionCall name)
    else if negb (is (ct st) TComma) then unexpected_curr st
    else advance st.
  Definition opt_more (st : pst) : outcome (bool * pst) :=
    if is (ct st) TCloseParen then do st <- advance st; Ok (false, st)
    else if negb (is (ct st) TComma) then unexpected_curr st
    else do st <- advance st; Ok (true, st).

  Fixpoint var_args_loop (k : nat) (acc : list node) (st : pst) : outcome (list node * pst) :=
    match k with
    | O => OutOfFuel
    | S k' =>
      do r <- expr 1 st;
      let '(n, st) := r in
      let acc := acc ++ [n] in
      if is (ct st) TComma then do st <- advance st; var_args_loop k' acc st
      else if is (ct st) TCloseParen then do st <- advance st; Ok (acc, st)
      else unexpected_curr st
    end.

  Definition parse_args (ap : argparser) (name : bytes) (st : pst) : outcome (list node * pst) :=
    do _ <- check_not_close name st;
    match ap with
    | AP1 =>
      do r <- expr 1 st; let '(a1, st) := r in
      do st <- end_args name st; Ok ([a1], st)
    | AP1to2 =>
      do r <- expr 1 st; let '(a1, st) := r in
      do m <- opt_more st; let '(more, st) := m in
      if negb more then Ok ([a1], st) else
      do r <- expr 1 st; let '(a2, st) := r in
      do st <- end_args name st; Ok ([a1; a2], st)
    | AP2 =>
      do r <- expr 1 st; let '(a1, st) := r in
      do st <- need_comma name st;
      do r <- expr 1 st; let '(a2, st) := r in
      do st <- end_args name st; Ok ([a1; a2], st)
    | AP2Exp =>
      do r <- expr 1 st; let '(a1, st) := r in
      if is (ct st) TCloseParen then Err (EInvalidFunctionCall name)
      else if negb (is (ct st) TComma) then unexpected_curr st
      else if negb (is (nt st) TExpression) then Err (EInvalidFunctionArgument name)
      else
        do st <- advance2 st;
        do r <- expr 1 st; let '(a2, st) := r in
        do st <- end_args [] st; Ok ([a1; a2], st)
    | AP2Map =>
      if negb (is (ct st) TExpression) then Err (EInvalidFunctionArgument name) else
      do st <- advance st;
      do r <- expr 1 st; let '(a1, st) := r in
      do st <- need_comma name st;
      do r <- expr 1 st; let '(a2, st) := r in
      do st <- end_args [] st; Ok ([a1; a2], st)
    | AP2to3 =>
      do r <- expr 1 st; let '(a1, st) := r in
      do st <- need_comma name st;
      do r <- expr 1 st; let '(a2, st) := r in
      do m <- opt_more st; let '(more, st) := m in
      if negb more then Ok ([a1; a2], st) else
      do r <- expr 1 st; let '(a3, st) := r in
      do st <- end_args name st; Ok ([a1; a2; a3], st)
    | AP2to4 =>
      do r <- expr 1 st; let '(a1, st) := r in
      do st <- need_comma name st;
      do r <- expr 1 st; let '(a2, st) := r in
      do m <- opt_more st; let '(more, st) := m in
      if negb more then Ok ([a1; a2], st) else
      do r <- expr 1 st; let '(a3, st) := r in
      do m <- opt_more st; let '(more, st) := m in
      if negb more then Ok ([a1; a2; a3], st) else
      do r <- expr 1 st; let '(a4, st) := r in
      do st <- end_args name st; Ok ([a1; a2; a3; a4], st)
    | AP3to4 =>
      do r <- expr 1 st; let '(a1, st) := r in
      do st <- need_comma name st;
      do r <- expr 1 st; let '(a2, st) := r in
      do st <- need_comma name st;
      do r <- expr 1 st; let '(a3, st) := r in
      do m <- opt_more st; let '(more, st) := m in
      if negb more then Ok ([a1; a2; a3], st) else
      do r <- expr 1 st; let '(a4, st) := r in
      do st <- end_args name st; Ok ([a1; a2; a3; a4], st)
    | APVar => var_args_loop fuel' [] st
    end.

  (* parser.function *)
  Definition function (st : pst) : outcome (node * pst) :=
    let name := tval (curr st) in
    do st <- advance2 st;
    match assoc name function_table with
    | None => Err (EUnknownFunction name)
    | Some (ap, fb) =>
      do r <- parse_args ap name st;
      let '(args, st) := r in
      match build fb args with
      | Some n => Ok (n, st)
      | None => Panic PNilDeref
      end
    end.

  Definition wrap_slice_projection (n : node) (project : bool) (st : pst) : outcome (node * pst) :=
    if project then
      do r <- projection projection_precedence st;
      let '(rhs, st) := r in
      Ok (NProjectArray n (match rhs with Some x => x | None => NCurrent end), st)
    else Ok (n, st).

  (* parser.primaryExpression *)
  Definition primary (st : pst) : outcome (node * pst) :=
    match ct st with
    | TAdd =>
      do st <- advance st;
      do r <- expr (precedence TMultiply) st; let '(c, st) := r in Ok (NAssertNumber c, st)
    | TArrayWildcard =>
      do st <- advance st;
      do r <- projection projection_precedence st; let '(c, st) := r in
      Ok (match c with None => NPruneArrayCurrent | Some x => NProjectArrayCurrent x end, st)
    | TAsterisk =>
      do st <- advance st;
      do r <- projection projection_precedence st; let '(c, st) := r in
      Ok (match c with None => NObjectValuesCurrent | Some x => NProjectObjectCurrent x end, st)
    | TCurrent => do st <- advance st; Ok (NCurrent, st)
    | TFilter =>
      do st <- advance st;
      do r <- filter st; let '(f, st) := r in
      do r <- projection projection_precedence st; let '(c, st) := r in
      Ok (match c with None => NFilterCurrent f | Some x => NFilterAndProjectCurrent f x end, st)
    | TFlatten =>
      do st <- advance st;
      do r <- projection (precedence TFlatten) st; let '(c, st) := r in
      Ok (match c with None => NFlattenCurrent | Some x => NFlattenAndProjectCurrent x end, st)
    | TJSONLiteral =>
      do n <- parse_json_literal (tval (curr st));
      do st <- advance st; Ok (n, st)
    | TLet => do st <- advance st; let_ st
    | TNot =>
      do st <- advance st;
      do r <- expr (precedence TNot) st; let '(c, st) := r in Ok (NNot c, st)
    | TOpenParen =>
      do st <- advance st;
      do r <- expr 1 st; let '(n, st) := r in
      if negb (is (ct st) TCloseParen) then unexpected_curr st else
      do st <- advance st; Ok (n, st)
    | TOpenBrace => do st <- advance st; select_object None st
    | TOpenSqBrace =>
      do st <- advance st;
      if is (ct st) TIntegerLiteral || is (ct st) TColon then
        do r <- index None st;
        let '(n, project, st) := r in wrap_slice_projection n project st
      else select_array None st
    | TQuotedIdentifier =>
      do v <- parse_quoted_identifier (tval (curr st));
      do st <- advance st; Ok (NField v, st)
    | TRoot => do st <- advance st; Ok (NRoot, st)
    | TStringLiteral =>
      let n := parse_string_literal (tval (curr st)) in
      do st <- advance st; Ok (n, st)
    | TSubtract =>
      do st <- advance st;
      do r <- expr (precedence TMultiply) st; let '(c, st) := r in Ok (NNegate c, st)
    | TUnquotedIdentifier =>
      if is (nt st) TOpenParen then function st
      else let n := NField (tval (curr st)) in do st <- advance st; Ok (n, st)
    | TVariable =>
      let n := NVariable (tval (curr st)) in do st <- advance st; Ok (n, st)
    | _ => unexpected_curr st
    end.

  (* one iteration of the loop in parser.continuation: Some = new node, None = loop ends (default case) *)
  Definition cont_step (node : option Ast.node) (newPrec : Z) (st : pst) : outcome (option (Ast.node * pst)) :=
    match bin_of (ct st) with
    | Some op =>
      do st <- advance st;
      do r <- expr newPrec st; let '(rhs, st) := r in
      match node with
      | Some l => Ok (Some (NBin op l rhs, st))
      | None => Panic PNilDeref
      end
    | None =>
      match ct st with
      | TAnd | TOr | TPipe =>
        let t := ct st in
        do st <- advance st;
        do r <- expr newPrec st; let '(rhs, st) := r in
        match node with
        | Some l => Ok (Some (match t with TAnd => NAnd l rhs | TOr => NOr l rhs | _ => NPipe l rhs end, st))
        | None => Panic PNilDeref
        end
      | TArrayWildcard =>
        do st <- advance st;
        do r <- projection projection_precedence st; let '(rhs, st) := r in
        Ok (Some (match node, rhs with
                  | None, None => NPruneArrayCurrent
                  | None, Some x => NProjectArrayCurrent x
                  | Some n, None => NPruneArray n
                  | Some n, Some x => NProjectArray n x
                  end, st))
      | TDot =>
        match nt st with
        | TArrayWildcard =>
          do st <- advance2 st;
          Ok (Some (NSelectArraySingle (match node with None => NCurrent | Some n => n end) NObjectValuesCurrent, st))
        | TOpenBrace =>
          do st <- advance2 st;
          do r <- select_object (Some (match node with None => NCurrent | Some n => n end)) st; Ok (Some r)
        | TOpenSqBrace =>
          do st <- advance2 st;
          do r <- select_array (Some (match node with None => NCurrent | Some n => n end)) st; Ok (Some r)
        | TQuotedIdentifier | TUnquotedIdentifier =>
          do st <- advance st;
          do r <- expr newPrec st; let '(rhs, st) := r in
          Ok (Some (match node with
                    | None => rhs
                    | Some n => NPipe n rhs
                    end, st))
        | _ => unexpected_curr st
        end
      | TFilter =>
        do st <- advance st;
        do r <- filter st; let '(f, st) := r in
        do r <- projection projection_precedence st; let '(rhs, st) := r in
        Ok (Some (match node, rhs with
                  | None, None => NFilterCurrent f
                  | None, Some x => NFilterAndProjectCurrent f x
                  | Some n, None => NFilter n f
                  | Some n, Some x => NFilterAndProject n f x
                  end, st))
      | TFlatten =>
        do st <- advance st;
        do r <- projection newPrec st; let '(rhs, st) := r in
        Ok (Some (match node, rhs with
                  | None, None => NFlattenCurrent
                  | None, Some x => NFlattenAndProjectCurrent x
                  | Some n, None => NFlatten n
                  | Some n, Some x => NFlattenAndProject n x
                  end, st))
      | TObjectWildcard =>
        do st <- advance st;
        do r <- projection projection_precedence st; let '(rhs, st) := r in
        Ok (Some (match node, rhs with
                  | None, None => NObjectValuesCurrent
                  | None, Some x => NProjectObjectCurrent x
                  | Some n, None => NObjectValues n
                  | Some n, Some x => NProjectObject n x
                  end, st))
      | TOpenSqBrace =>
        do st <- advance st;
        do r <- index node st;
        let '(n, project, st) := r in
        do r <- wrap_slice_projection n project st; Ok (Some r)
      | _ => Ok None
      end
    end.

  Definition run_body (c : pcall) (st : pst) : outcome (option node * pst) :=
    match c with
    | CExpr prec =>
      do r <- primary st; let '(n, st) := r in
      rec (CCont (Some n) prec) st
    | CCont node prec =>
      let newPrec := precedence (ct st) in
      if newPrec >? prec then
        do r <- cont_step node newPrec st;
        match r with
        | Some (n, st) => rec (CCont (Some n) prec) st
        | None => Ok (node, st)
        end
      else Ok (node, st)
    end.
End Core.

Fixpoint run (fuel : nat) (c : pcall) (st : pst) : outcome (option node * pst) :=
  match fuel with
  | O => OutOfFuel
  | S f => run_body (run f) f c st
  end.

(* parser.Parse + parser.parse *)
Definition parse_items (fuel : nat) (items : list item) : outcome node :=
  do tr <- pull items;
  let '(t1, r1) := tr in
  do tr2 <- pull r1;
  let '(t2, r2) := tr2 in
  let st := {| curr := t1; next := t2; rest := r2 |} in
  do r <- run fuel (CExpr 1) st;
  match r with
  | (Some n, st) => if negb (is (ct st) TEnd) then unexpected_curr st else Ok n
  | (None, _) => Panic PNilDeref
  end.

Definition parse_fuel (s : bytes) : nat := (4 * length s + 16)%nat.
Definition parse (s : bytes) : outcome node := parse_items (parse_fuel s) (lex_all s).
