(* internal/evaluator/functions.go and object.go (helpers without callbacks) *)
From Coq Require Import List ZArith Bool.
From JM Require Import Base.Outcome Base.Bytes Base.Utf8 Num.Dec Json.Value Json.JsonPrint
  Model.NumberFns Model.Slice Gen.CaseTable.
Import ListNotations.
Open Scope Z_scope.

Definition length_ (v : value) : outcome value :=
  match v with
  | VArr a => Ok (vint (zlen a))
  | VObj m => Ok (vint (zlen m))
  | VStr s => Ok (vint (rune_count s))
  | _ => Err EInvalidType
  end.

Definition all_ascii (s : bytes) : bool := forallb (fun b => b <? 128) s.
(* unicode.ToLower / unicode.ToUpper: the simple case mappings of the Go toolchain that builds the library, as
   ranges (Gen/CaseTable.v, regenerated on every run from that toolchain's unicode package) *)
Fixpoint case_lookup (t : list (Z * Z * Z)) (r : Z) : Z :=
  match t with
  | [] => r
  | (lo, hi, d) :: t' => if (lo <=? r) && (r <=? hi) then r + d else case_lookup t' r
  end.
Definition rune_lower (r : Z) : Z := case_lookup case_lower_table r.
Definition rune_upper (r : Z) : Z := case_lookup case_upper_table r.
(* the tables are data: tactics never unfold them (vm_compute, which runs the model, does) *)
Global Opaque rune_lower rune_upper.
Arguments rune_lower : simpl never.
Arguments rune_upper : simpl never.
(* strings.ToLower / strings.ToUpper: an ASCII fast path, else strings.Map over the runes (an invalid byte is
   U+FFFD and is written back as the three bytes of U+FFFD) *)
Definition lower (v : value) : outcome value :=
  match v with
  | VStr s => if all_ascii s then Ok (VStr (map (fun b => if (65 <=? b) && (b <=? 90) then b + 32 else b) s))
              else Ok (VStr (encode_all (map rune_lower (runes s))))
  | _ => Err EInvalidType
  end.
Definition upper (v : value) : outcome value :=
  match v with
  | VStr s => if all_ascii s then Ok (VStr (map (fun b => if (97 <=? b) && (b <=? 122) then b - 32 else b) s))
              else Ok (VStr (encode_all (map rune_upper (runes s))))
  | _ => Err EInvalidType
  end.

Definition reverse (v : value) : outcome value :=
  match v with
  | VStr s => Ok (VStr (encode_all (runes_rev s)))
  | VArr a => Ok (VArr (rev a))
  | _ => Err EInvalidType
  end.

Definition to_array (v : value) : value := match v with VArr _ => v | _ => VArr [v] end.

Definition to_number (v : value) : value :=
  match v with
  | VNum _ => v
  | VStr s => if json_number_ok s then match parse_dec s with Some d => vdec d | None => VNull end else VNull
  | _ => VNull
  end.

Definition to_string (v : value) : outcome value :=
  match v with
  | VStr _ => Ok v
  | _ => do s <- jprint v; Ok (VStr s)
  end.

Definition bstr (l : list Z) : value := VStr l.
Definition type_name (v : value) : outcome value :=
  match v with
  | VArr _ => Ok (bstr [97;114;114;97;121])
  | VObj _ => Ok (bstr [111;98;106;101;99;116])
  | VBool _ => Ok (bstr [98;111;111;108;101;97;110])
  | VNum _ => Ok (bstr [110;117;109;98;101;114])
  | VStr _ => Ok (bstr [115;116;114;105;110;103])
  | VNull => Ok (bstr [110;117;108;108])
  | VForeign _ => Err EInvalidType
  end.

(* object.go *)
Definition field (name : bytes) (v : value) : value :=
  match v with
  | VObj m => match assoc name m with Some x => x | None => VNull end
  | _ => VNull
  end.

Fixpoint from_items_loop (l : list value) (acc : list (bytes * value)) : outcome (list (bytes * value)) :=
  match l with
  | [] => Ok acc
  | VArr ia :: r =>
    match ia with
    | [k; x] => match k with
                | VStr ks => from_items_loop r (assoc_set ks x acc)
                | _ => Err EFromItemsKeyType
                end
    | _ => Err EFromItemsLength
    end
  | _ => Err EInvalidType
  end.
(* every element must be an array; this is checked for the whole argument first *)
Definition is_arr (v : value) : bool := match v with VArr _ => true | _ => false end.
Definition from_items (v : value) : outcome value :=
  match v with
  | VArr a => if forallb is_arr a then do m <- from_items_loop a []; Ok (VObj m) else Err EInvalidType
  | _ => Err EInvalidType
  end.

Definition items (v : value) : outcome value :=
  match v with VObj m => Ok (VArr (map (fun kv => VArr [VStr (fst kv); snd kv]) m)) | _ => Err EInvalidType end.
Definition keys (v : value) : outcome value :=
  match v with VObj m => Ok (VArr (map (fun kv => VStr (fst kv)) m)) | _ => Err EInvalidType end.
Definition values (v : value) : outcome value :=
  match v with VObj m => Ok (VArr (map snd m)) | _ => Err EInvalidType end.
Definition object_values (v : value) : value :=
  match v with
  | VObj m => VArr (List.filter (fun x => match x with VNull => false | _ => true end) (map snd m))
  | _ => VNull
  end.
