(* internal/evaluator/evaluator.go: evaluator.evaluate, and the helpers of
   array.go / object.go that call back into it. *)
From Coq Require Import List ZArith Bool.
From JM Require Import Base.Outcome Base.Bytes Base.GoInt Num.Dec Json.Value
  Model.Ast Model.Compare Model.NumberFns Model.Slice Model.StringFns Model.Array Model.Functions.
Import ListNotations.
Open Scope Z_scope.

(* variable.go: a chain of scopes, innermost first *)
Definition env := list (list (bytes * value)).
Fixpoint env_get (name : bytes) (e : env) : option value :=
  match e with
  | [] => None
  | frame :: parent => match assoc name frame with Some v => Some v | None => env_get name parent end
  end.

Definition call1 (f : fn1) (a : value) : outcome value :=
  match f with
  | FAbs => abs a | FAvg => avg a | FCeil => ceil a | FFloor => floor a
  | FFromItems => from_items a | FItems => items a | FKeys => keys a | FLength => length_ a
  | FLower => lower a | FMax => array_max a | FMin => array_min a | FReverse => reverse a
  | FSort => sort_array a | FSum => sum a | FToArray => Ok (to_array a) | FToNumber => Ok (to_number a)
  | FToString => to_string a | FTrimSpace => trim_space a | FTrimSpaceLeft => trim_space_left a
  | FTrimSpaceRight => trim_space_right a | FType => type_name a | FUpper => upper a | FValues => values a
  end.
Definition call2 (f : fn2) (a b : value) : outcome value :=
  match f with
  | FContains => contains a b | FEndsWith => ends_with a b | FFindFirst => find_first a b
  | FFindLast => find_last a b | FJoin => join a b
  | FPadSpaceLeft => pad true a b None | FPadSpaceRight => pad false a b None
  | FSplit => split a b | FStartsWith => starts_with a b
  | FTrim => trim a b | FTrimLeft => trim_left a b | FTrimRight => trim_right a b
  end.
Definition call3 (f : fn3) (a b c : value) : outcome value :=
  match f with
  | FFindFirstFrom => find_from false a b c | FFindLastFrom => find_from true a b c
  | FPadLeft => pad true a b (Some c) | FPadRight => pad false a b (Some c)
  | FReplace => replace a b c | FSplitCount => split_count a b c
  end.
Definition call4 (f : fn4) (a b c d : value) : outcome value :=
  match f with
  | FFindFirstBetween => find_between false a b c d
  | FFindLastBetween => find_between true a b c d
  | FReplaceCount => replace_count a b c d
  end.

Definition binop_eval (op : binop) (l r : value) : outcome value :=
  match op with
  | OAdd => add l r | OSub => subtract l r | OMul => multiply l r | ODiv => divide l r
  | OIDiv => integer_divide l r | OMod => modulo l r
  | OEq => Ok (VBool (equal l r)) | ONe => Ok (VBool (negb (equal l r)))
  | OLt => Ok (less l r) | OLe => Ok (less_or_equal l r)
  | OGt => Ok (greater l r) | OGe => Ok (greater_or_equal l r)
  end.

(* ---- helpers parameterised by "evaluate node against this element" ---- *)
Section WithCallback.
  Variable ev : value -> outcome value.

  (* projectArray's loop: null results are omitted *)
  Fixpoint project_list (l : list value) : outcome (list value) :=
    match l with
    | [] => Ok []
    | v :: r => do p <- ev v; do ps <- project_list r; Ok (if is_null p then ps else p :: ps)
    end.
  Definition project_array (v : value) : outcome value :=
    match v with VArr a => do r <- project_list a; Ok (VArr r) | _ => Ok VNull end.
  Definition project_object (v : value) : outcome value :=
    match v with VObj m => do r <- project_list (map snd m); Ok (VArr r) | _ => Ok VNull end.
  Definition map_array (v : value) : outcome value :=
    match v with VArr a => do r <- mapM ev a; Ok (VArr r) | _ => Err EInvalidType end.
  Definition flatten_and_project (v : value) : outcome value :=
    match v with
    | VArr a =>
      do r <- project_list (flat_map (fun x => match x with VArr va => va | _ => [x] end) a);
      Ok (VArr r)
    | _ => Ok VNull
    end.

  (* keys of sort_by / max_by / min_by: all strings or all numbers, decided by the first *)
  Inductive keys_of := KStr (ks : list bytes) | KNum (ks : list dec).
  Fixpoint str_keys (l : list value) : outcome (list bytes) :=
    match l with
    | [] => Ok []
    | v :: r => do k <- ev v;
                match k with VStr s => do ks <- str_keys r; Ok (s :: ks) | _ => Err EInvalidType end
    end.
  Fixpoint num_keys (l : list value) : outcome (list dec) :=
    match l with
    | [] => Ok []
    | v :: r => do k <- ev v;
                match to_decimal k with Some d => do ks <- num_keys r; Ok (d :: ks) | None => Err EInvalidType end
    end.
  Definition keys_for (a0 : value) (rest : list value) : outcome keys_of :=
    do first <- ev a0;
    match first with
    | VStr s => do ks <- str_keys rest; Ok (KStr (s :: ks))
    | _ => match to_decimal first with
           | None => Err EInvalidType
           | Some d => do ks <- num_keys rest; Ok (KNum (d :: ks))
           end
    end.

  Definition sort_array_by (v : value) : outcome value :=
    match v with
    | VArr [] => Ok v
    | VArr (a0 :: rest) =>
      do ks <- keys_for a0 rest;
      match ks with
      | KStr ss => Ok (VArr (map fst (stable_sort (fun x y => str_leb (snd x) (snd y)) (combine (a0 :: rest) ss))))
      | KNum ds => Ok (VArr (map fst (stable_sort (fun x y => dec_leb (snd x) (snd y)) (combine (a0 :: rest) ds))))
      end
    | _ => Err EInvalidType
    end.

  (* first strictly-better element wins *)
  Fixpoint best_by {K} (better : K -> K -> bool) (bestv : value) (bestk : K) (l : list (value * K)) : value :=
    match l with
    | [] => bestv
    | (v, k) :: r => if better k bestk then best_by better v k r else best_by better bestv bestk r
    end.
  Definition array_extreme_by (gt : bool) (v : value) : outcome value :=
    match v with
    | VArr [] => Ok VNull
    | VArr (a0 :: rest) =>
      do ks <- keys_for a0 rest;
      match ks with
      | KStr (k0 :: ss) => Ok (best_by (if gt then bgtb else bltb) a0 k0 (combine rest ss))
      | KNum (k0 :: ds) => Ok (best_by (if gt then dec_greater else dec_less) a0 k0 (combine rest ds))
      | _ => Panic PIndexRange
      end
    | _ => Err EInvalidType
    end.

  Fixpoint group_loop (l : list value) (acc : list (bytes * value)) : outcome (list (bytes * value)) :=
    match l with
    | [] => Ok acc
    | v :: r =>
      do k <- ev v;
      match k with
      | VStr s =>
        let cur := match assoc s acc with Some (VArr g) => g | _ => [] end in
        group_loop r (assoc_set s (VArr (cur ++ [v])) acc)
      | _ => Err EInvalidType
      end
    end.
  Definition group_by (v : value) : outcome value :=
    match v with
    | VArr [] => Ok VNull
    | VArr a => do m <- group_loop a []; Ok (VObj m)
    | _ => Err EInvalidType
    end.
End WithCallback.

(* filter(): elements that are not null and whose predicate is true-like *)
Fixpoint filter_list (pred : value -> outcome value) (l : list value) : outcome (list value) :=
  match l with
  | [] => Ok []
  | v :: r => do f <- pred v; do rs <- filter_list pred r;
              Ok (if negb (is_null v) && is_true f then v :: rs else rs)
  end.
Definition filter_array (pred : value -> outcome value) (v : value) : outcome value :=
  match v with VArr a => do r <- filter_list pred a; Ok (VArr r) | _ => Ok VNull end.
(* filterAndProjectArray *)
Fixpoint filter_project_list (pred ev : value -> outcome value) (l : list value) : outcome (list value) :=
  match l with
  | [] => Ok []
  | v :: r =>
    do f <- pred v;
    if is_true f then
      do p <- ev v; do rs <- filter_project_list pred ev r; Ok (if is_null p then rs else p :: rs)
    else filter_project_list pred ev r
  end.
Definition filter_and_project (pred ev : value -> outcome value) (v : value) : outcome value :=
  match v with VArr a => do r <- filter_project_list pred ev a; Ok (VArr r) | _ => Ok VNull end.

Fixpoint zip_rows (k : nat) (i : nat) (cols : list (list value)) : list value :=
  match k with
  | O => []
  | S k' => VArr (map (fun c => nth i c VNull) cols) :: zip_rows k' (S i) cols
  end.

Section Eval.
  Variable root : value.

  Fixpoint eval (n : node) (cur : value) (vars : env) {struct n} : outcome value :=
    match n with
    | NCall1 f a => do x <- eval a cur vars; call1 f x
    | NCall2 f a b => do x <- eval a cur vars; do y <- eval b cur vars; call2 f x y
    | NCall3 f a b c => do x <- eval a cur vars; do y <- eval b cur vars; do z <- eval c cur vars; call3 f x y z
    | NCall4 f a b c d =>
      do x <- eval a cur vars; do y <- eval b cur vars; do z <- eval c cur vars; do w <- eval d cur vars;
      call4 f x y z w
    | NCallBy f a e =>
      do x <- eval a cur vars;
      let ev := fun v => eval e v vars in
      match f with
      | FGroupBy => group_by ev x
      | FMaxBy => array_extreme_by ev true x
      | FMinBy => array_extreme_by ev false x
      | FSortBy => sort_array_by ev x
      end
    | NMap e a => do x <- eval a cur vars; map_array (fun v => eval e v vars) x
    | NCallVar f args =>
      match f with
      | FMerge =>
        (fix go (l : list node) (acc : list (bytes * value)) : outcome value :=
           match l with
           | [] => Ok (VObj acc)
           | a :: r =>
             do x <- eval a cur vars;
             match x with
             | VObj m => go r (fold_left (fun acc kv => assoc_set (fst kv) (snd kv) acc) m acc)
             | _ => Err EInvalidType
             end
           end) args []
      | FNotNull =>
        (fix go (l : list node) : outcome value :=
           match l with
           | [] => Ok VNull
           | a :: r => do x <- eval a cur vars; if is_null x then go r else Ok x
           end) args
      | FZip =>
        do cols <- (fix go (l : list node) : outcome (list (list value)) :=
                      match l with
                      | [] => Ok []
                      | a :: r =>
                        do x <- eval a cur vars;
                        match x with
                        | VArr c => do cs <- go r; Ok (c :: cs)
                        | _ => Err EInvalidType
                        end
                      end) args;
        let count := fold_left (fun m c => Z.min m (zlen c)) cols MaxInt in
        if count >? 4611686018427387904 then Panic PMakeLen else
        Ok (VArr (zip_rows (Z.to_nat count) 0 cols))
      end
    | NBin op l r => do x <- eval l cur vars; do y <- eval r cur vars; binop_eval op x y
    | NAnd l r => do x <- eval l cur vars; if negb (is_true x) then Ok x else eval r cur vars
    | NOr l r => do x <- eval l cur vars; if is_true x then Ok x else eval r cur vars
    | NNot c => do x <- eval c cur vars; Ok (VBool (negb (is_true x)))
    | NNegate c => do x <- eval c cur vars; Ok (negate x)
    | NAssertNumber c => do x <- eval c cur vars; Ok (if is_number x then x else VNull)
    | NLitArr l => Ok (VArr l)
    | NLitObj m => Ok (VObj m)
    | NBool b => Ok (VBool b)
    | NNull => Ok VNull
    | NNumber t => Ok (VNum (NJson t))
    | NString s => Ok (VStr s)
    | NCurrent => Ok cur
    | NRoot => Ok root
    | NField name => Ok (field name cur)
    | NVariable name => match env_get name vars with Some v => Ok v | None => Err (EUndefinedVariable name) end
    | NDefine bindings child =>
      do frame <- (fix go (l : list (bytes * node)) : outcome (list (bytes * value)) :=
                     match l with
                     | [] => Ok []
                     | (name, e) :: r => do x <- eval e cur vars; do fr <- go r; Ok ((name, x) :: fr)
                     end) bindings;
      eval child cur (frame :: vars)
    | NFilter c f => do x <- eval c cur vars; filter_array (fun v => eval f v vars) x
    | NFilterCurrent f => filter_array (fun v => eval f v vars) cur
    | NFilterAndProject l f r =>
      do x <- eval l cur vars; filter_and_project (fun v => eval f v vars) (fun v => eval r v vars) x
    | NFilterAndProjectCurrent f c =>
      filter_and_project (fun v => eval f v vars) (fun v => eval c v vars) cur
    | NFlatten c => do x <- eval c cur vars; Ok (flatten x)
    | NFlattenCurrent => Ok (flatten cur)
    | NFlattenAndProject l r => do x <- eval l cur vars; flatten_and_project (fun v => eval r v vars) x
    | NFlattenAndProjectCurrent c => flatten_and_project (fun v => eval c v vars) cur
    | NIndex c i => do x <- eval c cur vars; Ok (index x i)
    | NIndexCurrent i => Ok (index cur i)
    | NSmallIndexCurrent i => Ok (index cur i)
    | NObjectValues c => do x <- eval c cur vars; Ok (object_values x)
    | NObjectValuesCurrent => Ok (object_values cur)
    | NPipe l r => do x <- eval l cur vars; eval r x vars
    | NProjectArray l r =>
      do x <- eval l cur vars;
      match x with
      | VStr _ => if is_slice_node l then eval r x vars else project_array (fun v => eval r v vars) x
      | _ => project_array (fun v => eval r v vars) x
      end
    | NProjectArrayCurrent c => project_array (fun v => eval c v vars) cur
    | NProjectObject l r => do x <- eval l cur vars; project_object (fun v => eval r v vars) x
    | NProjectObjectCurrent c => project_object (fun v => eval c v vars) cur
    | NPruneArray c => do x <- eval c cur vars; Ok (prune_array x)
    | NPruneArrayCurrent => Ok (prune_array cur)
    | NSelectArray c fields =>
      do x <- eval c cur vars;
      if is_null x then Ok VNull else
      do r <- (fix go (l : list node) : outcome (list value) :=
                 match l with
                 | [] => Ok []
                 | f :: r => do y <- eval f x vars; do ys <- go r; Ok (y :: ys)
                 end) fields;
      Ok (VArr r)
    | NSelectArrayCurrent fields =>
      if is_null cur then Ok VNull else
      do r <- (fix go (l : list node) : outcome (list value) :=
                 match l with
                 | [] => Ok []
                 | f :: r => do y <- eval f cur vars; do ys <- go r; Ok (y :: ys)
                 end) fields;
      Ok (VArr r)
    | NSelectArraySingle c f =>
      do x <- eval c cur vars;
      if is_null x then Ok VNull else do y <- eval f x vars; Ok (VArr [y])
    | NSelectArraySingleCurrent f => do y <- eval f cur vars; Ok (VArr [y])
    | NSelectObject c fields =>
      do x <- eval c cur vars;
      if is_null x then Ok VNull else
      do r <- (fix go (l : list (bytes * node)) : outcome (list (bytes * value)) :=
                 match l with
                 | [] => Ok []
                 | (k, f) :: r => do y <- eval f x vars; do ys <- go r; Ok ((k, y) :: ys)
                 end) fields;
      Ok (VObj r)
    | NSelectObjectCurrent fields =>
      if is_null cur then Ok VNull else
      do r <- (fix go (l : list (bytes * node)) : outcome (list (bytes * value)) :=
                 match l with
                 | [] => Ok []
                 | (k, f) :: r => do y <- eval f cur vars; do ys <- go r; Ok ((k, y) :: ys)
                 end) fields;
      Ok (VObj r)
    | NSelectObjectSingle c k f =>
      do x <- eval c cur vars;
      if is_null x then Ok VNull else do y <- eval f x vars; Ok (VObj [(k, y)])
    | NSelectObjectSingleCurrent k f => do y <- eval f cur vars; Ok (VObj [(k, y)])
    | NSlice c start stop => do x <- eval c cur vars; slice x start stop
    | NSliceCurrent start stop => slice cur start stop
    | NSliceStep c start stop step => do x <- eval c cur vars; slice_step x start stop step
    | NSliceStepCurrent start stop step => slice_step cur start stop step
    end.
End Eval.

(* evaluator.Evaluate *)
Definition evaluate (n : node) (data : value) : outcome value := eval data n data [].
