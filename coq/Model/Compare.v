(* internal/evaluator/compare.go *)
From Coq Require Import List ZArith Bool.
From JM Require Import Base.Outcome Base.Bytes Num.Dec Num.Flt Json.Value Json.JsonText.
Import ListNotations.
Open Scope Z_scope.

Definition is_true (v : value) : bool :=
  match v with
  | VNull => false
  | VArr l => match l with [] => false | _ => true end
  | VObj m => match m with [] => false | _ => true end
  | VBool b => b
  | VNum (NJson t) => match t with [] => false | _ => true end
  | VNum _ => true
  | VStr s => match s with [] => false | _ => true end
  | VForeign _ => true
  end.

Fixpoint equal (x y : value) : bool :=
  match x with
  | VNull => match y with VNull => true | _ => false end
  | VBool a => match y with VBool c => Bool.eqb a c | _ => false end
  | VStr a => match y with VStr c => beqb a c | _ => false end
  | VNum xn =>
    (* two json.Number values with the same valid text are equal without conversion *)
    if match xn, y with
       | NJson s, VNum (NJson t) => beqb s t && match json_parse s with Some _ => true | None => false end
       | _, _ => false
       end then true else
    match to_decimal x with
    | Some xd => match to_decimal y with Some yd => dec_equal xd yd | None => false end
    | None => false
    end
  | VArr a =>
    match y with
    | VArr c =>
      (fix go (a c : list value) : bool :=
         match a, c with
         | [], [] => true
         | u :: a', v :: c' => equal u v && go a' c'
         | _, _ => false
         end) a c
    | _ => false
    end
  | VObj a =>
    match y with
    | VObj c =>
      (length a =? length c)%nat &&
      (fix go (a : list (bytes * value)) : bool :=
         match a with
         | [] => true
         | (k, u) :: a' => match assoc k c with Some v => equal u v | None => false end && go a'
         end) a
    | _ => false
    end
  | VForeign _ => false
  end.

Definition cmp_op (f : dec -> dec -> bool) (x y : value) : value :=
  match to_decimal x with
  | None => VNull
  | Some xd => match to_decimal y with None => VNull | Some yd => VBool (f xd yd) end
  end.
Definition less := cmp_op dec_less.
Definition less_or_equal := cmp_op dec_le.
Definition greater := cmp_op dec_greater.
Definition greater_or_equal := cmp_op dec_ge.

Definition contains (x y : value) : outcome value :=
  match x with
  | VStr s => match y with VStr p => Ok (VBool (bcontains s p)) | _ => Ok (VBool false) end
  | VArr l => Ok (VBool (existsb (fun xi => equal xi y) l))
  | _ => Err EInvalidType
  end.
