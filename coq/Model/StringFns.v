(* internal/evaluator/string.go *)
From Coq Require Import List ZArith Bool.
From JM Require Import Base.Outcome Base.Bytes Base.GoInt Base.Utf8 Num.Dec Json.Value
  Model.NumberFns Model.Slice.
Import ListNotations.
Open Scope Z_scope.

Definition vstr (s : bytes) : value := VStr s.
Definition str_arg (v : value) : outcome bytes :=
  match v with VStr s => Ok s | _ => Err EInvalidType end.

Definition ends_with (value suffix : value) : outcome Json.Value.value :=
  do s <- str_arg value; do p <- str_arg suffix; Ok (VBool (bhas_suffix s p)).
Definition starts_with (value prefix : value) : outcome Json.Value.value :=
  do s <- str_arg value; do p <- str_arg prefix; Ok (VBool (bhas_prefix s p)).

Definition rune_count_prefix (s : bytes) (n : Z) : Z := rune_count (firstn (Z.to_nat n) s).

Definition find_first (value sub : value) : outcome Json.Value.value :=
  do s <- str_arg value; do p <- str_arg sub;
  match s, p with
  | [], _ | _, [] => Ok VNull
  | _, _ =>
    let r := bindex s p in
    if r =? -1 then Ok VNull else Ok (vint (rune_count_prefix s r))
  end.
Definition find_last (value sub : value) : outcome Json.Value.value :=
  do s <- str_arg value; do p <- str_arg sub;
  match s, p with
  | [], _ | _, [] => Ok VNull
  | _, _ =>
    let r := blast_index s p in
    if r =? -1 then Ok VNull else Ok (vint (rune_count_prefix s r))
  end.

(* the loop "for j := 0; j < i; j++ { decode; if sz == 0 {stop}; n += sz }":
   byte offset of the i-th code point; None when the string ran out first *)
Fixpoint rune_offset (k : nat) (s : bytes) (n : Z) : option Z :=
  match k with
  | O => Some n
  | S k' => let '(_, sz) := decode_rune s in
            if sz =? 0 then None else rune_offset k' (skipn (Z.to_nat sz) s) (n + sz)
  end.
(* the same loop with "break" instead of "return" (used for the end offset) *)
Fixpoint rune_offset_clamp (k : nat) (s : bytes) (n : Z) : Z :=
  match k with
  | O => n
  | S k' => let '(_, sz) := decode_rune s in
            if sz =? 0 then n else rune_offset_clamp k' (skipn (Z.to_nat sz) s) (n + sz)
  end.

(* start offset: Some byte offset, or None for "return nil" *)
Definition start_offset (s : bytes) (i : Z) : option Z :=
  if i <? 0 then Some 0
  else if i >? blen s then None
  else rune_offset (Z.to_nat i) s 0.

Definition is_nil (b : bytes) : bool := match b with [] => true | _ => false end.

Definition find_from (last : bool) (value sub start : value) : outcome Json.Value.value :=
  do s <- str_arg value; do p <- str_arg sub;
  do i <- int_arg start;
  if is_nil s || is_nil p then Ok VNull else
  match start_offset s i with
  | None => Ok VNull
  | Some i =>
    do t <- bslice s i (blen s);
    let r := if last then blast_index t p else bindex t p in
    if r =? -1 then Ok VNull else Ok (vint (rune_count_prefix s (r + i)))
  end.

Definition find_between (last : bool) (value sub start finish : value) : outcome Json.Value.value :=
  do s <- str_arg value; do p <- str_arg sub;
  do ri <- to_int start;
  let '(i, isnum, ok) := ri in
  do i <- (if ok then Ok i else
           if negb isnum then Err EInvalidType else
           do rf <- to_int finish;
           let '(_, fnum, _) := rf in
           if negb fnum then Err EInvalidType else
           match to_decimal start with None => Err EInvalidType | Some _ => Err EIntegerConversion end);
  do j <- int_arg finish;
  if is_nil s || is_nil p then Ok VNull else
  match start_offset s i with
  | None => Ok VNull
  | Some i =>
    if j <? 0 then Ok VNull else
    let j := if j >? blen s then blen s else rune_offset_clamp (Z.to_nat j) s 0 in
    if i >? j then Ok VNull else
    do t <- bslice s i j;
    let r := if last then blast_index t p else bindex t p in
    if r =? -1 then Ok VNull else Ok (vint (rune_count_prefix s (r + i)))
  end.

Fixpoint join_loop (sep : bytes) (l : list value) : outcome bytes :=
  match l with
  | [] => Ok []
  | v :: l' => do e <- str_arg v; do r <- join_loop sep l'; Ok (sep ++ e ++ r)
  end.
Definition join (sep value : value) : outcome Json.Value.value :=
  match value with
  | VArr a =>
    do s <- str_arg sep;
    match a with
    | [] => Ok (VStr [])
    | v :: a' => do e <- str_arg v; do r <- join_loop s a'; Ok (VStr (e ++ r))
    end
  | _ => Err EInvalidType
  end.

Fixpoint repeat_bytes (k : nat) (p : bytes) : bytes :=
  match k with O => [] | S k' => p ++ repeat_bytes k' p end.

Definition pad (left : bool) (value width : value) (pad : option Json.Value.value) : outcome Json.Value.value :=
  do s <- str_arg value;
  do p <- (match pad with Some pv => str_arg pv | None => Ok [32] end);
  do w <- int_arg width;
  if w <? 0 then Err ENegativeInteger else
  if negb (rune_count p =? 1) then Err EPadLength else
  let n := w - rune_count s in
  if n <=? 0 then Ok value else
  let fill := repeat_bytes (Z.to_nat n) p in
  Ok (VStr (if left then fill ++ s else s ++ fill)).

(* strings.Count *)
Fixpoint count_f (fuel : nat) (s p : bytes) : Z :=
  match fuel with
  | O => 0
  | S f => let i := bindex s p in
           if i =? -1 then 0 else 1 + count_f f (skipn (Z.to_nat (i + blen p)) s) p
  end.
Definition bcount (s p : bytes) : Z :=
  match p with [] => rune_count s + 1 | _ => count_f (S (length s)) s p end.

(* strings.Replace(s, old, new, n) *)
Fixpoint replace_loop (k : nat) (first : bool) (s old new : bytes) : bytes :=
  match k with
  | O => s
  | S k' =>
    match old with
    | [] =>
      let j := if first then 0 else snd (decode_rune s) in
      firstn (Z.to_nat j) s ++ new ++ replace_loop k' false (skipn (Z.to_nat j) s) old new
    | _ =>
      let j := bindex s old in
      firstn (Z.to_nat j) s ++ new ++ replace_loop k' false (skipn (Z.to_nat (j + blen old)) s) old new
    end
  end.
Definition breplace (s old new : bytes) (n : Z) : bytes :=
  if beqb old new || (n =? 0) then s else
  let m := bcount s old in
  if m =? 0 then s else
  let n := if (n <? 0) || (m <? n) then m else n in
  replace_loop (Z.to_nat n) true s old new.

Definition replace (value old new : value) : outcome Json.Value.value :=
  do s <- str_arg value; do po <- str_arg old; do pn <- str_arg new;
  Ok (VStr (breplace s po pn (-1))).
Definition replace_count (value old new count : value) : outcome Json.Value.value :=
  do s <- str_arg value; do po <- str_arg old; do pn <- str_arg new;
  do n <- int_arg count;
  if n <? 0 then Err ENegativeInteger else
  Ok (VStr (breplace s po pn n)).

(* the splitting loops: at most k pieces cut off, then the remainder *)
Fixpoint split_sep (k : nat) (s p : bytes) : list bytes :=
  match k with
  | O => [s]
  | S k' => let j := bindex s p in
            if j <? 0 then [s] else firstn (Z.to_nat j) s :: split_sep k' (skipn (Z.to_nat (j + blen p)) s) p
  end.
Fixpoint split_runes (k : nat) (s : bytes) : list bytes :=
  match k with
  | O => [s]
  | S k' => let '(_, l) := decode_rune s in
            firstn (Z.to_nat l) s :: split_runes k' (skipn (Z.to_nat l) s)
  end.

Definition split (value sep : value) : outcome Json.Value.value :=
  do s <- str_arg value; do p <- str_arg sep;
  match s with
  | [] => Ok (VArr [])
  | _ =>
    match p with
    | [] => Ok (VArr (map VStr (split_runes (Z.to_nat (rune_count s - 1)) s)))
    | _ => Ok (VArr (map VStr (split_sep (Z.to_nat (bcount s p)) s p)))
    end
  end.
Definition split_count (value sep count : value) : outcome Json.Value.value :=
  do s <- str_arg value; do p <- str_arg sep;
  do n <- int_arg count;
  if n <? 0 then Err ENegativeInteger else
  if n =? 0 then Ok (VArr [VStr s]) else
  match s with
  | [] => Ok (VArr [])
  | _ =>
    match p with
    | [] => let c := rune_count s - 1 in
            let n := if n >? c then c else n in
            Ok (VArr (map VStr (split_runes (Z.to_nat n) s)))
    | _ => let c := bcount s p in
           let n := if n >? c then c else n in
           Ok (VArr (map VStr (split_sep (Z.to_nat n) s p)))
    end
  end.

(* unicode.IsSpace *)
Definition is_space (r : Z) : bool :=
  ((9 <=? r) && (r <=? 13)) || (r =? 32) || (r =? 133) || (r =? 160) || (r =? 5760)
  || ((8192 <=? r) && (r <=? 8202)) || (r =? 8232) || (r =? 8233) || (r =? 8239) || (r =? 8287) || (r =? 12288).

Fixpoint trim_left_f (fuel : nat) (p : Z -> bool) (s : bytes) : bytes :=
  match fuel with
  | O => s
  | S f =>
    match s with
    | [] => []
    | _ => let '(r, sz) := decode_rune s in
           if p r then trim_left_f f p (skipn (Z.to_nat sz) s) else s
    end
  end.
Fixpoint trim_right_f (fuel : nat) (p : Z -> bool) (s : bytes) : bytes :=
  match fuel with
  | O => s
  | S f =>
    match s with
    | [] => []
    | _ => let '(r, sz) := decode_last_rune s in
           if p r then trim_right_f f p (firstn (length s - Z.to_nat sz) s) else s
    end
  end.
Definition trim_left_fn (p : Z -> bool) (s : bytes) := trim_left_f (length s) p s.
Definition trim_right_fn (p : Z -> bool) (s : bytes) := trim_right_f (length s) p s.
Definition in_cutset (cut : bytes) (r : Z) : bool := existsb (Z.eqb r) (runes cut).

Definition trim_space (value : value) : outcome Json.Value.value :=
  do s <- str_arg value; Ok (VStr (trim_right_fn is_space (trim_left_fn is_space s))).
Definition trim_space_left (value : value) : outcome Json.Value.value :=
  do s <- str_arg value; Ok (VStr (trim_left_fn is_space s)).
Definition trim_space_right (value : value) : outcome Json.Value.value :=
  do s <- str_arg value; Ok (VStr (trim_right_fn is_space s)).
Definition trim (value cut : value) : outcome Json.Value.value :=
  do s <- str_arg value; do p <- str_arg cut;
  match p with
  | [] => Ok (VStr (trim_right_fn is_space (trim_left_fn is_space s)))
  | _ => Ok (VStr (trim_right_fn (in_cutset p) (trim_left_fn (in_cutset p) s)))
  end.
Definition trim_left (value cut : value) : outcome Json.Value.value :=
  do s <- str_arg value; do p <- str_arg cut;
  match p with
  | [] => Ok (VStr (trim_left_fn is_space s))
  | _ => Ok (VStr (trim_left_fn (in_cutset p) s))
  end.
Definition trim_right (value cut : value) : outcome Json.Value.value :=
  do s <- str_arg value; do p <- str_arg cut;
  match p with
  | [] => Ok (VStr (trim_right_fn is_space s))
  | _ => Ok (VStr (trim_right_fn (in_cutset p) s))
  end.
