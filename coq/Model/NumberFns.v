(* internal/evaluator/number.go *)
From Coq Require Import List ZArith Bool.
From JM Require Import Base.Outcome Base.Bytes Base.GoInt Num.Dec Num.Flt Json.Value.
Import ListNotations.
Open Scope Z_scope.

Definition vdec (d : dec) : value := VNum (NDec d).
Definition vflt (f : flt) : value := VNum (NFloat false f).
Definition vint (z : Z) : value := VNum (NInt I64 z).

Definition trap (d : dec) : outcome value :=
  if is_inf d then Err EInfinity else if is_nan d then Err ENotANumber else Ok (vdec d).
Definition ftrap (o : option flt) : outcome value :=
  match o with
  | None => Unmodelled
  | Some f => if f_is_inf f then Err EInfinity else if f_is_nan f then Err ENotANumber else Ok (vflt f)
  end.

Definition arith (fop : flt -> flt -> option flt) (dop : dec -> dec -> dec) (x y : value) : outcome value :=
  match to_float x, to_float y with
  | Some xf, Some yf => ftrap (fop xf yf)
  | _, _ =>
    match to_decimal x with
    | None => Err EInvalidType
    | Some xd =>
      match to_decimal y with
      | None => Err EInvalidType
      | Some yd => trap (dop xd yd)
      end
    end
  end.

Definition add := arith fadd dec_add.
Definition subtract := arith fsub dec_sub.
Definition multiply := arith fmul dec_mul.
Definition divide := arith fdiv dec_quo.

Definition sign_of (d : dec) : bool := match d with DFin n _ _ => n | DInf n => n | DNaN => false end.

Definition integer_divide (x y : value) : outcome value :=
  match to_float x, to_float y with
  | Some xf, Some yf => ftrap (option_map ffloor (fdiv xf yf))
  | _, _ =>
    match to_decimal x with
    | None => Err EInvalidType
    | Some xd =>
      match to_decimal y with
      | None => Err EInvalidType
      | Some yd =>
        let '(q, rem) := dec_quorem xd yd in
        if is_inf q then Err EInfinity else if is_nan q then Err ENotANumber else
        if negb (is_zero rem) && negb (is_nan rem) && negb (Bool.eqb (sign_of rem) (sign_of yd))
        then Ok (vdec (dec_sub q (DFin false 1 0))) else Ok (vdec q)
      end
    end
  end.

Definition modulo (x y : value) : outcome value :=
  match to_float x, to_float y with
  | Some xf, Some yf => ftrap (fmod xf yf)
  | _, _ =>
    match to_decimal x with
    | None => Err EInvalidType
    | Some xd =>
      match to_decimal y with
      | None => Err EInvalidType
      | Some yd => trap (snd (dec_quorem xd yd))
      end
    end
  end.

Definition num1 (fop : flt -> flt) (dop : dec -> dec) (v : value) : outcome value :=
  match to_float v with
  | Some f => Ok (vflt (fop f))
  | None => match to_decimal v with Some d => Ok (vdec (dop d)) | None => Err EInvalidType end
  end.
Definition abs := num1 fabs dec_abs.
Definition ceil := num1 fceil dec_ceil.
Definition floor := num1 ffloor dec_floor.

(* the NegateNode case of evaluate *)
Definition negate (v : value) : value :=
  match to_float v with
  | Some f => vflt (fneg f)
  | None =>
    match to_decimal v with
    | None => VNull
    | Some d => if is_zero d then vdec d else vdec (dec_neg d)
    end
  end.

(* exactSum: the elements are added exactly (math/big.Rat in the Go code), so sum
   and avg round once.  The exact total of finite decimals is kept as an
   unrounded DFin (any coefficient size); from the first infinity or NaN on, the
   remaining elements are added as decimals and that special value is the result. *)
Definition exact_add (x y : dec) : dec :=
  match x, y with
  | DFin n1 c1 e1, DFin n2 c2 e2 =>
    let '(a, b, e) := align c1 e1 c2 e2 in
    let s := sgn n1 a + sgn n2 b in DFin (s <? 0) (Z.abs s) e
  | _, _ => dec_add x y
  end.
Definition is_fin (d : dec) : bool := match d with DFin _ _ _ => true | _ => false end.

(* (total, special, finite) *)
Fixpoint sum_loop (l : list value) (total special : dec) (finite : bool) : outcome (dec * dec * bool) :=
  match l with
  | [] => Ok (total, special, finite)
  | v :: l' =>
    match to_decimal v with
    | None => Err EInvalidType
    | Some d =>
      let finite' := finite && is_fin d in
      if finite' then sum_loop l' (exact_add total d) special true
      else sum_loop l' total (dec_add special d) false
    end
  end.

(* decimal128.FromRat: one rounding of an exact value *)
Definition round_once (d : dec) : dec :=
  match d with DFin n c e => fit n c e | _ => d end.

Definition sum (v : value) : outcome value :=
  match v with
  | VArr a =>
    do r <- sum_loop a dec_zero dec_zero true;
    let '(total, special, finite) := r in
    trap (if finite then round_once total else special)
  | _ => Err EInvalidType
  end.
Definition avg (v : value) : outcome value :=
  match v with
  | VArr [] => Ok VNull
  | VArr a =>
    do r <- sum_loop a dec_zero dec_zero true;
    let '(total, special, finite) := r in
    (* the exact total divided by the length, rounded once: dec_quo performs exactly that on an unrounded dividend *)
    trap (if finite then dec_quo total (DFin false (Z.of_nat (length a)) 0) else special)
  | _ => Err EInvalidType
  end.

(* strconv.ParseInt(s, 10, 64) succeeds *)
Definition parse_int64 (s : bytes) : option Z :=
  let '(neg, d) := match s with 45 :: r => (true, r) | 43 :: r => (false, r) | _ => (false, s) end in
  let '(v, n, r) := take_digits d 0 0 in
  match r with
  | [] => if n =? 0 then None else
          let z := if neg then - v else v in if in_int z then Some z else None
  | _ => None
  end.

(* decimalToInt *)
Definition decimal_to_int (d : dec) : outcome (Z * bool * bool) :=
  if is_nan d || negb (dec_is_integral d || is_inf d) then Ok (0, true, false) else
  do r <- dec_int64 d;
  let '(i, ok) := r in
  if ok then Ok (i, true, true) else Ok (0, true, false).

Definition kind_max (k : intkind) : Z :=
  match k with
  | I8 => 127 | I16 => 32767 | I32 => 2147483647 | I64 | IInt => MaxInt
  | U8 => 255 | U16 => 65535 | U32 => 4294967295 | U64 | UInt => 18446744073709551615
  end.

(* toInt: (value, isNumber, ok) *)
Definition to_int (v : value) : outcome (Z * bool * bool) :=
  match v with
  | VNum (NDec d) => decimal_to_int d
  | VNum (NJson t) =>
    match parse_int64 t with
    | Some i => Ok (i, true, true)
    | None => match parse_dec t with None => Ok (0, false, false) | Some d => decimal_to_int d end
    end
  | VNum (NFloat _ f) =>
    match f with
    | FNaN | FInf _ => Ok (0, true, false)
    | _ => match flt_int f with
           | None => Ok (0, true, false)
           | Some z => if z >? two63 then Ok (0, true, false)
                       else if z <? MinInt then Ok (0, true, false)
                       else if z =? two63 then Unmodelled else Ok (z, true, true)
           end
    end
  | VNum (NInt _ z) => if z >? MaxInt then Ok (0, true, false) else Ok (z, true, true)
  | _ => Ok (0, false, false)
  end.

(* the conversion idiom shared by every integer-taking built-in *)
Definition int_arg (v : value) : outcome Z :=
  do r <- to_int v;
  let '(i, isnum, ok) := r in
  if ok then Ok i
  else if negb isnum then Err EInvalidType
  else match to_decimal v with None => Err EInvalidType | Some _ => Err EIntegerConversion end.
