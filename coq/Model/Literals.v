(* internal/parser/parser.go: parseJSONLiteral, parseQuotedIdentifier, parseStringLiteral *)
From Coq Require Import List ZArith Bool.
From JM Require Import Base.Outcome Base.Bytes Base.Utf8 Json.Value Json.JsonText Model.Ast.
Import ListNotations.
Open Scope Z_scope.

(* s[1:len(s)-1] for a token that starts and ends with its one-byte delimiter *)
Definition inner (s : bytes) : bytes := removelast (tl s).

(* strings.IndexByte *)
Fixpoint index_byte (s : bytes) (c : Z) (off : Z) : Z :=
  match s with
  | [] => -1
  | b :: r => if b =? c then off else index_byte r c (off + 1)
  end.

(* the raw-string loop: after a backslash, \' -> ', \\ -> \, anything else kept with its backslash.
   A trailing backslash (i+1 == len) is kept verbatim. *)
Fixpoint raw_unescape (s : bytes) : bytes :=
  match s with
  | [] => []
  | 92 :: [] => [92]
  | 92 :: c :: r =>
    (if c =? 39 then [39] else if c =? 92 then [92] else [92; c]) ++ raw_unescape r
  | b :: r => b :: raw_unescape r
  end.
Definition parse_string_literal (tok : bytes) : node := NString (raw_unescape (inner tok)).

Definition hexd (c : Z) : option Z :=
  if (48 <=? c) && (c <=? 57) then Some (c - 48)
  else if (97 <=? c) && (c <=? 102) then Some (c - 87)
  else if (65 <=? c) && (c <=? 70) then Some (c - 55) else None.
Definition hex4q (s : bytes) : option Z :=
  match s with
  | a :: b :: c :: d :: _ =>
    match hexd a, hexd b, hexd c, hexd d with
    | Some a, Some b, Some c, Some d => Some (((a * 16 + b) * 16 + c) * 16 + d)
    | _, _, _, _ => None
    end
  | _ => None
  end.

(* utf16.DecodeRune *)
Definition utf16_decode (r1 r2 : Z) : Z :=
  if (55296 <=? r1) && (r1 <? 56320) && (56320 <=? r2) && (r2 <? 57344)
  then (r1 - 55296) * 1024 + (r2 - 56320) + 65536 else RuneError.

(* parseQuotedIdentifier's loop over the text after the first backslash.
   A backslash that is the last byte is kept verbatim. *)
Fixpoint quoted_unescape (fuel : nat) (s : bytes) : option bytes :=
  match fuel with
  | O => None
  | S f =>
    match s with
    | [] => Some []
    | 92 :: [] => Some [92]
    | 92 :: c :: r =>
      let simple (b : Z) := option_map (cons b) (quoted_unescape f r) in
      if c =? 34 then simple 34 else if c =? 47 then simple 47 else if c =? 92 then simple 92
      else if c =? 98 then simple 8 else if c =? 102 then simple 12 else if c =? 110 then simple 10
      else if c =? 114 then simple 13 else if c =? 116 then simple 9
      else if c =? 117 then
        match hex4q r with
        | None => None
        | Some u =>
          let r1 := skipn 4 r in
          if is_surrogate u then
            if blen r1 <? 6 then None else
            match r1 with
            | b0 :: b1 :: r2 =>
              if negb (b0 =? 92) || negb (b1 =? 117) then None else
              match hex4q r2 with
              | None => None
              | Some u2 => option_map (app (encode_rune (utf16_decode u u2))) (quoted_unescape f (skipn 4 r2))
              end
            | _ => None
            end
          else option_map (app (encode_rune u)) (quoted_unescape f r1)
        end
      else None
    | b :: r => option_map (cons b) (quoted_unescape f r)
    end
  end.
Definition parse_quoted_identifier (tok : bytes) : outcome bytes :=
  match quoted_unescape (S (length tok)) (inner tok) with
  | Some s => Ok s
  | None => Err (EInvalidQuoted tok)
  end.

(* strings.ReplaceAll(v, "\\`", "`") *)
Fixpoint unescape_backticks (s : bytes) : bytes :=
  match s with
  | 92 :: 96 :: r => 96 :: unescape_backticks r
  | b :: r => b :: unescape_backticks r
  | [] => []
  end.

Definition node_of_value (v : value) : option node :=
  match v with
  | VArr l => Some (NLitArr l)
  | VBool b => Some (NBool b)
  | VObj m => Some (NLitObj m)
  | VNum (NJson t) => Some (NNumber t)
  | VNull => Some NNull
  | VStr s => Some (NString s)
  | _ => None
  end.

Definition parse_json_literal (tok : bytes) : outcome node :=
  let v := unescape_backticks (inner tok) in
  match v with
  | [] => Err (EInvalidJSONLiteral tok)
  | _ =>
    match json_parse v with
    | Some x => match node_of_value x with Some n => Ok n | None => Err (EInvalidJSONLiteral tok) end
    | None => Err (EInvalidJSONLiteral tok)
    end
  end.
