(* internal/lexer/lexer.go: Lexer.Next and its scanners, on the remaining
   input (the Go code keeps a position into the expression; the remaining
   suffix carries the same information). *)
From Coq Require Import List ZArith Bool.
From JM Require Import Base.Outcome Base.Bytes Base.Utf8 Model.Token.
Import ListNotations.
Open Scope Z_scope.

(* Lexer.decodeRune *)
Definition dr (s : bytes) : outcome (Z * Z) :=
  let '(r, sz) := decode_rune s in
  if sz =? 0 then Err ELexEOF
  else if (r =? RuneError) && (sz =? 1) then Err ELexInvalidRune
  else Ok (r, sz).

Definition drop (n : Z) (s : bytes) : bytes := skipn (Z.to_nat n) s.
Definition take (n : Z) (s : bytes) : bytes := firstn (Z.to_nat n) s.

Definition is_ws (r : Z) : bool := (r =? 9) || (r =? 10) || (r =? 13) || (r =? 32).
Definition is_dig (r : Z) : bool := (48 <=? r) && (r <=? 57).
Definition is_alpha_ (r : Z) : bool :=
  ((65 <=? r) && (r <=? 90)) || ((97 <=? r) && (r <=? 122)) || (r =? 95).
Definition is_alnum_ (r : Z) : bool := is_dig r || is_alpha_ r.

(* length of the longest prefix whose bytes satisfy p (ASCII classes only, so
   byte-wise scanning equals rune-wise scanning with decodeRune) *)
Fixpoint span (p : Z -> bool) (s : bytes) : Z :=
  match s with
  | b :: r => if p b then 1 + span p r else 0
  | [] => 0
  end.

(* jsonLiteral / quotedIdentifier / stringLiteral: scan to the closing
   delimiter, skipping the rune after a backslash; returns the number of bytes
   consumed after the opening delimiter *)
Fixpoint scan_delim (fuel : nat) (delim : Z) (s : bytes) (n : Z) : outcome Z :=
  match fuel with
  | O => OutOfFuel
  | S f =>
    do rs <- dr s;
    let '(r, sz) := rs in
    let s1 := drop sz s in
    if r =? delim then Ok (n + sz)
    else if r =? 92 then
      do rs2 <- dr s1;
      let '(_, sz2) := rs2 in
      scan_delim f delim (drop sz2 s1) (n + sz + sz2)
    else scan_delim f delim s1 (n + sz)
  end.

Definition mk (t : ttype) (n : Z) (s : bytes) : outcome (token * bytes) :=
  Ok (Tok t (take n s), drop n s).

(* second rune equals c? gives the combined width *)
Definition next_is (s : bytes) (sz : Z) (c : Z) : option Z :=
  match dr (drop sz s) with
  | Ok (nr, nsz) => if nr =? c then Some (sz + nsz) else None
  | _ => None
  end.

Definition two (s : bytes) (sz : Z) (c : Z) (t2 t1 : ttype) : outcome (token * bytes) :=
  match next_is s sz c with
  | Some w => mk t2 w s
  | None => mk t1 sz s
  end.

Definition delimited (t : ttype) (delim : Z) (s : bytes) (sz : Z) : outcome (token * bytes) :=
  do n <- scan_delim (S (length s)) delim (drop sz s) 0;
  mk t (sz + n) s.

Fixpoint skip_ws (fuel : nat) (s : bytes) : outcome (option (Z * Z * bytes)) :=
  match fuel with
  | O => OutOfFuel
  | S f =>
    do rs <- dr s;
    let '(r, sz) := rs in
    if is_ws r then
      let s1 := drop sz s in
      match s1 with
      | [] => Ok None
      | _ => skip_ws f s1
      end
    else Ok (Some (r, sz, s))
  end.

Definition kw_in : bytes := [105; 110].
Definition kw_let : bytes := [108; 101; 116].

(* Lexer.Next: the next token and the remaining input *)
Definition lex_next (s0 : bytes) : outcome (token * bytes) :=
  match s0 with
  | [] => Ok (Tok TEnd [], [])
  | _ =>
    do w <- skip_ws (S (length s0)) s0;
    match w with
    | None => Ok (Tok TEnd [], [])
    | Some (r, sz, s) =>
      if r =? 34 then delimited TQuotedIdentifier 34 s sz
      else if r =? 36 then
        match dr (drop sz s) with
        | Ok (nr, nsz) =>
          if is_alpha_ nr then
            let n := sz + nsz + span is_alnum_ (drop (sz + nsz) s) in mk TVariable n s
          else mk TRoot sz s
        | _ => mk TRoot sz s
        end
      else if r =? 37 then mk TModulo sz s
      else if r =? 38 then two s sz 38 TAnd TExpression
      else if r =? 39 then delimited TStringLiteral 39 s sz
      else if r =? 40 then mk TOpenParen sz s
      else if r =? 41 then mk TCloseParen sz s
      else if r =? 42 then mk TAsterisk sz s
      else if r =? 43 then mk TAdd sz s
      else if r =? 44 then mk TComma sz s
      else if r =? 45 then
        match dr (drop sz s) with
        | Ok (nr, nsz) =>
          if is_dig nr then
            let n := sz + nsz + span is_dig (drop (sz + nsz) s) in mk TIntegerLiteral n s
          else mk TSubtract sz s
        | _ => mk TSubtract sz s
        end
      else if r =? 46 then two s sz 42 TObjectWildcard TDot
      else if r =? 47 then two s sz 47 TIntegerDivide TDivide
      else if r =? 58 then mk TColon sz s
      else if r =? 60 then two s sz 61 TLessOrEqual TLess
      else if r =? 61 then two s sz 61 TEqual TAssign
      else if r =? 62 then two s sz 61 TGreaterOrEqual TGreater
      else if r =? 64 then mk TCurrent sz s
      else if r =? 91 then
        match dr (drop sz s) with
        | Ok (nr, nsz) =>
          if nr =? 42 then
            match next_is s (sz + nsz) 93 with
            | Some w => mk TArrayWildcard w s
            | None => mk TOpenSqBrace sz s
            end
          else if nr =? 63 then mk TFilter (sz + nsz) s
          else if nr =? 93 then mk TFlatten (sz + nsz) s
          else mk TOpenSqBrace sz s
        | _ => mk TOpenSqBrace sz s
        end
      else if r =? 93 then mk TCloseSqBrace sz s
      else if r =? 96 then delimited TJSONLiteral 96 s sz
      else if r =? 123 then mk TOpenBrace sz s
      else if r =? 124 then two s sz 124 TOr TPipe
      else if r =? 125 then mk TCloseBrace sz s
      else if r =? 215 then mk TMultiply sz s
      else if r =? 247 then mk TDivide sz s
      else if r =? 8722 then mk TSubtract sz s
      else if r =? 33 then two s sz 61 TNotEqual TNot
      else if is_dig r then
        let n := sz + span is_dig (drop sz s) in mk TIntegerLiteral n s
      else if is_alpha_ r then
        let n := sz + span is_alnum_ (drop sz s) in
        let v := take n s in
        let t := if beqb v kw_in then TIn else if beqb v kw_let then TLet else TUnquotedIdentifier in
        mk t n s
      else Err (ELexUnexpectedRune r)
    end
  end.

(* The lexer's state is only its position and Next does not depend on the
   parser, so the token sequence is a function of the input.  The parser pulls
   from this stream; a lexical error is raised when (and only when) the parser
   pulls the item that carries it, exactly as with the lazy Go lexer. *)
Inductive item := ITok (t : token) | IErr (e : err) | IStuck.

Fixpoint lex_all_f (fuel : nat) (s : bytes) : list item :=
  match fuel with
  | O => [IStuck]
  | S f =>
    match lex_next s with
    | Ok (t, rest) =>
      match ttyp t with
      | TEnd => [ITok t]
      | _ => ITok t :: lex_all_f f rest
      end
    | Err e => [IErr e]
    | _ => [IStuck]
    end
  end.
Definition lex_all (s : bytes) : list item := lex_all_f (S (length s)) s.
