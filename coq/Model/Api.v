(* jmespath.go and errors.go: the public API and the error categories *)
From Coq Require Import List ZArith Bool.
From JM Require Import Base.Outcome Base.Bytes Json.Value Model.Ast Model.Parser Model.Eval.
Import ListNotations.
Open Scope Z_scope.

(* the eight exported sentinels *)
Inductive category :=
| CSyntax | CInvalidArity | CUnknownFunction | CInvalidType | CInvalidValue
| CNotANumber | CUndefinedVariable | CEvaluationFailed.

Definition category_eq_dec (a b : category) : {a = b} + {a <> b}.
Proof. decide equality. Defined.

(* parseError: the public error type chosen for an internal parse error, then
   the sentinel that type's Is method matches *)
Definition parse_category (e : err) : category :=
  match e with
  | EInvalidFunctionArgument _ => CInvalidType      (* invalidTypeError *)
  | EInvalidFunctionCall _ => CInvalidArity         (* invalidFunctionCallError *)
  | EInvalidSliceStep => CInvalidValue              (* invalidSliceStepError *)
  | EUnknownFunction _ => CUnknownFunction          (* unknownFunctionError *)
  | _ => CSyntax                                    (* invalidExpressionError *)
  end.

(* evaluateError: errors.Is against the evaluator's sentinels, in order *)
Definition eval_category (e : err) : category :=
  match e with
  | EInvalidType => CInvalidType
  | EIntegerConversion | ENegativeInteger | EPadLength | EFromItemsLength | EFromItemsKeyType => CInvalidValue
  | EInfinity | ENotANumber => CNotANumber
  | EUndefinedVariable _ => CUndefinedVariable
  | _ => CEvaluationFailed
  end.

Inductive result :=
| RValue (v : value)
| RError (c : category)
| RPanic
| RStuck        (* model fuel exhausted: never expected *)
| RUnmodelled.

Definition compile (expr : bytes) : outcome node := parse expr.

Definition lift_parse {A} (o : outcome A) (k : A -> result) : result :=
  match o with
  | Ok a => k a
  | Err e => RError (parse_category e)
  | Panic _ => RPanic
  | OutOfFuel => RStuck
  | Unmodelled => RUnmodelled
  end.
Definition lift_eval (o : outcome value) : result :=
  match o with
  | Ok v => RValue v
  | Err e => RError (eval_category e)
  | Panic _ => RPanic
  | OutOfFuel => RStuck
  | Unmodelled => RUnmodelled
  end.

(* Expression.Search *)
Definition expression_search (n : node) (data : value) : result := lift_eval (evaluate n data).
(* Search *)
Definition search (expr : bytes) (data : value) : result :=
  lift_parse (parse expr) (fun n => expression_search n data).
(* Compile, reduced to its observable outcome *)
Definition compile_result (expr : bytes) : result :=
  lift_parse (parse expr) (fun _ => RValue VNull).
