(* internal/parser/node.go.  Go has one node type per built-in function and
   arity; here those are grouped by arity (fn1..fn4, fnby, fnvar).  Every other
   node type, including each fused one, has its own constructor.  The
   correspondence between Go type names and these constructors is the table
   node_names, tied to the source by Gen/Generated.v. *)
From Coq Require Import List ZArith Bool.
From JM Require Import Base.Outcome Base.Bytes Json.Value.
Import ListNotations.
Open Scope Z_scope.

Inductive fn1 := FAbs | FAvg | FCeil | FFloor | FFromItems | FItems | FKeys | FLength | FLower
 | FMax | FMin | FReverse | FSort | FSum | FToArray | FToNumber | FToString
 | FTrimSpace | FTrimSpaceLeft | FTrimSpaceRight | FType | FUpper | FValues.
Inductive fn2 := FContains | FEndsWith | FFindFirst | FFindLast | FJoin | FPadSpaceLeft | FPadSpaceRight
 | FSplit | FStartsWith | FTrim | FTrimLeft | FTrimRight.
Inductive fn3 := FFindFirstFrom | FFindLastFrom | FPadLeft | FPadRight | FReplace | FSplitCount.
Inductive fn4 := FFindFirstBetween | FFindLastBetween | FReplaceCount.
Inductive fnby := FGroupBy | FMaxBy | FMinBy | FSortBy.
Inductive fnvar := FMerge | FNotNull | FZip.
Inductive binop := OAdd | OSub | OMul | ODiv | OIDiv | OMod | OEq | ONe | OLt | OLe | OGt | OGe.

Inductive node :=
| NCall1 (f : fn1) (a : node)
| NCall2 (f : fn2) (a b : node)
| NCall3 (f : fn3) (a b c : node)
| NCall4 (f : fn4) (a b c d : node)
| NCallBy (f : fnby) (a e : node)
| NMap (e a : node)
| NCallVar (f : fnvar) (args : list node)
| NBin (op : binop) (l r : node)
| NAnd (l r : node) | NOr (l r : node) | NNot (c : node)
| NNegate (c : node) | NAssertNumber (c : node)
| NLitArr (l : list value) | NLitObj (m : list (bytes * value))
| NBool (b : bool) | NNull | NNumber (text : bytes) | NString (s : bytes)
| NCurrent | NRoot | NField (name : bytes) | NVariable (name : bytes)
| NDefine (vars : list (bytes * node)) (child : node)
| NFilter (c f : node) | NFilterCurrent (f : node)
| NFilterAndProject (l f r : node) | NFilterAndProjectCurrent (f c : node)
| NFlatten (c : node) | NFlattenCurrent
| NFlattenAndProject (l r : node) | NFlattenAndProjectCurrent (c : node)
| NIndex (c : node) (i : Z) | NIndexCurrent (i : Z) | NSmallIndexCurrent (i : Z)
| NObjectValues (c : node) | NObjectValuesCurrent
| NPipe (l r : node)
| NProjectArray (l r : node) | NProjectArrayCurrent (c : node)
| NProjectObject (l r : node) | NProjectObjectCurrent (c : node)
| NPruneArray (c : node) | NPruneArrayCurrent
| NSelectArray (c : node) (fields : list node) | NSelectArrayCurrent (fields : list node)
| NSelectArraySingle (c f : node) | NSelectArraySingleCurrent (f : node)
| NSelectObject (c : node) (fields : list (bytes * node)) | NSelectObjectCurrent (fields : list (bytes * node))
| NSelectObjectSingle (c : node) (k : bytes) (f : node) | NSelectObjectSingleCurrent (k : bytes) (f : node)
| NSlice (c : node) (start stop : Z) | NSliceCurrent (start stop : Z)
| NSliceStep (c : node) (start stop step : Z) | NSliceStepCurrent (start stop step : Z).

(* internal/evaluator/slice.go: isSliceNode *)
Definition is_slice_node (n : node) : bool :=
  match n with
  | NSlice _ _ _ | NSliceCurrent _ _ | NSliceStep _ _ _ _ | NSliceStepCurrent _ _ _ => true
  | _ => false
  end.
