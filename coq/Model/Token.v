(* internal/lexer/token.go *)
From Coq Require Import List ZArith Bool.
From JM Require Import Base.Outcome Base.Bytes.
Import ListNotations.
Open Scope Z_scope.

Inductive ttype :=
| TUnknown | TEnd
| TOpenBrace | TCloseBrace | TOpenParen | TCloseParen | TOpenSqBrace | TCloseSqBrace
| TAdd | TAnd | TArrayWildcard | TAssign | TAsterisk | TColon | TComma | TDivide | TDot
| TEqual | TFilter | TFlatten | TIn | TGreater | TGreaterOrEqual | TIntegerDivide
| TLess | TLessOrEqual | TLet | TModulo | TMultiply | TNot | TNotEqual | TObjectWildcard
| TOr | TPipe | TSubtract
| TCurrent | TExpression | TIntegerLiteral | TJSONLiteral | TQuotedIdentifier | TRoot
| TUnquotedIdentifier | TStringLiteral | TVariable.

Definition ttype_eq_dec (a b : ttype) : {a = b} + {a <> b}.
Proof. decide equality. Defined.
Definition ttype_eqb (a b : ttype) : bool := if ttype_eq_dec a b then true else false.

Record token := Tok { ttyp : ttype; tval : bytes }.

Definition all_ttypes : list ttype :=
  [TUnknown; TEnd; TOpenBrace; TCloseBrace; TOpenParen; TCloseParen; TOpenSqBrace; TCloseSqBrace;
   TAdd; TAnd; TArrayWildcard; TAssign; TAsterisk; TColon; TComma; TDivide; TDot;
   TEqual; TFilter; TFlatten; TIn; TGreater; TGreaterOrEqual; TIntegerDivide;
   TLess; TLessOrEqual; TLet; TModulo; TMultiply; TNot; TNotEqual; TObjectWildcard;
   TOr; TPipe; TSubtract;
   TCurrent; TExpression; TIntegerLiteral; TJSONLiteral; TQuotedIdentifier; TRoot;
   TUnquotedIdentifier; TStringLiteral; TVariable].
